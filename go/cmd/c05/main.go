// Command c05 is the correspondence/oracle harness of property C05.
package main

import (
	"github.com/quay/claircore/verifharness/internal/c05"
	"github.com/quay/claircore/verifharness/internal/hx"
)

func main() { hx.Main("C05", c05.Run) }
