// Command c20 is the correspondence/oracle harness of property C20.
package main

import (
	"github.com/quay/claircore/verifharness/internal/c20"
	"github.com/quay/claircore/verifharness/internal/hx"
)

func main() { hx.Main("C20", c20.Run) }
