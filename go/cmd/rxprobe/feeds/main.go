// Command rxprobe/feeds evaluates the small tables of the feed parsers that
// Gen/Feeds lists: osv's repository name -> URI mapping and rhcc's GoldRepo
// (Tie A, "evaluate instead of parse": go/internal/extract/rxprobe.go).
//
// stdin:  {"repos": ["name", ...]}
// stdout: {"repos": [{"name": .., "uri": .., "key": ..}, ...], "gold": {"name","key","uri","other": bool}}
package main

import (
	"encoding/json"
	"fmt"
	"os"
	"reflect"

	"github.com/quay/claircore"
	"github.com/quay/claircore/rhel/rhcc"
	"github.com/quay/claircore/updater/osv"
)

type repo struct {
	Name  string `json:"name"`
	URI   string `json:"uri"`
	Key   string `json:"key"`
	Other bool   `json:"other"` // a field besides Name, Key, URI is set
}

func render(r claircore.Repository) repo {
	rest := r
	rest.Name, rest.Key, rest.URI = "", "", ""
	return repo{Name: r.Name, URI: r.URI, Key: r.Key, Other: !reflect.DeepEqual(rest, claircore.Repository{})}
}

func main() {
	var in struct {
		Repos []string `json:"repos"`
	}
	if err := json.NewDecoder(os.Stdin).Decode(&in); err != nil {
		fmt.Fprintln(os.Stderr, err)
		os.Exit(2)
	}
	var out struct {
		Repos []repo `json:"repos"`
		Gold  repo   `json:"gold"`
	}
	for _, n := range in.Repos {
		out.Repos = append(out.Repos, render(osv.LookupRepositoryForVerif(n)))
	}
	out.Gold = render(rhcc.GoldRepo)
	json.NewEncoder(os.Stdout).Encode(out)
}
