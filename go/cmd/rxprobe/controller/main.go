// Command rxprobe/controller evaluates the facts of Gen/Controller that an
// input can observe (Tie A, "evaluate instead of parse"):
//
//	names  State(i).String() for i = 0, 1, 2, … up to the first value String does
//	       not know (it panics with an index out of range there, or answers with a
//	       stringer fallback "State(n)")
//	table  the state -> state function map the run loop dispatches on
//	       (hook StateFuncsForVerif), each function by the name the runtime has
//	       for its code
//
// stdout: {"names": [...], "table": [{"state": n, "fn": "checkManifest"}, ...]}
package main

import (
	"encoding/json"
	"fmt"
	"os"
	"reflect"
	"runtime"
	"sort"
	"strings"

	"github.com/quay/claircore/indexer/controller"
)

func nameOf(i int) (s string, ok bool) {
	defer func() {
		if recover() != nil {
			s, ok = "", false
		}
	}()
	s = controller.State(i).String()
	if s == fmt.Sprintf("State(%d)", i) || s == "" {
		return "", false
	}
	return s, true
}

type row struct {
	State int    `json:"state"`
	Fn    string `json:"fn"`
}

func main() {
	var out struct {
		Names []string `json:"names"`
		Table []row    `json:"table"`
	}
	for i := 0; i < 256; i++ {
		s, ok := nameOf(i)
		if !ok {
			// everything after the last name must be unknown as well
			for j := i; j < i+64; j++ {
				if t, ok := nameOf(j); ok {
					fmt.Fprintf(os.Stderr, "State %d has no name but %d is %q: not one contiguous run from 0\n", i, j, t)
					os.Exit(1)
				}
			}
			break
		}
		out.Names = append(out.Names, s)
	}
	for st, fn := range controller.StateFuncsForVerif() {
		if fn == nil {
			out.Table = append(out.Table, row{int(st), "<nil>"})
			continue
		}
		n := runtime.FuncForPC(reflect.ValueOf(fn).Pointer()).Name()
		// github.com/quay/claircore/indexer/controller.checkManifest
		const pkg = "github.com/quay/claircore/indexer/controller."
		n = strings.TrimPrefix(n, pkg)
		out.Table = append(out.Table, row{int(st), n})
	}
	sort.Slice(out.Table, func(i, j int) bool { return out.Table[i].State < out.Table[j].State })
	if err := json.NewEncoder(os.Stdout).Encode(out); err != nil {
		fmt.Fprintln(os.Stderr, err)
		os.Exit(1)
	}
}
