// Command rxprobe/querybuilder evaluates datastore/postgres buildGetQuery: the
// SQL text for a record whose every field holds a marker naming the field, once
// per match constraint, with and without the distribution / repository, and
// with version filtering (Tie A, "evaluate instead of parse":
// go/internal/extract/rxprobe.go).
//
// stdin:  {"constraints": [int...]}
// stdout: {"base": sql, "versionFilter": sql, "kindMarker": .., "cpe": text of the distribution CPE,
//
//	"constraints": [{"c": int, "sql": .., "err": .., "noDist": "ok|err|panic", "noRepo": ..}],
//	"source": {"base": sql for the record with a source package, "nilSource": {"sql","state"} for the plain record,
//	           "empty": {"<string field of the package or its source>": {"sql","state"} with that field empty},
//	           "versionFilter", "constraints": as above, for the record with a source package}}
//
// ("source" is what Gen/JoinQuery reads: the package / source-package clause and its guards.)
package main

import (
	"encoding/json"
	"fmt"
	"os"

	"github.com/quay/claircore"
	"github.com/quay/claircore/datastore"
	"github.com/quay/claircore/datastore/postgres"
	"github.com/quay/claircore/libvuln/driver"
	"github.com/quay/claircore/toolkit/types/cpe"
)

func mark(path string) string { return "~rx:" + path + "~" }

func record() *claircore.IndexRecord {
	return &claircore.IndexRecord{
		Package: &claircore.Package{
			ID: mark("Package.ID"), Name: mark("Package.Name"), Version: mark("Package.Version"), Kind: mark("Package.Kind"),
			Module: mark("Package.Module"), Arch: mark("Package.Arch"), PackageDB: mark("Package.PackageDB"), RepositoryHint: mark("Package.RepositoryHint"),
			NormalizedVersion: claircore.Version{Kind: mark("Package.NormalizedVersion.Kind"), V: [10]int32{1, 2, 3, 4, 5, 6, 7, 8, 9, 10}},
		},
		Distribution: &claircore.Distribution{
			ID: mark("Distribution.ID"), DID: mark("Distribution.DID"), Name: mark("Distribution.Name"), Version: mark("Distribution.Version"),
			VersionCodeName: mark("Distribution.VersionCodeName"), VersionID: mark("Distribution.VersionID"), Arch: mark("Distribution.Arch"),
			PrettyName: mark("Distribution.PrettyName"), CPE: cpe.MustUnbind("cpe:2.3:o:rxdistvendor:rxdistproduct:1:*:*:*:*:*:*:*"),
		},
		Repository: &claircore.Repository{
			ID: mark("Repository.ID"), Name: mark("Repository.Name"), Key: mark("Repository.Key"), URI: mark("Repository.URI"),
			CPE: cpe.MustUnbind("cpe:2.3:a:rxrepovendor:rxrepoproduct:1:*:*:*:*:*:*:*"),
		},
	}
}

// sourceRecord is record() with a source package whose fields hold markers too.
func sourceRecord() *claircore.IndexRecord {
	r := record()
	r.Package.Source = &claircore.Package{
		ID: mark("Package.Source.ID"), Name: mark("Package.Source.Name"), Version: mark("Package.Source.Version"), Kind: mark("Package.Source.Kind"),
		Module: mark("Package.Source.Module"), Arch: mark("Package.Source.Arch"), PackageDB: mark("Package.Source.PackageDB"),
		RepositoryHint:    mark("Package.Source.RepositoryHint"),
		NormalizedVersion: claircore.Version{Kind: mark("Package.Source.NormalizedVersion.Kind")},
	}
	return r
}

// pkgFields: the string fields of a package, as setters.
var pkgFields = []struct {
	name string
	set  func(*claircore.Package, string)
}{
	{"ID", func(p *claircore.Package, s string) { p.ID = s }},
	{"Name", func(p *claircore.Package, s string) { p.Name = s }},
	{"Version", func(p *claircore.Package, s string) { p.Version = s }},
	{"Kind", func(p *claircore.Package, s string) { p.Kind = s }},
	{"Module", func(p *claircore.Package, s string) { p.Module = s }},
	{"Arch", func(p *claircore.Package, s string) { p.Arch = s }},
	{"PackageDB", func(p *claircore.Package, s string) { p.PackageDB = s }},
	{"RepositoryHint", func(p *claircore.Package, s string) { p.RepositoryHint = s }},
	{"NormalizedVersion.Kind", func(p *claircore.Package, s string) { p.NormalizedVersion.Kind = s }},
}

func build(r *claircore.IndexRecord, opts *datastore.GetOpts) (sql, errs, state string) {
	defer func() {
		if x := recover(); x != nil {
			sql, errs, state = "", fmt.Sprint(x), "panic"
		}
	}()
	q, err := postgres.BuildGetQueryForVerif(r, opts)
	if err != nil {
		return "", err.Error(), "err"
	}
	return q, "", "ok"
}

func main() {
	var in struct {
		Constraints []int `json:"constraints"`
	}
	if err := json.NewDecoder(os.Stdin).Decode(&in); err != nil {
		fmt.Fprintln(os.Stderr, err)
		os.Exit(2)
	}
	type one struct {
		C      int    `json:"c"`
		SQL    string `json:"sql"`
		Err    string `json:"err"`
		State  string `json:"state"`
		NoDist string `json:"noDist"`
		NoRepo string `json:"noRepo"`
		Twice  bool   `json:"twice"` // naming the constraint twice gives the same text as naming it once
	}
	type built struct {
		SQL   string `json:"sql"`
		State string `json:"state"`
	}
	var out struct {
		Base          string `json:"base"`
		VersionFilter string `json:"versionFilter"`
		KindMarker    string `json:"kindMarker"`
		DistCPE       string `json:"distCPE"`
		RepoCPE       string `json:"repoCPE"`
		Constraints   []one  `json:"constraints"`
		Source        struct {
			Base          string           `json:"base"`
			NilSource     built            `json:"nilSource"`
			Empty         map[string]built `json:"empty"`
			VersionFilter string           `json:"versionFilter"`
			Constraints   []one            `json:"constraints"` // as "constraints", for the record with a source package
		} `json:"source"`
	}
	out.Base, _, _ = build(record(), &datastore.GetOpts{})
	out.VersionFilter, _, _ = build(record(), &datastore.GetOpts{VersionFiltering: true})
	out.KindMarker = mark("Package.NormalizedVersion.Kind")
	out.DistCPE = record().Distribution.CPE.String()
	out.RepoCPE = record().Repository.CPE.String()
	for _, c := range in.Constraints {
		o := one{C: c}
		opts := &datastore.GetOpts{Matchers: []driver.MatchConstraint{driver.MatchConstraint(c)}}
		o.SQL, o.Err, o.State = build(record(), opts)
		r := record()
		r.Distribution = nil
		_, _, o.NoDist = build(r, opts)
		r = record()
		r.Repository = nil
		_, _, o.NoRepo = build(r, opts)
		two, _, _ := build(record(), &datastore.GetOpts{Matchers: []driver.MatchConstraint{driver.MatchConstraint(c), driver.MatchConstraint(c)}})
		o.Twice = two == o.SQL
		out.Constraints = append(out.Constraints, o)
	}
	// the package / source-package clause and its guards (Gen/JoinQuery)
	out.Source.Base, _, _ = build(sourceRecord(), &datastore.GetOpts{})
	out.Source.NilSource.SQL, _, out.Source.NilSource.State = build(record(), &datastore.GetOpts{})
	out.Source.Empty = map[string]built{}
	for _, f := range pkgFields {
		r := sourceRecord()
		f.set(r.Package, "")
		var b built
		b.SQL, _, b.State = build(r, &datastore.GetOpts{})
		out.Source.Empty["Package."+f.name] = b
		r = sourceRecord()
		f.set(r.Package.Source, "")
		b = built{}
		b.SQL, _, b.State = build(r, &datastore.GetOpts{})
		out.Source.Empty["Package.Source."+f.name] = b
	}
	out.Source.VersionFilter, _, _ = build(sourceRecord(), &datastore.GetOpts{VersionFiltering: true})
	for _, c := range in.Constraints {
		o := one{C: c}
		opts := &datastore.GetOpts{Matchers: []driver.MatchConstraint{driver.MatchConstraint(c)}}
		o.SQL, o.Err, o.State = build(sourceRecord(), opts)
		r := sourceRecord()
		r.Distribution = nil
		_, _, o.NoDist = build(r, opts)
		r = sourceRecord()
		r.Repository = nil
		_, _, o.NoRepo = build(r, opts)
		two, _, _ := build(sourceRecord(), &datastore.GetOpts{Matchers: []driver.MatchConstraint{driver.MatchConstraint(c), driver.MatchConstraint(c)}})
		o.Twice = two == o.SQL
		out.Source.Constraints = append(out.Source.Constraints, o)
	}
	json.NewEncoder(os.Stdout).Encode(out)
}
