// Command rxprobe/querybuilder evaluates datastore/postgres buildGetQuery: the
// SQL text for a record whose every field holds a marker naming the field, once
// per match constraint, with and without the distribution / repository, and
// with version filtering (Tie A, "evaluate instead of parse":
// go/internal/extract/rxprobe.go).
//
// stdin:  {"constraints": [int...]}
// stdout: {"base": sql, "versionFilter": sql, "kindMarker": .., "cpe": text of the distribution CPE,
//
//	"constraints": [{"c": int, "sql": .., "err": .., "noDist": "ok|err|panic", "noRepo": ..}]}
package main

import (
	"encoding/json"
	"fmt"
	"os"

	"github.com/quay/claircore"
	"github.com/quay/claircore/datastore"
	"github.com/quay/claircore/datastore/postgres"
	"github.com/quay/claircore/libvuln/driver"
	"github.com/quay/claircore/toolkit/types/cpe"
)

func mark(path string) string { return "~rx:" + path + "~" }

func record() *claircore.IndexRecord {
	return &claircore.IndexRecord{
		Package: &claircore.Package{
			ID: mark("Package.ID"), Name: mark("Package.Name"), Version: mark("Package.Version"), Kind: mark("Package.Kind"),
			Module: mark("Package.Module"), Arch: mark("Package.Arch"), PackageDB: mark("Package.PackageDB"), RepositoryHint: mark("Package.RepositoryHint"),
			NormalizedVersion: claircore.Version{Kind: mark("Package.NormalizedVersion.Kind"), V: [10]int32{1, 2, 3, 4, 5, 6, 7, 8, 9, 10}},
		},
		Distribution: &claircore.Distribution{
			ID: mark("Distribution.ID"), DID: mark("Distribution.DID"), Name: mark("Distribution.Name"), Version: mark("Distribution.Version"),
			VersionCodeName: mark("Distribution.VersionCodeName"), VersionID: mark("Distribution.VersionID"), Arch: mark("Distribution.Arch"),
			PrettyName: mark("Distribution.PrettyName"), CPE: cpe.MustUnbind("cpe:2.3:o:rxdistvendor:rxdistproduct:1:*:*:*:*:*:*:*"),
		},
		Repository: &claircore.Repository{
			ID: mark("Repository.ID"), Name: mark("Repository.Name"), Key: mark("Repository.Key"), URI: mark("Repository.URI"),
			CPE: cpe.MustUnbind("cpe:2.3:a:rxrepovendor:rxrepoproduct:1:*:*:*:*:*:*:*"),
		},
	}
}

func build(r *claircore.IndexRecord, opts *datastore.GetOpts) (sql, errs, state string) {
	defer func() {
		if x := recover(); x != nil {
			sql, errs, state = "", fmt.Sprint(x), "panic"
		}
	}()
	q, err := postgres.BuildGetQueryForVerif(r, opts)
	if err != nil {
		return "", err.Error(), "err"
	}
	return q, "", "ok"
}

func main() {
	var in struct {
		Constraints []int `json:"constraints"`
	}
	if err := json.NewDecoder(os.Stdin).Decode(&in); err != nil {
		fmt.Fprintln(os.Stderr, err)
		os.Exit(2)
	}
	type one struct {
		C      int    `json:"c"`
		SQL    string `json:"sql"`
		Err    string `json:"err"`
		State  string `json:"state"`
		NoDist string `json:"noDist"`
		NoRepo string `json:"noRepo"`
		Twice  bool   `json:"twice"` // naming the constraint twice gives the same text as naming it once
	}
	var out struct {
		Base          string `json:"base"`
		VersionFilter string `json:"versionFilter"`
		KindMarker    string `json:"kindMarker"`
		DistCPE       string `json:"distCPE"`
		RepoCPE       string `json:"repoCPE"`
		Constraints   []one  `json:"constraints"`
	}
	out.Base, _, _ = build(record(), &datastore.GetOpts{})
	out.VersionFilter, _, _ = build(record(), &datastore.GetOpts{VersionFiltering: true})
	out.KindMarker = mark("Package.NormalizedVersion.Kind")
	out.DistCPE = record().Distribution.CPE.String()
	out.RepoCPE = record().Repository.CPE.String()
	for _, c := range in.Constraints {
		o := one{C: c}
		opts := &datastore.GetOpts{Matchers: []driver.MatchConstraint{driver.MatchConstraint(c)}}
		o.SQL, o.Err, o.State = build(record(), opts)
		r := record()
		r.Distribution = nil
		_, _, o.NoDist = build(r, opts)
		r = record()
		r.Repository = nil
		_, _, o.NoRepo = build(r, opts)
		two, _, _ := build(record(), &datastore.GetOpts{Matchers: []driver.MatchConstraint{driver.MatchConstraint(c), driver.MatchConstraint(c)}})
		o.Twice = two == o.SQL
		out.Constraints = append(out.Constraints, o)
	}
	json.NewEncoder(os.Stdout).Encode(out)
}
