// Command rxprobe/c06guards EVALUATES the guard facts of Gen/C06Guards (Tie A,
// "evaluate instead of parse"): for every defect of property C06 that a `fix:`
// commit repaired, the input that showed the defect is run against the REAL
// function, and the fact is true when the input is now handled — an answer
// (error or not) within the time limit, without panic, stack overflow, crash of
// the process or an allocation out of proportion.  How the guard is written
// (which condition, in which helper, in which order) does not matter.
//
// Every witness runs in a child process (this program with `-w <name>`): a
// stack overflow or a finalizer panic kills a process, and a runaway allocation
// is cut off by a watchdog.  stdout of the parent:
//
//	{"facts": {"<fact>": {"ok": bool, "witnesses": [{"name", "handled", "detail"}]}}}
package main

import (
	"archive/zip"
	"bytes"
	"compress/flate"
	"context"
	"crypto/sha256"
	"encoding/binary"
	"encoding/json"
	"fmt"
	"hash/crc32"
	"os"
	"os/exec"
	"path/filepath"
	"runtime"
	"runtime/debug"
	"sort"
	"strings"
	"sync"
	"sync/atomic"
	"time"

	"github.com/rs/zerolog"

	"github.com/quay/claircore"
	"github.com/quay/claircore/apk"
	"github.com/quay/claircore/dpkg"
	"github.com/quay/claircore/indexer"
	"github.com/quay/claircore/java/jar"
	"github.com/quay/claircore/osrelease"
	"github.com/quay/claircore/pkg/tarfs"
	"github.com/quay/claircore/rhel/dockerfile"
	"github.com/quay/claircore/rpm"
	"github.com/quay/claircore/rpm/bdb"
	"github.com/quay/claircore/rpm/ndb"
	"github.com/quay/claircore/rpm/sqlite"
)

// ---- builders ----

func tarHeader(name string, typ byte, size int64, link string) []byte {
	b := make([]byte, 512)
	copy(b[0:100], name)
	copy(b[100:108], "0000755\x00")
	copy(b[108:116], "0000000\x00")
	copy(b[116:124], "0000000\x00")
	copy(b[124:136], fmt.Sprintf("%011o\x00", size))
	copy(b[136:148], "00000000000\x00")
	b[156] = typ
	copy(b[157:257], link)
	copy(b[257:263], "ustar\x00")
	copy(b[263:265], "00")
	copy(b[148:156], "        ")
	sum := 0
	for _, c := range b {
		sum += int(c)
	}
	copy(b[148:156], fmt.Sprintf("%06o\x00 ", sum))
	return b
}

func tarFile(name string, body []byte) []byte {
	b := append(tarHeader(name, '0', int64(len(body)), ""), body...)
	return append(b, make([]byte, (512-len(body)%512)%512)...)
}

func tarEnd() []byte { return make([]byte, 1024) }

func cat(bs ...[]byte) []byte { return bytes.Join(bs, nil) }

func paxRecords(kv ...string) []byte {
	var body []byte
	for i := 0; i+1 < len(kv); i += 2 {
		n := len(kv[i]) + len(kv[i+1]) + 3
		l := len(fmt.Sprint(n))
		if len(fmt.Sprint(n+l)) > l {
			l++
		}
		body = append(body, fmt.Sprintf("%d %s=%s\n", n+l, kv[i], kv[i+1])...)
	}
	x := append(tarHeader("PaxHeaders.0/x", 'x', int64(len(body)), ""), body...)
	return append(x, make([]byte, (512-len(body)%512)%512)...)
}

type zipMember struct {
	name      string
	body      []byte
	method    uint16
	claimSize uint64 // != 0: written raw with this uncompressed size in the headers
}

func buildZip(ms []zipMember) []byte {
	var buf bytes.Buffer
	zw := zip.NewWriter(&buf)
	for _, m := range ms {
		fh := &zip.FileHeader{Name: m.name, Method: m.method}
		if m.claimSize == 0 {
			w, err := zw.CreateHeader(fh)
			if err != nil {
				panic(err)
			}
			w.Write(m.body)
			continue
		}
		data := m.body
		if m.method == zip.Deflate {
			var db bytes.Buffer
			fw, _ := flate.NewWriter(&db, flate.BestSpeed)
			fw.Write(m.body)
			fw.Close()
			data = db.Bytes()
		}
		fh.CRC32 = crc32.ChecksumIEEE(m.body)
		fh.UncompressedSize64 = m.claimSize
		fh.CompressedSize64 = uint64(len(data))
		w, err := zw.CreateRaw(fh)
		if err != nil {
			panic(err)
		}
		w.Write(data)
	}
	zw.Close()
	return append([]byte(nil), buf.Bytes()...)
}

var manifest = zipMember{name: "META-INF/MANIFEST.MF", body: []byte("Manifest-Version: 1.0\r\n\r\n"), method: zip.Store}

func nestedJar(n int) []byte {
	z := buildZip([]zipMember{{name: "META-INF/", method: zip.Store}, manifest})
	for i := 0; i < n; i++ {
		z = buildZip([]zipMember{{name: "META-INF/", method: zip.Store}, manifest, {name: "javax.jar", body: z, method: zip.Store}})
	}
	return z
}

// bdbShared is a 512-byte-page Berkeley hash database whose hash page holds
// `items` off-page items, every one pointing at overflow page 2; page 2 links
// to `next`.
func bdbShared(items int, next uint32) []byte {
	le := binary.LittleEndian
	const ps = 512
	b := make([]byte, 4*ps)
	le.PutUint32(b[12:], 0x00061561)
	le.PutUint32(b[16:], 9)
	le.PutUint32(b[20:], ps)
	b[25] = 8
	le.PutUint32(b[32:], 3)
	p := b[ps : 2*ps]
	le.PutUint32(p[8:], 1)
	p[25] = 13
	le.PutUint16(p[20:], uint16(2*items))
	hdr := []byte{0, 0, 0, 1, 0, 0, 0, 4, 0, 0, 3, 232, 0, 0, 0, 6, 0, 0, 0, 0, 0, 0, 0, 1, 'a', 0, 0, 0}
	low := ps
	for i := 0; i < items; i++ {
		key, data := ps-5-40*i, ps-20-40*i
		p[key] = 1
		p[data] = 3
		le.PutUint32(p[data+4:], 2)
		le.PutUint32(p[data+8:], uint32(len(hdr)))
		le.PutUint16(p[26+4*i:], uint16(key))
		le.PutUint16(p[28+4*i:], uint16(data))
		low = data
	}
	le.PutUint16(p[22:], uint16(low))
	o := b[2*ps : 3*ps]
	le.PutUint32(o[8:], 2)
	o[25] = 7
	le.PutUint32(o[16:], next)
	le.PutUint16(o[22:], uint16(len(hdr)))
	copy(o[26:], hdr)
	h := b[3*ps:]
	le.PutUint32(h[8:], 3)
	h[25] = 13
	return b
}

// ---- running the real code ----

const layerMT = "application/vnd.oci.image.layer.v1.tar"

func withLayer(blob []byte, f func(ctx context.Context, l *claircore.Layer) error) error {
	ctx := context.Background()
	var l claircore.Layer
	d := sha256.Sum256(blob)
	desc := claircore.LayerDescription{Digest: fmt.Sprintf("sha256:%x", d), MediaType: layerMT}
	if err := l.Init(ctx, &desc, bytes.NewReader(blob)); err != nil {
		return fmt.Errorf("Layer.Init: %w", err)
	}
	defer l.Close()
	return f(ctx, &l)
}

func alloc(f func()) uint64 {
	var a, b runtime.MemStats
	runtime.GC()
	runtime.ReadMemStats(&a)
	f()
	runtime.ReadMemStats(&b)
	return b.TotalAlloc - a.TotalAlloc
}

type result struct {
	Handled bool   `json:"handled"`
	Detail  string `json:"detail"`
}

func ok(f string, a ...any) result  { return result{true, fmt.Sprintf(f, a...)} }
func bad(f string, a ...any) result { return result{false, fmt.Sprintf(f, a...)} }

func openMust(blob []byte, wantErr bool, names ...string) result {
	sys, err := tarfs.New(bytes.NewReader(blob))
	if err != nil {
		return ok("tarfs.New refused the archive: %v", err)
	}
	for _, n := range names {
		f, err := sys.Open(n)
		if err == nil {
			f.Close()
			if wantErr {
				return bad("Open(%q) succeeded", n)
			}
		}
	}
	return ok("answered")
}

type trivialScanner struct{}

func (trivialScanner) Name() string    { return "rx-trivial" }
func (trivialScanner) Version() string { return "1" }
func (trivialScanner) Kind() string    { return "package" }
func (trivialScanner) Scan(context.Context, *claircore.Layer) ([]*claircore.Package, error) {
	n := running.Add(1)
	for {
		m := maxRunning.Load()
		if n <= m || maxRunning.CompareAndSwap(m, n) {
			break
		}
	}
	time.Sleep(15 * time.Millisecond)
	running.Add(-1)
	return []*claircore.Package{{Name: "rx", Version: "1", Kind: claircore.BINARY}}, nil
}

var running, maxRunning atomic.Int64

// nullStore is the part of indexer.Store a LayerScanner uses.
type nullStore struct {
	indexer.Store
	mu           sync.Mutex
	indexed, set int
}

func (s *nullStore) LayerScanned(context.Context, claircore.Digest, indexer.VersionedScanner) (bool, error) {
	return false, nil
}

func (s *nullStore) SetLayerScanned(context.Context, claircore.Digest, indexer.VersionedScanner) error {
	s.mu.Lock()
	defer s.mu.Unlock()
	s.set++
	return nil
}

func (s *nullStore) IndexPackages(_ context.Context, v []*claircore.Package, _ *claircore.Layer, _ indexer.VersionedScanner) error {
	s.mu.Lock()
	defer s.mu.Unlock()
	s.indexed += len(v)
	return nil
}

func (s *nullStore) IndexDistributions(context.Context, []*claircore.Distribution, *claircore.Layer, indexer.VersionedScanner) error {
	return nil
}

func (s *nullStore) IndexRepositories(context.Context, []*claircore.Repository, *claircore.Layer, indexer.VersionedScanner) error {
	return nil
}

func (s *nullStore) IndexFiles(context.Context, []claircore.File, *claircore.Layer, indexer.VersionedScanner) error {
	return nil
}

func dockerfileBounded(content string) result {
	var err error
	a := alloc(func() { _, err = dockerfile.GetLabels(context.Background(), strings.NewReader(content)) })
	if a > 128<<20 {
		return bad("GetLabels allocated %d bytes for a %d-byte Dockerfile", a, len(content))
	}
	return ok("alloc %d, err %v", a, err != nil)
}

func doubling(envLine func(i int) string, label string) string {
	var sb strings.Builder
	sb.WriteString("ENV v0 A\n")
	for i := 1; i <= 26; i++ {
		sb.WriteString(envLine(i))
	}
	sb.WriteString(label)
	return sb.String()
}

type witness struct {
	name string
	run  func() result
}

// fact -> witnesses
var facts = []struct {
	name string
	ws   []witness
}{
	{"tarfsOpenSymlinkHopBound", []witness{
		{"symlink a->b, b->a: Open(a)", func() result {
			return openMust(cat(tarHeader("a", '2', 0, "b"), tarHeader("b", '2', 0, "a"), tarEnd()), true, "a", "b")
		}},
		{"symlink a->b, b->a, etc/os-release->/a", func() result {
			return openMust(cat(tarHeader("a", '2', 0, "b"), tarHeader("b", '2', 0, "a"), tarHeader("etc/os-release", '2', 0, "/a"), tarEnd()), true, "etc/os-release")
		}},
	}},
	{"tarfsOpenHardlinkHopBound", []witness{
		{"hard link a->b, b->a: Open(a)", func() result {
			return openMust(cat(tarHeader("a", '1', 0, "b"), tarHeader("b", '1', 0, "a"), tarEnd()), true, "a", "b")
		}},
		{"hard link a->b, b->c, c->a", func() result {
			return openMust(cat(tarHeader("a", '1', 0, "b"), tarHeader("b", '1', 0, "c"), tarHeader("c", '1', 0, "a"), tarEnd()), true, "a", "b", "c")
		}},
	}},
	{"tarfsAddHopBound", []witness{
		{"symlink a->a, then file a", func() result {
			return openMust(cat(tarHeader("a", '2', 0, "a"), tarFile("a", []byte("x")), tarEnd()), false, "a")
		}},
		{"symlink a->b, b->a, then file a", func() result {
			return openMust(cat(tarHeader("a", '2', 0, "b"), tarHeader("b", '2', 0, "a"), tarFile("a", []byte("x")), tarEnd()), false, "a")
		}},
	}},
	{"tarfsOpenChecksSize", []witness{
		{"PAX size record 2^63-1 over an empty member", func() result {
			return openMust(cat(paxRecords("size", "9223372036854775807"), tarHeader("etc/os-release", '0', 0, ""), tarEnd()), true, "etc/os-release")
		}},
		{"a hard link to such a member", func() result {
			return openMust(cat(paxRecords("size", "9223372036854775807"), tarHeader("etc/os-release", '0', 0, ""), tarHeader("lnk", '1', 0, "etc/os-release"), tarEnd()), true, "lnk")
		}},
		{"a hard link to a hard link to such a member", func() result {
			return openMust(cat(paxRecords("size", "9223372036854775807"), tarHeader("etc/os-release", '0', 0, ""), tarHeader("l1", '1', 0, "etc/os-release"), tarHeader("l2", '1', 0, "l1"), tarEnd()), true, "l2")
		}},
	}},
	{"tarfsWalkCycleCheck", []witness{
		{"directory symlinks d1->d2, d2->d1: Open(d1/x)", func() result {
			return openMust(cat(tarHeader("d1", '2', 0, "d2"), tarHeader("d2", '2', 0, "d1"), tarEnd()), true, "d1/x", "d2/y/z")
		}},
		{"a file under a symlink cycle", func() result {
			return openMust(cat(tarHeader("d1", '2', 0, "d2"), tarHeader("d2", '2', 0, "d1"), tarFile("d1/f", []byte("x")), tarEnd()), false, "d1/f")
		}},
	}},
	{"layerFinalizerAfterInit", []witness{
		{"failed Init (unknown media type, archive that is none), layer dropped, collections", func() result {
			for i := 0; i < 20; i++ {
				func() {
					var l claircore.Layer
					desc := claircore.LayerDescription{Digest: "sha256:" + strings.Repeat("0", 64), MediaType: "application/x-rx-unknown"}
					if err := l.Init(context.Background(), &desc, bytes.NewReader(nil)); err == nil {
						l.Close()
					}
					l2 := new(claircore.Layer)
					desc.MediaType = layerMT
					if err := l2.Init(context.Background(), &desc, strings.NewReader(strings.Repeat("not a tar ", 200))); err == nil {
						l2.Close()
					}
				}()
				runtime.GC()
				runtime.GC()
				time.Sleep(5 * time.Millisecond)
			}
			return ok("survived the collections")
		}},
	}},
	{"dpkgRestartOnlyOnProtocolError", []witness{
		{"status file whose PAX size is larger than its data", func() result {
			status := []byte("Package: a\nStatus: install ok installed\nVersion: 1\nArchitecture: all\n\n")
			blob := cat(tarHeader("var/lib/dpkg/", '5', 0, ""), tarHeader("var/lib/dpkg/info/", '5', 0, ""), paxRecords("size", "600"), tarFile("var/lib/dpkg/status", status), tarEnd())
			err := withLayer(blob, func(ctx context.Context, l *claircore.Layer) error {
				_, err := new(dpkg.Scanner).Scan(ctx, l)
				return err
			})
			return ok("returned: %v", err)
		}},
	}},
	{"apkLineLengthGuard", []witness{
		{"installed = one newline; short lines", func() result {
			for _, body := range []string{"\n", "P:a\n\n\nV:1\n", "P\n", "\n\n"} {
				withLayer(cat(tarFile("lib/apk/db/installed", []byte(body)), tarEnd()), func(ctx context.Context, l *claircore.Layer) error {
					_, err := new(apk.Scanner).Scan(ctx, l)
					return err
				})
			}
			return ok("no panic")
		}},
	}},
	{"osreleaseEmptyLineFirst", []witness{
		{"empty and blank lines", func() result {
			for _, body := range []string{"\n", "\n\nID=x\n", " \n\t\nID=x\n", "ID=x\n\n", "\r\n"} {
				osrelease.Parse(context.Background(), strings.NewReader(body))
			}
			return ok("no panic")
		}},
	}},
	{"jarManifestLimited", []witness{
		{"manifest = Deflate(64 MiB of NULs + CRLF)", func() result {
			body := append(make([]byte, 64<<20), '\r', '\n')
			z := buildZip([]zipMember{{name: "META-INF/", method: zip.Store}, {name: "META-INF/MANIFEST.MF", body: body, method: zip.Deflate}})
			body = nil
			zr, err := zip.NewReader(bytes.NewReader(z), int64(len(z)))
			if err != nil {
				return bad("witness is no zip: %v", err)
			}
			a := alloc(func() { jar.Parse(context.Background(), "a.jar", zr) })
			if a > 256<<20 {
				return bad("jar.Parse allocated %d bytes for a %d-byte jar", a, len(z))
			}
			return ok("alloc %d", a)
		}},
	}},
	{"jarNestingBounded", []witness{
		{"a jar nested 1000 deep", func() result {
			z := nestedJar(1000)
			zr, err := zip.NewReader(bytes.NewReader(z), int64(len(z)))
			if err != nil {
				return bad("witness is no zip: %v", err)
			}
			a := alloc(func() { jar.Parse(context.Background(), "a.jar", zr) })
			if a > uint64(24*len(z))+(4<<20) {
				return bad("jar.Parse allocated %d bytes for a %d-byte jar", a, len(z))
			}
			return ok("alloc %d for %d bytes", a, len(z))
		}},
	}},
	{"jarPreallocBounded", []witness{
		{"a stored member claiming 2^33 / 2^62 bytes", func() result {
			for _, claim := range []uint64{1 << 33, 1 << 62, 1<<31 - 1} {
				z := buildZip([]zipMember{{name: "META-INF/", method: zip.Store}, manifest,
					{name: "x.jar", body: []byte("PK\x03\x04 a 32-byte body of a stored jar"), method: zip.Store, claimSize: claim}})
				zr, err := zip.NewReader(bytes.NewReader(z), int64(len(z)))
				if err != nil {
					continue
				}
				a := alloc(func() { jar.Parse(context.Background(), "a.jar", zr) })
				if a > 64<<20 {
					return bad("jar.Parse allocated %d bytes for a member claiming %d", a, claim)
				}
			}
			return ok("modest allocation")
		}},
	}},
	{"layerScannerRectifiesConcurrency", []witness{
		{"NewLayerScanner with concurrency 0 and -3 scans a layer", func() result {
			for _, c := range []int{0, -3} {
				ctx := context.Background()
				store := &nullStore{}
				sc := trivialScanner{}
				opts := &indexer.Options{Store: store, Ecosystems: []*indexer.Ecosystem{{
					Name:                 "rx",
					PackageScanners:      func(context.Context) ([]indexer.PackageScanner, error) { return []indexer.PackageScanner{sc}, nil },
					DistributionScanners: func(context.Context) ([]indexer.DistributionScanner, error) { return nil, nil },
					RepositoryScanners:   func(context.Context) ([]indexer.RepositoryScanner, error) { return nil, nil },
					FileScanners:         func(context.Context) ([]indexer.FileScanner, error) { return nil, nil },
					Coalescer:            func(context.Context) (indexer.Coalescer, error) { return nil, nil },
				}}}
				ls, err := indexer.NewLayerScanner(ctx, c, opts)
				if err != nil {
					return bad("NewLayerScanner(%d): %v", c, err)
				}
				// many layers: the scanner sleeps, so the number running at once is what the limit allows
				nl := 6*runtime.GOMAXPROCS(0) + 8
				var layers []*claircore.Layer
				for i := 0; i < nl; i++ {
					blob := cat(tarFile(fmt.Sprintf("etc/x%d", i), []byte("x")), tarEnd())
					l := new(claircore.Layer)
					d := sha256.Sum256(blob)
					if err := l.Init(ctx, &claircore.LayerDescription{Digest: fmt.Sprintf("sha256:%x", d), MediaType: layerMT}, bytes.NewReader(blob)); err != nil {
						return bad("Layer.Init: %v", err)
					}
					defer l.Close()
					layers = append(layers, l)
				}
				maxRunning.Store(0)
				if err := ls.Scan(ctx, layers[0].Hash, layers); err != nil {
					return bad("Scan with concurrency %d: %v", c, err)
				}
				if store.indexed != nl || store.set != nl {
					return bad("Scan with concurrency %d did not run the scanner on every layer (%d packages indexed, %d scans recorded, %d layers)", c, store.indexed, store.set, nl)
				}
				if m := int(maxRunning.Load()); m > runtime.GOMAXPROCS(0) {
					return bad("Scan with concurrency %d ran %d scans at once (GOMAXPROCS %d)", c, m, runtime.GOMAXPROCS(0))
				}
			}
			return ok("scans complete")
		}},
	}},
	{"sqliteOpenClosesOnPingFailure", []witness{
		{"rpmdb.sqlite that is not a database, opened 40 times", func() result {
			dir, err := os.MkdirTemp("", "rx-sqlite-")
			if err != nil {
				return bad("%v", err)
			}
			defer os.RemoveAll(dir)
			p := filepath.Join(dir, "rpmdb.sqlite")
			os.WriteFile(p, []byte("SQLite format 3\x00"), 0o644)
			open := func() bool {
				db, err := sqlite.Open(p)
				if err == nil {
					db.Close()
					return true
				}
				return false
			}
			open()
			time.Sleep(20 * time.Millisecond)
			before := runtime.NumGoroutine()
			for i := 0; i < 40; i++ {
				if open() {
					return bad("the witness opened as a database")
				}
			}
			for i := 0; i < 5; i++ {
				runtime.GC()
				time.Sleep(10 * time.Millisecond)
			}
			if after := runtime.NumGoroutine(); after > before+8 {
				return bad("%d goroutines before, %d after 40 failed Opens", before, after)
			}
			return ok("no goroutines left behind, survived the collections")
		}},
	}},
	{"ndbSlotHintClamped", []witness{
		{"32-byte Packages.db with NextPkgIdx 0 / 2^32-1", func() result {
			for _, next := range []uint32{0, 1<<32 - 1, 1 << 31} {
				b := make([]byte, 32)
				copy(b, "RpmP")
				binary.LittleEndian.PutUint32(b[16:], next)
				var err error
				a := alloc(func() {
					var db ndb.PackageDB
					err = db.Parse(bytes.NewReader(b))
				})
				if a > 64<<20 {
					return bad("ndb Parse allocated %d bytes for a 32-byte file (NextPkgIdx %d, err %v)", a, next, err)
				}
			}
			return ok("modest allocation")
		}},
	}},
	{"xdbSlotAreaChecked", []witness{
		{"32-byte Index.db: no slot pages; 65535 pages of 65535 bytes", func() result {
			for _, c := range [][2]uint32{{0, 4096}, {1, 0}, {65535, 65535}, {1 << 20, 1 << 12}, {1, 16}} {
				b := make([]byte, 32)
				copy(b, "RpmX")
				binary.LittleEndian.PutUint32(b[12:], c[0])
				binary.LittleEndian.PutUint32(b[16:], c[1])
				var err error
				a := alloc(func() {
					var db ndb.XDB
					err = db.Parse(bytes.NewReader(b))
				})
				if a > 64<<20 {
					return bad("XDB.Parse allocated %d bytes for a 32-byte file (%d pages of %d, err %v)", a, c[0], c[1], err)
				}
			}
			return ok("modest allocation, no panic")
		}},
	}},
	{"rpmFilesCacheRemembersNoDatabase", []witness{
		{"400 package.json files, no rpm database: one question per file", func() result {
			var blob []byte
			for k := 0; k < 400; k++ {
				blob = append(blob, tarFile(fmt.Sprintf("usr/lib/node_modules/p%d/package.json", k), []byte(`{"name":"a","version":"1.0.0"}`))...)
			}
			blob = append(blob, tarEnd()...)
			var first, rest uint64
			err := withLayer(blob, func(ctx context.Context, l *claircore.Layer) error {
				first = alloc(func() { rpm.FileInstalledByRPM(ctx, l, "usr/lib/node_modules/p0/package.json") })
				rest = alloc(func() {
					for k := 1; k <= 100; k++ {
						rpm.FileInstalledByRPM(ctx, l, fmt.Sprintf("usr/lib/node_modules/p%d/package.json", k))
					}
				})
				return nil
			})
			if err != nil {
				return bad("%v", err)
			}
			if rest > 4*first+(1<<20) {
				return bad("the first question allocated %d bytes, the next hundred %d", first, rest)
			}
			return ok("first %d, next hundred %d", first, rest)
		}},
	}},
	{"bdbSeenSetIsFileWide", []witness{
		{"two items sharing one overflow chain; a chain linking itself", func() result {
			parse := func(b []byte) (int, error) {
				var db bdb.PackageDB
				if err := db.Parse(bytes.NewReader(b)); err != nil {
					return 0, fmt.Errorf("parse: %w", err)
				}
				hs, err := db.AllHeaders(context.Background())
				return len(hs), err
			}
			if n, err := parse(bdbShared(1, 0)); err != nil || n != 1 {
				return bad("control database (one item, one overflow page) gives %d headers, %v", n, err)
			}
			if n, err := parse(bdbShared(2, 0)); err == nil {
				return bad("two items sharing one overflow chain are accepted (%d headers)", n)
			}
			if n, err := parse(bdbShared(1, 2)); err == nil {
				return bad("an overflow page linking itself is accepted (%d headers)", n)
			}
			return ok("refused")
		}},
	}},
	{"dockerfileValuesBounded", []witness{
		{"ENV k v doubling, label in both forms", func() result {
			return dockerfileBounded(doubling(func(i int) string { return fmt.Sprintf("ENV v%d ${v%d}${v%d}\n", i, i-1, i-1) }, "LABEL k ${v26}\nLABEL j=${v26}\n"))
		}},
		{"a value of 70000 bytes through every assignment form is refused", func() result {
			big := strings.Repeat("A", 70000)
			mid := strings.Repeat("A", 40000)
			for _, c := range []string{"ENV k=" + big + "\n", "ENV k " + big + "\n", "ARG k=" + big + "\n", "LABEL k=" + big + "\n", "LABEL k " + big + "\n",
				"ENV a=" + mid + "\nENV b $a$a\n", "ENV a=" + mid + "\nLABEL b $a$a\n", "ARG a=" + mid + "\nLABEL b $a$a\n"} {
				if _, err := dockerfile.GetLabels(context.Background(), strings.NewReader(c)); err == nil {
					return bad("accepted: %.20q…", c)
				}
			}
			return ok("refused")
		}},
	}},
}

func child(name string) {
	zerolog.SetGlobalLevel(zerolog.Disabled)
	debug.SetMaxStack(64 << 20)
	go func() { // watchdog: a runaway allocation ends the child
		var m runtime.MemStats
		for {
			time.Sleep(20 * time.Millisecond)
			runtime.ReadMemStats(&m)
			if m.HeapSys > 1200<<20 {
				fmt.Println(`{"handled":false,"detail":"more than 1200 MiB of heap"}`)
				os.Exit(3)
			}
		}
	}()
	for _, f := range facts {
		for _, w := range f.ws {
			if f.name+"/"+w.name != name {
				continue
			}
			var r result
			func() {
				defer func() {
					if p := recover(); p != nil {
						r = bad("panic: %v", p)
					}
				}()
				r = w.run()
			}()
			json.NewEncoder(os.Stdout).Encode(r)
			return
		}
	}
	fmt.Println(`{"handled":false,"detail":"unknown witness"}`)
}

func main() {
	if len(os.Args) == 3 && os.Args[1] == "-w" {
		child(os.Args[2])
		return
	}
	type wres struct {
		Name    string `json:"name"`
		Handled bool   `json:"handled"`
		Detail  string `json:"detail"`
	}
	type fres struct {
		OK        bool   `json:"ok"`
		Witnesses []wres `json:"witnesses"`
	}
	out := map[string]*fres{}
	var mu sync.Mutex
	var wg sync.WaitGroup
	sem := make(chan struct{}, 4)
	exe, err := os.Executable()
	if err != nil {
		fmt.Fprintln(os.Stderr, err)
		os.Exit(1)
	}
	for _, f := range facts {
		out[f.name] = &fres{OK: true}
		for _, w := range f.ws {
			wg.Add(1)
			go func(fact, wn string) {
				defer wg.Done()
				sem <- struct{}{}
				defer func() { <-sem }()
				ctx, cancel := context.WithTimeout(context.Background(), 25*time.Second)
				defer cancel()
				cmd := exec.CommandContext(ctx, exe, "-w", fact+"/"+wn)
				var so, se bytes.Buffer
				cmd.Stdout, cmd.Stderr = &so, &se
				err := cmd.Run()
				r := wres{Name: wn}
				var res result
				switch {
				case ctx.Err() != nil:
					r.Detail = "no answer within 25 s"
				case err != nil:
					tail := strings.TrimSpace(se.String())
					if i := strings.Index(tail, "\n"); i > 0 {
						tail = tail[:i]
					}
					if len(tail) > 200 {
						tail = tail[:200]
					}
					r.Detail = fmt.Sprintf("the process died: %v: %s %s", err, strings.TrimSpace(so.String()), tail)
				case json.Unmarshal(bytes.TrimSpace(so.Bytes()), &res) != nil:
					r.Detail = "undecodable answer: " + so.String()
				default:
					r.Handled, r.Detail = res.Handled, res.Detail
				}
				mu.Lock()
				out[fact].Witnesses = append(out[fact].Witnesses, r)
				if !r.Handled {
					out[fact].OK = false
				}
				mu.Unlock()
			}(f.name, w.name)
		}
	}
	wg.Wait()
	for _, f := range out {
		sort.Slice(f.Witnesses, func(i, j int) bool { return f.Witnesses[i].Name < f.Witnesses[j].Name })
	}
	if err := json.NewEncoder(os.Stdout).Encode(map[string]any{"facts": out}); err != nil {
		fmt.Fprintln(os.Stderr, err)
		os.Exit(1)
	}
}
