// Command rxprobe/matchers evaluates the table-like parts of the built-in
// matchers through the driver.Matcher interface: Name(), Query() (default and,
// for rhel, with ignore_unpatched configured), the VersionFilter interface, and
// Filter() on records that differ from a never-matching base record in exactly
// one string field, or lack the distribution / repository (Tie A, "evaluate
// instead of parse": go/internal/extract/rxprobe.go).
//
// It also lists what importing matchers/defaults registers: for every registered
// name the Go type of its factory and of the matchers the factory hands out.
//
// stdin:  {"<matcher id>": ["candidate string", ...], ...}
// stdout: {"registered": [{"name","factory","matchers":[types]}], "<matcher id>": {"name", "query": [..], "queryConfigured": [..]|null, "versionFilter", "authoritative",
//
//	"base": "true|false|panic", "nil": {"Distribution": .., "Repository": ..}, "accepted": [{"path","value"}]}}
package main

import (
	"context"
	"encoding/json"
	"fmt"
	"os"
	"reflect"
	"sort"
	"strings"

	"github.com/quay/claircore"
	"github.com/quay/claircore/alpine"
	"github.com/quay/claircore/aws"
	"github.com/quay/claircore/debian"
	"github.com/quay/claircore/gobin"
	"github.com/quay/claircore/java"
	"github.com/quay/claircore/libvuln/driver"
	_ "github.com/quay/claircore/matchers/defaults"
	"github.com/quay/claircore/matchers/registry"
	"github.com/quay/claircore/nodejs"
	"github.com/quay/claircore/oracle"
	"github.com/quay/claircore/photon"
	"github.com/quay/claircore/python"
	"github.com/quay/claircore/rhel"
	"github.com/quay/claircore/rhel/rhcc"
	"github.com/quay/claircore/ruby"
	"github.com/quay/claircore/suse"
	"github.com/quay/claircore/ubuntu"
)

type atom struct {
	Path  string `json:"path"`
	Value string `json:"value"`
}

type info struct {
	Name            string            `json:"name"`
	Query           []int             `json:"query"` // driver.MatchConstraint values
	QueryConfigured []int             `json:"queryConfigured"`
	VersionFilter   bool              `json:"versionFilter"`
	Authoritative   bool              `json:"authoritative"`
	Base            string            `json:"base"`
	Nil             map[string]string `json:"nil"`
	Accepted        []atom            `json:"accepted"`
}

func rhelMatcher(ignoreUnpatched bool) driver.Matcher {
	f := &rhel.MatcherFactory{}
	if ignoreUnpatched {
		err := f.Configure(context.Background(), func(v any) error {
			return json.Unmarshal([]byte(`{"ignore_unpatched": true}`), v)
		}, nil)
		if err != nil {
			fmt.Fprintln(os.Stderr, "rhel MatcherFactory.Configure:", err)
			os.Exit(1)
		}
	}
	ms, err := f.Matcher(context.Background())
	if err != nil || len(ms) != 1 {
		fmt.Fprintln(os.Stderr, "rhel MatcherFactory.Matcher:", err, len(ms))
		os.Exit(1)
	}
	return ms[0]
}

// the string fields a Filter may look at, as paths from the record
var paths = []string{
	"Distribution.DID", "Distribution.Name", "Distribution.Version", "Distribution.VersionCodeName", "Distribution.VersionID",
	"Distribution.Arch", "Distribution.PrettyName", "Distribution.ID",
	"Repository.Name", "Repository.Key", "Repository.URI", "Repository.ID",
	"Package.Kind", "Package.NormalizedVersion.Kind", "Package.Module", "Package.Arch", "Package.PackageDB", "Package.RepositoryHint",
	"Package.Name", "Package.Version",
}

func base() *claircore.IndexRecord {
	r := &claircore.IndexRecord{
		Package:      &claircore.Package{Source: &claircore.Package{}},
		Distribution: &claircore.Distribution{},
		Repository:   &claircore.Repository{},
	}
	for i, p := range paths {
		set(r, p, fmt.Sprintf("~rx-base-%d~", i))
	}
	return r
}

func set(r *claircore.IndexRecord, path, val string) {
	v := reflect.ValueOf(r).Elem()
	for _, f := range strings.Split(path, ".") {
		v = v.FieldByName(f)
		if v.Kind() == reflect.Pointer {
			v = v.Elem()
		}
	}
	v.SetString(val)
}

func call(m driver.Matcher, r *claircore.IndexRecord) (res string) {
	defer func() {
		if recover() != nil {
			res = "panic"
		}
	}()
	return fmt.Sprint(m.Filter(r))
}

func names(cs []driver.MatchConstraint) []int {
	out := []int{}
	for _, c := range cs {
		out = append(out, int(c))
	}
	return out
}

func main() {
	var in map[string][]string
	if err := json.NewDecoder(os.Stdin).Decode(&in); err != nil {
		fmt.Fprintln(os.Stderr, err)
		os.Exit(2)
	}
	ms := map[string]driver.Matcher{
		"alpine": &alpine.Matcher{}, "aws": &aws.Matcher{}, "debian": &debian.Matcher{}, "ubuntu": &ubuntu.Matcher{},
		"oracle": &oracle.Matcher{}, "photon": &photon.Matcher{}, "suse": &suse.Matcher{}, "rhel": rhelMatcher(false),
		"rhcc": rhcc.Matcher, "python": &python.Matcher{}, "java": &java.Matcher{}, "ruby": &ruby.Matcher{},
		"gobin": &gobin.Matcher{}, "nodejs": &nodejs.Matcher{},
	}
	out := map[string]any{}
	type reg struct {
		Name     string   `json:"name"`
		Factory  string   `json:"factory"`
		Matchers []string `json:"matchers"`
	}
	var regs []reg
	for name, f := range registry.Registered() {
		r := reg{Name: name, Factory: fmt.Sprintf("%T", f)}
		if got, err := f.Matcher(context.Background()); err == nil {
			for _, m := range got {
				r.Matchers = append(r.Matchers, fmt.Sprintf("%T", m))
			}
		}
		regs = append(regs, r)
	}
	sort.Slice(regs, func(i, j int) bool { return regs[i].Name < regs[j].Name })
	out["registered"] = regs
	for id, m := range ms {
		x := &info{Name: m.Name(), Query: names(m.Query()), Nil: map[string]string{}}
		if id == "rhel" {
			x.QueryConfigured = names(rhelMatcher(true).Query())
		}
		if vf, ok := m.(driver.VersionFilter); ok {
			x.VersionFilter, x.Authoritative = true, vf.VersionAuthoritative()
		}
		x.Base = call(m, base())
		r := base()
		r.Distribution = nil
		x.Nil["Distribution"] = call(m, r)
		r = base()
		r.Repository = nil
		x.Nil["Repository"] = call(m, r)
		x.Accepted = []atom{}
		for _, p := range paths {
			for _, s := range in[id] {
				r := base()
				set(r, p, s)
				if res := call(m, r); res != x.Base {
					x.Accepted = append(x.Accepted, atom{p, s})
					// does the match depend on the other part of the record being there?
				}
			}
		}
		// an accepted distribution field must not need the repository and vice versa: recorded as extra "nil" keys
		for _, a := range x.Accepted {
			other := "Repository"
			if strings.HasPrefix(a.Path, "Repository.") {
				other = "Distribution"
			} else if !strings.HasPrefix(a.Path, "Distribution.") {
				continue
			}
			r := base()
			set(r, a.Path, a.Value)
			if other == "Repository" {
				r.Repository = nil
			} else {
				r.Distribution = nil
			}
			if res := call(m, r); res == x.Base {
				x.Nil[a.Path+"="+a.Value+" without "+other] = res
			}
		}
		out[id] = x
	}
	json.NewEncoder(os.Stdout).Encode(out)
}
