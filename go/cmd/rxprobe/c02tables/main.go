// Command rxprobe/c02tables EVALUATES the facts of Gen/C02Tables (Tie A,
// "evaluate instead of parse"):
//
//	regexps      the sources of the compiled package-level expressions of java/jar, ruby, rhel, alpine and of
//	             rpm's filePatterns (hooks RegexpSourcesForVerif / FilePatternsForVerif)
//	nameHeader   java/jar nameHeader (hook), minSize the exported constant jar.MinSize
//	group/artifact/version keys
//	             the manifest attributes jar.Parse takes a jar's group, artifact and version from, in priority
//	             order: a manifest holding every candidate attribute (values that name their attribute) is parsed,
//	             the attribute that won a role is removed, and so on until the role stays empty
//	maxNesting   how many jars along a chain of nested jars are looked into (each level carries its own name)
//	validExt     ValidExt on every candidate extension
//
// stdin: {"keys": [candidate attribute names], "exts": [candidate extensions]}
package main

import (
	"archive/zip"
	"bytes"
	"context"
	"encoding/json"
	"fmt"
	"os"
	"sort"
	"strings"

	"github.com/rs/zerolog"

	"github.com/quay/claircore/alpine"
	"github.com/quay/claircore/java/jar"
	"github.com/quay/claircore/rhel"
	"github.com/quay/claircore/rpm"
	"github.com/quay/claircore/ruby"
)

func die(f string, a ...any) {
	fmt.Fprintf(os.Stderr, f+"\n", a...)
	os.Exit(1)
}

func jarOf(manifest string, inner []byte) []byte {
	var buf bytes.Buffer
	zw := zip.NewWriter(&buf)
	zw.CreateHeader(&zip.FileHeader{Name: "META-INF/", Method: zip.Store})
	w, _ := zw.CreateHeader(&zip.FileHeader{Name: "META-INF/MANIFEST.MF", Method: zip.Store})
	w.Write([]byte(manifest))
	if inner != nil {
		w, _ := zw.CreateHeader(&zip.FileHeader{Name: "inner.jar", Method: zip.Store})
		w.Write(inner)
	}
	zw.Close()
	return append([]byte(nil), buf.Bytes()...)
}

func parse(z []byte) ([]jar.Info, error) {
	zr, err := zip.NewReader(bytes.NewReader(z), int64(len(z)))
	if err != nil {
		return nil, err
	}
	return jar.Parse(context.Background(), "a.jar", zr)
}

func main() {
	zerolog.SetGlobalLevel(zerolog.Disabled)
	var in struct {
		Keys []string `json:"keys"`
		Exts []string `json:"exts"`
	}
	if err := json.NewDecoder(os.Stdin).Decode(&in); err != nil {
		die("input: %v", err)
	}
	var out struct {
		Regexps      map[string]map[string]string `json:"regexps"`
		FilePatterns string                       `json:"filePatterns"`
		NameHeader   string                       `json:"nameHeader"`
		MinSize      int                          `json:"minSize"`
		Group        []string                     `json:"group"`
		Artifact     []string                     `json:"artifact"`
		Version      []string                     `json:"version"`
		OrderMatters bool                         `json:"orderMatters"`
		MaxNesting   int                          `json:"maxNesting"`
		ValidExt     []string                     `json:"validExt"`
	}
	out.Regexps = map[string]map[string]string{
		"jar": jar.RegexpSourcesForVerif(), "ruby": ruby.RegexpSourcesForVerif(), "rhel": rhel.RegexpSourcesForVerif(), "alpine": alpine.RegexpSourcesForVerif(),
	}
	out.FilePatterns = rpm.FilePatternsForVerif()
	out.NameHeader = jar.NameHeaderForVerif()
	out.MinSize = jar.MinSize

	// ---- manifest attributes ----
	keys := append([]string(nil), in.Keys...)
	sort.Strings(keys)
	val := map[string]string{}   // attribute -> its value
	keyOf := map[string]string{} // value -> attribute
	for i, k := range keys {
		v := fmt.Sprintf("rxv%03d", i)
		val[k], keyOf[v] = v, k
	}
	manifest := func(present map[string]bool, reverse bool) string {
		ks := make([]string, 0, len(present))
		for _, k := range keys {
			if present[k] {
				ks = append(ks, k)
			}
		}
		if reverse {
			for i, j := 0, len(ks)-1; i < j; i, j = i+1, j-1 {
				ks[i], ks[j] = ks[j], ks[i]
			}
		}
		var sb strings.Builder
		sb.WriteString("Manifest-Version: 1.0\r\n")
		for _, k := range ks {
			sb.WriteString(k + ": " + val[k] + "\r\n")
		}
		sb.WriteString("\r\n")
		return sb.String()
	}
	// roles of one parse: the attributes that supplied group, artifact, version ("" = none)
	roles := func(present map[string]bool, reverse bool) (g, a, v string, ok bool) {
		is, err := parse(jarOf(manifest(present, reverse), nil))
		if err != nil || len(is) != 1 {
			return "", "", "", false
		}
		parts := strings.Split(is[0].Name, ":")
		switch len(parts) {
		case 2:
			g, a = keyOf[parts[0]], keyOf[parts[1]]
		case 1:
			g = keyOf[parts[0]] // role decided by the caller
		}
		return g, a, keyOf[is[0].Version], true
	}
	all := map[string]bool{}
	for _, k := range keys {
		all[k] = true
	}
	g0, a0, v0, ok := roles(all, false)
	if !ok || g0 == "" || a0 == "" || v0 == "" {
		die("a manifest holding every candidate attribute does not give a group, an artifact and a version (%q %q %q)", g0, a0, v0)
	}
	if g, a, v, ok := roles(all, true); !ok || g != g0 || a != a0 || v != v0 {
		out.OrderMatters = true
	}
	peel := func(role int) []string {
		present := map[string]bool{}
		for k := range all {
			present[k] = true
		}
		var order []string
		for n := 0; n < len(keys); n++ {
			g, a, v, ok := roles(present, false)
			if !ok {
				break
			}
			var w string
			switch role {
			case 0:
				// with the group gone the name is the artifact alone
				if a == "" {
					if g == a0 {
						g = ""
					}
				}
				w = g
			case 1:
				if a == "" && g != g0 {
					a, g = g, ""
				}
				w = a
			case 2:
				w = v
			}
			if w == "" {
				break
			}
			order = append(order, w)
			delete(present, w)
		}
		return order
	}
	out.Group, out.Artifact, out.Version = peel(0), peel(1), peel(2)

	// ---- nesting ----
	{
		const depth = 40
		var z []byte
		for lvl := depth; lvl >= 1; lvl-- {
			m := fmt.Sprintf("Manifest-Version: 1.0\r\n%s: rxg\r\n%s: level%02d\r\n%s: 1.%d\r\n\r\n", g0, a0, lvl, v0, lvl)
			z = jarOf(m, z)
		}
		is, err := parse(z)
		if err != nil {
			die("nested jars: %v", err)
		}
		seen := map[int]bool{}
		for _, i := range is {
			var lvl int
			if _, err := fmt.Sscanf(i.Name, "rxg:level%d", &lvl); err == nil {
				seen[lvl] = true
			}
		}
		for lvl := 1; seen[lvl]; lvl++ {
			out.MaxNesting = lvl
		}
		for lvl := range seen {
			if lvl > out.MaxNesting {
				die("nested jars: level %d is reported but level %d is not", lvl, out.MaxNesting+1)
			}
		}
	}
	// ---- extensions ----
	for _, e := range in.Exts {
		if jar.ValidExt("x"+e) && jar.ValidExt("dir.d/y"+e) {
			out.ValidExt = append(out.ValidExt, e)
		}
	}
	if err := json.NewEncoder(os.Stdout).Encode(out); err != nil {
		die("%v", err)
	}
}
