// Command rxprobe/releases evaluates the release tables and Distribution
// constructors of the distributions (Gen/JoinReleases of property C04; Tie A,
// "evaluate instead of parse": go/internal/extract/rxprobe.go).  It is a batch
// of calls into the real code, executed in the order given (the constructors of
// debian, ubuntu, alpine and suse record what they build in process-wide tables,
// so the order is part of the question); every answer carries the identity of the
// *claircore.Distribution it got, so that the extractor can tell "the same
// recorded value" from "an equal one".
//
// fn (arguments in "strs" / "ints"):
//
//	alpine.stable [maj min]   alpine.edge        the release's Distribution() and String()       (hook ReleaseForVerif)
//	debian.mkDist [name] [ver]                   mkDist                                           (hook MkDistForC14)
//	ubuntu.mkDist [ver name]                     mkDist                                           (hook ParserForC14)
//	suse.mkELDist / suse.mkLeapDist [oURL ver]                                                    (hooks Mk…DistForVerif)
//	scan.<distro> files                          the exported DistributionScanner on a layer holding the files
//	aws.updater / photon.updater [release]       NewUpdater(release): Name(), and the Dist its Parse stamps
//	aws.set / photon.set                         the names of the updaters UpdaterSet creates
//	oracle.parse [platform …]                    Updater.Parse on one definition per platform: the Dist stamped (per platform)
//	consts                                       aws.ID, oracle.OSReleaseID, oracle.OSReleaseName, rhcc.GoldRepo
//
// stdin:  {"calls": [{"id","fn","strs","ints","files"}], "cpe": ["candidate CPE text", ...]}
// stdout: {"answers": [{"id","dists":[{…fields…,"ptr","cpe","cpeFrom":[candidates that unbind to it]}],"strs":[..],"err"}]}
package main

import (
	"bytes"
	"context"
	"crypto/sha256"
	"encoding/hex"
	"encoding/json"
	"fmt"
	"io"
	"os"
	"path"
	"reflect"
	"sort"
	"strings"
	"time"

	"archive/tar"

	"github.com/quay/claircore"
	"github.com/quay/claircore/alpine"
	"github.com/quay/claircore/aws"
	"github.com/quay/claircore/debian"
	"github.com/quay/claircore/indexer"
	"github.com/quay/claircore/libvuln/driver"
	"github.com/quay/claircore/oracle"
	"github.com/quay/claircore/photon"
	"github.com/quay/claircore/rhel/rhcc"
	"github.com/quay/claircore/suse"
	"github.com/quay/claircore/toolkit/types/cpe"
	"github.com/quay/claircore/ubuntu"
)

type call struct {
	ID    string            `json:"id"`
	Fn    string            `json:"fn"`
	Strs  []string          `json:"strs"`
	Ints  []int             `json:"ints"`
	Files map[string]string `json:"files"`
}

type dist struct {
	DID             string   `json:"did"`
	Name            string   `json:"name"`
	Version         string   `json:"version"`
	VersionCodeName string   `json:"versionCodeName"`
	VersionID       string   `json:"versionID"`
	Arch            string   `json:"arch"`
	PrettyName      string   `json:"prettyName"`
	ID              string   `json:"id"`
	CPE             string   `json:"cpe"`     // "" for the unset WFN
	CPEFrom         []string `json:"cpeFrom"` // the candidate texts that unbind to this CPE
	Ptr             string   `json:"ptr"`
	Nil             bool     `json:"nil"`
}

type answer struct {
	ID    string   `json:"id"`
	Dists []dist   `json:"dists"`
	Strs  []string `json:"strs"`
	Err   string   `json:"err"`
}

var (
	keep     []*claircore.Distribution // nothing is freed: pointer identities stay unique
	cpeCands []string
)

func render(d *claircore.Distribution) dist {
	if d == nil {
		return dist{Nil: true}
	}
	keep = append(keep, d)
	out := dist{DID: d.DID, Name: d.Name, Version: d.Version, VersionCodeName: d.VersionCodeName, VersionID: d.VersionID,
		Arch: d.Arch, PrettyName: d.PrettyName, ID: d.ID, Ptr: fmt.Sprintf("%p", d)}
	if !reflect.DeepEqual(d.CPE, cpe.WFN{}) {
		out.CPE = d.CPE.String()
		for _, c := range cpeCands {
			if w, err := cpe.Unbind(c); err == nil && reflect.DeepEqual(w, d.CPE) {
				out.CPEFrom = append(out.CPEFrom, c)
			}
		}
	}
	return out
}

func mkLayer(ctx context.Context, files map[string]string) (*claircore.Layer, error) {
	var buf bytes.Buffer
	tw := tar.NewWriter(&buf)
	dirs := map[string]bool{}
	var names []string
	for n := range files {
		names = append(names, n)
		for d := path.Dir(n); d != "." && d != "/"; d = path.Dir(d) {
			dirs[d] = true
		}
	}
	var ds []string
	for d := range dirs {
		ds = append(ds, d)
	}
	sort.Strings(ds)
	sort.Strings(names)
	mt := time.Unix(1700000000, 0)
	for _, d := range ds {
		tw.WriteHeader(&tar.Header{Typeflag: tar.TypeDir, Name: d + "/", Mode: 0o755, ModTime: mt})
	}
	for _, n := range names {
		tw.WriteHeader(&tar.Header{Typeflag: tar.TypeReg, Name: n, Mode: 0o644, Size: int64(len(files[n])), ModTime: mt})
		tw.Write([]byte(files[n]))
	}
	tw.Close()
	b := buf.Bytes()
	sum := sha256.Sum256(b)
	l := &claircore.Layer{}
	desc := &claircore.LayerDescription{Digest: "sha256:" + hex.EncodeToString(sum[:]), MediaType: `application/vnd.oci.image.layer.v1.tar`}
	if err := l.Init(ctx, desc, bytes.NewReader(b)); err != nil {
		return nil, err
	}
	return l, nil
}

func scanner(distro string) indexer.DistributionScanner {
	switch distro {
	case "alpine":
		return &alpine.DistributionScanner{}
	case "debian":
		return &debian.DistributionScanner{}
	case "ubuntu":
		return &ubuntu.DistributionScanner{}
	case "aws":
		return &aws.DistributionScanner{}
	case "oracle":
		return &oracle.DistributionScanner{}
	case "photon":
		return &photon.DistributionScanner{}
	case "suse":
		return &suse.DistributionScanner{}
	}
	return nil
}

func xmlEsc(s string) string {
	return strings.NewReplacer("&", "&amp;", "<", "&lt;", ">", "&gt;", `"`, "&quot;").Replace(s)
}

// ovalDoc: one rpm definition per platform list; the definition's title is its index.
func ovalDoc(platforms [][]string) []byte {
	var b strings.Builder
	ns := `xmlns="http://oval.mitre.org/XMLSchema/oval-definitions-5#linux"`
	b.WriteString(`<?xml version="1.0" encoding="utf-8"?>` + "\n")
	b.WriteString(`<oval_definitions xmlns="http://oval.mitre.org/XMLSchema/oval-definitions-5" xmlns:oval="http://oval.mitre.org/XMLSchema/oval-common-5">` + "\n<definitions>\n")
	for i, pl := range platforms {
		var pls strings.Builder
		for _, p := range pl {
			pls.WriteString("<platform>" + xmlEsc(p) + "</platform>")
		}
		fmt.Fprintf(&b, `<definition class="patch" id="oval:rx:def:%d" version="1"><metadata><title>%d</title><affected family="unix">%s</affected><description>generated</description><advisory><severity>Important</severity><issued date="2024-01-01"/></advisory></metadata><criteria operator="AND"><criterion comment="c" test_ref="oval:rx:tst:0"/></criteria></definition>`+"\n", i, i, pls.String())
	}
	b.WriteString("</definitions>\n<tests>\n")
	fmt.Fprintf(&b, `<rpminfo_test check="at least one" comment="c" id="oval:rx:tst:0" version="1" %s><object object_ref="oval:rx:obj:0"/><state state_ref="oval:rx:ste:0"/></rpminfo_test>`+"\n", ns)
	b.WriteString("</tests>\n<objects>\n")
	fmt.Fprintf(&b, `<rpminfo_object id="oval:rx:obj:0" version="1" %s><name>rxpkg</name></rpminfo_object>`+"\n", ns)
	b.WriteString("</objects>\n<states>\n")
	fmt.Fprintf(&b, `<rpminfo_state id="oval:rx:ste:0" version="1" %s><evr datatype="evr_string" operation="less than">0:1.2-3</evr></rpminfo_state>`+"\n", ns)
	b.WriteString("</states>\n</oval_definitions>\n")
	return []byte(b.String())
}

const awsDoc = `<?xml version="1.0" ?><updates><update author="x" from="x" status="final" type="security" version="1.4"><id>RX-1</id><title>t</title><issued date="2024-01-01 00:00"/><updated date="2024-01-01 00:00"/><severity>important</severity><description>generated</description><references></references><pkglist><collection short="amazon-linux"><name>Amazon Linux</name><package arch="x86_64" epoch="0" name="rxpkg" release="3" version="1.2"><filename>f.rpm</filename></package></collection></pkglist></update></updates>`

func firstDist(vs []*claircore.Vulnerability, err error) ([]dist, error) {
	if err != nil {
		return nil, err
	}
	if len(vs) == 0 {
		return nil, fmt.Errorf("Parse gives no vulnerability for the generated document")
	}
	for _, v := range vs[1:] {
		if v.Dist != vs[0].Dist {
			return nil, fmt.Errorf("Parse stamps different Distributions on the vulnerabilities of one document")
		}
	}
	return []dist{render(vs[0].Dist)}, nil
}

func setNames(s driver.UpdaterSet, err error) ([]string, error) {
	if err != nil {
		return nil, err
	}
	var out []string
	for _, u := range s.Updaters() {
		out = append(out, u.Name())
	}
	sort.Strings(out)
	return out, nil
}

func run(ctx context.Context, c call) (a answer) {
	a.ID = c.ID
	defer func() {
		if x := recover(); x != nil {
			a.Err = fmt.Sprint("panic: ", x)
		}
	}()
	str := func(i int) string {
		if i < len(c.Strs) {
			return c.Strs[i]
		}
		return ""
	}
	num := func(i int) int {
		if i < len(c.Ints) {
			return c.Ints[i]
		}
		return 0
	}
	var err error
	switch {
	case c.Fn == "alpine.stable", c.Fn == "alpine.edge":
		d, s := alpine.ReleaseForVerif(c.Fn == "alpine.edge", num(0), num(1))
		a.Dists, a.Strs = []dist{render(d)}, []string{s}
	case c.Fn == "debian.mkDist":
		a.Dists = []dist{render(debian.MkDistForC14(str(0), num(0)))}
	case c.Fn == "ubuntu.mkDist":
		_, d := ubuntu.ParserForC14(str(1), str(0))
		a.Dists = []dist{render(d)}
	case c.Fn == "suse.mkELDist":
		a.Dists = []dist{render(suse.MkELDistForVerif(str(0), str(1)))}
	case c.Fn == "suse.mkLeapDist":
		a.Dists = []dist{render(suse.MkLeapDistForVerif(str(0), str(1)))}
	case strings.HasPrefix(c.Fn, "scan."):
		sc := scanner(strings.TrimPrefix(c.Fn, "scan."))
		if sc == nil {
			a.Err = "no such scanner"
			return a
		}
		l, err := mkLayer(ctx, c.Files)
		if err != nil {
			a.Err = err.Error()
			return a
		}
		defer l.Close()
		ds, err := sc.Scan(ctx, l)
		if err != nil {
			a.Err = err.Error()
			return a
		}
		a.Dists = []dist{}
		for _, d := range ds {
			a.Dists = append(a.Dists, render(d))
		}
	case c.Fn == "aws.updater":
		u, err := aws.NewUpdater(aws.Release(str(0)))
		if err != nil {
			a.Err = err.Error()
			return a
		}
		a.Strs = []string{u.Name()}
		a.Dists, err = firstDist(u.Parse(ctx, io.NopCloser(strings.NewReader(awsDoc))))
		if err != nil {
			a.Err = err.Error()
		}
	case c.Fn == "photon.updater":
		u, err := photon.NewUpdater(photon.Release(str(0)))
		if err != nil {
			a.Err = err.Error()
			return a
		}
		a.Strs = []string{u.Name()}
		a.Dists, err = firstDist(u.Parse(ctx, io.NopCloser(bytes.NewReader(ovalDoc([][]string{{"rx"}})))))
		if err != nil {
			a.Err = err.Error()
		}
	case c.Fn == "aws.set":
		if a.Strs, err = setNames(aws.UpdaterSet(ctx)); err != nil {
			a.Err = err.Error()
		}
	case c.Fn == "photon.set":
		if a.Strs, err = setNames(photon.UpdaterSet(ctx)); err != nil {
			a.Err = err.Error()
		}
	case c.Fn == "oracle.parse":
		u, err := oracle.NewUpdater(-1)
		if err != nil {
			a.Err = err.Error()
			return a
		}
		var pls [][]string
		for _, p := range c.Strs {
			pls = append(pls, []string{p})
		}
		vs, err := u.Parse(ctx, io.NopCloser(bytes.NewReader(ovalDoc(pls))))
		if err != nil {
			a.Err = err.Error()
			return a
		}
		// one answer per platform: the Dist of the vulnerabilities titled with its index
		a.Dists = make([]dist, len(c.Strs))
		for i := range a.Dists {
			a.Dists[i] = dist{Nil: true}
		}
		for _, v := range vs {
			var i int
			if _, err := fmt.Sscanf(v.Name, "%d", &i); err != nil || i < 0 || i >= len(a.Dists) {
				a.Err = "a vulnerability is not named after its definition's title: " + v.Name
				return a
			}
			d := render(v.Dist)
			if !a.Dists[i].Nil && a.Dists[i].Ptr != d.Ptr {
				a.Err = "one definition with one platform gives several Distributions"
				return a
			}
			a.Dists[i] = d
		}
	case c.Fn == "consts":
		g := rhcc.GoldRepo
		rest := g
		rest.Name, rest.URI = "", ""
		other := "false"
		if !reflect.DeepEqual(rest, claircore.Repository{}) {
			other = "true"
		}
		a.Strs = []string{aws.ID, oracle.OSReleaseID, oracle.OSReleaseName, g.Name, g.URI, other}
	default:
		a.Err = "unknown fn " + c.Fn
	}
	return a
}

func main() {
	var in struct {
		Calls []call   `json:"calls"`
		CPE   []string `json:"cpe"`
	}
	if err := json.NewDecoder(os.Stdin).Decode(&in); err != nil {
		fmt.Fprintln(os.Stderr, err)
		os.Exit(2)
	}
	cpeCands = in.CPE
	var out struct {
		Answers []answer `json:"answers"`
	}
	ctx := context.Background()
	for _, c := range in.Calls {
		out.Answers = append(out.Answers, run(ctx, c))
	}
	json.NewEncoder(os.Stdout).Encode(out)
}
