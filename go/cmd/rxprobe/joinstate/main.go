// Command rxprobe/joinstate evaluates what the updater factories of debian,
// alpine and osv keep between runs (Gen/JoinState of property C04; Tie A,
// "evaluate instead of parse": go/internal/extract/rxprobe.go): the witness
// inputs of the defects repaired in these factories are run against the real
// Factory.UpdaterSet / Parse over an in-process transport, and what happens is
// written down.  Only the exported API and the existing hooks are used.
//
// stdout: {"debian": {...}, "alpine": {...}, "osv": {...}}: observation name -> value (strings)
package main

import (
	"bytes"
	"context"
	"encoding/json"
	"errors"
	"fmt"
	"io"
	"net/http"
	"os"
	"sort"
	"strings"

	"github.com/quay/claircore/alpine"
	"github.com/quay/claircore/debian"
	"github.com/quay/claircore/libvuln/driver"
	"github.com/quay/claircore/updater/osv"
)

// ---- a scripted server

type route struct {
	status int
	body   string
	hdr    []string
	netErr bool // the transport fails
	cut    bool // the body breaks off
}

type world struct {
	routes map[string]route // "host/path"
	log    []string         // "METHOD host/path if-none-match=…"
}

type brokenBody struct {
	r    io.Reader
	done bool
}

func (b *brokenBody) Read(p []byte) (int, error) {
	n, err := b.r.Read(p)
	if err == io.EOF {
		return n, errors.New("rx: connection reset while reading the body")
	}
	return n, err
}
func (b *brokenBody) Close() error { return nil }

func (w *world) RoundTrip(req *http.Request) (*http.Response, error) {
	key := req.URL.Host + req.URL.Path
	w.log = append(w.log, req.Method+" "+key+" inm="+req.Header.Get("if-none-match"))
	rt, ok := w.routes[key]
	if !ok {
		rt = route{status: 404}
	}
	if rt.netErr {
		return nil, errors.New("rx: connection refused")
	}
	h := http.Header{}
	for i := 0; i+1 < len(rt.hdr); i += 2 {
		h.Set(rt.hdr[i], rt.hdr[i+1])
	}
	var body io.ReadCloser = io.NopCloser(strings.NewReader(rt.body))
	if req.Method == http.MethodHead {
		body = io.NopCloser(strings.NewReader(""))
	} else if rt.cut {
		body = &brokenBody{r: strings.NewReader(rt.body[:len(rt.body)/2])}
	}
	return &http.Response{Status: fmt.Sprintf("%d x", rt.status), StatusCode: rt.status, Proto: "HTTP/1.1", ProtoMajor: 1, ProtoMinor: 1,
		Header: h, Body: body, ContentLength: -1, Request: req}, nil
}

func (w *world) client() *http.Client { return &http.Client{Transport: w} }

func (w *world) mark() int { return len(w.log) }

// since: the requests logged after mark.
func (w *world) since(m int) []string { return w.log[m:] }

func names(s driver.UpdaterSet, err error) (string, error) {
	if err != nil {
		return "", err
	}
	var out []string
	for _, u := range s.Updaters() {
		out = append(out, u.Name())
	}
	sort.Strings(out)
	return strings.Join(out, ","), nil
}

func guard(obs map[string]string, f func()) {
	defer func() {
		if x := recover(); x != nil {
			obs["panic"] = fmt.Sprint(x)
		}
	}()
	f()
}

// ---- debian: Factory.UpdaterSet against a mirror one of whose Release files fails; Parse of an unknown release

func debianObs(ctx context.Context) map[string]string {
	obs := map[string]string{}
	guard(obs, func() {
		w := &world{routes: map[string]route{}}
		rel := func(version, code string) string {
			s := "Origin: Debian\nLabel: Debian\nSuite: stable\n"
			if version != "" {
				s += "Version: " + version + "\n"
			}
			return s + "Codename: " + code + "\nDate: Sat, 10 Feb 2024 11:07:25 UTC\n"
		}
		var listing strings.Builder
		listing.WriteString("<html><body><a href=\"../\">Parent Directory</a>\n<a href=\"README\">README</a>\n")
		for _, c := range []string{"rxja", "rxja-updates", "rxjb", "rxjd", "rxjc"} {
			fmt.Fprintf(&listing, "<a href=\"%s/\">%s/</a>\n", c, c)
		}
		listing.WriteString("<a href=\"sid/\">sid/</a>\n<a href=\"stable/\">stable/</a></body></html>")
		w.routes["deb.rx.test/debian/dists/"] = route{status: 200, body: listing.String()}
		w.routes["deb.rx.test/debian/dists/rxja/Release"] = route{status: 200, body: rel("41.2", "rxja")}
		w.routes["deb.rx.test/debian/dists/rxja-updates/Release"] = route{status: 200, body: rel("41.2", "rxja-updates")}
		w.routes["deb.rx.test/debian/dists/rxjb/Release"] = route{status: 503, body: "try later"}
		w.routes["deb.rx.test/debian/dists/rxjd/Release"] = route{status: 200, body: rel("", "rxjd")}
		w.routes["deb.rx.test/debian/dists/rxjc/Release"] = route{status: 200, body: rel("43.1", "rxjc")}
		f, err := debian.NewFactory(ctx)
		if err != nil {
			obs["factory"] = err.Error()
			return
		}
		cf := func(v any) error {
			if c, ok := v.(*debian.FactoryConfig); ok {
				c.MirrorURL = "http://deb.rx.test/"
				c.JSONURL = "http://deb.rx.test/tracker/data/json"
			}
			return nil
		}
		if err := f.Configure(ctx, cf, w.client()); err != nil {
			obs["factory"] = "configure: " + err.Error()
			return
		}
		_, err = f.UpdaterSet(ctx)
		obs["setErr"] = ""
		if err != nil {
			obs["setErr"] = "err"
		}
		asked := 0
		for _, l := range w.log {
			if strings.HasSuffix(l, "/Release inm=") {
				asked++
			}
		}
		obs["releaseRequests"] = fmt.Sprint(asked)
		// Parse BEFORE asking the table (asking records): one advisory naming a recorded and an unknown release
		doc := `{"rxpkg": {"CVE-2024-0001": {"description": "generated", "releases": {` +
			`"rxja": {"status": "resolved", "fixed_version": "1.2-3", "urgency": "low"}, ` +
			`"rxjunknown": {"status": "resolved", "fixed_version": "1.2-3", "urgency": "low"}}}}}`
		vs, perr := debian.ParserForC14().Parse(ctx, io.NopCloser(strings.NewReader(doc)))
		// what the enumeration recorded: a recorded release answers with its own version
		ver := func(name string) string { return debian.MkDistForC14(name, 999).VersionID }
		for _, c := range []string{"rxja", "rxja-updates", "rxjb", "rxjd", "rxjc", "rxjzz"} {
			obs["rec:"+c] = ver(c)
		}
		switch {
		case perr != nil:
			obs["parse"] = "err"
		default:
			known, unknown, stamped := 0, 0, 0
			want := debian.MkDistForC14("rxja", 999)
			for _, v := range vs {
				if v.Dist == want {
					stamped++
				}
				if v.Dist != nil && v.Dist.VersionCodeName == "rxjunknown" {
					unknown++
				} else {
					known++
				}
			}
			obs["parse"] = fmt.Sprintf("known=%d unknown=%d stamped=%d", known, unknown, stamped)
		}
	})
	return obs
}

// ---- alpine: what Factory.UpdaterSet remembers, and when

type alpWorld struct {
	*world
	f *alpine.Factory
}

func newAlp(ctx context.Context) (*alpWorld, error) {
	w := &world{routes: map[string]route{}}
	f, err := alpine.NewFactory(ctx)
	if err != nil {
		return nil, err
	}
	err = f.Configure(ctx, func(v any) error {
		if c, ok := v.(*alpine.FactoryConfig); ok {
			c.URL = "http://alpine.rx.test/"
		}
		return nil
	}, w.client())
	for _, rel := range []string{"v3.3", "v3.4", "v3.5", "edge"} {
		if rel != "edge" {
			w.routes["alpine.rx.test/"+rel+"/"] = route{status: 200, body: "<html></html>"}
		}
		w.routes["alpine.rx.test/"+rel+"/main.json"] = route{status: 200, body: "{}"}
	}
	return &alpWorld{w, f}, err
}

func (a *alpWorld) stamp(body, etag string) {
	a.routes["alpine.rx.test/last-update"] = route{status: 200, body: body, hdr: []string{"etag", etag}}
}

// call: one UpdaterSet; the names handed out ("err" on error), the validator it sent, whether it walked.
func (a *alpWorld) call(ctx context.Context) (set, inm string, walked bool) {
	m := a.mark()
	set, err := names(a.f.UpdaterSet(ctx))
	if err != nil {
		set = "err"
	}
	for _, l := range a.since(m) {
		if strings.HasPrefix(l, "GET alpine.rx.test/last-update") {
			inm = l[strings.Index(l, "inm=")+4:]
		}
		if strings.HasPrefix(l, "HEAD ") {
			walked = true
		}
	}
	return set, inm, walked
}

func alpineObs(ctx context.Context) map[string]string {
	obs := map[string]string{}
	yes := func(b bool) string {
		if b {
			return "true"
		}
		return "false"
	}
	// what a complete walk stores: the validator, the stamp, the set
	guard(obs, func() {
		a, err := newAlp(ctx)
		if err != nil {
			obs["factory"] = err.Error()
			return
		}
		a.stamp("stamp-1", `"s1"`)
		full, _, _ := a.call(ctx)
		obs["fullSet"] = full
		set2, inm, walked := a.call(ctx) // the server answers 200 with the same body again
		obs["etagStored"] = yes(inm == `"s1"`)
		obs["stampStored"] = yes(!walked)
		obs["curStored"] = yes(set2 == full && full != "" && full != "err")
		a.routes["alpine.rx.test/last-update"] = route{status: 304, hdr: []string{"etag", `"s1"`}}
		set3, _, _ := a.call(ctx)
		obs["notModifiedHandsOutCur"] = yes(set3 == full)
	})
	// a walk that meets an unexpected status (release directory / repository file) after a complete one:
	// the set is handed out, and nothing of the state changes
	for _, sc := range []struct{ name, key string }{{"dir", "alpine.rx.test/v3.4/"}, {"repo", "alpine.rx.test/v3.5/main.json"}} {
		guard(obs, func() {
			a, err := newAlp(ctx)
			if err != nil {
				obs["factory"] = err.Error()
				return
			}
			a.stamp("stamp-1", `"s1"`)
			full, _, _ := a.call(ctx)
			a.stamp("stamp-2", `"s2"`)
			ok := a.routes[sc.key]
			a.routes[sc.key] = route{status: 503, body: "try later"}
			part, _, _ := a.call(ctx)
			obs[sc.name+":handedOut"] = yes(part != "err" && part != full && part != "")
			a.routes[sc.key] = ok
			again, inm, walked := a.call(ctx) // last-update unchanged since the incomplete walk
			obs[sc.name+":walksAgain"] = yes(walked)
			obs[sc.name+":comesBack"] = yes(again == full)
			obs[sc.name+":oldValidatorKept"] = yes(inm == `"s1"`)
		})
	}
	// the same in the FIRST walk of a factory: nothing is stored at all
	guard(obs, func() {
		a, err := newAlp(ctx)
		if err != nil {
			obs["factory"] = err.Error()
			return
		}
		a.stamp("stamp-1", `"s1"`)
		ok := a.routes["alpine.rx.test/v3.4/"]
		a.routes["alpine.rx.test/v3.4/"] = route{status: 500}
		a.call(ctx)
		a.routes["alpine.rx.test/v3.4/"] = ok
		_, inm, walked := a.call(ctx)
		obs["first:nothingStored"] = yes(inm == "" && walked)
	})
	// a walk that breaks off on a request error: an error, nothing stored
	guard(obs, func() {
		a, err := newAlp(ctx)
		if err != nil {
			obs["factory"] = err.Error()
			return
		}
		a.stamp("stamp-1", `"s1"`)
		ok := a.routes["alpine.rx.test/v3.5/"]
		a.routes["alpine.rx.test/v3.5/"] = route{netErr: true}
		set, _, _ := a.call(ctx)
		obs["abort:err"] = yes(set == "err")
		a.routes["alpine.rx.test/v3.5/"] = ok
		_, inm, walked := a.call(ctx)
		obs["abort:nothingStored"] = yes(inm == "" && walked)
	})
	return obs
}

// ---- osv: the validator of ecosystems.txt and the set it stands for

func osvObs(ctx context.Context) map[string]string {
	obs := map[string]string{}
	yes := func(b bool) string {
		if b {
			return "true"
		}
		return "false"
	}
	mk := func() (*world, *osv.Factory, error) {
		w := &world{routes: map[string]route{}}
		f := new(osv.Factory)
		err := f.Configure(ctx, func(v any) error {
			if c, ok := v.(*osv.FactoryConfig); ok {
				c.URL = "http://osv.rx.test/"
			}
			return nil
		}, w.client())
		return w, f, err
	}
	inmOf := func(w *world, m int) string {
		for _, l := range w.since(m) {
			if strings.HasPrefix(l, "GET osv.rx.test/ecosystems.txt") {
				return l[strings.Index(l, "inm=")+4:]
			}
		}
		return "<no request>"
	}
	guard(obs, func() {
		w, f, err := mk()
		if err != nil {
			obs["factory"] = err.Error()
			return
		}
		w.routes["osv.rx.test/ecosystems.txt"] = route{status: 200, body: "PyPI\nGo\nMaven\n", hdr: []string{"etag", `"e1"`}}
		first, err := names(f.UpdaterSet(ctx))
		obs["first"] = first
		if err != nil {
			obs["first"] = "err"
		}
		w.routes["osv.rx.test/ecosystems.txt"] = route{status: 304, hdr: []string{"etag", `"e1"`}}
		m := w.mark()
		second, err := names(f.UpdaterSet(ctx))
		obs["etagSentAfterCompleteRead"] = yes(inmOf(w, m) == `"e1"`)
		obs["notModifiedHandsOutCur"] = yes(err == nil && second == first && first != "")
	})
	guard(obs, func() {
		w, f, err := mk()
		if err != nil {
			obs["factory"] = err.Error()
			return
		}
		// the body of the first answer breaks off: an error, and the validator must not be remembered
		w.routes["osv.rx.test/ecosystems.txt"] = route{status: 200, body: "PyPI\nGo\nMaven\nRubyGems\n", hdr: []string{"etag", `"e2"`}, cut: true}
		_, err = names(f.UpdaterSet(ctx))
		obs["cutRead:err"] = yes(err != nil)
		w.routes["osv.rx.test/ecosystems.txt"] = route{status: 200, body: "PyPI\nGo\nMaven\nRubyGems\n", hdr: []string{"etag", `"e2"`}}
		m := w.mark()
		got, err := names(f.UpdaterSet(ctx))
		obs["cutRead:validatorNotKept"] = yes(inmOf(w, m) == "")
		obs["cutRead:nextComplete"] = yes(err == nil && len(strings.Split(got, ",")) == 4)
	})
	return obs
}

func main() {
	io.Copy(io.Discard, os.Stdin)
	ctx := context.Background()
	out := map[string]map[string]string{"debian": debianObs(ctx), "alpine": alpineObs(ctx), "osv": osvObs(ctx)}
	var buf bytes.Buffer
	json.NewEncoder(&buf).Encode(out)
	os.Stdout.Write(buf.Bytes())
}
