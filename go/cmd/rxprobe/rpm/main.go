// Command rxprobe/rpm EVALUATES the facts of Gen/Rpm (Tie A, "evaluate instead
// of parse") on the real rpm header reader (hooks ParseAndLoadForVerif,
// TagTableForVerif, HeaderConstantsForVerif, FilePatternsForVerif of package rpm):
//
//	consts        the data type / region tag constants, as compiled
//	tagTable      the (tag, declared type) rows of the tag table, as initialised
//	filePatterns  the source of the compiled filePatterns expression
//	wanted        the tags Info.Load reads: a one-entry header whose entry is an unterminated string makes Load
//	              fail exactly for them (candidates: every tag of the table, its neighbours, a few unknown ones)
//	accepts       per wanted tag and data type 1..9: "ok" (Load goes through), "err" (refused), "panic"
//	guardsEmpty   an empty name under the old Filenames tag neither panics nor hides the other names
//	underRecover  directory indexes that point nowhere (too large, negative, too few) do not panic out of Load,
//	              and well-formed ones yield the file names
package main

import (
	"bytes"
	"context"
	"encoding/binary"
	"encoding/json"
	"fmt"
	"os"
	"sort"

	"github.com/rs/zerolog"

	"github.com/quay/claircore/rpm"
)

type ent struct {
	tag    int32
	typ    uint32
	offset int32
	count  uint32
}

func blob(es []ent, data []byte) []byte {
	var b bytes.Buffer
	binary.Write(&b, binary.BigEndian, uint32(len(es)))
	binary.Write(&b, binary.BigEndian, uint32(len(data)))
	for _, e := range es {
		binary.Write(&b, binary.BigEndian, e.tag)
		binary.Write(&b, binary.BigEndian, e.typ)
		binary.Write(&b, binary.BigEndian, e.offset)
		binary.Write(&b, binary.BigEndian, e.count)
	}
	b.Write(data)
	return b.Bytes()
}

type res struct {
	stage string // parse | load | ok | panic
	info  rpm.Info
}

func run(b []byte) (r res) {
	defer func() {
		if recover() != nil {
			r = res{stage: "panic"}
		}
	}()
	hr := rpm.ParseAndLoadForVerif(context.Background(), bytes.NewReader(b))
	return res{stage: hr.Stage, info: hr.Info}
}

func main() {
	zerolog.SetGlobalLevel(zerolog.Disabled)
	var out struct {
		Consts       map[string]int64    `json:"consts"`
		TagTable     [][2]int64          `json:"tagTable"`
		FilePatterns string              `json:"filePatterns"`
		Wanted       []int64             `json:"wanted"`
		Accepts      map[string][]string `json:"accepts"` // tag -> outcome for type 0..12
		GuardsEmpty  bool                `json:"guardsEmpty"`
		UnderRecover bool                `json:"underRecover"`
		Detail       []string            `json:"detail"`
	}
	out.Consts = rpm.HeaderConstantsForVerif()
	out.TagTable = rpm.TagTableForVerif()
	out.FilePatterns = rpm.FilePatternsForVerif()
	tString := uint32(out.Consts["TypeString"])
	cands := map[int64]bool{99999: true, 100000: true, 7: true}
	for _, r := range out.TagTable {
		cands[r[0]], cands[r[0]+1], cands[r[0]-1] = true, true, true
	}
	// control: a terminated string under an unknown tag must go through
	if r := run(blob([]ent{{99999, tString, 0, 1}}, []byte("abc\x00"))); r.stage != "ok" {
		fmt.Fprintf(os.Stderr, "control header (one unknown string entry) is not accepted: %s\n", r.stage)
		os.Exit(1)
	}
	for t := range cands {
		if t <= 0 || t > 1<<31-1 {
			continue
		}
		switch r := run(blob([]ent{{int32(t), tString, 0, 1}}, []byte("abcd"))); r.stage {
		case "load", "panic":
			out.Wanted = append(out.Wanted, t)
		case "ok":
		default:
			out.Detail = append(out.Detail, fmt.Sprintf("tag %d, unterminated string: stage %s", t, r.stage))
		}
	}
	sort.Slice(out.Wanted, func(i, j int) bool { return out.Wanted[i] < out.Wanted[j] })
	out.Accepts = map[string][]string{}
	data := []byte{'/', 'a', 0, 0, 0, 0, 0, 0, 0, 0, 0, 0, 0, 0, 0, 0}
	for _, t := range out.Wanted {
		var row []string
		for k := uint32(0); k <= 12; k++ {
			r := run(blob([]ent{{int32(t), k, 0, 1}}, data))
			o := "err"
			switch r.stage {
			case "ok":
				o = "ok"
			case "panic":
				o = "panic"
			}
			row = append(row, o)
		}
		out.Accepts[fmt.Sprint(t)] = row
	}
	// the rpm4 Filenames tag (5000): an empty name
	tSA, tI32 := uint32(out.Consts["TypeStringArray"]), uint32(out.Consts["TypeInt32"])
	has := func(xs []string, x string) bool {
		for _, y := range xs {
			if y == x {
				return true
			}
		}
		return false
	}
	{
		a := run(blob([]ent{{5000, tSA, 0, 2}}, []byte("/etc/rx-a\x00/etc/rx-b\x00")))
		b := run(blob([]ent{{5000, tSA, 0, 3}}, []byte("/etc/rx-a\x00\x00/etc/rx-b\x00")))
		c := run(blob([]ent{{5000, tSA, 0, 1}}, []byte("\x00")))
		out.GuardsEmpty = a.stage == "ok" && has(a.info.Filenames, "etc/rx-a") && has(a.info.Filenames, "etc/rx-b") &&
			b.stage == "ok" && has(b.info.Filenames, "etc/rx-a") && has(b.info.Filenames, "etc/rx-b") && c.stage == "ok"
		out.Detail = append(out.Detail, fmt.Sprintf("filenames: plain %s %v, with empty %s %v, only empty %s", a.stage, a.info.Filenames, b.stage, b.info.Filenames, c.stage))
	}
	// Dirindexes 1116, Basenames 1117, Dirnames 1118
	{
		files := func(idx []int32, nbase int) res {
			var d bytes.Buffer
			for _, i := range idx {
				binary.Write(&d, binary.BigEndian, i)
			}
			es := []ent{{1116, tI32, 0, uint32(len(idx))}}
			off := int32(d.Len())
			es = append(es, ent{1117, tSA, off, uint32(nbase)})
			for i := 0; i < nbase; i++ {
				fmt.Fprintf(&d, "rx%d\x00", i)
			}
			es = append(es, ent{1118, tSA, int32(d.Len()), 1})
			d.WriteString("/usr/bin/\x00")
			return run(blob(es, d.Bytes()))
		}
		good := files([]int32{0, 0}, 2)
		ok := good.stage == "ok" && has(good.info.Filenames, "usr/bin/rx0") && has(good.info.Filenames, "usr/bin/rx1")
		out.Detail = append(out.Detail, fmt.Sprintf("file loop: well-formed %s %v", good.stage, good.info.Filenames))
		for _, c := range []struct {
			idx   []int32
			nbase int
		}{{[]int32{5, 7}, 2}, {[]int32{0}, 2}, {[]int32{-1, 0}, 2}, {[]int32{0, 1}, 2}, {[]int32{1 << 30}, 1}} {
			r := files(c.idx, c.nbase)
			out.Detail = append(out.Detail, fmt.Sprintf("file loop: indexes %v for %d names: %s %v", c.idx, c.nbase, r.stage, r.info.Filenames))
			if r.stage != "ok" {
				ok = false
			}
		}
		out.UnderRecover = ok
	}
	if err := json.NewEncoder(os.Stdout).Encode(out); err != nil {
		fmt.Fprintln(os.Stderr, err)
		os.Exit(1)
	}
}
