// Command rxprobe/cpereplace EVALUATES the two strings.Replacer tables of
// toolkit/types/cpe (valueString of bind.go, valueURI of unbind.go) for
// Gen/Cpe: the (old, new) argument list each replacer was built from, in
// argument order, read out of the value itself (hook ReplacersForVerif) —
// strings.Replacer keeps the list it was given in its field `oldnew` — so a
// literal argument list, a list variable, or a list built by a function give the
// same table.  The reading is checked against the replacer's behaviour: every
// key alone must be replaced by its value unless an earlier key is a prefix of it.
//
// stdout: {"valueString": [[oldHex, newHex], …], "valueURI": […]}
package main

import (
	"encoding/hex"
	"encoding/json"
	"fmt"
	"os"
	"reflect"
	"strings"
	"unsafe"

	"github.com/quay/claircore/toolkit/types/cpe"
)

func pairs(name string, r *strings.Replacer) [][2]string {
	if r == nil {
		fmt.Fprintf(os.Stderr, "%s is nil\n", name)
		os.Exit(1)
	}
	f := reflect.ValueOf(r).Elem().FieldByName("oldnew")
	if !f.IsValid() || f.Type() != reflect.TypeOf([]string(nil)) {
		fmt.Fprintf(os.Stderr, "strings.Replacer of this toolchain has no field oldnew []string\n")
		os.Exit(1)
	}
	oldnew := *(*[]string)(unsafe.Pointer(f.UnsafeAddr()))
	if len(oldnew)%2 != 0 {
		fmt.Fprintf(os.Stderr, "%s: odd argument list\n", name)
		os.Exit(1)
	}
	var out [][2]string
	for i := 0; i < len(oldnew); i += 2 {
		o, n := oldnew[i], oldnew[i+1]
		shadowed := false
		for j := 0; j < i; j += 2 {
			if strings.HasPrefix(o, oldnew[j]) {
				shadowed = true
			}
		}
		if !shadowed && o != "" {
			if got := r.Replace(o); got != n {
				fmt.Fprintf(os.Stderr, "%s: the list says %q -> %q but the replacer answers %q\n", name, o, n, got)
				os.Exit(1)
			}
		}
		out = append(out, [2]string{hex.EncodeToString([]byte(o)), hex.EncodeToString([]byte(n))})
	}
	return out
}

func main() {
	b, u := cpe.ReplacersForVerif()
	out := map[string][][2]string{"valueString": pairs("valueString", b), "valueURI": pairs("valueURI", u)}
	if err := json.NewEncoder(os.Stdout).Encode(out); err != nil {
		fmt.Fprintln(os.Stderr, err)
		os.Exit(1)
	}
}
