// Command rxprobe/fetch evaluates the table-like parts of the layer fetcher
// (property C09) by running the real code (Tie A, "evaluate instead of parse":
// go/internal/extract/rxprobe.go):
//
//	detect   zreader.detectCompression on given byte strings
//	fetch    one RealizeDescriptions call against a scripted in-process registry that answers
//	         with a given status, content type and payload compression
//	init     (*claircore.Layer).Init with a given media type: does it build the FS from the tar
//	         reader, from the directory named by the URI, or refuse?
//	legacy   the media type wart.LayersToDescriptions assigns
//	digest   the checksum sizes claircore.NewDigest accepts for an algorithm name
//
// stdin:  {"detect": [hex...], "fetch": [{"ct","payload","status"}], "init": [mediatype...], "digest": [algo...]}
// stdout: {"detect": [kind...], "fetch": [""|error text...], "init": ["tar"|"dir"|"err"|"none"|"panic"...],
//
//	"legacy": "...", "digest": [[sizes]...]}
package main

import (
	"bytes"
	"context"
	"crypto/sha256"
	"encoding/hex"
	"encoding/json"
	"fmt"
	"io/fs"
	"os"
	"path/filepath"
	"time"

	"github.com/quay/claircore"
	"github.com/quay/claircore/internal/wart"
	"github.com/quay/claircore/internal/zreader"
	"github.com/quay/claircore/libindex"
	"github.com/quay/claircore/verifharness/internal/registry"
)

type fetchOp struct {
	CT      string `json:"ct"`
	Payload string `json:"payload"` // gzip | zstd | plain | bzip2
	Status  int    `json:"status"`
}

func main() {
	var in struct {
		Detect []string  `json:"detect"`
		Fetch  []fetchOp `json:"fetch"`
		Init   []string  `json:"init"`
		Digest []string  `json:"digest"`
	}
	if err := json.NewDecoder(os.Stdin).Decode(&in); err != nil {
		fmt.Fprintln(os.Stderr, err)
		os.Exit(2)
	}
	var out struct {
		Detect []int    `json:"detect"`
		Fetch  []string `json:"fetch"`
		Init   []string `json:"init"`
		Legacy string   `json:"legacy"`
		Digest [][]int  `json:"digest"`
	}
	for _, h := range in.Detect {
		b, err := hex.DecodeString(h)
		if err != nil {
			fmt.Fprintln(os.Stderr, err)
			os.Exit(2)
		}
		out.Detect = append(out.Detect, int(zreader.DetectCompressionForVerif(b)))
	}

	tarball := registry.Tar([]registry.File{{Name: "tarmarker", Data: []byte("rx probe layer\n")}, {Name: "etc/os-release", Data: []byte("ID=rx\n")}}, true)
	bz, _ := registry.Bzip2Tar()
	payloads := map[string][]byte{
		"plain": tarball,
		"gzip":  registry.GzipBytes(tarball, 6),
		"zstd":  registry.ZstdBytes(tarball, true),
		"bzip2": bz,
	}
	root, err := os.MkdirTemp("", "rxfetch-")
	if err != nil {
		fmt.Fprintln(os.Stderr, err)
		os.Exit(1)
	}
	defer os.RemoveAll(root)
	for i, op := range in.Fetch {
		body, ok := payloads[op.Payload]
		if !ok {
			fmt.Fprintln(os.Stderr, "unknown payload", op.Payload)
			os.Exit(2)
		}
		out.Fetch = append(out.Fetch, fetch(root, i, op, body))
	}

	// Layer.Init
	dir := filepath.Join(root, "dirlayer")
	os.MkdirAll(dir, 0o755)
	os.WriteFile(filepath.Join(dir, "dirmarker"), []byte("x"), 0o644)
	sum := sha256.Sum256(tarball)
	dig := "sha256:" + hex.EncodeToString(sum[:])
	for _, mt := range in.Init {
		out.Init = append(out.Init, initLayer(dig, dir, mt, tarball))
	}
	ds := wart.LayersToDescriptions([]*claircore.Layer{{Hash: claircore.MustParseDigest(dig), URI: "http://registry.invalid/x"}})
	if len(ds) == 1 {
		out.Legacy = ds[0].MediaType
	}
	for _, a := range in.Digest {
		sizes := []int{}
		for n := 0; n <= 130; n++ {
			if _, err := claircore.NewDigest(a, make([]byte, n)); err == nil {
				sizes = append(sizes, n)
			}
		}
		out.Digest = append(out.Digest, sizes)
	}
	json.NewEncoder(os.Stdout).Encode(out)
}

func fetch(root string, i int, op fetchOp, body []byte) (res string) {
	defer func() {
		if r := recover(); r != nil {
			res = fmt.Sprint("panic: ", r)
		}
	}()
	tr := registry.NewTransport()
	r := registry.New(op.CT, body)
	if op.Status != 0 {
		r.Status = op.Status
	}
	tr.Set("/layer", r)
	adir := filepath.Join(root, fmt.Sprintf("arena%d", i))
	if err := os.MkdirAll(adir, 0o755); err != nil {
		return "setup: " + err.Error()
	}
	defer os.RemoveAll(adir)
	arena := libindex.NewRemoteFetchArena(tr.Client(), adir)
	ctx, cancel := context.WithTimeout(context.Background(), 20*time.Second)
	defer cancel()
	defer arena.Close(ctx)
	sum := sha256.Sum256(body)
	p := arena.Realizer(ctx).(*libindex.FetchProxy)
	ls, err := p.RealizeDescriptions(ctx, []claircore.LayerDescription{{
		Digest: "sha256:" + hex.EncodeToString(sum[:]), URI: tr.URL("/layer"),
		// what Init does with the media type is asked separately; this one is always accepted
		MediaType: "application/vnd.oci.image.layer.v1.tar",
	}})
	if err != nil {
		p.Close()
		msg := err.Error()
		if len(msg) > 400 {
			msg = msg[:400]
		}
		return msg
	}
	// the layer must hold the payload's file
	ok := false
	if len(ls) == 1 {
		if sys, err := ls[0].FS(); err == nil {
			if _, err := fs.Stat(sys, "tarmarker"); err == nil {
				ok = true
			} else if _, err := fs.Stat(sys, "etc/hostname"); err == nil && op.Payload == "bzip2" {
				ok = true
			}
		}
	}
	p.Close() // closes the layers it handed out
	if !ok {
		return "accepted but the layer does not show the payload's files"
	}
	return ""
}

func initLayer(dig, dir, mt string, tarball []byte) (res string) {
	defer func() {
		if r := recover(); r != nil {
			res = "panic"
		}
	}()
	var l claircore.Layer
	err := l.Init(context.Background(), &claircore.LayerDescription{Digest: dig, URI: dir, MediaType: mt}, bytes.NewReader(tarball))
	if err != nil {
		return "err"
	}
	defer l.Close()
	sys, err := l.FS()
	if err != nil {
		return "none"
	}
	_, terr := fs.Stat(sys, "tarmarker")
	_, derr := fs.Stat(sys, "dirmarker")
	switch {
	case terr == nil && derr != nil:
		return "tar"
	case derr == nil && terr != nil:
		return "dir"
	}
	return "none"
}
