// Command rxprobe/tar EVALUATES the facts of Gen/Tar on the real
// pkg/tarfs findSegments (hook FindSegmentsForVerif), by handing it small
// crafted archives through a ReaderAt that logs every read (Tie A, "evaluate
// instead of parse"):
//
//	blockSz        the length of the first read
//	magicOff,      the only pair of positions (k, j) at which a candidate magic / version written into an
//	versionOff     otherwise empty header block makes the block acceptable
//	magics6/8      every candidate magic accepted there: 6-byte ones that need the version, 8-byte ones that
//	               cover the version field
//	versions       every 2-byte candidate accepted in the version field
//	typeflagOff    the only position where a "prepended" flag glues the block to the next header's segment
//	sizePos        the positions where a digit changes the parsed size
//	flags          for each of the 256 typeflag values: data / prepend / ignored
//	negative       binary-encoded negative sizes are refused (no hang, no success)
//	probe          a size that runs past the end of the archive is refused
//
// stdin: {"lits": [hex, …]} candidate byte strings (the string literals of the package)
package main

import (
	"encoding/hex"
	"encoding/json"
	"fmt"
	"io"
	"os"
	"sort"
	"time"

	"github.com/quay/claircore/pkg/tarfs"
)

type call struct {
	n   int
	off int64
}

type rd struct {
	data     []byte
	zeroTail bool
	log      []call
}

func (r *rd) ReadAt(p []byte, off int64) (int, error) {
	if len(r.log) < 1<<12 {
		r.log = append(r.log, call{len(p), off})
	}
	if off < 0 {
		return 0, fmt.Errorf("negative offset")
	}
	if r.zeroTail {
		for i := range p {
			p[i] = 0
		}
		if off < int64(len(r.data)) {
			copy(p, r.data[off:])
		}
		return len(p), nil
	}
	if off >= int64(len(r.data)) {
		return 0, io.EOF
	}
	n := copy(p, r.data[off:])
	if n < len(p) {
		return n, io.EOF
	}
	return n, nil
}

type outcome struct {
	segs [][2]int64
	err  bool
	hang bool
	pan  bool
	log  []call
}

func run(data []byte, zeroTail bool) outcome {
	r := &rd{data: data, zeroTail: zeroTail}
	ch := make(chan outcome, 1)
	go func() {
		var o outcome
		defer func() {
			if recover() != nil {
				o.pan, o.err = true, true
			}
			ch <- o
		}()
		segs, err := tarfs.FindSegmentsForVerif(r)
		o.err = err != nil
		for _, s := range segs {
			o.segs = append(o.segs, [2]int64{s.Start, s.Size})
		}
	}()
	select {
	case o := <-ch:
		o.log = r.log
		return o
	case <-time.After(3 * time.Second):
		return outcome{hang: true, err: true}
	}
}

func die(f string, a ...any) {
	fmt.Fprintf(os.Stderr, f+"\n", a...)
	os.Exit(1)
}

func main() {
	var in struct {
		Lits []string `json:"lits"`
	}
	if err := json.NewDecoder(os.Stdin).Decode(&in); err != nil {
		die("input: %v", err)
	}
	var out struct {
		BlockSz     int      `json:"blockSz"`
		Pairs       [][2]int `json:"pairs"` // accepted (magic position, version position)
		Magics6     []string `json:"magics6"`
		Magics6Any  []string `json:"magics6any"` // 6-byte magics accepted whatever the version field holds
		Magics8     []string `json:"magics8"`
		Versions    []string `json:"versions"`
		TypeflagOff []int    `json:"typeflagOff"`
		SizePos     []int    `json:"sizePos"`
		Flags       []string `json:"flags"`
		Negative    bool     `json:"negative"`
		NegDetail   string   `json:"negDetail"`
		Probe       bool     `json:"probe"`
	}
	// 1. block size
	o := run(make([]byte, 4096), true)
	if len(o.log) == 0 {
		die("findSegments did not read")
	}
	B := o.log[0].n
	if B < 64 || B > 1<<16 || o.log[0].off != 0 {
		die("findSegments starts with a read of %d bytes at %d", B, o.log[0].off)
	}
	out.BlockSz = B
	blank := func() []byte {
		b := make([]byte, B)
		b[0] = 'r' // a name: not a block of zeroes
		return b
	}
	okOne := func(h []byte) bool { // header alone, zeroes after it: accepted as one block-sized segment
		o := run(h, true)
		return !o.err && len(o.segs) == 1 && o.segs[0] == [2]int64{0, int64(B)}
	}
	// the same without the goroutine and timer of run, for the quarter of a million placements below (the
	// size field of these headers is empty or overwritten by text that is no number: nothing can loop)
	okOneFast := func(h []byte) (ok bool) {
		defer func() {
			if recover() != nil {
				ok = false
			}
		}()
		segs, err := tarfs.FindSegmentsForVerif(&rd{data: h, zeroTail: true})
		return err == nil && len(segs) == 1 && segs[0].Start == 0 && segs[0].Size == int64(B)
	}
	// candidates
	cand := map[string]bool{"ustar\x00": true, "ustar ": true, "ustar  \x00": true, "00": true}
	for _, l := range in.Lits {
		b, err := hex.DecodeString(l)
		if err == nil && len(b) > 0 && len(b) <= 8 {
			cand[string(b)] = true
		}
	}
	var c6, c8, c2 []string
	for c := range cand {
		switch len(c) {
		case 6:
			c6 = append(c6, c)
		case 8:
			c8 = append(c8, c)
		case 2:
			c2 = append(c2, c)
		}
	}
	sort.Strings(c6)
	sort.Strings(c8)
	sort.Strings(c2)
	// 2. where do magic and version live?  (first candidate pair that is accepted anywhere fixes the positions)
	var m0, v0 string
	for _, m := range c6 {
		for _, v := range c2 {
			for k := 0; k+6 <= B; k++ {
				for j := 0; j+2 <= B; j++ {
					if j+2 > k && j < k+6 {
						continue
					}
					h := blank()
					copy(h[k:], m)
					copy(h[j:], v)
					if okOneFast(h) {
						out.Pairs = append(out.Pairs, [2]int{k, j})
					}
				}
			}
			if len(out.Pairs) > 0 {
				m0, v0 = m, v
				break
			}
		}
		if len(out.Pairs) > 0 {
			break
		}
	}
	if len(out.Pairs) != 1 {
		die("no unique position pair for a magic and a version (found %d: %v)", len(out.Pairs), out.Pairs)
	}
	mo, vo := out.Pairs[0][0], out.Pairs[0][1]
	hdr := func(magic, version string) []byte {
		h := blank()
		copy(h[vo:], version)
		copy(h[mo:], magic) // an 8-byte magic may cover the version field
		return h
	}
	// 3. versions, magics (candidates, and their near misses)
	vs := map[string]bool{}
	for _, v := range c2 {
		vs[v] = true
	}
	for _, a := range []byte{0, ' ', '0', '1', '7', '9', 'a'} {
		for _, b := range []byte{0, ' ', '0', '1', '7', '9', 'a'} {
			vs[string([]byte{a, b})] = true
		}
	}
	for v := range vs {
		if okOne(hdr(m0, v)) {
			out.Versions = append(out.Versions, hex.EncodeToString([]byte(v)))
		}
	}
	sort.Strings(out.Versions)
	near := func(s string) []string {
		var ns []string
		for i := 0; i < len(s); i++ {
			for _, c := range []byte{s[i] ^ 0x20, s[i] + 1, 0, ' '} {
				if c != s[i] {
					b := []byte(s)
					b[i] = c
					ns = append(ns, string(b))
				}
			}
		}
		return ns
	}
	all6, all8 := map[string]bool{}, map[string]bool{}
	for _, m := range c6 {
		all6[m] = true
		for _, n := range near(m) {
			all6[n] = true
		}
	}
	for _, m := range c8 {
		all8[m] = true
		for _, n := range near(m) {
			all8[n] = true
		}
	}
	is6 := map[string]bool{}
	for m := range all6 {
		good, bad := okOne(hdr(m, v0)), okOne(hdr(m, "\xee\xee"))
		switch {
		case good && !bad:
			out.Magics6 = append(out.Magics6, hex.EncodeToString([]byte(m)))
			is6[m] = true
		case good && bad:
			out.Magics6Any = append(out.Magics6Any, hex.EncodeToString([]byte(m)))
		}
	}
	okVersion := map[string]bool{}
	for _, v := range out.Versions {
		b, _ := hex.DecodeString(v)
		okVersion[string(b)] = true
	}
	if vo == mo+6 {
		for m := range all8 {
			if okOne(hdr(m, "")) && !(is6[m[:6]] && okVersion[m[6:]]) {
				out.Magics8 = append(out.Magics8, hex.EncodeToString([]byte(m)))
			}
		}
	}
	sort.Strings(out.Magics6)
	sort.Strings(out.Magics6Any)
	sort.Strings(out.Magics8)
	// 4. typeflag position: a prepended-kind flag makes the block part of the next header's segment
	good := hdr(m0, v0)
	inFixed := func(k int) bool { return (k >= mo && k < mo+6) || (k >= vo && k < vo+2) }
	for _, flag := range []byte{'x', 'L', 'K', 'S'} {
		for k := 1; k < B; k++ {
			if inFixed(k) {
				continue
			}
			h := append([]byte{}, good...)
			h[k] = flag
			o := run(append(h, good...), true)
			if !o.err && len(o.segs) == 1 && o.segs[0] == [2]int64{0, int64(2 * B)} {
				out.TypeflagOff = append(out.TypeflagOff, k)
			}
		}
		if len(out.TypeflagOff) > 0 {
			break
		}
	}
	// 5. size field: positions where a digit changes the size of the segment
	for k := 1; k < B; k++ {
		if inFixed(k) {
			continue
		}
		h := append([]byte{}, good...)
		h[k] = '1'
		o := run(h, true)
		if !o.err && len(o.segs) == 1 && o.segs[0][1] != int64(B) {
			out.SizePos = append(out.SizePos, k)
		}
	}
	// 6. typeflag classes
	if len(out.TypeflagOff) == 1 {
		tf := out.TypeflagOff[0]
		for v := 0; v < 256; v++ {
			h := append([]byte{}, good...)
			h[tf] = byte(v)
			o := run(append(h, good...), true)
			cls := "other"
			switch {
			case o.err:
				cls = "error"
			case len(o.segs) == 2 && o.segs[0] == [2]int64{0, int64(B)} && o.segs[1] == [2]int64{int64(B), int64(B)}:
				cls = "data"
			case len(o.segs) == 1 && o.segs[0] == [2]int64{0, int64(2 * B)}:
				cls = "prepend"
			case len(o.segs) == 1 && o.segs[0] == [2]int64{int64(B), int64(B)}:
				cls = "ignored"
			}
			out.Flags = append(out.Flags, cls)
		}
	}
	// 7. negative sizes (base-256 encoding: first byte 0x80 | 0x40 = negative)
	if len(out.SizePos) > 0 {
		so, sl := out.SizePos[0], len(out.SizePos)
		out.Negative = true
		for _, n := range []int64{-1, -2, -int64(B), -int64(B) - 1, -2 * int64(B), -1 << 40, -1 << 62} {
			h := append([]byte{}, good...)
			f := h[so : so+sl]
			u := uint64(n)
			for i := sl - 1; i >= 0; i-- {
				f[i] = byte(u)
				u >>= 8
				if i < sl-8 {
					f[i] = 0xff
				}
			}
			f[0] |= 0x80 | 0x40
			// a few blocks of real content after it, then the end: no zero tail, a scan that goes on must end
			data := append(h, make([]byte, 4*B)...)
			o := run(data, false)
			if !o.err || o.hang || o.pan {
				out.Negative = false
				out.NegDetail += fmt.Sprintf("size %d: err=%v hang=%v panic=%v segs=%v; ", n, o.err, o.hang, o.pan, o.segs)
			}
		}
		// 8. a size that runs past the end of the archive
		out.Probe = true
		for _, c := range []struct{ size, have int }{{2 * B, B}, {2 * B, 2*B - 1}, {1, 0}, {B + 1, B}, {1 << 30, 3 * B}} {
			h := append([]byte{}, good...)
			f := h[so : so+sl]
			oct := fmt.Sprintf("%0*o", sl-1, c.size)
			copy(f, oct)
			f[sl-1] = 0
			data := append(h, make([]byte, c.have)...)
			o := run(data, false)
			if !o.err {
				out.Probe = false
			}
		}
	}
	if err := json.NewEncoder(os.Stdout).Encode(out); err != nil {
		die("%v", err)
	}
}
