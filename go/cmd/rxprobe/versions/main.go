// Command rxprobe/versions evaluates the table-like parts of pkg/pep440 through
// its exported API: the label normalisation of Parse, the slot layout and the
// label values of (*Version).Version (Tie A, "evaluate instead of parse":
// go/internal/extract/rxprobe.go).
//
// stdin:  {"preAlts": [labels the pattern can capture], "labels": [candidate canonical labels]}
// stdout: {"norm": [{"in","out","ok"}], "slots": {"epoch":i,"rel":i,"preL":i,"preN":i,"post":i,"dev":i},
//
//	"labelSlot": [{"label","value"}] (candidates with a non-zero label slot)}
package main

import (
	"encoding/json"
	"fmt"
	"math"
	"os"

	"github.com/quay/claircore/pkg/pep440"
)

func only(v [10]int32, want int32) (int, error) {
	at := -1
	for i, x := range v {
		if x == want {
			if at >= 0 {
				return 0, fmt.Errorf("value %d appears in slots %d and %d", want, at, i)
			}
			at = i
		} else if x != 0 {
			return 0, fmt.Errorf("unexpected non-zero slot %d = %d (looking for %d)", i, x, want)
		}
	}
	if at < 0 {
		return 0, fmt.Errorf("value %d appears in no slot", want)
	}
	return at, nil
}

func main() {
	var in struct {
		PreAlts []string `json:"preAlts"`
		Labels  []string `json:"labels"`
	}
	if err := json.NewDecoder(os.Stdin).Decode(&in); err != nil {
		fmt.Fprintln(os.Stderr, err)
		os.Exit(2)
	}
	type norm struct {
		In  string `json:"in"`
		Out string `json:"out"`
		OK  bool   `json:"ok"`
	}
	type ls struct {
		Label string `json:"label"`
		Value int    `json:"value"`
	}
	var out struct {
		Norm      []norm         `json:"norm"`
		Slots     map[string]int `json:"slots"`
		LabelSlot []ls           `json:"labelSlot"`
	}
	for _, a := range in.PreAlts {
		v, err := pep440.Parse("1" + a + "2")
		out.Norm = append(out.Norm, norm{In: a, Out: v.Pre.Label, OK: err == nil && v.Pre.N == 2 && len(v.Release) == 1 && v.Release[0] == 1})
	}
	out.Slots = map[string]int{}
	fail := func(what string, err error) {
		fmt.Fprintf(os.Stderr, "pep440 Version(): %s: %v\n", what, err)
		os.Exit(1)
	}
	slot := func(name string, v pep440.Version, want int32) {
		c := v.Version()
		if c.Kind != "pep440" {
			fail(name, fmt.Errorf("kind is %q", c.Kind))
		}
		i, err := only(c.V, want)
		if err != nil {
			fail(name, err)
		}
		out.Slots[name] = i
	}
	slot("epoch", pep440.Version{Epoch: 11}, 11)
	slot("rel", pep440.Version{Release: []int{21}}, 21)
	var pn pep440.Version
	pn.Pre.N = 31
	slot("preN", pn, 31)
	slot("post", pep440.Version{Post: 41}, 41)
	// the label slot: where a known label leaves its (non-zero) mark; the dev
	// slot: where the dev number of a post release goes
	labelAt := -1
	for _, l := range in.Labels {
		var v pep440.Version
		v.Pre.Label = l
		c := v.Version()
		for i, x := range c.V {
			if x != 0 {
				if labelAt >= 0 && labelAt != i {
					fail("preL", fmt.Errorf("labels mark slots %d and %d", labelAt, i))
				}
				labelAt = i
				out.LabelSlot = append(out.LabelSlot, ls{l, int(x)})
			}
		}
	}
	if labelAt < 0 {
		fail("preL", fmt.Errorf("no candidate label marks a slot"))
	}
	out.Slots["preL"] = labelAt
	{
		c := (&pep440.Version{Post: 41, Dev: 5}).Version()
		at := -1
		for i, x := range c.V {
			if x == math.MinInt32+5 {
				at = i
			}
		}
		if at < 0 {
			fail("dev", fmt.Errorf("the dev number of a post release is in no slot as MinInt32+n: %v", c.V))
		}
		out.Slots["dev"] = at
	}
	json.NewEncoder(os.Stdout).Encode(out)
}
