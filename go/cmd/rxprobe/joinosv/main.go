// Command rxprobe/joinosv evaluates the OSV side of the join (Gen/JoinOsv of
// property C04; Tie A, "evaluate instead of parse": go/internal/extract/rxprobe.go),
// through the exported API of updater/osv and of the language packages:
//
//   - which ecosystems of an `ecosystems.txt` the Factory hands out no updater
//     for (the real Factory.UpdaterSet against an in-process transport serving
//     the candidate names, one per line);
//   - for every candidate ecosystem of an advisory's `affected.package`: whether
//     the stored package name is the advisory's name or its PURL, and the package
//     Kind (the real Parse of the package's updater on a generated all.zip);
//   - the `Repository` variable of the language scanners (python, java, ruby,
//     nodejs, gobin) and the Kind of pep440.Version.Version().
//
// stdin:  {"listed": ["ecosystem name", ...], "advisory": ["ecosystem", ...]}
// stdout: {"handedOut": ["osv/<e>", ...], "listedErr": "", "advisory": [{"ecosystem","name":"name|purl|<other>","kind","n"}],
//
//	"languages": {"python": {"name","uri","other"}, ...}, "pep440Kind": ".."}
package main

import (
	"archive/zip"
	"bytes"
	"context"
	"encoding/json"
	"fmt"
	"io"
	"net/http"
	"os"
	"reflect"
	"sort"
	"strings"

	"github.com/quay/claircore"
	"github.com/quay/claircore/gobin"
	"github.com/quay/claircore/java"
	"github.com/quay/claircore/nodejs"
	"github.com/quay/claircore/pkg/pep440"
	"github.com/quay/claircore/python"
	"github.com/quay/claircore/ruby"
	"github.com/quay/claircore/updater/osv"
)

type transport func(*http.Request) (*http.Response, error)

func (t transport) RoundTrip(r *http.Request) (*http.Response, error) { return t(r) }

func answer(req *http.Request, status int, body []byte, hdr ...string) *http.Response {
	h := http.Header{}
	for i := 0; i+1 < len(hdr); i += 2 {
		h.Set(hdr[i], hdr[i+1])
	}
	return &http.Response{Status: fmt.Sprintf("%d x", status), StatusCode: status, Proto: "HTTP/1.1", ProtoMajor: 1, ProtoMinor: 1,
		Header: h, Body: io.NopCloser(bytes.NewReader(body)), ContentLength: int64(len(body)), Request: req}
}

type repo struct {
	Name  string `json:"name"`
	URI   string `json:"uri"`
	Other bool   `json:"other"` // a field besides Name and URI is set
}

func render(r claircore.Repository) repo {
	rest := r
	rest.Name, rest.URI = "", ""
	return repo{Name: r.Name, URI: r.URI, Other: !reflect.DeepEqual(rest, claircore.Repository{})}
}

type zipFile struct{ *bytes.Reader }

func (zipFile) Close() error { return nil }

func main() {
	var in struct {
		Listed   []string `json:"listed"`
		Advisory []string `json:"advisory"`
	}
	if err := json.NewDecoder(os.Stdin).Decode(&in); err != nil {
		fmt.Fprintln(os.Stderr, err)
		os.Exit(2)
	}
	type adv struct {
		Ecosystem string `json:"ecosystem"`
		Name      string `json:"name"`
		Kind      string `json:"kind"`
		N         int    `json:"n"` // vulnerabilities the advisory produced
		Err       string `json:"err"`
	}
	var out struct {
		HandedOut  []string        `json:"handedOut"`
		ListedErr  string          `json:"listedErr"`
		Advisory   []adv           `json:"advisory"`
		Languages  map[string]repo `json:"languages"`
		Pep440Kind string          `json:"pep440Kind"`
	}
	ctx := context.Background()
	// ---- Factory.UpdaterSet on an ecosystems.txt listing the candidates
	func() {
		defer func() {
			if x := recover(); x != nil {
				out.ListedErr = fmt.Sprint("panic: ", x)
			}
		}()
		body := []byte(strings.Join(in.Listed, "\n") + "\n")
		c := &http.Client{Transport: transport(func(req *http.Request) (*http.Response, error) {
			if strings.HasSuffix(req.URL.Path, "/ecosystems.txt") {
				return answer(req, 200, body, "etag", `"rx"`, "content-type", "text/plain"), nil
			}
			return answer(req, 404, nil), nil
		})}
		f := new(osv.Factory)
		cf := func(v any) error {
			if c, ok := v.(*osv.FactoryConfig); ok {
				c.URL = "http://osv.rx.test/"
			}
			return nil
		}
		if err := f.Configure(ctx, cf, c); err != nil {
			out.ListedErr = "configure: " + err.Error()
			return
		}
		s, err := f.UpdaterSet(ctx)
		if err != nil {
			out.ListedErr = err.Error()
			return
		}
		for _, u := range s.Updaters() {
			out.HandedOut = append(out.HandedOut, u.Name())
		}
		sort.Strings(out.HandedOut)
	}()
	// ---- Parse: package name and kind per ecosystem of the advisory
	for i, eco := range in.Advisory {
		a := adv{Ecosystem: eco}
		func() {
			defer func() {
				if x := recover(); x != nil {
					a.Err = fmt.Sprint("panic: ", x)
				}
			}()
			name, purl := fmt.Sprintf("rx-name-%d", i), fmt.Sprintf("pkg:rx/purl-%d", i)
			doc := map[string]any{
				"id": fmt.Sprintf("RX-%d", i), "summary": "generated", "published": "2024-01-01T00:00:00Z", "modified": "2024-01-01T00:00:00Z",
				"affected": []any{map[string]any{
					"package": map[string]string{"ecosystem": eco, "name": name, "purl": purl},
					"ranges":  []any{map[string]any{"type": "SEMVER", "events": []map[string]string{{"introduced": "0"}, {"fixed": "1.2.3"}}}},
				}},
			}
			// Fetch hands Parse a zip holding the ecosystem's all.zip
			var inner, buf bytes.Buffer
			zw := zip.NewWriter(&inner)
			w, _ := zw.Create("RX.json")
			b, _ := json.Marshal(doc)
			w.Write(b)
			zw.Close()
			zw = zip.NewWriter(&buf)
			w, _ = zw.Create("rxeco.zip")
			w.Write(inner.Bytes())
			zw.Close()
			vs, err := osv.ParserForC14("rxeco").Parse(ctx, zipFile{bytes.NewReader(buf.Bytes())})
			if err != nil {
				a.Err = err.Error()
				return
			}
			a.N = len(vs)
			names, kinds := map[string]bool{}, map[string]bool{}
			for _, v := range vs {
				if v.Package == nil {
					names["<no package>"] = true
					continue
				}
				switch v.Package.Name {
				case name:
					names["name"] = true
				case purl:
					names["purl"] = true
				default:
					names["other:"+v.Package.Name] = true
				}
				kinds[v.Package.Kind] = true
			}
			join := func(m map[string]bool) string {
				var ks []string
				for k := range m {
					ks = append(ks, k)
				}
				sort.Strings(ks)
				return strings.Join(ks, "|")
			}
			a.Name, a.Kind = join(names), join(kinds)
		}()
		out.Advisory = append(out.Advisory, a)
	}
	out.Languages = map[string]repo{
		"python": render(python.Repository), "java": render(java.Repository), "ruby": render(ruby.Repository),
		"nodejs": render(nodejs.Repository), "gobin": render(gobin.Repository),
	}
	if v, err := pep440.Parse("1.0"); err == nil {
		out.Pep440Kind = v.Version().Kind
	} else {
		out.Pep440Kind = "error: " + err.Error()
	}
	json.NewEncoder(os.Stdout).Encode(out)
}
