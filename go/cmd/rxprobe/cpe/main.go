// Command rxprobe/cpe evaluates cpe.Compare on every combination of value
// kinds and wildcard-ness, for a set of sample strings, and reports for each
// sample what patCompare and strings.EqualFold say about it, so that the
// extractor can state the attribute comparison table of Gen/Cpe without reading
// the body of Compare (Tie A, "evaluate instead of parse":
// go/internal/extract/rxprobe.go).
//
// stdin:  {"srcPlain": [...], "srcWild": [...], "tgtPlain": [...], "tgtWild": [...]}
// stdout: {"numAttr": n, "kinds": ["ValueUnset", ...] (String() of 0..3), "relations": [String() of 0..],
//
//	"cells": [{"sk","sw","tk","tw","samples":[{"s","t","pat","fold","rel":[per attribute]}]}]}
package main

import (
	"encoding/json"
	"fmt"
	"os"
	"strings"

	"github.com/quay/claircore/toolkit/types/cpe"
)

type sample struct {
	S    string `json:"s"`
	T    string `json:"t"`
	Pat  bool   `json:"pat"`
	Fold bool   `json:"fold"`
	Rel  []int  `json:"rel"`  // relation of attribute i when only attribute i carries the pair
	Rest bool   `json:"rest"` // every other attribute (ANY against ANY) came out Equal
}

type cell struct {
	SK      int      `json:"sk"`
	SW      bool     `json:"sw"`
	TK      int      `json:"tk"`
	TW      bool     `json:"tw"`
	Samples []sample `json:"samples"`
}

func main() {
	var in struct {
		SrcPlain, SrcWild, TgtPlain, TgtWild []string
	}
	if err := json.NewDecoder(os.Stdin).Decode(&in); err != nil {
		fmt.Fprintln(os.Stderr, err)
		os.Exit(2)
	}
	var out struct {
		NumAttr   int      `json:"numAttr"`
		Kinds     []string `json:"kinds"`
		Relations []string `json:"relations"`
		Equal     int      `json:"equal"`
		Cells     []cell   `json:"cells"`
	}
	out.NumAttr = cpe.NumAttr
	for k := 0; k < 4; k++ {
		out.Kinds = append(out.Kinds, cpe.ValueKind(k).String())
	}
	for r := 0; r < 16; r++ {
		s := cpe.Relation(r).String()
		if strings.HasPrefix(s, "Relation(") {
			break
		}
		out.Relations = append(out.Relations, s)
	}
	out.Equal = int(cpe.Equal)
	for sk := 0; sk < 4; sk++ {
		for _, sw := range []bool{false, true} {
			for tk := 0; tk < 4; tk++ {
				for _, tw := range []bool{false, true} {
					c := cell{SK: sk, SW: sw, TK: tk, TW: tw}
					ss, ts := in.SrcPlain, in.TgtPlain
					if sw {
						ss = in.SrcWild
					}
					if tw {
						ts = in.TgtWild
					}
					for _, s := range ss {
						for _, t := range ts {
							sm := sample{S: s, T: t, Pat: cpe.PatCompareForVerif(s, t), Fold: strings.EqualFold(s, t), Rest: true}
							for i := 0; i < cpe.NumAttr; i++ {
								var src, tgt cpe.WFN
								for j := 0; j < cpe.NumAttr; j++ {
									src.Attr[j].Kind = cpe.ValueAny
									tgt.Attr[j].Kind = cpe.ValueAny
								}
								src.Attr[i] = cpe.Value{Kind: cpe.ValueKind(sk), V: s}
								tgt.Attr[i] = cpe.Value{Kind: cpe.ValueKind(tk), V: t}
								rs := cpe.Compare(src, tgt)
								sm.Rel = append(sm.Rel, int(rs[i]))
								for j := 0; j < cpe.NumAttr; j++ {
									if j != i && rs[j] != cpe.Equal {
										sm.Rest = false
									}
								}
							}
							c.Samples = append(c.Samples, sm)
						}
					}
					out.Cells = append(out.Cells, c)
				}
			}
		}
	}
	json.NewEncoder(os.Stdout).Encode(out)
}
