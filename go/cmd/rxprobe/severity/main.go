// Command rxprobe/severity evaluates the per-source severity normalisers of
// the repository on the strings it is given, and runs the alpine parser on a
// small security database (Tie A, "evaluate instead of parse": see
// go/internal/extract/rxprobe.go and design/EXTRACT.md).
//
// stdin:  {"normalize": {"<source>": ["string", ...], ...}, "alpine": true}
// stdout: {"normalize": {"<source>": [severity as int, ...]}, "alpine": [distinct severities]}
package main

import (
	"context"
	"encoding/json"
	"fmt"
	"io"
	"os"
	"sort"
	"strings"

	"github.com/quay/claircore"
	"github.com/quay/claircore/alpine"
	"github.com/quay/claircore/aws"
	"github.com/quay/claircore/debian"
	"github.com/quay/claircore/oracle"
	"github.com/quay/claircore/photon"
	"github.com/quay/claircore/rhel"
	"github.com/quay/claircore/suse"
	"github.com/quay/claircore/ubuntu"
	"github.com/quay/claircore/updater/osv"
)

var fns = map[string]func(string) claircore.Severity{
	"Debian": debian.NormalizeSeverityForC14,
	"Ubuntu": ubuntu.NormalizeSeverityForC14,
	"Oracle": oracle.NormalizeSeverity,
	"Suse":   suse.NormalizeSeverity,
	"Photon": photon.NormalizeSeverity,
	"Aws":    aws.NormalizeSeverity,
	"Rhel":   rhel.NormalizeSeverityForC14,
	"OsvDb":  osv.SeverityFromDBStringForC14,
}

const secdb = `{"distroversion":"v3.18","reponame":"main","urlprefix":"https://dl-cdn.alpinelinux.org/alpine","apkurl":"{{urlprefix}}/{{distroversion}}/{{reponame}}/{{arch}}/{{pkg.name}}-{{pkg.ver}}.apk",
"packages":[{"pkg":{"name":"aaa","secfixes":{"1.0-r0":["CVE-2020-0001","CVE-2020-0002"],"0":["CVE-2020-0003"]}}},
{"pkg":{"name":"bbb","secfixes":{"2.1.3-r4":["CVE-2021-1000 CVE-2021-1001","XSA-1"]}}},
{"pkg":{"name":"ccc","secfixes":{"9-r0":["CVE-2022-9"]}}}]}`

func main() {
	var in struct {
		Normalize map[string][]string `json:"normalize"`
		Alpine    bool                `json:"alpine"`
	}
	if err := json.NewDecoder(os.Stdin).Decode(&in); err != nil {
		fmt.Fprintln(os.Stderr, err)
		os.Exit(2)
	}
	var out struct {
		Normalize map[string][]int `json:"normalize,omitempty"`
		Alpine    []int            `json:"alpine,omitempty"`
	}
	if in.Normalize != nil {
		out.Normalize = map[string][]int{}
	}
	for src, xs := range in.Normalize {
		f, ok := fns[src]
		if !ok {
			fmt.Fprintln(os.Stderr, "unknown source", src)
			os.Exit(2)
		}
		r := make([]int, len(xs))
		for i, x := range xs {
			r[i] = int(f(x))
		}
		out.Normalize[src] = r
	}
	if in.Alpine {
		seen := map[int]bool{}
		n := 0
		for _, edge := range []bool{false, true} {
			p := alpine.ParserForC14(edge, 3, 18, "main")
			vs, err := p.Parse(context.Background(), io.NopCloser(strings.NewReader(secdb)))
			if err != nil {
				fmt.Fprintln(os.Stderr, "alpine parser rejects the probe database:", err)
				os.Exit(1)
			}
			for _, v := range vs {
				seen[int(v.NormalizedSeverity)] = true
				n++
			}
		}
		if n == 0 {
			fmt.Fprintln(os.Stderr, "alpine parser returns no vulnerability for the probe database")
			os.Exit(1)
		}
		for s := range seen {
			out.Alpine = append(out.Alpine, s)
		}
		sort.Ints(out.Alpine)
	}
	json.NewEncoder(os.Stdout).Encode(out)
}
