// Command rxprobe/offlineimport EVALUATES libvuln.OfflineImport (Tie A,
// "evaluate instead of parse"): the function builds its own
// postgres.MatcherStore from a *pgxpool.Pool, so the pool is connected to the
// scripted in-process backend go/internal/rxpg, and a handful of scenarios
// (which update operations the database already knows, what the input holds,
// which store call fails) are run through the real function.  The answer lists,
// per scenario, what the store asked of the database and whether OfflineImport
// returned an error; go/internal/extract/offlineimport.go turns that into the
// facts of Gen/OfflineImport.
//
// The inputs are written by the real jsonblob.Store (one recorded update per
// entry); for an entry that carries vulnerabilities AND enrichments the lines of
// two recordings are given one common "Ref".
package main

import (
	"bytes"
	"context"
	"encoding/json"
	"fmt"
	"os"
	"time"

	"github.com/jackc/pgx/v4/pgxpool"
	"github.com/rs/zerolog"

	"github.com/quay/claircore"
	"github.com/quay/claircore/libvuln"
	"github.com/quay/claircore/libvuln/driver"
	"github.com/quay/claircore/libvuln/jsonblob"
	"github.com/quay/claircore/verifharness/internal/rxpg"
)

type entry struct {
	Updater     string `json:"updater"`
	Fingerprint string `json:"fingerprint"`
	Vulns       int    `json:"vulns"`
	Enrichments int    `json:"enrichments"`
}

type scenario struct {
	Name       string       `json:"name"`
	Known      []rxpg.Op    `json:"known"`
	Entries    []entry      `json:"entries"`
	FailCreate int          `json:"fail_create"`
	Garbage    bool         `json:"garbage"` // the input ends in a line that does not decode
	Events     []rxpg.Event `json:"events"`
	Err        bool         `json:"err"`
	Panic      string       `json:"panic,omitempty"`
	Timeout    bool         `json:"timeout,omitempty"`
}

func lines(ctx context.Context, e entry, seq int) ([][]byte, error) {
	var out [][]byte
	record := func(f func(s *jsonblob.Store) error) error {
		s, err := jsonblob.New()
		if err != nil {
			return err
		}
		if err := f(s); err != nil {
			return err
		}
		var buf bytes.Buffer
		if err := s.Store(&buf); err != nil {
			return err
		}
		for _, l := range bytes.Split(buf.Bytes(), []byte("\n")) {
			if len(bytes.TrimSpace(l)) > 0 {
				out = append(out, l)
			}
		}
		return nil
	}
	if e.Enrichments > 0 {
		var es []driver.EnrichmentRecord
		for i := 0; i < e.Enrichments; i++ {
			es = append(es, driver.EnrichmentRecord{Tags: []string{fmt.Sprintf("rx-tag-%d-%d", seq, i)}, Enrichment: json.RawMessage(fmt.Sprintf(`{"rx":%d}`, i))})
		}
		if err := record(func(s *jsonblob.Store) error {
			_, err := s.UpdateEnrichments(ctx, e.Updater, driver.Fingerprint(e.Fingerprint), es)
			return err
		}); err != nil {
			return nil, err
		}
	}
	if e.Vulns > 0 {
		var vs []*claircore.Vulnerability
		for i := 0; i < e.Vulns; i++ {
			vs = append(vs, &claircore.Vulnerability{
				Name: fmt.Sprintf("RX-%d-%d", seq, i), Updater: e.Updater, Description: "rx", Issued: time.Unix(1600000000, 0).UTC(),
				Package: &claircore.Package{Name: fmt.Sprintf("rx-pkg-%d", i), Kind: claircore.BINARY},
				Dist:    &claircore.Distribution{DID: "rx", Name: "rx"}, FixedInVersion: "1.0",
			})
		}
		if err := record(func(s *jsonblob.Store) error {
			_, err := s.UpdateVulnerabilities(ctx, e.Updater, driver.Fingerprint(e.Fingerprint), vs)
			return err
		}); err != nil {
			return nil, err
		}
	}
	// one entry = one Ref
	if e.Enrichments > 0 && e.Vulns > 0 {
		var ref json.RawMessage
		for i, l := range out {
			var m map[string]json.RawMessage
			if err := json.Unmarshal(l, &m); err != nil {
				return nil, err
			}
			r, ok := m["Ref"]
			if !ok {
				return nil, fmt.Errorf("a line written by jsonblob.Store has no \"Ref\" member")
			}
			if i == 0 {
				ref = r
				continue
			}
			m["Ref"] = ref
			b, err := json.Marshal(m)
			if err != nil {
				return nil, err
			}
			out[i] = b
		}
	}
	return out, nil
}

func run(sc *scenario) error {
	ctx, cancel := context.WithTimeout(context.Background(), 30*time.Second)
	defer cancel()
	var in bytes.Buffer
	for i, e := range sc.Entries {
		ls, err := lines(ctx, e, i)
		if err != nil {
			return fmt.Errorf("%s: writing the input: %w", sc.Name, err)
		}
		for _, l := range ls {
			in.Write(l)
			in.WriteByte('\n')
		}
	}
	if sc.Garbage {
		in.WriteString("{\"Updater\": 12, \"Ref\": [\n")
	}
	srv := &rxpg.Server{Known: sc.Known, FailCreate: sc.FailCreate}
	defer srv.Close()
	cfg, err := pgxpool.ParseConfig("postgres://rx@rxpg.invalid:5432/rx?sslmode=disable&pool_max_conns=4")
	if err != nil {
		return err
	}
	cfg.ConnConfig.DialFunc = srv.Dial
	cfg.ConnConfig.LookupFunc = srv.Lookup
	pool, err := pgxpool.ConnectConfig(ctx, cfg)
	if err != nil {
		return fmt.Errorf("%s: connecting to the scripted backend: %w", sc.Name, err)
	}
	defer pool.Close()
	done := make(chan struct{})
	go func() {
		defer close(done)
		defer func() {
			if r := recover(); r != nil {
				sc.Panic = fmt.Sprint(r)
			}
		}()
		sc.Err = libvuln.OfflineImport(ctx, pool, &in) != nil
	}()
	select {
	case <-done:
	case <-time.After(40 * time.Second):
		sc.Timeout = true
	}
	sc.Events = srv.Events()
	return nil
}

func main() {
	zerolog.SetGlobalLevel(zerolog.Disabled)
	const u1, u2, f1, f2 = "rx-updater-one", "rx-updater-two", "rx-fingerprint-one", "rx-fingerprint-two"
	v, e := "vulnerability", "enrichment"
	scs := []*scenario{
		{Name: "empty-input"},
		{Name: "vulns-only", Entries: []entry{{u1, f1, 2, 0}}},
		{Name: "enrichments-only", Entries: []entry{{u1, f1, 0, 3}}},
		{Name: "both", Entries: []entry{{u1, f1, 1, 2}}},
		{Name: "known-same", Known: []rxpg.Op{{u1, f1, v}}, Entries: []entry{{u1, f1, 2, 0}, {u2, f2, 1, 0}}},
		{Name: "known-same-among-others", Known: []rxpg.Op{{u1, f2, v}, {u1, f1, v}, {u2, f2, v}}, Entries: []entry{{u1, f1, 2, 0}, {u2, f1, 1, 0}}},
		{Name: "known-same-enrichment-entry", Known: []rxpg.Op{{u1, f1, v}}, Entries: []entry{{u1, f1, 0, 2}, {u2, f2, 0, 1}}},
		{Name: "known-other-fingerprint", Known: []rxpg.Op{{u1, f2, v}}, Entries: []entry{{u1, f1, 2, 0}}},
		{Name: "known-other-updater", Known: []rxpg.Op{{u2, f1, v}}, Entries: []entry{{u1, f1, 2, 0}}},
		{Name: "known-swapped", Known: []rxpg.Op{{f1, u1, v}}, Entries: []entry{{u1, f1, 2, 0}}},
		{Name: "known-other-kind", Known: []rxpg.Op{{u1, f1, e}}, Entries: []entry{{u1, f1, 2, 0}}},
		{Name: "fail-first-call", FailCreate: 1, Entries: []entry{{u1, f1, 1, 2}, {u2, f2, 1, 0}}},
		{Name: "fail-second-call", FailCreate: 2, Entries: []entry{{u1, f1, 1, 2}, {u2, f2, 1, 0}}},
		{Name: "fail-later-entry", FailCreate: 2, Entries: []entry{{u1, f1, 1, 0}, {u2, f2, 1, 0}, {u1, f2, 1, 0}}},
		{Name: "garbage-tail", Garbage: true, Entries: []entry{{u1, f1, 1, 0}}},
		{Name: "garbage-only", Garbage: true},
	}
	for _, sc := range scs {
		if err := run(sc); err != nil {
			fmt.Fprintln(os.Stderr, err)
			os.Exit(1)
		}
	}
	if err := json.NewEncoder(os.Stdout).Encode(map[string]any{"scenarios": scs}); err != nil {
		fmt.Fprintln(os.Stderr, err)
		os.Exit(1)
	}
}
