// Command rxprobe/enums evaluates the String methods of the stringer-backed
// enumerations Gen/Enums lists: for each type the names of the values 0, 1, 2, …
// up to the first value String does not know (Tie A, "evaluate instead of
// parse": go/internal/extract/rxprobe.go).
//
// It also describes, by reflection, the report structs Gen/ReportTags lists:
// every field with its json tag and type, and the (un)marshalling methods
// declared on the struct or its pointer.
//
// stdout: {"enums": {"<type>": ["name of 0", "name of 1", ...], ...},
//
//	"structs": [{"name": .., "fields": [{"name","tag","type","embedded","exported"}], "methods": [..]}]}
package main

import (
	"encoding/json"
	"fmt"
	"os"
	"reflect"
	"strconv"
	"strings"

	"github.com/quay/claircore"
	"github.com/quay/claircore/toolkit/types"
)

// names calls str on 0, 1, … and stops at the first value whose text is the
// fallback "<Type>(<n>)" (or, defensively, after 256 values).
func names(typ string, str func(int) string) ([]string, error) {
	var out []string
	for i := 0; i < 256; i++ {
		s := str(i)
		if s == typ+"("+strconv.Itoa(i)+")" {
			// the values after the last name must all be unknown
			for j := i; j < i+64; j++ {
				if t := str(j); t != typ+"("+strconv.Itoa(j)+")" {
					return nil, fmt.Errorf("%s: value %d has no name but %d is %q: not one contiguous run from 0", typ, i, j, t)
				}
			}
			return out, nil
		}
		out = append(out, s)
	}
	return nil, fmt.Errorf("%s: more than 256 named values", typ)
}

type field struct {
	Name     string `json:"name"`
	Tag      string `json:"tag"`
	HasTag   bool   `json:"hastag"`
	Type     string `json:"type"`
	Embedded bool   `json:"embedded"`
	Exported bool   `json:"exported"`
}

type structInfo struct {
	Name    string   `json:"name"`
	Fields  []field  `json:"fields"`
	Methods []string `json:"methods"`
}

func describe(v any) structInfo {
	t := reflect.TypeOf(v)
	si := structInfo{Name: t.Name()}
	for i := 0; i < t.NumField(); i++ {
		f := t.Field(i)
		tag, has := f.Tag.Lookup("json")
		si.Fields = append(si.Fields, field{Name: f.Name, Tag: tag, HasTag: has,
			// the type as it is written inside package claircore
			Type:     strings.ReplaceAll(f.Type.String(), "claircore.", ""),
			Embedded: f.Anonymous, Exported: f.PkgPath == ""})
	}
	pt := reflect.PointerTo(t)
	for _, m := range []string{"MarshalJSON", "UnmarshalJSON", "MarshalText", "UnmarshalText"} {
		if _, ok := pt.MethodByName(m); ok {
			si.Methods = append(si.Methods, m)
		}
	}
	return si
}

func main() {
	out := map[string][]string{}
	var err error
	set := func(k, typ string, f func(int) string) {
		if err != nil {
			return
		}
		out[k], err = names(typ, f)
	}
	set("Severity", "Severity", func(i int) string { return claircore.Severity(i).String() })
	set("ArchOp", "ArchOp", func(i int) string { return claircore.ArchOp(i).String() })
	set("TkSeverity", "Severity", func(i int) string { return types.Severity(i).String() })
	set("TkArchOp", "ArchOp", func(i int) string { return types.ArchOp(i).String() })
	set("PackageKind", "PackageKind", func(i int) string { return types.PackageKind(i).String() })
	if err != nil {
		fmt.Fprintln(os.Stderr, err)
		os.Exit(1)
	}
	structs := []structInfo{
		describe(claircore.IndexReport{}), describe(claircore.VulnerabilityReport{}), describe(claircore.Package{}),
		describe(claircore.Vulnerability{}), describe(claircore.Distribution{}), describe(claircore.Repository{}),
		describe(claircore.Environment{}), describe(claircore.Range{}),
	}
	json.NewEncoder(os.Stdout).Encode(map[string]any{"enums": out, "structs": structs})
}
