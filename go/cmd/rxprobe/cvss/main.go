// Command rxprobe/cvss evaluates the tables Gen/Cvss lists (Tie A, "evaluate
// instead of parse": go/internal/extract/rxprobe.go, rxcvss.go, design/EXTRACT.md):
//
//   - toolkit/types/cvss: metric names (String), valid-value strings, the v2/v3
//     weight tables, QualitativeScore on given scores (through a stub vector),
//     the v4 macrovector score table on every key with digits 0..mvMax, eqDepth
//     and maxFrag — all through the package's verif hooks;
//   - updater/osv fromCVSS3 / fromCVSS2: for every (metric name, value) of the
//     candidate domain the function is called on a vector that repeats that one
//     metric (once n times, once n+1 times); the answer is whether it returned
//     an error and which float stores into an indexed container it performed per
//     copy of the metric (stores made once per call are left out).  The stores are observed through
//     verifhook.Point("rx.store", …) calls which the extractor adds to a private
//     copy of the package's sources (go build -overlay) after every `x[i] = …`
//     statement; built without that overlay the probe sees no stores.
//
// Floats travel as strings (strconv 'g', -1: the shortest text that denotes
// exactly that float64; NaN, +Inf, -Inf).
package main

import (
	"context"
	"encoding/json"
	"fmt"
	"os"
	"strconv"
	"strings"

	"github.com/quay/claircore/internal/verifhook"
	"github.com/quay/claircore/toolkit/types/cvss"
	"github.com/quay/claircore/updater/osv"
)

type version struct {
	Names   []string   `json:"names"`
	Valid   []string   `json:"valid"`
	Weights [][]string `json:"weights,omitempty"`
}

type mvRow struct {
	K [6]int `json:"k"`
	S string `json:"s"`
}

type store struct {
	I string `json:"i"`
	W string `json:"w"`
}

type osvHit struct {
	N   string  `json:"n"`
	V   string  `json:"v"`
	Err bool    `json:"err"`
	St  []store `json:"st"`
}

type osvIn struct {
	Names  []string `json:"names"`
	Values []string `json:"values"`
	Copies int      `json:"copies"`
}

type osvOut struct {
	Names  []string `json:"names"`  // every name asked (the given ones and the library's metric names)
	Values []string `json:"values"` // every value asked
	Hits   []osvHit `json:"hits"`   // every (name, value) that was not rejected without a store
}

func ff(f float64) string { return strconv.FormatFloat(f, 'g', -1, 64) }

func ffs(t [][]float64) [][]string {
	out := make([][]string, len(t))
	for i, r := range t {
		out[i] = make([]string, len(r))
		for j, w := range r {
			out[i][j] = ff(w)
		}
	}
	return out
}

func metrics[M cvss.Metric]() version {
	var v version
	n := cvss.NumMetricsForVerif[M]()
	for i := 0; i < n; i++ {
		m := M(i)
		v.Names = append(v.Names, m.String())
		v.Valid = append(v.Valid, cvss.ValidValuesForVerif(m))
	}
	return v
}

var stores []store

func call(f func() error) (failed bool) {
	defer func() {
		if recover() != nil {
			failed = true
		}
	}()
	return f() != nil
}

func runOsv(in osvIn, prefix string, extraNames, extraValues []string, f func(string) error) osvOut {
	var out osvOut
	seen := map[string]bool{}
	for _, n := range append(append([]string{}, in.Names...), extraNames...) {
		if !seen[n] {
			seen[n] = true
			out.Names = append(out.Names, n)
		}
	}
	seen = map[string]bool{}
	for _, v := range append(append([]string{}, in.Values...), extraValues...) {
		if !seen[v] {
			seen[v] = true
			out.Values = append(out.Values, v)
		}
	}
	copies := in.Copies
	if copies < 1 {
		copies = 1
	}
	vector := func(n, v string, k int) string {
		ms := make([]string, k)
		for i := range ms {
			ms[i] = n + ":" + v
		}
		return prefix + strings.Join(ms, "/")
	}
	for _, n := range out.Names {
		for _, v := range out.Values {
			stores = stores[:0]
			vec := vector(n, v, copies)
			failed := call(func() error { return f(vec) })
			if failed && len(stores) == 0 {
				continue
			}
			first := append([]store{}, stores...)
			// the same metric once more: a store that belongs to the metric happens once more,
			// one that is made once per call (a fix-up after the loop) does not
			stores = stores[:0]
			vec = vector(n, v, copies+1)
			call(func() error { return f(vec) })
			c1, c2 := map[store]int{}, map[store]int{}
			for _, s := range first {
				c1[s]++
			}
			for _, s := range stores {
				c2[s]++
			}
			h := osvHit{N: n, V: v, Err: failed, St: []store{}}
			for _, s := range first {
				if c1[s] > 0 && c2[s] > c1[s] {
					h.St = append(h.St, s)
				}
				c1[s] = 0
			}
			if failed && len(h.St) == 0 {
				continue
			}
			out.Hits = append(out.Hits, h)
		}
	}
	return out
}

func main() {
	var in struct {
		Qual  []string         `json:"qual"`
		MvMax int              `json:"mvMax"`
		Osv   map[string]osvIn `json:"osv"`
	}
	if err := json.NewDecoder(os.Stdin).Decode(&in); err != nil {
		fmt.Fprintln(os.Stderr, err)
		os.Exit(2)
	}
	var out struct {
		V2      version           `json:"v2"`
		V3      version           `json:"v3"`
		V4      version           `json:"v4"`
		Qual    []string          `json:"qual"`
		Mv      []mvRow           `json:"mv"`
		EqDepth [][]string        `json:"eqDepth"`
		MaxFrag [][][][]int       `json:"maxFrag"`
		Osv     map[string]osvOut `json:"osv"`
	}
	out.V2 = metrics[cvss.V2Metric]()
	out.V2.Weights = ffs(cvss.V2WeightsForVerif())
	out.V3 = metrics[cvss.V3Metric]()
	out.V3.Weights = ffs(cvss.V3WeightsForVerif())
	out.V4 = metrics[cvss.V4Metric]()
	for _, s := range in.Qual {
		x, err := strconv.ParseFloat(s, 64)
		if err != nil {
			fmt.Fprintln(os.Stderr, "bad score", s)
			os.Exit(2)
		}
		out.Qual = append(out.Qual, cvss.QualitativeOfScoreForVerif(x).String())
	}
	if in.MvMax > 0 {
		n := in.MvMax + 1
		total := 1
		for i := 0; i < 6; i++ {
			total *= n
		}
		for c := 0; c < total; c++ {
			var k [6]uint8
			var ki [6]int
			r := c
			for i := 5; i >= 0; i-- {
				k[i] = uint8(r % n)
				ki[i] = r % n
				r /= n
			}
			if s, ok := cvss.V4MacrovectorScoreForVerif(k); ok {
				out.Mv = append(out.Mv, mvRow{K: ki, S: ff(s)})
			}
		}
	}
	out.EqDepth = ffs(cvss.V4EqDepthForVerif())
	for _, lvls := range cvss.V4MaxFragForVerif() {
		l3 := [][][]int{}
		for _, frags := range lvls {
			l2 := [][]int{}
			for _, f := range frags {
				l1 := []int{}
				for _, b := range f {
					l1 = append(l1, int(b))
				}
				l2 = append(l2, l1)
			}
			l3 = append(l3, l2)
		}
		out.MaxFrag = append(out.MaxFrag, l3)
	}

	verifhook.Install(func(site, key string) {
		if site != "rx.store" {
			return
		}
		i, w, _ := strings.Cut(key, "\x00")
		stores = append(stores, store{I: i, W: w})
	})
	out.Osv = map[string]osvOut{}
	// the library's own metric names and values join the candidate domain
	var v3vals, v2vals []string
	for _, s := range out.V3.Valid {
		for i := 0; i < len(s); i++ {
			v3vals = append(v3vals, s[i:i+1])
		}
	}
	for _, s := range out.V2.Valid {
		for i := 0; i < len(s); i++ {
			for j := i + 1; j <= len(s) && j <= i+3; j++ {
				v2vals = append(v2vals, s[i:j])
			}
		}
	}
	ctx := context.Background()
	if q, ok := in.Osv["3"]; ok {
		out.Osv["3"] = runOsv(q, "CVSS:3.1/", out.V3.Names, v3vals, func(s string) error {
			_, err := osv.FromCVSS3ForVerif(ctx, s)
			return err
		})
	}
	if q, ok := in.Osv["2"]; ok {
		out.Osv["2"] = runOsv(q, "", out.V2.Names, v2vals, func(s string) error {
			_, err := osv.FromCVSS2ForVerif(s)
			return err
		})
	}
	verifhook.Install(nil)
	if err := json.NewEncoder(os.Stdout).Encode(out); err != nil {
		fmt.Fprintln(os.Stderr, err)
		os.Exit(2)
	}
}
