// Command rxprobe/versioncopy EVALUATES whether toolkit/types/version.go still
// is a copy of version.go (Gen/Versions `toolkitCopySame`, C12): the methods of
// claircore.Version / Range and of types.Version / Range are run on one fixed
// table of boundary values and their answers compared (Tie A, "evaluate instead
// of parse").  Rewriting one copy is quiet as long as it answers alike; a
// behavioural divergence is reported with the first input that shows it.
//
// Table: 5 kinds × (all zero; each of the 10 slots set to each of 8 boundary
// values; all slots MaxInt32 / MinInt32 / 1; ascending; alternating) = a few
// hundred versions.  Compare: every pair.  Contains: every range built from a
// spread subset × every version.  String, MarshalText: every version.
// UnmarshalText: every marshalled text, a list of malformed texts, each decoded
// into a zero receiver and into a receiver that holds another value; the nil
// receiver.
//
// stdout: {"same": {"Version.Compare": bool, ...}, "first": {"<method>": "<input>: root … toolkit …"}, "sizes": {...}}
package main

import (
	"encoding/json"
	"fmt"
	"math"
	"os"
	"strings"

	"github.com/quay/claircore"
	"github.com/quay/claircore/toolkit/types"
)

func guard(f func() string) (s string) {
	defer func() {
		if r := recover(); r != nil {
			s = fmt.Sprintf("panic(%v)", r)
		}
	}()
	return f()
}

func main() {
	kinds := []string{"", "semver", "pep440", "a", "rpm:x"}
	bounds := []int32{1, -1, 2, 9, 10, math.MaxInt32, math.MinInt32, math.MaxInt32 - 1}
	var vs [][10]int32
	vs = append(vs, [10]int32{})
	for slot := 0; slot < 10; slot++ {
		for _, b := range bounds {
			var v [10]int32
			v[slot] = b
			vs = append(vs, v)
		}
	}
	fill := func(f func(i int) int32) {
		var v [10]int32
		for i := range v {
			v[i] = f(i)
		}
		vs = append(vs, v)
	}
	fill(func(int) int32 { return math.MaxInt32 })
	fill(func(int) int32 { return math.MinInt32 })
	fill(func(int) int32 { return 1 })
	fill(func(i int) int32 { return int32(i + 1) })
	fill(func(i int) int32 { return int32(10 - i) })
	fill(func(i int) int32 { return int32(i%2) * 7 })
	fill(func(i int) int32 { return int32((i+1)%2) * -3 })
	type pair struct {
		r claircore.Version
		t types.Version
	}
	var tab []pair
	for _, k := range kinds {
		for _, v := range vs {
			tab = append(tab, pair{claircore.Version{Kind: k, V: v}, types.Version{Kind: k, V: v}})
		}
	}
	same := map[string]bool{"Version.Compare": true, "Range.Contains": true, "Version.String": true, "Version.MarshalText": true, "Version.UnmarshalText": true}
	first := map[string]string{}
	differ := func(m, in, a, b string) {
		if a != b {
			same[m] = false
			if _, ok := first[m]; !ok {
				first[m] = fmt.Sprintf("%s: root %s, toolkit %s", in, a, b)
			}
		}
	}
	show := func(v claircore.Version) string { return fmt.Sprintf("{%q %v}", v.Kind, v.V) }
	// Compare
	for i := range tab {
		for j := range tab {
			a := guard(func() string { return fmt.Sprint(tab[i].r.Compare(&tab[j].r)) })
			b := guard(func() string { return fmt.Sprint(tab[i].t.Compare(&tab[j].t)) })
			differ("Version.Compare", show(tab[i].r)+" with "+show(tab[j].r), a, b)
		}
	}
	// Contains
	var sub []int
	for i := 0; i < len(tab); i += 7 {
		sub = append(sub, i)
	}
	for _, lo := range sub {
		for _, hi := range sub {
			rr := claircore.Range{Lower: tab[lo].r, Upper: tab[hi].r}
			tr := types.Range{Lower: tab[lo].t, Upper: tab[hi].t}
			for k := 0; k < len(tab); k += 3 {
				a := guard(func() string { return fmt.Sprint(rr.Contains(&tab[k].r)) })
				b := guard(func() string { return fmt.Sprint(tr.Contains(&tab[k].t)) })
				differ("Range.Contains", "["+show(tab[lo].r)+", "+show(tab[hi].r)+") of "+show(tab[k].r), a, b)
			}
		}
	}
	// String, MarshalText
	texts := map[string]bool{}
	for i := range tab {
		a := guard(func() string { return tab[i].r.String() })
		b := guard(func() string { return tab[i].t.String() })
		differ("Version.String", show(tab[i].r), fmt.Sprintf("%q", a), fmt.Sprintf("%q", b))
		ma := guard(func() string { x, err := tab[i].r.MarshalText(); return fmt.Sprintf("%q err=%v", x, err != nil) })
		mb := guard(func() string { x, err := tab[i].t.MarshalText(); return fmt.Sprintf("%q err=%v", x, err != nil) })
		differ("Version.MarshalText", show(tab[i].r), ma, mb)
		if x, err := tab[i].r.MarshalText(); err == nil {
			texts[string(x)] = true
		}
	}
	// UnmarshalText
	for _, t := range []string{"", ":", "k", "k:", "k:1", ":1", "k:1.2.3.4.5.6.7.8.9.10", "k:1.2.3.4.5.6.7.8.9.10.11", "k:0.0.0.0.0.0.0.0.0.0.0",
		"k:-1", "k:+1", "k:2147483647", "k:2147483648", "k:-2147483648", "k:-2147483649", "k:99999999999999999999", "k:1..2", "k:1.", "k:.1", "k: 1", "k:1 ",
		"k:0x1", "k:1e3", "k:01", "k:1_0", "k:\u0661", "k:1:2", "k::1", "a:b:1.2", "k:1.2.3.", "k:1,2", "k:1.2\n", "\x00:1", "k:\x00", strings.Repeat("k", 300) + ":1",
		"semver:0.1.2.3.0.0.0.0.0.0", "pep440:1.2", "K:1", "k:1.-2.3", "k:١.٢"} {
		texts[t] = true
	}
	prev := pair{claircore.Version{Kind: "old", V: [10]int32{9, 9, 9, 9, 9, 9, 9, 9, 9, 9}}, types.Version{Kind: "old", V: [10]int32{9, 9, 9, 9, 9, 9, 9, 9, 9, 9}}}
	for t := range texts {
		for _, fresh := range []bool{true, false} {
			var r claircore.Version
			var k types.Version
			if !fresh {
				r, k = prev.r, prev.t
			}
			a := guard(func() string {
				err := r.UnmarshalText([]byte(t))
				return fmt.Sprintf("{%q %v} err=%v", r.Kind, r.V, err != nil)
			})
			b := guard(func() string {
				err := k.UnmarshalText([]byte(t))
				return fmt.Sprintf("{%q %v} err=%v", k.Kind, k.V, err != nil)
			})
			differ("Version.UnmarshalText", fmt.Sprintf("%q into a fresh=%v receiver", t, fresh), a, b)
		}
	}
	for _, t := range []string{"", "k:1", "k"} {
		a := guard(func() string { var r *claircore.Version; return fmt.Sprint(r.UnmarshalText([]byte(t)) != nil) })
		b := guard(func() string { var k *types.Version; return fmt.Sprint(k.UnmarshalText([]byte(t)) != nil) })
		differ("Version.UnmarshalText", fmt.Sprintf("%q into a nil receiver", t), a, b)
	}
	out := map[string]any{"same": same, "first": first, "sizes": map[string]int{"versions": len(tab), "texts": len(texts)}}
	if err := json.NewEncoder(os.Stdout).Encode(out); err != nil {
		fmt.Fprintln(os.Stderr, err)
		os.Exit(1)
	}
}
