// Command c17 is the correspondence/oracle harness of property C17.
package main

import (
	"github.com/quay/claircore/verifharness/internal/c17"
	"github.com/quay/claircore/verifharness/internal/hx"
)

func main() { hx.Main("C17", c17.Run) }
