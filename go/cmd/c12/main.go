// Command c12 is the correspondence/oracle harness of property C12.
package main

import (
	"github.com/quay/claircore/verifharness/internal/c12"
	"github.com/quay/claircore/verifharness/internal/hx"
)

func main() { hx.Main("C12", c12.Run) }
