package main

import (
	"github.com/quay/claircore/verifharness/internal/c15"
	"github.com/quay/claircore/verifharness/internal/hx"
)

func main() { hx.Main("C15", c15.Run) }
