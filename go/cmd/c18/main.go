// Command c18 is the correspondence/oracle harness of property C18.
package main

import (
	"github.com/quay/claircore/verifharness/internal/c18"
	"github.com/quay/claircore/verifharness/internal/hx"
)

func main() { hx.Main("C18", c18.Run) }
