// Command c08 is the correspondence/oracle harness of property C08.
package main

import (
	"github.com/quay/claircore/verifharness/internal/c08"
	"github.com/quay/claircore/verifharness/internal/hx"
)

func main() { hx.Main("C08", c08.Run) }
