// Command extract regenerates lean/ClairModel/Gen/*.lean from the sources.
package main

import (
	"encoding/json"
	"flag"
	"fmt"
	"os"
	"path/filepath"
	"strings"

	"github.com/quay/claircore/verifharness/internal/extract"
)

func main() {
	repo := flag.String("repo", "/repo", "repository root")
	out := flag.String("out", "", "output directory")
	shape := flag.String("shape", "", "write the per-file shape digests (JSON) to this path")
	only := flag.String("only", "", "comma-separated generator names (development; default: all)")
	flag.Parse()
	defer extract.RxCleanup()
	if *shape != "" {
		m, err := extract.Shape(*repo)
		if err != nil {
			fmt.Fprintln(os.Stderr, err)
			os.Exit(3)
		}
		b, _ := json.MarshalIndent(m, "", " ")
		if err := os.WriteFile(*shape, b, 0o644); err != nil {
			fmt.Fprintln(os.Stderr, err)
			os.Exit(3)
		}
		if *out == "" {
			return
		}
	}
	if *out == "" {
		fmt.Fprintln(os.Stderr, "-out is required")
		os.Exit(2)
	}
	failed := 0
	for _, g := range extract.All() {
		if *only != "" && !strings.Contains(","+*only+",", ","+g.Name+",") {
			continue
		}
		txt, err := g.Run(*repo)
		if err != nil {
			fmt.Printf("EXTRACT-FAIL %s: %v\n", g.Name, err)
			failed++
			continue
		}
		if err := os.WriteFile(filepath.Join(*out, g.Name+".lean"), []byte(txt), 0o644); err != nil {
			fmt.Fprintln(os.Stderr, err)
			os.Exit(3)
		}
		fmt.Printf("EXTRACT-OK %s\n", g.Name)
	}
	_ = failed
}
