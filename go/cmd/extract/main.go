// Command extract regenerates lean/ClairModel/Gen/*.lean from the sources.
package main

import (
	"encoding/json"
	"flag"
	"fmt"
	"os"
	"os/exec"
	"path/filepath"
	"strings"
	"sync"

	"github.com/quay/claircore/verifharness/internal/extract"
)

func main() {
	repo := flag.String("repo", "/repo", "repository root")
	out := flag.String("out", "", "output directory")
	shape := flag.String("shape", "", "write the per-file shape digests (JSON) to this path")
	only := flag.String("only", "", "comma-separated generator names (development; default: all)")
	flag.Parse()
	defer extract.RxCleanup()
	if *shape != "" {
		m, err := extract.Shape(*repo)
		if err != nil {
			fmt.Fprintln(os.Stderr, err)
			os.Exit(3)
		}
		b, _ := json.MarshalIndent(m, "", " ")
		if err := os.WriteFile(*shape, b, 0o644); err != nil {
			fmt.Fprintln(os.Stderr, err)
			os.Exit(3)
		}
		if *out == "" {
			return
		}
	}
	if *out == "" {
		fmt.Fprintln(os.Stderr, "-out is required")
		os.Exit(2)
	}
	// All generators: one child process each (the generators share package-level
	// caches that are not safe for concurrent use, and a probe that hangs or
	// crashes must not take the others down), a few at a time. RX_SERIAL=1 runs
	// them in this process, one after the other.
	if *only == "" && os.Getenv("RX_SERIAL") != "1" {
		if exe, err := os.Executable(); err == nil {
			gens := extract.All()
			outs := make([]string, len(gens))
			sem := make(chan struct{}, 6)
			var wg sync.WaitGroup
			for i, g := range gens {
				wg.Add(1)
				go func(i int, name string) {
					defer wg.Done()
					sem <- struct{}{}
					defer func() { <-sem }()
					cmd := exec.Command(exe, "-repo", *repo, "-out", *out, "-only", name)
					b, err := cmd.CombinedOutput()
					outs[i] = string(b)
					if !strings.Contains(outs[i], "EXTRACT-OK "+name) && !strings.Contains(outs[i], "EXTRACT-FAIL "+name) {
						outs[i] += fmt.Sprintf("EXTRACT-FAIL %s: the generator process ended without an answer: %v\n", name, err)
						os.Remove(filepath.Join(*out, name+".lean"))
					}
				}(i, g.Name)
			}
			wg.Wait()
			for _, o := range outs {
				fmt.Print(o)
			}
			return
		}
	}
	failed := 0
	for _, g := range extract.All() {
		if *only != "" && !strings.Contains(","+*only+",", ","+g.Name+",") {
			continue
		}
		txt, err := g.Run(*repo)
		if err != nil {
			fmt.Printf("EXTRACT-FAIL %s: %v\n", g.Name, err)
			failed++
			continue
		}
		if err := os.WriteFile(filepath.Join(*out, g.Name+".lean"), []byte(txt), 0o644); err != nil {
			fmt.Fprintln(os.Stderr, err)
			os.Exit(3)
		}
		fmt.Printf("EXTRACT-OK %s\n", g.Name)
	}
	_ = failed
}
