// Command c10 is the correspondence/oracle harness of property C10.
package main

import (
	"github.com/quay/claircore/verifharness/internal/c10"
	"github.com/quay/claircore/verifharness/internal/hx"
)

func main() { hx.Main("C10", c10.Run) }
