// Command c02 is the correspondence/oracle harness of property C02.
package main

import (
	"github.com/quay/claircore/verifharness/internal/c02"
	"github.com/quay/claircore/verifharness/internal/hx"
)

func main() { hx.Main("C02", c02.Run) }
