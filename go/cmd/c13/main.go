// Command c13 is the correspondence/oracle harness of property C13.
package main

import (
	"github.com/quay/claircore/verifharness/internal/c13"
	"github.com/quay/claircore/verifharness/internal/hx"
)

func main() { hx.Main("C13", c13.Run) }
