// Command c09 is the correspondence/oracle harness of property C09.
package main

import (
	"github.com/quay/claircore/verifharness/internal/c09"
	"github.com/quay/claircore/verifharness/internal/hx"
)

func main() { hx.Main("C09", c09.Run) }
