// Command c04 is the correspondence/oracle harness of property C04.
package main

import (
	"github.com/quay/claircore/verifharness/internal/c04"
	"github.com/quay/claircore/verifharness/internal/hx"
)

func main() { hx.Main("C04", c04.Run) }
