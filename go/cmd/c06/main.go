// Command c06 is the correspondence/oracle harness of property C06.
package main

import (
	"github.com/quay/claircore/verifharness/internal/c06"
	"github.com/quay/claircore/verifharness/internal/hx"
)

func main() { hx.Main("C06", c06.Run) }
