// Command c01 is the correspondence/oracle harness of property C01.
package main

import (
	"github.com/quay/claircore/verifharness/internal/c01"
	"github.com/quay/claircore/verifharness/internal/hx"
)

func main() { hx.Main("C01", c01.Run) }
