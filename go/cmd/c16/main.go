// Command c16 is the correspondence/oracle harness of property C16.
package main

import (
	"github.com/quay/claircore/verifharness/internal/c16"
	"github.com/quay/claircore/verifharness/internal/hx"
)

func main() { hx.Main("C16", c16.Run) }
