// Command c07 is the correspondence/oracle harness of property C07.
package main

import (
	"github.com/quay/claircore/verifharness/internal/c07"
	"github.com/quay/claircore/verifharness/internal/hx"
)

func main() { hx.Main("C07", c07.Run) }
