// Command c14 is the correspondence/oracle harness of property C14.
package main

import (
	"github.com/quay/claircore/verifharness/internal/c14"
	"github.com/quay/claircore/verifharness/internal/hx"
)

func main() { hx.Main("C14", c14.Run) }
