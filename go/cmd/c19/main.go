// Command c19 is the correspondence/oracle harness of property C19.
package main

import (
	"github.com/quay/claircore/verifharness/internal/c19"
	"github.com/quay/claircore/verifharness/internal/hx"
)

func main() { hx.Main("C19", c19.Run) }
