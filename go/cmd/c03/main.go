// Command c03 is the correspondence/oracle harness of property C03.
package main

import (
	"github.com/quay/claircore/verifharness/internal/c03"
	"github.com/quay/claircore/verifharness/internal/hx"
)

func main() { hx.Main("C03", c03.Run) }
