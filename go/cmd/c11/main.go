// Command c11 is the correspondence/oracle harness of property C11.
package main

import (
	"github.com/quay/claircore/verifharness/internal/c11"
	"github.com/quay/claircore/verifharness/internal/hx"
)

func main() { hx.Main("C11", c11.Run) }
