module github.com/quay/claircore/verifharness

go 1.23.0

require (
	github.com/quay/claircore v0.0.0-00010101000000-000000000000
	github.com/quay/claircore/toolkit v1.2.4
	github.com/quay/claircore/updater/driver v1.0.0
)

require (
	github.com/Masterminds/semver v1.5.0 // indirect
	github.com/google/uuid v1.6.0 // indirect
	github.com/klauspost/compress v1.18.0 // indirect
	github.com/mattn/go-colorable v0.1.13 // indirect
	github.com/mattn/go-isatty v0.0.20 // indirect
	github.com/quay/zlog v1.1.8 // indirect
	github.com/rs/zerolog v1.30.0 // indirect
	go.opentelemetry.io/otel v1.35.0 // indirect
	golang.org/x/sync v0.13.0 // indirect
	golang.org/x/sys v0.32.0 // indirect
)

replace github.com/quay/claircore => /repo

replace github.com/quay/claircore/toolkit => /repo/toolkit

replace github.com/quay/claircore/updater/driver => /repo/updater/driver
