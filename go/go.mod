module github.com/quay/claircore/verifharness

go 1.23.0

require (
	github.com/Masterminds/semver v1.5.0
	github.com/cespare/xxhash/v2 v2.3.0
	github.com/google/uuid v1.6.0
	github.com/jackc/pgproto3/v2 v2.3.3
	github.com/jackc/pgx/v4 v4.18.3
	github.com/klauspost/compress v1.18.0
	github.com/knqyf263/go-apk-version v0.0.0-20200609155635-041fdbb8563f
	github.com/knqyf263/go-deb-version v0.0.0-20190517075300-09fca494f03d
	github.com/knqyf263/go-rpm-version v0.0.0-20170716094938-74609b86c936
	github.com/package-url/packageurl-go v0.1.3
	github.com/quay/claircore v0.0.0-00010101000000-000000000000
	github.com/quay/claircore/toolkit v1.2.4
	github.com/quay/claircore/updater/driver v1.0.0
	github.com/quay/goval-parser v0.8.8
	github.com/quay/zlog v1.1.8
	github.com/rs/zerolog v1.30.0
	modernc.org/sqlite v1.37.0
)

require (
	github.com/beorn7/perks v1.0.1 // indirect
	github.com/doug-martin/goqu/v8 v8.6.0 // indirect
	github.com/dustin/go-humanize v1.0.1 // indirect
	github.com/go-logr/logr v1.4.2 // indirect
	github.com/go-logr/stdr v1.2.2 // indirect
	github.com/jackc/chunkreader/v2 v2.0.1 // indirect
	github.com/jackc/pgconn v1.14.3 // indirect
	github.com/jackc/pgio v1.0.0 // indirect
	github.com/jackc/pgpassfile v1.0.0 // indirect
	github.com/jackc/pgservicefile v0.0.0-20231201235250-de7065d80cb9 // indirect
	github.com/jackc/pgtype v1.14.2 // indirect
	github.com/jackc/puddle v1.3.0 // indirect
	github.com/mattn/go-colorable v0.1.13 // indirect
	github.com/mattn/go-isatty v0.0.20 // indirect
	github.com/munnerz/goautoneg v0.0.0-20191010083416-a7dc8b61c822 // indirect
	github.com/prometheus/client_golang v1.22.0 // indirect
	github.com/prometheus/client_model v0.6.1 // indirect
	github.com/prometheus/common v0.62.0 // indirect
	github.com/prometheus/procfs v0.15.1 // indirect
	github.com/remind101/migrate v0.0.0-20170729031349-52c1edff7319 // indirect
	github.com/remyoudompheng/bigfft v0.0.0-20230129092748-24d4a6f8daec // indirect
	go.opentelemetry.io/auto/sdk v1.1.0 // indirect
	go.opentelemetry.io/otel v1.35.0 // indirect
	go.opentelemetry.io/otel/metric v1.35.0 // indirect
	go.opentelemetry.io/otel/trace v1.35.0 // indirect
	golang.org/x/crypto v0.37.0 // indirect
	golang.org/x/exp v0.0.0-20250305212735-054e65f0b394 // indirect
	golang.org/x/net v0.39.0 // indirect
	golang.org/x/sync v0.13.0 // indirect
	golang.org/x/sys v0.32.0 // indirect
	golang.org/x/text v0.24.0 // indirect
	golang.org/x/time v0.11.0 // indirect
	golang.org/x/tools v0.32.0 // indirect
	google.golang.org/protobuf v1.36.5 // indirect
	modernc.org/libc v1.62.1 // indirect
	modernc.org/mathutil v1.7.1 // indirect
	modernc.org/memory v1.9.1 // indirect
)

replace github.com/quay/claircore => /repo

replace github.com/quay/claircore/toolkit => /repo/toolkit

replace github.com/quay/claircore/updater/driver => /repo/updater/driver
