package c10

import (
	"context"
	"fmt"
	"net/http"
	"os"
	"runtime"
	"sort"
	"strconv"
	"strings"
	"sync"
	"sync/atomic"
	"time"

	"github.com/quay/claircore"
	"github.com/quay/claircore/internal/verifhook"
	"github.com/quay/claircore/libindex"
	"github.com/quay/claircore/verifharness/internal/hx"
)

// stampRT is the arena's HTTP transport in free runs: it stamps every request
// the fetcher issues with a logical clock, on the flight's own goroutine,
// between the Load miss and the end of the flight.
type stampRT struct {
	inner http.RoundTripper
	clock *atomic.Int64
	mu    sync.Mutex
	reqs  map[int][]int64 // layer -> stamps of issued requests
}

func (t *stampRT) RoundTrip(req *http.Request) (*http.Response, error) {
	if req.Context().Err() == nil {
		if k, err := strconv.Atoi(strings.TrimPrefix(req.URL.Path, "/l/")); err == nil {
			s := t.clock.Add(1)
			t.mu.Lock()
			t.reqs[k] = append(t.reqs[k], s)
			t.mu.Unlock()
		}
	}
	return t.inner.RoundTrip(req)
}

// CloseIdleConnections lets http.Client.CloseIdleConnections reach the real transport.
func (t *stampRT) CloseIdleConnections() {
	if c, ok := t.inner.(interface{ CloseIdleConnections() }); ok {
		c.CloseIdleConnections()
	}
}

type freeUser struct {
	id        int
	layers    []int
	cancelAt  int // number of yields after which the user's context is cancelled (<0: never)
	err       error
	a, b      int64 // logical time of "Realize returned" and "about to Close"
	cancelled atomic.Bool
	old       bool // uses the old interface Realize([]*claircore.Layer), its list repeats some digests
	mode      int  // 0: Realize, Close; 1: Realize twice on one proxy, Close; 2: Close twice; 3: Close, Realize again, Close
}

// failU records an unexplained failure and stops the collector (see noGC).
func failU(r *hx.Run, what string) {
	stopCollecting()
	r.Fail("", what)
}

// yielder perturbs the schedule at the hook points.
type yielder struct {
	seed uint64
	n    atomic.Uint64
}

func (y *yielder) maybe() {
	x := y.n.Add(1) * 0x9E3779B97F4A7C15
	x ^= y.seed
	x ^= x >> 29
	x *= 0xBF58476D1CE4E5B9
	x ^= x >> 32
	switch x % 8 {
	case 0, 1, 2:
		runtime.Gosched()
	case 3:
		for i := 0; i < int(x>>8%4)+1; i++ {
			runtime.Gosched()
		}
	case 4:
		if (x>>16)%6 == 0 {
			time.Sleep(time.Duration((x>>24)%150) * time.Microsecond)
		}
	}
}

func freeRun(r *hx.Run, rnd *hx.Rand, idx int, maxUsers int) {
	// every other run is "clean": no failing layer, no cancellation, so every user must succeed
	clean := idx%2 == 0
	nl := 3 + rnd.Intn(8)
	var layers []*layer
	bad := map[int]string{} // layers that make a Realize fail
	for i := 0; i < nl; i++ {
		valid := true
		switch {
		case !clean && i >= 2 && rnd.Chance(1, 12):
			valid = false
			bad[i] = "not-a-tar"
		}
		layers = append(layers, mkLayerZ(i, valid, 100+rnd.Intn(60000), i%3))
	}
	srv := newServer(layers)
	flaky := map[int]*atomic.Int32{}
	for i := 2; i < nl; i++ {
		if _, isBad := bad[i]; !isBad && !clean && rnd.Chance(1, 10) {
			if rnd.Chance(1, 2) {
				srv.mode[i].Store(srv500)
				bad[i] = "always-500"
			} else {
				flaky[i] = new(atomic.Int32)
				bad[i] = "first-request-fails"
			}
		}
	}
	y := &yielder{seed: rnd.U64()}
	srv.delay = func(k int) {
		if c := flaky[k]; c != nil {
			if c.Add(1) == 1 {
				srv.mode[k].Store(srvWrongBytes)
			} else {
				srv.mode[k].Store(srvOK)
			}
		}
		y.maybe()
		y.maybe()
	}
	var clock atomic.Int64
	rt := &stampRT{inner: srv.ts.Client().Transport, clock: &clock, reqs: map[int][]int64{}}
	client := &http.Client{Transport: rt}
	root, err := os.MkdirTemp("", "c10-free-")
	if err != nil {
		failU(r, "cannot-create-arena "+err.Error())
		return
	}
	defer os.RemoveAll(root)
	arena := libindex.NewRemoteFetchArena(client, root)
	var flights atomic.Int64 // flights between their first and their last hook point
	verifhook.Install(func(site, key string) {
		if strings.HasPrefix(site, "c10.") {
			switch site {
			case "c10.flight.begin":
				flights.Add(1)
			case "c10.flight.end":
				// deferred first, so it runs last: the temp file has been stored or closed
				flights.Add(-1)
				return
			}
			y.maybe()
		}
	})
	defer verifhook.Install(nil)

	nu := 1 + rnd.Intn(maxUsers)
	if rnd.Chance(1, 8) {
		nu = maxUsers
	}
	users := make([]*freeUser, nu)
	anyCancel := false
	for i := range users {
		u := &freeUser{id: i, cancelAt: -1}
		want := 1 + rnd.Intn(min(6, nl))
		perm := make([]int, nl)
		for j := range perm {
			perm[j] = j
		}
		for j := nl - 1; j > 0; j-- {
			m := rnd.Intn(j + 1)
			perm[j], perm[m] = perm[m], perm[j]
		}
		// most users share the low layers (a common base image), in shuffled order
		for _, k := range perm {
			if len(u.layers) < want && (k < 3 || rnd.Chance(1, 2)) {
				u.layers = append(u.layers, k)
			}
		}
		if len(u.layers) == 0 {
			u.layers = []int{0}
		}
		if !clean && rnd.Chance(1, 7) {
			u.cancelAt = rnd.Intn(40)
			anyCancel = true
		}
		if rnd.Chance(1, 3) {
			u.mode = 1 + rnd.Intn(3)
		}
		if rnd.Chance(1, 4) {
			// the old interface, with the same digest at several positions of the list (manifests
			// repeat the empty layer)
			u.old = true
			for j := 1 + rnd.Intn(2); j > 0; j-- {
				pos, val := rnd.Intn(len(u.layers)+1), u.layers[rnd.Intn(len(u.layers))]
				u.layers = append(u.layers[:pos], append([]int{val}, u.layers[pos:]...)...)
			}
		}
		users[i] = u
	}
	label := fmt.Sprintf("free-run#%d users=%d layers=%d gomaxprocs=%d", idx, nu, nl, runtime.GOMAXPROCS(0))

	var wg sync.WaitGroup
	for _, u := range users {
		wg.Add(1)
		go func(u *freeUser) {
			defer wg.Done()
			ctx, cancel := context.WithCancel(context.Background())
			defer cancel()
			if u.cancelAt >= 0 {
				go func() {
					for i := 0; i < u.cancelAt; i++ {
						y.maybe()
						runtime.Gosched()
					}
					u.cancelled.Store(true)
					cancel()
				}()
			}
			for i := 0; i < u.id%5; i++ {
				y.maybe()
			}
			descs := make([]claircore.LayerDescription, len(u.layers))
			for i, k := range u.layers {
				descs[i] = srv.desc(k, false)
			}
			p := arena.Realizer(ctx).(*libindex.FetchProxy)
			var ls []claircore.Layer
			var out string
			if u.old {
				lp := oldLayers(srv, layers, u.layers)
				out = hx.Guard(func() string { u.err = p.Realize(ctx, lp); return "" })
				if out != "panic" && u.err == nil {
					r.Count("free:contract=old-interface-with-repeated-digests")
					// per slot: the Layer handed back is initialised and is the layer of that slot
					ls = make([]claircore.Layer, len(lp))
					for i, k := range u.layers {
						if msg := slotCheck(lp[i], layers[k]); msg != "" {
							failU(r, fmt.Sprintf("%s user=%d Realize(layers=%v) slot=%d: %s", label, u.id, u.layers, i, msg))
							u.err = fmt.Errorf("slot check failed")
						}
					}
					if u.err != nil {
						hx.Guard(func() string { p.Close(); return "" })
						return
					}
					for i := range lp {
						ls[i] = *lp[i]
					}
				}
			} else {
				out = hx.Guard(func() string { ls, u.err = p.RealizeDescriptions(ctx, descs); return "" })
			}
			if out == "panic" {
				u.err = fmt.Errorf("panic")
				failU(r, label+" RealizeDescriptions-panicked user="+strconv.Itoa(u.id))
				return
			}
			if u.err != nil {
				return
			}
			u.a = clock.Add(1)
			for round := 0; round < 2; round++ {
				for i, k := range u.layers {
					r.Case(fmt.Sprintf("free read user=%d layer=%d", u.id, k), true)
					if msg := readBack(&ls[i], layers[k]); msg != "" {
						failU(r, fmt.Sprintf("%s user=%d cannot-read-held-layer=%d round=%d: %s", label, u.id, k, round, msg))
					}
				}
				y.maybe()
				y.maybe()
			}
			if u.mode == 1 {
				// the interface contract: a second Realize on the same proxy, one Close for both
				var ls2 []claircore.Layer
				var err2 error
				descs2 := make([]claircore.LayerDescription, len(u.layers))
				for i, k := range u.layers {
					descs2[i] = srv.desc(k, false)
				}
				if hx.Guard(func() string { ls2, err2 = p.RealizeDescriptions(ctx, descs2); return "" }) == "panic" {
					failU(r, fmt.Sprintf("%s user=%d second-RealizeDescriptions-panicked", label, u.id))
				}
				if err2 == nil {
					for i, k := range u.layers {
						if msg := readBack(&ls2[i], layers[k]); msg != "" {
							failU(r, fmt.Sprintf("%s user=%d cannot-read-layer=%d of-its-second-Realize: %s", label, u.id, k, msg))
						}
					}
					r.Count("free:contract=realize-twice-one-close")
				}
			}
			u.b = clock.Add(1)
			var cerr error
			if hx.Guard(func() string { cerr = p.Close(); return "" }) == "panic" || cerr != nil {
				failU(r, fmt.Sprintf("%s user=%d Close-failed err=%v", label, u.id, cerr))
			}
			switch u.mode {
			case 2:
				if hx.Guard(func() string { cerr = p.Close(); return "" }) == "panic" || cerr != nil {
					failU(r, fmt.Sprintf("%s user=%d second-Close-failed err=%v", label, u.id, cerr))
				}
				r.Count("free:contract=close-twice")
			case 3:
				var ls3 []claircore.Layer
				var err3 error
				descs3 := make([]claircore.LayerDescription, len(u.layers))
				for i, k := range u.layers {
					descs3[i] = srv.desc(k, false)
				}
				if hx.Guard(func() string { ls3, err3 = p.RealizeDescriptions(ctx, descs3); return "" }) == "panic" {
					failU(r, fmt.Sprintf("%s user=%d RealizeDescriptions-after-Close-panicked", label, u.id))
				}
				if err3 == nil {
					for i, k := range u.layers {
						if msg := readBack(&ls3[i], layers[k]); msg != "" {
							failU(r, fmt.Sprintf("%s user=%d cannot-read-layer=%d realized-after-Close: %s", label, u.id, k, msg))
						}
					}
					r.Count("free:contract=close-then-realize")
				}
				if hx.Guard(func() string { cerr = p.Close(); return "" }) == "panic" || cerr != nil {
					failU(r, fmt.Sprintf("%s user=%d Close-after-second-use-failed err=%v", label, u.id, cerr))
				}
			}
		}(u)
	}
	done := make(chan struct{})
	go func() { wg.Wait(); close(done) }()
	select {
	case <-done:
	case <-time.After(60 * time.Second):
		failU(r, label+" users-stuck (deadlock or lost wake-up)")
		return
	}

	// ---- the statement, checked on what happened
	okUsers := 0
	for _, u := range users {
		r.Count(fmt.Sprintf("free:user-layers=%d", len(u.layers)))
		if u.err == nil {
			okUsers++
			r.Count("free:user=held-and-closed")
			// no request for a digest while this user held it
			rt.mu.Lock()
			for _, k := range u.layers {
				for _, s := range rt.reqs[k] {
					if s > u.a && s < u.b {
						failU(r, fmt.Sprintf("%s download-while-held layer=%d holder=user%d held=(%d,%d) request-at=%d", label, k, u.id, u.a, u.b, s))
					}
				}
			}
			rt.mu.Unlock()
			continue
		}
		why := ""
		for _, k := range u.layers {
			if w, isBad := bad[k]; isBad {
				why = w
			}
		}
		switch {
		case u.cancelled.Load():
			r.Count("free:user=failed(cancelled)")
		case why != "":
			r.Count("free:user=failed(" + why + ")")
		case anyCancel || len(bad) > 0:
			// the flight it joined ran under the context of a leader that was cancelled, by
			// its owner or by its errgroup after another layer of that user had failed (the
			// error it gets is the cause of that cancellation, e.g. another layer's 500)
			r.Count("free:user=failed(flight-of-a-cancelled-leader)")
		default:
			failU(r, fmt.Sprintf("%s healthy-user%d-failed layers=%v err=%v", label, u.id, u.layers, u.err))
		}
	}
	total, wanted := 0, 0
	rt.mu.Lock()
	for _, ss := range rt.reqs {
		total += len(ss)
	}
	rt.mu.Unlock()
	for _, u := range users {
		wanted += len(u.layers)
	}
	r.Count("free:runs")
	if clean {
		r.Count("free:runs-clean(no failing layer, no cancellation)")
	}
	if total < wanted {
		r.Count("free:runs-with-shared-downloads")
	}
	r.Count(fmt.Sprintf("free:gomaxprocs=%d", runtime.GOMAXPROCS(0)))

	// ---- after all Close calls. A flight outlives waiters that left through ctx.Done:
	// the quiescent state is reached when the last flight has returned.
	for deadline := time.Now().Add(10 * time.Second); flights.Load() != 0 || flightGoroutines() != 0; {
		if time.Now().After(deadline) {
			failU(r, label+" a-flight-is-still-running-10s-after-every-user-returned")
			break
		}
		time.Sleep(50 * time.Microsecond)
	}
	fdsBeforeGC := arenaFDs(root)
	kindsBeforeGC := arenaFDKinds(root)
	// a reference that is still counted now was lost by the code (its Layer with it): say so
	// before the collector gets to run the finalizers
	for _, key := range arena.ArenaKeysForVerif() {
		if c, _ := libindex.RcStateForVerif(arena.ArenaEntryForVerif(key)); c != 0 {
			failU(r, fmt.Sprintf("%s arena-entry-still-referenced-after-every-user-closed %s count=%d", label, key, c))
		}
	}
	runFinalizers()
	keys := arena.ArenaKeysForVerif()
	sort.Strings(keys)
	orphans := 0
	for _, key := range keys {
		c, open := libindex.RcStateForVerif(arena.ArenaEntryForVerif(key))
		if c == 0 && open && (anyCancel || len(bad) > 0) {
			// a waiter's context was cancelled (by its user, or by its errgroup after a
			// sibling layer failed) between the end of the transfer and the hand-over
			orphans++
			r.Fail("orphan-after-cancel", fmt.Sprintf("%s arena-keeps %s count=0 file-open after every user is done (user cancellations=%v failing layers=%d)", label, key, anyCancel, len(bad)))
			continue
		}
		failU(r, fmt.Sprintf("%s arena-not-empty-after-all-closed %s count=%d open=%v", label, key, c, open))
	}
	if n := arenaFDs(root); n != orphans {
		failU(r, fmt.Sprintf("%s open-descriptors-into-arena-after-all-closed n=%d expected=%d", label, n, orphans))
	} else if fdsBeforeGC != orphans {
		failU(r, fmt.Sprintf("%s descriptors-into-arena-released-only-by-the-garbage-collector before-gc=%d(%s) after-gc=%d", label, fdsBeforeGC, kindsBeforeGC, n))
	}
	if n := dirEntries(root); n != 0 {
		failU(r, fmt.Sprintf("%s files-left-in-arena-dir n=%d", label, n))
	}
	if n := checkedOutConns(client); n != 0 {
		failU(r, fmt.Sprintf("%s http-connections-still-checked-out-after-every-fetch-ended n=%d", label, n))
	}
	// the arena's own Close: it forgets every key
	var aerr error
	if hx.Guard(func() string { aerr = arena.Close(context.Background()); return "" }) == "panic" || aerr != nil {
		failU(r, fmt.Sprintf("%s arena-Close-failed err=%v", label, aerr))
	}
	if ks := arena.ArenaKeysForVerif(); len(ks) != 0 {
		failU(r, fmt.Sprintf("%s arena-Close-left-keys n=%d", label, len(ks)))
	}
	client.CloseIdleConnections()
	srv.close()
}

// churnRun is many short use periods of one or two digests: users fetch, read, close and
// fetch again, so that closes of the last reference keep racing with new fetches of the same
// layer. The hook at the start of an rc's cleanup callback yields, which widens exactly the
// window between "count reached zero" and "key forgotten" (harmless when, as in the code,
// that window is inside the rc's critical section).
func churnRun(r *hx.Run, rnd *hx.Rand, idx int) {
	nl := 1 + rnd.Intn(2)
	var layers []*layer
	for i := 0; i < nl; i++ {
		layers = append(layers, mkLayer(i, true, 50+rnd.Intn(3000)))
	}
	srv := newServer(layers)
	y := &yielder{seed: rnd.U64()}
	var clock atomic.Int64
	rt := &stampRT{inner: srv.ts.Client().Transport, clock: &clock, reqs: map[int][]int64{}}
	client := &http.Client{Transport: rt}
	root, err := os.MkdirTemp("", "c10-churn-")
	if err != nil {
		failU(r, "cannot-create-arena "+err.Error())
		return
	}
	defer os.RemoveAll(root)
	arena := libindex.NewRemoteFetchArena(client, root)
	verifhook.Install(func(site, key string) {
		switch {
		case site == "c10.done":
			for i := 0; i < 6; i++ {
				runtime.Gosched()
			}
			y.maybe()
		case site == "c10.flight.end":
		case strings.HasPrefix(site, "c10."):
			y.maybe()
		}
	})
	defer verifhook.Install(nil)
	nu := 4 + rnd.Intn(21)
	rounds := 4 + rnd.Intn(9)
	label := fmt.Sprintf("churn-run#%d users=%d rounds=%d layers=%d gomaxprocs=%d", idx, nu, rounds, nl, runtime.GOMAXPROCS(0))
	type hold struct {
		user, k int
		a, b    int64
	}
	var hmu sync.Mutex
	var holds []hold
	var wg sync.WaitGroup
	for u := 0; u < nu; u++ {
		wg.Add(1)
		go func(u int) {
			defer wg.Done()
			ctx := context.Background()
			for round := 0; round < rounds; round++ {
				want := []int{(u + round) % nl}
				if nl > 1 && (u+round)%3 == 0 {
					want = []int{0, 1}
				}
				descs := make([]claircore.LayerDescription, len(want))
				for i, k := range want {
					descs[i] = srv.desc(k, false)
				}
				p := arena.Realizer(ctx).(*libindex.FetchProxy)
				var ls []claircore.Layer
				var err error
				if hx.Guard(func() string { ls, err = p.RealizeDescriptions(ctx, descs); return "" }) == "panic" || err != nil {
					failU(r, fmt.Sprintf("%s user=%d round=%d RealizeDescriptions-failed err=%v", label, u, round, err))
					return
				}
				a := clock.Add(1)
				for i, k := range want {
					r.Case(fmt.Sprintf("churn read user=%d layer=%d", u, k), true)
					if msg := readBack(&ls[i], layers[k]); msg != "" {
						failU(r, fmt.Sprintf("%s user=%d cannot-read-held-layer=%d round=%d: %s", label, u, k, round, msg))
					}
				}
				for i := 0; i < (u+round)%4; i++ {
					y.maybe()
				}
				b := clock.Add(1)
				var cerr error
				if hx.Guard(func() string { cerr = p.Close(); return "" }) == "panic" || cerr != nil {
					failU(r, fmt.Sprintf("%s user=%d round=%d Close-failed err=%v", label, u, round, cerr))
				}
				hmu.Lock()
				for _, k := range want {
					holds = append(holds, hold{u, k, a, b})
				}
				hmu.Unlock()
				y.maybe()
			}
		}(u)
	}
	done := make(chan struct{})
	go func() { wg.Wait(); close(done) }()
	select {
	case <-done:
	case <-time.After(60 * time.Second):
		failU(r, label+" users-stuck (deadlock or lost wake-up)")
		return
	}
	rt.mu.Lock()
	total := 0
	for _, h := range holds {
		for _, s := range rt.reqs[h.k] {
			if s > h.a && s < h.b {
				failU(r, fmt.Sprintf("%s download-while-held layer=%d holder=user%d held=(%d,%d) request-at=%d", label, h.k, h.user, h.a, h.b, s))
			}
		}
	}
	for _, ss := range rt.reqs {
		total += len(ss)
	}
	rt.mu.Unlock()
	r.Count("free:churn-runs")
	r.Count("free:churn-use-periods=" + bucket(len(holds)/10) + "0")
	if total < len(holds) {
		r.Count("free:churn-runs-with-shared-downloads")
	}
	for deadline := time.Now().Add(10 * time.Second); flightGoroutines() != 0; {
		if time.Now().After(deadline) {
			failU(r, label+" a-flight-is-still-running-10s-after-every-user-returned")
			break
		}
		time.Sleep(50 * time.Microsecond)
	}
	fdsBeforeGC := arenaFDs(root)
	runFinalizers()
	for _, key := range arena.ArenaKeysForVerif() {
		c, open := libindex.RcStateForVerif(arena.ArenaEntryForVerif(key))
		failU(r, fmt.Sprintf("%s arena-not-empty-after-all-closed %s count=%d open=%v", label, key, c, open))
	}
	if n := arenaFDs(root); n != 0 {
		failU(r, fmt.Sprintf("%s open-descriptors-into-arena-after-all-closed n=%d", label, n))
	} else if fdsBeforeGC != 0 {
		failU(r, fmt.Sprintf("%s descriptors-into-arena-released-only-by-the-garbage-collector before-gc=%d", label, fdsBeforeGC))
	}
	if n := dirEntries(root); n != 0 {
		failU(r, fmt.Sprintf("%s files-left-in-arena-dir n=%d", label, n))
	}
	if n := checkedOutConns(client); n != 0 {
		failU(r, fmt.Sprintf("%s http-connections-still-checked-out-after-every-fetch-ended n=%d", label, n))
	}
	srv.close()
}

func freeRuns(r *hx.Run, cfg hx.Config, rnd *hx.Rand) {
	n := cfg.N(80, 1500)
	base := runtime.NumGoroutine()
	for i := 0; i < n && !r.Stop(); i++ {
		procs := 1 + rnd.Intn(16)
		old := runtime.GOMAXPROCS(procs)
		maxUsers := 12
		if i%6 == 5 {
			maxUsers = 64
		}
		if i%4 == 3 {
			churnRun(r, rnd, i)
		} else {
			freeRun(r, rnd, i, maxUsers)
		}
		runtime.GOMAXPROCS(old)
		if i%10 == 9 {
			if g := settleGoroutines(base, 3); g > base+3 {
				failU(r, fmt.Sprintf("goroutines-leaked-by-free-runs before=%d after=%d run=%d", base, g, i))
				base = g
			}
		}
	}
	r.Notes["free_runs"] = n
}
