package c10

import "github.com/quay/claircore/verifharness/internal/hx"

func freeRuns(r *hx.Run, cfg hx.Config, rnd *hx.Rand) {}
