package c10

import (
	"context"
	"fmt"
	"os"
	"strings"

	"github.com/quay/claircore/internal/verifhook"
	"github.com/quay/claircore/libindex"
	"github.com/quay/claircore/verifharness/internal/hx"
)

// oldAPICases drives the old entry point of the Realizer interface,
// FetchProxy.Realize([]*claircore.Layer) (what indexer/controller calls; it goes through
// wart.LayersToDescriptions, RealizeDescriptions and wart.CopyLayerPointers), one request at a
// time, with layer lists in which digests repeat at arbitrary positions. Checked per SLOT of
// the list: the Layer handed back is initialised, is the layer that slot names and reads back
// exactly that layer's bytes; while the request holds its layers every digest of the list is
// an arena entry with an open file; after Close nothing is left (map, descriptors before the
// collector runs, directory).
func oldAPICases(r *hx.Run, cfg hx.Config, rnd *hx.Rand) {
	verifhook.Install(nil)
	layers := []*layer{mkLayer(0, true, 10), mkLayerZ(1, true, 4000, gzipTar), mkLayerZ(2, true, 300, zstdTar),
		mkLayer(3, true, 20000), mkLayer(4, true, 1), mkLayer(5, false, 0)}
	srv := newServer(layers)
	defer srv.close()
	root, err := os.MkdirTemp("", "c10-old-")
	if err != nil {
		failU(r, "cannot-create-arena "+err.Error())
		return
	}
	defer os.RemoveAll(root)
	client := srv.ts.Client()
	arena := libindex.NewRemoteFetchArena(client, root)
	ctx := context.Background()
	n := cfg.N(150, 3000)
	// fixed shapes first: the repeated (empty) layer at the end, adjacent at the start, everywhere
	fixed := [][]int{{0, 1, 2, 0}, {0, 0, 1}, {1, 0, 0}, {0, 1, 0, 2, 0}, {4, 4}, {3, 1, 3, 1}, {2, 2, 2}, {0}}
	for i := 0; i < n && !r.Stop(); i++ {
		var keys []int
		if i < len(fixed) {
			keys = fixed[i]
		} else {
			m := 1 + rnd.Intn(7)
			pool := 1 + rnd.Intn(5)
			for j := 0; j < m; j++ {
				keys = append(keys, rnd.Intn(pool))
			}
			if rnd.Chance(1, 20) {
				// the blob that is not a tar archive, alone: the request fails (with sibling layers it
				// would run into finding orphan-after-cancel, which the other modes replay)
				keys = []int{5}
			}
		}
		mult := map[int]int{}
		dups := 0
		for _, k := range keys {
			mult[k]++
			if mult[k] > 1 {
				dups++
			}
		}
		label := fmt.Sprintf("old-interface Realize(layers=%v)", keys)
		r.Case(label, dups > 0)
		r.Count(fmt.Sprintf("old-api:slots=%s repeated=%s", bucket(len(keys)), bucket(dups)))
		p := arena.Realizer(ctx).(*libindex.FetchProxy)
		lp := oldLayers(srv, layers, keys)
		var rerr error
		if hx.Guard(func() string { rerr = p.Realize(ctx, lp); return "" }) == "panic" {
			failU(r, label+" panicked")
			continue
		}
		if mult[5] > 0 {
			if rerr == nil {
				failU(r, label+" succeeded-although-a-layer-is-not-a-tar")
			}
		} else if rerr != nil {
			failU(r, fmt.Sprintf("%s failed err=%v", label, rerr))
		}
		if rerr == nil {
			for slot, k := range keys {
				if msg := slotCheck(lp[slot], layers[k]); msg != "" {
					failU(r, fmt.Sprintf("%s slot=%d: %s", label, slot, msg))
				}
			}
			for k := range mult {
				e := arena.ArenaEntryForVerif(layers[k].digest)
				if e == nil {
					failU(r, fmt.Sprintf("%s layer=%d is-not-in-the-arena-while-the-request-holds-it", label, k))
					continue
				}
				if c, open := libindex.RcStateForVerif(e); c < 1 || !open {
					failU(r, fmt.Sprintf("%s layer=%d held-with count=%d open=%v", label, k, c, open))
				}
			}
		}
		var cerr error
		if hx.Guard(func() string { cerr = p.Close(); return "" }) == "panic" || cerr != nil {
			failU(r, fmt.Sprintf("%s Close-failed err=%v", label, cerr))
		}
		if ks := arena.ArenaKeysForVerif(); len(ks) != 0 {
			var ds []string
			for _, key := range ks {
				c, open := libindex.RcStateForVerif(arena.ArenaEntryForVerif(key))
				ds = append(ds, fmt.Sprintf("count=%d,open=%v", c, open))
			}
			failU(r, fmt.Sprintf("%s arena-not-empty-after-Close %s", label, strings.Join(ds, " ")))
			hx.Guard(func() string { arena.Close(ctx); return "" })
		}
		if fds := arenaFDs(root); fds != 0 {
			failU(r, fmt.Sprintf("%s descriptors-into-the-arena-after-Close n=%d", label, fds))
		}
		if d := dirEntries(root); d != 0 {
			failU(r, fmt.Sprintf("%s files-left-in-arena-dir n=%d", label, d))
		}
	}
	if c := checkedOutConns(client); c != 0 {
		failU(r, fmt.Sprintf("old-interface http-connections-still-checked-out n=%d", c))
	}
	r.Notes["old_interface_cases"] = n
}
