package c10

import (
	"bufio"
	"encoding/json"
	"fmt"
	"os"
	"path/filepath"
	"runtime"
	"sort"
	"strconv"
	"strings"

	"github.com/quay/zlog"
	"github.com/rs/zerolog"

	"github.com/quay/claircore/verifharness/internal/hx"
)

// execLine runs one line of a corpus script if the implementation is at the
// point the line expects. It reports false when the line is not enabled.
func (s *sched) execLine(line string) bool {
	w := strings.Fields(line)
	if len(w) < 1 {
		return true
	}
	switch w[0] {
	case "pnew":
		s.pnew()
		return true
	case "aclose":
		s.aclose()
		return true
	}
	if len(w) < 2 {
		return false
	}
	n, err := strconv.Atoi(w[1])
	if err != nil {
		return false
	}
	taskAt := func(st string) *task {
		if n < 0 || n >= len(s.tasks) || s.tasks[n].st != st {
			return nil
		}
		return s.tasks[n]
	}
	flightAt := func(sites ...string) bool {
		f := s.flights[n]
		if f == nil || f.at == nil {
			return false
		}
		for _, x := range sites {
			if f.at.site == "c10.flight."+x {
				return true
			}
		}
		return false
	}
	switch w[0] {
	case "spawn":
		if n < 0 || n >= len(s.srv.layers) {
			return false
		}
		s.spawnAt(n, len(w) > 2 && w[2] == "baduri", len(w) > 2 && w[2] == "alt")
	case "enter":
		t := taskAt("enter")
		if t == nil {
			return false
		}
		s.enter(t)
	case "fload":
		if !flightAt("begin") {
			return false
		}
		s.fload(n)
	case "fnet":
		if !flightAt("miss") {
			return false
		}
		if len(w) > 2 && w[2] == "0" {
			mode := srv500
			if len(w) > 3 && strings.HasPrefix(w[3], "mode=") {
				if m, err := strconv.Atoi(w[3][5:]); err == nil && m > 0 && m < 8 {
					mode = int32(m)
				}
			}
			s.fnet(n, false, mode)
		} else {
			s.fnet(n, true, srvOK)
		}
	case "ftmpfail":
		if !flightAt("miss") {
			return false
		}
		s.ftmpfail(n)
	case "freq":
		if !flightAt("miss") {
			return false
		}
		where := stallBeforeHeaders
		if len(w) > 2 && w[2] == "midbody" {
			where = stallMidBody
		}
		s.freq(n, where)
	case "fbody":
		if f := s.flights[n]; f == nil || !f.reqOpen {
			return false
		}
		if len(w) > 2 && w[2] == "0" {
			s.fbody(n, false, srv500)
		} else {
			s.fbody(n, true, srvOK)
		}
	case "fstore":
		if !flightAt("fetched") {
			return false
		}
		s.fstore(n)
	case "fend":
		if !flightAt("hit", "end") {
			return false
		}
		s.fend(n)
	case "cancel":
		if n < 0 || n >= len(s.tasks) || s.tasks[n].st == "enter" || s.tasks[n].call != nil {
			return false
		}
		s.cancelTask(s.tasks[n])
	case "ref":
		t := taskAt("got")
		if t == nil {
			return false
		}
		s.ref(t)
	case "val":
		t := taskAt("reffed")
		if t == nil {
			return false
		}
		s.val(t)
	case "retry":
		t := taskAt("stale")
		if t == nil {
			return false
		}
		s.retry(t)
	case "init":
		t := taskAt("valok")
		if t == nil {
			return false
		}
		s.initTask(t)
	case "close":
		t := taskAt("holding")
		if t == nil || t.call != nil {
			return false
		}
		s.closeTask(t)
	case "realize":
		// realize <proxy> <limit> <key>... [bad:i,j]
		if n < 0 || n >= len(s.proxies) || s.proxies[n].call != nil || len(w) < 3 {
			return false
		}
		limit, err := strconv.Atoi(w[2])
		if err != nil || limit < 1 {
			return false
		}
		var keys []int
		badAt := map[int]bool{}
		for _, x := range w[3:] {
			if strings.HasPrefix(x, "bad:") {
				for _, y := range strings.Split(x[4:], ",") {
					if i, err := strconv.Atoi(y); err == nil {
						badAt[i] = true
					}
				}
				continue
			}
			k, err := strconv.Atoi(x)
			if err != nil || k < 0 || k >= len(s.srv.layers) {
				return false
			}
			keys = append(keys, k)
		}
		bad := make([]bool, len(keys))
		for i := range bad {
			bad[i] = badAt[i]
		}
		s.realize(s.proxies[n], limit, keys, bad)
	case "pcancel":
		if n < 0 || n >= len(s.proxies) || s.proxies[n].call == nil {
			return false
		}
		s.pcancel(s.proxies[n])
	case "pclose":
		if n < 0 || n >= len(s.proxies) || s.proxies[n].call != nil {
			return false
		}
		s.pclose(s.proxies[n])
	case "closerace":
		a := taskAt("holding")
		if a == nil || len(w) < 3 || a.call != nil {
			return false
		}
		m, err := strconv.Atoi(w[2])
		if err != nil || m < 0 || m >= len(s.tasks) || s.tasks[m].st != "got" {
			return false
		}
		s.closeRace(a, s.tasks[m])
	case "read":
		t := taskAt("holding")
		if t == nil {
			return false
		}
		s.read(t, "script")
	case "gc":
		s.gc(n)
	case "query":
		s.query(n)
	default:
		return false
	}
	return true
}

// script runs a fixed schedule (a corpus file or a replay). When the
// implementation leaves the script (a line is not enabled) the remaining
// goroutines are driven to completion with successful fetches, so that the
// direct checks still see how the scenario ends.
func script(r *hx.Run, layers []*layer, name string, lines []string) {
	s, err := newSched(r, layers)
	if err != nil {
		r.Fail("", "cannot-create-arena "+err.Error())
		return
	}
	s.quiet = true
	s.begin()
	diverged := false
	for _, l := range lines {
		l = strings.TrimSpace(l)
		if l == "" || strings.HasPrefix(l, "#") {
			continue
		}
		if s.broken {
			break
		}
		if !s.execLine(l) {
			diverged = true
			r.Count("script-left:" + name)
			break
		}
	}
	if diverged {
		rnd := hx.NewRand(1)
		for i := 0; i < 400 && !s.broken; i++ {
			cs := s.enabled(rnd, true)
			if len(cs) == 0 {
				break
			}
			cs[0].run()
		}
	}
	r.Count("script:" + name)
	s.finish(false)
}

// replaySchedules extracts the "schedule=a;b;c" parts of the failures recorded
// in a replay file written by ./check.
func replaySchedules(path string) [][]string {
	b, err := os.ReadFile(path)
	if err != nil {
		return nil
	}
	var body struct {
		Failures []struct {
			Witness string `json:"witness"`
		} `json:"failures"`
	}
	if json.Unmarshal(b, &body) != nil {
		return nil
	}
	var res [][]string
	for _, f := range body.Failures {
		i := strings.Index(f.Witness, "schedule=")
		if i < 0 {
			continue
		}
		res = append(res, strings.Split(f.Witness[i+len("schedule="):], ";"))
		if len(res) >= 5 {
			break
		}
	}
	return res
}

func loadCorpus(dir string) map[string][]string {
	res := map[string][]string{}
	ents, err := os.ReadDir(dir)
	if err != nil {
		return res
	}
	for _, e := range ents {
		if !strings.HasSuffix(e.Name(), ".ops") {
			continue
		}
		f, err := os.Open(filepath.Join(dir, e.Name()))
		if err != nil {
			continue
		}
		var lines []string
		sc := bufio.NewScanner(f)
		for sc.Scan() {
			lines = append(lines, sc.Text())
		}
		f.Close()
		res[e.Name()] = lines
	}
	return res
}

// Run is the harness entry point for C10.
func Run(cfg hx.Config) error {
	r, err := hx.NewRun(cfg)
	if err != nil {
		return err
	}
	r.Rule = "scripted schedules: every goroutine inside fetchInto/fetchUnlinkedFile is parked at the hook points and released one atomic section at a time (seeded choice among the enabled sections; 1-3 digests plus a non-tar blob, up to 64 tasks, failing servers, bad URIs, cancellations of waiting tasks, forced GC); one protocol line per section, answer = outcome + every rc's count/file state + arena entry + server request count of the key; all such lines are non-trivial. Free runs: 1-64 users call RealizeDescriptions/Close on overlapping layer sets under GOMAXPROCS 1-16 with seeded yields, latency, failing layers and cancellations; checked directly: read-back of every held layer, no request for a digest while a user holds it, arena map/descriptors/directory/goroutines after all closes. Old interface: FetchProxy.Realize([]*claircore.Layer) with layer lists that repeat digests at arbitrary positions, checked per slot (initialised, the slot's digest, its bytes), arena clean after Close; non-trivial = the list repeats a digest."
	nop := zerolog.Nop()
	zlog.Set(&nop)
	rnd := hx.NewRand(cfg.Seed)
	base := runtime.NumGoroutine()
	layers := []*layer{mkLayer(0, true, 3000), mkLayerZ(1, true, 70000, gzipTar), mkLayerZ(2, true, 10, zstdTar), mkLayer(3, false, 0)}

	// corpus first: witnesses of the repaired defects and of the listed finding
	corpus := loadCorpus(cfg.Corpus)
	var names []string
	for n := range corpus {
		names = append(names, n)
	}
	sort.Strings(names)
	for _, n := range names {
		script(r, layers, n, corpus[n])
	}

	// a replay file: the schedules of its failures, as scripts
	if cfg.Replay != "" {
		for i, lines := range replaySchedules(cfg.Replay) {
			script(r, layers, fmt.Sprintf("replay-%d", i), lines)
		}
	}

	nscen := cfg.N(300, 7500)
	for i := 0; i < nscen && !r.Stop(); i++ {
		maxTasks := 2 + rnd.Intn(9)
		if i%40 == 7 {
			maxTasks = 24 + rnd.Intn(41) // up to 64 tasks
		}
		randomScenario(r, rnd, layers, maxTasks, 40+maxTasks*12)
	}
	r.Notes["scripted_scenarios"] = nscen
	r.Notes["corpus_scripts"] = names

	freeRuns(r, cfg, rnd)
	oldAPICases(r, cfg, rnd)

	if n := settleGoroutines(base, 2); n > base+2 {
		r.Fail("", fmt.Sprintf("goroutines-leaked before=%d after=%d", base, n))
	}
	r.Notes["leak_half"] = "partial: descriptors under /proc/self/fd pointing into the arena directory, the directory listing, the arena map and the goroutine count are observed by the harness after every scenario, not proved"
	return r.Close()
}
