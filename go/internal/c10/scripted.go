package c10

import (
	"context"
	"fmt"
	"io"
	"os"
	"sort"
	"strings"
	"sync"
	"sync/atomic"
	"time"

	"github.com/quay/claircore"
	"github.com/quay/claircore/internal/verifhook"
	"github.com/quay/claircore/libindex"
	"github.com/quay/claircore/verifharness/internal/hx"
)

// park is one goroutine stopped at a verifhook point.
type park struct {
	site string
	key  int
	gid  int64
	rel  chan struct{}
}

// task is one fetchInto closure: one user asking for one layer.
type task struct {
	id       int
	key      int
	badURI   bool
	ctx      context.Context
	cancel   context.CancelFunc
	layer    *claircore.Layer
	cl       io.Closer
	desc     claircore.LayerDescription
	gid      int64
	at       *park
	st       string // enter waiting got reffed valok stale holding failed closed
	finished bool
	err      error
	gen      int // which rc of its key the flight handed to the task (-1: none)
}

type flightSt struct {
	at       *park
	leader   int
	resultOK bool
	gensAt   int // len(gens[k]) when the flight began
	gid      int64
	reqOpen  bool // the request is at the server, the transfer has not ended (freq .. fbody)
	resGen   int  // index of the rc the flight returns
}

type taskDone struct {
	t   *task
	err error
}

// sched is the controlled scheduler of one scripted scenario.
type sched struct {
	r        *hx.Run
	arena    *libindex.RemoteFetchArena
	root     string
	srv      *server
	keyIdx   map[string]int
	tasks    []*task
	flights  map[int]*flightSt
	arrive   chan *park
	doneCh   chan taskDone
	abandon  atomic.Bool
	mu       sync.Mutex // byGid, gens: touched by hooks on other goroutines
	byGid    map[int64]*task
	gens     map[int][]any
	ops      []string
	orphaned map[int]bool // keys whose flight delivered an rc to nobody
	atServer map[int]bool // a stalled request for the key is waiting at the server
	broken   bool
	quiet    bool // replaying a corpus script: same protocol, counted separately
	cur      string
	raceGid  atomic.Int64 // goroutine whose Close is to be stopped at c10.done
	raceCh   chan *park
}

func newSched(r *hx.Run, layers []*layer) (*sched, error) {
	root, err := os.MkdirTemp("", "c10-arena-")
	if err != nil {
		return nil, err
	}
	s := &sched{r: r, root: root, keyIdx: map[string]int{}, flights: map[int]*flightSt{}, arrive: make(chan *park, 1024),
		doneCh: make(chan taskDone, 1024), raceCh: make(chan *park, 4), byGid: map[int64]*task{}, gens: map[int][]any{}, orphaned: map[int]bool{}, atServer: map[int]bool{}}
	s.srv = newServer(layers)
	for _, l := range layers {
		s.keyIdx[l.digest] = l.idx
	}
	s.arena = libindex.NewRemoteFetchArena(s.srv.ts.Client(), root)
	verifhook.Install(s.hook)
	return s, nil
}

func (s *sched) hook(site, key string) {
	if !strings.HasPrefix(site, "c10.") {
		return
	}
	k, ok := s.keyIdx[key]
	if !ok {
		return
	}
	if site == "c10.flight.stored" {
		s.mu.Lock()
		s.gens[k] = append(s.gens[k], s.arena.ArenaEntryForVerif(key))
		s.mu.Unlock()
		return
	}
	if s.abandon.Load() {
		return
	}
	if site == "c10.done" {
		// the cleanup callback of an rc whose count has just reached zero. It runs on
		// whatever goroutine released the last reference (the scheduler's own for a
		// plain close): only the closer of a closerace stops here.
		if g := s.raceGid.Load(); g == 0 || g != hx.GoID() {
			return
		}
		p := &park{site: site, key: k, gid: hx.GoID(), rel: make(chan struct{})}
		s.raceCh <- p
		<-p.rel
		return
	}
	p := &park{site: site, key: k, gid: hx.GoID(), rel: make(chan struct{})}
	s.arrive <- p
	<-p.rel
}

// witness is the schedule so far, including the operation in progress, in the
// grammar of the corpus scripts.
func (s *sched) witness() string {
	ops := s.ops
	if s.cur != "" {
		ops = append(append([]string(nil), ops...), s.cur)
	}
	return "schedule=" + strings.Join(ops, ";")
}

func (s *sched) fail(class, what string) {
	s.r.Fail(class, what+" "+s.witness())
}

func (s *sched) place(p *park) {
	if strings.HasPrefix(p.site, "c10.flight.") {
		f := s.flights[p.key]
		if f == nil {
			s.mu.Lock()
			n := len(s.gens[p.key])
			s.mu.Unlock()
			f = &flightSt{leader: -1, gensAt: n}
			s.flights[p.key] = f
		}
		f.at = p
		return
	}
	s.mu.Lock()
	t := s.byGid[p.gid]
	s.mu.Unlock()
	if t == nil {
		s.fail("", "hook-from-unknown-goroutine site="+p.site)
		close(p.rel)
		return
	}
	t.at = p
}

// pump processes arrivals until cond holds.
func (s *sched) pump(what string, cond func() bool) bool {
	if s.broken {
		return false
	}
	timeout := time.After(30 * time.Second)
	for !cond() {
		select {
		case p := <-s.arrive:
			s.place(p)
		case d := <-s.doneCh:
			d.t.finished, d.t.err = true, d.err
		case k := <-s.srv.arrived:
			s.atServer[k] = true
		case <-timeout:
			s.fail("", "no-progress waiting-for="+what)
			s.broken = true
			return false
		}
	}
	return true
}

func (s *sched) releaseTask(t *task) {
	p := t.at
	t.at = nil
	close(p.rel)
}

func (s *sched) releaseFlight(f *flightSt) {
	p := f.at
	f.at = nil
	close(p.rel)
}

// keyState renders what can be observed of one key; the Lean driver prints
// the same from the model state.
func (s *sched) keyState(k int) string {
	s.mu.Lock()
	gens := append([]any(nil), s.gens[k]...)
	s.mu.Unlock()
	var cells []string
	for i, x := range gens {
		c, open := libindex.RcStateForVerif(x)
		o := "x"
		if open {
			o = "o"
		}
		cells = append(cells, fmt.Sprintf("g%d:c%d:%s", i, c, o))
	}
	a := "-"
	if e := s.arena.ArenaEntryForVerif(s.srv.layers[k].digest); e != nil {
		a = "?"
		for i, x := range gens {
			if x == e {
				a = fmt.Sprint(i)
			}
		}
	}
	cells = append(cells, "a="+a, fmt.Sprintf("h=%d", s.srv.hits[k].Load()))
	return strings.Join(cells, " ")
}

func (s *sched) genIndex(k int, x any) int {
	s.mu.Lock()
	defer s.mu.Unlock()
	for i, g := range s.gens[k] {
		if g == x {
			return i
		}
	}
	return -1
}

// lastHolder reports whether the holding task a owns the only reference on its rc.
func (s *sched) lastHolder(a *task) bool {
	s.mu.Lock()
	gs := s.gens[a.key]
	s.mu.Unlock()
	if a.gen < 0 || a.gen >= len(gs) {
		return false
	}
	c, _ := libindex.RcStateForVerif(gs[a.gen])
	return c == 1
}

// closeRace is a Close of the last holder `a` racing with the Ref of a task `b` that was
// handed the same rc: the closer is stopped at the start of the rc's cleanup callback (the
// count has just reached zero, the key is not yet forgotten, the file not yet closed) and b's
// Ref is released. The code runs that callback inside rc.dec's critical section, so b must
// block on the rc mutex until the release is complete (protocol order: close a, ref b, b sees
// a dead rc). If b's Ref gets through instead, the release was not atomic; the scenario then
// asks for the layer once more to see whether it is downloaded while b holds it.
func (s *sched) closeRace(a, b *task) {
	s.cur = fmt.Sprintf("closerace %d %d", a.id, b.id)
	if !s.quiet {
		s.r.Count("op:closerace")
	}
	done := make(chan error, 1)
	started := make(chan struct{})
	go func() {
		s.raceGid.Store(hx.GoID())
		close(started)
		var err error
		if hx.Guard(func() string { err = a.cl.Close(); return "" }) == "panic" {
			err = fmt.Errorf("panic in Close")
		}
		done <- err
	}()
	<-started
	closeErr := func(err error) string {
		a.st = "closed"
		if err != nil {
			s.fail("", fmt.Sprintf("close-of-task%d-failed err=%v", a.id, err))
			return "closeerr"
		}
		return "closed"
	}
	// both halves have completed: one protocol line for the pair
	pairLine := func(err error) {
		out := closeErr(err)
		b.st = "reffed"
		s.cur = ""
		s.ops = append(s.ops, fmt.Sprintf("closerace %d %d", a.id, b.id))
		s.r.Op(fmt.Sprintf("closeref %d %d", a.id, b.id), out+" ref | "+s.keyState(a.key), true)
	}
	var rp *park
	select {
	case rp = <-s.raceCh:
	case err := <-done:
		// the count did not reach zero: an ordinary close
		s.raceGid.Store(0)
		out := closeErr(err)
		s.cur = ""
		s.ops = append(s.ops, fmt.Sprintf("close %d", a.id))
		s.r.Op(fmt.Sprintf("close %d", a.id), out+" | "+s.keyState(a.key), true)
		return
	case <-time.After(30 * time.Second):
		s.raceGid.Store(0)
		s.fail("", "no-progress closer-neither-returned-nor-reached-the-cleanup-callback")
		s.broken = true
		return
	}
	s.raceGid.Store(0)
	s.releaseTask(b)
	// b either gets through Ref (parks at c10.reffed) or blocks on the rc mutex
	through := false
	deadline := time.Now().Add(30 * time.Second)
	for {
		select {
		case p := <-s.arrive:
			s.place(p)
		default:
		}
		if b.at != nil {
			through = true
			break
		}
		if st := goState(b.gid); st == "sync.Mutex.Lock" || st == "semacquire" {
			break
		}
		if time.Now().After(deadline) {
			close(rp.rel)
			<-done
			s.fail("", fmt.Sprintf("no-progress task%d-neither-took-its-reference-nor-blocked-on-the-rc-lock", b.id))
			s.broken = true
			return
		}
		time.Sleep(20 * time.Microsecond)
	}
	if !through {
		if !s.quiet {
			s.r.Count("branch:ref-waits-for-the-release-in-progress")
		}
		close(rp.rel)
		err := <-done
		if s.pump("reffed", func() bool { return b.at != nil || b.finished }) && b.at != nil && b.at.site == "c10.reffed" {
			pairLine(err)
		} else if !s.broken {
			s.fail("", fmt.Sprintf("task%d-did-not-take-its-reference-after-the-release", b.id))
			s.broken = true
		}
		return
	}
	// the reference was taken in the middle of the release
	if !s.quiet {
		s.r.Count("branch:ref-inside-a-release")
	}
	close(rp.rel)
	pairLine(<-done)
	// does the arena still know the file b now holds? ask for the layer once more
	s.val(b)
	if b.st != "valok" {
		return
	}
	s.initTask(b)
	if b.st != "holding" || s.broken {
		return
	}
	c := s.spawn(b.key, false)
	if s.broken || c.st != "enter" {
		return
	}
	s.enter(c)
	if f := s.flights[b.key]; !s.broken && f != nil && f.at != nil && f.at.site == "c10.flight.begin" {
		s.fload(b.key)
		if f.at != nil && f.at.site == "c10.flight.miss" && !s.broken {
			s.fnet(b.key, true, srvOK)
		}
	}
}

func (s *sched) emit(line string, k int, outcome string) {
	s.cur = ""
	s.ops = append(s.ops, line)
	s.r.Op(line, outcome+" | "+s.keyState(k), true)
	if !s.quiet {
		s.r.Count("op:" + strings.Fields(line)[0] + "=" + strings.Fields(outcome)[0])
	}
}

// ---- the operations: each releases exactly one atomic section of the real code

func (s *sched) spawn(k int, badURI bool) *task {
	ctx, cancel := context.WithCancel(context.Background())
	t := &task{id: len(s.tasks), key: k, badURI: badURI, ctx: ctx, cancel: cancel, layer: new(claircore.Layer), gen: -1}
	t.desc = s.srv.desc(k, badURI)
	s.tasks = append(s.tasks, t)
	do := s.arena.FetchIntoForVerif(ctx, t.layer, &t.cl, &t.desc)
	started := make(chan struct{})
	go func() {
		t.gid = hx.GoID()
		s.mu.Lock()
		s.byGid[t.gid] = t
		s.mu.Unlock()
		close(started)
		var err error
		out := hx.Guard(func() string { err = do(); return "" })
		if out == "panic" {
			err = fmt.Errorf("panic in fetchInto")
		}
		s.doneCh <- taskDone{t, err}
	}()
	<-started
	if s.pump("spawn", func() bool { return t.at != nil || t.finished }) && t.at != nil && t.at.site == "c10.enter" {
		t.st = "enter"
	} else if !s.broken {
		s.fail("", "task-did-not-reach-DoChan")
		s.broken = true
	}
	s.emit(fmt.Sprintf("spawn %d", k), k, fmt.Sprintf("task %d", t.id))
	if badURI {
		s.ops[len(s.ops)-1] += " baduri" // the witness is a replayable script
	}
	return t
}

func (s *sched) waitBlocked(t *task) bool {
	deadline := time.Now().Add(30 * time.Second)
	for {
		st := goState(t.gid)
		if st == "select" {
			return true
		}
		if time.Now().After(deadline) {
			s.fail("", fmt.Sprintf("task-%d-not-blocked-in-select state=%q", t.id, st))
			s.broken = true
			return false
		}
		time.Sleep(20 * time.Microsecond)
	}
}

func (s *sched) waitGone(gid int64) {
	deadline := time.Now().Add(30 * time.Second)
	for goState(gid) != "" {
		if time.Now().After(deadline) {
			s.fail("", "flight-goroutine-did-not-finish")
			s.broken = true
			return
		}
		time.Sleep(20 * time.Microsecond)
	}
}

func (s *sched) enter(t *task) {
	s.cur = fmt.Sprintf("enter %d", t.id)
	k := t.key
	had := s.flights[k] != nil
	s.releaseTask(t)
	out := "join"
	if !had {
		out = "lead"
		if s.pump("flight.begin", func() bool { return s.flights[k] != nil && s.flights[k].at != nil }) {
			s.flights[k].leader = t.id
		}
	}
	if !s.broken {
		s.waitBlocked(t)
	}
	t.st = "waiting"
	s.emit(fmt.Sprintf("enter %d", t.id), k, out)
}

func (s *sched) flightStep(k int) string {
	f := s.flights[k]
	s.releaseFlight(f)
	if !s.pump("flight-next-point", func() bool { return f.at != nil }) {
		return "stuck"
	}
	return strings.TrimPrefix(f.at.site, "c10.flight.")
}

func (s *sched) fload(k int) {
	s.cur = fmt.Sprintf("fload %d", k)
	f := s.flights[k]
	valid := f.leader >= 0 && !s.tasks[f.leader].badURI
	site := s.flightStep(k)
	out := site
	switch site {
	case "hit":
		f.resultOK = true
		f.resGen = s.genIndex(k, s.arena.ArenaEntryForVerif(s.srv.layers[k].digest))
	case "miss":
	case "end":
		out = "invalid"
	}
	s.emit(fmt.Sprintf("fload %d %s", k, b01(valid)), k, out)
}

func (s *sched) fnet(k int, srvOK bool, mode int32) {
	s.cur = fmt.Sprintf("fnet %d %s", k, b01(srvOK))
	before := s.srv.hits[k].Load()
	s.srv.mode[k].Store(mode)
	if f := s.flights[k]; !s.quiet && f != nil && f.leader >= 0 && s.tasks[f.leader].st == "failed" {
		s.r.Count("branch:request-under-a-cancelled-leader")
	}
	site := s.flightStep(k)
	out := "neterr"
	if site == "fetched" {
		out = "fetched"
	}
	s.heldCheck(k, before)
	s.emit(fmt.Sprintf("fnet %d %s", k, b01(srvOK)), k, out)
}

// heldCheck is the statement: no download of a layer somebody is holding.
func (s *sched) heldCheck(k int, before int64) {
	if s.srv.hits[k].Load() != before {
		for _, t := range s.tasks {
			if t.key == k && t.st == "holding" {
				s.fail("", fmt.Sprintf("download-while-held key=%d holder=task%d", k, t.id))
				break
			}
		}
	}
}

// freq: the request leaves and reaches a server that stalls (before the
// headers or in the middle of the body) until fbody.
func (s *sched) freq(k int, where int32) {
	s.cur = fmt.Sprintf("freq %d", k)
	if where == stallMidBody {
		s.cur += " midbody"
	}
	f := s.flights[k]
	before := s.srv.hits[k].Load()
	s.srv.armStall(k, where)
	delete(s.atServer, k)
	s.releaseFlight(f)
	out := "requested"
	s.pump("request-at-server", func() bool { return s.atServer[k] || f.at != nil })
	if f.at != nil {
		out = "neterr" // the leader's context was dead: nothing was sent
		s.srv.openGate(k)
	} else {
		f.reqOpen = true
	}
	s.heldCheck(k, before)
	if !s.quiet {
		s.r.Count(fmt.Sprintf("branch:stall-point=%d", where))
	}
	s.emit(fmt.Sprintf("freq %d", k), k, out)
	if where == stallMidBody {
		s.ops[len(s.ops)-1] += " midbody"
	}
}

// fbody: the stalled transfer ends, with the right bytes or in failure.
func (s *sched) fbody(k int, srvOK bool, mode int32) {
	s.cur = fmt.Sprintf("fbody %d %s", k, b01(srvOK))
	f := s.flights[k]
	s.srv.mode[k].Store(mode)
	s.srv.openGate(k)
	f.reqOpen = false
	out := "neterr"
	if s.pump("transfer-ends", func() bool { return f.at != nil }) && f.at.site == "c10.flight.fetched" {
		out = "fetched"
	}
	s.emit(fmt.Sprintf("fbody %d %s", k, b01(srvOK)), k, out)
}

func (s *sched) fstore(k int) {
	s.cur = fmt.Sprintf("fstore %d", k)
	f := s.flights[k]
	s.flightStep(k)
	s.mu.Lock()
	n := len(s.gens[k])
	s.mu.Unlock()
	out := "double"
	if n > f.gensAt {
		out = "stored"
		f.resultOK = true
		f.resGen = n - 1
	}
	s.emit(fmt.Sprintf("fstore %d", k), k, out)
}

func (s *sched) fend(k int) {
	s.cur = fmt.Sprintf("fend %d", k)
	f := s.flights[k]
	for {
		last := f.at.site == "c10.flight.end"
		f.gid = f.at.gid
		s.releaseFlight(f)
		if last {
			break
		}
		if !s.pump("flight.end", func() bool { return f.at != nil }) {
			break
		}
	}
	// singleflight forgets the key and hands out the result on this goroutine
	// after fetchUnlinkedFile returned; it is done when the goroutine is gone
	s.waitGone(f.gid)
	delete(s.flights, k)
	var ws []*task
	for _, t := range s.tasks {
		if t.key == k && t.st == "waiting" {
			ws = append(ws, t)
		}
	}
	s.pump("waiters-wake", func() bool {
		for _, t := range ws {
			if t.at == nil && !t.finished {
				return false
			}
		}
		return true
	})
	res := "err"
	if f.resultOK {
		res = "rc"
		if len(ws) == 0 {
			s.orphaned[k] = true
		}
	}
	if !s.quiet {
		s.r.Count(fmt.Sprintf("branch:flight-ends %s waiters=%s", res, bucket(len(ws))))
	}
	for _, t := range ws {
		if s.broken {
			break
		}
		if t.at == nil || t.at.site != "c10.got" {
			s.fail("", fmt.Sprintf("waiter-task%d-did-not-receive-the-flight-result", t.id))
			s.broken = true
			break
		}
		if f.resultOK {
			t.st = "got"
			t.gen = f.resGen
			continue
		}
		// an error result: the task returns it
		s.releaseTask(t)
		s.pump("task-returns-error", func() bool { return t.finished || t.at != nil })
		if !t.finished || t.err == nil {
			s.fail("", fmt.Sprintf("task%d-continued-after-a-failed-flight", t.id))
			s.broken = true
			break
		}
		t.st = "failed"
	}
	s.emit(fmt.Sprintf("fend %d", k), k, fmt.Sprintf("ended %d %s", len(ws), res))
}

func (s *sched) cancelTask(t *task) {
	s.cur = fmt.Sprintf("cancel %d", t.id)
	out := "noeffect"
	t.cancel()
	if t.st == "waiting" {
		out = "cancelled"
		if s.pump("ctx.Done", func() bool { return t.at != nil || t.finished }) && t.at != nil && t.at.site == "c10.ctxdone" {
			s.releaseTask(t)
			s.pump("task-returns", func() bool { return t.finished })
			if t.finished && t.err == nil {
				s.fail("", fmt.Sprintf("cancelled-task%d-returned-nil", t.id))
			}
		} else if !s.broken {
			s.fail("", fmt.Sprintf("cancelled-task%d-did-not-leave-the-select", t.id))
			s.broken = true
		}
		t.st = "failed"
		if f := s.flights[t.key]; f != nil && f.leader == t.id && f.reqOpen && !s.broken {
			// the transfer runs under this context: it fails now, the flight goes on to its end
			s.pump("cancelled-transfer-fails", func() bool { return f.at != nil })
			if !s.quiet {
				s.r.Count("branch:leader-cancelled-mid-transfer")
			}
		}
	}
	s.emit(fmt.Sprintf("cancel %d", t.id), t.key, out)
}

func (s *sched) stepTask(t *task, what string) string {
	s.releaseTask(t)
	if !s.pump(what, func() bool { return t.at != nil || t.finished }) {
		return "stuck"
	}
	if t.finished {
		return "finished"
	}
	return strings.TrimPrefix(t.at.site, "c10.")
}

func bucket(n int) string {
	switch {
	case n <= 2:
		return fmt.Sprint(n)
	case n <= 5:
		return "3-5"
	case n <= 15:
		return "6-15"
	}
	return "16+"
}

func (s *sched) ref(t *task) {
	s.cur = fmt.Sprintf("ref %d", t.id)
	out := "ref"
	if site := s.stepTask(t, "reffed"); site != "reffed" {
		out = "unexpected-" + site
	}
	t.st = "reffed"
	s.emit(fmt.Sprintf("ref %d", t.id), t.key, out)
}

func (s *sched) val(t *task) {
	s.cur = fmt.Sprintf("val %d", t.id)
	site := s.stepTask(t, "val")
	out := "unexpected-" + site
	switch site {
	case "val.ok":
		out, t.st = "ok", "valok"
	case "val.stale":
		out, t.st = "stale", "stale"
		if !s.quiet && s.arena.ArenaEntryForVerif(s.srv.layers[t.key].digest) != nil {
			s.r.Count("branch:stale-ref-while-a-newer-file-is-stored")
		}
	default:
		t.st = "failed"
	}
	s.emit(fmt.Sprintf("val %d", t.id), t.key, out)
}

func (s *sched) retry(t *task) {
	s.cur = fmt.Sprintf("retry %d", t.id)
	out := "retry"
	if site := s.stepTask(t, "retry"); site != "enter" {
		out = "unexpected-" + site
		t.st = "failed"
	} else {
		t.st = "enter"
	}
	s.emit(fmt.Sprintf("retry %d", t.id), t.key, out)
}

func (s *sched) initTask(t *task) {
	s.cur = fmt.Sprintf("init %d", t.id)
	valid := s.srv.layers[t.key].validTar
	site := s.stepTask(t, "init")
	out := "unexpected-" + site
	if site == "finished" {
		if t.err == nil && t.cl != nil {
			out, t.st = "held", "holding"
			if !valid {
				s.fail("", fmt.Sprintf("task%d-holds-a-layer-that-is-not-a-tar", t.id))
			}
		} else {
			out, t.st = "initerr", "failed"
			if valid {
				s.fail("", fmt.Sprintf("task%d-init-failed-on-valid-layer err=%v", t.id, t.err))
			}
		}
	}
	s.emit(fmt.Sprintf("init %d %s", t.id, b01(valid)), t.key, out)
	if t.st == "holding" {
		s.read(t, "after-init")
	}
}

func (s *sched) closeTask(t *task) {
	s.cur = fmt.Sprintf("close %d", t.id)
	var err error
	out := hx.Guard(func() string { err = t.cl.Close(); return "closed" })
	if out == "closed" && err != nil {
		out = "closeerr"
	}
	if out != "closed" {
		s.fail("", fmt.Sprintf("close-of-task%d-failed %s err=%v", t.id, out, err))
	}
	t.st = "closed"
	s.emit(fmt.Sprintf("close %d", t.id), t.key, out)
	// closing one user's handle must not disturb another's
	for _, o := range s.tasks {
		if o.key == t.key && o.st == "holding" {
			s.read(o, fmt.Sprintf("after-close-of-task%d", t.id))
		}
	}
}

func (s *sched) read(t *task, when string) {
	s.r.Case(fmt.Sprintf("read task%d key=%d %s", t.id, t.key, when), true)
	if !s.quiet {
		s.r.Count("oracle:read-back")
	}
	if msg := readBack(t.layer, s.srv.layers[t.key]); msg != "" {
		s.fail("", fmt.Sprintf("holder-task%d-cannot-read-its-layer key=%d %s: %s", t.id, t.key, when, msg))
	}
}

func (s *sched) gc(k int) {
	runFinalizers()
	s.emit(fmt.Sprintf("gc %d", k), k, "gc")
}

func (s *sched) query(k int) { s.emit(fmt.Sprintf("query %d", k), k, "state") }

func b01(b bool) string {
	if b {
		return "1"
	}
	return "0"
}

// ---- enabled operations

type choice struct {
	w   int
	run func()
	tag string
}

func (s *sched) allTerminal() bool {
	for _, t := range s.tasks {
		if t.st != "failed" && t.st != "closed" {
			return false
		}
	}
	return len(s.flights) == 0
}

// enabled lists what can run now. drain: no new work, no cancellations.
func (s *sched) enabled(rnd *hx.Rand, drain bool) []choice {
	var cs []choice
	var fkeys []int
	for k := range s.flights {
		fkeys = append(fkeys, k)
	}
	sort.Ints(fkeys)
	for _, k := range fkeys {
		k, f := k, s.flights[k]
		if f.reqOpen {
			cs = append(cs, choice{8, func() {
				if drain || rnd.Chance(5, 6) {
					s.fbody(k, true, srvOK)
				} else {
					s.fbody(k, false, []int32{srv500, srvWrongBytes, srvTruncated}[rnd.Intn(3)])
				}
			}, "fbody"})
			continue
		}
		if f.at == nil {
			continue
		}
		switch f.at.site {
		case "c10.flight.begin":
			cs = append(cs, choice{8, func() { s.fload(k) }, "fload"})
		case "c10.flight.miss":
			cs = append(cs, choice{8, func() {
				if rnd.Chance(1, 3) {
					s.freq(k, []int32{stallBeforeHeaders, stallMidBody}[rnd.Intn(2)])
				} else if drain || rnd.Chance(5, 6) {
					s.fnet(k, true, srvOK)
				} else {
					s.fnet(k, false, []int32{srv500, srvWrongBytes, srvTruncated}[rnd.Intn(3)])
				}
			}, "fnet"})
		case "c10.flight.fetched":
			cs = append(cs, choice{8, func() { s.fstore(k) }, "fstore"})
		default:
			cs = append(cs, choice{6, func() { s.fend(k) }, "fend"})
		}
	}
	for _, t := range s.tasks {
		t := t
		switch t.st {
		case "enter":
			cs = append(cs, choice{10, func() { s.enter(t) }, "enter"})
		case "waiting":
			if !drain {
				w := 1
				if f := s.flights[t.key]; f != nil && f.leader == t.id && f.reqOpen {
					w = 5 // cancelled mid-fetch
				}
				cs = append(cs, choice{w, func() { s.cancelTask(t) }, "cancel"})
			}
		case "got":
			cs = append(cs, choice{4, func() { s.ref(t) }, "ref"})
		case "reffed":
			cs = append(cs, choice{6, func() { s.val(t) }, "val"})
		case "stale":
			cs = append(cs, choice{8, func() { s.retry(t) }, "retry"})
		case "valok":
			cs = append(cs, choice{6, func() { s.initTask(t) }, "init"})
		case "holding":
			if s.lastHolder(t) {
				for _, b := range s.tasks {
					b := b
					if b.st == "got" && b.key == t.key && b.gen == t.gen {
						cs = append(cs, choice{6, func() { s.closeRace(t, b) }, "closerace"})
						break
					}
				}
			}
			w := 4
			if drain {
				w = 10
			}
			cs = append(cs, choice{w, func() { s.closeTask(t) }, "close"})
			if !drain {
				cs = append(cs, choice{1, func() { s.read(t, "random") }, "read"})
			}
		}
	}
	return cs
}

// byKeyOrder makes map iteration order irrelevant: choices are sorted by tag
// and position so that the same seed gives the same schedule.
func pick(rnd *hx.Rand, cs []choice) choice {
	total := 0
	for _, c := range cs {
		total += c.w
	}
	x := rnd.Intn(total)
	for _, c := range cs {
		if x < c.w {
			return c
		}
		x -= c.w
	}
	return cs[len(cs)-1]
}

// finish checks the quiescent state and tears the scenario down.
func (s *sched) finish(cancelled bool) {
	defer s.teardown()
	if s.broken || !s.allTerminal() {
		return
	}
	// descriptors must be released by the code itself, not by a finalizer
	fdsBeforeGC := arenaFDs(s.root)
	runFinalizers()
	s.r.Case("quiescent "+s.witness(), true)
	if !s.quiet {
		s.r.Count("oracle:quiescent-check")
		s.r.Count("scenario:tasks=" + bucket(len(s.tasks)))
	}
	keys := s.arena.ArenaKeysForVerif()
	orphans := 0
	for _, key := range keys {
		k := s.keyIdx[key]
		c, open := libindex.RcStateForVerif(s.arena.ArenaEntryForVerif(key))
		if c == 0 && open && s.orphaned[k] {
			// exactly the listed finding: the flight stored a file after its last waiter left
			orphans++
			s.fail("orphan-after-cancel", fmt.Sprintf("arena-keeps-key=%d count=0 file-open after every user is done", k))
			continue
		}
		s.fail("", fmt.Sprintf("arena-not-empty-after-all-closed key=%d count=%d open=%v", k, c, open))
	}
	s.mu.Lock()
	for k, gs := range s.gens {
		for i, x := range gs {
			c, open := libindex.RcStateForVerif(x)
			if (c != 0 || open) && !(s.orphaned[k] && c == 0 && x == s.arena.ArenaEntryForVerif(s.srv.layers[k].digest)) {
				s.fail("", fmt.Sprintf("rc-not-released-after-all-closed key=%d gen=%d count=%d open=%v", k, i, c, open))
			}
		}
	}
	s.mu.Unlock()
	if n := arenaFDs(s.root); n != orphans {
		s.fail("", fmt.Sprintf("open-descriptors-into-arena-after-all-closed n=%d expected=%d", n, orphans))
	} else if fdsBeforeGC != orphans {
		s.fail("", fmt.Sprintf("descriptors-into-arena-released-only-by-the-garbage-collector before-gc=%d after-gc=%d", fdsBeforeGC, n))
	}
	if n := dirEntries(s.root); n != 0 {
		s.fail("", fmt.Sprintf("files-left-in-arena-dir n=%d", n))
	}
}

func (s *sched) teardown() {
	s.abandon.Store(true)
	for _, t := range s.tasks {
		t.cancel()
		if t.at != nil {
			s.releaseTask(t)
		}
	}
	for _, f := range s.flights {
		if f.at != nil {
			s.releaseFlight(f)
		}
	}
	// release whatever arrives late, wait for the task goroutines
	deadline := time.After(3 * time.Second)
	pending := 0
	for _, t := range s.tasks {
		if !t.finished {
			pending++
		}
	}
	for pending > 0 {
		select {
		case p := <-s.arrive:
			close(p.rel)
		case d := <-s.doneCh:
			d.t.finished, d.t.err = true, d.err
			pending--
		case <-deadline:
			pending = 0
		}
	}
	for _, t := range s.tasks {
		if t.cl != nil && t.st != "closed" && t.finished && t.err == nil {
			hx.Guard(func() string { t.cl.Close(); return "" })
		}
	}
	verifhook.Install(nil)
	for {
		select {
		case p := <-s.arrive:
			close(p.rel)
			continue
		default:
		}
		break
	}
	s.srv.close()
	os.RemoveAll(s.root)
}

// randomScenario runs one seeded schedule.
func randomScenario(r *hx.Run, rnd *hx.Rand, layers []*layer, maxTasks, maxSteps int) {
	s, err := newSched(r, layers)
	if err != nil {
		r.Fail("", "cannot-create-arena "+err.Error())
		return
	}
	r.Op("reset", "ok", false)
	nkeys := 1 + rnd.Intn(3)
	cancelled := false
	allowCancel := rnd.Chance(1, 3)
	for step := 0; !s.broken && !r.Stop(); step++ {
		drain := step >= maxSteps || len(s.tasks) >= maxTasks
		cs := s.enabled(rnd, step >= maxSteps)
		if !drain || (len(cs) == 0 && len(s.tasks) < maxTasks && step < maxSteps) {
			cs = append(cs, choice{12, func() {
				k := rnd.Intn(nkeys)
				if rnd.Chance(1, 12) {
					k = len(layers) - 1 // the blob that is not a tar archive
				}
				s.spawn(k, rnd.Chance(1, 15))
			}, "spawn"})
		}
		if len(cs) == 0 {
			break
		}
		if !drain && rnd.Chance(1, 40) {
			s.gc(rnd.Intn(nkeys))
			continue
		}
		if !allowCancel {
			var keep []choice
			for _, c := range cs {
				if c.tag != "cancel" {
					keep = append(keep, c)
				}
			}
			cs = keep
			if len(cs) == 0 {
				break
			}
		}
		c := pick(rnd, cs)
		if c.tag == "cancel" {
			cancelled = true
		}
		c.run()
	}
	s.finish(cancelled)
}
