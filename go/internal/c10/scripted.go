package c10

import (
	"context"
	"fmt"
	"io"
	"os"
	"runtime"
	"sort"
	"strings"
	"sync"
	"sync/atomic"
	"time"
	"unsafe"

	"github.com/quay/claircore"
	"github.com/quay/claircore/internal/verifhook"
	"github.com/quay/claircore/libindex"
	"github.com/quay/claircore/verifharness/internal/hx"
)

// park is one goroutine stopped at a verifhook point.
type park struct {
	site string
	key  int
	gid  int64
	ptr  *byte // data pointer of the key string: identifies the LayerDescription the closure was made for
	rel  chan struct{}
}

// task is one fetchInto closure: one user asking for one layer. A bare task is run by the
// harness through FetchIntoForVerif; a proxy task is run by the errgroup of a
// RealizeDescriptions call.
type task struct {
	id        int
	key       int
	badURI    bool
	alt       bool // asks for the layer under its second URI
	ctx       context.Context
	cancel    context.CancelFunc
	layer     *claircore.Layer
	cl        io.Closer
	desc      claircore.LayerDescription
	gid       int64
	at        *park
	st        string // unborn enter waiting got reffed valok stale holding failed closed
	finished  bool
	err       error
	gen       int    // which rc of its key the flight handed to the task (-1: none)
	call      *pcall // the RealizeDescriptions call this closure belongs to (nil: bare)
	idx       int
	cancelled bool
}

// pcall is one RealizeDescriptions call in progress (the mirror of the model's Call).
type pcall struct {
	px     *proxy
	keys   []int
	bad    []bool
	descs  []claircore.LayerDescription
	limit  int
	tasks  []*task
	dead   bool
	cancel context.CancelFunc
	early  map[int]*park // closures that reached DoChan before the mirror expected them
	result *realizeRes
}

type realizeRes struct {
	call *pcall
	ls   []claircore.Layer
	err  error
	out  string
}

// proxy is one FetchProxy.
type proxy struct {
	id         int
	fp         *libindex.FetchProxy
	cleanup    []*task
	call       *pcall
	used       bool
	closedIdle bool // a Close with nothing to close has been tried since the last call
}

// keptLayers keeps every Layer a RealizeDescriptions call returned reachable: a Layer that
// is collected without Close panics in its finalizer (by design), which would take the
// harness down with it when a scenario is abandoned half-way.
var (
	keptMu     sync.Mutex
	keptLayers [][]claircore.Layer
)

type descRef struct {
	t    *task
	call *pcall
	idx  int
}

type flightSt struct {
	at       *park
	leader   int
	resultOK bool
	gensAt   int // len(gens[k]) when the flight began
	gid      int64
	reqOpen  bool // the request is at the server, the transfer has not ended (freq .. fbody)
	unasked  bool // every waiter had left before the body was received, yet the transfer went on
	asked    bool // somebody was still waiting for the flight when the body had been received
	resGen   int  // index of the rc the flight returns
}

type taskDone struct {
	t   *task
	err error
}

// sched is the controlled scheduler of one scripted scenario.
type sched struct {
	r        *hx.Run
	arena    *libindex.RemoteFetchArena
	root     string
	srv      *server
	keyIdx   map[string]int
	tasks    []*task
	proxies  []*proxy
	flights  map[int]*flightSt
	arrive   chan *park
	doneCh   chan taskDone
	realized chan *realizeRes
	abandon  atomic.Bool
	mu       sync.Mutex // gens, ginos: touched by hooks on other goroutines
	byPtr    map[*byte]*descRef
	known    sync.Map // *byte -> true: the descriptions of this scenario (read by hooks on any goroutine)
	gens     map[int][]any
	ginos    map[int][]uint64
	detached map[any]bool // rcs whose file was open when the arena was Closed
	ops      []string
	orphaned map[int]bool // keys whose flight delivered an rc to nobody
	atServer map[int]bool // a stalled request for the key is waiting at the server
	broken   bool
	quiet    bool // replaying a corpus script: same protocol, counted separately
	cur      string
	raceGid  atomic.Int64 // goroutine whose Close is to be stopped at c10.done
	raceCh   chan *park
	aclosed  bool
}

func newSched(r *hx.Run, layers []*layer) (*sched, error) {
	root, err := os.MkdirTemp("", "c10-arena-")
	if err != nil {
		return nil, err
	}
	s := &sched{r: r, root: root, keyIdx: map[string]int{}, flights: map[int]*flightSt{}, arrive: make(chan *park, 1024),
		doneCh: make(chan taskDone, 1024), realized: make(chan *realizeRes, 64), raceCh: make(chan *park, 4), byPtr: map[*byte]*descRef{},
		gens: map[int][]any{}, ginos: map[int][]uint64{}, detached: map[any]bool{}, orphaned: map[int]bool{}, atServer: map[int]bool{}}
	s.srv = newServer(layers)
	for _, l := range layers {
		s.keyIdx[l.digest] = l.idx
	}
	s.arena = libindex.NewRemoteFetchArena(s.srv.ts.Client(), root)
	verifhook.Install(s.hook)
	return s, nil
}

func (s *sched) hook(site, key string) {
	if !strings.HasPrefix(site, "c10.") {
		return
	}
	k, ok := s.keyIdx[key]
	if !ok {
		return
	}
	// a flight of an earlier, abandoned scenario may still be running (another arena, another
	// server): it is none of this scheduler's business
	if _, ok := s.known.Load(unsafe.StringData(key)); !ok {
		return
	}
	if site == "c10.flight.stored" {
		e := s.arena.ArenaEntryForVerif(key)
		if e == nil {
			return
		}
		_, ino := libindex.RcInodeForVerif(e)
		s.mu.Lock()
		s.gens[k] = append(s.gens[k], e)
		s.ginos[k] = append(s.ginos[k], ino)
		s.mu.Unlock()
		return
	}
	if s.abandon.Load() {
		return
	}
	if site == "c10.done" {
		// the cleanup callback of an rc whose count has just reached zero. It runs on
		// whatever goroutine released the last reference (the scheduler's own for a
		// plain close): only the closer of a closerace stops here.
		if g := s.raceGid.Load(); g == 0 || g != hx.GoID() {
			return
		}
		p := &park{site: site, key: k, gid: hx.GoID(), rel: make(chan struct{})}
		s.raceCh <- p
		<-p.rel
		return
	}
	p := &park{site: site, key: k, gid: hx.GoID(), ptr: unsafe.StringData(key), rel: make(chan struct{})}
	s.arrive <- p
	<-p.rel
}

// witness is the schedule so far, including the operation in progress, in the
// grammar of the corpus scripts.
func (s *sched) witness() string {
	ops := s.ops
	if s.cur != "" {
		ops = append(append([]string(nil), ops...), s.cur)
	}
	return "schedule=" + strings.Join(ops, ";")
}

func (s *sched) fail(class, what string) {
	if class == "" {
		stopCollecting()
	}
	s.r.Fail(class, what+" "+s.witness())
}

func (s *sched) place(p *park) {
	if strings.HasPrefix(p.site, "c10.flight.") {
		f := s.flights[p.key]
		if f == nil {
			s.mu.Lock()
			n := len(s.gens[p.key])
			s.mu.Unlock()
			f = &flightSt{leader: -1, gensAt: n}
			s.flights[p.key] = f
		}
		f.at = p
		return
	}
	ref := s.byPtr[p.ptr]
	if ref == nil {
		s.fail("", "hook-from-unknown-closure site="+p.site)
		close(p.rel)
		return
	}
	t := ref.t
	if t == nil {
		if ref.idx < len(ref.call.tasks) {
			t = ref.call.tasks[ref.idx]
		} else {
			// g.Go started this description before the mirror got to it
			ref.call.early[ref.idx] = p
			return
		}
	}
	t.at = p
	t.gid = p.gid
}

// fin reports whether the closure of t has returned. A bare task says so itself; a closure
// run by an errgroup has returned (and the group has seen its error and released its slot)
// when its goroutine is gone.
func (s *sched) fin(t *task) bool {
	if t.finished {
		return true
	}
	if t.call == nil || t.at != nil || t.gid == 0 {
		return false
	}
	if goState(t.gid) == "" {
		t.finished = true
	}
	return t.finished
}

// pump processes arrivals until cond holds.
func (s *sched) pump(what string, cond func() bool) bool {
	if s.broken {
		return false
	}
	deadline := time.Now().Add(30 * time.Second)
	for !cond() {
		select {
		case p := <-s.arrive:
			s.place(p)
		case d := <-s.doneCh:
			d.t.finished, d.t.err = true, d.err
		case k := <-s.srv.arrived:
			s.atServer[k] = true
		case res := <-s.realized:
			res.call.result = res
		case <-time.After(50 * time.Microsecond):
			if time.Now().After(deadline) {
				s.fail("", "no-progress waiting-for="+what)
				s.broken = true
				return false
			}
		}
	}
	return true
}

func (s *sched) releaseTask(t *task) {
	p := t.at
	t.at = nil
	close(p.rel)
}

func (s *sched) releaseFlight(f *flightSt) {
	p := f.at
	f.at = nil
	close(p.rel)
}

// fdEnt is one descriptor of this process that points into the arena directory.
type fdEnt struct {
	ino   uint64
	write bool
}

// world renders everything that can be observed of the arena: per key the rcs that are
// alive, the arena entry and the server's request count; the descriptors into the arena
// directory by kind; the proxies. The Lean driver prints the same from the model state.
// It also returns the descriptor counts (temp files of rcs, temp files not stored yet,
// private read-only descriptors).
func (s *sched) world() (string, [3]int) {
	fds := scanFDs(s.root)
	var parts []string
	openInos := map[uint64]bool{}
	for k := range s.srv.layers {
		s.mu.Lock()
		gens := append([]any(nil), s.gens[k]...)
		inos := append([]uint64(nil), s.ginos[k]...)
		s.mu.Unlock()
		cells := []string{fmt.Sprintf("k%d n%d", k, len(gens))}
		for i, x := range gens {
			c, open := libindex.RcStateForVerif(x)
			if c == 0 && !open {
				continue
			}
			o, rd := "x", 0
			if open {
				o = "o"
				openInos[inos[i]] = true
				for _, f := range fds {
					if !f.write && f.ino == inos[i] {
						rd++
					}
				}
			}
			cells = append(cells, fmt.Sprintf("g%d:c%d:%s:r%d", i, c, o, rd))
		}
		a := "-"
		if e := s.arena.ArenaEntryForVerif(s.srv.layers[k].digest); e != nil {
			a = "?"
			for i, x := range gens {
				if x == e {
					a = fmt.Sprint(i)
				}
			}
		}
		cells = append(cells, "a="+a, fmt.Sprintf("h=%d", s.srv.hits[k].Load()))
		parts = append(parts, strings.Join(cells, " "))
	}
	var n [3]int
	for _, f := range fds {
		switch {
		case !f.write:
			n[2]++
		case openInos[f.ino]:
			n[0]++
		default:
			n[1]++
		}
	}
	parts = append(parts, fmt.Sprintf("fd w=%d t=%d r=%d", n[0], n[1], n[2]))
	var px []string
	for _, p := range s.proxies {
		if c := p.call; c != nil {
			d := "r"
			if c.dead {
				d = "d"
			}
			px = append(px, fmt.Sprintf("%s%d/%d+%d", d, len(c.tasks), len(c.keys), len(p.cleanup)))
		} else {
			px = append(px, fmt.Sprintf("i%d", len(p.cleanup)))
		}
	}
	if len(px) == 0 {
		px = []string{"-"}
	}
	parts = append(parts, "px "+strings.Join(px, " "))
	return strings.Join(parts, " | "), n
}

// readersOf counts the read-only descriptors on the file of the rc a task was handed.
func (s *sched) readersOf(t *task) int {
	s.mu.Lock()
	inos := s.ginos[t.key]
	s.mu.Unlock()
	if t.gen < 0 || t.gen >= len(inos) {
		return -1
	}
	n := 0
	for _, f := range scanFDs(s.root) {
		if !f.write && f.ino == inos[t.gen] {
			n++
		}
	}
	return n
}

func (s *sched) genIndex(k int, x any) int {
	s.mu.Lock()
	defer s.mu.Unlock()
	for i, g := range s.gens[k] {
		if g == x {
			return i
		}
	}
	return -1
}

func (s *sched) genOf(t *task) any {
	s.mu.Lock()
	defer s.mu.Unlock()
	gs := s.gens[t.key]
	if t.gen < 0 || t.gen >= len(gs) {
		return nil
	}
	return gs[t.gen]
}

// lastHolder reports whether the holding task a owns the only reference on its rc.
func (s *sched) lastHolder(a *task) bool {
	g := s.genOf(a)
	if g == nil {
		return false
	}
	c, _ := libindex.RcStateForVerif(g)
	return c == 1
}

// closeRace is a Close of the last holder `a` racing with the Ref of a task `b` that was
// handed the same rc: the closer is stopped at the start of the rc's cleanup callback (the
// count has just reached zero, the key is not yet forgotten, the file not yet closed) and b's
// Ref is released. The code runs that callback inside rc.dec's critical section, so b must
// block on the rc mutex until the release is complete (protocol order: close a, ref b, b sees
// a dead rc). If b's Ref gets through instead, the release was not atomic; the scenario then
// asks for the layer once more to see whether it is downloaded while b holds it.
func (s *sched) closeRace(a, b *task) {
	s.cur = fmt.Sprintf("closerace %d %d", a.id, b.id)
	if !s.quiet {
		s.r.Count("op:closerace")
	}
	done := make(chan error, 1)
	started := make(chan struct{})
	go func() {
		s.raceGid.Store(hx.GoID())
		close(started)
		var err error
		if hx.Guard(func() string { err = a.cl.Close(); return "" }) == "panic" {
			err = fmt.Errorf("panic in Close")
		}
		done <- err
	}()
	<-started
	closeErr := func(err error) string {
		a.st = "closed"
		if err != nil {
			s.fail("", fmt.Sprintf("close-of-task%d-failed err=%v", a.id, err))
			return "closeerr"
		}
		return "closed"
	}
	// both halves have completed: one protocol line for the pair
	pairLine := func(err error) {
		out := closeErr(err)
		b.st = "reffed"
		s.emitAs(fmt.Sprintf("closeref %d %d", a.id, b.id), fmt.Sprintf("closerace %d %d", a.id, b.id), out+" ref")
	}
	var rp *park
	select {
	case rp = <-s.raceCh:
	case err := <-done:
		// the count did not reach zero: an ordinary close
		s.raceGid.Store(0)
		out := closeErr(err)
		s.emit(fmt.Sprintf("close %d", a.id), out)
		return
	case <-time.After(30 * time.Second):
		s.raceGid.Store(0)
		s.fail("", "no-progress closer-neither-returned-nor-reached-the-cleanup-callback")
		s.broken = true
		return
	}
	s.raceGid.Store(0)
	s.releaseTask(b)
	// b either gets through Ref (parks at c10.reffed) or blocks on the rc mutex
	through := false
	deadline := time.Now().Add(30 * time.Second)
	for {
		select {
		case p := <-s.arrive:
			s.place(p)
		default:
		}
		if b.at != nil {
			through = true
			break
		}
		if st := goState(b.gid); st == "sync.Mutex.Lock" || st == "semacquire" {
			break
		}
		if time.Now().After(deadline) {
			close(rp.rel)
			<-done
			s.fail("", fmt.Sprintf("no-progress task%d-neither-took-its-reference-nor-blocked-on-the-rc-lock", b.id))
			s.broken = true
			return
		}
		time.Sleep(20 * time.Microsecond)
	}
	if !through {
		if !s.quiet {
			s.r.Count("branch:ref-waits-for-the-release-in-progress")
		}
		close(rp.rel)
		err := <-done
		if s.pump("reffed", func() bool { return b.at != nil || s.fin(b) }) && b.at != nil && b.at.site == "c10.reffed" {
			pairLine(err)
		} else if !s.broken {
			s.fail("", fmt.Sprintf("task%d-did-not-take-its-reference-after-the-release", b.id))
			s.broken = true
		}
		return
	}
	// the reference was taken in the middle of the release
	if !s.quiet {
		s.r.Count("branch:ref-inside-a-release")
	}
	close(rp.rel)
	pairLine(<-done)
	// does the arena still know the file b now holds? ask for the layer once more
	s.val(b)
	if b.st != "valok" {
		return
	}
	s.initTask(b)
	if b.st != "holding" || s.broken {
		return
	}
	c := s.spawn(b.key, false)
	if s.broken || c.st != "enter" {
		return
	}
	s.enter(c)
	if f := s.flights[b.key]; !s.broken && f != nil && f.at != nil && f.at.site == "c10.flight.begin" {
		s.fload(b.key)
		if f.at != nil && f.at.site == "c10.flight.miss" && !s.broken {
			s.fnet(b.key, true, srvOK)
		}
	}
}

// emit ends an operation: what the errgroups do as a consequence is waited for, then the
// protocol line is written with the observable state of the whole arena.
func (s *sched) emit(line string, outcome string) { s.emitAs(line, line, outcome) }

func (s *sched) emitAs(line, witness, outcome string) {
	s.settle()
	s.cur = ""
	s.ops = append(s.ops, witness)
	w, n := s.world()
	s.r.Op(line, outcome+" | "+w, true)
	if !s.quiet {
		s.r.Count("op:" + strings.Fields(line)[0] + "=" + strings.Fields(outcome)[0])
	}
	if !s.broken {
		s.fdCheck(n)
		s.refCheck()
	}
}

// refCheck is the counting half of the statement at every step: the count of every rc is
// the number of tasks that have taken a reference on it and not given it up.
func (s *sched) refCheck() {
	want := map[any]int{}
	for _, t := range s.tasks {
		switch t.st {
		case "reffed", "valok", "stale", "holding":
			if g := s.genOf(t); g != nil {
				want[g]++
			}
		}
	}
	s.mu.Lock()
	defer s.mu.Unlock()
	for k, gs := range s.gens {
		for i, x := range gs {
			if c, _ := libindex.RcStateForVerif(x); c != want[x] {
				s.r.Fail("", fmt.Sprintf("reference-count-of-key=%d gen=%d is=%d references-taken-and-not-closed=%d %s", k, i, c, want[x], s.witness()))
				stopCollecting()
				return
			}
		}
	}
}

// fdCheck is the descriptor half of the statement at every step: the arena directory is
// referenced by one write descriptor per rc whose file is open, one per flight between
// openTemp and its end, and one read-only descriptor per task past Val - nothing else.
func (s *sched) fdCheck(n [3]int) {
	tmp := 0
	for _, f := range s.flights {
		if f.reqOpen || (f.at != nil && f.at.site == "c10.flight.fetched") {
			tmp++
		}
	}
	rd := 0
	for _, t := range s.tasks {
		if t.st == "valok" || t.st == "holding" {
			rd++
		}
	}
	open := 0
	s.mu.Lock()
	for _, gs := range s.gens {
		for _, x := range gs {
			if _, o := libindex.RcStateForVerif(x); o {
				open++
			}
		}
	}
	s.mu.Unlock()
	if !s.quiet {
		s.r.Count("oracle:descriptor-accounting")
	}
	switch {
	case n[1] != tmp:
		s.fail("", fmt.Sprintf("temp-file-descriptors-not-stored-in-the-arena observed=%d flights-with-an-open-temp-file=%d", n[1], tmp))
	case n[2] != rd:
		s.fail("", fmt.Sprintf("read-only-descriptors-into-the-arena observed=%d tasks-past-Val=%d", n[2], rd))
	case n[0] != open:
		s.fail("", fmt.Sprintf("write-descriptors-of-stored-files observed=%d open-rcs=%d", n[0], open))
	}
}

// ---- the errgroup mirror

func (c *pcall) running() int {
	n := 0
	for _, t := range c.tasks {
		if t.st != "holding" && t.st != "failed" && t.st != "closed" {
			n++
		}
	}
	return n
}

// settle waits for what the errgroup of every running RealizeDescriptions call does given
// the state of its closures (the model's `settle`): siblings of a failed closure leave the
// select through ctx.Done, g.Go starts the next descriptions, g.Wait returns.
func (s *sched) settle() {
	for _, px := range s.proxies {
		c := px.call
		if c == nil || s.broken {
			continue
		}
		for _, t := range c.tasks {
			if t.st == "failed" {
				c.dead = true
			}
		}
		if c.dead {
			for _, t := range c.tasks {
				if t.st != "waiting" || s.broken {
					continue
				}
				// the group's context is cancelled: the closure leaves the select by itself
				if s.pump("sibling-leaves-through-ctx.Done", func() bool { return t.at != nil || s.fin(t) }) && t.at != nil && t.at.site == "c10.ctxdone" {
					s.releaseTask(t)
					s.pump("sibling-returns", func() bool { return s.fin(t) })
					if !s.quiet {
						s.r.Count("branch:sibling-cancelled-by-its-errgroup")
					}
				} else if !s.broken {
					s.fail("", fmt.Sprintf("task%d-of-a-cancelled-group-did-not-leave-the-select", t.id))
					s.broken = true
				}
				t.st = "failed"
				s.leaderGone(t)
			}
		}
		for len(c.tasks) < len(c.keys) && c.running() < c.limit && !s.broken {
			idx := len(c.tasks)
			t := &task{id: len(s.tasks), key: c.keys[idx], badURI: c.bad[idx], gen: -1, call: c, idx: idx, st: "unborn"}
			s.tasks = append(s.tasks, t)
			c.tasks = append(c.tasks, t)
			if p := c.early[idx]; p != nil {
				delete(c.early, idx)
				t.at, t.gid = p, p.gid
			}
			if s.pump("g.Go-starts-the-next-description", func() bool { return t.at != nil }) && t.at.site == "c10.enter" {
				t.st = "enter"
				if c.dead && !s.quiet {
					s.r.Count("branch:closure-started-under-a-cancelled-group")
				}
			} else if !s.broken {
				s.fail("", fmt.Sprintf("closure-%d-of-proxy%d-did-not-reach-DoChan", idx, px.id))
				s.broken = true
			}
		}
		if len(c.tasks) != len(c.keys) || c.running() != 0 || s.broken {
			continue
		}
		// every closure has returned: g.Wait returns
		if !s.pump("RealizeDescriptions-returns", func() bool { return c.result != nil }) {
			continue
		}
		failed := false
		for _, t := range c.tasks {
			if t.st == "failed" {
				failed = true
			}
		}
		res := c.result
		px.call = nil
		switch {
		case res.out == "panic":
			s.fail("", fmt.Sprintf("RealizeDescriptions-of-proxy%d-panicked", px.id))
		case failed && res.err == nil:
			s.fail("", fmt.Sprintf("RealizeDescriptions-of-proxy%d-succeeded-although-a-layer-failed", px.id))
		case !failed && res.err != nil:
			s.fail("", fmt.Sprintf("RealizeDescriptions-of-proxy%d-failed-although-every-layer-was-fetched err=%v", px.id, res.err))
		}
		if failed {
			// the handles of the closures that succeeded were closed by RealizeDescriptions
			for _, t := range c.tasks {
				if t.st == "holding" {
					t.st = "closed"
				}
			}
			if !s.quiet {
				s.r.Count("branch:realize-failed tasks=" + bucket(len(c.tasks)))
			}
			continue
		}
		if !s.quiet {
			s.r.Count("branch:realize-succeeded tasks=" + bucket(len(c.tasks)))
			if len(px.cleanup) > 0 {
				s.r.Count("branch:realize-again-without-close")
			}
		}
		px.cleanup = append(px.cleanup, c.tasks...)
		if res.err == nil && len(res.ls) == len(c.tasks) {
			for i, t := range c.tasks {
				t.layer = &res.ls[i]
				s.read(t, "after-realize")
			}
		}
	}
}

// ---- the operations: each releases exactly one atomic section of the real code

func (s *sched) spawn(k int, badURI bool) *task { return s.spawnAt(k, badURI, false) }

func (s *sched) spawnAt(k int, badURI, alt bool) *task {
	ctx, cancel := context.WithCancel(context.Background())
	t := &task{id: len(s.tasks), key: k, badURI: badURI, alt: alt, ctx: ctx, cancel: cancel, layer: new(claircore.Layer), gen: -1}
	t.desc = s.srv.desc(k, badURI)
	if alt && !badURI {
		t.desc.URI = s.srv.altURI(k)
		if !s.quiet {
			s.r.Count("branch:same-digest-under-a-second-uri")
		}
	}
	s.byPtr[unsafe.StringData(t.desc.Digest)] = &descRef{t: t}
	s.known.Store(unsafe.StringData(t.desc.Digest), true)
	s.tasks = append(s.tasks, t)
	do := s.arena.FetchIntoForVerif(ctx, t.layer, &t.cl, &t.desc)
	go func() {
		var err error
		out := hx.Guard(func() string { err = do(); return "" })
		if out == "panic" {
			err = fmt.Errorf("panic in fetchInto")
		}
		s.doneCh <- taskDone{t, err}
	}()
	if s.pump("spawn", func() bool { return t.at != nil || t.finished }) && t.at != nil && t.at.site == "c10.enter" {
		t.st = "enter"
	} else if !s.broken {
		s.fail("", "task-did-not-reach-DoChan")
		s.broken = true
	}
	s.emit(fmt.Sprintf("spawn %d", k), fmt.Sprintf("task %d", t.id))
	if badURI {
		s.ops[len(s.ops)-1] += " baduri" // the witness is a replayable script
	} else if alt {
		s.ops[len(s.ops)-1] += " alt"
	}
	return t
}

func (s *sched) waitBlocked(t *task) bool {
	deadline := time.Now().Add(30 * time.Second)
	for {
		st := goState(t.gid)
		if st == "select" {
			return true
		}
		if time.Now().After(deadline) {
			s.fail("", fmt.Sprintf("task-%d-not-blocked-in-select state=%q", t.id, st))
			s.broken = true
			return false
		}
		time.Sleep(20 * time.Microsecond)
	}
}

func (s *sched) waitGone(gid int64) {
	deadline := time.Now().Add(30 * time.Second)
	for goState(gid) != "" {
		if time.Now().After(deadline) {
			s.fail("", "flight-goroutine-did-not-finish")
			s.broken = true
			return
		}
		time.Sleep(20 * time.Microsecond)
	}
}

func (s *sched) enter(t *task) {
	s.cur = fmt.Sprintf("enter %d", t.id)
	k := t.key
	had := s.flights[k] != nil
	s.releaseTask(t)
	out := "join"
	if !had {
		out = "lead"
		if s.pump("flight.begin", func() bool { return s.flights[k] != nil && s.flights[k].at != nil }) {
			s.flights[k].leader = t.id
		}
	}
	if !s.broken {
		if t.call != nil && t.call.dead {
			// the group's context is dead already: the select is left at once (settle sees to it)
			s.pump("ctx.Done-of-a-dead-group", func() bool { return t.at != nil || s.fin(t) })
		} else {
			s.waitBlocked(t)
		}
	}
	t.st = "waiting"
	s.emit(fmt.Sprintf("enter %d", t.id), out)
}

func (s *sched) flightStep(k int) string {
	f := s.flights[k]
	s.releaseFlight(f)
	if !s.pump("flight-next-point", func() bool { return f.at != nil }) {
		return "stuck"
	}
	return strings.TrimPrefix(f.at.site, "c10.flight.")
}

func (s *sched) fload(k int) {
	s.cur = fmt.Sprintf("fload %d", k)
	f := s.flights[k]
	valid := f.leader >= 0 && !s.tasks[f.leader].badURI
	site := s.flightStep(k)
	out := site
	switch site {
	case "hit":
		f.resultOK = true
		f.resGen = s.genIndex(k, s.arena.ArenaEntryForVerif(s.srv.layers[k].digest))
	case "miss":
	case "end":
		out = "invalid"
	}
	s.emit(fmt.Sprintf("fload %d %s", k, b01(valid)), out)
}

func (s *sched) fnet(k int, ok bool, mode int32) {
	s.cur = fmt.Sprintf("fnet %d %s", k, b01(ok))
	before := s.srv.hits[k].Load()
	s.srv.mode[k].Store(mode)
	if f := s.flights[k]; !s.quiet && f != nil && f.leader >= 0 && s.tasks[f.leader].st == "failed" {
		s.r.Count("branch:request-under-a-cancelled-leader")
	}
	if !s.quiet && !ok {
		s.r.Count(fmt.Sprintf("fault:server-mode=%s", srvModeName(mode)))
	}
	site := s.flightStep(k)
	out := "neterr"
	if site == "fetched" {
		out = "fetched"
		s.noteAsked(k)
	}
	s.heldCheck(k, before)
	s.emit(fmt.Sprintf("fnet %d %s", k, b01(ok)), out)
	if mode != srvOK && mode != srv500 {
		s.ops[len(s.ops)-1] += fmt.Sprintf(" mode=%d", mode)
	}
}

// ftmpfail: openTemp fails (the arena directory is not there at that moment).
func (s *sched) ftmpfail(k int) {
	s.cur = fmt.Sprintf("ftmpfail %d", k)
	before := s.srv.hits[k].Load()
	away := s.root + ".away"
	if err := os.Rename(s.root, away); err != nil {
		s.fail("", "cannot-move-the-arena-directory "+err.Error())
		s.broken = true
		return
	}
	site := s.flightStep(k)
	os.Rename(away, s.root)
	out := "tmperr"
	if site != "end" {
		out = "unexpected-" + site
	}
	if s.srv.hits[k].Load() != before {
		out = "requested-without-a-temp-file"
	}
	s.emit(fmt.Sprintf("ftmpfail %d", k), out)
}

// noteAsked records, when the body of key k has been received, whether anybody still waits
// for the flight (the finding orphan-after-cancel is about waiters that leave after this point).
func (s *sched) noteAsked(k int) {
	f := s.flights[k]
	for _, t := range s.tasks {
		if t.key == k && t.st == "waiting" {
			f.asked = true
		}
	}
}

// heldCheck is the statement: no download of a layer somebody is holding (unless the whole
// arena was Closed under the holder, which is documented to forget its files).
func (s *sched) heldCheck(k int, before int64) {
	if s.srv.hits[k].Load() != before {
		for _, t := range s.tasks {
			if t.key == k && t.st == "holding" && !s.detached[s.genOf(t)] {
				s.fail("", fmt.Sprintf("download-while-held key=%d holder=task%d", k, t.id))
				break
			}
		}
	}
}

// freq: the request leaves and reaches a server that stalls (before the
// headers or in the middle of the body) until fbody.
func (s *sched) freq(k int, where int32) {
	s.cur = fmt.Sprintf("freq %d", k)
	if where == stallMidBody {
		s.cur += " midbody"
	}
	f := s.flights[k]
	before := s.srv.hits[k].Load()
	s.srv.armStall(k, where)
	delete(s.atServer, k)
	s.releaseFlight(f)
	out := "requested"
	s.pump("request-at-server", func() bool { return s.atServer[k] || f.at != nil })
	if f.at != nil {
		out = "neterr" // the leader's context was dead: nothing was sent
		s.srv.openGate(k)
	} else {
		f.reqOpen = true
	}
	s.heldCheck(k, before)
	if !s.quiet {
		s.r.Count(fmt.Sprintf("branch:stall-point=%d", where))
	}
	s.emit(fmt.Sprintf("freq %d", k), out)
	if where == stallMidBody {
		s.ops[len(s.ops)-1] += " midbody"
	}
}

// fbody: the stalled transfer ends, with the right bytes or in failure.
func (s *sched) fbody(k int, srvOK bool, mode int32) {
	s.cur = fmt.Sprintf("fbody %d %s", k, b01(srvOK))
	f := s.flights[k]
	s.srv.mode[k].Store(mode)
	s.srv.openGate(k)
	f.reqOpen = false
	out := "neterr"
	if s.pump("transfer-ends", func() bool { return f.at != nil }) && f.at.site == "c10.flight.fetched" {
		out = "fetched"
		s.noteAsked(k)
	}
	s.emit(fmt.Sprintf("fbody %d %s", k, b01(srvOK)), out)
}

func (s *sched) fstore(k int) {
	s.cur = fmt.Sprintf("fstore %d", k)
	f := s.flights[k]
	s.flightStep(k)
	s.mu.Lock()
	n := len(s.gens[k])
	s.mu.Unlock()
	out := "double"
	if n > f.gensAt {
		out = "stored"
		f.resultOK = true
		f.resGen = n - 1
	}
	s.emit(fmt.Sprintf("fstore %d", k), out)
}

func (s *sched) fend(k int) {
	s.cur = fmt.Sprintf("fend %d", k)
	f := s.flights[k]
	for {
		last := f.at.site == "c10.flight.end"
		f.gid = f.at.gid
		s.releaseFlight(f)
		if last {
			break
		}
		if !s.pump("flight.end", func() bool { return f.at != nil }) {
			break
		}
	}
	// singleflight forgets the key and hands out the result on this goroutine
	// after fetchUnlinkedFile returned; it is done when the goroutine is gone
	s.waitGone(f.gid)
	delete(s.flights, k)
	var ws []*task
	for _, t := range s.tasks {
		if t.key == k && t.st == "waiting" {
			ws = append(ws, t)
		}
	}
	s.pump("waiters-wake", func() bool {
		for _, t := range ws {
			if t.at == nil && !s.fin(t) {
				return false
			}
		}
		return true
	})
	res := "err"
	if f.resultOK {
		res = "rc"
		if len(ws) == 0 && !f.unasked && f.asked {
			// the shape of finding orphan-after-cancel: the last waiter left after the body
			// had been received (on the unchanged code a transfer whose last waiter leaves
			// earlier fails with that waiter's context)
			s.orphaned[k] = true
		}
	}
	if !s.quiet {
		s.r.Count(fmt.Sprintf("branch:flight-ends %s waiters=%s", res, bucket(len(ws))))
	}
	for _, t := range ws {
		if s.broken {
			break
		}
		if t.at == nil || t.at.site != "c10.got" {
			s.fail("", fmt.Sprintf("waiter-task%d-did-not-receive-the-flight-result", t.id))
			s.broken = true
			break
		}
		if f.resultOK {
			t.st = "got"
			t.gen = f.resGen
			continue
		}
		// an error result: the task returns it
		s.releaseTask(t)
		s.pump("task-returns-error", func() bool { return s.fin(t) || t.at != nil })
		if !t.finished || (t.call == nil && t.err == nil) {
			s.fail("", fmt.Sprintf("task%d-continued-after-a-failed-flight", t.id))
			s.broken = true
			break
		}
		t.st = "failed"
	}
	s.emit(fmt.Sprintf("fend %d", k), fmt.Sprintf("ended %d %s", len(ws), res))
}

func (s *sched) cancelTask(t *task) {
	s.cur = fmt.Sprintf("cancel %d", t.id)
	out := "noeffect"
	t.cancel()
	t.cancelled = true
	if t.st != "waiting" && !s.quiet {
		s.r.Count("branch:cancelled-outside-the-select state=" + t.st)
	}
	if t.st == "waiting" {
		out = "cancelled"
		if s.pump("ctx.Done", func() bool { return t.at != nil || t.finished }) && t.at != nil && t.at.site == "c10.ctxdone" {
			s.releaseTask(t)
			s.pump("task-returns", func() bool { return t.finished })
			if t.finished && t.err == nil {
				s.fail("", fmt.Sprintf("cancelled-task%d-returned-nil", t.id))
			}
		} else if !s.broken {
			s.fail("", fmt.Sprintf("cancelled-task%d-did-not-leave-the-select", t.id))
			s.broken = true
		}
		t.st = "failed"
		s.leaderGone(t)
	}
	s.emit(fmt.Sprintf("cancel %d", t.id), out)
}

// pumpFor is pump without a verdict: it reports whether cond came to hold within d.
func (s *sched) pumpFor(d time.Duration, cond func() bool) bool {
	deadline := time.Now().Add(d)
	for !cond() {
		select {
		case p := <-s.arrive:
			s.place(p)
		case dn := <-s.doneCh:
			dn.t.finished, dn.t.err = true, dn.err
		case k := <-s.srv.arrived:
			s.atServer[k] = true
		case res := <-s.realized:
			res.call.result = res
		case <-time.After(50 * time.Microsecond):
			if time.Now().After(deadline) {
				return false
			}
		}
	}
	return true
}

// leaderGone: task t has left through ctx.Done. If it leads a flight whose request is at the
// server (stalled before the headers or in mid-body), that request runs under t's context:
// the transfer fails now and the flight goes on to its end. If instead the transfer stays
// alive, the flight is no longer tied to anybody who waits for it; the scenario then lets
// the server finish, so that what the flight does with the file it was not asked for any
// more (stored with count 0, kept for ever) shows as a concrete failing input.
func (s *sched) leaderGone(t *task) {
	f := s.flights[t.key]
	if f == nil || f.leader != t.id || !f.reqOpen || s.broken {
		return
	}
	if !s.quiet {
		s.r.Count("branch:leader-cancelled-mid-transfer")
	}
	if s.pumpFor(30*time.Second, func() bool { return f.at != nil }) {
		f.reqOpen = false
		s.srv.openGate(t.key)
		return
	}
	waiters := 0
	for _, o := range s.tasks {
		if o.key == t.key && o.st == "waiting" && o != t {
			waiters++
		}
	}
	s.fail("", fmt.Sprintf("transfer-of-key=%d-stays-alive-after-the-context-it-runs-under-was-cancelled-in-mid-transfer waiters-left=%d", t.key, waiters))
	// let the server deliver the rest and see what becomes of the file
	s.srv.mode[t.key].Store(srvOK)
	s.srv.openGate(t.key)
	f.reqOpen = false
	if !s.pumpFor(30*time.Second, func() bool { return f.at != nil }) {
		s.broken = true
		return
	}
	f.unasked = waiters == 0
}

func (s *sched) stepTask(t *task, what string) string {
	s.releaseTask(t)
	if !s.pump(what, func() bool { return t.at != nil || s.fin(t) }) {
		return "stuck"
	}
	if t.finished {
		return "finished"
	}
	return strings.TrimPrefix(t.at.site, "c10.")
}

func bucket(n int) string {
	switch {
	case n <= 2:
		return fmt.Sprint(n)
	case n <= 5:
		return "3-5"
	case n <= 15:
		return "6-15"
	}
	return "16+"
}

func (s *sched) ref(t *task) {
	s.cur = fmt.Sprintf("ref %d", t.id)
	out := "ref"
	if site := s.stepTask(t, "reffed"); site != "reffed" {
		out = "unexpected-" + site
	}
	t.st = "reffed"
	s.emit(fmt.Sprintf("ref %d", t.id), out)
}

func (s *sched) val(t *task) {
	s.cur = fmt.Sprintf("val %d", t.id)
	before := s.readersOf(t)
	site := s.stepTask(t, "val")
	out := "unexpected-" + site
	switch site {
	case "val.ok":
		out, t.st = "ok", "valok"
		// the statement about Reopen: the new descriptor is on the file of the rc the task
		// holds its reference on, not on whatever file has that descriptor number now
		if after := s.readersOf(t); before >= 0 && after != before+1 {
			s.fail("", fmt.Sprintf("reopened-descriptor-of-task%d-is-not-on-the-file-of-its-arena-entry key=%d readers-of-that-file before=%d after=%d", t.id, t.key, before, after))
		}
		if g := s.genOf(t); g != nil {
			if _, open := libindex.RcStateForVerif(g); !open {
				s.fail("", fmt.Sprintf("task%d-was-given-a-descriptor-although-the-file-of-its-entry-is-closed key=%d", t.id, t.key))
			}
		}
	case "val.stale":
		out, t.st = "stale", "stale"
		if !s.quiet && s.arena.ArenaEntryForVerif(s.srv.layers[t.key].digest) != nil {
			s.r.Count("branch:stale-ref-while-a-newer-file-is-stored")
		}
	default:
		t.st = "failed"
		if site == "finished" {
			// neither a descriptor nor errStale: the user fails although nothing went wrong
			s.fail("", fmt.Sprintf("task%d-failed-in-Val-without-a-fault key=%d err=%v", t.id, t.key, t.err))
		}
	}
	s.emit(fmt.Sprintf("val %d", t.id), out)
}

func (s *sched) retry(t *task) {
	s.cur = fmt.Sprintf("retry %d", t.id)
	out := "retry"
	if site := s.stepTask(t, "retry"); site != "enter" {
		out = "unexpected-" + site
		t.st = "failed"
	} else {
		t.st = "enter"
	}
	s.emit(fmt.Sprintf("retry %d", t.id), out)
}

func (s *sched) initTask(t *task) {
	s.cur = fmt.Sprintf("init %d", t.id)
	valid := s.srv.layers[t.key].validTar
	cBefore := -1
	if g := s.genOf(t); g != nil {
		cBefore, _ = libindex.RcStateForVerif(g)
	}
	lastOfFailed := false
	if c := t.call; c != nil && len(c.tasks) == len(c.keys) && c.running() == 1 {
		for _, o := range c.tasks {
			if o.st == "failed" {
				lastOfFailed = true
			}
		}
	}
	site := s.stepTask(t, "init")
	out := "unexpected-" + site
	if site == "finished" {
		held := t.err == nil && t.cl != nil
		if t.call != nil {
			// a closure of an errgroup: whether it kept its reference shows in the count -
			// unless it was the last closure of a call that has failed, whose handles
			// RealizeDescriptions closes as soon as this closure returns
			held = valid
			if !lastOfFailed {
				c, _ := libindex.RcStateForVerif(s.genOf(t))
				held = c == cBefore
			}
		}
		if held {
			out, t.st = "held", "holding"
			if !valid {
				s.fail("", fmt.Sprintf("task%d-holds-a-layer-that-is-not-a-tar", t.id))
			}
		} else {
			out, t.st = "initerr", "failed"
			if valid {
				s.fail("", fmt.Sprintf("task%d-init-failed-on-valid-layer err=%v", t.id, t.err))
			}
		}
	}
	s.emit(fmt.Sprintf("init %d %s", t.id, b01(valid)), out)
	if t.st == "holding" && t.call == nil {
		s.read(t, "after-init")
	}
}

func (s *sched) closeTask(t *task) {
	s.cur = fmt.Sprintf("close %d", t.id)
	var err error
	out := hx.Guard(func() string { err = t.cl.Close(); return "closed" })
	if out == "closed" && err != nil {
		out = "closeerr"
	}
	if out != "closed" {
		s.fail("", fmt.Sprintf("close-of-task%d-failed %s err=%v", t.id, out, err))
	}
	t.st = "closed"
	s.emit(fmt.Sprintf("close %d", t.id), out)
	// closing one user's handle must not disturb another's
	for _, o := range s.tasks {
		if o.key == t.key && o.st == "holding" {
			s.read(o, fmt.Sprintf("after-close-of-task%d", t.id))
		}
	}
}

func (s *sched) read(t *task, when string) {
	if t.layer == nil || t.st != "holding" {
		return // a closure of a call that has not returned yet: the caller has no Layer so far
	}
	s.r.Case(fmt.Sprintf("read task%d key=%d %s", t.id, t.key, when), true)
	if !s.quiet {
		s.r.Count("oracle:read-back")
	}
	if msg := readBack(t.layer, s.srv.layers[t.key]); msg != "" {
		s.fail("", fmt.Sprintf("holder-task%d-cannot-read-its-layer key=%d %s: %s", t.id, t.key, when, msg))
	}
}

func (s *sched) gc(k int) {
	runFinalizers()
	s.emit(fmt.Sprintf("gc %d", k), "gc")
}

func (s *sched) query(k int) { s.emit(fmt.Sprintf("query %d", k), "state") }

// ---- proxies and the arena's own Close

func (s *sched) pnew() *proxy {
	px := &proxy{id: len(s.proxies), fp: s.arena.Realizer(context.Background()).(*libindex.FetchProxy)}
	s.proxies = append(s.proxies, px)
	s.emit("pnew", fmt.Sprintf("proxy %d", px.id))
	return px
}

// realize starts p.RealizeDescriptions on its own goroutine; the closures its errgroup
// starts stop at DoChan like any other task.
func (s *sched) realize(px *proxy, limit int, keys []int, bad []bool) {
	line := fmt.Sprintf("realize %d %d", px.id, limit)
	for _, k := range keys {
		line += fmt.Sprintf(" %d", k)
	}
	s.cur = line
	ctx, cancel := context.WithCancel(context.Background())
	c := &pcall{px: px, keys: keys, bad: bad, limit: limit, cancel: cancel, early: map[int]*park{}}
	c.descs = make([]claircore.LayerDescription, len(keys))
	for i, k := range keys {
		c.descs[i] = s.srv.desc(k, bad[i])
		s.byPtr[unsafe.StringData(c.descs[i].Digest)] = &descRef{call: c, idx: i}
		s.known.Store(unsafe.StringData(c.descs[i].Digest), true)
	}
	if px.used && len(px.cleanup) == 0 && !s.quiet {
		s.r.Count("branch:realize-after-close")
	}
	px.call, px.used, px.closedIdle = c, true, false
	// the errgroup's limit is GOMAXPROCS at the time of the call
	old := runtime.GOMAXPROCS(limit)
	go func() {
		res := &realizeRes{call: c}
		res.out = hx.Guard(func() string { res.ls, res.err = px.fp.RealizeDescriptions(ctx, c.descs); return "" })
		if res.err == nil && res.ls != nil {
			keptMu.Lock()
			keptLayers = append(keptLayers, res.ls)
			keptMu.Unlock()
		}
		s.realized <- res
	}()
	if len(keys) == 0 {
		s.pump("RealizeDescriptions-of-nothing-returns", func() bool { return c.result != nil })
	}
	s.settle()
	runtime.GOMAXPROCS(old)
	if !s.quiet {
		s.r.Count(fmt.Sprintf("scenario:realize layers=%s limit=%d", bucket(len(keys)), limit))
	}
	s.emit(line, "started")
	var bs []string
	for i, b := range bad {
		if b {
			bs = append(bs, fmt.Sprint(i))
		}
	}
	if len(bs) > 0 {
		s.ops[len(s.ops)-1] += " bad:" + strings.Join(bs, ",")
	}
}

func (s *sched) pcancel(px *proxy) {
	s.cur = fmt.Sprintf("pcancel %d", px.id)
	if c := px.call; c != nil {
		c.cancel()
		c.dead = true
	}
	s.emit(fmt.Sprintf("pcancel %d", px.id), "pcancelled")
}

func (s *sched) pclose(px *proxy) {
	s.cur = fmt.Sprintf("pclose %d", px.id)
	var err error
	out := hx.Guard(func() string { err = px.fp.Close(); return "" })
	switch {
	case out == "panic":
		s.fail("", fmt.Sprintf("Close-of-proxy%d-panicked", px.id))
	case err != nil:
		s.fail("", fmt.Sprintf("Close-of-proxy%d-failed err=%v", px.id, err))
		out = "closeerr"
	default:
		out = fmt.Sprintf("pclosed %d", len(px.cleanup))
	}
	if !s.quiet && len(px.cleanup) == 0 {
		s.r.Count("branch:proxy-close-with-nothing-to-close")
	}
	closed := px.cleanup
	px.cleanup = nil
	for _, t := range closed {
		t.st = "closed"
	}
	s.emit(fmt.Sprintf("pclose %d", px.id), out)
	for _, t := range closed {
		for _, o := range s.tasks {
			if o.key == t.key && o.st == "holding" {
				s.read(o, fmt.Sprintf("after-close-of-proxy%d", px.id))
			}
		}
	}
}

// aclose is RemoteFetchArena.Close: every key is forgotten, whoever holds a file keeps it.
func (s *sched) aclose() {
	s.cur = "aclose"
	var err error
	if hx.Guard(func() string { err = s.arena.Close(context.Background()); return "" }) == "panic" || err != nil {
		s.fail("", fmt.Sprintf("arena-Close-failed err=%v", err))
	}
	s.aclosed = true
	s.mu.Lock()
	for _, gs := range s.gens {
		for _, x := range gs {
			if _, open := libindex.RcStateForVerif(x); open {
				s.detached[x] = true
			}
		}
	}
	s.mu.Unlock()
	s.emit("aclose", "aclosed")
	// the arena's Close must not disturb a reader
	for _, o := range s.tasks {
		if o.st == "holding" {
			s.read(o, "after-arena-Close")
		}
	}
}

func b01(b bool) string {
	if b {
		return "1"
	}
	return "0"
}

// ---- enabled operations

type choice struct {
	w   int
	run func()
	tag string
}

func (s *sched) allTerminal() bool {
	for _, t := range s.tasks {
		if t.st != "failed" && t.st != "closed" {
			return false
		}
	}
	for _, px := range s.proxies {
		if px.call != nil || len(px.cleanup) != 0 {
			return false
		}
	}
	return len(s.flights) == 0
}

var failModes = []int32{srv500, srvWrongBytes, srvTruncated, srvBadType, srvMislabelled, srvEmpty, srvBzip2}

// enabled lists what can run now. drain: no new work, no cancellations.
func (s *sched) enabled(rnd *hx.Rand, drain bool) []choice {
	var cs []choice
	var fkeys []int
	for k := range s.flights {
		fkeys = append(fkeys, k)
	}
	sort.Ints(fkeys)
	for _, k := range fkeys {
		k, f := k, s.flights[k]
		if f.reqOpen {
			cs = append(cs, choice{8, func() {
				if drain || rnd.Chance(5, 6) {
					s.fbody(k, true, srvOK)
				} else {
					s.fbody(k, false, []int32{srv500, srvWrongBytes, srvTruncated}[rnd.Intn(3)])
				}
			}, "fbody"})
			continue
		}
		if f.at == nil {
			continue
		}
		switch f.at.site {
		case "c10.flight.begin":
			cs = append(cs, choice{8, func() { s.fload(k) }, "fload"})
		case "c10.flight.miss":
			cs = append(cs, choice{8, func() {
				switch {
				case !drain && rnd.Chance(1, 25):
					s.ftmpfail(k)
				case rnd.Chance(1, 3):
					s.freq(k, []int32{stallBeforeHeaders, stallMidBody}[rnd.Intn(2)])
				case drain || rnd.Chance(5, 6):
					s.fnet(k, true, srvOK)
				default:
					s.fnet(k, false, failModes[rnd.Intn(len(failModes))])
				}
			}, "fnet"})
		case "c10.flight.fetched":
			cs = append(cs, choice{8, func() { s.fstore(k) }, "fstore"})
		default:
			cs = append(cs, choice{6, func() { s.fend(k) }, "fend"})
		}
	}
	for _, t := range s.tasks {
		t := t
		switch t.st {
		case "enter":
			cs = append(cs, choice{10, func() { s.enter(t) }, "enter"})
		case "waiting":
			if !drain && t.call == nil {
				w := 1
				if f := s.flights[t.key]; f != nil && f.leader == t.id && f.reqOpen {
					w = 5 // cancelled mid-fetch
				}
				cs = append(cs, choice{w, func() { s.cancelTask(t) }, "cancel"})
			}
		case "got":
			cs = append(cs, choice{4, func() { s.ref(t) }, "ref"})
		case "reffed":
			cs = append(cs, choice{6, func() { s.val(t) }, "val"})
		case "stale":
			cs = append(cs, choice{8, func() { s.retry(t) }, "retry"})
		case "valok":
			cs = append(cs, choice{6, func() { s.initTask(t) }, "init"})
			if !drain && t.call == nil && !t.cancelled {
				// the user's context is cancelled while the closure is between Val and Init:
				// neither looks at it, the layer is initialised and held all the same
				cs = append(cs, choice{1, func() { s.cancelTask(t) }, "cancel"})
			}
		case "holding":
			if t.call != nil {
				// the handle belongs to its proxy
				if !drain && t.layer != nil {
					cs = append(cs, choice{1, func() { s.read(t, "random") }, "read"})
				}
				continue
			}
			if s.lastHolder(t) {
				for _, b := range s.tasks {
					b := b
					if b.st == "got" && b.key == t.key && b.gen == t.gen {
						cs = append(cs, choice{6, func() { s.closeRace(t, b) }, "closerace"})
						break
					}
				}
			}
			w := 4
			if drain {
				w = 10
			}
			cs = append(cs, choice{w, func() { s.closeTask(t) }, "close"})
			if !drain {
				cs = append(cs, choice{1, func() { s.read(t, "random") }, "read"})
			}
		}
	}
	for _, px := range s.proxies {
		px := px
		switch {
		case px.call != nil:
			if !drain {
				w := 1
				if px.call.running() > 0 {
					w = 2
				}
				cs = append(cs, choice{w, func() { s.pcancel(px) }, "cancel"})
			}
		case len(px.cleanup) > 0:
			w := 2
			if drain {
				w = 10
			}
			cs = append(cs, choice{w, func() { s.pclose(px) }, "pclose"})
		case !drain && px.used && !px.closedIdle:
			// Close with nothing to close (a second Close, or Close after a failed Realize)
			cs = append(cs, choice{1, func() { s.pclose(px); px.closedIdle = true }, "pclose"})
		}
	}
	return cs
}

func pick(rnd *hx.Rand, cs []choice) choice {
	total := 0
	for _, c := range cs {
		total += c.w
	}
	x := rnd.Intn(total)
	for _, c := range cs {
		if x < c.w {
			return c
		}
		x -= c.w
	}
	return cs[len(cs)-1]
}

// finish checks the quiescent state and tears the scenario down.
func (s *sched) finish(cancelled bool) {
	defer s.teardown()
	if s.broken || !s.allTerminal() {
		return
	}
	// descriptors must be released by the code itself, not by a finalizer
	fdsBeforeGC := arenaFDs(s.root)
	runFinalizers()
	s.r.Case("quiescent "+s.witness(), true)
	if !s.quiet {
		s.r.Count("oracle:quiescent-check")
		s.r.Count("scenario:tasks=" + bucket(len(s.tasks)))
		if len(s.proxies) > 0 {
			s.r.Count("scenario:proxies=" + bucket(len(s.proxies)))
		}
		if s.aclosed {
			s.r.Count("scenario:with-arena-Close")
		}
	}
	keys := s.arena.ArenaKeysForVerif()
	orphans := 0
	counted := map[any]bool{}
	for _, key := range keys {
		k := s.keyIdx[key]
		e := s.arena.ArenaEntryForVerif(key)
		c, open := libindex.RcStateForVerif(e)
		if c == 0 && open && s.orphaned[k] {
			// exactly the listed finding: the flight stored a file after its last waiter left
			orphans++
			counted[e] = true
			s.fail("orphan-after-cancel", fmt.Sprintf("arena-keeps-key=%d count=0 file-open after every user is done", k))
			continue
		}
		s.fail("", fmt.Sprintf("arena-not-empty-after-all-closed key=%d count=%d open=%v", k, c, open))
	}
	s.mu.Lock()
	for k, gs := range s.gens {
		for i, x := range gs {
			c, open := libindex.RcStateForVerif(x)
			if c == 0 && !open || counted[x] {
				continue
			}
			if c == 0 && open && s.orphaned[k] && s.detached[x] {
				// the same finding, seen after RemoteFetchArena.Close: the orphaned file is no
				// longer in the map, so no later request can adopt and release it either
				orphans++
				s.r.Fail("orphan-after-cancel", fmt.Sprintf("orphaned-file-of-key=%d count=0 still-open after the arena was Closed and every user is done %s", k, s.witness()))
				continue
			}
			s.r.Fail("", fmt.Sprintf("rc-not-released-after-all-closed key=%d gen=%d count=%d open=%v %s", k, i, c, open, s.witness()))
		}
	}
	s.mu.Unlock()
	if n := arenaFDs(s.root); n != orphans {
		s.fail("", fmt.Sprintf("open-descriptors-into-arena-after-all-closed n=%d expected=%d", n, orphans))
	} else if fdsBeforeGC != orphans {
		s.fail("", fmt.Sprintf("descriptors-into-arena-released-only-by-the-garbage-collector before-gc=%d after-gc=%d", fdsBeforeGC, n))
	}
	if n := dirEntries(s.root); n != 0 {
		s.fail("", fmt.Sprintf("files-left-in-arena-dir n=%d", n))
	}
	if n := checkedOutConns(s.srv.ts.Client()); n != 0 {
		s.fail("", fmt.Sprintf("http-connections-still-checked-out-after-every-fetch-ended n=%d", n))
	}
}

func (s *sched) teardown() {
	s.abandon.Store(true)
	for _, px := range s.proxies {
		if px.call != nil {
			px.call.cancel()
			for _, p := range px.call.early {
				close(p.rel)
			}
		}
	}
	for _, t := range s.tasks {
		if t.cancel != nil {
			t.cancel()
		}
		if t.at != nil {
			s.releaseTask(t)
		}
	}
	for _, f := range s.flights {
		if f.at != nil {
			s.releaseFlight(f)
		}
	}
	// release whatever arrives late, wait for the task goroutines and the running calls
	deadline := time.After(3 * time.Second)
	pending := 0
	for _, t := range s.tasks {
		if !t.finished && t.call == nil {
			pending++
		}
	}
	for _, px := range s.proxies {
		if px.call != nil && px.call.result == nil {
			pending++
		}
	}
	for pending > 0 {
		select {
		case p := <-s.arrive:
			close(p.rel)
		case d := <-s.doneCh:
			d.t.finished, d.t.err = true, d.err
			pending--
		case res := <-s.realized:
			res.call.result = res
			pending--
		case <-deadline:
			pending = 0
		}
	}
	for _, t := range s.tasks {
		if t.cl != nil && t.st != "closed" && t.finished && t.err == nil {
			hx.Guard(func() string { t.cl.Close(); return "" })
		}
	}
	for _, px := range s.proxies {
		hx.Guard(func() string { px.fp.Close(); return "" })
	}
	verifhook.Install(nil)
	for {
		select {
		case p := <-s.arrive:
			close(p.rel)
			continue
		default:
		}
		break
	}
	s.srv.close()
	os.RemoveAll(s.root)
	os.RemoveAll(s.root + ".away")
}

// begin writes the lines every scenario starts with.
func (s *sched) begin() {
	s.r.Op("reset", "ok", false)
	s.r.Op(fmt.Sprintf("keys %d", len(s.srv.layers)), "ok", false)
}

// randomScenario runs one seeded schedule.
func randomScenario(r *hx.Run, rnd *hx.Rand, layers []*layer, maxTasks, maxSteps int) {
	s, err := newSched(r, layers)
	if err != nil {
		r.Fail("", "cannot-create-arena "+err.Error())
		return
	}
	s.begin()
	nkeys := 1 + rnd.Intn(3)
	cancelled := false
	allowCancel := rnd.Chance(1, 3)
	proxies := rnd.Chance(3, 5)
	allowAclose := rnd.Chance(1, 6)
	pickKey := func() int {
		if rnd.Chance(1, 12) {
			return len(layers) - 1 // the blob that is not a tar archive
		}
		return rnd.Intn(nkeys)
	}
	for step := 0; !s.broken && !r.Stop(); step++ {
		drain := step >= maxSteps || len(s.tasks) >= maxTasks
		cs := s.enabled(rnd, step >= maxSteps)
		if !drain || (len(cs) == 0 && len(s.tasks) < maxTasks && step < maxSteps) {
			cs = append(cs, choice{12, func() { s.spawnAt(pickKey(), rnd.Chance(1, 15), rnd.Chance(1, 6)) }, "spawn"})
			if proxies {
				cs = append(cs, choice{8, func() {
					var px *proxy
					for _, p := range s.proxies {
						// the same proxy again: after its Close, or on top of handles it still has
						if p.call == nil && (rnd.Chance(1, 4) || (len(p.cleanup) > 0 && rnd.Chance(2, 3))) {
							px = p
							break
						}
					}
					if px == nil {
						px = s.pnew()
					}
					n := 1 + rnd.Intn(4)
					if rnd.Chance(1, 30) {
						n = 0
					}
					keys := make([]int, n)
					bad := make([]bool, n)
					for i := range keys {
						keys[i] = pickKey()
						bad[i] = rnd.Chance(1, 25)
					}
					s.realize(px, 1+rnd.Intn(4), keys, bad)
				}, "realize"})
			}
		}
		if len(cs) == 0 {
			break
		}
		if !drain && rnd.Chance(1, 40) {
			s.gc(rnd.Intn(nkeys))
			continue
		}
		if !drain && allowAclose && rnd.Chance(1, 30) {
			s.aclose()
			continue
		}
		if !allowCancel {
			var keep []choice
			for _, c := range cs {
				if c.tag != "cancel" {
					keep = append(keep, c)
				}
			}
			cs = keep
			if len(cs) == 0 {
				break
			}
		}
		c := pick(rnd, cs)
		if c.tag == "cancel" {
			cancelled = true
		}
		c.run()
	}
	if !s.broken && allowAclose && s.allTerminal() && rnd.Chance(1, 2) {
		s.aclose()
	}
	s.finish(cancelled)
}
