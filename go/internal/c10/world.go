// Package c10 drives libindex's fetch arena (reference counted temp files
// behind a singleflight) in two ways:
//
//   - scripted schedules: every goroutine inside fetchInto / fetchUnlinkedFile
//     is parked at the verifhook points and released one atomic section at a
//     time; each section is one protocol line whose answer (outcome plus the
//     observable state of the key: every rc's count and file, the arena entry,
//     the server's request count) the Lean machine must reproduce;
//   - free-running users through the public API (RealizeDescriptions / Close)
//     with direct checks of the property statement.
package c10

import (
	"archive/tar"
	"bytes"
	"compress/gzip"
	"crypto/sha256"
	"fmt"
	"io"
	"net/http"
	"net/http/httptest"
	"os"
	"runtime"
	"runtime/debug"
	"strconv"
	"strings"
	"sync"
	"sync/atomic"
	"syscall"
	"time"

	"github.com/klauspost/compress/zstd"

	"github.com/quay/claircore"
)

const mediaType = "application/vnd.oci.image.layer.v1.tar"

// layer is one blob the loopback server can serve.
type layer struct {
	idx      int
	body     []byte // what the server sends (possibly compressed); the digest is of these bytes
	plain    []byte // what a user must read back: the uncompressed tar stream
	plainSum [32]byte
	digest   string
	sum      [32]byte
	validTar bool
	z        int // how the tar stream is sent
	fileName string
	fileData []byte
}

// how a layer's tar stream is sent
const (
	plainTar = iota
	gzipTar
	zstdTar
)

func mkLayer(idx int, validTar bool, size int) *layer { return mkLayerZ(idx, validTar, size, plainTar) }

func mkLayerZ(idx int, validTar bool, size int, z int) *layer {
	l := &layer{idx: idx, validTar: validTar, z: z}
	if validTar {
		l.fileName = "f" + strconv.Itoa(idx)
		l.fileData = bytes.Repeat([]byte{byte('a' + idx%26)}, size)
		l.fileData = append(l.fileData, []byte(fmt.Sprintf("\nlayer %d\n", idx))...)
		var b bytes.Buffer
		w := tar.NewWriter(&b)
		w.WriteHeader(&tar.Header{Typeflag: tar.TypeReg, Name: l.fileName, Size: int64(len(l.fileData)), Mode: 0o644})
		w.Write(l.fileData)
		w.Close()
		l.body = b.Bytes()
	} else {
		// passes the fetcher (checksum is right, no compression) but is not a tar archive
		l.body = bytes.Repeat([]byte(fmt.Sprintf("not a tar %d ", idx)), 200)
	}
	l.plain = l.body
	l.plainSum = sha256.Sum256(l.plain)
	switch z {
	case gzipTar:
		var b bytes.Buffer
		w := gzip.NewWriter(&b)
		w.Write(l.plain)
		w.Close()
		l.body = b.Bytes()
	case zstdTar:
		var b bytes.Buffer
		w, _ := zstd.NewWriter(&b)
		w.Write(l.plain)
		w.Close()
		l.body = b.Bytes()
	}
	l.sum = sha256.Sum256(l.body)
	l.digest = fmt.Sprintf("sha256:%x", l.sum)
	return l
}

// server behaviours for the next request of a key
const (
	srvOK int32 = iota
	srv500
	srvWrongBytes
	srvTruncated
	srvBadType     // 200, the right bytes, a content-type the fetcher does not know
	srvMislabelled // 200, the right (uncompressed) bytes labelled as gzip
	srvEmpty       // 200, no body
	srvBzip2       // 200, a body that starts like a bzip2 stream
)

func srvModeName(m int32) string {
	return [...]string{"ok", "500", "wrong-bytes", "truncated", "unknown-content-type", "mislabelled-compression", "empty-body", "bzip2"}[m]
}

// where a stalling server stops until the harness opens the gate
const (
	stallNone int32 = iota
	stallBeforeHeaders
	stallMidBody
)

type server struct {
	ts      *httptest.Server
	layers  []*layer
	mode    []atomic.Int32
	hits    []atomic.Int64 // requests that reached the handler
	delay   func(k int)    // optional latency hook (free mode)
	stall   []atomic.Int32
	arrived chan int // a stalled request reached its stall point
	gmu     sync.Mutex
	gate    []chan struct{}
}

func newServer(layers []*layer) *server {
	s := &server{layers: layers, mode: make([]atomic.Int32, len(layers)), hits: make([]atomic.Int64, len(layers)),
		stall: make([]atomic.Int32, len(layers)), arrived: make(chan int, 256), gate: make([]chan struct{}, len(layers))}
	s.ts = httptest.NewServer(http.HandlerFunc(s.handle))
	return s
}

// armStall makes the next request for k stop at the given point.
func (s *server) armStall(k int, where int32) {
	s.gmu.Lock()
	s.gate[k] = make(chan struct{})
	s.gmu.Unlock()
	s.stall[k].Store(where)
}

// openGate lets a stalled request for k continue.
func (s *server) openGate(k int) {
	s.stall[k].Store(stallNone)
	s.gmu.Lock()
	if g := s.gate[k]; g != nil {
		close(g)
		s.gate[k] = nil
	}
	s.gmu.Unlock()
}

func (s *server) handle(w http.ResponseWriter, r *http.Request) {
	// the same layers under a second path: one digest, two URIs (a mirror)
	k, err := strconv.Atoi(strings.TrimPrefix(strings.TrimPrefix(r.URL.Path, "/l/"), "/m/"))
	if err != nil || k < 0 || k >= len(s.layers) {
		http.NotFound(w, r)
		return
	}
	s.hits[k].Add(1)
	if s.delay != nil {
		s.delay(k)
	}
	l := s.layers[k]
	w.Header().Set("Content-Type", "application/octet-stream")
	if st := s.stall[k].Load(); st != stallNone {
		s.gmu.Lock()
		g := s.gate[k]
		s.gmu.Unlock()
		half := len(l.body) / 2
		if st == stallMidBody {
			w.Write(l.body[:half])
			if f, ok := w.(http.Flusher); ok {
				f.Flush()
			}
		}
		s.arrived <- k
		if g != nil {
			select {
			case <-g:
			case <-r.Context().Done():
				return
			}
		}
		if st == stallMidBody {
			// the first half is out: deliver the rest, damaged or not at all when told to fail
			switch s.mode[k].Load() {
			case srvOK:
				w.Write(l.body[half:])
			case srvWrongBytes:
				b := append([]byte(nil), l.body[half:]...)
				b[0] ^= 0x40
				w.Write(b)
			default:
				panic(http.ErrAbortHandler)
			}
			return
		}
	}
	switch s.mode[k].Load() {
	case srvBadType:
		w.Header().Set("Content-Type", "text/html")
		w.Write(l.body)
	case srvMislabelled:
		if l.z == gzipTar {
			w.Header().Set("Content-Type", "application/x-tar")
		} else {
			w.Header().Set("Content-Type", "application/gzip")
		}
		w.Write(l.body)
	case srvEmpty:
		w.WriteHeader(http.StatusOK)
	case srvBzip2:
		w.Write(append([]byte("BZh91AY&SY"), l.body...))
	case srv500:
		w.WriteHeader(http.StatusInternalServerError)
	case srvWrongBytes:
		b := append([]byte(nil), l.body...)
		b[len(b)/2] ^= 0x40
		w.Write(b)
	case srvTruncated:
		w.Header().Set("Content-Length", strconv.Itoa(len(l.body)))
		w.Write(l.body[:len(l.body)/2])
		if f, ok := w.(http.Flusher); ok {
			f.Flush()
		}
		panic(http.ErrAbortHandler)
	default:
		w.Write(l.body)
	}
}

func (s *server) uri(k int) string { return s.ts.URL + "/l/" + strconv.Itoa(k) }

// altURI is another address of the same layer.
func (s *server) altURI(k int) string { return s.ts.URL + "/m/" + strconv.Itoa(k) }

func (s *server) close() {
	for k := range s.layers {
		s.openGate(k)
	}
	s.ts.CloseClientConnections()
	s.ts.Close()
}

// desc builds a description with its own copies of the strings.
func (s *server) desc(k int, badURI bool) claircore.LayerDescription {
	d := claircore.LayerDescription{
		Digest:    strings.Clone(s.layers[k].digest),
		URI:       s.uri(k),
		MediaType: mediaType,
		Headers:   map[string][]string{},
	}
	if badURI {
		d.URI = "no-scheme/" + strconv.Itoa(k)
	}
	return d
}

// arenaFDs counts descriptors of this process that point into dir.
func arenaFDs(dir string) int {
	ents, err := os.ReadDir("/proc/self/fd")
	if err != nil {
		return -1
	}
	n := 0
	for _, e := range ents {
		l, err := os.Readlink("/proc/self/fd/" + e.Name())
		if err == nil && (l == dir || strings.HasPrefix(l, dir+"/")) {
			n++
		}
	}
	return n
}

// arenaFDKinds describes the descriptors that point into dir: "w" for the
// write-only handle openTemp created, "r" for a reopened read-only one.
func arenaFDKinds(dir string) string {
	ents, err := os.ReadDir("/proc/self/fd")
	if err != nil {
		return "?"
	}
	var out []string
	for _, e := range ents {
		l, err := os.Readlink("/proc/self/fd/" + e.Name())
		if err != nil || !(l == dir || strings.HasPrefix(l, dir+"/")) {
			continue
		}
		kind := "?"
		if b, err := os.ReadFile("/proc/self/fdinfo/" + e.Name()); err == nil {
			for _, ln := range strings.Split(string(b), "\n") {
				if strings.HasPrefix(ln, "flags:") {
					f, _ := strconv.ParseInt(strings.TrimSpace(strings.TrimPrefix(ln, "flags:")), 8, 64)
					if f&3 == 0 {
						kind = "r"
					} else {
						kind = "w"
					}
				}
			}
		}
		out = append(out, kind)
	}
	return strings.Join(out, ",")
}

// scanFDs lists the descriptors of this process that point into dir: the inode of the file
// and whether the descriptor was opened for writing (openTemp) or read-only (Reopen).
func scanFDs(dir string) []fdEnt {
	ents, err := os.ReadDir("/proc/self/fd")
	if err != nil {
		return nil
	}
	var out []fdEnt
	for _, e := range ents {
		l, err := os.Readlink("/proc/self/fd/" + e.Name())
		if err != nil || !(l == dir || strings.HasPrefix(l, dir+"/")) {
			continue
		}
		var f fdEnt
		if fi, err := os.Stat("/proc/self/fd/" + e.Name()); err == nil {
			if st, ok := fi.Sys().(*syscall.Stat_t); ok {
				f.ino = st.Ino
			}
			if fi.IsDir() {
				continue // the directory itself (somebody is listing it)
			}
		} else {
			continue
		}
		if b, err := os.ReadFile("/proc/self/fdinfo/" + e.Name()); err == nil {
			for _, ln := range strings.Split(string(b), "\n") {
				if strings.HasPrefix(ln, "flags:") {
					fl, _ := strconv.ParseInt(strings.TrimSpace(strings.TrimPrefix(ln, "flags:")), 8, 64)
					f.write = fl&3 != 0
				}
			}
		}
		out = append(out, f)
	}
	return out
}

func dirEntries(dir string) int {
	ents, err := os.ReadDir(dir)
	if err != nil {
		return -1
	}
	return len(ents)
}

// oldLayers builds the argument of the old interface Realize([]*claircore.Layer): one fresh
// Layer per slot, carrying only the digest and the URI.
func oldLayers(srv *server, layers []*layer, keys []int) []*claircore.Layer {
	lp := make([]*claircore.Layer, len(keys))
	for i, k := range keys {
		lp[i] = &claircore.Layer{Hash: claircore.MustParseDigest(layers[k].digest), URI: srv.uri(k), Headers: map[string][]string{}}
	}
	return lp
}

// slotCheck is the statement for one slot of a realized list: the Layer in it is initialised,
// is the layer that slot names, and reads back that layer's bytes.
func slotCheck(l *claircore.Layer, want *layer) string {
	switch {
	case l == nil:
		return "slot-is-nil"
	case !l.Fetched():
		return "layer-in-the-slot-is-not-initialised"
	case l.Hash.String() != want.digest:
		return "slot-holds-another-digest " + l.Hash.String()
	}
	return readBack(l, want)
}

// ReadAtSeeker is what Layer.Reader returns, as far as the checks use it.
type ReadAtSeeker interface {
	io.Reader
	io.ReaderAt
	io.Closer
}

// readBack checks that an initialised Layer shows exactly the layer's bytes:
// the tar stream through Reader and the file through FS.
func readBack(l *claircore.Layer, want *layer) string {
	rd, err := l.Reader()
	if err != nil {
		return "reader-error:" + err.Error()
	}
	h := sha256.New()
	n, err := io.Copy(h, rd)
	rd.Close()
	if err != nil {
		return "read-error:" + err.Error()
	}
	var got [32]byte
	copy(got[:], h.Sum(nil))
	if got != want.plainSum || int(n) != len(want.plain) {
		return fmt.Sprintf("content-mismatch read=%d want=%d", n, len(want.plain))
	}
	// the same through every way a Reader can be read: plain Read (what tar.NewReader
	// uses; no WriteTo short cut), a second Reader of the same Layer with its own cursor,
	// ReadAt, and the seek-to-the-end way of asking for the size
	rd1, err := l.Reader()
	if err != nil {
		return "reader-error:" + err.Error()
	}
	rd2, err := l.Reader()
	if err != nil {
		rd1.Close()
		return "reader-error:" + err.Error()
	}
	for i, rd := range []ReadAtSeeker{rd1, rd2} {
		h := sha256.New()
		n, err := io.Copy(h, struct{ io.Reader }{rd})
		if err != nil {
			return "read-error:" + err.Error()
		}
		copy(got[:], h.Sum(nil))
		if got != want.plainSum || int(n) != len(want.plain) {
			return fmt.Sprintf("content-mismatch-through-Read reader=%d read=%d want=%d", i, n, len(want.plain))
		}
	}
	if sk, ok := rd1.(io.Seeker); ok {
		if end, err := sk.Seek(0, io.SeekEnd); err != nil || int(end) != len(want.plain) {
			return fmt.Sprintf("seek-to-end=%d err=%v want=%d", end, err, len(want.plain))
		}
	}
	if len(want.plain) > 64 {
		buf := make([]byte, 32)
		off := len(want.plain) / 2
		if n, err := rd2.ReadAt(buf, int64(off)); err != nil || n != 32 || !bytes.Equal(buf, want.plain[off:off+32]) {
			return fmt.Sprintf("readat-mismatch off=%d n=%d err=%v", off, n, err)
		}
	}
	rd1.Close()
	rd2.Close()
	sys, err := l.FS()
	if err != nil {
		return "fs-error:" + err.Error()
	}
	f, err := sys.Open(want.fileName)
	if err != nil {
		return "fs-open-error:" + err.Error()
	}
	b, err := io.ReadAll(f)
	f.Close()
	if err != nil || !bytes.Equal(b, want.fileData) {
		return fmt.Sprintf("fs-content-mismatch n=%d err=%v", len(b), err)
	}
	return ""
}

// goState returns the scheduler state of a goroutine ("select", "chan receive",
// "running", ...) or "" when it no longer exists.
func goState(id int64) string {
	buf := make([]byte, 1<<18)
	for {
		n := runtime.Stack(buf, true)
		if n < len(buf) {
			buf = buf[:n]
			break
		}
		buf = make([]byte, 2*len(buf))
	}
	needle := []byte("goroutine " + strconv.FormatInt(id, 10) + " [")
	off := 0
	for {
		i := bytes.Index(buf[off:], needle)
		if i < 0 {
			return ""
		}
		i += off
		if i == 0 || buf[i-1] == '\n' {
			rest := buf[i+len(needle):]
			j := bytes.IndexAny(rest, "],")
			if j < 0 {
				return ""
			}
			return string(rest[:j])
		}
		off = i + 1
	}
}

// flightGoroutines counts goroutines that singleflight started for a fetch and
// that have not returned yet, including ones that have not run at all so far.
func flightGoroutines() int {
	buf := make([]byte, 1<<18)
	for {
		n := runtime.Stack(buf, true)
		if n < len(buf) {
			buf = buf[:n]
			break
		}
		buf = make([]byte, 2*len(buf))
	}
	return bytes.Count(buf, []byte("singleflight.(*Group).doCall("))
}

// checkedOutConns closes the idle connections of the arena's HTTP client and reports how many
// connections are still there afterwards: those were taken for a fetch and never given back
// (a response body that was not closed), each with its descriptor and its two goroutines.
func checkedOutConns(c *http.Client) int {
	c.CloseIdleConnections()
	deadline := time.Now().Add(20 * time.Second)
	for {
		buf := make([]byte, 1<<18)
		for {
			n := runtime.Stack(buf, true)
			if n < len(buf) {
				buf = buf[:n]
				break
			}
			buf = make([]byte, 2*len(buf))
		}
		n := bytes.Count(buf, []byte("net/http.(*persistConn).readLoop("))
		if n == 0 || time.Now().After(deadline) {
			return n
		}
		time.Sleep(200 * time.Microsecond)
	}
}

// settleGoroutines waits until the goroutine count is back at the baseline.
func settleGoroutines(base int, slack int) int {
	deadline := time.Now().Add(3 * time.Second)
	for {
		n := runtime.NumGoroutine()
		if n <= base+slack || time.Now().After(deadline) {
			return n
		}
		time.Sleep(2 * time.Millisecond)
	}
}

// runFinalizers forces two collections and waits until the finalizer
// goroutine has drained what they queued.
// noGC is set after the first unexplained failure: an implementation that loses handles
// also loses Layers, and a Layer that is collected without Close panics in its finalizer
// (by design) - which would take the harness and its evidence down.
var noGC atomic.Bool

func stopCollecting() {
	if !noGC.Swap(true) {
		debug.SetGCPercent(-1)
	}
}

func runFinalizers() {
	if noGC.Load() {
		return
	}
	for i := 0; i < 2; i++ {
		runtime.GC()
		done := make(chan struct{})
		s := new([16]byte)
		runtime.SetFinalizer(s, func(*[16]byte) { close(done) })
		s = nil
		runtime.GC()
		select {
		case <-done:
		case <-time.After(200 * time.Millisecond):
		}
	}
}
