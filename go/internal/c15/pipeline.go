package c15

import (
	"bytes"
	"compress/bzip2"
	"compress/gzip"
	"context"
	"encoding/json"
	"errors"
	"fmt"
	"io"
	"net/http"
	"net/url"
	"os"
	"path/filepath"
	"sort"
	"strings"
	"time"

	"github.com/klauspost/compress/zstd"

	"github.com/quay/claircore"
	"github.com/quay/claircore/alpine"
	"github.com/quay/claircore/aws"
	"github.com/quay/claircore/debian"
	"github.com/quay/claircore/enricher/cvss"
	"github.com/quay/claircore/enricher/epss"
	"github.com/quay/claircore/libvuln/driver"
	"github.com/quay/claircore/oracle"
	"github.com/quay/claircore/photon"
	"github.com/quay/claircore/rhel/vex"
	"github.com/quay/claircore/suse"
	"github.com/quay/claircore/ubuntu"
	"github.com/quay/claircore/updater/osv"
	"github.com/quay/claircore/verifharness/internal/hx"
)

// The pipeline layer runs the updaters end to end the way driveUpdater does —
// Fetch (or FetchEnrichment) over an in-process HTTP transport, then Parse
// (DeltaParse, ParseEnrichment) of what Fetch returned — with the damage
// applied to the bytes in transit.

// body is one HTTP response body: the bytes, and how the transport ends the
// body after them (nil = clean EOF, as a connection closed without a declared
// length looks; otherwise the error the transport reports).
type body struct {
	data []byte
	term error
}

type route func(req *http.Request) (status int, hdr map[string]string, b body, ok bool)

type rtFunc func(*http.Request) (*http.Response, error)

func (f rtFunc) RoundTrip(r *http.Request) (*http.Response, error) { return f(r) }

type termReader struct {
	r    io.Reader
	term error
}

func (t *termReader) Read(p []byte) (int, error) {
	n, err := t.r.Read(p)
	if err == io.EOF && t.term != nil {
		return n, t.term
	}
	return n, err
}

func client(routes ...route) *http.Client {
	return &http.Client{Transport: rtFunc(func(req *http.Request) (*http.Response, error) {
		for _, rt := range routes {
			if st, hdr, b, ok := rt(req); ok {
				h := http.Header{}
				for k, v := range hdr {
					h.Set(k, v)
				}
				var rd io.Reader = bytes.NewReader(b.data)
				if req.Method == http.MethodHead {
					rd = bytes.NewReader(nil)
				} else if b.term != nil {
					rd = &termReader{r: rd, term: b.term}
				}
				return &http.Response{StatusCode: st, Status: fmt.Sprintf("%d %s", st, http.StatusText(st)), Proto: "HTTP/1.1", ProtoMajor: 1, ProtoMinor: 1,
					Header: h, Body: io.NopCloser(rd), ContentLength: -1, Request: req}, nil
			}
		}
		return &http.Response{StatusCode: 404, Status: "404 Not Found", Proto: "HTTP/1.1", ProtoMajor: 1, ProtoMinor: 1,
			Header: http.Header{}, Body: io.NopCloser(bytes.NewReader(nil)), ContentLength: -1, Request: req}, nil
	})}
}

func suffix(sfx string, hdr map[string]string, b func() body) route {
	return func(req *http.Request) (int, map[string]string, body, bool) {
		if strings.HasSuffix(req.URL.Path, sfx) {
			return 200, hdr, b(), true
		}
		return 0, nil, body{}, false
	}
}

func noConfig(any) error { return nil }

func jsonConfig(v any) driver.ConfigUnmarshaler {
	return func(dst any) error {
		b, err := json.Marshal(v)
		if err != nil {
			return err
		}
		return json.Unmarshal(b, dst)
	}
}

// fetchParse is driveUpdater's Fetch → Parse for a vulnerability updater.
func fetchParse(u driver.Updater) result {
	ctx, done := context.WithTimeout(bg, 15*time.Second)
	defer done()
	rc, _, err := u.Fetch(ctx, "")
	if rc != nil {
		defer rc.Close()
	}
	if err != nil {
		return result{kind: "err"}
	}
	if du, ok := u.(driver.DeltaUpdater); ok {
		vs, del, err := du.DeltaParse(ctx, rc)
		res := vulnResult(vs, err)
		if err == nil {
			for _, d := range del {
				res.items = append(res.items, "deleted:"+d)
			}
			sort.Strings(res.items)
		}
		return res
	}
	return vulnResult(u.Parse(ctx, rc))
}

func fetchParseEnrichment(e driver.EnrichmentUpdater) result {
	ctx, done := context.WithTimeout(bg, 15*time.Second)
	defer done()
	rc, _, err := e.FetchEnrichment(ctx, "")
	if rc != nil {
		defer rc.Close()
	}
	if err != nil {
		return result{kind: "err"}
	}
	return enrichResult(e.ParseEnrichment(ctx, rc))
}

// A pipeline is one updater end to end with one damaged download.
type pipeline struct {
	name    string
	wrapper string
	gen     func(rnd *hx.Rand, size int) []byte // the primary download (bytes in transit)
	run     func(b body) result
	valid   func(transit []byte) bool
	fixed   [][]byte // fixed transit bodies (corpus) used instead of gen
	// class is the target whose still-valid finding this pipeline shares
	// (only the uncompressed downloads have one)
	class string
}

func decompressAll(kind string, b []byte) ([]byte, bool) {
	var r io.Reader
	switch kind {
	case "gzip":
		zr, err := gzip.NewReader(bytes.NewReader(b))
		if err != nil {
			return nil, false
		}
		r = zr
	case "bzip2":
		r = bzip2.NewReader(bytes.NewReader(b))
	case "zstd":
		zr, err := zstd.NewReader(bytes.NewReader(b))
		if err != nil {
			return nil, false
		}
		defer zr.Close()
		r = zr
	default:
		return b, true
	}
	p, err := io.ReadAll(r)
	return p, err == nil
}

func validWrapped(kind string, inner func([]byte) bool) func([]byte) bool {
	return func(b []byte) bool {
		p, ok := decompressAll(kind, b)
		return ok && inner(p)
	}
}

func compress(kind string, b []byte) []byte {
	switch kind {
	case "gzip":
		return gz(b)
	case "zstd":
		return zst(b)
	}
	return b
}

// loadCorpus returns the files of the corpus directory with the given suffix, by name.
func loadCorpus(dir, sfx string) [][]byte {
	var out [][]byte
	if dir == "" {
		return nil
	}
	names, _ := filepath.Glob(filepath.Join(dir, "*"+sfx))
	sort.Strings(names)
	for _, n := range names {
		if b, err := os.ReadFile(n); err == nil {
			out = append(out, b)
		}
	}
	return out
}

func pipelines(corpus string) []pipeline {
	var ps []pipeline
	one := func(sfx string, b body) []route {
		return []route{suffix(sfx, map[string]string{"etag": `"e1"`, "last-modified": "Mon, 02 Jan 2006 15:04:05 GMT"}, func() body { return b })}
	}

	ps = append(ps, pipeline{name: "alpine", class: "alpine", gen: func(rnd *hx.Rand, n int) []byte { return genAlpine(rnd, n) }, valid: validAlpine,
		run: func(b body) result {
			return fetchParse(alpine.UpdaterForC15(client(one("main.json", b)...), "http://feeds.test/v3.10/main.json", 3, 10, "main"))
		}})
	ps = append(ps, pipeline{name: "debian", class: "debian", gen: func(rnd *hx.Rand, n int) []byte { return genDebian(rnd, n) }, valid: validDebian,
		run: func(b body) result {
			return fetchParse(debian.UpdaterForC15(client(one("json", b)...), "http://feeds.test/tracker/data/json", debianReleases))
		}})
	ps = append(ps, pipeline{name: "ubuntu-plain", class: "ubuntu", gen: func(rnd *hx.Rand, n int) []byte { return genOVAL(rnd, flavorUbuntu, n) }, valid: validOVAL,
		run: func(b body) result {
			return fetchParse(ubuntu.UpdaterForC15(client(one("oval.xml", b)...), "http://feeds.test/oval.xml", false, "focal", "20.04"))
		}})
	ps = append(ps, pipeline{name: "ubuntu-bzip2", wrapper: "bzip2", fixed: loadCorpus(corpus, ".ubuntu.xml.bz2"), valid: validWrapped("bzip2", validOVAL),
		run: func(b body) result {
			return fetchParse(ubuntu.UpdaterForC15(client(one("oval.xml.bz2", b)...), "http://feeds.test/oval.xml.bz2", true, "focal", "20.04"))
		}})

	// the three ovalutil.Fetcher users, each with the compressions it is used with
	type ovalU interface {
		driver.Updater
		Configure(context.Context, driver.ConfigUnmarshaler, *http.Client) error
	}
	ovalPipe := func(name, kind string, fl ovalFlavor, mk func(uri, comp string) (ovalU, error), fixed [][]byte) pipeline {
		cname := map[string]string{"": "none", "gzip": "gzip", "bzip2": "bzip2", "zstd": "zstd"}[kind]
		p := pipeline{name: name + "-" + cname, wrapper: kind, valid: validWrapped(kind, validOVAL), fixed: fixed,
			run: func(b body) result {
				u, err := mk("http://feeds.test/oval.xml", cname)
				if err != nil {
					return result{kind: "panic"}
				}
				if err := u.Configure(bg, noConfig, client(one("oval.xml", b)...)); err != nil {
					return result{kind: "panic"}
				}
				return fetchParse(u)
			}}
		if kind == "" {
			p.class = name
		}
		if fixed == nil {
			p.gen = func(rnd *hx.Rand, n int) []byte { return compress(kind, genOVAL(rnd, fl, n)) }
		}
		return p
	}
	mkOracle := func(uri, comp string) (ovalU, error) { return oracle.NewUpdater(2021, oracle.WithURL(uri, comp)) }
	mkSuse := func(uri, comp string) (ovalU, error) {
		return suse.NewUpdater(&claircore.Distribution{Name: "SUSE Linux Enterprise Server", Version: "15", DID: "sles", VersionID: "15", PrettyName: "SUSE Linux Enterprise Server 15"}, suse.WithURL(uri, comp))
	}
	mkPhoton := func(uri, comp string) (ovalU, error) {
		return photon.NewUpdater(photon.Photon3, photon.WithURL(uri, comp))
	}
	ps = append(ps, ovalPipe("oracle", "bzip2", flavorOracle, mkOracle, loadCorpus(corpus, ".oracle.xml.bz2")))
	ps = append(ps, ovalPipe("suse", "gzip", flavorSuse, mkSuse, nil))
	ps = append(ps, ovalPipe("suse", "zstd", flavorSuse, mkSuse, nil))
	ps = append(ps, ovalPipe("photon", "gzip", flavorPhoton, mkPhoton, nil))
	ps = append(ps, ovalPipe("photon", "", flavorPhoton, mkPhoton, nil))

	// aws: mirror list, repomd.xml, then the gzip'd updateinfo
	repomd := []byte(`<?xml version="1.0" encoding="UTF-8"?><repomd xmlns="http://linux.duke.edu/metadata/repo"><revision>1</revision><data type="updateinfo"><checksum type="sha256">abc</checksum><location href="repodata/updateinfo.xml.gz"/></data></repomd>`)
	ps = append(ps, pipeline{name: "aws", wrapper: "gzip", gen: func(rnd *hx.Rand, n int) []byte { return gz(genAWS(rnd, n)) }, valid: validAWS,
		run: func(b body) result {
			c := client(
				suffix("mirror.list", nil, func() body { return body{data: []byte("http://mirror.test/al1\n")} }),
				suffix("repomd.xml", nil, func() body { return body{data: repomd} }),
				suffix("updateinfo.xml.gz", nil, func() body { return b }))
			u, _ := aws.NewUpdater(aws.AmazonLinux1)
			u.Configure(bg, noConfig, c)
			return fetchParse(u)
		}})

	// osv: the ecosystem's all.zip
	ps = append(ps, pipeline{name: "osv", wrapper: "zip", gen: func(rnd *hx.Rand, n int) []byte {
		method := uint16(8)
		if rnd.Chance(1, 3) {
			method = 0
		}
		return genOSVInner(rnd, "Go", n, method)
	}, valid: func(b []byte) bool { return validOSV(wrapOSVOuter("Go", b)) },
		run: func(b body) result {
			uri, _ := url.Parse("http://osv.test/Go/all.zip")
			return fetchParse(osv.UpdaterForC15(client(one("all.zip", b)...), uri, "Go"))
		}})

	// epss: gzip'd CSV
	ps = append(ps, pipeline{name: "epss", wrapper: "gzip", gen: func(rnd *hx.Rand, n int) []byte { return gz(genEPSSCSV(rnd, 2*n)) },
		valid: validWrapped("gzip", validEPSSCSV),
		run: func(b body) result {
			e := &epss.Enricher{}
			u := "http://epss.test/epss_scores-2024-10-25.csv.gz"
			if err := e.Configure(bg, jsonConfig(map[string]string{"url": u}), client(one(".csv.gz", b)...)); err != nil {
				return result{kind: "panic"}
			}
			return fetchParseEnrichment(e)
		}})

	// cvss: one .meta and one .json.gz per year; the damaged download is the year 2002 file
	ps = append(ps, pipeline{name: "cvss", wrapper: "gzip", gen: func(rnd *hx.Rand, n int) []byte { return gz(genNVD(rnd, 2002, 2*n)) },
		valid: validWrapped("gzip", validNVD),
		run: func(b body) result {
			other := gz([]byte(`{"CVE_data_numberOfCVEs":"1","CVE_Items":[{"cve":{"CVE_data_meta":{"ID":"CVE-2003-0001"}},"impact":{"baseMetricV3":{"cvssV3":{"version":"3.1","vectorString":"CVSS:3.1/AV:N/AC:L/PR:N/UI:N/S:U/C:H/I:H/A:H","baseScore":9.8}}}}]}`))
			meta := []byte("lastModifiedDate:2021-06-16T03:08:30-04:00\r\nsize:10\r\nzipSize:10\r\ngzSize:10\r\nsha256:AB\r\n")
			c := client(
				suffix(".meta", nil, func() body { return body{data: meta} }),
				suffix("nvdcve-1.1-2002.json.gz", nil, func() body { return b }),
				suffix(".json.gz", nil, func() body { return body{data: other} }))
			e := &cvss.Enricher{}
			root := "http://nvd.test/feeds/"
			if err := e.Configure(bg, jsonConfig(map[string]*string{"feed_root": &root}), c); err != nil {
				return result{kind: "panic"}
			}
			return fetchParseEnrichment(e)
		}})

	// vex: archive_latest.txt, HEAD + GET of the tar.zst archive, empty changes/deletions
	ps = append(ps, pipeline{name: "vex", wrapper: "tar.zst", gen: func(rnd *hx.Rand, n int) []byte { return genVEXArchive(rnd, n) },
		valid: validVEXArchive,
		run: func(b body) result {
			lm := map[string]string{"last-modified": "Mon, 02 Jan 2006 15:04:05 GMT", "etag": `"a"`}
			c := client(
				suffix("archive_latest.txt", nil, func() body { return body{data: []byte("csaf_vex_2024-05-01.tar.zst")} }),
				suffix("changes.csv", lm, func() body { return body{} }),
				suffix("deletions.csv", lm, func() body { return body{} }),
				suffix(".tar.zst", lm, func() body { return b }))
			f := &vex.Factory{}
			if err := f.Configure(bg, jsonConfig(map[string]string{"url": "http://vex.test/data/"}), c); err != nil {
				return result{kind: "panic"}
			}
			us, err := f.UpdaterSet(bg)
			if err != nil || len(us.Updaters()) != 1 {
				return result{kind: "panic"}
			}
			return fetchParse(us.Updaters()[0])
		}})
	return ps
}

var errTransport = errors.New("c15: transport: connection reset")

// sweepPipeline applies cuts (clean close and transport error) and flips to
// the download of one pipeline.
func sweepPipeline(r *hx.Run, p *pipeline, transit []byte, idx int, rnd *hx.Rand, cfg hx.Config) {
	intact := guard(func() result { return p.run(body{data: transit}) })
	r.Count("pipe-feed:" + p.name)
	if !intact.ok() {
		r.Fail("", fmt.Sprintf("pipeline does not parse a valid download: pipeline=%s result=%s transit=%s", p.name, intact.kind, hx.Hex(transit)))
		return
	}
	if p.valid != nil && !p.valid(transit) {
		r.Fail("", fmt.Sprintf("harness validator rejects a valid download: pipeline=%s transit=%s", p.name, hx.Hex(transit)))
		return
	}
	if len(intact.items) == 0 {
		r.Count("pipe-intact-empty:" + p.name)
	}
	f := &feed{t: &target{name: "pipe-" + p.name, valid: p.valid, class: p.class}, idx: idx, spool: transit, intact: intact}
	m := len(transit)
	budget := cfg.N(500, 4000)
	stride := 1
	if m > budget {
		stride = (m + budget - 1) / budget
	}
	var ks []int
	for k := rnd.Intn(stride); k < m; k += stride {
		ks = append(ks, k)
	}
	// always the structural ends
	for _, k := range []int{0, 1, m - 1, m - 2, m - 8, m - 9, m - 22} {
		if k >= 0 && k < m {
			ks = append(ks, k)
		}
	}
	cuts := parMap(len(ks), func(i int) result { return guard(func() result { return p.run(body{data: transit[:ks[i]]}) }) })
	cutsE := parMap(len(ks), func(i int) result {
		return guard(func() result { return p.run(body{data: transit[:ks[i]], term: io.ErrUnexpectedEOF}) })
	})
	for i, k := range ks {
		if r.Stop() {
			return
		}
		r.Case(fmt.Sprintf("pipe %s#%d cut %d", p.name, idx, k), true)
		judge(r, f, "pipe-cut", fmt.Sprintf("download-cut@%d/%d clean-close", k, m), transit[:k], true, cuts[i])
		r.Case(fmt.Sprintf("pipe %s#%d cut-err %d", p.name, idx, k), true)
		judge(r, f, "pipe-cuterr", fmt.Sprintf("download-cut@%d/%d transport-error", k, m), nil, false, cutsE[i])
	}
	type dmg struct {
		desc string
		data []byte
	}
	var ds []dmg
	for _, k := range ks {
		x := byte(1) << uint(rnd.Intn(8))
		ds = append(ds, dmg{fmt.Sprintf("flip@%d^%#02x", k, x), flipped(transit, k, x)})
		if sc := structural[rnd.Intn(len(structural))]; sc != transit[k] {
			ds = append(ds, dmg{fmt.Sprintf("flip@%d^%#02x", k, sc^transit[k]), flipped(transit, k, sc^transit[k])})
		}
		if rnd.Chance(1, 6) {
			n := 1 + rnd.Intn(3)
			ds = append(ds, dmg{fmt.Sprintf("delete@%d+%d", k, n), deleted(transit, k, n)})
		}
	}
	fl := parMap(len(ds), func(i int) result { return guard(func() result { return p.run(body{data: ds[i].data}) }) })
	for i, d := range ds {
		if r.Stop() {
			return
		}
		r.Case(fmt.Sprintf("pipe %s#%d %s", p.name, idx, d.desc), true)
		judge(r, f, "pipe-flip", "download-"+d.desc, d.data, true, fl[i])
	}
}

func runPipelines(r *hx.Run, rnd *hx.Rand, cfg hx.Config) {
	ps := pipelines(cfg.Corpus)
	for pi := range ps {
		p := &ps[pi]
		if p.gen == nil {
			if len(p.fixed) == 0 {
				r.Count("pipe-skipped-no-corpus:" + p.name)
				continue
			}
			n := cfg.N(1, len(p.fixed))
			for i := 0; i < n && i < len(p.fixed) && !r.Stop(); i++ {
				sweepPipeline(r, p, p.fixed[(i+int(cfg.Seed))%len(p.fixed)], i, rnd.Fork(), cfg)
			}
			continue
		}
		for i := 0; i < cfg.N(1, 5) && !r.Stop(); i++ {
			transit := p.gen(rnd, 1+rnd.Intn(cfg.N(2, 4)))
			sweepPipeline(r, p, transit, i, rnd.Fork(), cfg)
		}
	}
}
