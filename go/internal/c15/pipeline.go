package c15

import (
	"archive/tar"
	"bytes"
	"compress/bzip2"
	"compress/gzip"
	"context"
	"encoding/json"
	"errors"
	"fmt"
	"io"
	"net/http"
	"net/url"
	"os"
	"path/filepath"
	"sort"
	"strconv"
	"strings"
	"time"

	"github.com/klauspost/compress/zstd"

	"github.com/quay/claircore"
	"github.com/quay/claircore/alpine"
	"github.com/quay/claircore/aws"
	"github.com/quay/claircore/debian"
	"github.com/quay/claircore/enricher/cvss"
	"github.com/quay/claircore/enricher/epss"
	"github.com/quay/claircore/libvuln/driver"
	"github.com/quay/claircore/oracle"
	"github.com/quay/claircore/photon"
	"github.com/quay/claircore/rhel/vex"
	"github.com/quay/claircore/suse"
	"github.com/quay/claircore/ubuntu"
	"github.com/quay/claircore/updater/osv"
	"github.com/quay/claircore/verifharness/internal/hx"
	"github.com/quay/claircore/verifharness/internal/registry"
)

// The pipeline layer runs the updaters end to end the way driveUpdater does —
// Fetch (or FetchEnrichment) over an in-process HTTP transport, then Parse
// (DeltaParse, ParseEnrichment) of what Fetch returned — with the damage
// applied to the bytes in transit.

// body is one HTTP response body: the bytes, and how the transport ends the
// body after them (nil = clean EOF, as a connection closed without a declared
// length looks; otherwise the error the transport reports).
type body struct {
	data []byte
	term error
	// script, if set, is served instead of data/term: status, framing,
	// declared length, read boundaries and terminal as a correct HTTP/1.1
	// client delivers them (registry.Transport)
	script *registry.Response
	// status, if not 0, is the response status (with data as the body)
	status int
	// reader, if set, is the body itself (read boundaries and terminal error
	// are the reader's)
	reader func() io.Reader
}

type route func(req *http.Request) (status int, hdr map[string]string, b body, ok bool)

type rtFunc func(*http.Request) (*http.Response, error)

func (f rtFunc) RoundTrip(r *http.Request) (*http.Response, error) { return f(r) }

type termReader struct {
	r    io.Reader
	term error
}

func (t *termReader) Read(p []byte) (int, error) {
	n, err := t.r.Read(p)
	if err == io.EOF && t.term != nil {
		return n, t.term
	}
	return n, err
}

func client(routes ...route) *http.Client {
	return &http.Client{Transport: rtFunc(func(req *http.Request) (*http.Response, error) {
		for _, rt := range routes {
			if st, hdr, b, ok := rt(req); ok {
				if b.status != 0 {
					st = b.status
				}
				h := http.Header{}
				for k, v := range hdr {
					h.Set(k, v)
				}
				if st == 200 && notModified(req, h) {
					return &http.Response{StatusCode: 304, Status: "304 Not Modified", Proto: "HTTP/1.1", ProtoMajor: 1, ProtoMinor: 1,
						Header: h, Body: io.NopCloser(bytes.NewReader(nil)), ContentLength: 0, Request: req}, nil
				}
				if b.script != nil && req.Method != http.MethodHead {
					sc := b.script.Clone()
					for k, v := range hdr {
						if sc.Header.Get(k) == "" {
							sc.Header.Set(k, v)
						}
					}
					t := registry.NewTransport()
					t.Set(req.URL.Path, sc)
					return t.RoundTrip(req)
				}
				var rd io.Reader = bytes.NewReader(b.data)
				if b.reader != nil {
					rd = b.reader()
				}
				if req.Method == http.MethodHead {
					rd = bytes.NewReader(nil)
				} else if b.term != nil {
					rd = &termReader{r: rd, term: b.term}
				}
				return &http.Response{StatusCode: st, Status: fmt.Sprintf("%d %s", st, http.StatusText(st)), Proto: "HTTP/1.1", ProtoMajor: 1, ProtoMinor: 1,
					Header: h, Body: io.NopCloser(rd), ContentLength: -1, Request: req}, nil
			}
		}
		return &http.Response{StatusCode: 404, Status: "404 Not Found", Proto: "HTTP/1.1", ProtoMajor: 1, ProtoMinor: 1,
			Header: http.Header{}, Body: io.NopCloser(bytes.NewReader(nil)), ContentLength: -1, Request: req}, nil
	})}
}

// notModified is a server's answer to a conditional request: the validator
// the client sent names the version being served.
func notModified(req *http.Request, h http.Header) bool {
	if v := req.Header.Get("If-None-Match"); v != "" && v == h.Get("etag") {
		return true
	}
	if v := req.Header.Get("If-Modified-Since"); v != "" && v == h.Get("last-modified") {
		return true
	}
	return false
}

// version is the version of the feed being served ("#version" among the
// secondary downloads; default "1"): it names the validators of the responses
// and the checksums in the metadata files.
func version(aux map[string]body) string {
	if b, ok := aux["#version"]; ok {
		return string(b.data)
	}
	return "1"
}

func hdrFor(aux map[string]body) map[string]string {
	v := version(aux)
	sec := 5
	if n, err := strconv.Atoi(v); err == nil {
		sec = 4 + n
	}
	return map[string]string{"etag": `"e` + v + `"`, "last-modified": time.Date(2006, 1, 2, 15, 4, sec, 0, time.UTC).Format(http.TimeFormat)}
}

func suffix(sfx string, hdr map[string]string, b func() body) route {
	return func(req *http.Request) (int, map[string]string, body, bool) {
		if strings.HasSuffix(req.URL.Path, sfx) {
			return 200, hdr, b(), true
		}
		return 0, nil, body{}, false
	}
}

func noConfig(any) error { return nil }

func jsonConfig(v any) driver.ConfigUnmarshaler {
	return func(dst any) error {
		b, err := json.Marshal(v)
		if err != nil {
			return err
		}
		return json.Unmarshal(b, dst)
	}
}

// fetchParse is driveUpdater's Fetch → Parse for a vulnerability updater.
func fetchParse(u driver.Updater) result {
	ctx, done := context.WithTimeout(bg, 15*time.Second)
	defer done()
	rc, _, err := u.Fetch(ctx, "")
	if rc != nil {
		defer rc.Close()
	}
	if err != nil {
		return result{kind: "err", fetchFailed: true}
	}
	if du, ok := u.(driver.DeltaUpdater); ok {
		vs, del, err := du.DeltaParse(ctx, rc)
		res := vulnResult(vs, err)
		if err == nil {
			for _, d := range del {
				res.items = append(res.items, "deleted:"+d)
			}
			sort.Strings(res.items)
		}
		return res
	}
	return vulnResult(u.Parse(ctx, rc))
}

func fetchParseEnrichment(e driver.EnrichmentUpdater) result {
	ctx, done := context.WithTimeout(bg, 15*time.Second)
	defer done()
	rc, _, err := e.FetchEnrichment(ctx, "")
	if rc != nil {
		defer rc.Close()
	}
	if err != nil {
		return result{kind: "err", fetchFailed: true}
	}
	return enrichResult(e.ParseEnrichment(ctx, rc))
}

// A pipeline is one updater end to end: its primary download (the feed) and
// its secondary downloads (mirror list, metadata, change lists), each of which
// can be damaged in transit.
type pipeline struct {
	name    string
	wrapper string
	gen     func(rnd *hx.Rand, size int) []byte // the primary download (bytes in transit)
	// genStored is the same download with a wrapper that stores the
	// plaintext verbatim (nil: the pipeline has no such form)
	genStored func(rnd *hx.Rand, size int) []byte
	valid     func(transit []byte) bool
	fixed     [][]byte // fixed transit bodies (corpus) used instead of gen
	// class is the target whose still-valid finding this pipeline shares
	// (only the uncompressed downloads have one)
	class string
	// site gives the intact secondary downloads by name, derived from the
	// intact primary download (nil: the pipeline has none)
	site func(primary []byte) map[string][]byte
	// routes serves the primary download b and the secondary downloads aux
	// (every name of site must be present)
	routes func(b body, aux map[string]body) []route
	// mk makes the unconfigured updater over a client, and its configuration
	mk func(c *http.Client) (driver.Updater, driver.ConfigUnmarshaler, error)
	// plain is the text the modelled read loop consumes, for an intact primary
	// download (nil: no model line for transfers of this pipeline)
	plain func(transit []byte) []byte
	// loop is the model's read loop over plain; stage says where the
	// decompressor sits: "" (none) | "fetch" (Fetch decompresses into the
	// spool) | "aws" (Fetch spools compressed bytes, Parse decompresses) |
	// "inline" (Fetch decompresses and runs the loop itself: epss, cvss)
	loop, stage string
	// partValid says whether a damaged secondary download is by itself a
	// valid file of its kind (then a success with other content is the
	// pipeline's listed finding partClass)
	partValid func(name string) func([]byte) bool
	partClass string
	// path is the URL path of the primary download (pipelines with a single
	// download; used to serve it from the loopback server)
	path string
}

// intactAux is the map of undamaged secondary downloads.
func (p *pipeline) intactAux(primary []byte) map[string]body {
	if p.site == nil {
		return nil
	}
	out := map[string]body{}
	for k, v := range p.site(primary) {
		out[k] = body{data: v}
	}
	return out
}

// runSite runs Fetch and Parse of a fresh updater over the given downloads.
func (p *pipeline) runSite(b body, aux map[string]body) result {
	return p.runClient(client(p.routes(b, aux)...))
}

// runClient runs Fetch and Parse of a fresh updater over an HTTP client.
func (p *pipeline) runClient(c *http.Client) result {
	u, cfg, err := p.mk(c)
	if err != nil {
		return result{kind: "panic"}
	}
	if cf, ok := u.(driver.Configurable); ok {
		if cfg == nil {
			cfg = noConfig
		}
		if err := cf.Configure(bg, cfg, c); err != nil {
			return result{kind: "panic"}
		}
	}
	if e, ok := u.(driver.EnrichmentUpdater); ok {
		return fetchParseEnrichment(e)
	}
	return fetchParse(u)
}

func decompressAll(kind string, b []byte) ([]byte, bool) {
	var r io.Reader
	switch kind {
	case "gzip":
		zr, err := gzip.NewReader(bytes.NewReader(b))
		if err != nil {
			return nil, false
		}
		r = zr
	case "bzip2":
		r = bzip2.NewReader(bytes.NewReader(b))
	case "zstd":
		zr, err := zstd.NewReader(bytes.NewReader(b))
		if err != nil {
			return nil, false
		}
		defer zr.Close()
		r = zr
	default:
		return b, true
	}
	p, err := io.ReadAll(r)
	return p, err == nil
}

func validWrapped(kind string, inner func([]byte) bool) func([]byte) bool {
	return func(b []byte) bool {
		p, ok := decompressAll(kind, b)
		return ok && inner(p)
	}
}

func compress(kind string, b []byte) []byte {
	switch kind {
	case "gzip":
		return gz(b)
	case "zstd":
		return zst(b)
	}
	return b
}

// loadCorpus returns the files of the corpus directory with the given suffix, by name.
func loadCorpus(dir, sfx string) [][]byte {
	var out [][]byte
	if dir == "" {
		return nil
	}
	names, _ := filepath.Glob(filepath.Join(dir, "*"+sfx))
	sort.Strings(names)
	for _, n := range names {
		if b, err := os.ReadFile(n); err == nil {
			out = append(out, b)
		}
	}
	return out
}

var awsRepomd = []byte(`<?xml version="1.0" encoding="UTF-8"?><repomd xmlns="http://linux.duke.edu/metadata/repo"><revision>1</revision><data type="primary_db"><checksum type="sha256">p0</checksum><location href="repodata/primary.sqlite.bz2"/></data><data type="updateinfo"><checksum type="sha256">abc</checksum><location href="repodata/updateinfo.xml.gz"/><timestamp>1600000000</timestamp><size>10</size></data></repomd>` + "\n")

var cvssMeta = []byte("lastModifiedDate:2021-06-16T03:08:30-04:00\r\nsize:10\r\nzipSize:10\r\ngzSize:10\r\nsha256:AB\r\n")

var cvssOther = gz([]byte(`{"CVE_data_numberOfCVEs":"1","CVE_Items":[{"cve":{"CVE_data_meta":{"ID":"CVE-2003-0001"}},"impact":{"baseMetricV3":{"cvssV3":{"version":"3.1","vectorString":"CVSS:3.1/AV:N/AC:L/PR:N/UI:N/S:U/C:H/I:H/A:H","baseScore":9.8}}}}]}`))

func pipelines(corpus string) []pipeline {
	var ps []pipeline
	one := func(sfx string) func(b body, aux map[string]body) []route {
		return func(b body, aux map[string]body) []route {
			return []route{suffix(sfx, hdrFor(aux), func() body { return b })}
		}
	}
	ident := func(b []byte) []byte { return b }

	ps = append(ps, pipeline{name: "alpine", class: "alpine", gen: func(rnd *hx.Rand, n int) []byte { return genAlpine(rnd, n) }, valid: validAlpine,
		routes: one("main.json"), plain: ident, loop: "one-json-end", path: "/v3.10/main.json",
		mk: func(c *http.Client) (driver.Updater, driver.ConfigUnmarshaler, error) {
			return alpine.UpdaterForC15(c, "http://feeds.test/v3.10/main.json", 3, 10, "main"), nil, nil
		}})
	ps = append(ps, pipeline{name: "debian", class: "debian", gen: func(rnd *hx.Rand, n int) []byte { return genDebian(rnd, n) }, valid: validDebian,
		routes: one("json"), plain: ident, loop: "one-json-end", path: "/tracker/data/json",
		mk: func(c *http.Client) (driver.Updater, driver.ConfigUnmarshaler, error) {
			return debian.UpdaterForC15(c, "http://feeds.test/tracker/data/json", debianReleases), nil, nil
		}})
	ps = append(ps, pipeline{name: "ubuntu-plain", class: "ubuntu", gen: func(rnd *hx.Rand, n int) []byte { return genOVAL(rnd, flavorUbuntu, n) }, valid: validOVAL,
		routes: one("oval.xml"), plain: ident, loop: "one-xml", path: "/oval.xml",
		mk: func(c *http.Client) (driver.Updater, driver.ConfigUnmarshaler, error) {
			return ubuntu.UpdaterForC15(c, "http://feeds.test/oval.xml", false, "focal", "20.04"), nil, nil
		}})
	unz := func(kind string) func([]byte) []byte {
		return func(b []byte) []byte { p, _ := decompressAll(kind, b); return p }
	}
	ps = append(ps, pipeline{name: "ubuntu-bzip2", wrapper: "bzip2", fixed: loadCorpus(corpus, ".ubuntu.xml.bz2"), valid: validWrapped("bzip2", validOVAL),
		routes: one("oval.xml.bz2"), plain: unz("bzip2"), loop: "one-xml", stage: "fetch", path: "/oval.xml.bz2",
		mk: func(c *http.Client) (driver.Updater, driver.ConfigUnmarshaler, error) {
			return ubuntu.UpdaterForC15(c, "http://feeds.test/oval.xml.bz2", true, "focal", "20.04"), nil, nil
		}})

	// the three ovalutil.Fetcher users, each with the compressions it is used with
	ovalPipe := func(name, kind string, fl ovalFlavor, mk func(uri, comp string) (driver.Updater, error), fixed [][]byte) pipeline {
		cname := map[string]string{"": "none", "gzip": "gzip", "bzip2": "bzip2", "zstd": "zstd"}[kind]
		p := pipeline{name: name + "-" + cname, wrapper: kind, valid: validWrapped(kind, validOVAL), fixed: fixed,
			routes: one("oval.xml"), plain: unz(kind), loop: "one-xml", stage: "fetch", path: "/oval.xml",
			mk: func(c *http.Client) (driver.Updater, driver.ConfigUnmarshaler, error) {
				u, err := mk("http://feeds.test/oval.xml", cname)
				return u, noConfig, err
			}}
		if kind == "" {
			p.class = name
			p.stage = ""
		}
		if fixed == nil {
			p.gen = func(rnd *hx.Rand, n int) []byte { return compress(kind, genOVAL(rnd, fl, n)) }
		}
		switch kind {
		case "gzip":
			p.genStored = func(rnd *hx.Rand, n int) []byte { return gzStored(genOVAL(rnd, fl, n)) }
		case "zstd":
			p.genStored = func(rnd *hx.Rand, n int) []byte { return zstRaw(genOVAL(rnd, fl, n)) }
		}
		return p
	}
	mkOracle := func(uri, comp string) (driver.Updater, error) {
		return oracle.NewUpdater(2021, oracle.WithURL(uri, comp))
	}
	mkSuse := func(uri, comp string) (driver.Updater, error) {
		return suse.NewUpdater(&claircore.Distribution{Name: "SUSE Linux Enterprise Server", Version: "15", DID: "sles", VersionID: "15", PrettyName: "SUSE Linux Enterprise Server 15"}, suse.WithURL(uri, comp))
	}
	mkPhoton := func(uri, comp string) (driver.Updater, error) {
		return photon.NewUpdater(photon.Photon3, photon.WithURL(uri, comp))
	}
	ps = append(ps, ovalPipe("oracle", "bzip2", flavorOracle, mkOracle, loadCorpus(corpus, ".oracle.xml.bz2")))
	ps = append(ps, ovalPipe("suse", "gzip", flavorSuse, mkSuse, nil))
	ps = append(ps, ovalPipe("suse", "zstd", flavorSuse, mkSuse, nil))
	ps = append(ps, ovalPipe("photon", "gzip", flavorPhoton, mkPhoton, nil))
	ps = append(ps, ovalPipe("photon", "", flavorPhoton, mkPhoton, nil))

	// aws: mirror list, repomd.xml, then the gzip'd updateinfo
	ps = append(ps, pipeline{name: "aws", wrapper: "gzip", gen: func(rnd *hx.Rand, n int) []byte { return gz(genAWS(rnd, n)) }, valid: validAWS,
		genStored: func(rnd *hx.Rand, n int) []byte { return gzStored(genAWS(rnd, n)) },
		plain:     unz("gzip"), loop: "one-xml-drain", stage: "aws",
		site: func([]byte) map[string][]byte {
			return map[string][]byte{"mirror.list": []byte("http://mirror.test/al1\nhttp://mirror2.test/al1\n"), "repomd.xml": awsRepomd}
		},
		routes: func(b body, aux map[string]body) []route {
			return []route{
				suffix("mirror.list", nil, func() body { return aux["mirror.list"] }),
				suffix("repomd.xml", nil, func() body {
					b := aux["repomd.xml"]
					b.data = bytes.Replace(b.data, []byte(">abc<"), []byte(">abc"+version(aux)+"<"), 1)
					return b
				}),
				suffix("updateinfo.xml.gz", nil, func() body { return b })}
		},
		mk: func(c *http.Client) (driver.Updater, driver.ConfigUnmarshaler, error) {
			u, err := aws.NewUpdater(aws.AmazonLinux1)
			return u, noConfig, err
		}})

	// osv: the ecosystem's all.zip
	ps = append(ps, pipeline{name: "osv", wrapper: "zip", gen: func(rnd *hx.Rand, n int) []byte {
		method := uint16(8)
		if rnd.Chance(1, 3) {
			method = 0
		}
		return genOSVInner(rnd, "Go", n, method)
	}, valid: func(b []byte) bool { return validOSV(wrapOSVOuter("Go", b)) },
		routes: one("all.zip"), path: "/Go/all.zip",
		mk: func(c *http.Client) (driver.Updater, driver.ConfigUnmarshaler, error) {
			uri, _ := url.Parse("http://osv.test/Go/all.zip")
			return osv.UpdaterForC15(c, uri, "Go"), nil, nil
		}})

	ps = append(ps, pipeline{name: "osv-pypi", wrapper: "zip", gen: func(rnd *hx.Rand, n int) []byte { return genOSVInner(rnd, "PyPI", n, 8) },
		valid:  func(b []byte) bool { return validOSV(wrapOSVOuter("PyPI", b)) },
		routes: one("all.zip"), path: "/PyPI/all.zip",
		mk: func(c *http.Client) (driver.Updater, driver.ConfigUnmarshaler, error) {
			uri, _ := url.Parse("http://osv.test/PyPI/all.zip")
			return osv.UpdaterForC15(c, uri, "PyPI"), nil, nil
		}})

	// epss: gzip'd CSV
	ps = append(ps, pipeline{name: "epss", wrapper: "gzip", gen: func(rnd *hx.Rand, n int) []byte { return gz(genEPSSCSV(rnd, 2*n)) },
		genStored: func(rnd *hx.Rand, n int) []byte { return gzStored(genEPSSCSV(rnd, 2*n)) },
		valid:     validWrapped("gzip", validEPSSCSV), routes: one(".csv.gz"), plain: unz("gzip"), loop: "csv-epss", stage: "inline", path: "/epss_scores-2024-10-25.csv.gz",
		mk: func(c *http.Client) (driver.Updater, driver.ConfigUnmarshaler, error) {
			return &epss.Enricher{}, jsonConfig(map[string]string{"url": "http://epss.test/epss_scores-2024-10-25.csv.gz"}), nil
		}})

	// cvss: one .meta and one .json.gz per year; the damaged download is the year 2002 file
	ps = append(ps, pipeline{name: "cvss", wrapper: "gzip", gen: func(rnd *hx.Rand, n int) []byte { return gz(genNVD(rnd, 2002, 2*n)) },
		genStored: func(rnd *hx.Rand, n int) []byte { return gzStored(genNVD(rnd, 2002, 2*n)) },
		valid:     validWrapped("gzip", validNVD), plain: unz("gzip"), loop: "one-json-drain", stage: "inline",
		site: func([]byte) map[string][]byte { return map[string][]byte{"meta": cvssMeta, "other-year": cvssOther} },
		routes: func(b body, aux map[string]body) []route {
			return []route{
				suffix("nvdcve-1.1-2003.meta", nil, func() body { return aux["meta"] }),
				suffix(".meta", nil, func() body {
					return body{data: bytes.Replace(cvssMeta, []byte("sha256:AB"), []byte("sha256:AB"+version(aux)), 1)}
				}),
				suffix("nvdcve-1.1-2002.json.gz", nil, func() body { return b }),
				suffix("nvdcve-1.1-2003.json.gz", nil, func() body { return aux["other-year"] }),
				suffix(".json.gz", nil, func() body { return body{data: cvssOther} })}
		},
		mk: func(c *http.Client) (driver.Updater, driver.ConfigUnmarshaler, error) {
			root := "http://nvd.test/feeds/"
			return &cvss.Enricher{}, jsonConfig(map[string]*string{"feed_root": &root}), nil
		}})

	// vex: archive_latest.txt, HEAD + GET of the tar.zst archive, changes.csv
	// (with one GET per changed advisory) and deletions.csv
	ps = append(ps, pipeline{name: "vex", wrapper: "tar.zst", gen: func(rnd *hx.Rand, n int) []byte { return genVEXArchive(rnd, n+2) },
		genStored: func(rnd *hx.Rand, n int) []byte { return genVEXArchiveRaw(rnd, n+2) },
		valid:     validVEXArchive, site: vexSite,
		partValid: func(name string) func([]byte) bool {
			switch {
			case strings.HasSuffix(name, ".csv"):
				return validVEXCSV
			case strings.HasSuffix(name, ".json"):
				return validCSAF
			}
			return nil
		}, partClass: "still-valid-vex-plain",
		routes: func(b body, aux map[string]body) []route {
			rs := []route{
				suffix("archive_latest.txt", nil, func() body { return aux["archive_latest.txt"] }),
				suffix("changes.csv", hdrFor(aux), func() body { return aux["changes.csv"] }),
				suffix("deletions.csv", hdrFor(aux), func() body { return aux["deletions.csv"] }),
				suffix(".tar.zst", hdrFor(aux), func() body { return b })}
			for name := range aux {
				if strings.HasSuffix(name, ".json") {
					name := name
					rs = append(rs, suffix("/"+name, nil, func() body { return aux[name] }))
				}
			}
			return rs
		},
		mk: func(c *http.Client) (driver.Updater, driver.ConfigUnmarshaler, error) {
			// through the factory, as in production (it sets the archive timeout)
			f := &vex.Factory{}
			cfg := jsonConfig(map[string]string{"url": "http://vex.test/data/"})
			if err := f.Configure(bg, cfg, c); err != nil {
				return nil, nil, err
			}
			us, err := f.UpdaterSet(bg)
			if err != nil || len(us.Updaters()) != 1 {
				return nil, nil, errors.New("vex factory")
			}
			return us.Updaters()[0], cfg, nil
		}})
	return ps
}

// vexSite derives the secondary downloads of the vex updater from the
// archive: every second advisory (from the second) has changed since the
// archive was made and is served in a newer version, every third (from the
// third) has been deleted.
func vexSite(archive []byte) map[string][]byte {
	out := map[string][]byte{"archive_latest.txt": []byte("csaf_vex_2024-05-01.tar.zst")}
	plain, _ := decompressAll("zstd", archive)
	tr := tar.NewReader(bytes.NewReader(plain))
	var changes, deletions bytes.Buffer
	for i := 0; ; i++ {
		h, err := tr.Next()
		if err != nil {
			break
		}
		b, _ := io.ReadAll(tr)
		switch {
		case i%3 == 2:
			fmt.Fprintf(&deletions, "%q,%q\n", h.Name, "2024-05-02T10:00:00+00:00")
		case i%2 == 1:
			fmt.Fprintf(&changes, "%q,%q\n", h.Name, "2024-05-03T11:30:00+00:00")
			out[h.Name] = bytes.Replace(b, []byte("A flaw was found"), []byte("An updated flaw was found"), 1)
		}
	}
	out["changes.csv"] = changes.Bytes()
	out["deletions.csv"] = deletions.Bytes()
	return out
}

var errTransport = errors.New("c15: transport: connection reset")

// sweepPipeline applies cuts (clean close and transport error) and flips to
// the download of one pipeline.
func sweepPipeline(r *hx.Run, p *pipeline, transit []byte, idx int, rnd *hx.Rand, cfg hx.Config, div int) {
	aux := p.intactAux(transit)
	intact := guard(func() result { return p.runSite(body{data: transit}, aux) })
	r.Count("pipe-feed:" + p.name)
	if !intact.ok() {
		r.Fail("", fmt.Sprintf("pipeline does not parse a valid download: pipeline=%s result=%s transit=%s", p.name, intact.kind, hx.Hex(transit)))
		return
	}
	if p.valid != nil && !p.valid(transit) {
		r.Fail("", fmt.Sprintf("harness validator rejects a valid download: pipeline=%s transit=%s", p.name, hx.Hex(transit)))
		return
	}
	if len(intact.items) == 0 {
		r.Count("pipe-intact-empty:" + p.name)
	}
	f := &feed{t: &target{name: "pipe-" + p.name, valid: p.valid, class: p.class}, idx: idx, spool: transit, intact: intact}
	m := len(transit)
	budget := cfg.N(500, 4000) / div
	stride := 1
	if m > budget {
		stride = (m + budget - 1) / budget
	}
	var ks []int
	for k := rnd.Intn(stride); k < m; k += stride {
		ks = append(ks, k)
	}
	// always the structural ends
	for _, k := range []int{0, 1, m - 1, m - 2, m - 8, m - 9, m - 22} {
		if k >= 0 && k < m {
			ks = append(ks, k)
		}
	}
	cuts := parMap(len(ks), func(i int) result { return guard(func() result { return p.runSite(body{data: transit[:ks[i]]}, aux) }) })
	cutsE := parMap(len(ks), func(i int) result {
		return guard(func() result { return p.runSite(body{data: transit[:ks[i]], term: io.ErrUnexpectedEOF}, aux) })
	})
	for i, k := range ks {
		if r.Stop() {
			return
		}
		r.Case(fmt.Sprintf("pipe %s#%d cut %d", p.name, idx, k), true)
		judge(r, f, "pipe-cut", fmt.Sprintf("download-cut@%d/%d clean-close", k, m), transit[:k], true, cuts[i])
		r.Case(fmt.Sprintf("pipe %s#%d cut-err %d", p.name, idx, k), true)
		judge(r, f, "pipe-cuterr", fmt.Sprintf("download-cut@%d/%d transport-error", k, m), nil, false, cutsE[i])
	}
	type dmg struct {
		desc string
		data []byte
	}
	var ds []dmg
	for _, k := range ks {
		x := byte(1) << uint(rnd.Intn(8))
		ds = append(ds, dmg{fmt.Sprintf("flip@%d^%#02x", k, x), flipped(transit, k, x)})
		if sc := structural[rnd.Intn(len(structural))]; sc != transit[k] {
			ds = append(ds, dmg{fmt.Sprintf("flip@%d^%#02x", k, sc^transit[k]), flipped(transit, k, sc^transit[k])})
		}
		if rnd.Chance(1, 6) {
			n := 1 + rnd.Intn(3)
			ds = append(ds, dmg{fmt.Sprintf("delete@%d+%d", k, n), deleted(transit, k, n)})
		}
	}
	fl := parMap(len(ds), func(i int) result { return guard(func() result { return p.runSite(body{data: ds[i].data}, aux) }) })
	for i, d := range ds {
		if r.Stop() {
			return
		}
		r.Case(fmt.Sprintf("pipe %s#%d %s", p.name, idx, d.desc), true)
		judge(r, f, "pipe-flip", "download-"+d.desc, d.data, true, fl[i])
	}
}

func runPipelines(r *hx.Run, rnd *hx.Rand, cfg hx.Config) {
	ps := pipelines(cfg.Corpus)
	for pi := range ps {
		p := &ps[pi]
		if p.name == "osv-pypi" && !cfg.Thorough() {
			continue // the quick tier sweeps one ecosystem here; both under scripted framing
		}
		if p.gen == nil {
			if len(p.fixed) == 0 {
				r.Count("pipe-skipped-no-corpus:" + p.name)
				continue
			}
			n := cfg.N(1, len(p.fixed))
			for i := 0; i < n && i < len(p.fixed) && !r.Stop(); i++ {
				sweepPipeline(r, p, p.fixed[(i+int(cfg.Seed))%len(p.fixed)], i, rnd.Fork(), cfg, 1)
			}
			continue
		}
		for i := 0; i < cfg.N(1, 5) && !r.Stop(); i++ {
			transit := p.gen(rnd, 1+rnd.Intn(cfg.N(2, 4)))
			sweepPipeline(r, p, transit, i, rnd.Fork(), cfg, 1)
		}
		if p.genStored != nil && !r.Stop() {
			// the wrapper that stores: only its trailing checksum protects the content
			r.Count("pipe-stored:" + p.name)
			sweepPipeline(r, p, p.genStored(rnd, 1+rnd.Intn(2)), 100, rnd.Fork(), cfg, 3)
		}
	}
}
