// Package c15 sweeps damage over valid advisory feeds of every supported
// format: every strict prefix, readers failing with an injected error at
// every position, byte flips and deletions. Each damaged feed goes through
// the real Parse / DeltaParse / ParseEnrichment; the outcome class
// (err | equal | subset | different) is compared with the intact run. The
// read loops and framing scanners are modelled in Lean; protocol lines carry
// the model's prediction of the same runs.
package c15

import (
	"bytes"
	"context"
	"encoding/json"
	"fmt"
	"io"
	"os"
	"runtime"
	"sort"
	"strings"
	"sync"
	"time"

	"github.com/quay/zlog"
	"github.com/rs/zerolog"

	"github.com/quay/claircore/verifharness/internal/hx"
)

type feed struct {
	t      *target
	idx    int
	plain  []byte
	spool  []byte
	intact result
}

func (f *feed) id() string { return fmt.Sprintf("%s#%d", f.t.name, f.idx) }

func (f *feed) run(spool []byte) result {
	return guard(func() result { return f.t.parse(bytes.NewReader(spool), spool) })
}

func (f *feed) runReader(mk func() io.Reader) result {
	return guard(func() result { return f.t.parse(mk(), nil) })
}

// parMap evaluates f(0..n-1) on all cores, results in index order.
func parMap[T any](n int, f func(i int) T) []T {
	out := make([]T, n)
	w := runtime.GOMAXPROCS(0)
	if w > 16 {
		w = 16
	}
	var wg sync.WaitGroup
	ch := make(chan int, 256)
	for i := 0; i < w; i++ {
		wg.Add(1)
		go func() {
			defer wg.Done()
			for j := range ch {
				out[j] = f(j)
			}
		}()
	}
	for i := 0; i < n; i++ {
		ch <- i
	}
	close(ch)
	wg.Wait()
	return out
}

func witness(f *feed, damage string, cl string, got result) string {
	return fmt.Sprintf("target=%s damage=%s outcome=%s items=%d/%d spool=%s", f.t.name, damage, cl, len(got.items), len(f.intact.items), hx.Hex(f.spool))
}

// answer is the protocol form of an outcome.
func answer(f *feed, cl string, got result) string {
	switch f.t.loop {
	case "lines", "records", "records-cvss", "csv-epss", "csv-vex-del", "csv-vex-chg":
		if got.ok() {
			return fmt.Sprintf("ok %d", got.lines)
		}
		switch cl {
		case clEqual, clSubset:
			return fmt.Sprintf("ok %d", got.lines)
		}
		return cl
	default:
		if cl == clEqual {
			return "ok"
		}
		return cl
	}
}

// judge applies the property statement to one damaged run.
//   - err is always fine; equal is fine;
//   - panic / hang are never fine;
//   - success with other content is the violation, unless the damaged spool is
//     by itself a completely valid feed (then no parser can tell): a strict
//     subset of that kind is the target's listed finding, other content of that
//     kind is counted only.
func judge(r *hx.Run, f *feed, kind, damage string, damaged []byte, haveSpool bool, got result) string {
	cl := classify(f.intact, got)
	r.Count(kind + ":" + f.t.name + ":" + cl)
	switch cl {
	case clErr, clEqual:
		return cl
	case clSubset, clDifferent:
		if haveSpool && f.t.valid != nil && f.t.valid(damaged) {
			r.Count(kind + ":" + f.t.name + ":" + cl + ":still-valid-feed")
			if cl == clSubset {
				r.Fail(f.t.findingClass(), witness(f, damage, cl, got))
			}
			return cl
		}
		if haveSpool && f.t.special != nil {
			if id := f.t.special(damaged, f.intact, got, cl); id != "" {
				r.Count(kind + ":" + f.t.name + ":" + cl + ":" + id)
				r.Fail(id, witness(f, damage, cl, got))
				return cl
			}
		}
		r.Fail("", witness(f, damage, cl, got))
	default:
		r.Fail("", witness(f, damage, cl, got))
	}
	return cl
}

func isPrefix(p, whole []byte) bool { return len(p) <= len(whole) && bytes.Equal(p, whole[:len(p)]) }

func Run(cfg hx.Config) error {
	nop := zerolog.Nop()
	zlog.Set(&nop)
	r, err := hx.NewRun(cfg)
	if err != nil {
		return err
	}
	defer r.Close()
	r.Rule = "for every target (the real Parse / DeltaParse / ParseEnrichment of each feed format) generated valid feeds; every cut of the plaintext and of the compressed spool, an injected read error after every position (chunk sizes 1..4096, error delivered with or after the last bytes), byte flips and deletions over the spool; span deletions from a separator to a later closer; a table of semantic damage per parser; every updater's real Fetch behind scripted HTTP responses (framing length|chunked|close x declared length honest|short|long x ending clean|close|reset x read boundaries, five statuses), over an in-process transport and for a sample over loopback TCP with net/http; every secondary download cut and flipped; stored-wrapper forms (gzip level 0, raw zstd, padded tar) and multi-block bzip2 files bit-flipped in every part; the real Manager.Run for every updater and damage class, over damaged spools, and over histories of 6-10 runs against a store that hands back the last fingerprint; protocol lines carry the outcome class of the real code and must equal the model's; a case is non-trivial when the real code ran on a damaged input"
	rnd := hx.NewRand(cfg.Seed)
	ts := targets()
	r.Notes["targets"] = func() (s []string) {
		for _, t := range ts {
			s = append(s, t.name+":"+t.loop+":"+t.wrapper)
		}
		return
	}()
	t0 := time.Now()
	lap := func(what string) {
		if os.Getenv("C15_TIMING") != "" {
			fmt.Fprintf(os.Stderr, "c15 timing: %-12s %6.1fs\n", what, time.Since(t0).Seconds())
		}
	}
	defer lap("manager")
	replayKnown(r, ts)
	replayRegressions(r, ts)
	runSemantic(r, ts)
	nfeeds := cfg.N(2, 10)
	for ti := range ts {
		t := &ts[ti]
		nf := nfeeds
		if strings.HasSuffix(t.name, "-fetch") || strings.HasPrefix(t.name, "vex-") || t.name == "epss" {
			// (epss ParseEnrichment allocates room for 250000 records per call)
			// a run of these is a whole Fetch (dozens of requests): one feed in the quick tier
			nf = cfg.N(1, nfeeds)
		}
		for fi := 0; fi < nf && !r.Stop(); fi++ {
			size := 1 + rnd.Intn(cfg.N(2, 5))
			plain, spool := t.gen(rnd, size)
			f := &feed{t: t, idx: fi, plain: plain, spool: spool}
			f.intact = f.run(spool)
			r.Count("feed:" + t.name)
			r.Count(fmt.Sprintf("feedsize:%s:%dKiB", t.name, len(spool)/1024))
			if !f.intact.ok() {
				r.Fail("", fmt.Sprintf("generated valid feed does not parse: target=%s result=%s spool=%s", t.name, f.intact.kind, hx.Hex(spool)))
				continue
			}
			if t.valid != nil && !t.valid(spool) {
				r.Fail("", fmt.Sprintf("harness validator rejects a generated valid feed: target=%s spool=%s", t.name, hx.Hex(spool)))
				continue
			}
			if len(f.intact.items) == 0 {
				r.Count("intact-empty:" + t.name)
			}
			sweepFeed(r, f, rnd.Fork(), cfg)
		}
		lap("  " + t.name)
	}
	lap("targets")
	if !r.Stop() {
		runPipelines(r, rnd, cfg)
	}
	lap("pipelines")
	if !r.Stop() {
		runTransfers(r, rnd.Fork(), cfg)
	}
	if !r.Stop() {
		runCallHistories(r, ts, rnd.Fork(), cfg)
	}
	lap("histories")
	if !r.Stop() {
		r.Op("reset", "ok", false)
		runManager(r, rnd, cfg)
	}
	if !r.Stop() {
		runManagerSpools(r, ts, rnd.Fork(), cfg)
	}
	return nil
}

type failSpec struct {
	k, chunk int
	with     bool
	term     error
}

// the read errors a parser can meet: an arbitrary one, what net/http and the
// decompressors report for a short body, and an expired context
var failTerms = []error{errInjected, io.ErrUnexpectedEOF, errInjected, context.DeadlineExceeded}

// sweepFeed does all damage to one feed and writes its protocol lines.
func sweepFeed(r *hx.Run, f *feed, rnd *hx.Rand, cfg hx.Config) {
	t := f.t
	modelled := t.loop != "zip"
	rewrap := t.rewrap
	if rewrap == nil {
		rewrap = func(b []byte) []byte { return b }
	}

	// --- cuts of the plaintext (terminal EOF), k = 0..len
	n := len(f.plain)
	cuts := parMap(n+1, func(k int) result { return f.run(rewrap(f.plain[:k])) })
	minOK := -1
	for k := 0; k <= n; k++ {
		if cuts[k].ok() && minOK < 0 {
			minOK = k
		}
	}
	if modelled {
		r.Op("reset", "ok", false)
		feedAns := ""
		switch t.loop {
		case "one-json", "one-json-end", "one-xml", "one-xml-drain", "one-json-drain":
			feedAns = fmt.Sprintf("complete %d", minOK)
		default:
			feedAns = fmt.Sprintf("ok %d", f.intact.lines)
		}
		r.Op(fmt.Sprintf("feed %s %s", t.loop, hx.Hex(f.plain)), feedAns, true)
	}
	for k := 0; k <= n && !r.Stop(); k++ {
		var cl string
		if k == n {
			cl = classify(f.intact, cuts[k])
		} else {
			cl = judge(r, f, "cut", fmt.Sprintf("plain-cut@%d/%d", k, n), rewrap(f.plain[:k]), true, cuts[k])
		}
		if modelled {
			r.Op(fmt.Sprintf("cut %d", k), answer(f, cl, cuts[k]), k < n)
		} else {
			r.Case(fmt.Sprintf("%s cut %d", f.id(), k), k < n)
		}
	}

	// --- injected read error after k bytes of the plaintext
	var specs []failSpec
	chunks := []int{1, 7, 64, 512, 4096, 0}
	for k := 0; k <= n; k++ {
		specs = append(specs, failSpec{k, chunks[rnd.Intn(len(chunks))], rnd.Chance(1, 2), failTerms[rnd.Intn(len(failTerms))]})
	}
	fails := parMap(len(specs), func(i int) result {
		s := specs[i]
		b := rewrap(f.plain[:s.k])
		return f.runReader(func() io.Reader { return &failReader{b: b, chunk: s.chunk, with: s.with, term: s.term} })
	})
	for i, s := range specs {
		if r.Stop() {
			break
		}
		cl := judge(r, f, "fail", fmt.Sprintf("read-error-after@%d/%d chunk=%d with=%v", s.k, n, s.chunk, s.with), nil, false, fails[i])
		mode := "after"
		if s.with {
			mode = "with"
		}
		if modelled {
			r.Op(fmt.Sprintf("fail %d %d %s", s.k, s.chunk, mode), answer(f, cl, fails[i]), true)
		} else {
			r.Case(fmt.Sprintf("%s fail %d", f.id(), s.k), true)
		}
	}

	// --- cuts of the compressed spool: the real decompressor alone gives the
	// stream the read loop sees; the model answers for that stream
	if t.wrapper != "" {
		m := len(f.spool)
		zc := parMap(m, func(k int) result { return f.run(f.spool[:k]) })
		type un struct {
			p   []byte
			eof bool
		}
		uw := parMap(m, func(k int) un { p, e := t.unwrap(f.spool[:k]); return un{p, e} })
		for k := 0; k < m && !r.Stop(); k++ {
			cl := judge(r, f, "zcut", fmt.Sprintf("spool-cut@%d/%d", k, m), f.spool[:k], true, zc[k])
			if uw[k].eof {
				r.Count("contract:" + t.wrapper + ":cut-is-clean-eof")
			} else {
				r.Count("contract:" + t.wrapper + ":cut-is-error")
			}
			if !isPrefix(uw[k].p, f.plain) {
				r.Count("contract:" + t.wrapper + ":cut-plaintext-not-prefix")
				r.Fail("", fmt.Sprintf("decompressor contract: a cut of the %s spool delivered bytes that are not a prefix of the plaintext: %s", t.wrapper, witness(f, fmt.Sprintf("spool-cut@%d", k), cl, zc[k])))
				continue
			}
			if uw[k].eof {
				r.Op(fmt.Sprintf("cut %d", len(uw[k].p)), answer(f, cl, zc[k]), true)
			} else {
				r.Op(fmt.Sprintf("fail %d 0 after", len(uw[k].p)), answer(f, cl, zc[k]), true)
			}
		}
	} else if !modelled {
		m := len(f.spool)
		_ = m
	}

	// --- byte flips and deletions over the spool
	m := len(f.spool)
	type dmg struct {
		pos  int
		x    byte // 0 = deletion of del bytes
		del  int
		data []byte
	}
	var ds []dmg
	budget := cfg.N(700, 6000)
	stride := 1
	if m*2 > budget {
		stride = (m*2 + budget - 1) / budget
	}
	for pos := rnd.Intn(stride); pos < m; pos += stride {
		ds = append(ds, dmg{pos: pos, x: 1 << uint(rnd.Intn(8))})
		ds = append(ds, dmg{pos: pos, x: byte(1 + rnd.Intn(255))})
		if rnd.Chance(1, 4) {
			ds = append(ds, dmg{pos: pos, del: 1 + rnd.Intn(3)})
		}
		// a structural byte of the format in place of whatever is there
		// (closes documents, strings, tags early; opens new ones)
		if sc := structural[rnd.Intn(len(structural))]; sc != f.spool[pos] {
			ds = append(ds, dmg{pos: pos, x: sc ^ f.spool[pos]})
		}
	}
	// closers in place of separators: the damage that ends a document, a
	// container or a string early and leaves the rest of the feed behind it
	if t.wrapper == "" && t.loop != "zip" {
		var seps []int
		for pos, c := range f.spool {
			if c == ',' || c == ':' || c == '"' || c == '>' || c == '<' || c == '=' {
				seps = append(seps, pos)
			}
		}
		step := 1
		if lim := cfg.N(150, 1500); len(seps) > lim {
			step = (len(seps) + lim - 1) / lim
		}
		for i := rnd.Intn(step); i < len(seps); i += step {
			for _, c := range []byte("}]\"/>") {
				if c != f.spool[seps[i]] && rnd.Chance(1, 2) {
					ds = append(ds, dmg{pos: seps[i], x: c ^ f.spool[seps[i]]})
				}
			}
		}
	}
	// a lost span: everything from a separator up to a later closing bracket
	// or tag start is gone, so that closers arrive early and the rest of the
	// document follows the end of a (smaller) well-formed value
	if t.wrapper == "" && t.loop != "zip" {
		var seps, closers []int
		for pos, c := range f.spool {
			switch c {
			case ',':
				seps = append(seps, pos)
			case '}', ']':
				closers = append(closers, pos)
			case '<':
				if pos+1 < m && f.spool[pos+1] == '/' {
					closers = append(closers, pos)
				} else {
					seps = append(seps, pos)
				}
			}
		}
		for i := 0; i < cfg.N(120, 1000) && len(seps) > 0 && len(closers) > 0; i++ {
			a := seps[rnd.Intn(len(seps))]
			b := closers[rnd.Intn(len(closers))]
			if rnd.Chance(1, 2) {
				// a closer not far behind the separator
				j := sort.SearchInts(closers, a)
				if j < len(closers) {
					b = closers[min(j+rnd.Intn(6), len(closers)-1)]
				}
			}
			if b <= a {
				continue
			}
			ds = append(ds, dmg{pos: a, del: b - a})
		}
	}
	for i := range ds {
		if ds[i].x != 0 {
			ds[i].data = flipped(f.spool, ds[i].pos, ds[i].x)
		} else {
			ds[i].data = deleted(f.spool, ds[i].pos, ds[i].del)
		}
	}
	fl := parMap(len(ds), func(i int) result { return f.run(ds[i].data) })
	for i, d := range ds {
		if r.Stop() {
			break
		}
		kind, desc := "flip", fmt.Sprintf("flip@%d^%#02x", d.pos, d.x)
		if d.x == 0 {
			kind, desc = "del", fmt.Sprintf("delete@%d+%d", d.pos, d.del)
		}
		judge(r, f, kind, desc, d.data, true, fl[i])
		if (t.loop == "one-json" || t.loop == "one-json-end") && d.x != 0 {
			// framing verdict of encoding/json on the changed text vs. the model's scanner
			r.Op(fmt.Sprintf("flip %d %d", d.pos, d.x), jsonVerdict(d.data), true)
		} else {
			r.Case(fmt.Sprintf("%s %s", f.id(), desc), true)
		}
	}
}

// structural bytes of JSON and XML.
var structural = []byte("{}[]\",:\\<>/'&;!?-= \n")

// jsonVerdict is what encoding/json's Decoder says about the framing of the
// first value of b: complete <end offset> | incomplete | invalid <offset> |
// notcontainer (first non-space byte is not '{' or '[').
func jsonVerdict(b []byte) string {
	i := 0
	for i < len(b) && (b[i] == ' ' || b[i] == '\t' || b[i] == '\r' || b[i] == '\n') {
		i++
	}
	if i == len(b) {
		return "incomplete"
	}
	if b[i] != '{' && b[i] != '[' {
		return "notcontainer"
	}
	dec := json.NewDecoder(bytes.NewReader(b))
	var raw json.RawMessage
	err := dec.Decode(&raw)
	if err == nil {
		return fmt.Sprintf("complete %d", dec.InputOffset())
	}
	if se, ok := err.(*json.SyntaxError); ok {
		return fmt.Sprintf("invalid %d", se.Offset)
	}
	return "incomplete"
}

// replayKnown re-observes the listed findings on fixed feeds: for each target
// the first damage (cuts first, then single-bit flips in position order) after
// which the spool is still a completely valid feed and the real parser
// succeeds with a strict subset.
func replayKnown(r *hx.Run, ts []target) {
	for ti := range ts {
		t := &ts[ti]
		if t.valid == nil {
			continue
		}
		rnd := hx.NewRand(0xC15)
		plain, spool := t.gen(rnd, 2)
		f := &feed{t: t, idx: -1, plain: plain, spool: spool}
		f.intact = f.run(spool)
		if !f.intact.ok() || len(f.intact.items) == 0 {
			continue
		}
		found := false
		try := func(damage string, d []byte) bool {
			got := f.run(d)
			if classify(f.intact, got) == clSubset && t.valid(d) {
				r.KnownSeen(t.findingClass(), witness(f, damage, clSubset, got))
				return true
			}
			return false
		}
		for k := 0; k < len(spool) && !found; k++ {
			if t.loop == "lines" || t.loop == "records" || t.loop == "records-cvss" {
				found = try(fmt.Sprintf("spool-cut@%d/%d", k, len(spool)), spool[:k])
			}
		}
		if strings.HasPrefix(t.loop, "csv-") {
			// the record formats inside Fetch: the text cut at a record boundary
			rewrap := t.rewrap
			if rewrap == nil {
				rewrap = func(b []byte) []byte { return b }
			}
			for k := len(plain) - 1; k > 0 && !found; k-- {
				if plain[k-1] == '\n' {
					got := f.run(rewrap(plain[:k]))
					if cl := classify(f.intact, got); (cl == clSubset || (cl == clDifferent && t.class == "vex-plain")) && t.valid(rewrap(plain[:k])) {
						r.KnownSeen(t.findingClass(), witness(f, fmt.Sprintf("plain-cut@%d/%d", k, len(plain)), cl, got))
						found = true
					}
				}
			}
			if t.special != nil {
				// the last record cut right after its last comma
				if i := bytes.LastIndexByte(bytes.TrimRight(plain, "\r\n"), ','); i > 0 {
					d := rewrap(plain[:i+1])
					got := f.run(d)
					cl := classify(f.intact, got)
					if id := t.special(d, f.intact, got, cl); id != "" {
						r.KnownSeen(id, witness(f, fmt.Sprintf("plain-cut@%d/%d", i+1, len(plain)), cl, got))
					}
				}
			}
			r.Count(fmt.Sprintf("known-replay:%s:%v", t.name, found))
			continue
		}
		for pos := 0; pos < len(spool) && !found; pos++ {
			for _, x := range []byte{1, 2, 4} {
				if try(fmt.Sprintf("flip@%d^%#02x", pos, x), flipped(spool, pos, x)) {
					found = true
					break
				}
			}
		}
		r.Count(fmt.Sprintf("known-replay:%s:%v", t.name, found))
	}
}

// replayRegressions applies, to a fixed feed of each target, the damage that
// exposed a defect which has since been repaired in /repo; every one of them
// must now be an error (never a panic, never a success with other content).
func replayRegressions(r *hx.Run, ts []target) {
	sub := func(b []byte, old, new string, nth int) []byte {
		idx := -1
		from := 0
		for i := 0; i <= nth; i++ {
			j := bytes.Index(b[from:], []byte(old))
			if j < 0 {
				return nil
			}
			idx = from + j
			from = idx + len(old)
		}
		out := append([]byte(nil), b[:idx]...)
		out = append(out, new...)
		return append(out, b[idx+len(old):]...)
	}
	for ti := range ts {
		t := &ts[ti]
		rnd := hx.NewRand(0xC15 + 7)
		plain, spool := t.gen(rnd, 3)
		f := &feed{t: t, idx: -2, plain: plain, spool: spool}
		f.intact = f.run(spool)
		if !f.intact.ok() {
			continue
		}
		type dm struct {
			desc string
			data []byte
		}
		var ds []dm
		switch t.loop {
		case "one-xml":
			withDecl := spool
			if !bytes.HasPrefix(spool, []byte("<?xml")) {
				withDecl = append([]byte("<?xml version=\"1.0\" encoding=\"utf-8\"?>\n"), spool...)
			}
			for _, enc := range []string{"TSCII", "ISO-10646-UCS-4", "Adobe-Standard-Encoding"} {
				for _, old := range []string{"utf-8", "UTF-8", "ASCII"} {
					if d := sub(withDecl, "encoding=\""+old+"\"", "encoding=\""+enc+"\"", 0); d != nil {
						ds = append(ds, dm{"unimplemented-charset-" + enc, d})
					}
				}
			}
			for n := 0; n < 3; n++ {
				// the <name> child of an object lost (a span deletion)
				if i := bytes.Index(spool, []byte("_object id=")); i >= 0 {
					if j := bytes.Index(spool[i:], []byte("<name>")); j >= 0 {
						if k := bytes.Index(spool[i+j:], []byte("</name>")); k >= 0 {
							ds = append(ds, dm{"object-without-name", deleted(spool, i+j, k+len("</name>"))})
						}
					}
				}
				if d := sub(spool, "<object object_ref", "=object object_ref", n); d != nil {
					ds = append(ds, dm{fmt.Sprintf("test-without-object-%d", n), d})
				}
			}
		case "one-json-end":
			for n := 0; n < 4; n++ {
				if d := sub(spool, "},", "}}", n); d != nil {
					ds = append(ds, dm{fmt.Sprintf("early-close-%d", n), d})
				}
				if d := sub(spool, "],", "]}", n); d != nil {
					ds = append(ds, dm{fmt.Sprintf("early-close-array-%d", n), d})
				}
			}
			if d := sub(spool, "}}.apk", "\"}.apk", 0); d != nil {
				ds = append(ds, dm{"early-close-in-string", d})
			}
		case "lines":
			for _, k := range []int{len(plain) / 3, len(plain) / 2, len(plain) - 2} {
				ds = append(ds, dm{fmt.Sprintf("spool-of-plaintext-cut-in-record@%d", k), t.rewrap(plain[:k])})
			}
			for _, k := range []int{len(spool) / 3, len(spool) / 2, len(spool) - 1} {
				ds = append(ds, dm{fmt.Sprintf("spool-cut@%d", k), spool[:k]})
			}
		case "records", "records-cvss":
			for _, k := range []int{len(plain)/3 + 5, len(plain) - 3} {
				ds = append(ds, dm{fmt.Sprintf("cut-in-record@%d", k), plain[:k]})
			}
		}
		for _, d := range ds {
			got := f.run(d.data)
			r.Case(fmt.Sprintf("regression %s %s", t.name, d.desc), true)
			cl := classify(f.intact, got)
			r.Count("regression:" + t.name + ":" + cl)
			if cl != clErr && cl != clEqual {
				judge(r, f, "regression", "regression:"+d.desc+" damaged="+hx.Hex(d.data), d.data, true, got)
			}
		}
	}
}
