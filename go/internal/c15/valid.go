package c15

import (
	"archive/tar"
	"archive/zip"
	"bytes"
	"compress/gzip"
	"encoding/csv"
	"encoding/json"
	"encoding/xml"
	"io"
	"strconv"
	"strings"
	"time"

	"github.com/quay/goval-parser/oval"

	"github.com/quay/claircore/alpine"
	"github.com/quay/claircore/debian"
	"github.com/quay/claircore/internal/xmlutil"
	"github.com/quay/claircore/toolkit/types/csaf"
)

// The validators answer one question about a damaged spool: is it, taken by
// itself, a completely valid feed of its format — every wrapper drained to
// its end with all checksums verified, the whole text well-formed up to the
// last byte, and decodable into the format's types?  If so no parser can tell
// the damage from a legitimately different feed; this is the only mechanism
// under which a successful parse with other content is classified as the
// listed finding of the target.  Everything else stays unclassified.

func validJSONInto(b []byte, v any) bool {
	if !json.Valid(b) {
		return false
	}
	return json.Unmarshal(b, v) == nil
}

func xmlWellFormed(b []byte) bool {
	d := xml.NewDecoder(bytes.NewReader(b))
	d.CharsetReader = xmlutil.CharsetReader
	depth, roots := 0, 0
	for {
		t, err := d.Token()
		if err == io.EOF {
			return depth == 0 && roots == 1
		}
		if err != nil {
			return false
		}
		switch t.(type) {
		case xml.StartElement:
			if depth == 0 {
				roots++
			}
			depth++
		case xml.EndElement:
			depth--
		}
	}
}

func validXMLInto(b []byte, v any) bool {
	if !xmlWellFormed(b) {
		return false
	}
	d := xml.NewDecoder(bytes.NewReader(b))
	d.CharsetReader = xmlutil.CharsetReader
	return d.Decode(v) == nil
}

func validAlpine(b []byte) bool { var v alpine.SecurityDB; return validJSONInto(b, &v) }
func validDebian(b []byte) bool { var v debian.JSONData; return validJSONInto(b, &v) }
func validOVAL(b []byte) bool   { var v oval.Root; return validXMLInto(b, &v) }

func validAWS(spool []byte) bool {
	zr, err := gzip.NewReader(bytes.NewReader(spool))
	if err != nil {
		return false
	}
	plain, err := io.ReadAll(zr)
	if err != nil {
		return false
	}
	// mirror of aws/internal/alas.Updates (an internal package): the date
	// attributes are the only typed fields
	var v struct {
		Updates []struct {
			Issued struct {
				Date string `xml:"date,attr"`
			} `xml:"issued"`
			Updated struct {
				Date string `xml:"date,attr"`
			} `xml:"updated"`
		} `xml:"update"`
	}
	if !validXMLInto(plain, &v) {
		return false
	}
	okDate := func(s string) bool {
		for _, f := range []string{"2006-01-02 15:04", time.DateTime} {
			if _, err := time.Parse(f, s); err == nil {
				return true
			}
		}
		return false
	}
	for _, u := range v.Updates {
		if !okDate(u.Issued.Date) || !okDate(u.Updated.Date) {
			return false
		}
	}
	return true
}

// validZipAll: the archive opens and every entry reads to its end with a good checksum.
func zipEntries(b []byte) (map[string][]byte, bool) {
	z, err := zip.NewReader(bytes.NewReader(b), int64(len(b)))
	if err != nil {
		return nil, false
	}
	out := map[string][]byte{}
	for _, f := range z.File {
		rc, err := f.Open()
		if err != nil {
			return nil, false
		}
		data, err := io.ReadAll(rc)
		rc.Close()
		if err != nil {
			return nil, false
		}
		out[f.Name] = data
	}
	return out, true
}

func validOSV(spool []byte) bool {
	outer, ok := zipEntries(spool)
	if !ok {
		return false
	}
	for _, inner := range outer {
		advs, ok := zipEntries(inner)
		if !ok {
			return false
		}
		for _, a := range advs {
			var v map[string]any
			if !validJSONInto(a, &v) {
				return false
			}
		}
	}
	return true
}

// validLines: a clean end of the (already decompressed) text, every line a CSAF document.
func validVEX(spool []byte) bool {
	plain, eof := readAllTerm(snappyReader(bytes.NewReader(spool)))
	if !eof {
		return false
	}
	if len(plain) > 0 && plain[len(plain)-1] != '\n' {
		return false
	}
	for _, l := range bytes.Split(plain, []byte("\n")) {
		if len(l) == 0 {
			continue
		}
		if !json.Valid(l) {
			return false
		}
		if _, err := csaf.Parse(bytes.NewReader(l)); err != nil {
			return false
		}
	}
	return true
}

// validRecords: nothing but complete JSON objects of the record type and white space.
func validRecords(spool []byte) bool {
	dec := json.NewDecoder(bytes.NewReader(spool))
	for {
		var raw json.RawMessage
		err := dec.Decode(&raw)
		if err == io.EOF {
			return true
		}
		if err != nil {
			return false
		}
		var rec struct {
			Tags       []string
			Enrichment json.RawMessage
		}
		if len(raw) == 0 || raw[0] != '{' || json.Unmarshal(raw, &rec) != nil {
			return false
		}
	}
}

// validEPSSCSV: the decompressed EPSS file is a well-formed CSV of the expected shape.
func validEPSSCSV(plain []byte) bool {
	rd := csv.NewReader(bytes.NewReader(plain))
	rd.FieldsPerRecord = -1
	meta, err := rd.Read()
	if err != nil || len(meta) != 2 || !strings.HasPrefix(meta[0], "#model_version:") || !strings.HasPrefix(meta[1], "score_date:") ||
		len(meta[0]) == len("#model_version:") || len(meta[1]) == len("score_date:") {
		return false
	}
	rd.Comment = '#'
	hdr, err := rd.Read()
	if err != nil || len(hdr) != 3 || hdr[0] != "cve" || hdr[1] != "epss" || hdr[2] != "percentile" {
		return false
	}
	for {
		r, err := rd.Read()
		if err == io.EOF {
			return true
		}
		if err != nil || len(r) != 3 {
			return false
		}
		for _, f := range r[1:] {
			if _, err := strconv.ParseFloat(f, 64); err != nil {
				return false
			}
		}
	}
}

// validNVD: the decompressed NVD year file is one well-formed JSON document of the expected shape.
func validNVD(plain []byte) bool {
	var v struct {
		Count string            `json:"CVE_data_numberOfCVEs"`
		Items []json.RawMessage `json:"CVE_Items"`
	}
	if !validJSONInto(plain, &v) {
		return false
	}
	if _, err := strconv.Atoi(v.Count); err != nil {
		return false
	}
	for _, it := range v.Items {
		var c struct {
			CVE struct {
				Meta struct{ ID string } `json:"CVE_data_meta"`
			} `json:"cve"`
			Impact struct {
				V3 struct {
					CVSS json.RawMessage `json:"cvssV3"`
				} `json:"baseMetricV3"`
			} `json:"impact"`
		}
		if json.Unmarshal(it, &c) != nil {
			return false
		}
	}
	return true
}

// validVEXArchive: the zstd stream reads to its end, the tar archive inside
// ends with its end-of-archive marker, every member is a CSAF document.
func validVEXArchive(transit []byte) bool {
	plain, ok := decompressAll("zstd", transit)
	if !ok {
		return false
	}
	// the end-of-archive marker (two zero blocks) must be there
	if len(plain) < 1024 || len(plain)%512 != 0 || !bytes.Equal(plain[len(plain)-1024:], make([]byte, 1024)) {
		return false
	}
	tr := tar.NewReader(bytes.NewReader(plain))
	for {
		h, err := tr.Next()
		if err == io.EOF {
			return true
		}
		if err != nil {
			return false
		}
		if h.Typeflag != tar.TypeReg {
			continue
		}
		b, err := io.ReadAll(tr)
		if err != nil || !json.Valid(b) {
			return false
		}
		if _, err := csaf.Parse(bytes.NewReader(b)); err != nil {
			return false
		}
	}
}

// validVEXCSV: changes.csv / deletions.csv is a well-formed CSV of
// (path, RFC 3339 time) records to its last byte.
func validVEXCSV(b []byte) bool {
	rd := csv.NewReader(bytes.NewReader(b))
	rd.FieldsPerRecord = 2
	recs, err := rd.ReadAll()
	if err != nil {
		return false
	}
	for _, r := range recs {
		if _, err := time.Parse(time.RFC3339, r[1]); err != nil {
			return false
		}
	}
	return true
}

// validCSAF: one well-formed CSAF document to its last byte.
func validCSAF(b []byte) bool {
	if !json.Valid(b) {
		return false
	}
	_, err := csaf.Parse(bytes.NewReader(b))
	return err == nil
}
