package c15

import (
	"bytes"
	"fmt"
	"regexp"
	"runtime"

	"github.com/quay/claircore/verifharness/internal/hx"
)

// Call histories inside one process. A single-shot damage sweep cannot see
// state carried from one call to the next — pooled buffers, reused decode
// targets, package-level caches, factories' tables. Every parser / enricher
// target and every pipeline is therefore also run in histories
//
//	intact A → damaged D (a damaged form of another feed B) → intact B
//	intact C → D
//	intact A → (garbage collections: pools emptied) → D
//
// with these oracles: D obeys the statement (judge, as everywhere); the
// outcome of D is the same whatever was parsed before it; A, B and C parse to
// exactly their own records wherever they stand in a history.
//
// The histories run on one P (GOMAXPROCS(1) for the duration of the phase):
// sync.Pool keeps a per-P private slot, so with one P the object put back by
// one call is the object the next call gets. The garbage-collected variant
// covers the fresh-object case. The results on a stateless implementation do
// not depend on any of this.

type histRunner struct {
	name   string
	run    func(spool []byte) result
	valid  func([]byte) bool
	class  string
	target *target
}

func sameResult(a, b result) bool {
	return a.kind == b.kind && sameItems(a.items, b.items)
}

var jsonKeyRe = regexp.MustCompile(`"([A-Za-z_][A-Za-z0-9_]{2,})"\s*:`)

// keyRenames: the first occurrence of each of the first n distinct JSON keys
// with its last letter changed by one bit (the key is no longer recognised,
// the text stays valid JSON).
func keyRenames(b []byte, n int) (out [][]byte, descs []string) {
	seen := map[string]bool{}
	for _, m := range jsonKeyRe.FindAllSubmatchIndex(b, -1) {
		k := string(b[m[2]:m[3]])
		if seen[k] {
			continue
		}
		seen[k] = true
		out = append(out, flipped(b, m[3]-1, 0x01))
		descs = append(descs, "key-"+k+"-renamed")
		if len(out) >= n {
			break
		}
	}
	return
}

type histDamage struct {
	desc string
	data []byte
}

// histDamages makes the damaged forms of one feed of a target: the rows of
// the semantic table, renamed keys, a few cuts and flips. For wrapped targets
// the plaintext is damaged and wrapped again (the wrapper is intact).
func histDamages(t *target, plain, spool []byte, rnd *hx.Rand, n int) []histDamage {
	var ds []histDamage
	rewrap := t.rewrap
	if rewrap == nil || t.wrapper == "" {
		rewrap = func(b []byte) []byte { return b }
	}
	src := spool
	if t.wrapper != "" {
		src = plain
	}
	cases := semCases[t.name]
	if c, ok := semFetchCases[t.name]; ok {
		cases = c
	}
	for _, c := range cases {
		if d := c.edit(src); d != nil {
			ds = append(ds, histDamage{"semantic:" + c.desc, rewrap(d)})
		}
	}
	if t.loop != "zip" && !bytes.HasPrefix(bytes.TrimSpace(src), []byte("<")) {
		rs, descs := keyRenames(src, n)
		for i := range rs {
			ds = append(ds, histDamage{descs[i], rewrap(rs[i])})
		}
	}
	for i := 0; i < n && len(src) > 2; i++ {
		k := rnd.Intn(len(src))
		ds = append(ds, histDamage{fmt.Sprintf("plain-cut@%d/%d", k, len(src)), rewrap(src[:k])})
		k = rnd.Intn(len(spool))
		x := byte(1) << uint(rnd.Intn(8))
		ds = append(ds, histDamage{fmt.Sprintf("flip@%d^%#02x", k, x), flipped(spool, k, x)})
	}
	return ds
}

func runOneHistory(r *hx.Run, h *histRunner, a, b, c []byte, ia, ib, ic result, d histDamage, gc bool) {
	f := &feed{t: &target{name: h.name, valid: h.valid, class: h.class}, idx: -4, spool: b, intact: ib}
	if h.target != nil {
		f.t = h.target
	}
	check := func(what string, spool []byte, want result) bool {
		got := h.run(spool)
		if !sameResult(got, want) {
			r.Fail("", fmt.Sprintf("history: an intact feed does not parse to its own records %s: target=%s damage=%s outcome=%s items=%d/%d feed=%s damaged=%s",
				what, h.name, d.desc, got.kind, len(got.items), len(want.items), hx.Hex(spool), hx.Hex(d.data)))
			return false
		}
		return true
	}
	// A → D → B
	if !check("at the start of a history", a, ia) {
		return
	}
	g1 := h.run(d.data)
	cl := judge(r, f, "history", "history intact→"+d.desc+" damaged="+hx.Hex(d.data), d.data, true, g1)
	r.Count("call-history:" + h.name + ":" + cl)
	if !check("after a damaged feed", b, ib) {
		return
	}
	// C → D
	if !check("at the start of a history", c, ic) {
		return
	}
	g2 := h.run(d.data)
	if !sameResult(g1, g2) {
		r.Fail("", fmt.Sprintf("history: the outcome of a damaged feed depends on what was parsed before it: target=%s damage=%s after-feed-A=%s(%d items) after-feed-C=%s(%d items) damaged=%s feed-A=%s feed-C=%s",
			h.name, d.desc, g1.kind, len(g1.items), g2.kind, len(g2.items), hx.Hex(d.data), hx.Hex(a), hx.Hex(c)))
		return
	}
	if gc || g1.ok() {
		// A → pools emptied → D (always when the damaged feed was accepted:
		// an acceptance that rests on state left by an earlier call shows here)
		if !check("at the start of a history", a, ia) {
			return
		}
		runtime.GC()
		runtime.GC()
		g3 := h.run(d.data)
		if !sameResult(g1, g3) {
			r.Fail("", fmt.Sprintf("history: the outcome of a damaged feed depends on whether pooled state survived: target=%s damage=%s after-feed-A=%s(%d items) after-feed-A-and-GC=%s(%d items) damaged=%s feed-A=%s",
				h.name, d.desc, g1.kind, len(g1.items), g3.kind, len(g3.items), hx.Hex(d.data), hx.Hex(a)))
		}
	}
}

// runCallHistories runs the histories for every target and every pipeline.
func runCallHistories(r *hx.Run, ts []target, rnd *hx.Rand, cfg hx.Config) {
	old := runtime.GOMAXPROCS(1)
	defer runtime.GOMAXPROCS(old)
	n := cfg.N(2, 6)
	for ti := range ts {
		t := &ts[ti]
		if r.Stop() {
			return
		}
		h := &histRunner{name: t.name, valid: t.valid, class: t.class, target: t,
			run: func(spool []byte) result {
				return guard(func() result { return t.parse(bytes.NewReader(spool), spool) })
			}}
		_, a := t.gen(rnd, 1+rnd.Intn(2))
		pb, b := t.gen(rnd, 2+rnd.Intn(2))
		_, c := t.gen(rnd, 1+rnd.Intn(3))
		ia, ib, ic := h.run(a), h.run(b), h.run(c)
		if !ia.ok() || !ib.ok() || !ic.ok() {
			r.Fail("", fmt.Sprintf("history: generated valid feed does not parse: target=%s", t.name))
			continue
		}
		for i, d := range histDamages(t, pb, b, rnd, n) {
			if r.Stop() {
				return
			}
			r.Case(fmt.Sprintf("call-history %s %s", t.name, d.desc), true)
			runOneHistory(r, h, a, b, c, ia, ib, ic, d, i%3 == 0)
		}
	}
	ps := pipelines(cfg.Corpus)
	for pi := range ps {
		p := &ps[pi]
		if r.Stop() {
			return
		}
		pick := func(i int) []byte {
			if p.gen != nil {
				return p.gen(rnd, 1+rnd.Intn(2))
			}
			if len(p.fixed) == 0 {
				return nil
			}
			return p.fixed[(i+int(cfg.Seed))%len(p.fixed)]
		}
		a, b, c := pick(0), pick(1), pick(2)
		if a == nil {
			continue
		}
		run := func(transit []byte) result {
			return guard(func() result { return p.runSite(body{data: transit}, p.intactAux(transit)) })
		}
		// the secondary downloads follow the primary: a damaged primary is
		// served with the secondary downloads of its intact form
		auxB := p.intactAux(b)
		h := &histRunner{name: "pipe-" + p.name, valid: p.valid, class: p.class}
		h.run = func(transit []byte) result {
			if bytes.Equal(transit, a) || bytes.Equal(transit, b) || bytes.Equal(transit, c) {
				return run(transit)
			}
			return guard(func() result { return p.runSite(body{data: transit}, auxB) })
		}
		ia, ib, ic := h.run(a), h.run(b), h.run(c)
		if !ia.ok() || !ib.ok() || !ic.ok() {
			continue // reported by sweepPipeline
		}
		var ds []histDamage
		for i := 0; i < n; i++ {
			k := rnd.Intn(len(b))
			ds = append(ds, histDamage{fmt.Sprintf("download-cut@%d/%d", k, len(b)), b[:k]})
			k = rnd.Intn(len(b))
			x := byte(1) << uint(rnd.Intn(8))
			ds = append(ds, histDamage{fmt.Sprintf("download-flip@%d^%#02x", k, x), flipped(b, k, x)})
		}
		if p.genStored != nil {
			s := p.genStored(rnd, 2)
			for i := 0; i < n; i++ {
				k := rnd.Intn(len(s))
				ds = append(ds, histDamage{fmt.Sprintf("stored-download-flip@%d^0x01", k), flipped(s, k, 0x01)})
			}
		}
		for i, d := range ds {
			if r.Stop() {
				return
			}
			r.Case(fmt.Sprintf("call-history pipe-%s %s", p.name, d.desc), true)
			runOneHistory(r, h, a, b, c, ia, ib, ic, d, i%3 == 0)
		}
	}
}
