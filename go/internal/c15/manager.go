package c15

import (
	"context"
	"encoding/json"
	"errors"
	"fmt"
	"net/http"
	"sort"
	"sync"
	"time"

	"github.com/google/uuid"

	"github.com/quay/claircore"
	"github.com/quay/claircore/alpine"
	"github.com/quay/claircore/datastore"
	"github.com/quay/claircore/enricher/epss"
	"github.com/quay/claircore/libvuln/driver"
	"github.com/quay/claircore/libvuln/updates"
	"github.com/quay/claircore/rhel/vex"
	"github.com/quay/claircore/verifharness/internal/hx"
)

// recStore records what the real update manager hands to the store.
type recStore struct {
	datastore.Updater // every method not overridden panics (nil interface): the run must not need it
	mu                sync.Mutex
	calls             []string // "update" | "delta" | "enrich"
	items             []string
	statusErr         []bool
}

func (s *recStore) GetUpdateOperations(context.Context, driver.UpdateKind, ...string) (map[string][]driver.UpdateOperation, error) {
	return map[string][]driver.UpdateOperation{}, nil
}

func (s *recStore) UpdateVulnerabilities(_ context.Context, _ string, _ driver.Fingerprint, vs []*claircore.Vulnerability) (uuid.UUID, error) {
	s.mu.Lock()
	defer s.mu.Unlock()
	s.calls = append(s.calls, "update")
	for _, v := range vs {
		s.items = append(s.items, canonVuln(v))
	}
	return uuid.New(), nil
}

func (s *recStore) DeltaUpdateVulnerabilities(_ context.Context, _ string, _ driver.Fingerprint, vs []*claircore.Vulnerability, del []string) (uuid.UUID, error) {
	s.mu.Lock()
	defer s.mu.Unlock()
	s.calls = append(s.calls, "update")
	for _, v := range vs {
		s.items = append(s.items, canonVuln(v))
	}
	for _, d := range del {
		s.items = append(s.items, "deleted:"+d)
	}
	return uuid.New(), nil
}

func (s *recStore) UpdateEnrichments(_ context.Context, _ string, _ driver.Fingerprint, es []driver.EnrichmentRecord) (uuid.UUID, error) {
	s.mu.Lock()
	defer s.mu.Unlock()
	s.calls = append(s.calls, "update")
	for _, e := range es {
		b, _ := json.Marshal(e)
		s.items = append(s.items, string(b))
	}
	return uuid.New(), nil
}

func (s *recStore) RecordUpdaterStatus(_ context.Context, _ string, _ time.Time, _ driver.Fingerprint, err error) error {
	s.mu.Lock()
	defer s.mu.Unlock()
	s.statusErr = append(s.statusErr, err != nil)
	return nil
}

func (s *recStore) RecordUpdaterSetStatus(context.Context, string, time.Time) error { return nil }

// managed is one updater driven by the real Manager.Run, with the same
// updater also run directly (Fetch, then Parse) to learn the two outcomes the
// model's `drive` is a function of.
type managed struct {
	name   string
	gen    func(rnd *hx.Rand, n int) []byte
	routes func(b body) []route
	mk     func(c *http.Client) driver.Updater
	cfg    driver.ConfigUnmarshaler
}

func managedUpdaters() []managed {
	hdr := map[string]string{"etag": `"e1"`, "last-modified": "Mon, 02 Jan 2006 15:04:05 GMT"}
	return []managed{
		{name: "alpine", gen: func(rnd *hx.Rand, n int) []byte { return genAlpine(rnd, n) },
			routes: func(b body) []route { return []route{suffix("main.json", hdr, func() body { return b })} },
			mk: func(c *http.Client) driver.Updater {
				return alpine.UpdaterForC15(c, "http://feeds.test/v3.10/main.json", 3, 10, "main")
			}},
		{name: "epss", gen: func(rnd *hx.Rand, n int) []byte { return gz(genEPSSCSV(rnd, 2*n)) },
			routes: func(b body) []route { return []route{suffix(".csv.gz", hdr, func() body { return b })} },
			mk:     func(c *http.Client) driver.Updater { return &epss.Enricher{} },
			cfg:    jsonConfig(map[string]string{"url": "http://epss.test/epss_scores-2024-10-25.csv.gz"})},
		{name: "vex", gen: func(rnd *hx.Rand, n int) []byte { return genVEXArchive(rnd, n) },
			routes: func(b body) []route {
				return []route{
					suffix("archive_latest.txt", nil, func() body { return body{data: []byte("csaf_vex_2024-05-01.tar.zst")} }),
					suffix("changes.csv", hdr, func() body { return body{} }),
					suffix("deletions.csv", hdr, func() body { return body{} }),
					suffix(".tar.zst", hdr, func() body { return b })}
			},
			mk: func(c *http.Client) driver.Updater {
				// through the factory, as in production (it sets the archive timeout)
				f := &vex.Factory{}
				if err := f.Configure(bg, jsonConfig(map[string]string{"url": "http://vex.test/data/"}), c); err != nil {
					panic(err)
				}
				us, err := f.UpdaterSet(bg)
				if err != nil || len(us.Updaters()) != 1 {
					panic("vex factory")
				}
				return us.Updaters()[0]
			},
			cfg: jsonConfig(map[string]string{"url": "http://vex.test/data/"})},
	}
}

// directOutcome runs Fetch and Parse of a fresh updater directly.
func directOutcome(m *managed, c *http.Client) (fetch string, parse result) {
	u := m.mk(c)
	cfg := m.cfg
	if cfg == nil {
		cfg = noConfig
	}
	if cf, ok := u.(driver.Configurable); ok {
		if err := cf.Configure(bg, cfg, c); err != nil {
			return "failed", result{kind: "err"}
		}
	}
	ctx, done := context.WithTimeout(bg, 15*time.Second)
	defer done()
	if eu, ok := u.(driver.EnrichmentUpdater); ok {
		rc, _, err := eu.FetchEnrichment(ctx, "")
		if rc != nil {
			defer rc.Close()
		}
		switch {
		case errors.Is(err, driver.Unchanged):
			return "unchanged", result{}
		case err != nil:
			return "failed", result{}
		}
		return "fetched", enrichResult(eu.ParseEnrichment(ctx, rc))
	}
	rc, _, err := u.Fetch(ctx, "")
	if rc != nil {
		defer rc.Close()
	}
	switch {
	case errors.Is(err, driver.Unchanged):
		return "unchanged", result{}
	case err != nil:
		return "failed", result{}
	}
	if du, ok := u.(driver.DeltaUpdater); ok {
		vs, del, err := du.DeltaParse(ctx, rc)
		res := vulnResult(vs, err)
		if err == nil {
			for _, d := range del {
				res.items = append(res.items, "deleted:"+d)
			}
			sort.Strings(res.items)
		}
		return "fetched", res
	}
	return "fetched", vulnResult(u.Parse(ctx, rc))
}

// runManager drives real Manager.Run scenarios: intact and damaged downloads,
// and a "not modified" answer; the store must be called exactly when the
// model's drive says so, and with exactly what Parse returned.
func runManager(r *hx.Run, rnd *hx.Rand, cfg hx.Config) {
	ms := managedUpdaters()
	for mi := range ms {
		m := &ms[mi]
		for round := 0; round < cfg.N(2, 6) && !r.Stop(); round++ {
			transit := m.gen(rnd, 1+rnd.Intn(3))
			type sc struct {
				desc string
				b    body
				st   int
			}
			scs := []sc{{"intact", body{data: transit}, 200}}
			for i := 0; i < cfg.N(6, 30); i++ {
				k := rnd.Intn(len(transit))
				switch rnd.Intn(3) {
				case 0:
					scs = append(scs, sc{fmt.Sprintf("cut@%d", k), body{data: transit[:k]}, 200})
				case 1:
					scs = append(scs, sc{fmt.Sprintf("cut-err@%d", k), body{data: transit[:k], term: errTransport}, 200})
				default:
					x := byte(1) << uint(rnd.Intn(8))
					scs = append(scs, sc{fmt.Sprintf("flip@%d^%#02x", k, x), body{data: flipped(transit, k, x)}, 200})
				}
			}
			scs = append(scs, sc{"server-error", body{}, 500}, sc{"not-modified", body{}, 304})
			for _, s := range scs {
				if r.Stop() {
					return
				}
				routes := m.routes(s.b)
				if s.st != 200 {
					routes = []route{func(req *http.Request) (int, map[string]string, body, bool) { return s.st, nil, body{}, true }}
				}
				fetch, parse := directOutcome(m, client(routes...))
				store := &recStore{}
				c := client(routes...)
				cfgs := updates.Configs{}
				u := m.mk(c)
				if m.cfg != nil {
					cfgs[u.Name()] = m.cfg
				}
				out := hx.Guard(func() string {
					mgr, err := updates.NewManager(bg, store, updates.NewLocalLockSource(), c,
						updates.WithFactories(map[string]driver.UpdaterSetFactory{}), updates.WithOutOfTree([]driver.Updater{u}),
						updates.WithConfigs(cfgs), updates.WithBatchSize(1))
					if err != nil {
						return "manager-construct-error"
					}
					ctx, done := context.WithTimeout(bg, 30*time.Second)
					defer done()
					runErr := mgr.Run(ctx)
					store.mu.Lock()
					defer store.mu.Unlock()
					call := "none"
					if len(store.calls) == 1 {
						call = "update"
					} else if len(store.calls) > 1 {
						call = fmt.Sprintf("update*%d", len(store.calls))
					}
					ok := runErr == nil
					if len(store.statusErr) != 1 || store.statusErr[0] == ok {
						return fmt.Sprintf("%s %v status-mismatch", call, ok)
					}
					return fmt.Sprintf("%s %v", call, ok)
				})
				parseTok := "err"
				if parse.ok() {
					parseTok = "ok"
				}
				r.Op(fmt.Sprintf("drive %s %s", fetch, parseTok), out, true)
				r.Count("manager:" + m.name + ":" + fetch + ":" + parseTok + ":" + out)
				// the stored snapshot is what Parse returned
				if out == "update true" {
					sort.Strings(store.items)
					same := len(store.items) == len(parse.items)
					for i := 0; same && i < len(parse.items); i++ {
						same = store.items[i] == parse.items[i]
					}
					if !same {
						r.Fail("", fmt.Sprintf("manager stored something else than Parse returned: updater=%s download=%s transit=%s", m.name, s.desc, hx.Hex(transit)))
					}
				}
				if (fetch != "fetched" || !parse.ok()) && out != "none true" && out != "none false" {
					r.Fail("", fmt.Sprintf("manager touched the store although fetch=%s parse=%s: updater=%s download=%s observed=%q transit=%s", fetch, parseTok, m.name, s.desc, out, hx.Hex(transit)))
				}
			}
		}
	}
}
