package c15

import (
	"bytes"
	"context"
	"encoding/json"
	"errors"
	"fmt"
	"io"
	"net/http"
	"sort"
	"strings"
	"sync"
	"time"

	"github.com/google/uuid"

	"github.com/quay/claircore"
	"github.com/quay/claircore/datastore"
	"github.com/quay/claircore/enricher/cvss"
	"github.com/quay/claircore/enricher/epss"
	"github.com/quay/claircore/libvuln/driver"
	"github.com/quay/claircore/libvuln/updates"
	"github.com/quay/claircore/rhel/vex"
	"github.com/quay/claircore/verifharness/internal/hx"
	"github.com/quay/claircore/verifharness/internal/registry"
)

// recStore records what the real update manager hands to the store.
type recStore struct {
	datastore.Updater // every method not overridden panics (nil interface): the run must not need it
	mu                sync.Mutex
	calls             []string // "update" | "delta" | "enrich"
	items             []string
	statusErr         []bool
	fp                driver.Fingerprint // of the last update operation
	haveFP            bool
}

func (s *recStore) GetUpdateOperations(_ context.Context, _ driver.UpdateKind, names ...string) (map[string][]driver.UpdateOperation, error) {
	out := map[string][]driver.UpdateOperation{}
	if fp, ok := s.lastFP(); ok {
		for _, n := range names {
			out[n] = []driver.UpdateOperation{{Updater: n, Fingerprint: fp}}
		}
	}
	return out, nil
}

func (s *recStore) UpdateVulnerabilities(_ context.Context, _ string, fp driver.Fingerprint, vs []*claircore.Vulnerability) (uuid.UUID, error) {
	s.mu.Lock()
	defer s.mu.Unlock()
	s.calls = append(s.calls, "update")
	s.fp, s.haveFP = fp, true
	for _, v := range vs {
		s.items = append(s.items, canonVuln(v))
	}
	return uuid.New(), nil
}

func (s *recStore) DeltaUpdateVulnerabilities(_ context.Context, _ string, fp driver.Fingerprint, vs []*claircore.Vulnerability, del []string) (uuid.UUID, error) {
	s.mu.Lock()
	defer s.mu.Unlock()
	s.calls = append(s.calls, "update")
	s.fp, s.haveFP = fp, true
	for _, v := range vs {
		s.items = append(s.items, canonVuln(v))
	}
	for _, d := range del {
		s.items = append(s.items, "deleted:"+d)
	}
	return uuid.New(), nil
}

func (s *recStore) UpdateEnrichments(_ context.Context, _ string, fp driver.Fingerprint, es []driver.EnrichmentRecord) (uuid.UUID, error) {
	s.mu.Lock()
	defer s.mu.Unlock()
	s.calls = append(s.calls, "update")
	s.fp, s.haveFP = fp, true
	for _, e := range es {
		b, _ := json.Marshal(e)
		s.items = append(s.items, string(b))
	}
	return uuid.New(), nil
}

func (s *recStore) RecordUpdaterStatus(_ context.Context, _ string, _ time.Time, _ driver.Fingerprint, err error) error {
	s.mu.Lock()
	defer s.mu.Unlock()
	s.statusErr = append(s.statusErr, err != nil)
	return nil
}

func (s *recStore) RecordUpdaterSetStatus(context.Context, string, time.Time) error { return nil }

// recStore also plays the store's memory of the last update operation: the
// fingerprint of the last successful update is handed to the next Fetch.
func (s *recStore) lastFP() (driver.Fingerprint, bool) {
	s.mu.Lock()
	defer s.mu.Unlock()
	return s.fp, s.haveFP
}

// directOutcome runs Fetch and Parse of a fresh updater directly, with the
// fingerprint hint.
func directOutcome(p *pipeline, c *http.Client, hint driver.Fingerprint) (fetch string, parse result) {
	u, cfg, err := p.mk(c)
	if err != nil {
		return "failed", result{kind: "err"}
	}
	if cfg == nil {
		cfg = noConfig
	}
	if cf, ok := u.(driver.Configurable); ok {
		if err := cf.Configure(bg, cfg, c); err != nil {
			return "failed", result{kind: "err"}
		}
	}
	ctx, done := context.WithTimeout(bg, 15*time.Second)
	defer done()
	if eu, ok := u.(driver.EnrichmentUpdater); ok {
		rc, _, err := eu.FetchEnrichment(ctx, hint)
		if rc != nil {
			defer rc.Close()
		}
		switch {
		case errors.Is(err, driver.Unchanged):
			return "unchanged", result{}
		case err != nil:
			return "failed", result{}
		case rc == nil:
			return "nothing", result{}
		}
		return "fetched", enrichResult(eu.ParseEnrichment(ctx, rc))
	}
	rc, _, err := u.Fetch(ctx, hint)
	if rc != nil {
		defer rc.Close()
	}
	switch {
	case errors.Is(err, driver.Unchanged):
		return "unchanged", result{}
	case err != nil:
		return "failed", result{}
	case rc == nil:
		return "nothing", result{}
	}
	if du, ok := u.(driver.DeltaUpdater); ok {
		vs, del, err := du.DeltaParse(ctx, rc)
		res := vulnResult(vs, err)
		if err == nil {
			for _, d := range del {
				res.items = append(res.items, "deleted:"+d)
			}
			sort.Strings(res.items)
		}
		return "fetched", res
	}
	return "fetched", vulnResult(u.Parse(ctx, rc))
}

// managerRun drives the real Manager.Run once for the pipeline's updater over
// the given routes and store. Answer: "<store call> <run succeeded>".
func managerRun(p *pipeline, routes []route, store *recStore) string {
	c := client(routes...)
	u, cfg, err := p.mk(c)
	if err != nil {
		return "manager-construct-error"
	}
	cfgs := updates.Configs{}
	if cfg != nil {
		cfgs[u.Name()] = cfg
	}
	store.mu.Lock()
	store.calls, store.items, store.statusErr = nil, nil, nil
	store.mu.Unlock()
	return hx.Guard(func() string {
		mgr, err := updates.NewManager(bg, store, updates.NewLocalLockSource(), c,
			updates.WithFactories(map[string]driver.UpdaterSetFactory{}), updates.WithOutOfTree([]driver.Updater{u}),
			updates.WithConfigs(cfgs), updates.WithBatchSize(1))
		if err != nil {
			return "manager-construct-error"
		}
		ctx, done := context.WithTimeout(bg, 30*time.Second)
		defer done()
		runErr := mgr.Run(ctx)
		store.mu.Lock()
		defer store.mu.Unlock()
		call := "none"
		if len(store.calls) == 1 {
			call = "update"
		} else if len(store.calls) > 1 {
			call = fmt.Sprintf("update*%d", len(store.calls))
		}
		ok := runErr == nil
		if len(store.statusErr) != 1 || store.statusErr[0] == ok {
			return fmt.Sprintf("%s %v status-mismatch", call, ok)
		}
		return fmt.Sprintf("%s %v", call, ok)
	})
}

func sameItems(a, b []string) bool {
	if len(a) != len(b) {
		return false
	}
	for i := range a {
		if a[i] != b[i] {
			return false
		}
	}
	return true
}

// download is one way of serving a pipeline's files.
type download struct {
	desc   string
	b      body
	aux    map[string]body
	status int
}

func withAux(aux map[string]body, name string, b body) map[string]body {
	out := map[string]body{}
	for k, v := range aux {
		out[k] = v
	}
	out[name] = b
	return out
}

// damagedDownloads makes the damaged ways of serving transit: every damage
// class of the sweeps (cut with a clean close, cut with a transport error,
// flipped bit, wrong Content-Length, aborted chunked transfer, reset) on the
// primary download, and cuts of every secondary download.
func damagedDownloads(p *pipeline, transit []byte, aux map[string]body, rnd *hx.Rand, n int) []download {
	var ds []download
	m := len(transit)
	for i := 0; i < n; i++ {
		k := rnd.Intn(m)
		switch rnd.Intn(7) {
		case 0:
			ds = append(ds, download{fmt.Sprintf("cut@%d", k), body{data: transit[:k]}, aux, 200})
		case 1:
			ds = append(ds, download{fmt.Sprintf("cut-err@%d", k), body{data: transit[:k], term: errTransport}, aux, 200})
		case 2:
			x := byte(1) << uint(rnd.Intn(8))
			ds = append(ds, download{fmt.Sprintf("flip@%d^%#02x", k, x), body{data: flipped(transit, k, x)}, aux, 200})
		case 3:
			sc := registry.New("", transit)
			sc.Declared = k
			ds = append(ds, download{fmt.Sprintf("content-length-short@%d", k), body{script: sc}, aux, 200})
		case 4:
			sc := registry.New("", transit[:k])
			sc.Declared = m
			sc.End = registry.EndClose
			ds = append(ds, download{fmt.Sprintf("content-length-long@%d", k), body{script: sc}, aux, 200})
		case 5:
			sc := registry.New("", transit[:k])
			sc.Framing = registry.FrameChunked
			sc.End = registry.EndClose
			sc.Chunks = []int{1 + rnd.Intn(64), 1 + rnd.Intn(512)}
			ds = append(ds, download{fmt.Sprintf("chunked-abort@%d", k), body{script: sc}, aux, 200})
		default:
			sc := registry.New("", transit[:k])
			sc.Framing = registry.FrameClose
			sc.End = registry.End(rnd.Intn(3))
			ds = append(ds, download{fmt.Sprintf("close-delimited@%d-%s", k, sc.End), body{script: sc}, aux, 200})
		}
	}
	var names []string
	for name := range aux {
		if !strings.HasPrefix(name, "#") {
			names = append(names, name)
		}
	}
	sort.Strings(names)
	for _, name := range names {
		d := aux[name].data
		if len(d) == 0 {
			continue
		}
		k := rnd.Intn(len(d))
		ds = append(ds, download{fmt.Sprintf("%s-cut@%d", name, k), body{data: transit}, withAux(aux, name, body{data: d[:k]}), 200})
		ds = append(ds, download{fmt.Sprintf("%s-cut-err@%d", name, k), body{data: transit}, withAux(aux, name, body{data: d[:k], term: errTransport}), 200})
	}
	return ds
}

func (d *download) routes(p *pipeline) []route {
	if d.status != 200 {
		st := d.status
		return []route{func(req *http.Request) (int, map[string]string, body, bool) { return st, nil, body{}, true }}
	}
	return p.routes(d.b, d.aux)
}

// runManager drives real Manager.Run scenarios for every updater: intact and
// damaged downloads (every damage class of the sweeps), a server error and a
// "not modified" answer; the store must be called exactly when the model's
// drive says so, and with exactly what Parse returned. Then histories of
// runs against a store that remembers the fingerprint of the last update.
func runManager(r *hx.Run, rnd *hx.Rand, cfg hx.Config) {
	ps := pipelines(cfg.Corpus)
	for pi := range ps {
		p := &ps[pi]
		pick := func() []byte {
			if p.gen != nil {
				return p.gen(rnd, 1+rnd.Intn(3))
			}
			if len(p.fixed) == 0 {
				return nil
			}
			return p.fixed[rnd.Intn(len(p.fixed))]
		}
		for round := 0; round < cfg.N(1, 4) && !r.Stop(); round++ {
			transit := pick()
			if transit == nil {
				r.Count("manager-skipped-no-corpus:" + p.name)
				break
			}
			aux := p.intactAux(transit)
			scs := []download{{"intact", body{data: transit}, aux, 200}}
			scs = append(scs, damagedDownloads(p, transit, aux, rnd, cfg.N(7, 28))...)
			scs = append(scs, download{"server-error", body{}, aux, 500}, download{"not-modified", body{}, aux, 304})
			for si := range scs {
				s := &scs[si]
				if r.Stop() {
					return
				}
				fetch, parse := directOutcome(p, client(s.routes(p)...), "")
				if fetch == "nothing" {
					r.Fail("", fmt.Sprintf("Fetch returned neither data nor an error: updater=%s download=%s", p.name, s.desc))
					continue
				}
				store := &recStore{}
				out := managerRun(p, s.routes(p), store)
				parseTok := "err"
				if parse.ok() {
					parseTok = "ok"
				}
				r.Op(fmt.Sprintf("drive %s %s", fetch, parseTok), out, true)
				r.Count("manager:" + p.name + ":" + fetch + ":" + parseTok + ":" + out)
				// the stored snapshot is what Parse returned
				if out == "update true" {
					sort.Strings(store.items)
					if !sameItems(store.items, parse.items) {
						r.Fail("", fmt.Sprintf("manager stored something else than Parse returned: updater=%s download=%s transit=%s", p.name, s.desc, hx.Hex(transit)))
					}
				}
				if (fetch != "fetched" || !parse.ok()) && out != "none true" && out != "none false" {
					r.Fail("", fmt.Sprintf("manager touched the store although fetch=%s parse=%s: updater=%s download=%s observed=%q transit=%s", fetch, parseTok, p.name, s.desc, out, hx.Hex(transit)))
				}
			}
		}
		runHistory(r, p, pick, rnd.Fork(), cfg)
	}
}

// runHistory: successive manager runs of one updater against one store. The
// server serves a sequence of versions (each with its own validators and
// checksums); some downloads are damaged. The model (histStep) predicts every
// run from the version served and from what a fetch that reads the body would
// make of the download. Direct statement: what the store holds after every
// run is the intact snapshot of some version served (or a listed still-valid
// damage), and a failed run changes nothing.
func runHistory(r *hx.Run, p *pipeline, pick func() []byte, rnd *hx.Rand, cfg hx.Config) {
	if p.name == "vex" {
		// a delta updater: a later run fetches changes only and always ends in
		// an (often empty) delta update; the snapshot model does not apply
		runVexHistory(r, p, pick, rnd, cfg)
		return
	}
	for h := 0; h < cfg.N(1, 4) && !r.Stop(); h++ {
		versions := map[int][]byte{}
		intact := map[int]result{}
		store := &recStore{}
		r.Op("hist", "ok", false)
		ver := 1
		var held []string // what the store holds
		heldVer := 0
		for step := 0; step < cfg.N(6, 10) && !r.Stop(); step++ {
			switch rnd.Intn(4) {
			case 0:
				ver++
			case 1:
				if ver > 1 && rnd.Chance(1, 2) {
					ver--
				}
			}
			if versions[ver] == nil {
				versions[ver] = pick()
				if versions[ver] == nil {
					return
				}
			}
			transit := versions[ver]
			aux := withAux(p.intactAux(transit), "#version", body{data: []byte(fmt.Sprint(ver))})
			if _, ok := intact[ver]; !ok {
				intact[ver] = guard(func() result { return p.runSite(body{data: transit}, aux) })
			}
			d := download{"intact", body{data: transit}, aux, 200}
			if rnd.Chance(1, 2) {
				d = damagedDownloads(p, transit, aux, rnd, 1)[0]
			}
			// what a fetch that reads the body makes of it
			fetch, parse := directOutcome(p, client(d.routes(p)...), "")
			outcome := "parsed"
			switch {
			case fetch == "failed":
				outcome = "fetch-failed"
			case !parse.ok():
				outcome = "parse-failed"
			}
			// the contract of Fetch with the stored fingerprint
			if fp, ok := store.lastFP(); ok {
				if f2, _ := directOutcome(p, client(d.routes(p)...), fp); f2 == "nothing" {
					r.Fail("", fmt.Sprintf("Fetch returned neither data nor an error (nor Unchanged) for a known fingerprint: updater=%s version=%d download=%s", p.name, ver, d.desc))
					return
				}
			}
			out := managerRun(p, d.routes(p), store)
			r.Op(fmt.Sprintf("run %d %s", ver, outcome), out, true)
			r.Count("history:" + p.name + ":" + outcome + ":" + out)
			switch {
			case strings.HasPrefix(out, "update true"):
				store.mu.Lock()
				held = append([]string(nil), store.items...)
				store.mu.Unlock()
				sort.Strings(held)
				heldVer = ver
				if !sameItems(held, intact[ver].items) {
					cl := classify(intact[ver], result{kind: "ok", items: held})
					f := &feed{t: &target{name: "pipe-" + p.name, valid: p.valid, class: p.class}, spool: transit, intact: intact[ver]}
					dmg := d.b.data
					if d.b.script != nil {
						dmg, _ = d.b.script.Delivered()
					}
					judge(r, f, "history", fmt.Sprintf("history step=%d version=%d download=%s", step, ver, d.desc), dmg, d.b.data != nil || d.b.script != nil, result{kind: "ok", items: held})
					r.Count("history-stored-damaged:" + p.name + ":" + cl)
				}
			case strings.HasPrefix(out, "none"):
				// nothing may have changed
			default:
				r.Fail("", fmt.Sprintf("manager run: updater=%s version=%d download=%s observed=%q", p.name, ver, d.desc, out))
			}
			_ = heldVer
		}
	}
}

// runVexHistory: a full run, then a delta run over an unchanged server: the
// second run must not delete or change anything.
func runVexHistory(r *hx.Run, p *pipeline, pick func() []byte, rnd *hx.Rand, cfg hx.Config) {
	transit := pick()
	aux := p.intactAux(transit)
	store := &recStore{}
	out1 := managerRun(p, p.routes(body{data: transit}, aux), store)
	r.Case("vex history run 1", true)
	if out1 != "update true" {
		r.Fail("", fmt.Sprintf("vex: first run over an intact site: %q", out1))
		return
	}
	// a damaged second run, then an intact one: the delta must be empty both times
	for i, d := range []download{
		{"changes.csv-cut-err", body{data: transit}, withAux(aux, "changes.csv", body{data: aux["changes.csv"].data[:len(aux["changes.csv"].data)/2], term: errTransport}), 200},
		{"intact", body{data: transit}, aux, 200},
	} {
		out := managerRun(p, d.routes(p), store)
		r.Case(fmt.Sprintf("vex history run %d", i+2), true)
		r.Count("history:vex:" + d.desc + ":" + out)
		store.mu.Lock()
		n := len(store.items)
		store.mu.Unlock()
		if n != 0 || (out != "update true" && out != "none true" && out != "none false") {
			r.Fail("", fmt.Sprintf("vex: run %d over an unchanged site (%s) changed the store: %q with %d items", i+2, d.desc, out, n))
		}
	}
}

// The read loops of epss, cvss and rhel/vex run over a spool that their own
// Fetch wrote, so a damaged transfer never reaches ParseEnrichment /
// DeltaParse through Fetch. driveUpdater's parse-error branches for
// enrichment and delta updaters are exercised here with the real parsers
// behind a Fetch that hands out a damaged spool (a spool file cut short or
// unreadable half way).

type spoolEpss struct {
	*epss.Enricher
	mk func() io.Reader
}

func (s *spoolEpss) FetchEnrichment(context.Context, driver.Fingerprint) (io.ReadCloser, driver.Fingerprint, error) {
	return io.NopCloser(s.mk()), "spool", nil
}

type spoolCvss struct {
	*cvss.Enricher
	mk func() io.Reader
}

func (s *spoolCvss) FetchEnrichment(context.Context, driver.Fingerprint) (io.ReadCloser, driver.Fingerprint, error) {
	return io.NopCloser(s.mk()), "spool", nil
}

type spoolVex struct {
	*vex.Updater
	mk func() io.Reader
}

func (s *spoolVex) Fetch(context.Context, driver.Fingerprint) (io.ReadCloser, driver.Fingerprint, error) {
	return io.NopCloser(s.mk()), "spool", nil
}

func runManagerSpools(r *hx.Run, ts []target, rnd *hx.Rand, cfg hx.Config) {
	for ti := range ts {
		t := &ts[ti]
		var mk func(rd func() io.Reader) driver.Updater
		switch t.name {
		case "epss":
			mk = func(rd func() io.Reader) driver.Updater { return &spoolEpss{&epss.Enricher{}, rd} }
		case "cvss":
			mk = func(rd func() io.Reader) driver.Updater { return &spoolCvss{&cvss.Enricher{}, rd} }
		case "vex":
			mk = func(rd func() io.Reader) driver.Updater { return &spoolVex{&vex.Updater{}, rd} }
		default:
			continue
		}
		for round := 0; round < cfg.N(2, 8) && !r.Stop(); round++ {
			_, spool := t.gen(rnd, 1+rnd.Intn(3))
			type sc struct {
				desc string
				rd   func() io.Reader
			}
			scs := []sc{{"intact", func() io.Reader { return bytes.NewReader(spool) }}}
			for i := 0; i < cfg.N(5, 20); i++ {
				k := rnd.Intn(len(spool))
				b := spool[:k]
				if rnd.Chance(1, 2) {
					scs = append(scs, sc{fmt.Sprintf("spool-cut@%d", k), func() io.Reader { return bytes.NewReader(b) }})
				} else {
					scs = append(scs, sc{fmt.Sprintf("spool-read-error@%d", k), func() io.Reader { return &failReader{b: b, chunk: 512, term: errInjected} }})
				}
			}
			for _, s := range scs {
				if r.Stop() {
					return
				}
				parse := guard(func() result { return t.parse(s.rd(), nil) })
				store := &recStore{}
				u := mk(s.rd)
				out := hx.Guard(func() string {
					mgr, err := updates.NewManager(bg, store, updates.NewLocalLockSource(), http.DefaultClient,
						updates.WithFactories(map[string]driver.UpdaterSetFactory{}), updates.WithOutOfTree([]driver.Updater{u}), updates.WithBatchSize(1))
					if err != nil {
						return "manager-construct-error"
					}
					ctx, done := context.WithTimeout(bg, 30*time.Second)
					defer done()
					runErr := mgr.Run(ctx)
					store.mu.Lock()
					defer store.mu.Unlock()
					call := "none"
					if len(store.calls) >= 1 {
						call = "update"
					}
					return fmt.Sprintf("%s %v", call, runErr == nil)
				})
				parseTok := "err"
				if parse.ok() {
					parseTok = "ok"
				}
				r.Op(fmt.Sprintf("drive fetched %s", parseTok), out, true)
				r.Count("manager-spool:" + t.name + ":" + parseTok + ":" + out)
				if !parse.ok() && out != "none false" {
					r.Fail("", fmt.Sprintf("manager touched the store (or reported success) although %s of a damaged spool failed: spool=%s observed=%q spool-bytes=%s", t.name, s.desc, out, hx.Hex(spool)))
				}
			}
		}
	}
}
