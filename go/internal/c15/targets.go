package c15

import (
	"bytes"
	"compress/gzip"
	"context"
	"encoding/csv"
	"encoding/json"
	"errors"
	"fmt"
	"io"
	"sort"
	"strconv"
	"strings"
	"time"

	"github.com/quay/claircore"
	"github.com/quay/claircore/alpine"
	"github.com/quay/claircore/aws"
	"github.com/quay/claircore/debian"
	"github.com/quay/claircore/enricher/cvss"
	"github.com/quay/claircore/enricher/epss"
	"github.com/quay/claircore/libvuln/driver"
	"github.com/quay/claircore/oracle"
	"github.com/quay/claircore/photon"
	"github.com/quay/claircore/rhel/vex"
	"github.com/quay/claircore/suse"
	"github.com/quay/claircore/ubuntu"
	"github.com/quay/claircore/updater/osv"
	"github.com/quay/claircore/verifharness/internal/hx"
)

// result is the canonical observation of one run of a real parser.
type result struct {
	kind  string   // ok | err | panic | hang
	items []string // canonical items, sorted (multiset)
	lines int      // for the VEX line loop: number of distinct record names seen
	// fetchFailed: the error came from Fetch (the pipeline layer only)
	fetchFailed bool
}

func (r result) ok() bool { return r.kind == "ok" }

func canonVuln(v *claircore.Vulnerability) string {
	if v == nil {
		return "nil"
	}
	b, err := json.Marshal(v)
	if err != nil {
		return fmt.Sprintf("%+v|%+v|%+v|%+v", *v, v.Package, v.Dist, v.Repo)
	}
	return string(b)
}

func vulnResult(vs []*claircore.Vulnerability, err error) result {
	if err != nil {
		return result{kind: "err"}
	}
	r := result{kind: "ok"}
	for _, v := range vs {
		r.items = append(r.items, canonVuln(v))
	}
	sort.Strings(r.items)
	return r
}

// guard runs a real-code call with panic capture and a timeout.
func guard(f func() result) (res result) {
	ch := make(chan result, 1)
	go func() {
		defer func() {
			if e := recover(); e != nil {
				ch <- result{kind: "panic"}
			}
		}()
		ch <- f()
	}()
	select {
	case r := <-ch:
		return r
	case <-time.After(20 * time.Second):
		return result{kind: "hang"}
	}
}

// rc adapts a reader to io.ReadCloser.
type rc struct{ io.Reader }

func (rc) Close() error { return nil }

// ra is a ReadCloser that is also an io.ReaderAt with a Size (what the osv
// parser wants to avoid spooling).
type ra struct{ *bytes.Reader }

func (ra) Close() error { return nil }

// classes of a damaged run relative to the intact run
const (
	clErr       = "err"
	clEqual     = "equal"
	clSubset    = "subset"
	clDifferent = "different"
)

// classify compares a damaged result with the intact one.
func classify(intact, got result) string {
	if !got.ok() {
		return got.kind // err | panic | hang
	}
	if len(got.items) == len(intact.items) {
		same := true
		for i := range got.items {
			if got.items[i] != intact.items[i] {
				same = false
				break
			}
		}
		if same {
			return clEqual
		}
	}
	// multiset inclusion (both sorted)
	i := 0
	for _, it := range got.items {
		for i < len(intact.items) && intact.items[i] < it {
			i++
		}
		if i >= len(intact.items) || intact.items[i] != it {
			return clDifferent
		}
		i++
	}
	if len(got.items) < len(intact.items) {
		return clSubset
	}
	return clDifferent
}

// A target is one real parser entry point together with the shape of its
// read loop in the Lean model.
type target struct {
	name string
	// loop names the model's read loop: one-json-end | one-xml | one-xml-drain | lines | records | records-cvss | zip
	loop string
	// gen makes a valid feed: plain is what the read loop consumes, spool is
	// what the parser is handed (plain itself, or a compressed form of it).
	gen func(rnd *hx.Rand, size int) (plain, spool []byte)
	// wrapper names the compression between spool and plain ("" = none)
	wrapper string
	// rewrap compresses an arbitrary plaintext the way gen does (for model ops
	// that cut the plaintext).
	rewrap func(plain []byte) []byte
	// unwrap is the real decompressor alone: all plaintext delivered before
	// the terminal, and whether the terminal was a clean EOF.
	unwrap func(spool []byte) (plain []byte, eof bool)
	parse  func(r io.Reader, whole []byte) result
	// valid: is this spool, by itself, a completely valid feed (see valid.go)
	valid func(spool []byte) bool
	// class names the still-valid finding (default: the target's name)
	class string
	// special classifies a success with other content that is not a
	// still-valid feed under another listed finding ("" = none applies)
	special func(damaged []byte, intact, got result, cl string) string
}

func (t *target) findingClass() string {
	if t.class != "" {
		return "still-valid-" + t.class
	}
	return "still-valid-" + t.name
}

var bg = context.Background()

func must[T any](v T, err error) T {
	if err != nil {
		panic(err)
	}
	return v
}

func parserTarget(name, loop string, p driver.Parser, valid func([]byte) bool, gen func(rnd *hx.Rand, size int) []byte) target {
	return target{name: name, loop: loop, valid: valid,
		gen: func(rnd *hx.Rand, size int) ([]byte, []byte) { b := gen(rnd, size); return b, b },
		parse: func(r io.Reader, _ []byte) result {
			return vulnResult(p.Parse(bg, rc{r}))
		}}
}

func enrichResult(rs []driver.EnrichmentRecord, err error) result {
	if err != nil {
		return result{kind: "err"}
	}
	r := result{kind: "ok"}
	for _, e := range rs {
		b, _ := json.Marshal(e)
		r.items = append(r.items, string(b))
	}
	r.lines = len(rs)
	sort.Strings(r.items)
	return r
}

func readAllTerm(r io.Reader) ([]byte, bool) {
	var out bytes.Buffer
	buf := make([]byte, 4096)
	for {
		n, err := r.Read(buf)
		out.Write(buf[:n])
		if err != nil {
			return out.Bytes(), errors.Is(err, io.EOF)
		}
	}
}

func targets() []target {
	var ts []target
	ts = append(ts, parserTarget("alpine", "one-json-end", alpine.UpdaterForC15(nil, "", 3, 10, "main"), validAlpine,
		func(rnd *hx.Rand, size int) []byte { return genAlpine(rnd, size) }))
	ts = append(ts, parserTarget("debian", "one-json-end", debian.UpdaterForC15(nil, "", debianReleases), validDebian,
		func(rnd *hx.Rand, size int) []byte { return genDebian(rnd, size) }))
	ts = append(ts, parserTarget("ubuntu", "one-xml", ubuntu.UpdaterForC15(nil, "", true, "focal", "20.04"), validOVAL,
		func(rnd *hx.Rand, size int) []byte { return genOVAL(rnd, flavorUbuntu, size) }))
	ts = append(ts, parserTarget("oracle", "one-xml", must(oracle.NewUpdater(2021)), validOVAL,
		func(rnd *hx.Rand, size int) []byte { return genOVAL(rnd, flavorOracle, size) }))
	ts = append(ts, parserTarget("suse", "one-xml", must(suse.NewUpdater(&claircore.Distribution{Name: "SUSE Linux Enterprise Server", Version: "15", DID: "sles", VersionID: "15", PrettyName: "SUSE Linux Enterprise Server 15"})), validOVAL,
		func(rnd *hx.Rand, size int) []byte { return genOVAL(rnd, flavorSuse, size) }))
	ts = append(ts, parserTarget("photon", "one-xml", must(photon.NewUpdater(photon.Photon3)), validOVAL,
		func(rnd *hx.Rand, size int) []byte { return genOVAL(rnd, flavorPhoton, size) }))

	// aws: Parse is handed the gzip reader Client.Updates builds over the spooled download
	awsU := must(aws.NewUpdater(aws.AmazonLinux1))
	ts = append(ts, target{name: "aws", loop: "one-xml-drain", wrapper: "gzip", valid: validAWS,
		gen:    func(rnd *hx.Rand, size int) ([]byte, []byte) { b := genAWS(rnd, size); return b, gz(b) },
		rewrap: gz,
		unwrap: func(spool []byte) ([]byte, bool) {
			zr, err := gzip.NewReader(bytes.NewReader(spool))
			if err != nil {
				return nil, false
			}
			return readAllTerm(zr)
		},
		parse: func(r io.Reader, _ []byte) result {
			zr, err := gzip.NewReader(r) // as aws.Client.Updates does; its error is Fetch's error
			if err != nil {
				return result{kind: "err"}
			}
			return vulnResult(awsU.Parse(bg, rc{zr}))
		}})

	// osv: the spool is the outer zip; the parser wants a ReaderAt when it can get one
	for _, eco := range []string{"Go", "PyPI"} {
		eco := eco
		u := osv.UpdaterForC15(nil, nil, eco)
		ts = append(ts, target{name: "osv-" + eco, loop: "zip", valid: validOSV,
			gen: func(rnd *hx.Rand, size int) ([]byte, []byte) {
				method := uint16(8) // deflate, as the bucket's all.zip
				if rnd.Chance(1, 3) {
					method = 0
				}
				z := wrapOSVOuter(eco, genOSVInner(rnd, eco, size, method))
				return z, z
			},
			parse: func(r io.Reader, whole []byte) result {
				if whole != nil {
					return vulnResult(u.Parse(bg, ra{bytes.NewReader(whole)}))
				}
				return vulnResult(u.Parse(bg, rc{r})) // spooled to a temp file by the parser
			}})
	}

	// vex: DeltaParse over the snappy spool written by Fetch
	vexU := &vex.Updater{}
	ts = append(ts, target{name: "vex", loop: "lines", wrapper: "snappy", valid: validVEX,
		gen:    func(rnd *hx.Rand, size int) ([]byte, []byte) { b := genVEXPlain(rnd, size); return b, snappyFrame(b) },
		rewrap: snappyFrame,
		unwrap: func(spool []byte) ([]byte, bool) { return readAllTerm(snappyReader(bytes.NewReader(spool))) },
		parse: func(r io.Reader, _ []byte) result {
			vs, del, err := vexU.DeltaParse(bg, rc{r})
			res := vulnResult(vs, err)
			if err == nil {
				names := map[string]bool{}
				for _, v := range vs {
					names[v.Name] = true
				}
				for _, d := range del {
					res.items = append(res.items, "deleted:"+d)
					names[d] = true
				}
				sort.Strings(res.items)
				res.lines = len(names)
			}
			return res
		}})

	epssE := &epss.Enricher{}
	ts = append(ts, target{name: "epss", loop: "records", valid: validRecords,
		gen: func(rnd *hx.Rand, size int) ([]byte, []byte) { b := genEnrichSpool(rnd, size, "epss"); return b, b },
		parse: func(r io.Reader, _ []byte) result {
			return enrichResult(epssE.ParseEnrichment(bg, rc{r}))
		}})
	cvssE := &cvss.Enricher{}
	ts = append(ts, target{name: "cvss", loop: "records-cvss", valid: validRecords,
		gen: func(rnd *hx.Rand, size int) ([]byte, []byte) { b := genEnrichSpool(rnd, size, "cvss"); return b, b },
		parse: func(r io.Reader, _ []byte) result {
			return enrichResult(cvssE.ParseEnrichment(bg, rc{r}))
		}})
	ts = append(ts, fetchTargets()...)
	return ts
}

// fetchTargets are the read loops that live in Fetch: the EPSS CSV and the
// NVD year file behind gzip, and the uncompressed change lists of rhel/vex.
// The real code is the whole FetchEnrichment / Fetch (+ Parse) of the
// updater over an in-process transport whose body is the damaged reader.
func fetchTargets() []target {
	ps := pipelines("")
	byName := func(n string) *pipeline {
		for i := range ps {
			if ps[i].name == n {
				return &ps[i]
			}
		}
		panic("no pipeline " + n)
	}
	gunzip := func(spool []byte) ([]byte, bool) {
		zr, err := gzip.NewReader(bytes.NewReader(spool))
		if err != nil {
			return nil, false
		}
		return readAllTerm(zr)
	}
	var ts []target
	pe := byName("epss")
	ts = append(ts, target{name: "epss-fetch", loop: "csv-epss", wrapper: "gzip", class: "epss-csv",
		valid:  validWrapped("gzip", validEPSSCSV),
		gen:    func(rnd *hx.Rand, size int) ([]byte, []byte) { b := genEPSSCSVVaried(rnd, 2*size); return b, gz(b) },
		rewrap: gz, unwrap: gunzip,
		parse: func(r io.Reader, _ []byte) result {
			return pe.runSite(body{reader: func() io.Reader { return r }}, nil)
		},
		special: epssSkipped})
	pc := byName("cvss")
	ts = append(ts, target{name: "cvss-fetch", loop: "one-json-drain", wrapper: "gzip", class: "cvss-nvd",
		valid:  validWrapped("gzip", validNVD),
		gen:    func(rnd *hx.Rand, size int) ([]byte, []byte) { b := genNVDVaried(rnd, 2002, 2*size); return b, gz(b) },
		rewrap: gz, unwrap: gunzip,
		parse: func(r io.Reader, _ []byte) result {
			return pc.runSite(body{reader: func() io.Reader { return r }}, pc.intactAux(nil))
		}})
	pv := byName("vex")
	// one fixed archive of live advisories; the generated file is the change list
	archive, names := genVEXArchiveLive(hx.NewRand(0xC15+99), 5)
	baseAux := func() map[string]body {
		aux := map[string]body{"archive_latest.txt": {data: []byte("csaf_vex_2024-05-01.tar.zst")}, "changes.csv": {}, "deletions.csv": {}}
		for n, b := range vexUpdated(archive) {
			aux[n] = body{data: b}
		}
		aux["2023/cve-2023-99999.json"] = body{data: []byte(`{"document":{"tracking":{"id":"CVE-2023-99999","status":"deleted"}}}`)}
		return aux
	}
	countDeleted := func(res result) result {
		if res.ok() {
			res.lines = 0
			for _, it := range res.items {
				if strings.HasPrefix(it, "deleted:") {
					res.lines++
				}
			}
		}
		return res
	}
	ts = append(ts, target{name: "vex-deletions", loop: "csv-vex-del", class: "vex-plain", valid: validVEXCSV,
		gen: func(rnd *hx.Rand, size int) ([]byte, []byte) { b := genVEXCSV(rnd, names, 1+size, false); return b, b },
		parse: func(r io.Reader, _ []byte) result {
			return countDeleted(pv.runSite(body{data: archive}, withAux(baseAux(), "deletions.csv", body{reader: func() io.Reader { return r }})))
		}})
	ts = append(ts, target{name: "vex-changes", loop: "csv-vex-chg", class: "vex-plain", valid: validVEXCSV,
		gen: func(rnd *hx.Rand, size int) ([]byte, []byte) { b := genVEXCSV(rnd, names, 1+size, true); return b, b },
		parse: func(r io.Reader, _ []byte) result {
			res := pv.runSite(body{data: archive}, withAux(baseAux(), "changes.csv", body{reader: func() io.Reader { return r }}))
			if res.ok() {
				// records processed = advisories now present in their updated version,
				// plus the one that exists only as a change (it reads "deleted")
				seen := map[string]bool{}
				for _, it := range res.items {
					if strings.Contains(it, "An updated flaw was found") {
						var v struct {
							Name string `json:"name"`
						}
						json.Unmarshal([]byte(it), &v)
						seen[v.Name] = true
					}
					if it == "deleted:CVE-2023-99999" {
						seen[it] = true
					}
				}
				res.lines = len(seen)
			}
			return res
		}})
	return ts
}

// epssSkipped: the damaged file is a complete gzip stream whose CSV has the
// expected shape except that some records carry a score that does not parse;
// the result holds exactly the other records (finding epss-skips-unparsable-record).
func epssSkipped(damaged []byte, intact, got result, cl string) string {
	plain, ok := decompressAll("gzip", damaged)
	if !ok || cl != clSubset {
		return ""
	}
	rd := csv.NewReader(bytes.NewReader(plain))
	rd.FieldsPerRecord = -1
	if _, err := rd.Read(); err != nil {
		return ""
	}
	rd.Comment = '#'
	recs, err := rd.ReadAll()
	if err != nil || len(recs) < 1 {
		return ""
	}
	good, bad := 0, 0
	for _, rec := range recs[1:] {
		if len(rec) != 3 {
			return ""
		}
		_, e1 := strconv.ParseFloat(rec[1], 64)
		_, e2 := strconv.ParseFloat(rec[2], 64)
		if e1 == nil && e2 == nil {
			good++
		} else {
			bad++
		}
	}
	if bad > 0 && good == len(got.items) {
		return "epss-skips-unparsable-record"
	}
	return ""
}
