package c15

import (
	"archive/tar"
	"archive/zip"
	"bytes"
	"compress/gzip"
	"encoding/json"
	"fmt"
	"strings"

	"github.com/cespare/xxhash/v2"
	"github.com/klauspost/compress/snappy"
	"github.com/klauspost/compress/zstd"

	"github.com/quay/claircore/verifharness/internal/hx"
)

// ---- small vocabulary ----

var pkgNames = []string{"openssl", "zlib", "busybox", "curl", "sqlite", "libxml2", "expat", "bash", "musl", "nghttp2", "krb5", "glibc"}

func cveID(rnd *hx.Rand) string {
	return fmt.Sprintf("CVE-%d-%04d", 2015+rnd.Intn(10), 1000+rnd.Intn(9000))
}

func evr(rnd *hx.Rand) string {
	return fmt.Sprintf("%d.%d.%d-%d", rnd.Intn(4), rnd.Intn(30), rnd.Intn(10), 1+rnd.Intn(9))
}

// ---- alpine secdb (JSON object, one Decode) ----

func genAlpine(rnd *hx.Rand, npkgs int) []byte {
	type details struct {
		Name     string              `json:"name"`
		Secfixes map[string][]string `json:"secfixes"`
	}
	type pkg struct {
		Pkg details `json:"pkg"`
	}
	db := struct {
		Apkurl        string   `json:"apkurl"`
		Archs         []string `json:"archs"`
		Reponame      string   `json:"reponame"`
		Urlprefix     string   `json:"urlprefix"`
		Distroversion string   `json:"distroversion"`
		Packages      []pkg    `json:"packages"`
	}{
		Apkurl: "{{urlprefix}}/{{distroversion}}/{{reponame}}/{{arch}}/{{pkg.name}}-{{pkg.ver}}.apk",
		Archs:  []string{"x86_64", "aarch64"}, Reponame: "main", Urlprefix: "https://dl-cdn.alpinelinux.org/alpine", Distroversion: "v3.10",
	}
	for i := 0; i < npkgs; i++ {
		d := details{Name: pkgNames[(i+rnd.Intn(3))%len(pkgNames)] + fmt.Sprint(i), Secfixes: map[string][]string{}}
		for j := 0; j < 1+rnd.Intn(2); j++ {
			var ids []string
			for k := 0; k < 1+rnd.Intn(3); k++ {
				ids = append(ids, cveID(rnd))
			}
			d.Secfixes[evr(rnd)+"-r"+fmt.Sprint(j)] = ids
		}
		db.Packages = append(db.Packages, pkg{d})
	}
	var b []byte
	if rnd.Chance(1, 2) {
		b, _ = json.MarshalIndent(&db, "", "  ")
	} else {
		b, _ = json.Marshal(&db)
	}
	if rnd.Chance(1, 2) {
		b = append(b, '\n')
	}
	return b
}

// ---- debian security tracker JSON (object of objects, one Decode) ----

var debianReleases = map[string]int{"buster": 10, "bullseye": 11, "bookworm": 12}

func genDebian(rnd *hx.Rand, npkgs int) []byte {
	type rel struct {
		Status       string `json:"status"`
		Repositories map[string]string
		FixedVersion string `json:"fixed_version,omitempty"`
		Urgency      string `json:"urgency"`
	}
	type vuln struct {
		Description string         `json:"description"`
		Scope       string         `json:"scope,omitempty"`
		Releases    map[string]rel `json:"releases"`
	}
	data := map[string]map[string]vuln{}
	rels := []string{"buster", "bullseye", "bookworm", "sid"}
	for i := 0; i < npkgs; i++ {
		vs := map[string]vuln{}
		for j := 0; j < 1+rnd.Intn(2); j++ {
			v := vuln{Description: "issue in " + pkgNames[i%len(pkgNames)] + " \"quoted\" é", Releases: map[string]rel{}}
			for _, rn := range rels {
				if rnd.Chance(2, 3) {
					r := rel{Status: rnd.Pick("resolved", "open"), Urgency: rnd.Pick("not yet assigned", "low", "medium", "high", "unimportant"),
						Repositories: map[string]string{rn: evr(rnd)}}
					if r.Status == "resolved" {
						r.FixedVersion = evr(rnd)
					}
					v.Releases[rn] = r
				}
			}
			if len(v.Releases) == 0 {
				v.Releases["bookworm"] = rel{Status: "open", Urgency: "low"}
			}
			vs[cveID(rnd)] = v
		}
		data[pkgNames[i%len(pkgNames)]+fmt.Sprint(i)] = vs
	}
	b, _ := json.Marshal(data)
	if rnd.Chance(1, 2) {
		b = append(b, '\n')
	}
	return b
}

// ---- OVAL (XML document, one Decode) ----

type ovalFlavor struct {
	rpm       bool   // rpminfo_* vs dpkginfo_*
	platform  string // <platform> text
	ns        string // id namespace
	defClass  string
	titleFunc func(i int, cve string) string
}

var (
	flavorOracle = ovalFlavor{rpm: true, platform: "Oracle Linux 8", ns: "com.oracle.elsa", defClass: "patch"}
	flavorSuse   = ovalFlavor{rpm: true, platform: "SUSE Linux Enterprise Server 15", ns: "org.opensuse.security", defClass: "vulnerability"}
	flavorPhoton = ovalFlavor{rpm: true, platform: "Photon 3", ns: "com.vmware.phsa", defClass: "patch"}
	flavorUbuntu = ovalFlavor{rpm: false, platform: "Ubuntu 20.04 LTS", ns: "com.ubuntu.focal", defClass: "vulnerability"}
)

func xmlEsc(s string) string {
	r := strings.NewReplacer("&", "&amp;", "<", "&lt;", ">", "&gt;", `"`, "&quot;")
	return r.Replace(s)
}

func genOVAL(rnd *hx.Rand, fl ovalFlavor, ndefs int) []byte {
	var defs, tests, objs, states strings.Builder
	kind := "dpkginfo"
	if fl.rpm {
		kind = "rpminfo"
	}
	id := 100
	for i := 0; i < ndefs; i++ {
		cve := cveID(rnd)
		sev := rnd.Pick("Important", "Moderate", "Low", "Critical", "Medium", "High", "Negligible")
		fmt.Fprintf(&defs, "<definition class=%q id=\"oval:%s:def:%d\" version=\"1\">\n<metadata>\n<title>%s</title>\n<affected family=\"unix\"><platform>%s</platform></affected>\n",
			fl.defClass, fl.ns, 1000+i, xmlEsc(cve+" security update & more ("+sev+")"), fl.platform)
		fmt.Fprintf(&defs, "<reference ref_id=%q ref_url=\"https://example.test/%s?a=1&amp;b=2\" source=\"CVE\"/>\n", cve, cve)
		if rnd.Chance(1, 3) {
			defs.WriteString("<!-- a comment with <tags> & stuff -->\n")
		}
		fmt.Fprintf(&defs, "<description>%s</description>\n<advisory from=\"sec@example.test\"><severity>%s</severity><rights>Copyright</rights><issued date=\"2021-0%d-1%d\"/><updated date=\"2021-10-11\"/><cve>%s</cve></advisory>\n</metadata>\n",
			xmlEsc("Fixes "+cve+" <![not cdata]> 'single' \"double\""), sev, 1+rnd.Intn(9), rnd.Intn(10), cve)
		defs.WriteString("<criteria operator=\"AND\">\n")
		fmt.Fprintf(&defs, "<criterion comment=\"release is installed\" test_ref=\"oval:%s:tst:%d\"/>\n<criteria operator=\"OR\">\n", fl.ns, 1)
		for j := 0; j < 1+rnd.Intn(3); j++ {
			id++
			name := pkgNames[rnd.Intn(len(pkgNames))] + fmt.Sprint(id)
			ver := "0:" + evr(rnd)
			fmt.Fprintf(&defs, "<criterion comment=\"%s is earlier than %s\" test_ref=\"oval:%s:tst:%d\"/>\n", name, ver, fl.ns, id)
			fmt.Fprintf(&tests, "<%s_test check=\"at least one\" comment=\"%s\" id=\"oval:%s:tst:%d\" version=\"1\" xmlns=\"http://oval.mitre.org/XMLSchema/oval-definitions-5#linux\"><object object_ref=\"oval:%s:obj:%d\"/><state state_ref=\"oval:%s:ste:%d\"/></%s_test>\n",
				kind, name, fl.ns, id, fl.ns, id, fl.ns, id, kind)
			fmt.Fprintf(&objs, "<%s_object id=\"oval:%s:obj:%d\" version=\"1\" xmlns=\"http://oval.mitre.org/XMLSchema/oval-definitions-5#linux\"><name>%s</name></%s_object>\n",
				kind, fl.ns, id, name, kind)
			fmt.Fprintf(&states, "<%s_state id=\"oval:%s:ste:%d\" version=\"1\" xmlns=\"http://oval.mitre.org/XMLSchema/oval-definitions-5#linux\"><evr datatype=\"evr_string\" operation=\"less than\">%s</evr></%s_state>\n",
				kind, fl.ns, id, ver, kind)
		}
		defs.WriteString("</criteria>\n</criteria>\n</definition>\n")
	}
	// the "release installed" test has no evr state
	fmt.Fprintf(&tests, "<%s_test check=\"at least one\" comment=\"release\" id=\"oval:%s:tst:1\" version=\"1\" xmlns=\"http://oval.mitre.org/XMLSchema/oval-definitions-5#linux\"><object object_ref=\"oval:%s:obj:1\"/><state state_ref=\"oval:%s:ste:1\"/></%s_test>\n",
		kind, fl.ns, fl.ns, fl.ns, kind)
	fmt.Fprintf(&objs, "<%s_object id=\"oval:%s:obj:1\" version=\"1\" xmlns=\"http://oval.mitre.org/XMLSchema/oval-definitions-5#linux\"><name>release-pkg</name></%s_object>\n", kind, fl.ns, kind)
	fmt.Fprintf(&states, "<%s_state id=\"oval:%s:ste:1\" version=\"1\" xmlns=\"http://oval.mitre.org/XMLSchema/oval-definitions-5#linux\"><version operation=\"pattern match\">^8</version></%s_state>\n", kind, fl.ns, kind)

	var b strings.Builder
	if rnd.Chance(2, 3) {
		b.WriteString("<?xml version=\"1.0\" encoding=\"" + rnd.Pick("utf-8", "UTF-8", "ASCII") + "\"?>\n")
	}
	b.WriteString("<oval_definitions xmlns=\"http://oval.mitre.org/XMLSchema/oval-definitions-5\" xmlns:oval=\"http://oval.mitre.org/XMLSchema/oval-common-5\">\n")
	b.WriteString("<generator><oval:product_name>gen</oval:product_name><oval:schema_version>5.11</oval:schema_version><oval:timestamp>2021-01-01T00:00:00</oval:timestamp></generator>\n")
	b.WriteString("<definitions>\n" + defs.String() + "</definitions>\n<tests>\n" + tests.String() + "</tests>\n<objects>\n" + objs.String() + "</objects>\n<states>\n" + states.String() + "</states>\n</oval_definitions>")
	if rnd.Chance(1, 2) {
		b.WriteString("\n")
	}
	return []byte(b.String())
}

// ---- aws updateinfo (XML document, one Decode) ----

func genAWS(rnd *hx.Rand, nupd int) []byte {
	var b strings.Builder
	b.WriteString("<?xml version=\"1.0\" ?>\n<updates>")
	for i := 0; i < nupd; i++ {
		sev := rnd.Pick("important", "medium", "low", "critical")
		fmt.Fprintf(&b, "<update author=\"linux-security@amazon.com\" from=\"linux-security@amazon.com\" status=\"final\" type=\"security\" version=\"1.4\"><id>ALAS-2021-%d</id><title>Amazon Linux - ALAS-2021-%d: %s priority package update</title><issued date=\"2021-0%d-1%d 1%d:0%d\" /><updated date=\"2021-09-0%d 22:25\" /><severity>%s</severity><description>Package updates are available &amp; fix the following:\n%s</description><references>",
			1000+i, 1000+i, sev, 1+rnd.Intn(9), rnd.Intn(10), rnd.Intn(10), rnd.Intn(10), 1+rnd.Intn(9), sev, cveID(rnd))
		for j := 0; j < 1+rnd.Intn(2); j++ {
			c := cveID(rnd)
			fmt.Fprintf(&b, "<reference href=\"http://cve.mitre.org/cgi-bin/cvename.cgi?name=%s\" id=%q type=\"cve\" />", c, c)
		}
		b.WriteString("</references><pkglist><collection short=\"amazon-linux\"><name>Amazon Linux</name>")
		for j := 0; j < 1+rnd.Intn(3); j++ {
			n := pkgNames[rnd.Intn(len(pkgNames))] + fmt.Sprint(i*10+j)
			fmt.Fprintf(&b, "<package arch=%q epoch=\"%d\" name=%q release=\"%d.amzn1\" version=\"%d.%d\"><filename>Packages/%s.rpm</filename></package>",
				rnd.Pick("x86_64", "i686", "noarch"), rnd.Intn(2), n, 1+rnd.Intn(30), rnd.Intn(9), rnd.Intn(20), n)
		}
		b.WriteString("</collection></pkglist></update>")
	}
	b.WriteString("</updates>")
	if rnd.Chance(1, 2) {
		b.WriteString("\n")
	}
	return []byte(b.String())
}

// ---- OSV: a zip of advisory JSON files, stored inside an outer zip (what Fetch spools) ----

func genOSVAdvisory(rnd *hx.Rand, i int, eco string) (string, []byte) {
	id := fmt.Sprintf("GHSA-%04d-%04d-%04d", rnd.Intn(10000), rnd.Intn(10000), i)
	type ev map[string]string
	adv := map[string]any{
		"schema_version": "1.3.1",
		"id":             id,
		"modified":       "2022-01-02T03:04:05Z",
		"published":      "2021-01-02T03:04:05Z",
		"summary":        "summary of " + id,
		"details":        strings.Repeat("details ", 3+rnd.Intn(5)),
		"aliases":        []string{cveID(rnd)},
		"references":     []map[string]string{{"type": "WEB", "url": "https://example.test/" + id}},
	}
	if rnd.Chance(1, 2) {
		adv["severity"] = []map[string]string{{"type": "CVSS_V3", "score": "CVSS:3.1/AV:N/AC:L/PR:N/UI:N/S:U/C:H/I:H/A:H"}}
	} else {
		adv["database_specific"] = map[string]string{"severity": rnd.Pick("HIGH", "MODERATE", "LOW", "CRITICAL")}
	}
	var affs []map[string]any
	for j := 0; j < 1+rnd.Intn(2); j++ {
		lo := fmt.Sprintf("%d.%d.0", rnd.Intn(3), rnd.Intn(5))
		hi := fmt.Sprintf("%d.%d.%d", 3+rnd.Intn(3), rnd.Intn(5), rnd.Intn(9))
		events := []ev{{"introduced": rnd.Pick("0", lo)}, {"fixed": hi}}
		typ := "SEMVER"
		if eco == "PyPI" || eco == "Maven" || eco == "RubyGems" {
			typ = "ECOSYSTEM"
		}
		affs = append(affs, map[string]any{
			"package": map[string]string{"ecosystem": eco, "name": pkgNames[rnd.Intn(len(pkgNames))] + fmt.Sprint(i, j), "purl": "pkg:generic/x"},
			"ranges":  []map[string]any{{"type": typ, "events": events}},
		})
	}
	adv["affected"] = affs
	b, _ := json.Marshal(adv)
	return id + ".json", b
}

// genOSVInner returns the ecosystem's all.zip as the OSV bucket serves it.
func genOSVInner(rnd *hx.Rand, eco string, nadv int, method uint16) []byte {
	var buf bytes.Buffer
	w := zip.NewWriter(&buf)
	for i := 0; i < nadv; i++ {
		n, b := genOSVAdvisory(rnd, i, eco)
		f, _ := w.CreateHeader(&zip.FileHeader{Name: n, Method: method})
		f.Write(b)
	}
	w.Close()
	return buf.Bytes()
}

// wrapOSVOuter is what osv Fetch writes to its spool: a zip holding
// "<ecosystem>.zip", stored.
func wrapOSVOuter(eco string, inner []byte) []byte {
	var buf bytes.Buffer
	w := zip.NewWriter(&buf)
	f, _ := w.CreateHeader(&zip.FileHeader{Name: strings.ToLower(eco) + ".zip", Method: zip.Store})
	f.Write(inner)
	w.Close()
	return buf.Bytes()
}

// ---- VEX: newline-delimited compacted CSAF documents, snappy framed ----

// genVEXLine makes one CSAF/VEX document on one line. Every line has a
// distinct tracking id and yields either one `deleted` name or at least one
// vulnerability of that name, so the number of lines DeltaParse processed is
// observable from its result.
func genVEXLine(rnd *hx.Rand, i int) []byte {
	id := fmt.Sprintf("CVE-2024-%05d", 10000+i)
	switch rnd.Intn(4) {
	case 0:
		return []byte(fmt.Sprintf(`{"document":{"tracking":{"id":"%s","status":"deleted"}}}`, id))
	}
	repo := rnd.Pick("AppStream-8.10.0.Z.MAIN", "BaseOS-9.4.0.Z.MAIN", "CRB-9.4.0.Z.MAIN")
	cpeName := map[string]string{"AppStream-8.10.0.Z.MAIN": "cpe:/a:redhat:enterprise_linux:8::appstream", "BaseOS-9.4.0.Z.MAIN": "cpe:/o:redhat:enterprise_linux:9::baseos", "CRB-9.4.0.Z.MAIN": "cpe:/a:redhat:enterprise_linux:9::crb"}[repo]
	pkg := pkgNames[rnd.Intn(len(pkgNames))]
	var branches []any
	var rels []any
	status := map[string][]string{}
	branches = append(branches, map[string]any{"category": "product_name", "name": "Red Hat Enterprise Linux " + repo,
		"product": map[string]any{"name": repo, "product_id": repo, "product_identification_helper": map[string]string{"cpe": cpeName}}})
	var threatIDs []string
	nfixed := rnd.Intn(3)
	for j := 0; j < nfixed; j++ {
		nevra := fmt.Sprintf("%s%d-0:%s.el9.%s", pkg, j, evr(rnd), rnd.Pick("x86_64", "aarch64", "src"))
		name := strings.SplitN(nevra, "-0:", 2)[0]
		arch := nevra[strings.LastIndex(nevra, ".")+1:]
		ver := strings.TrimSuffix(strings.SplitN(nevra, "-0:", 2)[1], "."+arch)
		branches = append(branches, map[string]any{"category": "product_version", "name": nevra,
			"product": map[string]any{"name": nevra, "product_id": nevra, "product_identification_helper": map[string]string{"purl": fmt.Sprintf("pkg:rpm/redhat/%s@%s?arch=%s", name, ver, arch)}}})
		full := repo + ":" + nevra
		rels = append(rels, map[string]any{"category": "default_component_of", "full_product_name": map[string]string{"name": nevra + " as a component of " + repo, "product_id": full},
			"product_reference": nevra, "relates_to_product_reference": repo})
		status["fixed"] = append(status["fixed"], full)
		threatIDs = append(threatIDs, full)
	}
	// always one known_affected component so that the line yields a vulnerability
	comp := pkg + "-ka"
	branches = append(branches, map[string]any{"category": "product_version", "name": comp,
		"product": map[string]any{"name": comp, "product_id": comp, "product_identification_helper": map[string]string{"purl": "pkg:rpm/redhat/" + comp + "?arch=src"}}})
	full := repo + ":" + comp
	rels = append(rels, map[string]any{"category": "default_component_of", "full_product_name": map[string]string{"name": comp + " as a component of " + repo, "product_id": full},
		"product_reference": comp, "relates_to_product_reference": repo})
	status["known_affected"] = append(status["known_affected"], full)
	threatIDs = append(threatIDs, full)
	doc := map[string]any{
		"document": map[string]any{
			"category": "csaf_vex", "csaf_version": "2.0", "title": pkg + ": flaw",
			"tracking":   map[string]any{"id": id, "status": "final", "current_release_date": "2024-05-01T10:00:00+00:00", "initial_release_date": "2024-04-01T10:00:00+00:00"},
			"references": []map[string]string{{"category": "self", "summary": "Canonical URL", "url": "https://access.redhat.com/security/data/csaf/v2/vex/2024/" + strings.ToLower(id) + ".json"}},
		},
		"product_tree": map[string]any{"branches": []any{map[string]any{"category": "vendor", "name": "Red Hat", "branches": branches}}, "relationships": rels},
		"vulnerabilities": []any{map[string]any{
			"cve": id, "release_date": "2024-04-01T00:00:00+00:00",
			"notes":          []map[string]string{{"category": "description", "text": "A flaw was found in " + pkg + ".", "title": "Vulnerability description"}},
			"product_status": status,
			"references":     []map[string]string{{"category": "external", "summary": "nvd", "url": "https://nvd.nist.gov/vuln/detail/" + id}},
			"scores":         []any{map[string]any{"cvss_v3": map[string]any{"baseScore": 7.5, "baseSeverity": "HIGH", "vectorString": "CVSS:3.1/AV:N/AC:L/PR:N/UI:N/S:U/C:N/I:N/A:H", "version": "3.1"}, "products": threatIDs}},
			"threats":        []any{map[string]any{"category": "impact", "details": rnd.Pick("Moderate", "Important", "Low"), "product_ids": threatIDs}},
		}},
	}
	b, _ := json.Marshal(doc)
	return b
}

func genVEXPlain(rnd *hx.Rand, nlines int) []byte {
	var b bytes.Buffer
	for i := 0; i < nlines; i++ {
		b.Write(genVEXLine(rnd, i))
		b.WriteByte('\n')
	}
	return b.Bytes()
}

// snappyFrame compresses the way vex Fetch does (buffered writer, closed).
func snappyFrame(plain []byte) []byte {
	var buf bytes.Buffer
	w := snappy.NewBufferedWriter(&buf)
	w.Write(plain)
	w.Close()
	return buf.Bytes()
}

// ---- enrichment spools: concatenated JSON records as json.Encoder writes them ----

func genEnrichSpool(rnd *hx.Rand, n int, kind string) []byte {
	var b bytes.Buffer
	enc := json.NewEncoder(&b)
	for i := 0; i < n; i++ {
		id := fmt.Sprintf("CVE-2023-%04d", 1000+i)
		var e json.RawMessage
		if kind == "epss" {
			e = json.RawMessage(fmt.Sprintf(`{"modelVersion":"v2023.03.01","date":"2024-10-25T00:00:00+0000","cve":%q,"epss":0.%05d,"percentile":0.%05d}`, id, rnd.Intn(100000), rnd.Intn(100000)))
		} else {
			e = json.RawMessage(fmt.Sprintf(`{"version":"3.1","vectorString":"CVSS:3.1/AV:N/AC:L/PR:N/UI:N/S:U/C:H/I:%s/A:H","baseScore":9.%d,"baseSeverity":"CRITICAL"}`, rnd.Pick("H", "L", "N"), rnd.Intn(9)))
		}
		enc.Encode(struct {
			Tags       []string
			Enrichment json.RawMessage
		}{[]string{id}, e})
	}
	return b.Bytes()
}

// ---- transit forms for the fetchers ----

func gz(b []byte) []byte {
	var buf bytes.Buffer
	w := gzip.NewWriter(&buf)
	w.Write(b)
	w.Close()
	return buf.Bytes()
}

func zst(b []byte) []byte {
	var buf bytes.Buffer
	w, _ := zstd.NewWriter(&buf, zstd.WithEncoderCRC(true))
	w.Write(b)
	w.Close()
	return buf.Bytes()
}

// genEPSSCSV is the upstream EPSS file (before gzip).
func genEPSSCSV(rnd *hx.Rand, n int) []byte {
	var b strings.Builder
	b.WriteString("#model_version:v2023.03.01,score_date:2024-10-25T00:00:00+0000\ncve,epss,percentile\n")
	for i := 0; i < n; i++ {
		fmt.Fprintf(&b, "CVE-2023-%04d,0.%05d,0.%05d\n", 1000+i, rnd.Intn(100000), rnd.Intn(100000))
	}
	return []byte(b.String())
}

// genNVD is one year's NVD JSON feed (before gzip) in the shape cvss's
// newItemFeed expects.
func genNVD(rnd *hx.Rand, year, n int) []byte {
	var items []any
	for i := 0; i < n; i++ {
		it := map[string]any{"cve": map[string]any{"CVE_data_meta": map[string]string{"ID": fmt.Sprintf("CVE-%d-%04d", year, 1000+i)}}}
		if rnd.Chance(4, 5) {
			it["impact"] = map[string]any{"baseMetricV3": map[string]any{"cvssV3": map[string]any{"version": "3.1", "vectorString": "CVSS:3.1/AV:N/AC:L/PR:N/UI:N/S:U/C:H/I:H/A:" + rnd.Pick("H", "L", "N"), "baseScore": 9.8}}}
		} else {
			it["impact"] = map[string]any{}
		}
		items = append(items, it)
	}
	b, _ := json.Marshal(map[string]any{"CVE_data_type": "CVE", "CVE_data_numberOfCVEs": fmt.Sprint(n), "CVE_Items": items})
	return b
}

// genVEXArchive is the tar.zst archive of per-CVE files vex Fetch downloads.
func genVEXArchive(rnd *hx.Rand, n int) []byte {
	var buf bytes.Buffer
	tw := tar.NewWriter(&buf)
	for i := 0; i < n; i++ {
		line := genVEXLine(rnd, i)
		var pretty bytes.Buffer
		json.Indent(&pretty, line, "", " ")
		name := fmt.Sprintf("2024/cve-2024-%05d.json", 10000+i)
		tw.WriteHeader(&tar.Header{Name: name, Mode: 0o644, Size: int64(pretty.Len()), Typeflag: tar.TypeReg})
		tw.Write(pretty.Bytes())
	}
	tw.Close()
	if rnd.Chance(2, 3) {
		// GNU tar pads the archive to a multiple of its record size (20 blocks):
		// the end-of-archive marker is then far from the end of the stream
		for buf.Len()%10240 != 0 {
			buf.Write(make([]byte, 512))
		}
	}
	return zst(buf.Bytes())
}

// genEPSSCSVVaried is the EPSS file with the variety the CSV reader has
// branches for: LF or CRLF line ends, comment and empty lines between records,
// scores with exponents, a last line with or without its line end.
func genEPSSCSVVaried(rnd *hx.Rand, n int) []byte {
	nl := "\n"
	if rnd.Chance(1, 3) {
		nl = "\r\n"
	}
	var b strings.Builder
	if rnd.Chance(1, 5) {
		b.WriteString(nl)
	}
	b.WriteString("#model_version:v2023.03.01,score_date:2024-10-25T00:00:00+0000" + nl)
	if rnd.Chance(1, 4) {
		b.WriteString("# a comment before the header" + nl)
	}
	b.WriteString("cve,epss,percentile" + nl)
	score := func() string {
		switch rnd.Intn(4) {
		case 0:
			return fmt.Sprintf("%d.%de-%02d", 1+rnd.Intn(9), rnd.Intn(100), 1+rnd.Intn(9))
		case 1:
			return fmt.Sprintf("0.%09d", rnd.Intn(1000000000))
		default:
			return fmt.Sprintf("0.%05d", rnd.Intn(100000))
		}
	}
	for i := 0; i < n; i++ {
		if rnd.Chance(1, 7) {
			b.WriteString("#comment," + score() + nl)
		}
		if rnd.Chance(1, 9) {
			b.WriteString(nl)
		}
		fmt.Fprintf(&b, "CVE-2023-%04d,%s,%s", 1000+i, score(), score())
		if i < n-1 || rnd.Chance(2, 3) {
			b.WriteString(nl)
		}
	}
	return []byte(b.String())
}

// genNVDVaried: the NVD year file, compact or indented, with or without a
// final line end.
func genNVDVaried(rnd *hx.Rand, year, n int) []byte {
	b := genNVD(rnd, year, n)
	if rnd.Chance(1, 2) {
		var out bytes.Buffer
		json.Indent(&out, b, "", " ")
		b = out.Bytes()
	}
	if rnd.Chance(1, 2) {
		b = append(b, '\n')
	}
	return b
}

// genVEXArchiveLive is an archive whose advisories all yield vulnerabilities
// (none has the status "deleted"); it returns the member names as well.
func genVEXArchiveLive(rnd *hx.Rand, n int) ([]byte, []string) {
	var buf bytes.Buffer
	var names []string
	tw := tar.NewWriter(&buf)
	for i := 0; i < n; i++ {
		line := genVEXLine(rnd, i)
		for bytes.Contains(line, []byte(`"status":"deleted"`)) {
			line = genVEXLine(rnd, i)
		}
		var pretty bytes.Buffer
		json.Indent(&pretty, line, "", " ")
		name := fmt.Sprintf("2024/cve-2024-%05d.json", 10000+i)
		names = append(names, name)
		tw.WriteHeader(&tar.Header{Name: name, Mode: 0o644, Size: int64(pretty.Len()), Typeflag: tar.TypeReg})
		tw.Write(pretty.Bytes())
	}
	tw.Close()
	return zst(buf.Bytes()), names
}

// vexUpdated is the newer version of every member of the archive, by name.
func vexUpdated(archive []byte) map[string][]byte {
	out := map[string][]byte{}
	plain, _ := decompressAll("zstd", archive)
	tr := tar.NewReader(bytes.NewReader(plain))
	for {
		h, err := tr.Next()
		if err != nil {
			return out
		}
		var b bytes.Buffer
		b.ReadFrom(tr)
		out[h.Name] = bytes.Replace(b.Bytes(), []byte("A flaw was found"), []byte("An updated flaw was found"), 1)
	}
}

// genVEXCSV is a changes.csv / deletions.csv: unquoted "path,time" records
// over distinct names of the archive (and, for changes, possibly one advisory
// that is not in the archive).
func genVEXCSV(rnd *hx.Rand, names []string, n int, changes bool) []byte {
	nl := "\n"
	if rnd.Chance(1, 3) {
		nl = "\r\n"
	}
	pool := append([]string(nil), names...)
	if changes {
		pool = append(pool, "2023/cve-2023-99999.json")
	} else {
		pool = append(pool, "2023/cve-2023-00001.json", "2022/cve-2022-123456.json")
	}
	for i := len(pool) - 1; i > 0; i-- {
		j := rnd.Intn(i + 1)
		pool[i], pool[j] = pool[j], pool[i]
	}
	if n > len(pool) {
		n = len(pool)
	}
	var b strings.Builder
	for i := 0; i < n; i++ {
		t := fmt.Sprintf("2024-05-%02dT%02d:%02d:%02d", 2+rnd.Intn(20), rnd.Intn(24), rnd.Intn(60), rnd.Intn(60))
		if rnd.Chance(1, 2) {
			t += "Z"
		} else {
			t += fmt.Sprintf("+%02d:00", rnd.Intn(3))
		}
		fmt.Fprintf(&b, "%s,%s", pool[i], t)
		if i < n-1 || rnd.Chance(2, 3) {
			b.WriteString(nl)
		}
		if rnd.Chance(1, 8) {
			b.WriteString(nl)
		}
	}
	return []byte(b.String())
}

// ---- wrappers that store instead of compressing ----
//
// With stored deflate blocks / raw zstd blocks every byte of the plaintext
// sits verbatim in the stream: a flipped content byte leaves the stream
// decodable and (often) the document well-formed, so that only the trailing
// checksum can tell — exactly the reads the fetchers must not skip.

func gzStored(b []byte) []byte {
	var buf bytes.Buffer
	w, _ := gzip.NewWriterLevel(&buf, gzip.NoCompression)
	w.Write(b)
	w.Close()
	return buf.Bytes()
}

// zstRaw is a zstd frame of raw blocks with a content checksum.
func zstRaw(b []byte) []byte {
	out := []byte{0x28, 0xB5, 0x2F, 0xFD, 0x04, 0x50} // magic, descriptor (checksum), window 1 MiB
	const max = 1 << 16
	if len(b) == 0 {
		out = append(out, 0x01, 0x00, 0x00) // last, raw, size 0
	}
	for off := 0; off < len(b); off += max {
		end := off + max
		last := uint32(0)
		if end >= len(b) {
			end, last = len(b), 1
		}
		h := uint32(end-off)<<3 | last
		out = append(out, byte(h), byte(h>>8), byte(h>>16))
		out = append(out, b[off:end]...)
	}
	sum := xxhash.Sum64(b)
	return append(out, byte(sum), byte(sum>>8), byte(sum>>16), byte(sum>>24))
}

// genVEXArchiveRaw: the archive of genVEXArchive, padded like GNU tar, in a
// zstd frame of raw blocks.
func genVEXArchiveRaw(rnd *hx.Rand, n int) []byte {
	var buf bytes.Buffer
	tw := tar.NewWriter(&buf)
	for i := 0; i < n; i++ {
		line := genVEXLine(rnd, i)
		var pretty bytes.Buffer
		json.Indent(&pretty, line, "", " ")
		name := fmt.Sprintf("2024/cve-2024-%05d.json", 10000+i)
		tw.WriteHeader(&tar.Header{Name: name, Mode: 0o644, Size: int64(pretty.Len()), Typeflag: tar.TypeReg})
		tw.Write(pretty.Bytes())
	}
	tw.Close()
	for buf.Len()%10240 != 0 {
		buf.Write(make([]byte, 512))
	}
	return zstRaw(buf.Bytes())
}
