package c15

import (
	"errors"
	"io"

	"github.com/klauspost/compress/snappy"
)

var errInjected = errors.New("c15: injected read error")

// failReader delivers b in chunks of at most chunk bytes and then fails with
// errInjected instead of io.EOF. with=true returns the error together with
// the last chunk (a reader is allowed to do that).
type failReader struct {
	b     []byte
	chunk int
	with  bool
	term  error
}

func (f *failReader) Read(p []byte) (int, error) {
	if len(f.b) == 0 {
		return 0, f.term
	}
	n := f.chunk
	if n <= 0 || n > len(f.b) {
		n = len(f.b)
	}
	if n > len(p) {
		n = len(p)
	}
	copy(p, f.b[:n])
	f.b = f.b[n:]
	if len(f.b) == 0 && f.with {
		return n, f.term
	}
	return n, nil
}

func snappyReader(r io.Reader) io.Reader { return snappy.NewReader(r) }

// flipped returns a copy of b with b[pos] ^= x.
func flipped(b []byte, pos int, x byte) []byte {
	c := append([]byte(nil), b...)
	c[pos] ^= x
	return c
}

// deleted returns a copy of b without b[pos:pos+n].
func deleted(b []byte, pos, n int) []byte {
	c := append([]byte(nil), b[:pos]...)
	if pos+n < len(b) {
		c = append(c, b[pos+n:]...)
	}
	return c
}
