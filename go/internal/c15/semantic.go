package c15

import (
	"bytes"
	"fmt"
	"regexp"
	"strings"

	"github.com/quay/claircore/verifharness/internal/hx"
)

// Semantic damage: the document stays well-formed, but something its format
// requires is gone or doubled — wrong root element, a missing section, a
// top-level value of the wrong kind, a duplicate key. For each parser the
// table states what is rejected (expect "err": accepting it is a violation)
// and what is accepted although the intact feed had advisories (expect
// "accept": the parser cannot or does not tell; counted, and reported under
// the target's still-valid finding when the result is a strict subset).

type semCase struct {
	desc   string
	edit   func(b []byte) []byte // nil result: not applicable to this feed
	expect string                // err | accept | finding:<id> (accepted with a strict subset: a listed finding)
}

func reSub(re, repl string) func([]byte) []byte {
	r := regexp.MustCompile(re)
	return func(b []byte) []byte {
		if !r.Match(b) {
			return nil
		}
		return r.ReplaceAll(b, []byte(repl))
	}
}

func subAll(old, new string) func([]byte) []byte {
	return func(b []byte) []byte {
		if !bytes.Contains(b, []byte(old)) {
			return nil
		}
		return bytes.ReplaceAll(b, []byte(old), []byte(new))
	}
}

func constant(s string) func([]byte) []byte { return func([]byte) []byte { return []byte(s) } }

var semOVAL = []semCase{
	{"wrong-root-element", func(b []byte) []byte {
		return bytes.ReplaceAll(bytes.ReplaceAll(b, []byte("<oval_definitions "), []byte("<oval_results ")), []byte("</oval_definitions>"), []byte("</oval_results>"))
	}, "err"},
	{"root-is-a-section", reSub(`(?s)<oval_definitions .*?(<definitions>.*</definitions>).*</oval_definitions>`, "$1"), "err"},
	{"no-tests-section", reSub(`(?s)<tests>.*</tests>\n?`, ""), "finding:oval-dangling-ref-skipped"},
	{"empty-tests-section", reSub(`(?s)<tests>.*</tests>`, "<tests></tests>"), "finding:oval-dangling-ref-skipped"},
	{"no-objects-section", reSub(`(?s)<objects>.*</objects>\n?`, ""), "finding:oval-dangling-ref-skipped"},
	{"no-states-section", reSub(`(?s)<states>.*</states>\n?`, ""), "finding:oval-dangling-ref-skipped"},
	{"test-without-object-element", reSub(`<object object_ref="[^"]*"/>`, ""), "err"},
	{"no-definitions-section", reSub(`(?s)<definitions>.*</definitions>\n?`, ""), "accept"},
	{"empty-root", constant(`<oval_definitions xmlns="http://oval.mitre.org/XMLSchema/oval-definitions-5"/>`), "accept"},
	{"definitions-section-twice", reSub(`(?s)(<definitions>.*</definitions>\n?)`, "$1$1"), "accept"},
	{"sections-renamed", reSub(`<(/?)definitions>`, "<${1}definitionz>"), "accept"},
	{"criteria-without-criterion", reSub(`<criterion comment="[a-z0-9]+ is earlier[^>]*/>\n`, ""), "accept"},
}

var semCases = map[string][]semCase{
	"alpine": {
		{"top-level-array", func(b []byte) []byte { return append(append([]byte("["), bytes.TrimSpace(b)...), ']') }, "err"},
		{"top-level-string", constant(`"packages"`), "err"},
		{"top-level-null", constant(`null`), "accept"},
		{"packages-is-an-object", reSub(`(?s)"packages":\s*\[.*\]`, `"packages":{}`), "err"},
		{"secfixes-is-an-array", reSub(`"secfixes":\s*\{`, `"secfixes":[{`), "err"},
		{"no-packages-key", subAll(`"packages"`, `"packagez"`), "accept"},
		{"duplicate-packages-key", func(b []byte) []byte {
			t := bytes.TrimSpace(b)
			return append(append([]byte(nil), t[:len(t)-1]...), []byte(`,"packages":[]}`)...)
		}, "accept"},
		{"empty-object", constant(`{}`), "accept"},
	},
	"debian": {
		{"top-level-array", func(b []byte) []byte { return append(append([]byte("["), bytes.TrimSpace(b)...), ']') }, "err"},
		{"top-level-null", constant(`null`), "accept"},
		{"package-is-an-array", reSub(`^\{"([a-z0-9]+)":\{`, `{"$1":[{`), "err"},
		{"releases-is-a-string", reSub(`"releases":\{`, `"releases":"x","r":{`), "err"},
		{"empty-object", constant(`{}`), "accept"},
		{"releases-renamed", subAll(`"releases"`, `"releasez"`), "accept"},
	},
	"ubuntu": semOVAL, "oracle": semOVAL, "suse": semOVAL, "photon": semOVAL,
	"vex": { // on the plaintext lines
		{"line-is-an-array", func(b []byte) []byte { return append([]byte("[]\n"), b...) }, "err"},
		{"line-is-a-string", func(b []byte) []byte { return append([]byte("\"x\"\n"), b...) }, "err"},
		{"empty-line", func(b []byte) []byte { return append([]byte("\n"), b...) }, "err"},
		{"line-without-document", func(b []byte) []byte { return append([]byte("{}\n"), b...) }, "accept"},
		{"duplicate-document-key", reSub(`^\{"document":`, `{"document":{},"document":`), "accept"},
	},
	"epss": {
		{"record-is-an-array", func(b []byte) []byte { return append([]byte("[]\n"), b...) }, "err"},
		{"record-tags-is-a-string", reSub(`"Tags":\[`, `"Tags":"x","T":[`), "err"},
		{"empty-record", func(b []byte) []byte { return append([]byte("{}\n"), b...) }, "accept"},
	},
	"cvss": {
		{"record-is-an-array", func(b []byte) []byte { return append([]byte("[]\n"), b...) }, "err"},
		{"empty-record", func(b []byte) []byte { return append([]byte("{}\n"), b...) }, "accept"},
	},
}

// semantic damage of the downloads whose read loop lives in Fetch (on the plaintext)
var semFetchCases = map[string][]semCase{
	"aws": {
		{"wrong-root-element", func(b []byte) []byte {
			return bytes.ReplaceAll(bytes.ReplaceAll(b, []byte("<updates>"), []byte("<updatez>")), []byte("</updates>"), []byte("</updatez>"))
		}, "accept"},
		{"root-is-an-update", reSub(`(?s)<updates>(<update .*?</update>).*</updates>`, "$1"), "accept"},
		{"no-pkglist", reSub(`(?s)<pkglist>.*?</pkglist>`, ""), "accept"},
		{"issued-date-is-not-a-date", reSub(`<issued date="[^"]*"`, `<issued date="yesterday"`), "err"},
		{"empty-root", constant(`<updates/>`), "accept"},
	},
	"epss-fetch": {
		{"no-metadata-line", reSub(`^#model_version[^\n]*\n`, ""), "err"},
		{"metadata-without-date", reSub(`,score_date:[^\r\n]*`, ",score_day:x"), "err"},
		{"metadata-field-without-colon", reSub(`#model_version:`, "#model_version="), "err"},
		{"no-header-line", reSub(`cve,epss,percentile\r?\n`, ""), "err"},
		{"header-renamed", subAll("cve,epss,percentile", "cve,epss,percent"), "err"},
		{"record-with-two-fields", reSub(`(CVE-2023-1000,[^,\r\n]*),[^,\r\n]*`, "$1"), "err"},
		{"record-with-four-fields", reSub(`(CVE-2023-1000,[^\r\n]*)`, "$1,1"), "err"},
		{"bare-quote-in-field", reSub(`CVE-2023-1000`, `CVE-"2023"-1000`), "err"},
		{"score-is-not-a-number", reSub(`(CVE-2023-1000),[^,]*,`, "$1,high,"), "accept"},
		{"record-commented-out", subAll("CVE-2023-1000,", "#VE-2023-1000,"), "accept"},
		{"header-only", reSub(`(?s)(cve,epss,percentile\r?\n).*`, "$1"), "accept"},
	},
	"cvss-fetch": {
		{"top-level-array", func(b []byte) []byte { return append(append([]byte("["), bytes.TrimSpace(b)...), ']') }, "err"},
		{"items-is-an-object", reSub(`(?s)"CVE_Items":\s*\[.*\]`, `"CVE_Items":{}`), "err"},
		{"no-items-key", subAll(`"CVE_Items"`, `"CVE_Itemz"`), "err"},
		{"count-is-not-a-number", reSub(`"CVE_data_numberOfCVEs":\s*"[0-9]+"`, `"CVE_data_numberOfCVEs":"many"`), "err"},
		{"items-is-null", reSub(`(?s)"CVE_Items":\s*\[.*\]`, `"CVE_Items":null`), "accept"},
		{"count-disagrees-with-items", reSub(`"CVE_data_numberOfCVEs":\s*"[0-9]+"`, `"CVE_data_numberOfCVEs":"9999"`), "accept"},
		{"duplicate-items-key", func(b []byte) []byte {
			t := bytes.TrimSpace(b)
			return append(append([]byte(nil), t[:len(t)-1]...), []byte(`,"CVE_Items":[]}`)...)
		}, "accept"},
	},
	"vex-deletions": {
		{"record-with-one-field", reSub(`^([^,\r\n]*),[^\r\n]*`, "$1"), "err"},
		{"record-with-three-fields", reSub(`^([^\r\n]*)`, "$1,x"), "err"},
		{"time-is-not-a-time", reSub(`^([^,\r\n]*),[^\r\n]*`, "$1,yesterday"), "err"},
		{"path-is-not-a-cve-path", reSub(`^[^,\r\n]*,`, "2024/readme.txt,"), "err"},
	},
	"vex-changes": {
		{"record-with-one-field", reSub(`^([^,\r\n]*),[^\r\n]*`, "$1"), "err"},
		{"time-is-not-a-time", reSub(`^([^,\r\n]*),[^\r\n]*`, "$1,yesterday"), "err"},
		{"path-without-year", reSub(`^[0-9]+/`, "year/"), "err"},
		{"path-not-served", reSub(`^[^,\r\n]*,`, "2024/cve-2024-77777.json,"), "err"},
	},
}

// runSemantic applies the table to one fixed feed per target.
func runSemantic(r *hx.Run, ts []target) {
	for ti := range ts {
		t := &ts[ti]
		cases := semCases[t.name]
		onPlain := false
		if c, ok := semFetchCases[t.name]; ok {
			cases, onPlain = c, true
		}
		if t.name == "vex" {
			onPlain = true
		}
		if len(cases) == 0 {
			continue
		}
		rnd := hx.NewRand(0xC15 + 31)
		plain, spool := t.gen(rnd, 3)
		f := &feed{t: t, idx: -3, plain: plain, spool: spool}
		f.intact = f.run(spool)
		if !f.intact.ok() || len(f.intact.items) == 0 {
			r.Fail("", fmt.Sprintf("semantic: fixed feed does not parse to advisories: target=%s result=%s", t.name, f.intact.kind))
			continue
		}
		for _, c := range cases {
			src := spool
			if onPlain {
				src = plain
			}
			d := c.edit(src)
			if d == nil {
				r.Fail("", fmt.Sprintf("semantic: edit %q does not apply to the fixed feed of target %s (harness)", c.desc, t.name))
				continue
			}
			if onPlain && t.rewrap != nil {
				d = t.rewrap(d)
			}
			got := f.run(d)
			cl := classify(f.intact, got)
			r.Case(fmt.Sprintf("semantic %s %s", t.name, c.desc), true)
			r.Count(fmt.Sprintf("semantic:%s:%s:%s", t.name, c.desc, cl))
			switch {
			case cl == "panic" || cl == "hang":
				r.Fail("", witness(f, "semantic:"+c.desc+" damaged="+hx.Hex(d), cl, got))
			case c.expect == "err" && cl != clErr:
				// a detectable malformation is accepted
				r.Fail("", witness(f, "semantic:"+c.desc+" (must be rejected) damaged="+hx.Hex(d), cl, got))
			case c.expect == "accept" && cl == clErr:
				r.Count("semantic-now-rejected:" + t.name + ":" + c.desc)
			case strings.HasPrefix(c.expect, "finding:"):
				switch cl {
				case clSubset:
					r.KnownSeen(strings.TrimPrefix(c.expect, "finding:"), witness(f, "semantic:"+c.desc, cl, got))
				case clErr:
					r.Count("semantic-now-rejected:" + t.name + ":" + c.desc)
				default:
					r.Fail("", witness(f, "semantic:"+c.desc+" damaged="+hx.Hex(d), cl, got))
				}
			}
		}
	}
}
