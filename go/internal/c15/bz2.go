package c15

import (
	"fmt"

	"github.com/quay/claircore/verifharness/internal/hx"
)

// bzip2 has no encoder in Go: the multi-block inputs are corpus files
// (corpus/C15/*.blocks.bz2: one stream of several 100k blocks made with
// `bzip2 -1`, and two concatenated streams). Damage to them is deterministic:
// bit flips in the stream header, in every block header (magic and CRC), at
// sampled positions inside every block, and in the end-of-stream marker and
// stream CRC.

const (
	bz2BlockMagic = 0x314159265359
	bz2EOSMagic   = 0x177245385090
)

// bz2Marks returns the bit offsets of every block magic and end-of-stream
// magic of the file, in order.
func bz2Marks(b []byte) (blocks, eos []int) {
	var w uint64
	for i := 0; i < len(b)*8; i++ {
		bit := (b[i/8] >> (7 - uint(i%8))) & 1
		w = (w<<1 | uint64(bit)) & 0xFFFFFFFFFFFF
		if i >= 47 {
			switch w {
			case bz2BlockMagic:
				blocks = append(blocks, i-47)
			case bz2EOSMagic:
				eos = append(eos, i-47)
			}
		}
	}
	return
}

func flipBit(b []byte, bit int) []byte {
	c := append([]byte(nil), b...)
	c[bit/8] ^= 1 << (7 - uint(bit%8))
	return c
}

// sweepBz2Blocks flips bits in every structural part and inside every block
// of one multi-block file served to the pipeline's real Fetch.
func sweepBz2Blocks(r *hx.Run, p *pipeline, file []byte, idx int, rnd *hx.Rand, cfg hx.Config) {
	aux := p.intactAux(file)
	intact := guard(func() result { return p.runSite(body{data: file}, aux) })
	if !intact.ok() || len(intact.items) == 0 {
		r.Fail("", fmt.Sprintf("pipeline does not parse a multi-block bzip2 corpus file: pipeline=%s file#%d result=%s", p.name, idx, intact.kind))
		return
	}
	blocks, eos := bz2Marks(file)
	r.Count(fmt.Sprintf("bz2:%s:blocks=%d:streams=%d", p.name, len(blocks), len(eos)))
	if len(blocks) < 2 {
		r.Fail("", fmt.Sprintf("multi-block bzip2 corpus file has %d blocks: pipeline=%s file#%d", len(blocks), p.name, idx))
		return
	}
	f := &feed{t: &target{name: "pipe-" + p.name, valid: p.valid, class: p.class}, idx: idx, spool: file, intact: intact}
	type bf struct {
		bit  int
		part string
	}
	var bits []bf
	for i := 0; i < 32; i++ { // stream header "BZh1"
		bits = append(bits, bf{i, "stream-header"})
	}
	marks := append(append([]int(nil), blocks...), eos...)
	next := func(off int) int { // the next mark after off, or the end of the file
		n := len(file) * 8
		for _, m := range marks {
			if m > off && m < n {
				n = m
			}
		}
		return n
	}
	per := cfg.N(24, 200)
	for bi, off := range blocks {
		for i := 0; i < 80; i += 1 + rnd.Intn(4) { // block magic + block CRC
			bits = append(bits, bf{off + i, "block-header"})
		}
		end := next(off)
		for i := 0; i < per; i++ {
			bits = append(bits, bf{off + 80 + rnd.Intn(end-off-80), fmt.Sprintf("block-%d", bi)})
		}
	}
	for _, off := range eos {
		for i := 0; i < 80; i++ { // end-of-stream magic + stream CRC
			bits = append(bits, bf{off + i, "stream-trailer"})
		}
		// a second stream begins at the next byte boundary: its header
		if nb := (off + 80 + 7) / 8 * 8; nb+32 <= len(file)*8 {
			for i := 0; i < 32; i++ {
				bits = append(bits, bf{nb + i, "stream-header"})
			}
		}
	}
	res := parMap(len(bits), func(i int) result {
		return guard(func() result { return p.runSite(body{data: flipBit(file, bits[i].bit)}, aux) })
	})
	for i, b := range bits {
		if r.Stop() {
			return
		}
		r.Case(fmt.Sprintf("bz2 %s#%d bit %d", p.name, idx, b.bit), true)
		part := b.part
		if len(part) > 6 && part[:6] == "block-" && part != "block-header" {
			part = "block-data"
		}
		cl := judge(r, f, "bz2-"+part, fmt.Sprintf("bzip2-bit-flip@%d (%s)", b.bit, b.part), flipBit(file, b.bit), true, res[i])
		_ = cl
	}
}
