package c15

import (
	"bytes"
	"compress/bzip2"
	"compress/gzip"
	"fmt"
	"io"
	"net/http"
	"net/url"
	"sort"
	"time"

	"github.com/klauspost/compress/zstd"

	"github.com/quay/claircore/verifharness/internal/hx"
	"github.com/quay/claircore/verifharness/internal/registry"
)

// The transfer layer: scripted HTTP responses (framing, declared length, how
// the response ends, read boundaries) in front of every updater's real Fetch,
// with the model (Model/FeedTransfer.lean) predicting the same runs.

func frameName(f registry.Framing) string { return f.String() }

func termName(t registry.Term) string {
	if t == registry.TermEOF {
		return "eof"
	}
	return "err"
}

func termErr(t registry.Term) error {
	switch t {
	case registry.TermEOF:
		return nil
	case registry.TermUnexpectedEOF:
		return io.ErrUnexpectedEOF
	default:
		return registry.ErrReset
	}
}

// httpOp is the model's line for a script.
func httpOp(sc *registry.Response) string {
	d := sc.Declared
	if d < 0 {
		d = len(sc.Body)
	}
	return fmt.Sprintf("http %s %d %d %s", frameName(sc.Framing), d, len(sc.Body), sc.End)
}

// genScript makes a response script over the first k bytes of transit (k
// drawn here): honest and dishonest lengths, every framing, every ending.
func genScript(rnd *hx.Rand, transit []byte) (*registry.Response, int) {
	m := len(transit)
	k := m
	switch rnd.Intn(6) {
	case 0: // the whole body
	case 1:
		k = m - 1 - rnd.Intn(min(m, 24))
	case 2:
		k = rnd.Intn(min(m, 24) + 1)
	default:
		k = rnd.Intn(m + 1)
	}
	if k < 0 {
		k = 0
	}
	sc := registry.New("", transit[:k])
	sc.Framing = registry.Framing(rnd.Intn(3))
	sc.End = registry.End(rnd.Intn(3))
	if sc.Framing == registry.FrameLength {
		switch rnd.Intn(5) {
		case 0:
			sc.Declared = k // honest about what is sent
		case 1, 2:
			sc.Declared = m // honest about the file: a short body is detectable
		case 3:
			sc.Declared = rnd.Intn(k + 1) // too short
		default:
			sc.Declared = k + 1 + rnd.Intn(64) // too long
		}
	}
	for i := rnd.Intn(4); i > 0; i-- {
		sc.Chunks = append(sc.Chunks, 1+rnd.Intn(700))
	}
	return sc, k
}

// runTransportTie ties the model's `delivered` to net/http: scripts served
// over a loopback connection to the real client (resets excluded: a reset may
// discard bytes the peer has not read yet), and to the in-process transport
// used by the sweeps (all scripts).
func runTransportTie(r *hx.Run, rnd *hx.Rand, cfg hx.Config) {
	srv := registry.NewServer()
	defer srv.Close()
	tr := registry.NewTransport()
	read := func(c *http.Client, url string) string {
		res, err := c.Get(url)
		if err != nil {
			return "request-error"
		}
		defer res.Body.Close()
		b, err := io.ReadAll(res.Body)
		if err == nil {
			return fmt.Sprintf("%d eof", len(b))
		}
		return fmt.Sprintf("%d err", len(b))
	}
	body := make([]byte, 3000)
	for i := range body {
		body[i] = byte('a' + i%26)
	}
	for i := 0; i < cfg.N(60, 400) && !r.Stop(); i++ {
		sc, _ := genScript(rnd, body[:1+rnd.Intn(len(body))])
		op := httpOp(sc)
		tr.Set("/f", sc)
		r.Op(op, hx.Guard(func() string { return read(tr.Client(), tr.URL("/f")) }), true)
		r.Count(fmt.Sprintf("http:%s:%s", frameName(sc.Framing), sc.End))
		if sc.End != registry.EndReset {
			srv.Set("/f", sc)
			c := srv.Client()
			c.Timeout = 10 * time.Second
			r.Op(op, hx.Guard(func() string { return read(c, srv.URL("/f")) }), true)
			r.Count("http-loopback")
		}
	}
}

// unwrapStream runs the real decompressor alone over a delivered stream.
func unwrapStream(kind string, data []byte, term error) (plain []byte, eof bool) {
	var src io.Reader = bytes.NewReader(data)
	if term != nil {
		src = &termReader{r: src, term: term}
	}
	var zr io.Reader
	switch kind {
	case "gzip":
		g, err := gzip.NewReader(src)
		if err != nil {
			return nil, false
		}
		zr = g
	case "bzip2":
		zr = bzip2.NewReader(src)
	case "zstd":
		z, err := zstd.NewReader(src)
		if err != nil {
			return nil, false
		}
		defer z.Close()
		zr = z
	default:
		zr = src
	}
	return readAllTerm(zr)
}

// transferAnswer is the protocol answer of one real Fetch → Parse run.
func transferAnswer(p *pipeline, got result) string {
	switch p.stage {
	case "inline":
		// Fetch runs the loop itself; Parse only reads the spool back
		if !got.ok() {
			return got.kind
		}
		if p.loop == "csv-epss" {
			return fmt.Sprintf("ok %d", got.lines)
		}
		return "ok"
	default:
		switch {
		case got.fetchFailed:
			return "failed"
		case got.ok():
			return "fetched ok"
		default:
			return "fetched " + got.kind
		}
	}
}

// sweepTransfer serves one pipeline's feed under scripted framing. Every run
// is judged against the statement; pipelines with a modelled loop also write
// the model's line for the same script.
func sweepTransfer(r *hx.Run, p *pipeline, transit []byte, idx int, rnd *hx.Rand, cfg hx.Config) {
	aux := p.intactAux(transit)
	intact := guard(func() result { return p.runSite(body{data: transit}, aux) })
	if !intact.ok() {
		return // reported by sweepPipeline
	}
	f := &feed{t: &target{name: "pipe-" + p.name, valid: p.valid, class: p.class}, idx: idx, spool: transit, intact: intact}
	var plain []byte
	if p.plain != nil {
		plain = p.plain(transit)
		r.Op("reset", "ok", false)
		r.Op(fmt.Sprintf("load %s %s", p.loop, hx.Hex(plain)), "ok", false)
	}
	n := cfg.N(40, 250)
	type tc struct {
		sc *registry.Response
		k  int
	}
	tcs := make([]tc, n)
	for i := range tcs {
		tcs[i].sc, tcs[i].k = genScript(rnd, transit)
	}
	res := parMap(n, func(i int) result {
		return guard(func() result { return p.runSite(body{script: tcs[i].sc}, aux) })
	})
	for _, st := range []int{404, 500, 503, 206, 204} {
		got := guard(func() result { return p.runSite(body{data: transit, status: st}, aux) })
		r.Case(fmt.Sprintf("xfer %s#%d status %d", p.name, idx, st), true)
		judge(r, f, "status", fmt.Sprintf("primary download answered with status %d", st), nil, false, got)
	}
	for i, c := range tcs {
		if r.Stop() {
			return
		}
		data, term := c.sc.Delivered()
		desc := fmt.Sprintf("transfer %s", c.sc.Describe())
		r.Count(fmt.Sprintf("xfer:%s:%s:%s:%s", p.name, frameName(c.sc.Framing), c.sc.End, termName(term)))
		judge(r, f, "xfer", desc, data, term == registry.TermEOF, res[i])
		if plain == nil {
			r.Case(fmt.Sprintf("xfer %s#%d %s", p.name, idx, desc), true)
			continue
		}
		ans := transferAnswer(p, res[i])
		d := c.sc.Declared
		if d < 0 {
			d = len(c.sc.Body)
		}
		switch p.stage {
		case "":
			r.Op(fmt.Sprintf("xfer %s %d %d %s", frameName(c.sc.Framing), d, c.k, c.sc.End), ans, true)
		case "fetch", "inline":
			zp, zeof := unwrapStream(p.wrapper, data, termErr(term))
			if !isPrefix(zp, plain) {
				r.Fail("", fmt.Sprintf("decompressor contract: %s delivered bytes that are not a prefix of the plaintext: pipeline=%s %s", p.wrapper, p.name, desc))
				continue
			}
			if zeof && len(zp) == 0 && len(plain) != 0 {
				r.Count("contract:" + p.wrapper + ":empty-input-is-clean-eof")
			}
			if zeof && len(zp) != len(plain) && len(zp) != 0 {
				r.Fail("", fmt.Sprintf("decompressor contract (ExactWrapper): %s reported a clean end after %d of %d plaintext bytes: pipeline=%s %s", p.wrapper, len(zp), len(plain), p.name, desc))
				continue
			}
			zt := "err"
			if zeof {
				zt = "eof"
			}
			r.Count("contract:" + p.wrapper + ":stream-" + zt)
			if p.stage == "fetch" {
				r.Op(fmt.Sprintf("pipe %d %s", len(zp), zt), ans, true)
			} else if zeof {
				r.Op(fmt.Sprintf("cut %d", len(zp)), ans, true)
			} else {
				r.Op(fmt.Sprintf("fail %d 0 after", len(zp)), ans, true)
			}
		case "aws":
			// Fetch spools the compressed bytes and reads the gzip header;
			// Parse reads through gzip over the spool (a file: clean EOF)
			hdr := "0"
			var zp []byte
			zeof := false
			if _, err := gzip.NewReader(bytes.NewReader(data)); err == nil {
				hdr = "1"
				zp, zeof = unwrapStream("gzip", data, nil)
			}
			if !isPrefix(zp, plain) {
				r.Fail("", fmt.Sprintf("decompressor contract: gzip delivered bytes that are not a prefix of the plaintext: pipeline=%s %s", p.name, desc))
				continue
			}
			zt := "err"
			if zeof {
				zt = "eof"
			}
			r.Op(fmt.Sprintf("pipeaws %s %s %d %s", termName(term), hdr, len(zp), zt), ans, true)
		}
	}
}

// sweepParts damages the secondary downloads of a pipeline (mirror list,
// repomd.xml, .meta, archive_latest.txt, changes.csv, deletions.csv, single
// advisories): every cut with a clean close and with a transport error, and
// bit flips. The updater must fail or produce exactly the intact result; a
// success with other content is a violation unless the damaged file is by
// itself a valid file of its kind (partClass).
func sweepParts(r *hx.Run, p *pipeline, transit []byte, idx int, rnd *hx.Rand, cfg hx.Config) {
	if p.site == nil {
		return
	}
	aux := p.intactAux(transit)
	intact := guard(func() result { return p.runSite(body{data: transit}, aux) })
	if !intact.ok() {
		return
	}
	var names []string
	for name := range aux {
		names = append(names, name)
	}
	sort.Strings(names)
	for _, name := range names {
		d := aux[name].data
		if len(d) == 0 {
			continue
		}
		class := ""
		valid := func([]byte) bool { return false }
		if p.partValid != nil {
			if v := p.partValid(name); v != nil {
				valid, class = v, p.partClass
			}
		}
		t := &target{name: "pipe-" + p.name + "/" + name, valid: valid}
		f := &feed{t: t, idx: idx, spool: d, intact: intact}
		budget := cfg.N(120, 1200)
		stride := 1
		if len(d) > budget {
			stride = (len(d) + budget - 1) / budget
		}
		type dm struct {
			desc  string
			b     body
			bytes []byte
		}
		var ds []dm
		for k := rnd.Intn(stride); k < len(d); k += stride {
			ds = append(ds, dm{fmt.Sprintf("%s-cut@%d/%d clean-close", name, k, len(d)), body{data: d[:k]}, d[:k]})
			ds = append(ds, dm{fmt.Sprintf("%s-cut@%d/%d transport-error", name, k, len(d)), body{data: d[:k], term: io.ErrUnexpectedEOF}, nil})
			x := byte(1) << uint(rnd.Intn(8))
			fl := flipped(d, k, x)
			ds = append(ds, dm{fmt.Sprintf("%s-flip@%d^%#02x", name, k, x), body{data: fl}, fl})
			if rnd.Chance(1, 8) {
				sc := registry.New("", d[:k])
				sc.Declared = len(d)
				sc.End = registry.EndClose
				ds = append(ds, dm{fmt.Sprintf("%s-content-length-long@%d", name, k), body{script: sc}, nil})
			}
		}
		for _, st := range []int{404, 500, 503, 206, 204} {
			ds = append(ds, dm{fmt.Sprintf("%s-status-%d", name, st), body{data: d, status: st}, nil})
		}
		res := parMap(len(ds), func(i int) result {
			return guard(func() result { return p.runSite(body{data: transit}, withAux(aux, name, ds[i].b)) })
		})
		for i, dmg := range ds {
			if r.Stop() {
				return
			}
			r.Case(fmt.Sprintf("part %s#%d %s", p.name, idx, dmg.desc), true)
			cl := classify(intact, res[i])
			r.Count("part:" + p.name + ":" + name + ":" + cl)
			switch cl {
			case clErr, clEqual:
			case clSubset, clDifferent:
				if dmg.bytes != nil && class != "" && valid(dmg.bytes) {
					r.Count("part:" + p.name + ":" + name + ":" + cl + ":still-valid-file")
					r.Fail(class, witness(f, dmg.desc, cl, res[i]))
				} else {
					r.Fail("", witness(f, dmg.desc, cl, res[i]))
				}
			default:
				r.Fail("", witness(f, dmg.desc, cl, res[i]))
			}
		}
	}
}

// runTransfers: the transport tie, then every pipeline under scripted framing
// and with damaged secondary downloads.
func runTransfers(r *hx.Run, rnd *hx.Rand, cfg hx.Config) {
	r.Op("reset", "ok", false)
	runTransportTie(r, rnd.Fork(), cfg)
	runLoopbackFetch(r, rnd.Fork(), cfg)
	ps := pipelines(cfg.Corpus)
	for pi := range ps {
		p := &ps[pi]
		for i := 0; i < cfg.N(1, 4) && !r.Stop(); i++ {
			var transit []byte
			if p.gen != nil {
				transit = p.gen(rnd, 1+rnd.Intn(cfg.N(2, 4)))
			} else if len(p.fixed) > 0 {
				transit = p.fixed[(i+int(cfg.Seed))%len(p.fixed)]
			} else {
				r.Count("xfer-skipped-no-corpus:" + p.name)
				break
			}
			sweepTransfer(r, p, transit, i, rnd.Fork(), cfg)
			sweepParts(r, p, transit, i, rnd.Fork(), cfg)
		}
		if p.wrapper == "bzip2" && !r.Stop() {
			sfx := ".ubuntu.blocks.bz2"
			if p.name != "ubuntu-bzip2" {
				sfx = ".oracle.blocks.bz2"
			}
			files := loadCorpus(cfg.Corpus, sfx)
			if len(files) == 0 {
				r.Count("bz2-skipped-no-corpus:" + p.name)
			}
			for i, file := range files {
				sweepBz2Blocks(r, p, file, i, rnd.Fork(), cfg)
			}
		}
	}
}

// toServer sends every request to the loopback server, whatever host the
// updater was configured with, through net/http's real transport.
type toServer struct {
	base *url.URL
	rt   http.RoundTripper
}

func (t toServer) RoundTrip(req *http.Request) (*http.Response, error) {
	r2 := req.Clone(req.Context())
	r2.URL.Scheme, r2.URL.Host, r2.Host = t.base.Scheme, t.base.Host, t.base.Host
	return t.rt.RoundTrip(r2)
}

// runLoopbackFetch runs the real Fetch and Parse of the single-download
// updaters against a loopback TCP server that writes the scripted response
// byte for byte: net/http's client is in the path. The outcome must be the
// one the in-process transport gives for the same script, and obey the
// statement.
func runLoopbackFetch(r *hx.Run, rnd *hx.Rand, cfg hx.Config) {
	srv := registry.NewServer()
	defer srv.Close()
	base, _ := url.Parse(srv.URL(""))
	ps := pipelines(cfg.Corpus)
	for pi := range ps {
		p := &ps[pi]
		if p.path == "" {
			continue
		}
		var transit []byte
		if p.gen != nil {
			transit = p.gen(rnd, 1+rnd.Intn(2))
		} else if len(p.fixed) > 0 {
			transit = p.fixed[int(cfg.Seed)%len(p.fixed)]
		} else {
			continue
		}
		aux := p.intactAux(transit)
		intact := guard(func() result { return p.runSite(body{data: transit}, aux) })
		if !intact.ok() {
			continue
		}
		f := &feed{t: &target{name: "pipe-" + p.name, valid: p.valid, class: p.class}, idx: 200, spool: transit, intact: intact}
		for i := 0; i < cfg.N(5, 25) && !r.Stop(); i++ {
			sc, _ := genScript(rnd, transit)
			if sc.End == registry.EndReset {
				sc.End = registry.EndClose // a reset may discard bytes the peer has not read
			}
			for k, v := range hdrFor(aux) {
				sc.Header.Set(k, v)
			}
			srv.Set(p.path, sc)
			tr := &http.Transport{DisableKeepAlives: true}
			over := guard(func() result { return p.runClient(&http.Client{Transport: toServer{base, tr}}) })
			tr.CloseIdleConnections()
			inproc := guard(func() result { return p.runSite(body{script: sc}, aux) })
			desc := "loopback " + sc.Describe()
			r.Case(fmt.Sprintf("loopback %s %s", p.name, desc), true)
			data, term := sc.Delivered()
			cl := judge(r, f, "loopback", desc, data, term == registry.TermEOF, over)
			r.Count("loopback:" + p.name + ":" + cl)
			if cl != classify(intact, inproc) {
				r.Fail("", fmt.Sprintf("the in-process transport and net/http over loopback disagree: pipeline=%s %s loopback=%s in-process=%s", p.name, desc, cl, classify(intact, inproc)))
			}
		}
	}
}
