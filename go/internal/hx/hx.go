// Package hx holds what every property harness shares: the seeded PRNG, the
// op/impl/oracle streams of the line protocol, and the statistics that end up
// in the evidence file.
package hx

import (
	"bufio"
	"encoding/hex"
	"encoding/json"
	"fmt"
	"os"
	"path/filepath"
	"sort"
	"sync"
)

// Rand is splitmix64; every random choice of a run derives from one state.
type Rand struct{ s uint64 }

func NewRand(seed uint64) *Rand {
	// Mix the seed through one finalizer round so that consecutive seeds give
	// unrelated streams (the raw state only advances by a constant per draw).
	z := (seed + 0x1234567) * 0x9E3779B97F4A7C15
	z = (z ^ (z >> 30)) * 0xBF58476D1CE4E5B9
	z = (z ^ (z >> 27)) * 0x94D049BB133111EB
	return &Rand{s: z ^ (z >> 31)}
}

func (r *Rand) U64() uint64 {
	r.s += 0x9E3779B97F4A7C15
	z := r.s
	z = (z ^ (z >> 30)) * 0xBF58476D1CE4E5B9
	z = (z ^ (z >> 27)) * 0x94D049BB133111EB
	return z ^ (z >> 31)
}

// Intn returns a value in [0,n).
func (r *Rand) Intn(n int) int {
	if n <= 0 {
		return 0
	}
	return int(r.U64() % uint64(n))
}

// Chance is true with probability num/den.
func (r *Rand) Chance(num, den int) bool { return r.Intn(den) < num }

// Pick returns one of the strings.
func (r *Rand) Pick(xs ...string) string { return xs[r.Intn(len(xs))] }

// Fork derives an independent generator (for parallel workers).
func (r *Rand) Fork() *Rand { return NewRand(r.U64()) }

// Config is what the check script passes to a property harness.
type Config struct {
	Seed   uint64
	Tier   string // quick | thorough
	OutDir string
	Replay string // path of a replay file, or ""
	Corpus string // corpus directory of the property
}

func (c Config) Thorough() bool { return c.Tier == "thorough" }

// N picks a size by tier.
func (c Config) N(quick, thorough int) int {
	if c.Thorough() {
		return thorough
	}
	return quick
}

// Run collects the three streams and the statistics of one harness run.
type Run struct {
	mu           sync.Mutex
	cfg          Config
	ops          *bufio.Writer
	impl         *bufio.Writer
	oracle       *bufio.Writer
	files        []*os.File
	Evals        int
	seen         map[string]struct{}
	Hist         map[string]int
	Samples      []string
	Fails        int
	unclassified int
	scenario     []string
	Known        map[string]int
	Notes        map[string]any
	Rule         string
}

func NewRun(cfg Config) (*Run, error) {
	if err := os.MkdirAll(cfg.OutDir, 0o755); err != nil {
		return nil, err
	}
	r := &Run{cfg: cfg, seen: map[string]struct{}{}, Hist: map[string]int{}, Known: map[string]int{}, Notes: map[string]any{}}
	for _, n := range []string{"ops.txt", "impl.out", "oracle.txt"} {
		f, err := os.Create(filepath.Join(cfg.OutDir, n))
		if err != nil {
			return nil, err
		}
		r.files = append(r.files, f)
	}
	r.ops = bufio.NewWriterSize(r.files[0], 1<<20)
	r.impl = bufio.NewWriterSize(r.files[1], 1<<20)
	r.oracle = bufio.NewWriterSize(r.files[2], 1<<16)
	return r, nil
}

// Op records one operation line and the implementation's canonical answer.
// nontrivial says whether the case reached a non-default branch by the
// property's stated rule; distinct ones are counted by op text.
func (r *Run) Op(op, implOut string, nontrivial bool) {
	r.mu.Lock()
	defer r.mu.Unlock()
	fmt.Fprintln(r.ops, op)
	fmt.Fprintln(r.impl, implOut)
	if op == "reset" {
		r.scenario = r.scenario[:0]
	} else if len(r.scenario) < 400 {
		r.scenario = append(r.scenario, op+" => "+implOut)
	}
	r.Evals++
	if nontrivial {
		r.seen[op] = struct{}{}
	}
	if len(r.Samples) < 6 && (r.Evals%97 == 1) {
		r.Samples = append(r.Samples, op+" => "+implOut)
	}
}

// Count bumps a histogram bucket (branch / size / error-kind distribution).
func (r *Run) Count(bucket string) {
	r.mu.Lock()
	r.Hist[bucket]++
	r.mu.Unlock()
}

// Case counts an oracle-only evaluation (no model line).
func (r *Run) Case(key string, nontrivial bool) {
	r.mu.Lock()
	r.Evals++
	if nontrivial {
		r.seen[key] = struct{}{}
	}
	if len(r.Samples) < 6 && (r.Evals%97 == 1) {
		r.Samples = append(r.Samples, key)
	}
	r.mu.Unlock()
}

// Fail reports that the property's statement failed on the implementation
// for this witness. class names the mechanism ("" = unclassified).
func (r *Run) Fail(class, witness string) {
	r.mu.Lock()
	defer r.mu.Unlock()
	r.Fails++
	if class == "" {
		r.unclassified++
	}
	if r.Fails <= 200 || (class == "" && r.unclassified <= 50) {
		fmt.Fprintf(r.oracle, "FAIL %s %s\n", orDash(class), witness)
		if class == "" && r.unclassified <= 3 && len(r.scenario) > 0 {
			// the protocol lines of the scenario in progress (since the last reset): the replayable history
			b, _ := json.Marshal(r.scenario)
			fmt.Fprintf(r.oracle, "SCENARIO %s\n", b)
		}
	}
}

// Stop reports that enough unclassified failures were seen; generators
// should stop early (a broken implementation can make every case slow).
func (r *Run) Stop() bool {
	r.mu.Lock()
	defer r.mu.Unlock()
	return r.unclassified >= 8
}

// KnownSeen reports that a listed finding's witness still reproduces.
func (r *Run) KnownSeen(id, what string) {
	r.mu.Lock()
	defer r.mu.Unlock()
	r.Known[id]++
	if r.Known[id] == 1 {
		fmt.Fprintf(r.oracle, "KNOWN %s %s\n", id, what)
	}
}

func orDash(s string) string {
	if s == "" {
		return "-"
	}
	return s
}

// Close flushes the streams and writes stats.json.
func (r *Run) Close() error {
	r.ops.Flush()
	r.impl.Flush()
	r.oracle.Flush()
	for _, f := range r.files {
		f.Close()
	}
	keys := make([]string, 0, len(r.Hist))
	for k := range r.Hist {
		keys = append(keys, k)
	}
	sort.Strings(keys)
	st := map[string]any{
		"evaluations":         r.Evals,
		"distinct_nontrivial": len(r.seen),
		"rule":                r.Rule,
		"samples":             r.Samples,
		"histogram":           r.Hist,
		"oracle_failures":     r.Fails,
		"known_seen":          r.Known,
		"notes":               r.Notes,
	}
	b, _ := json.MarshalIndent(st, "", " ")
	return os.WriteFile(filepath.Join(r.cfg.OutDir, "stats.json"), b, 0o644)
}

// Hex encodes bytes for the line protocol ("-" for empty).
func Hex(b []byte) string {
	if len(b) == 0 {
		return "-"
	}
	return hex.EncodeToString(b)
}

// Unhex is the inverse of Hex.
func Unhex(s string) ([]byte, error) {
	if s == "-" {
		return nil, nil
	}
	return hex.DecodeString(s)
}

// Guard runs f and maps a panic to the observation "panic".
func Guard(f func() string) (out string) {
	defer func() {
		if e := recover(); e != nil {
			out = "panic"
		}
	}()
	return f()
}
