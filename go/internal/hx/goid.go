package hx

import (
	"bytes"
	"runtime"
	"strconv"
)

// GoID returns the current goroutine's id (parsed from the stack header).
// Used only to attribute hook events to harness threads.
func GoID() int64 {
	var buf [64]byte
	n := runtime.Stack(buf[:], false)
	b := bytes.TrimPrefix(buf[:n], []byte("goroutine "))
	i := bytes.IndexByte(b, ' ')
	if i < 0 {
		return -1
	}
	id, _ := strconv.ParseInt(string(b[:i]), 10, 64)
	return id
}
