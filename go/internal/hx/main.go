package hx

import (
	"flag"
	"fmt"
	"os"
)

// Main is the body of every per-property harness command.
func Main(id string, run func(Config) error) {
	fs := flag.NewFlagSet(id, flag.ExitOnError)
	var cfg Config
	fs.Uint64Var(&cfg.Seed, "seed", 1, "PRNG seed")
	fs.StringVar(&cfg.Tier, "tier", "quick", "quick or thorough")
	fs.StringVar(&cfg.OutDir, "out", "", "output directory")
	fs.StringVar(&cfg.Replay, "replay", "", "replay file")
	fs.StringVar(&cfg.Corpus, "corpus", "", "corpus directory")
	fs.Parse(os.Args[1:])
	if cfg.OutDir == "" {
		fmt.Fprintln(os.Stderr, "-out is required")
		os.Exit(2)
	}
	if err := run(cfg); err != nil {
		fmt.Fprintln(os.Stderr, "harness error:", err)
		os.Exit(3)
	}
}
