// Package rxpg is a scripted, in-process stand-in for the Postgres server behind
// datastore/postgres.MatcherStore, for probes that have to EVALUATE code which
// hard-wires that store (libvuln.OfflineImport builds it from a *pgxpool.Pool).
//
// It speaks the backend side of the wire protocol (github.com/jackc/pgproto3)
// over an in-memory connection (Server.Dial is a pgconn DialFunc), recognises
// the statements of GetUpdateOperations, UpdateEnrichments and
// UpdateVulnerabilities by their table names, answers them from a script (the
// update operations "already in the database", the ordinal of the `INSERT INTO
// update_operation` that is to fail) and records what it was asked as a list of
// Events.  It interprets no SQL beyond that: a statement it does not know is
// answered with an empty result and recorded as "other".
package rxpg

import (
	"bytes"
	"context"
	"encoding/binary"
	"fmt"
	"net"
	"regexp"
	"strconv"
	"strings"
	"sync"
	"time"

	"github.com/jackc/pgproto3/v2"
)

// Op is an update operation the scripted database already holds.
type Op struct {
	Updater     string `json:"updater"`
	Fingerprint string `json:"fingerprint"`
	Kind        string `json:"kind"` // "vulnerability" | "enrichment"
}

// Event is one thing the store asked of the database.
//
//	ops-query   Kind = the kind the query filters on ("" = none)
//	create      INSERT INTO update_operation: Kind, and the two bound values
//	insert-enrichment / assoc-enrichment / insert-vuln / assoc-vuln / select-existing / refresh
//	other       an unknown statement (SQL)
type Event struct {
	What   string `json:"what"`
	Kind   string `json:"kind,omitempty"`
	Arg1   string `json:"arg1,omitempty"`
	Arg2   string `json:"arg2,omitempty"`
	SQL    string `json:"sql,omitempty"`
	Failed bool   `json:"failed,omitempty"`
}

type Server struct {
	mu         sync.Mutex
	Known      []Op
	FailCreate int // the n-th (1-based) INSERT INTO update_operation is answered with an error; 0 = none
	events     []Event
	creates    int
	nextID     int64
	conns      []net.Conn
}

func (s *Server) Events() []Event {
	s.mu.Lock()
	defer s.mu.Unlock()
	return append([]Event(nil), s.events...)
}

func (s *Server) Close() {
	s.mu.Lock()
	defer s.mu.Unlock()
	for _, c := range s.conns {
		c.Close()
	}
}

// Dial is a pgconn.DialFunc: every connection of the pool gets its own backend goroutine over a pipe.
func (s *Server) Dial(ctx context.Context, network, addr string) (net.Conn, error) {
	cl, sv := net.Pipe()
	s.mu.Lock()
	s.conns = append(s.conns, sv)
	s.mu.Unlock()
	go s.serve(sv)
	return cl, nil
}

// Lookup is a pgconn.LookupFunc that needs no resolver.
func (s *Server) Lookup(ctx context.Context, host string) ([]string, error) {
	return []string{"127.0.0.1"}, nil
}

const (
	oidBytea       = 17
	oidInt8        = 20
	oidText        = 25
	oidTextArray   = 1009
	oidTimestamptz = 1184
	oidUUID        = 2950
	oidJSONB       = 3802
)

// column name -> type, for the columns whose Go argument is not a string / Valuer
var colType = map[string]uint32{
	"hash": oidBytea, "issued": oidTimestamptz, "tags": oidTextArray, "data": oidJSONB,
	"uo": oidInt8, "vuln": oidInt8, "enrich": oidInt8, "id": oidInt8,
}

var (
	reSpace   = regexp.MustCompile(`\s+`)
	reParam   = regexp.MustCompile(`\$(\d+)`)
	reEq      = regexp.MustCompile(`([a-z_]+)\s*=\s*(any\s*\(\s*)?\$(\d+)`)
	reInsert  = regexp.MustCompile(`^insert into ([a-z_]+) \(([^)]*)\) values \((.*)\)`)
	reKindLit = regexp.MustCompile(`'(vulnerability|enrichment)'`)
)

func norm(sql string) string {
	s := strings.ToLower(strings.ReplaceAll(sql, `"`, ""))
	s = strings.TrimSpace(reSpace.ReplaceAllString(s, " "))
	s = strings.ReplaceAll(s, "( ", "(")
	s = strings.ReplaceAll(s, " )", ")")
	return strings.TrimSuffix(s, ";")
}

// splitTop splits at top-level commas.
func splitTop(s string) []string {
	var out []string
	depth, start := 0, 0
	for i, c := range s {
		switch c {
		case '(':
			depth++
		case ')':
			depth--
		case ',':
			if depth == 0 {
				out = append(out, strings.TrimSpace(s[start:i]))
				start = i + 1
			}
		}
	}
	return append(out, strings.TrimSpace(s[start:]))
}

// paramOIDs guesses the parameter types of a statement from the columns the
// parameters are compared with or inserted into.
func paramOIDs(n string) []uint32 {
	max := 0
	for _, m := range reParam.FindAllStringSubmatch(n, -1) {
		if k, _ := strconv.Atoi(m[1]); k > max {
			max = k
		}
	}
	oids := make([]uint32, max)
	for i := range oids {
		oids[i] = oidText
	}
	set := func(k int, col string, array bool) {
		if k < 1 || k > max {
			return
		}
		t, ok := colType[col]
		if !ok {
			t = oidText
		}
		if array && t == oidText {
			t = oidTextArray
		}
		oids[k-1] = t
	}
	for _, m := range reEq.FindAllStringSubmatch(n, -1) {
		k, _ := strconv.Atoi(m[3])
		set(k, m[1], m[2] != "")
	}
	if m := reInsert.FindStringSubmatch(n); m != nil {
		cols := splitTop(m[2])
		vals := m[3]
		// cut at the parenthesis closing VALUES (
		depth := 0
		for i, c := range vals {
			if c == '(' {
				depth++
			}
			if c == ')' {
				if depth == 0 {
					vals = vals[:i]
					break
				}
				depth--
			}
		}
		vs := splitTop(vals)
		if len(vs) == len(cols) {
			for i, v := range vs {
				if pm := reParam.FindStringSubmatch(v); pm != nil && pm[0] == v {
					k, _ := strconv.Atoi(pm[1])
					set(k, strings.TrimSpace(cols[i]), false)
				}
			}
		}
	}
	return oids
}

type field struct {
	name string
	oid  uint32
}

type stmt struct {
	sql    string // normalised
	raw    string
	params []uint32
	fields []field
}

func describe(raw string) *stmt {
	n := norm(raw)
	st := &stmt{sql: n, raw: raw, params: paramOIDs(n)}
	switch {
	case strings.HasPrefix(n, "select distinct(updater) from update_operation"):
		st.fields = []field{{"updater", oidText}}
	case strings.HasPrefix(n, "select ref, updater, fingerprint, date from update_operation"):
		st.fields = []field{{"ref", oidUUID}, {"updater", oidText}, {"fingerprint", oidText}, {"date", oidTimestamptz}}
	case strings.HasPrefix(n, "insert into update_operation") && strings.Contains(n, "returning id, ref"):
		st.fields = []field{{"id", oidInt8}, {"ref", oidUUID}}
	case strings.HasPrefix(n, "select name, vuln.id from vuln"):
		st.fields = []field{{"name", oidText}, {"id", oidInt8}}
	}
	return st
}

func (st *stmt) rowDesc(formats []int16) *pgproto3.RowDescription {
	rd := &pgproto3.RowDescription{}
	for i, f := range st.fields {
		rd.Fields = append(rd.Fields, pgproto3.FieldDescription{Name: []byte(f.name), DataTypeOID: f.oid, DataTypeSize: -1, TypeModifier: -1, Format: formatOf(formats, i)})
	}
	return rd
}

func formatOf(formats []int16, i int) int16 {
	switch len(formats) {
	case 0:
		return 0
	case 1:
		return formats[0]
	}
	if i < len(formats) {
		return formats[i]
	}
	return 0
}

var pgEpoch = time.Date(2000, 1, 1, 0, 0, 0, 0, time.UTC)

func encode(oid uint32, format int16, v any) []byte {
	switch oid {
	case oidInt8:
		n := v.(int64)
		if format == 1 {
			b := make([]byte, 8)
			binary.BigEndian.PutUint64(b, uint64(n))
			return b
		}
		return []byte(strconv.FormatInt(n, 10))
	case oidUUID:
		u := v.([16]byte)
		if format == 1 {
			return u[:]
		}
		return []byte(fmt.Sprintf("%x-%x-%x-%x-%x", u[0:4], u[4:6], u[6:8], u[8:10], u[10:16]))
	case oidTimestamptz:
		t := v.(time.Time)
		if format == 1 {
			b := make([]byte, 8)
			binary.BigEndian.PutUint64(b, uint64(t.Sub(pgEpoch).Microseconds()))
			return b
		}
		return []byte(t.UTC().Format("2006-01-02 15:04:05.999999") + "+00")
	}
	return []byte(v.(string))
}

func uuidOf(n int64) [16]byte {
	var u [16]byte
	copy(u[:], "rxpg-ref")
	binary.BigEndian.PutUint64(u[8:], uint64(n))
	u[6] = (u[6] & 0x0f) | 0x40
	u[8] = (u[8] & 0x3f) | 0x80
	return u
}

type result struct {
	rows [][]any
	tag  string
	err  *pgproto3.ErrorResponse
}

// run executes one statement against the script and records the event.
func (s *Server) run(st *stmt, params [][]byte) result {
	s.mu.Lock()
	defer s.mu.Unlock()
	n := st.sql
	arg := func(i int) string {
		if i < len(params) && params[i] != nil {
			return string(params[i])
		}
		return ""
	}
	kind := ""
	if m := reKindLit.FindStringSubmatch(n); m != nil {
		kind = m[1]
	}
	when := pgEpoch.Add(24 * time.Hour)
	switch {
	case strings.HasPrefix(n, "select distinct(updater) from update_operation"):
		seen := map[string]bool{}
		var rows [][]any
		for _, o := range s.Known {
			if !seen[o.Updater] {
				seen[o.Updater] = true
				rows = append(rows, []any{o.Updater})
			}
		}
		return result{rows: rows, tag: fmt.Sprintf("SELECT %d", len(rows))}
	case strings.HasPrefix(n, "select ref, updater, fingerprint, date from update_operation"):
		s.events = append(s.events, Event{What: "ops-query", Kind: kind})
		var rows [][]any
		for i := len(s.Known) - 1; i >= 0; i-- {
			o := s.Known[i]
			if kind == "" || o.Kind == kind {
				rows = append(rows, []any{uuidOf(int64(1000 + i)), o.Updater, o.Fingerprint, when})
			}
		}
		return result{rows: rows, tag: fmt.Sprintf("SELECT %d", len(rows))}
	case strings.HasPrefix(n, "insert into update_operation"):
		s.creates++
		ev := Event{What: "create", Kind: kind, Arg1: arg(0), Arg2: arg(1)}
		if s.creates == s.FailCreate {
			ev.Failed = true
			s.events = append(s.events, ev)
			return result{err: &pgproto3.ErrorResponse{Severity: "ERROR", SeverityUnlocalized: "ERROR", Code: "53100", Message: "rxpg: scripted failure of this statement"}}
		}
		s.events = append(s.events, ev)
		s.nextID++
		if len(st.fields) == 0 {
			return result{tag: "INSERT 0 1"}
		}
		return result{rows: [][]any{{s.nextID, uuidOf(s.nextID)}}, tag: "INSERT 0 1"}
	case strings.HasPrefix(n, "insert into enrichment"):
		s.events = append(s.events, Event{What: "insert-enrichment"})
		return result{tag: "INSERT 0 1"}
	case strings.HasPrefix(n, "insert into uo_enrich"):
		s.events = append(s.events, Event{What: "assoc-enrichment"})
		return result{tag: "INSERT 0 1"}
	case strings.HasPrefix(n, "insert into vuln "):
		s.events = append(s.events, Event{What: "insert-vuln"})
		return result{tag: "INSERT 0 1"}
	case strings.HasPrefix(n, "insert into uo_vuln"):
		s.events = append(s.events, Event{What: "assoc-vuln"})
		return result{tag: "INSERT 0 1"}
	case strings.HasPrefix(n, "select name, vuln.id from vuln"):
		s.events = append(s.events, Event{What: "select-existing"})
		return result{tag: "SELECT 0"}
	case strings.HasPrefix(n, "refresh materialized view"):
		s.events = append(s.events, Event{What: "refresh"})
		return result{tag: "REFRESH MATERIALIZED VIEW"}
	}
	s.events = append(s.events, Event{What: "other", SQL: n})
	return result{tag: "OK"}
}

// bufw collects the answers in memory until Flush: the connection is an
// unbuffered pipe, so nothing may be written while the client is still sending.
type bufw struct {
	buf bytes.Buffer
	c   net.Conn
}

func (w *bufw) Write(p []byte) (int, error) { return w.buf.Write(p) }
func (w *bufw) WriteByte(b byte) error      { return w.buf.WriteByte(b) }
func (w *bufw) Flush() error {
	_, err := w.c.Write(w.buf.Bytes())
	w.buf.Reset()
	return err
}

type portal struct {
	st      *stmt
	params  [][]byte
	formats []int16
}

func (s *Server) serve(c net.Conn) {
	defer c.Close()
	bw := &bufw{c: c}
	be := pgproto3.NewBackend(pgproto3.NewChunkReader(c), bw)
	for {
		m, err := be.ReceiveStartupMessage()
		if err != nil {
			return
		}
		if _, ok := m.(*pgproto3.SSLRequest); ok {
			bw.WriteByte('N')
			bw.Flush()
			continue
		}
		if _, ok := m.(*pgproto3.GSSEncRequest); ok {
			bw.WriteByte('N')
			bw.Flush()
			continue
		}
		if _, ok := m.(*pgproto3.StartupMessage); !ok {
			return
		}
		break
	}
	be.Send(&pgproto3.AuthenticationOk{})
	for _, kv := range [][2]string{{"server_version", "14.0"}, {"client_encoding", "UTF8"}, {"standard_conforming_strings", "on"},
		{"integer_datetimes", "on"}, {"DateStyle", "ISO, MDY"}, {"TimeZone", "UTC"}, {"server_encoding", "UTF8"}} {
		be.Send(&pgproto3.ParameterStatus{Name: kv[0], Value: kv[1]})
	}
	be.Send(&pgproto3.BackendKeyData{ProcessID: 1, SecretKey: 1})
	tx := byte('I')
	be.Send(&pgproto3.ReadyForQuery{TxStatus: tx})
	if bw.Flush() != nil {
		return
	}
	stmts := map[string]*stmt{}
	portals := map[string]*portal{}
	skip := false // after an error: ignore everything up to Sync
	fail := func(er *pgproto3.ErrorResponse) {
		be.Send(er)
		if tx == 'T' {
			tx = 'E'
		}
	}
	sendRows := func(st *stmt, formats []int16, r result) {
		for _, row := range r.rows {
			dr := &pgproto3.DataRow{}
			for i, v := range row {
				dr.Values = append(dr.Values, encode(st.fields[i].oid, formatOf(formats, i), v))
			}
			be.Send(dr)
		}
		be.Send(&pgproto3.CommandComplete{CommandTag: []byte(r.tag)})
	}
	for {
		m, err := be.Receive()
		if err != nil {
			return
		}
		switch m.(type) {
		case *pgproto3.Terminate:
			return
		case *pgproto3.Sync:
			skip = false
			be.Send(&pgproto3.ReadyForQuery{TxStatus: tx})
			if bw.Flush() != nil {
				return
			}
			continue
		case *pgproto3.Flush:
			if bw.Flush() != nil {
				return
			}
			continue
		}
		if skip {
			continue
		}
		switch x := m.(type) {
		case *pgproto3.Query:
			for _, q := range strings.Split(x.String, ";") {
				n := norm(q)
				if n == "" {
					continue
				}
				switch {
				case n == "begin" || strings.HasPrefix(n, "begin ") || strings.HasPrefix(n, "start transaction"):
					tx = 'T'
					be.Send(&pgproto3.CommandComplete{CommandTag: []byte("BEGIN")})
				case n == "commit" || n == "end":
					if tx == 'E' {
						be.Send(&pgproto3.CommandComplete{CommandTag: []byte("ROLLBACK")})
					} else {
						be.Send(&pgproto3.CommandComplete{CommandTag: []byte("COMMIT")})
					}
					tx = 'I'
				case n == "rollback" || n == "abort":
					tx = 'I'
					be.Send(&pgproto3.CommandComplete{CommandTag: []byte("ROLLBACK")})
				case tx == 'E':
					be.Send(&pgproto3.ErrorResponse{Severity: "ERROR", SeverityUnlocalized: "ERROR", Code: "25P02", Message: "current transaction is aborted"})
				default:
					st := describe(q)
					r := s.run(st, nil)
					if r.err != nil {
						fail(r.err)
						break
					}
					if len(st.fields) > 0 {
						be.Send(st.rowDesc(nil))
					}
					sendRows(st, nil, r)
				}
			}
			be.Send(&pgproto3.ReadyForQuery{TxStatus: tx})
			if bw.Flush() != nil {
				return
			}
		case *pgproto3.Parse:
			stmts[x.Name] = describe(x.Query)
			be.Send(&pgproto3.ParseComplete{})
		case *pgproto3.Describe:
			var st *stmt
			var formats []int16
			if x.ObjectType == 'S' {
				st = stmts[x.Name]
			} else if p := portals[x.Name]; p != nil {
				st, formats = p.st, p.formats
			}
			if st == nil {
				fail(&pgproto3.ErrorResponse{Severity: "ERROR", SeverityUnlocalized: "ERROR", Code: "26000", Message: "rxpg: unknown statement or portal"})
				skip = true
				continue
			}
			if x.ObjectType == 'S' {
				be.Send(&pgproto3.ParameterDescription{ParameterOIDs: st.params})
			}
			if len(st.fields) > 0 {
				be.Send(st.rowDesc(formats))
			} else {
				be.Send(&pgproto3.NoData{})
			}
		case *pgproto3.Bind:
			st := stmts[x.PreparedStatement]
			if st == nil {
				fail(&pgproto3.ErrorResponse{Severity: "ERROR", SeverityUnlocalized: "ERROR", Code: "26000", Message: "rxpg: unknown statement"})
				skip = true
				continue
			}
			p := &portal{st: st, formats: append([]int16(nil), x.ResultFormatCodes...)}
			for _, v := range x.Parameters {
				if v == nil {
					p.params = append(p.params, nil)
				} else {
					p.params = append(p.params, append([]byte{}, v...))
				}
			}
			portals[x.DestinationPortal] = p
			be.Send(&pgproto3.BindComplete{})
		case *pgproto3.Execute:
			p := portals[x.Portal]
			if p == nil {
				fail(&pgproto3.ErrorResponse{Severity: "ERROR", SeverityUnlocalized: "ERROR", Code: "34000", Message: "rxpg: unknown portal"})
				skip = true
				continue
			}
			if tx == 'E' {
				be.Send(&pgproto3.ErrorResponse{Severity: "ERROR", SeverityUnlocalized: "ERROR", Code: "25P02", Message: "current transaction is aborted"})
				skip = true
				continue
			}
			r := s.run(p.st, p.params)
			if r.err != nil {
				fail(r.err)
				skip = true
				continue
			}
			sendRows(p.st, p.formats, r)
		case *pgproto3.Close:
			if x.ObjectType == 'S' {
				delete(stmts, x.Name)
			} else {
				delete(portals, x.Name)
			}
			be.Send(&pgproto3.CloseComplete{})
		default:
			fail(&pgproto3.ErrorResponse{Severity: "ERROR", SeverityUnlocalized: "ERROR", Code: "0A000", Message: fmt.Sprintf("rxpg: unsupported message %T", m)})
			skip = true
		}
	}
}
