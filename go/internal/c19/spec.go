package c19

import "strings"

// This file is the harness's own reading of the two NIST specifications; it
// shares no code with toolkit/types/cpe and mirrors lean/ClairModel/Model/CpeSpec.lean.
//
// NISTIR 7695 (naming), formatted string, Figure 6-3 / cpe-naming_2.3.xsd:
//
//   formstring = "cpe:2.3:" part ":" vendor ":" product ":" version ":" update ":"
//                edition ":" lang ":" sw_edition ":" target_sw ":" target_hw ":" other
//   part       = "h" / "o" / "a" / "*" / "-"
//   lang       = 2*3ALPHA [ "-" ( 2ALPHA / 3DIGIT ) ] / "*" / "-"
//   avstring   = ( [ "*" / 1*"?" ] 1*( unreserved / quoted ) [ "*" / 1*"?" ] ) / "*" / "-"
//   unreserved = ALPHA / DIGIT / "-" / "." / "_"
//   quoted     = "\" ( "\" / "*" / "?" / punc )
//   punc       = one of  ! " # $ % & ' ( ) + , / : ; < = > @ [ ] ^ ` { | } ~
//
// NISTIR 7696 (matching), section 6.2 / 6.3 and the reference implementation:
// an unquoted "*" stands for any sequence of characters, each unquoted "?" for
// zero or one character, a quoted character for itself, comparison ignores
// case; a quoted character of the target is one character.

const puncChars = "!\"#$%&'()+,/:;<=>@[]^`{|}~"

func isAlnum(c byte) bool {
	return (c >= '0' && c <= '9') || (c >= 'a' && c <= 'z') || (c >= 'A' && c <= 'Z')
}

func isAlpha(c byte) bool { return (c >= 'a' && c <= 'z') || (c >= 'A' && c <= 'Z') }
func isDigit(c byte) bool { return c >= '0' && c <= '9' }

// specSplit splits on unquoted colons (a backslash quotes exactly the next byte).
func specSplit(s string) []string {
	var out []string
	start := 0
	for i := 0; i < len(s); i++ {
		switch s[i] {
		case '\\':
			i++
		case ':':
			out = append(out, s[start:i])
			start = i + 1
		}
	}
	return append(out, s[start:])
}

// leniency reasons (finding ids) and the hard verdicts of one component
const (
	lenFewer     = "fs-fewer-components"
	lenEmpty     = "fs-empty-component"
	lenUnquoted  = "fs-unquoted-punctuation"
	lenQuoted    = "fs-quoted-nonpunctuation"
	lenSpecial   = "fs-double-asterisk"
	specialOpen  = "special-only-open"
	lenLanguage  = "fs-language-unchecked"
	mustReject   = "must-reject"
	rtUnderscore = "roundtrip-quoted-underscore"
)

// classifyAV classifies one attribute-value string of a formatted string:
// strict = it is an avstring of the ABNF; otherwise reasons lists why not,
// with mustReject when no reading of the specification lets it through.
func classifyAV(c string) (strict bool, reasons []string) {
	if c == "*" || c == "-" {
		return true, nil
	}
	if c == "" {
		return false, []string{lenEmpty}
	}
	add := func(r string) {
		for _, x := range reasons {
			if x == r {
				return
			}
		}
		reasons = append(reasons, r)
	}
	// tokens
	type tok struct {
		quoted bool
		c      byte
	}
	var toks []tok
	for i := 0; i < len(c); i++ {
		if c[i] == '\\' {
			if i+1 >= len(c) {
				return false, []string{mustReject} // dangling escape
			}
			toks = append(toks, tok{true, c[i+1]})
			i++
			continue
		}
		toks = append(toks, tok{false, c[i]})
	}
	special := func(t tok) bool { return !t.quoted && (t.c == '*' || t.c == '?') }
	// leading / trailing special runs
	lo, hi := 0, len(toks)
	if lo < hi && special(toks[lo]) {
		if toks[lo].c == '*' {
			lo++
		} else {
			for lo < hi && special(toks[lo]) && toks[lo].c == '?' {
				lo++
			}
		}
	}
	if lo < hi && special(toks[hi-1]) {
		if toks[hi-1].c == '*' {
			hi--
		} else {
			for hi > lo && special(toks[hi-1]) && toks[hi-1].c == '?' {
				hi--
			}
		}
	}
	if lo == hi {
		// nothing but special characters (the lone "*" was handled). Two
		// asterisks in sequence are ruled out by the naming specification ("the
		// asterisk MUST NOT be used more than once in sequence", also quoted in
		// the package's own tests). For the other shapes ("?", "??", "?*", "*??")
		// the two grammars the harness knows disagree (the XSD pattern wants a
		// body, the ABNF's "spec_chrs *body2" does not), so they are left open:
		// neither required to be accepted nor reported when accepted.
		if c == "**" {
			return false, []string{lenSpecial}
		}
		return false, []string{specialOpen}
	}
	for _, t := range toks[lo:hi] {
		switch {
		case special(t):
			return false, []string{mustReject} // embedded special character
		case t.c >= 0x7f || t.c == ' ' || (t.c >= 9 && t.c <= 13):
			return false, []string{mustReject}
		case t.quoted:
			if t.c == '\\' || t.c == '*' || t.c == '?' || strings.IndexByte(puncChars, t.c) >= 0 {
				continue
			}
			add(lenQuoted) // \a \_ \- \. or a quoted control character
		default:
			if isAlnum(t.c) || t.c == '-' || t.c == '.' || t.c == '_' {
				continue
			}
			add(lenUnquoted) // punctuation or a control character, which the unbinder quotes
		}
	}
	// the unbound value must not be the quoted hyphen alone
	if hi-lo == 1 && lo == 0 && hi == len(toks) && toks[0].c == '-' {
		return false, []string{mustReject}
	}
	return len(reasons) == 0, reasons
}

func isLangTag(c string) bool {
	if c == "*" || c == "-" {
		return true
	}
	i := 0
	for i < len(c) && isAlpha(c[i]) {
		i++
	}
	if i < 2 || i > 3 {
		return false
	}
	if i == len(c) {
		return true
	}
	if c[i] != '-' {
		return false
	}
	rest := c[i+1:]
	if len(rest) == 2 && isAlpha(rest[0]) && isAlpha(rest[1]) {
		return true
	}
	return len(rest) == 3 && isDigit(rest[0]) && isDigit(rest[1]) && isDigit(rest[2])
}

// classifyFS: strict = s is a formstring of the ABNF. reasons as in classifyAV
// (union over the components, plus the component-count reasons).
func classifyFS(s string) (strict bool, reasons []string) {
	const prefix = "cpe:2.3:"
	if !strings.HasPrefix(s, prefix) {
		return false, []string{mustReject}
	}
	comps := specSplit(s[len(prefix):])
	if len(comps) > 11 {
		return false, []string{mustReject}
	}
	add := func(r string) {
		for _, x := range reasons {
			if x == r {
				return
			}
		}
		reasons = append(reasons, r)
	}
	if len(comps) < 11 {
		add(lenFewer)
	}
	allUnset := true
	for i, c := range comps {
		if c != "" {
			allUnset = false
		}
		_, rs := classifyAV(c)
		for _, r := range rs {
			if r == mustReject {
				return false, []string{mustReject}
			}
			add(r)
		}
		switch i {
		case 0:
			if c != "" && c != "a" && c != "o" && c != "h" && c != "*" && c != "-" {
				return false, []string{mustReject}
			}
		case 6:
			if c != "" && !isLangTag(c) {
				add(lenLanguage)
			}
		}
	}
	if allUnset {
		return false, []string{mustReject}
	}
	return len(reasons) == 0, reasons
}

// ---- matching specification ----

type ptok struct {
	kind byte // 'l' literal, '*', '?'
	c    byte
}

func foldByte(c byte) byte {
	if c >= 'A' && c <= 'Z' {
		return c + 32
	}
	return c
}

// patTokens reads a WFN value string as a pattern: quoted characters and
// ordinary characters are literals, unquoted * and ? are wildcards.
func patTokens(s string) []ptok {
	var out []ptok
	for i := 0; i < len(s); i++ {
		switch {
		case s[i] == '\\' && i+1 < len(s):
			out = append(out, ptok{'l', foldByte(s[i+1])})
			i++
		case s[i] == '*':
			out = append(out, ptok{kind: '*'})
		case s[i] == '?':
			out = append(out, ptok{kind: '?'})
		default:
			out = append(out, ptok{'l', foldByte(s[i])})
		}
	}
	return out
}

// unquote gives the characters a wildcard-free value string stands for.
func unquote(s string) []byte {
	var out []byte
	for i := 0; i < len(s); i++ {
		if s[i] == '\\' {
			i++
			if i >= len(s) {
				break // a dangling backslash (not a value string) quotes nothing
			}
		}
		out = append(out, foldByte(s[i]))
	}
	return out
}

// glob: "*" any sequence, "?" zero or one character.
func glob(p []ptok, t []byte) bool {
	if len(p) == 0 {
		return len(t) == 0
	}
	switch p[0].kind {
	case '*':
		for k := 0; k <= len(t); k++ {
			if glob(p[1:], t[k:]) {
				return true
			}
		}
		return false
	case '?':
		if glob(p[1:], t) {
			return true
		}
		return len(t) > 0 && glob(p[1:], t[1:])
	default:
		return len(t) > 0 && t[0] == p[0].c && glob(p[1:], t[1:])
	}
}

// specMatches is the matching specification for a source value with
// wildcards against a wildcard-free target value.
func specMatches(src, tgt string) bool { return glob(patTokens(src), unquote(tgt)) }

// unquotedWildcard says whether a value string has an unquoted * or ?.
func unquotedWildcard(s string) bool {
	for i := 0; i < len(s); i++ {
		switch s[i] {
		case '\\':
			i++
		case '*', '?':
			return true
		}
	}
	return false
}

// ---- URI binding (NISTIR 7695 section 6.1.2: bind_to_URI, transform_for_uri, pct_encode, pack) ----

// specTransformForURI binds one value string for a URI; ok is false when
// the value is outside what the harness checks (upper-case letters, which a
// URI does not preserve, or quoting the specification does not provide for).
func specTransformForURI(v string) (out string, ok bool) {
	var b strings.Builder
	for i := 0; i < len(v); i++ {
		c := v[i]
		switch {
		case c >= 'A' && c <= 'Z':
			return "", false
		case isAlnum(c) || c == '_':
			b.WriteByte(c)
		case c == '\\':
			if i+1 >= len(v) {
				return "", false
			}
			i++
			n := v[i]
			switch {
			case n == '-' || n == '.':
				b.WriteByte(n)
			case n == '\\' || n == '*' || n == '?' || strings.IndexByte(puncChars, n) >= 0:
				const hexd = "0123456789abcdef"
				b.WriteByte('%')
				b.WriteByte(hexd[n>>4])
				b.WriteByte(hexd[n&15])
			default:
				return "", false
			}
		case c == '?':
			b.WriteString("%01")
		case c == '*':
			b.WriteString("%02")
		default:
			return "", false
		}
	}
	return b.String(), true
}

// specBindValueForURI: ANY (and unset) is the empty string, NA is "-"; a set
// value is transformed byte by byte as transform_for_uri does (quoted '-' and
// '.' as they are, every other quoted character percent-encoded, the unquoted
// specials as %01 / %02, everything else unchanged).
func specBindValueForURI(kind byte, v string) string {
	switch kind {
	case 'U', 'A':
		return ""
	case 'N':
		return "-"
	}
	var b strings.Builder
	esc := false
	for i := 0; i < len(v); i++ {
		c := v[i]
		switch {
		case esc:
			esc = false
			if c == '-' || c == '.' {
				b.WriteByte(c)
			} else {
				const hexd = "0123456789abcdef"
				b.WriteByte('%')
				b.WriteByte(hexd[c>>4])
				b.WriteByte(hexd[c&15])
			}
		case c == '\\':
			esc = true
		case c == '?':
			b.WriteString("%01")
		case c == '*':
			b.WriteString("%02")
		default:
			b.WriteByte(c)
		}
	}
	return b.String()
}

// specPack is pack() of NISTIR 7695 6.1.2.
func specPack(ed, sw, tsw, thw, oth string) string {
	if sw == "" && tsw == "" && thw == "" && oth == "" {
		return ed
	}
	return "~" + ed + "~" + sw + "~" + tsw + "~" + thw + "~" + oth
}
