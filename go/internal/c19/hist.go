package c19

import (
	"context"
	"fmt"
	"reflect"
	"sync"

	"github.com/quay/claircore"
	"github.com/quay/claircore/toolkit/types/cpe"
	"github.com/quay/claircore/verifharness/internal/hx"
)

// Histories of rhel.Matcher.Vulnerable on SHARED values: one
// *claircore.Vulnerability (with its *Repository) and one *claircore.IndexRecord
// are passed to Vulnerable again and again, with fields changed in between
// (the repository name; the CPE held by the vulnerability's repository,
// also pre-populated with a name that does not belong to Repo.Name; the
// record's repository CPE), and by several goroutines at once.
//
// Statement checked: the verdict of every call is a function of the current
// field values as the property states — Repo.Name's CPE against the record's
// repository CPE — independent of earlier calls (theorem
// vulnerable_history_independent); Vulnerable changes nothing in its arguments
// except vuln.Repo.CPE, into which the unchanged code stores what
// cpe.Unbind(Repo.Name) returned (its documented "conversion").
//
// Protocol lines (model: lean/Driver/C19.lean histLine): vname, vheld, vrec
// change a field, vcall answers the verdict and the CPE held afterwards.

var histNames = []string{
	"cpe:/a:redhat:openshift:4",
	"cpe:/o:redhat:enterprise_linux:8::baseos",
	"cpe:/a:redhat:openshift:4.%02::el8",
	"cpe:/o:redhat:enterprise_linux:8",
	"cpe:/a:redhat:openshift:5",
	"cpe:/a:redhat:openshift:4.13::el8",
	"cpe:2.3:a:redhat:openshift:4.*:*:*:*:*:*:*:*",
	"cpe:2.3:o:redhat:enterprise_linux:8:*:baseos:*:*:*:*:*",
	"cpe:/",
	"cpe:/a",
	"cep:o:redhat:enterprise_linux:8::baseos", // does not unbind
	"cpe:/a:redhat:openshift:4:::::::",        // too many components
	"cpe:2.3:x:redhat:*:*:*:*:*:*:*:*:*",      // unbinds half way, then invalid
	"",
}

var histRecords = []string{
	"cpe:/o:redhat:enterprise_linux:8::baseos",
	"cpe:/a:redhat:openshift:4.13::el8",
	"cpe:/a:redhat:openshift:5.1::el8",
	"cpe:/a:redhat:openshift:4",
	"cpe:/o:redhat:enterprise_linux:8::appstream",
}

type histObjs struct {
	vuln *claircore.Vulnerability
	rec  *claircore.IndexRecord
}

func newHistObjs() *histObjs {
	return &histObjs{
		vuln: &claircore.Vulnerability{
			Name:           "V",
			Package:        &claircore.Package{Name: "p"},
			Repo:           &claircore.Repository{Key: rhelRepoKey},
			FixedInVersion: "2.0",
		},
		rec: &claircore.IndexRecord{
			Package:    &claircore.Package{Name: "p", Version: "1.0"},
			Repository: &claircore.Repository{Key: rhelRepoKey},
		},
	}
}

// copies for the "arguments are not modified" comparison
func copyVuln(v *claircore.Vulnerability) claircore.Vulnerability {
	c := *v
	p, r := *v.Package, *v.Repo
	c.Package, c.Repo = &p, &r
	return c
}

func copyRec(r *claircore.IndexRecord) claircore.IndexRecord {
	c := *r
	p, rp := *r.Package, *r.Repository
	c.Package, c.Repository = &p, &rp
	return c
}

// expectVerdict: the property's verdict from the current field values, by the
// public API only.
func expectVerdict(name string, record cpe.WFN) bool {
	src, err := cpe.Unbind(name)
	if err != nil {
		return false
	}
	return cpe.Compare(src, record).IsSuperset() || hasPrefix(record.String(), trimRight(src.String()))
}

func hasPrefix(s, p string) bool { return len(s) >= len(p) && s[:len(p)] == p }

func trimRight(s string) string {
	for len(s) > 0 && (s[len(s)-1] == ':' || s[len(s)-1] == '*') {
		s = s[:len(s)-1]
	}
	return s
}

// the shared objects of the history in progress (reset by `reset`)
func (h *harness) histObjs() *histObjs {
	if h.ho == nil {
		h.ho = newHistObjs()
		h.trail = ""
	}
	return h.ho
}

func (h *harness) histStep(line string) {
	h.r.Op(line, "ok", false)
	if len(h.trail) < 1500 {
		h.trail += line + "; "
	}
}

func (h *harness) hName(s string) {
	h.histObjs().vuln.Repo.Name = s
	h.histStep("vname " + enc(s))
}

func (h *harness) hRec(w cpe.WFN) {
	h.histObjs().rec.Repository.CPE = w
	h.histStep("vrec " + encWFN(w))
}

func (h *harness) hHeld(w cpe.WFN) {
	h.histObjs().vuln.Repo.CPE = w
	h.histStep("vheld " + encWFN(w))
}

func (h *harness) hCall() string {
	o := h.histObjs()
	out := h.histCall(o, h.trail+"vcall")
	h.trail += "vcall; "
	return out
}

// histCall: one call on the shared objects, as a protocol line, with the oracles.
func (h *harness) histCall(o *histObjs, trail string) string {
	r := h.r
	name, record := o.vuln.Repo.Name, o.rec.Repository.CPE
	vBefore, rBefore := copyVuln(o.vuln), copyRec(o.rec)
	var verdict bool
	out := hx.Guard(func() string {
		ok, err := matcher.Vulnerable(context.Background(), o.rec, o.vuln)
		if err != nil {
			return "err"
		}
		verdict = ok
		after := "-"
		if _, uerr := cpe.Unbind(name); uerr == nil {
			after = encWFN(o.vuln.Repo.CPE)
		}
		return fmt.Sprint(ok) + " " + after
	})
	r.Op("vcall", out, true)
	r.Case("hist "+trail, true)
	r.Count("hist:calls")
	if out == "panic" || out == "err" {
		r.Fail("", fmt.Sprintf("Vulnerable %s in the history %s", out, trail))
		return out
	}
	r.Count(fmt.Sprintf("hist:verdict:%v", verdict))
	// the verdict follows the current field values
	want := expectVerdict(name, record)
	fresh := implVulnerable(name, record)
	if verdict != want || fmt.Sprint(verdict) != fresh {
		r.Fail("", fmt.Sprintf("Vulnerable on reused values says %v; the CPE named by Repo.Name %q against the record's CPE %q gives %v (a fresh Vulnerability: %s); history: %s",
			verdict, name, record.BindFS(), want, fresh, trail))
	}
	// nothing but vuln.Repo.CPE is written, and that is what Repo.Name unbinds to
	vAfter, rAfter := copyVuln(o.vuln), copyRec(o.rec)
	if !reflect.DeepEqual(rBefore, rAfter) {
		r.Fail("", fmt.Sprintf("Vulnerable modified the record; history: %s", trail))
	}
	stored, _ := cpe.Unbind(name)
	if vAfter.Repo.CPE != stored {
		r.Fail("", fmt.Sprintf("after Vulnerable the vulnerability's repository holds %q, Repo.Name %q unbinds to %q; history: %s",
			vAfter.Repo.CPE.BindFS(), name, stored.BindFS(), trail))
	}
	vAfter.Repo.CPE = vBefore.Repo.CPE
	if !reflect.DeepEqual(vBefore, vAfter) {
		r.Fail("", fmt.Sprintf("Vulnerable modified the vulnerability beyond Repo.CPE; history: %s", trail))
	}
	return out
}

// histories: generated multi-step histories on shared values.
func (h *harness) histories() {
	r, g := h.r, h.g
	var recs []cpe.WFN
	for _, s := range histRecords {
		recs = append(recs, cpe.MustUnbind(s))
	}
	recs = append(recs, cpe.WFN{})
	pickName := func() string {
		if g.r.Chance(1, 8) {
			return g.cleanWFN().BindFS()
		}
		return histNames[g.r.Intn(len(histNames))]
	}
	pickRec := func() cpe.WFN {
		if g.r.Chance(1, 8) {
			return g.cleanWFN()
		}
		return recs[g.r.Intn(len(recs))]
	}
	for i, n := 0, h.cfg.N(300, 20000); i < n && !r.Stop(); i++ {
		h.begin()
		h.hName(pickName())
		h.hRec(pickRec())
		for k, steps := 0, 2+g.r.Intn(6); k < steps; k++ {
			switch g.r.Intn(6) {
			case 0, 1:
				h.hName(pickName())
				r.Count("hist:step:name")
			case 2:
				h.hRec(pickRec())
				r.Count("hist:step:record")
			case 3:
				// the repository arrives with a CPE that does not belong to its name
				var held cpe.WFN
				switch g.r.Intn(4) {
				case 0:
				case 1:
					held, _ = cpe.Unbind(pickName())
				case 2:
					held = pickRec()
				default:
					held = g.wfn()
				}
				h.hHeld(held)
				r.Count("hist:step:held")
			default:
			}
			h.hCall()
		}
	}
	// the same objects used by several goroutines: every goroutine has its own
	// record and shares the vulnerability; the verdicts are those of the field values
	for i, n := 0, h.cfg.N(40, 1000); i < n && !r.Stop(); i++ {
		o := newHistObjs()
		o.vuln.Repo.Name = pickName()
		if g.r.Chance(1, 2) {
			o.vuln.Repo.CPE = pickRec()
		}
		const workers = 4
		var myRecs [workers]cpe.WFN
		for k := range myRecs {
			myRecs[k] = pickRec()
		}
		var got [workers][3]string
		var wg sync.WaitGroup
		for k := 0; k < workers; k++ {
			wg.Add(1)
			go func(k int) {
				defer wg.Done()
				rec := newHistObjs().rec
				rec.Repository.CPE = myRecs[k]
				for j := 0; j < 3; j++ {
					got[k][j] = hx.Guard(func() string {
						ok, err := matcher.Vulnerable(context.Background(), rec, o.vuln)
						if err != nil {
							return "err"
						}
						return fmt.Sprint(ok)
					})
				}
			}(k)
		}
		wg.Wait()
		r.Case(fmt.Sprintf("hist-concurrent %d", i), true)
		r.Count("hist:concurrent")
		for k := 0; k < workers; k++ {
			want := fmt.Sprint(expectVerdict(o.vuln.Repo.Name, myRecs[k]))
			for j := 0; j < 3; j++ {
				if got[k][j] != want {
					r.Fail("", fmt.Sprintf("four goroutines share one Vulnerability named %q: against the record %q Vulnerable says %s, the field values give %s",
						o.vuln.Repo.Name, myRecs[k].BindFS(), got[k][j], want))
				}
			}
		}
	}
}
