package c19

import (
	"encoding/json"
	"fmt"
	"strings"
	"unicode/utf8"

	"github.com/quay/claircore/toolkit/types/cpe"
	"github.com/quay/claircore/verifharness/internal/hx"
)

// This file: the dictionary-scale enumeration (every string over small
// alphabets drawn from every class `validate` distinguishes), the marshaling
// round trips (text, JSON, SQL) including the zero name, a non-zero receiver
// and the error cases, and Compare on names outside `Valid` (non-ASCII).

// valueClass names the classes of a value string the enumeration must reach.
func valueClass(s string) []string {
	var out []string
	add := func(c string) { out = append(out, c) }
	if s == "" {
		return []string{"empty"}
	}
	if s == "*" || s == "-" || s == "\\-" {
		add("lone:" + s)
	}
	esc := false
	for i := 0; i < len(s); i++ {
		c := s[i]
		first, last := i == 0, i == len(s)-1
		switch {
		case esc:
			esc = false
			pos := "mid"
			if i == 1 {
				pos = "first"
			} else if last {
				pos = "last"
			}
			switch {
			case c == '*' || c == '?':
				add("quoted-special-" + pos)
			case c == '\\':
				add("quoted-backslash-" + pos)
			case c == '-' || c == '.' || c == '_':
				add("quoted" + string(c))
			case isAlnum(c):
				add("quoted-alnum")
			default:
				add("quoted-punct")
			}
		case c == '\\':
			esc = true
			if last {
				add("dangling-escape")
			}
		case c == '*' || c == '?':
			switch {
			case first:
				add("wild-first" + string(c))
			case last:
				add("wild-last" + string(c))
			default:
				add("wild-embedded" + string(c))
			}
		case isAlnum(c) || c == '_':
		default:
			add("unquoted-punct")
		}
	}
	if len(out) == 0 {
		add("plain")
	}
	return out
}

// enumerate calls f on every string over alpha of length 0..maxLen, in
// length-lexicographic order.
func enumerate(alpha string, maxLen int, f func(string) bool) {
	buf := make([]byte, 0, maxLen)
	var rec func(n int) bool
	rec = func(n int) bool {
		if n == 0 {
			return f(string(buf))
		}
		for i := 0; i < len(alpha); i++ {
			buf = append(buf, alpha[i])
			ok := rec(n - 1)
			buf = buf[:len(buf)-1]
			if !ok {
				return false
			}
		}
		return true
	}
	for n := 0; n <= maxLen; n++ {
		if !rec(n) {
			return
		}
	}
}

// dictValue runs one enumerated string through every place a value string
// can enter the package.
func (h *harness) dictValue(s string, light bool) {
	r := h.r
	v := h.opValidate(s)
	for _, c := range valueClass(s) {
		r.Count("dict:class:" + c + ":" + v)
	}
	h.opNewValue("newvalue", s)
	h.opWild(s)
	if light {
		return
	}
	h.opBindVal(s)
	h.opUnbindVal(s)
	// as a component of a formatted string and of a URI
	fs := "cpe:2.3:a:" + s + ":*:*:*:*:*:*:*:*:*"
	_, w, ok := h.opUnbind("unbind", fs)
	h.checkAcceptFS(fs, w, ok)
	if ok && w.Valid() == nil {
		if got, err := cpe.Unbind(w.BindFS()); err != nil || got != norm(w) {
			cls := ""
			if err == nil {
				cls = explainRoundTrip(norm(w), got)
			}
			r.Fail(cls, fmt.Sprintf("Unbind(%q) = %#v, which binds to %q and unbinds to %#v, %v", fs, w, w.BindFS(), got, err))
		}
	}
	h.opUnbind("unbinduri", "cpe:/a:"+s)
	if v == "ok" && s != "" {
		// as the vendor of a name: round trips
		n := mkName(map[int]string{1: s})
		h.opName("valid", n)
		h.opName("bindfs", n)
		h.checkRoundTrip(n)
		h.checkURIRoundTrip(n)
		// packed: the same value as target_sw
		n2 := mkName(map[int]string{8: s})
		h.checkURIRoundTrip(n2)
	}
}

// dictionary: the dictionary-scale differential run.
func (h *harness) dictionary() {
	r := h.r
	// every class of character: lower, upper, underscore, backslash, the two
	// specials, hyphen, period, colon, tilde
	n1 := h.cfg.N(4, 5)
	enumerate("aZ_\\*?-.:~", n1, func(s string) bool {
		h.begin()
		h.dictValue(s, false)
		r.Count("dict:strings")
		return !r.Stop()
	})
	// white space, control characters and DEL: unquoted, quoted, alone
	for _, c := range []byte("\x00\x01\x08\t\n\v\f\r\x0e\x1f \x7e\x7f") {
		for _, v := range []string{string([]byte{c}), "\\" + string([]byte{c}), "a" + string([]byte{c}), "a\\" + string([]byte{c}), "a\\" + string([]byte{c}) + "b", "?\\" + string([]byte{c}) + "*"} {
			h.begin()
			h.dictValue(v, false)
			r.Count("dict:strings-control")
		}
	}
	// longer strings over the quoting/wildcard core
	n2 := h.cfg.N(6, 7)
	enumerate("a\\*?-", n2, func(s string) bool {
		if len(s) <= n1 {
			return true // covered above
		}
		h.begin()
		h.dictValue(s, len(s) > n1+1)
		r.Count("dict:strings-long")
		return !r.Stop()
	})
	// all pairs of short patterns and targets
	var short []string
	enumerate("aB\\*?.", h.cfg.N(3, 4), func(s string) bool {
		short = append(short, s)
		return true
	})
	step := 1
	if h.cfg.Thorough() {
		step = 5 // 1555^2 / 5
	}
	k := 0
	for _, s := range short {
		for _, t := range short {
			k++
			if k%step != 0 {
				continue
			}
			if r.Stop() {
				return
			}
			h.opPat(s, t)
			r.Count("dict:pairs")
		}
	}
}

// checkPatSpec: for a source `validate` accepts, patCompare is the glob
// semantics of the matching specification against every target (theorem
// pattern_matches_spec).
func (h *harness) checkPatSpec(s, t, out string) {
	if out == "panic" || cpe.ValidateForVerif(s) != nil || !isASCII(t) {
		return
	}
	h.r.Case("patspec "+s+" "+t, true)
	want := specMatches(s, t)
	h.r.Count(fmt.Sprintf("patspec:%v", want))
	if fmt.Sprint(want) != out {
		h.r.Fail("", fmt.Sprintf("patCompare(%q, %q) = %s, the matching specification says %v (op: pat %s %s)", s, t, out, want, enc(s), enc(t)))
	}
}

// ---- marshaling ----

// checkMarshal: text, JSON and SQL forms of one name, into fresh and into
// occupied receivers.
func (h *harness) checkMarshal(w, other cpe.WFN) {
	r := h.r
	mt := h.opName("marshal", w)
	sv := h.opName("sqlvalue", w)
	r.Case("marshal "+encWFN(w), true)
	if mt != sv {
		r.Fail("", fmt.Sprintf("MarshalText and Value differ on %#v: %s vs %s", w, mt, sv))
	}
	verr := w.Valid()
	switch {
	case verr == nil:
		r.Count("marshal:valid")
		if mt == "err" {
			r.Fail("", fmt.Sprintf("MarshalText fails on the valid name %#v", w))
			return
		}
	case verr == cpe.ErrUnset:
		r.Count("marshal:zero")
		if mt != "-" {
			r.Fail("", fmt.Sprintf("MarshalText of an unset name is %s, not empty", mt))
		}
	default:
		r.Count("marshal:invalid")
		if mt != "err" {
			r.Fail("", fmt.Sprintf("MarshalText succeeds (%s) on the invalid name %#v: %v", mt, w, verr))
		}
		// an invalid name does not marshal to JSON either
		if _, err := json.Marshal(&w); err == nil {
			r.Fail("", fmt.Sprintf("json.Marshal succeeds on the invalid name %#v", w))
		}
		return
	}
	text, _ := w.MarshalText()
	want := norm(w)
	if verr == cpe.ErrUnset {
		want = other // Scan: the empty text leaves the receiver alone (documented)
	}
	expl := func(got cpe.WFN) string {
		if verr == nil {
			return explainRoundTrip(want, got)
		}
		return ""
	}
	// text into an occupied receiver, both entry points
	for _, op := range []string{"unmarshal2", "scan2"} {
		out, got, ok := h.opInto(op, other, string(text))
		if out == "panic" {
			continue
		}
		wantOp := want
		if verr == cpe.ErrUnset && op == "unmarshal2" {
			wantOp = cpe.WFN{} // UnmarshalText: the empty text is the unset name, whatever the receiver held (/repo 498444fa)
		}
		if !ok || got != wantOp {
			r.Fail(expl(got), fmt.Sprintf("%s(%q) into %#v gives ok=%v %#v, want %#v", op, text, other, ok, got, wantOp))
		}
	}
	// Scan of []byte and of an unsupported type
	{
		got := other
		if err := got.Scan(text); err != nil || got != want {
			r.Fail(expl(got), fmt.Sprintf("Scan([]byte(%q)) into %#v gives %v %#v, want %#v", text, other, err, got, want))
		}
		keep := other
		if err := keep.Scan(42); err == nil {
			r.Fail("", "Scan(42) succeeds")
		} else if keep != other {
			r.Fail("", "Scan(42) fails and changes the receiver")
		}
	}
	// JSON: a string holding the formatted string; through a struct field and a pointer
	type holder struct {
		C cpe.WFN  `json:"c"`
		P *cpe.WFN `json:"p"`
	}
	in := holder{C: w, P: &w}
	b, err := json.Marshal(&in)
	if err != nil {
		r.Fail("", fmt.Sprintf("json.Marshal of %#v: %v", w, err))
		return
	}
	var probe struct {
		C string `json:"c"`
		P string `json:"p"`
	}
	if err := json.Unmarshal(b, &probe); err != nil || probe.C != string(text) || probe.P != string(text) {
		r.Fail("", fmt.Sprintf("JSON form of %#v is %s, want the string %q twice (%v)", w, b, text, err))
		return
	}
	out := holder{C: other}
	if err := json.Unmarshal(b, &out); err != nil {
		r.Fail("", fmt.Sprintf("json.Unmarshal(%s): %v", b, err))
		return
	}
	wantP := norm(w)
	if verr == cpe.ErrUnset {
		wantP = cpe.WFN{}
	}
	// (JSON goes through UnmarshalText: the occupied field is reset by the empty text too)
	if out.C != wantP || out.P == nil || *out.P != wantP {
		r.Fail(expl(out.C), fmt.Sprintf("JSON round trip of %#v through %s gives %#v / %#v, want %#v", w, b, out.C, out.P, wantP))
		return
	}
	r.Count("marshal:json-roundtrip")
}

// ---- Compare outside Valid: non-ASCII values ----

var nonASCIIValues = []string{"café", "CAFÉ", "K", "k", "K", "ſ", "s", "straße", "STRASSE", "\xff", "\xfe", "a\x80", "a\x81",
	"é*", "*é", "?é", "é?", "caf*", "caf?", "İ", "i", "I", "ı"}

// checkNonASCII: names whose values `validate` rejects (so no theorem and no
// model line speaks about them) still compare without panicking, a name is
// equal to itself, and the verdicts are consistent.
func (h *harness) checkNonASCII() {
	r := h.r
	for _, a := range nonASCIIValues {
		for _, b := range nonASCIIValues {
			if r.Stop() {
				return
			}
			x, y := mkName(map[int]string{1: a}), mkName(map[int]string{1: b})
			r.Case("nonascii "+a+" "+b, true)
			var rs cpe.Relations
			out := hx.Guard(func() string {
				rs = cpe.Compare(x, y)
				return renderCmp(rs)
			})
			if out == "panic" {
				r.Fail("", fmt.Sprintf("Compare panics on vendor %q against vendor %q", a, b))
				continue
			}
			r.Count("nonascii:rel:" + relLetter(rs[1]))
			if isASCII(a) && isASCII(b) {
				continue // the model speaks about these
			}
			if (!isASCII(a) && x.Valid() == nil) || (!isASCII(b) && y.Valid() == nil) {
				r.Fail("", fmt.Sprintf("a name with the non-ASCII vendor %q / %q is Valid", a, b))
			}
			if a == b && !unquotedWildcard(a) && !rs.IsEqual() {
				r.Fail("", fmt.Sprintf("identical names are not equal: vendor %q", a))
			}
			if rs.IsEqual() && !(rs.IsSuperset() && rs.IsSubset()) || rs.IsDisjoint() && (rs.IsSuperset() || rs.IsSubset()) {
				r.Fail("", fmt.Sprintf("inconsistent verdicts for vendor %q against %q: %s", a, b, out))
			}
			if !unquotedWildcard(a) && !unquotedWildcard(b) {
				if back := cpe.Compare(y, x); back[1] != mirror(rs[1]) {
					r.Fail("", fmt.Sprintf("vendor %q against %q is %s one way and %s the other", a, b, relLetter(rs[1]), relLetter(back[1])))
				}
			}
			if utf8.ValidString(a) && utf8.ValidString(b) && strings.ToLower(a) == strings.ToLower(b) && strings.ToUpper(a) == strings.ToUpper(b) &&
				!unquotedWildcard(a) && !unquotedWildcard(b) && rs[1] != cpe.Equal {
				r.Fail("", fmt.Sprintf("vendor %q against %q (the same in lower and in upper case) is %s", a, b, relLetter(rs[1])))
			}
		}
	}
}
