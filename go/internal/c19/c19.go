// Package c19 drives toolkit/types/cpe (validate, BindFS/String/MarshalText,
// Unbind/UnbindFS/UnbindURI, Compare, patCompare) and the CPE condition of
// rhel.Matcher.Vulnerable on generated names, pairs of names and arbitrary
// strings; emits every call in the line protocol of the Lean model
// (lean/Driver/C19.lean); and checks the statement of property C19 directly on
// the implementation against an independent reading of the two NIST
// specifications (spec.go).
package c19

import (
	"bufio"
	"context"
	"fmt"
	"os"
	"path/filepath"
	"sort"
	"strings"

	"github.com/quay/claircore"
	pcpe "github.com/quay/claircore/pkg/cpe"
	"github.com/quay/claircore/rhel"
	"github.com/quay/claircore/toolkit/types/cpe"
	"github.com/quay/claircore/verifharness/internal/hx"
	"github.com/quay/zlog"
	"github.com/rs/zerolog"
)

type harness struct {
	r   *hx.Run
	g   *gen
	cfg hx.Config
	// the shared Vulnerability / IndexRecord of the history in progress (hist.go)
	ho    *histObjs
	trail string
}

func enc(s string) string { return hx.Hex([]byte(s)) }

func kindLetter(k cpe.ValueKind) string {
	switch k {
	case cpe.ValueUnset:
		return "U"
	case cpe.ValueAny:
		return "A"
	case cpe.ValueNA:
		return "N"
	case cpe.ValueSet:
		return "S"
	}
	return "X"
}

func encWFN(w cpe.WFN) string {
	t := make([]string, cpe.NumAttr)
	for i := range t {
		t[i] = kindLetter(w.Attr[i].Kind) + enc(w.Attr[i].V)
	}
	return strings.Join(t, " ")
}

func decWFN(toks []string) (cpe.WFN, error) {
	var w cpe.WFN
	if len(toks) != cpe.NumAttr {
		return w, fmt.Errorf("want %d values", cpe.NumAttr)
	}
	for i, t := range toks {
		if t == "" {
			return w, fmt.Errorf("empty value")
		}
		b, err := hx.Unhex(t[1:])
		if err != nil {
			return w, err
		}
		w.Attr[i].V = string(b)
		switch t[0] {
		case 'U':
			w.Attr[i].Kind = cpe.ValueUnset
		case 'A':
			w.Attr[i].Kind = cpe.ValueAny
		case 'N':
			w.Attr[i].Kind = cpe.ValueNA
		case 'S':
			w.Attr[i].Kind = cpe.ValueSet
		default:
			return w, fmt.Errorf("bad kind")
		}
	}
	return w, nil
}

func relLetter(r cpe.Relation) string {
	switch r {
	case cpe.Invalid:
		return "I"
	case cpe.Superset:
		return ">"
	case cpe.Subset:
		return "<"
	case cpe.Equal:
		return "="
	case cpe.Disjoint:
		return "#"
	}
	return "X"
}

func bit(b bool) string {
	if b {
		return "1"
	}
	return "0"
}

func renderCmp(rs cpe.Relations) string {
	var b strings.Builder
	for _, r := range rs {
		b.WriteString(relLetter(r))
	}
	return b.String() + " " + bit(rs.IsSuperset()) + " " + bit(rs.IsSubset()) + " " + bit(rs.IsEqual()) + " " + bit(rs.IsDisjoint())
}

// ---- the real code, one function per protocol operation ----

func implUnbind(which, s string) (out string, w cpe.WFN, ok bool) {
	out = hx.Guard(func() string {
		var err error
		switch which {
		case "unbindfs":
			w, err = cpe.UnbindFS(s)
		case "unbinduri":
			w, err = cpe.UnbindURI(s)
		case "punbind": // through the deprecated re-export package
			w, err = pcpe.Unbind(s)
		case "punbindfs":
			w, err = pcpe.UnbindFS(s)
		case "punbinduri":
			w, err = pcpe.UnbindURI(s)
		case "mustunbind": // panics exactly when Unbind returns an error
			func() {
				defer func() {
					if r := recover(); r != nil {
						if e, isErr := r.(error); isErr && e != nil {
							if _, uerr := cpe.Unbind(s); uerr != nil && uerr.Error() == e.Error() {
								err = e
								return
							}
						}
						panic(r)
					}
				}()
				w = pcpe.MustUnbind(s)
			}()
		case "unmarshal":
			err = w.UnmarshalText([]byte(s))
		case "scan":
			err = w.Scan([]byte(s))
		case "scanstr":
			err = w.Scan(s)
		default:
			w, err = cpe.Unbind(s)
		}
		if err != nil {
			return "err"
		}
		ok = true
		return "ok " + encWFN(w)
	})
	return out, w, ok
}

func implValid(w cpe.WFN) string {
	return hx.Guard(func() string {
		err := w.Valid()
		switch {
		case err == nil:
			return "ok"
		case err == cpe.ErrUnset:
			return "unset"
		}
		return "err"
	})
}

var matcher = &rhel.Matcher{}

const rhelRepoKey = "rhel-cpe-repository"

// implVulnerable: the package is below the fixed version and the
// architecture matches, so the answer is the CPE condition alone.
func implVulnerable(vulnName string, record cpe.WFN) string {
	return hx.Guard(func() string {
		rec := &claircore.IndexRecord{
			Package:    &claircore.Package{Name: "p", Version: "1.0"},
			Repository: &claircore.Repository{Key: rhelRepoKey, CPE: record},
		}
		v := &claircore.Vulnerability{
			Name:           "V",
			Package:        &claircore.Package{Name: "p"},
			Repo:           &claircore.Repository{Key: rhelRepoKey, Name: vulnName},
			FixedInVersion: "2.0",
		}
		ok, err := matcher.Vulnerable(context.Background(), rec, v)
		if err != nil {
			return "err"
		}
		return fmt.Sprint(ok)
	})
}

// exec runs one protocol line against the real code (corpus and replay).
func (h *harness) exec(line string) (string, error) {
	f := strings.Fields(line)
	if len(f) == 0 {
		return "", fmt.Errorf("empty")
	}
	str := func(i int) (string, error) {
		if i >= len(f) {
			return "", fmt.Errorf("missing argument")
		}
		b, err := hx.Unhex(f[i])
		return string(b), err
	}
	switch f[0] {
	case "reset":
		h.begin()
		return "ok", nil
	case "vname":
		s, err := str(1)
		if err != nil {
			return "", err
		}
		h.hName(s)
		return "ok", nil
	case "vheld", "vrec":
		w, err := decWFN(f[1:])
		if err != nil {
			return "", err
		}
		if f[0] == "vheld" {
			h.hHeld(w)
		} else {
			h.hRec(w)
		}
		return "ok", nil
	case "vcall":
		return h.hCall(), nil
	case "validate", "wild", "split", "unbindval", "bindval", "unbindfs", "unbinduri", "unbind", "punbind", "unmarshal", "scan", "scanstr",
		"punbindfs", "punbinduri", "mustunbind", "newvalue", "pnewvalue":
		s, err := str(1)
		if err != nil {
			return "", err
		}
		switch f[0] {
		case "validate":
			return h.opValidate(s), nil
		case "wild":
			return h.opWild(s), nil
		case "split":
			return h.opSplit(s), nil
		case "unbindval":
			return h.opUnbindVal(s), nil
		case "bindval":
			return h.opBindVal(s), nil
		case "newvalue", "pnewvalue":
			return h.opNewValue(f[0], s), nil
		default:
			out, _, _ := h.opUnbind(f[0], s)
			return out, nil
		}
	case "pat":
		a, err := str(1)
		if err != nil {
			return "", err
		}
		b, err := str(2)
		if err != nil {
			return "", err
		}
		return h.opPat(a, b), nil
	case "valid", "bindfs", "string", "marshal", "sqlvalue", "binduri":
		w, err := decWFN(f[1:])
		if err != nil {
			return "", err
		}
		return h.opName(f[0], w), nil
	case "unmarshal2", "scan2":
		s, err := str(1)
		if err != nil {
			return "", err
		}
		w, err := decWFN(f[2:])
		if err != nil {
			return "", err
		}
		out, _, _ := h.opInto(f[0], w, s)
		return out, nil
	case "cmp":
		if len(f) != 1+2*cpe.NumAttr {
			return "", fmt.Errorf("cmp wants two names")
		}
		a, err := decWFN(f[1 : 1+cpe.NumAttr])
		if err != nil {
			return "", err
		}
		b, err := decWFN(f[1+cpe.NumAttr:])
		if err != nil {
			return "", err
		}
		out, _ := h.opCmp(a, b)
		return out, nil
	case "vuln":
		s, err := str(1)
		if err != nil {
			return "", err
		}
		w, err := decWFN(f[2:])
		if err != nil {
			return "", err
		}
		return h.opVuln(s, w), nil
	}
	return "", fmt.Errorf("unknown op %q", f[0])
}

func (h *harness) opValidate(s string) string {
	out := hx.Guard(func() string {
		if cpe.ValidateForVerif(s) == nil {
			return "ok"
		}
		return "err"
	})
	h.r.Op("validate "+enc(s), out, strings.ContainsAny(s, "\\*?"))
	h.r.Count("validate:" + out)
	return out
}

func (h *harness) opWild(s string) string {
	out := hx.Guard(func() string { return fmt.Sprint(cpe.HasWildcardForVerif(s)) })
	h.r.Op("wild "+enc(s), out, strings.ContainsAny(s, "*?"))
	return out
}

func (h *harness) opSplit(s string) string {
	out := hx.Guard(func() string {
		fs := cpe.SplitFSForVerif(s)
		t := make([]string, len(fs))
		for i := range fs {
			t[i] = enc(fs[i])
		}
		return strings.Join(t, " ")
	})
	h.r.Op("split "+enc(s), out, strings.Contains(s, "\\"))
	return out
}

func (h *harness) opUnbindVal(s string) string {
	out := hx.Guard(func() string { return enc(cpe.UnbindFSValueForVerif(s)) })
	h.r.Op("unbindval "+enc(s), out, true)
	return out
}

func (h *harness) opBindVal(s string) string {
	out := hx.Guard(func() string { return enc(cpe.BindValueForVerif(cpe.Value{Kind: cpe.ValueSet, V: s})) })
	h.r.Op("bindval "+enc(s), out, strings.Contains(s, "\\"))
	return out
}

func (h *harness) opUnbind(which, s string) (string, cpe.WFN, bool) {
	out, w, ok := implUnbind(which, s)
	h.r.Op(which+" "+enc(s), out, ok || strings.Count(s, ":") > 2)
	if out == "panic" {
		h.r.Fail("", fmt.Sprintf("%s panics on %q (op: %s %s)", which, s, which, enc(s)))
	}
	if ok {
		h.r.Count(which + ":ok")
	} else {
		h.r.Count(which + ":" + out)
	}
	if out != "panic" {
		h.checkUnbindEntry(which, s, out, w, ok)
	}
	return out, w, ok
}

// checkUnbindEntry: direct checks on one unbinding call.
func (h *harness) checkUnbindEntry(which, s, out string, w cpe.WFN, ok bool) {
	// the re-export package and the other entry points are the named function
	var same string
	switch which {
	case "punbindfs":
		same = "unbindfs"
	case "punbinduri":
		same = "unbinduri"
	case "punbind", "mustunbind":
		same = "unbind"
	}
	if same != "" {
		if o2, _, _ := implUnbind(same, s); o2 != out {
			h.r.Fail("", fmt.Sprintf("%s and %s disagree on %q: %s vs %s (op: %s %s)", which, same, s, out, o2, which, enc(s)))
		}
	}
	// prefix dispatch
	if which == "unbindfs" && ok && !strings.HasPrefix(s, "cpe:2.3:") {
		h.r.Fail("", fmt.Sprintf("UnbindFS accepts %q, which does not begin with cpe:2.3: (op: unbindfs %s)", s, enc(s)))
	}
	if ok && s != "" { // (empty text leaves the receiver of UnmarshalText / Scan alone)
		if err := w.Valid(); err != nil {
			h.r.Fail("", fmt.Sprintf("%s(%q) returned the invalid name %#v: %v", which, s, w, err))
		}
	}
	if (which == "unbinduri" || (which == "unbind" && strings.HasPrefix(s, "cpe:/"))) && isASCII(s) {
		h.checkURIAssembly(which, s, w, ok)
	}
}

// uriValueAccepted: is c readable as one (non-edition) component — decided by
// the implementation itself on the two-component URI `cpe:/a:<c>`, so that
// the assembly of longer URIs is checked independently of the value decoder.
func uriValueAccepted(c string) (cpe.Value, bool) {
	if strings.Contains(c, ":") {
		return cpe.Value{}, false
	}
	w, err := cpe.UnbindURI("cpe:/a:" + c)
	if err != nil {
		return cpe.Value{}, false
	}
	return w.Attr[1], true
}

// checkURIAssembly: the structure of UnbindURI (theorem unbindURI_accepts_iff):
// prefix, at most seven colon-separated components, component i is attribute
// i, the sixth unpacked when it begins with a tilde, components left out are
// ANY, the extended attributes unset unless unpacked.
func (h *harness) checkURIAssembly(which, s string, got cpe.WFN, ok bool) {
	var want cpe.WFN
	accept := true
	why := ""
	switch {
	case !strings.HasPrefix(s, "cpe:/"):
		accept, why = false, "no cpe:/ prefix"
	default:
		comps := strings.Split(s[len("cpe:/"):], ":")
		if len(comps) > 7 {
			accept, why = false, "more than seven components"
			break
		}
		for i := 0; i < 7; i++ {
			want.Attr[i].Kind = cpe.ValueAny
		}
		for i, c := range comps {
			if i == 5 && strings.HasPrefix(c, "~") {
				for k, p := range strings.SplitN(c, "~", 6)[1:] {
					v, vok := uriValueAccepted(p)
					if !vok {
						accept, why = false, fmt.Sprintf("packed part %q", p)
					}
					want.Attr[[]int{5, 7, 8, 9, 10}[k]] = v
				}
				continue
			}
			v, vok := uriValueAccepted(c)
			if !vok {
				accept, why = false, fmt.Sprintf("component %q", c)
			}
			want.Attr[i] = v
		}
		if p := want.Attr[0]; accept && p.Kind == cpe.ValueSet && p.V != "a" && p.V != "o" && p.V != "h" {
			accept, why = false, "part "+p.V
		}
	}
	h.r.Case("uri-assembly "+s, accept)
	switch {
	case accept && !ok:
		h.r.Count("uri-assembly:wrongly-rejected")
		h.r.Fail("", fmt.Sprintf("%s rejects %q although every component is readable on its own (op: %s %s)", which, s, which, enc(s)))
	case !accept && ok:
		h.r.Count("uri-assembly:wrongly-accepted")
		h.r.Fail("", fmt.Sprintf("%s accepts %q (%s) -> %#v (op: %s %s)", which, s, why, got, which, enc(s)))
	case accept && got != want:
		h.r.Count("uri-assembly:differs")
		h.r.Fail("", fmt.Sprintf("%s(%q) = %#v, component by component it is %#v (op: %s %s)", which, s, got, want, which, enc(s)))
	case accept:
		h.r.Count("uri-assembly:accepted")
	default:
		h.r.Count("uri-assembly:rejected")
	}
}

// opNewValue: cpe.NewValue / the re-export.
func (h *harness) opNewValue(op, s string) string {
	out := hx.Guard(func() string {
		var v cpe.Value
		var err error
		if op == "pnewvalue" {
			v, err = pcpe.NewValue(s)
		} else {
			v, err = cpe.NewValue(s)
		}
		if err != nil {
			if v != (cpe.Value{}) {
				return "err-with-value"
			}
			return "err"
		}
		if v.Kind != cpe.ValueSet || v.V != s {
			return "ok-other-value"
		}
		return "ok"
	})
	h.r.Op(op+" "+enc(s), out, strings.ContainsAny(s, "\\*?"))
	h.r.Count(op + ":" + out)
	if out != "ok" && out != "err" {
		h.r.Fail("", fmt.Sprintf("%s(%q): %s", op, s, out))
	}
	return out
}

// opInto: UnmarshalText / Scan into a receiver that already holds a name.
func (h *harness) opInto(op string, w0 cpe.WFN, s string) (string, cpe.WFN, bool) {
	w := w0
	ok := false
	out := hx.Guard(func() string {
		var err error
		if op == "scan2" {
			err = w.Scan(s)
		} else {
			err = w.UnmarshalText([]byte(s))
		}
		if err != nil {
			return "err " + encWFN(w) // the receiver after the failed call
		}
		ok = true
		return "ok " + encWFN(w)
	})
	h.r.Op(op+" "+enc(s)+" "+encWFN(w0), out, true)
	h.r.Count(op + ":" + strings.Fields(out)[0])
	if out == "panic" {
		h.r.Fail("", fmt.Sprintf("%s panics on %q", op, s))
		return out, w, ok
	}
	// a rejected text leaves the receiver untouched (theorem unmarshal_error_keeps_receiver)
	if !ok && w != w0 {
		h.r.Fail("", fmt.Sprintf("%s(%q) fails and leaves the receiver %#v changed to %#v (op: %s %s %s)", op, s, w0, w, op, enc(s), encWFN(w0)))
	}
	// Scan of the same bytes behaves like Scan of the string
	if op == "scan2" {
		wb := w0
		errb := wb.Scan([]byte(s))
		if isASCII(s) && ((errb == nil) != ok || wb != w) {
			h.r.Fail("", fmt.Sprintf("Scan([]byte(%q)) into %#v gives %v %#v, Scan of the string ok=%v %#v", s, w0, errb, wb, ok, w))
		}
	}
	return out, w, ok
}

func (h *harness) opName(op string, w cpe.WFN) string {
	var out string
	switch op {
	case "valid":
		out = implValid(w)
		h.r.Count("valid:" + out)
	case "bindfs":
		out = hx.Guard(func() string { return enc(w.BindFS()) })
	case "string":
		out = hx.Guard(func() string { return enc(w.String()) })
		// String is the bound form, and empty exactly for a name without any attribute
		if want := enc(w.BindFS()); out != "panic" && ((w.Valid() == cpe.ErrUnset && out != "-") || (w.Valid() != cpe.ErrUnset && out != want)) {
			h.r.Fail("", fmt.Sprintf("String() of %#v is %s, BindFS %s, Valid: %v", w, out, want, w.Valid()))
		}
	case "marshal":
		out = hx.Guard(func() string {
			b, err := w.MarshalText()
			if err != nil {
				return "err"
			}
			return enc(string(b))
		})
	case "sqlvalue":
		out = hx.Guard(func() string {
			v, err := w.Value()
			if err != nil {
				return "err"
			}
			s, isStr := v.(string)
			if !isStr {
				return "not-a-string"
			}
			return enc(s)
		})
	case "binduri":
		// the harness's reading of bind_to_URI against the Lean reading (no implementation)
		out = enc(specBindURI(w))
	}
	h.r.Op(op+" "+encWFN(w), out, true)
	if out == "panic" {
		h.r.Fail("", fmt.Sprintf("%s panics on %#v", op, w))
	}
	return out
}

func (h *harness) opPat(s, t string) string {
	out := hx.Guard(func() string { return fmt.Sprint(cpe.PatCompareForVerif(s, t)) })
	h.r.Op("pat "+enc(s)+" "+enc(t), out, true)
	h.r.Count("pat:" + out)
	h.checkPatSpec(s, t, out)
	if out == "panic" {
		h.r.Fail("", fmt.Sprintf("patCompare panics on %q %q", s, t))
	}
	return out
}

func (h *harness) opCmp(a, b cpe.WFN) (string, cpe.Relations) { return h.opCmp2(a, b, true) }

// opCmp2: derived comparisons (case-mapped, swapped, self) are protocol lines
// too, but are not counted as distinct non-trivial cases.
func (h *harness) opCmp2(a, b cpe.WFN, primary bool) (string, cpe.Relations) {
	var rs cpe.Relations
	out := hx.Guard(func() string {
		rs = cpe.Compare(a, b)
		return renderCmp(rs)
	})
	setset := false
	for i := range a.Attr {
		if a.Attr[i].Kind == cpe.ValueSet && b.Attr[i].Kind == cpe.ValueSet {
			setset = true
		}
	}
	h.r.Op("cmp "+encWFN(a)+" "+encWFN(b), out, setset && primary)
	if out == "panic" {
		h.r.Fail("", fmt.Sprintf("Compare panics on %q %q", a.BindFS(), b.BindFS()))
		return out, rs
	}
	// the four verdicts are functions of the eleven attribute relations
	sup, sub, eq, dis := true, true, true, false
	for _, r := range rs {
		sup = sup && (r == cpe.Equal || r == cpe.Superset)
		sub = sub && (r == cpe.Equal || r == cpe.Subset)
		eq = eq && r == cpe.Equal
		dis = dis || r == cpe.Disjoint
	}
	if sup != rs.IsSuperset() || sub != rs.IsSubset() || eq != rs.IsEqual() || dis != rs.IsDisjoint() {
		h.r.Fail("", fmt.Sprintf("verdicts %s do not follow from the attribute relations (superset %v subset %v equal %v disjoint %v); source=%q target=%q (op: cmp %s %s)",
			out, sup, sub, eq, dis, a.BindFS(), b.BindFS(), encWFN(a), encWFN(b)))
	}
	return out, rs
}

func (h *harness) opVuln(name string, record cpe.WFN) string {
	out := implVulnerable(name, record)
	h.r.Op("vuln "+enc(name)+" "+encWFN(record), out, true)
	h.r.Count("vuln:" + out)
	if out == "panic" {
		h.r.Fail("", fmt.Sprintf("rhel Matcher.Vulnerable panics on advisory CPE %q", name))
		return out
	}
	// the CPE condition is: the advisory's name unbinds, and it is a superset of
	// the repository's name or its bound string without the trailing ":*" is a
	// prefix of the repository's bound string
	want := false
	sup, prefix := false, false
	if src, err := cpe.Unbind(name); err == nil {
		sup = cpe.Compare(src, record).IsSuperset()
		prefix = strings.HasPrefix(record.String(), strings.TrimRight(src.String(), ":*"))
		want = sup || prefix
	}
	if fmt.Sprint(want) != out {
		h.r.Fail("", fmt.Sprintf("rhel Vulnerable=%s but superset=%v prefix=%v for advisory %q record %q (op: vuln %s %s)", out, sup, prefix, name, record.BindFS(), enc(name), encWFN(record)))
	}
	return out
}

// begin marks the start of one generated case: the lines up to the next
// marker are what a failure report carries as its replayable scenario.
func (h *harness) begin() {
	h.r.Op("reset", "ok", false)
	h.ho = nil
}

// ---- direct checks of the statement ----

// norm is what a formatted string can carry of a name: unset reads back as
// ANY, and the string of a non-set value is dropped.
func norm(w cpe.WFN) cpe.WFN {
	var n cpe.WFN
	for i, a := range w.Attr {
		switch a.Kind {
		case cpe.ValueUnset, cpe.ValueAny:
			n.Attr[i].Kind = cpe.ValueAny
		case cpe.ValueNA:
			n.Attr[i].Kind = cpe.ValueNA
		default:
			n.Attr[i] = a
		}
	}
	return n
}

// checkRoundTrip: a valid name binds to a formatted string that unbinds to
// the same name (up to unset ≡ ANY).
func (h *harness) checkRoundTrip(w cpe.WFN) {
	if w.Valid() != nil {
		return
	}
	fs := w.BindFS()
	want := norm(w)
	for _, which := range []string{"unbind", "unbindfs"} {
		out, got, ok := h.opUnbind(which, fs)
		h.r.Case("roundtrip "+fs, true)
		if out == "panic" {
			continue
		}
		if ok && got == want {
			h.r.Count("roundtrip:same")
			continue
		}
		class := ""
		if ok {
			class = explainRoundTrip(want, got)
		}
		h.r.Count("roundtrip:differs")
		h.r.Fail(class, fmt.Sprintf("valid name %#v binds to %q which unbinds (%s) to ok=%v %#v", w, fs, which, ok, got))
	}
	// a name within the naming specification binds to a formatted string of its ABNF
	strictName := true
	for _, a := range w.Attr {
		if a.Kind == cpe.ValueSet && strict1(a.V) != nil {
			strictName = false
		}
	}
	if strictName {
		h.r.Count("roundtrip:strict-name")
		if strict, reasons := classifyFS(fs); !strict && !(len(reasons) == 1 && reasons[0] == lenLanguage) {
			h.r.Fail("", fmt.Sprintf("name %#v binds to %q, which is not a formatted string of the specification: %v", w, fs, reasons))
		}
	}
	// MarshalText / String agree with BindFS on valid names
	if b, err := w.MarshalText(); err != nil || string(b) != fs || w.String() != fs {
		h.r.Fail("", fmt.Sprintf("valid name %#v: MarshalText=%q,%v String=%q BindFS=%q", w, b, err, w.String(), fs))
	}
}

// explainRoundTrip names the listed finding that accounts for every attribute
// in which the name read back differs from the name bound, or "".
func explainRoundTrip(want, got cpe.WFN) string {
	class := ""
	for i := range want.Attr {
		a, b := want.Attr[i], got.Attr[i]
		if a == b {
			continue
		}
		var c string
		switch {
		case a.Kind == cpe.ValueSet && b.Kind == cpe.ValueSet && strings.Contains(a.V, "\\_") && replaceQuotedUnderscore(a.V) == b.V:
			c = rtUnderscore // a quoted underscore is bound unquoted
		default:
			return ""
		}
		if class == "" {
			class = c
		}
	}
	return class
}

// replaceQuotedUnderscore rewrites `\_` to `_` token-wise.
func replaceQuotedUnderscore(s string) string {
	var b strings.Builder
	for i := 0; i < len(s); i++ {
		if s[i] == '\\' && i+1 < len(s) {
			if s[i+1] == '_' {
				b.WriteByte('_')
			} else {
				b.WriteByte('\\')
				b.WriteByte(s[i+1])
			}
			i++
			continue
		}
		b.WriteByte(s[i])
	}
	return b.String()
}

// checkAcceptFS: the unbinder accepts exactly the formatted strings of the
// specification (spec.go); every way it is more lenient is a listed finding.
func (h *harness) checkAcceptFS(s string, w cpe.WFN, accepted bool) {
	if !strings.HasPrefix(s, "cpe:2.3:") {
		return
	}
	strict, reasons := classifyFS(s)
	h.r.Case("accept "+s, strict || accepted)
	must := false
	for _, r := range reasons {
		if r == mustReject {
			must = true
		}
	}
	switch {
	case strict && !accepted:
		h.r.Count("accept:strict-rejected")
		h.r.Fail("", fmt.Sprintf("formatted string of the specification is rejected: %q (op: unbind %s)", s, enc(s)))
	case strict && accepted:
		h.r.Count("accept:strict-accepted")
		if got := w.BindFS(); got != s {
			h.r.Fail("", fmt.Sprintf("formatted string %q unbinds to %#v which binds to %q", s, w, got))
		}
		if err := w.Valid(); err != nil {
			h.r.Fail("", fmt.Sprintf("Unbind(%q) returned an invalid name: %v", s, err))
		}
	case accepted && must:
		h.r.Count("accept:malformed-accepted")
		h.r.Fail("", fmt.Sprintf("malformed formatted string is accepted: %q -> %#v (op: unbind %s)", s, w, enc(s)))
	case accepted:
		for _, r := range reasons {
			h.r.Count("accept:lenient:" + r)
		}
		if len(reasons) == 1 && reasons[0] != specialOpen {
			h.r.Fail(reasons[0], fmt.Sprintf("%q is accepted -> %q", s, w.BindFS()))
		}
		if err := w.Valid(); err != nil {
			h.r.Fail("", fmt.Sprintf("Unbind(%q) returned an invalid name: %v", s, err))
		}
	case must:
		h.r.Count("accept:malformed-rejected")
	default:
		h.r.Count("accept:lenient-shape-rejected")
	}
}

func mirror(r cpe.Relation) cpe.Relation {
	switch r {
	case cpe.Superset:
		return cpe.Subset
	case cpe.Subset:
		return cpe.Superset
	}
	return r
}

func wildFree(w cpe.WFN) bool {
	for _, a := range w.Attr {
		if a.Kind == cpe.ValueSet && unquotedWildcard(a.V) {
			return false
		}
	}
	return true
}

func mapCase(w cpe.WFN, up bool) cpe.WFN {
	for i := range w.Attr {
		if up {
			w.Attr[i].V = strings.ToUpper(w.Attr[i].V)
		} else {
			w.Attr[i].V = strings.ToLower(w.Attr[i].V)
		}
	}
	return w
}

// checkCompare: the laws of the matching specification on one pair.
func (h *harness) checkCompare(a, b cpe.WFN) {
	_, ab := h.opCmp(a, b)
	h.r.Case("laws "+a.BindFS()+" "+b.BindFS(), true)
	desc := func() string {
		return fmt.Sprintf("source=%q target=%q (op: cmp %s %s)", a.BindFS(), b.BindFS(), encWFN(a), encWFN(b))
	}
	// attribute table
	for i := range a.Attr {
		s, t := a.Attr[i], b.Attr[i]
		sAny := s.Kind == cpe.ValueAny || s.Kind == cpe.ValueUnset
		tAny := t.Kind == cpe.ValueAny || t.Kind == cpe.ValueUnset
		sWild := s.Kind == cpe.ValueSet && unquotedWildcard(s.V)
		tWild := t.Kind == cpe.ValueSet && unquotedWildcard(t.V)
		h.r.Count("cmp:rel:" + relLetter(ab[i]))
		if tWild {
			h.r.Count("cmp:target-wildcard")
			continue // undefined by the specification
		}
		if !sWild && ((s.Kind == cpe.ValueSet && stripQuotedAlnum(s.V) != s.V) || (t.Kind == cpe.ValueSet && stripQuotedAlnum(t.V) != t.V)) {
			// a quoting the naming specification does not provide for (finding
			// fs-quoted-nonpunctuation): whether `\a` equals `a` is left open for
			// the plain comparison; the pattern matcher compares unquoted
			h.r.Count("cmp:skipped-quoted-alphanumeric")
			continue
		}
		var want cpe.Relation
		switch {
		case sAny && tAny:
			want = cpe.Equal
		case sAny:
			want = cpe.Superset // ANY is a superset of NA and of every value
		case s.Kind == cpe.ValueNA && tAny:
			want = cpe.Subset
		case s.Kind == cpe.ValueNA && t.Kind == cpe.ValueNA:
			want = cpe.Equal
		case s.Kind == cpe.ValueNA:
			want = cpe.Disjoint // NA is disjoint from every set value
		case tAny:
			want = cpe.Subset
		case t.Kind == cpe.ValueNA:
			want = cpe.Disjoint
		case sWild:
			if specMatches(s.V, t.V) {
				want = cpe.Superset
				h.r.Count("cmp:pattern:match")
			} else {
				want = cpe.Disjoint
				h.r.Count("cmp:pattern:nomatch")
			}
		default:
			if string(unquote(s.V)) == string(unquote(t.V)) {
				want = cpe.Equal
				h.r.Count("cmp:plain:equal")
			} else {
				want = cpe.Disjoint
				h.r.Count("cmp:plain:differ")
			}
		}
		if ab[i] == want {
			continue
		}
		h.r.Fail("", fmt.Sprintf("attribute %d: Compare gives %s, the matching specification %s; %s", i, relLetter(ab[i]), relLetter(want), desc()))
	}
	// identical names are equal
	if wildFree(a) {
		if _, aa := h.opCmp2(a, a, false); !aa.IsEqual() {
			h.r.Fail("", fmt.Sprintf("identical names are not equal: %q (op: cmp %s %s)", a.BindFS(), encWFN(a), encWFN(a)))
		}
	}
	// comparison is case-insensitive
	for _, up := range []bool{true, false} {
		if _, r := h.opCmp2(mapCase(a, up), b, false); r != ab {
			h.r.Fail("", fmt.Sprintf("case of the source changes the verdict: %s", desc()))
		}
		if _, r := h.opCmp2(a, mapCase(b, up), false); r != ab {
			h.r.Fail("", fmt.Sprintf("case of the target changes the verdict: %s", desc()))
		}
	}
	// mirror image
	if wildFree(a) && wildFree(b) {
		_, ba := h.opCmp2(b, a, false)
		for i := range ab {
			if ba[i] != mirror(ab[i]) {
				h.r.Fail("", fmt.Sprintf("attribute %d: %s one way, %s the other; %s", i, relLetter(ab[i]), relLetter(ba[i]), desc()))
			}
		}
		if ab.IsSuperset() != ba.IsSubset() || ab.IsSubset() != ba.IsSuperset() || ab.IsEqual() != ba.IsEqual() || ab.IsDisjoint() != ba.IsDisjoint() {
			h.r.Fail("", fmt.Sprintf("superset/subset verdicts are not mirror images: %s", desc()))
		}
		h.r.Count("cmp:mirror-checked")
	}
	if ab.IsEqual() && !(ab.IsSuperset() && ab.IsSubset()) {
		h.r.Fail("", "equal but not superset and subset: "+desc())
	}
	if ab.IsDisjoint() && (ab.IsSuperset() || ab.IsSubset() || ab.IsEqual()) {
		h.r.Fail("", "disjoint and also superset/subset/equal: "+desc())
	}
}

// stripQuotedAlnum removes the backslash before letters, digits and the
// underscore (a quoting the naming specification does not provide for).
func stripQuotedAlnum(s string) string {
	var b strings.Builder
	for i := 0; i < len(s); i++ {
		if s[i] == '\\' && i+1 < len(s) {
			if !(isAlnum(s[i+1]) || s[i+1] == '_') {
				b.WriteByte('\\')
			}
			b.WriteByte(s[i+1])
			i++
			continue
		}
		b.WriteByte(s[i])
	}
	return b.String()
}

// checkGate: rhel's matcher decides through this comparison.
func (h *harness) checkGate(vuln, record cpe.WFN) {
	if vuln.Valid() != nil {
		return
	}
	name := vuln.BindFS()
	out := h.opVuln(name, record)
	h.r.Case("gate "+name+" "+record.BindFS(), true)
	src, err := cpe.Unbind(name)
	if err != nil {
		if out != "false" {
			h.r.Fail("", fmt.Sprintf("advisory CPE %q does not unbind but Vulnerable says %s", name, out))
		}
		return
	}
	sup := cpe.Compare(src, record).IsSuperset()
	prefix := strings.HasPrefix(record.String(), strings.TrimRight(src.String(), ":*"))
	if fmt.Sprint(sup || prefix) != out {
		h.r.Fail("", fmt.Sprintf("rhel Vulnerable=%s but superset=%v prefix=%v for advisory %q record %q", out, sup, prefix, name, record.BindFS()))
	}
	switch {
	case sup:
		h.r.Count("gate:superset")
	case prefix:
		h.r.Count("gate:prefix-only")
	default:
		h.r.Count("gate:no")
	}
}

// checkURIRoundTrip: binding a name to a CPE 2.2 URI as the naming
// specification prescribes (the package has no URI binder) and unbinding it
// with UnbindURI gives the name back (an attribute that the URI omits reads
// as ANY; the four extended attributes stay unset when the edition is not packed).
func (h *harness) checkURIRoundTrip(w cpe.WFN) {
	if w.Valid() != nil {
		return
	}
	var comp [cpe.NumAttr]string
	for i, a := range w.Attr {
		switch a.Kind {
		case cpe.ValueUnset, cpe.ValueAny:
		case cpe.ValueNA:
			comp[i] = "-"
		default:
			t, ok := specTransformForURI(a.V)
			if !ok || t == "" || strict1(a.V) != nil {
				h.r.Count("uri-roundtrip:skipped")
				return
			}
			comp[i] = t
		}
	}
	packed := comp[7] != "" || comp[8] != "" || comp[9] != "" || comp[10] != ""
	ed := comp[5]
	if packed {
		ed = "~" + comp[5] + "~" + comp[7] + "~" + comp[8] + "~" + comp[9] + "~" + comp[10]
	}
	uri := "cpe:/" + strings.TrimRight(strings.Join([]string{comp[0], comp[1], comp[2], comp[3], comp[4], ed, comp[6]}, ":"), ":")
	if u2 := specBindURI(w); u2 != uri {
		h.r.Fail("", fmt.Sprintf("harness: two constructions of the URI of %q differ: %q %q", w.BindFS(), uri, u2))
	}
	h.opName("binduri", w)
	var want cpe.WFN
	for i, a := range w.Attr {
		switch {
		case a.Kind == cpe.ValueSet || a.Kind == cpe.ValueNA:
			want.Attr[i] = cpe.Value{Kind: a.Kind, V: a.V}
			if a.Kind == cpe.ValueNA {
				want.Attr[i].V = ""
			}
		case i < 7 || packed:
			want.Attr[i].Kind = cpe.ValueAny
		}
	}
	out, got, ok := h.opUnbind("unbinduri", uri)
	h.r.Case("uri-roundtrip "+uri, true)
	if out == "panic" {
		return
	}
	if !ok || got != want {
		h.r.Count("uri-roundtrip:differs")
		h.r.Fail("", fmt.Sprintf("name %q binds (NISTIR 7695 6.1.2) to the URI %q, which UnbindURI reads as ok=%v %#v", w.BindFS(), uri, ok, got))
		return
	}
	if packed {
		h.r.Count("uri-roundtrip:same-packed")
	} else {
		h.r.Count("uri-roundtrip:same")
	}
}

// specBindURI is bind_to_URI of NISTIR 7695 6.1.2 (the package has no URI
// binder): the seven components, the edition packed with the four extended
// attributes when one of them is not ANY, trailing colons trimmed.
func specBindURI(w cpe.WFN) string {
	var b [cpe.NumAttr]string
	for i, a := range w.Attr {
		b[i] = specBindValueForURI(kindLetter(a.Kind)[0], a.V)
	}
	s := b[0] + ":" + b[1] + ":" + b[2] + ":" + b[3] + ":" + b[4] + ":" + specPack(b[5], b[7], b[8], b[9], b[10]) + ":" + b[6] + ":"
	return "cpe:/" + strings.TrimRight(s, ":")
}

// strict1 says whether one value string is an attribute value of the naming
// specification (body not empty, only punctuation and specials quoted).
func strict1(v string) error {
	bound := strings.NewReplacer("\\\\", "\\\\", "\\.", ".", "\\-", "-").Replace(v)
	if strict, _ := classifyAV(bound); !strict || bound == "*" || bound == "-" {
		return fmt.Errorf("not strict")
	}
	return nil
}

// ---- known findings: fixed witnesses, replayed on every run ----

func mkName(vals map[int]string) cpe.WFN {
	var w cpe.WFN
	w.Attr[0] = cpe.Value{Kind: cpe.ValueSet, V: "a"}
	for i, v := range vals {
		w.Attr[i] = cpe.Value{Kind: cpe.ValueSet, V: v}
	}
	return w
}

func (h *harness) replayKnown() {
	// quoted underscore does not survive binding
	w := mkName(map[int]string{1: "foo\\_bar"})
	if w.Valid() == nil {
		if got, err := cpe.Unbind(w.BindFS()); err == nil && got != norm(w) {
			h.r.KnownSeen(rtUnderscore, fmt.Sprintf("vendor %q binds to %q and unbinds to vendor %q", "foo\\_bar", w.BindFS(), got.Attr[1].V))
		}
	}
	// f1b06d69: a set value with the empty string is not valid any more
	w = mkName(map[int]string{1: ""})
	if err := w.Valid(); err == nil {
		h.r.Fail("", fmt.Sprintf("vendor Value{Kind: ValueSet, V: \"\"} is Valid; it binds to %q, which unbinds to an unset vendor", w.BindFS()))
	}
	if _, err := cpe.NewValue(""); err == nil {
		h.r.Fail("", `cpe.NewValue("") succeeds: a set value with the empty string`)
	}
	for _, k := range []struct{ id, s string }{
		{lenFewer, "cpe:2.3:a:b"},
		{lenEmpty, "cpe:2.3:a::c:*:*:*:*:*:*:*:*"},
		{lenUnquoted, "cpe:2.3:a:b!c:*:*:*:*:*:*:*:*:*"},
		{lenQuoted, "cpe:2.3:a:\\b:*:*:*:*:*:*:*:*:*"},
		{lenSpecial, "cpe:2.3:a:**:*:*:*:*:*:*:*:*:*"},
		{lenLanguage, "cpe:2.3:a:b:c:d:e:f:notalanguage:*:*:*:*"},
	} {
		if w, err := cpe.Unbind(k.s); err == nil {
			if _, rs := classifyFS(k.s); len(rs) == 1 && rs[0] == k.id {
				h.r.KnownSeen(k.id, fmt.Sprintf("%q is accepted -> %q", k.s, w.BindFS()))
			}
		}
	}
	// 33457076: non-ASCII runes that lower-case to ASCII letters are rejected
	for _, u := range []string{"cpe:/a:\u212a", "cpe:/a:x\u0130", "cpe:/a:b:c:d:e:~\u212a~a"} {
		if w, err := cpe.UnbindURI(u); err == nil {
			h.r.Fail("", fmt.Sprintf("UnbindURI accepts the non-ASCII URI %q -> %q", u, w.BindFS()))
		}
	}
}

// ---- corpus ----

func (h *harness) runCorpus() error {
	if h.cfg.Corpus == "" {
		return nil
	}
	files, _ := filepath.Glob(filepath.Join(h.cfg.Corpus, "*.ops"))
	sort.Strings(files)
	for _, fn := range files {
		f, err := os.Open(fn)
		if err != nil {
			return err
		}
		sc := bufio.NewScanner(f)
		sc.Buffer(make([]byte, 1<<20), 1<<20)
		for sc.Scan() {
			line := strings.TrimSpace(sc.Text())
			if line == "" || strings.HasPrefix(line, "#") {
				continue
			}
			if _, err := h.exec(line); err != nil {
				f.Close()
				return fmt.Errorf("%s: %q: %w", fn, line, err)
			}
			h.r.Count("corpus-lines")
		}
		f.Close()
	}
	return nil
}

// Run is the harness entry point.
func Run(cfg hx.Config) error {
	nop := zerolog.Nop()
	zlog.Set(&nop)
	r, err := hx.NewRun(cfg)
	if err != nil {
		return err
	}
	defer r.Close()
	h := &harness{r: r, g: &gen{r: hx.NewRand(cfg.Seed)}, cfg: cfg}
	r.Rule = "names: every kind in every position, values over the full alphabet (quoted punctuation, escaped specials, leading/trailing * and ? runs, 7% defective); " +
		"strings: ABNF formatted strings, 1-3 byte mutations of them, loose formatted strings with 0-13 components, CPE 2.2 URIs with packed editions and percent forms; " +
		"pairs: second name derived from the first over shared stems (case flips, patterns cut from the value, kind changes), each attribute checked against the matching table and glob semantics; " +
		"non-trivial = the case reaches quoting/wildcard/set-set logic (distinct protocol lines are counted)"
	r.Notes["toolkit"] = "github.com/quay/claircore/toolkit => working tree (replace directive), not v1.2.4 from the module cache"
	if err := h.runCorpus(); err != nil {
		return err
	}
	h.replayKnown()
	h.exhaustiveKinds()
	h.checkNonASCII()
	h.histories()
	h.dictionary()

	g := h.g
	// attribute values
	for i, n := 0, cfg.N(5000, 300000); i < n && !r.Stop(); i++ {
		var s string
		if g.r.Chance(2, 3) {
			s = g.validValue()
		} else {
			s = g.brokenValue()
		}
		h.opValidate(s)
		if i%4 == 1 {
			h.opNewValue("newvalue", s)
			h.opNewValue("pnewvalue", s)
		}
		if i%3 == 0 {
			h.opWild(s)
			h.opBindVal(s)
			if isASCII(s) {
				// unbindFSValue re-encodes invalid UTF-8 (U+FFFD); such values are
				// rejected by validate afterwards, which the unbind ops cover
				h.opUnbindVal(s)
			}
		}
	}
	// names
	for i, n := 0, cfg.N(2500, 150000); i < n && !r.Stop(); i++ {
		h.begin()
		w := g.wfn()
		if i%2 == 0 {
			w = g.cleanWFN()
		}
		h.opName("valid", w)
		h.opName("bindfs", w)
		h.opName("string", w)
		h.opName("marshal", w)
		h.checkRoundTrip(w)
		h.checkURIRoundTrip(w)
		if i%2 == 1 || i%8 == 0 {
			h.opName("binduri", w)
			other := cpe.WFN{}
			if g.r.Chance(2, 3) {
				other = g.cleanWFN()
			}
			h.checkMarshal(w, other)
			// text that does not unbind, into an occupied receiver
			if i%4 == 1 {
				h.opInto("unmarshal2", other, g.mutate(g.strictFS()))
				h.opInto("scan2", other, g.mutate(g.uri()))
				h.opInto("scan2", other, g.mutate(g.strictFS()))
				h.opInto("unmarshal2", other, g.looseFS())
			}
		}
	}
	// strings into the unbinders
	for i, n := 0, cfg.N(6000, 400000); i < n && !r.Stop(); i++ {
		var s string
		switch i % 6 {
		case 0:
			s = g.strictFS()
			r.Count("strings:abnf")
		case 1, 2:
			s = g.mutate(g.strictFS())
			r.Count("strings:mutated")
		case 3:
			s = g.looseFS()
			r.Count("strings:loose")
		case 4:
			s = g.uri()
			r.Count("strings:uri")
		case 5:
			s = g.mutate(g.uri())
			r.Count("strings:uri-mutated")
		}
		h.begin()
		out0, w, ok := h.opUnbind("unbind", s)
		h.checkAcceptFS(s, w, ok)
		if strings.HasPrefix(s, "cpe:/") {
			h.opUnbind("unbinduri", s)
		} else if i%4 == 0 {
			h.opUnbind("unbindfs", s)
			h.opUnbind("unbinduri", s)
			h.opSplit(s)
		}
		if i%5 == 0 {
			// the other entry points are the same function
			for _, which := range []string{"punbind", "unmarshal", "scan", "scanstr", "mustunbind"} {
				if o2, _, _ := h.opUnbind(which, s); s != "" && o2 != out0 {
					r.Fail("", fmt.Sprintf("%s and Unbind disagree on %q: %s vs %s", which, s, o2, out0))
				}
			}
		}
		if i%7 == 0 {
			h.opUnbind("punbindfs", s)
			h.opUnbind("punbinduri", s)
		}
		if i%6 == 3 || i%12 == 5 {
			// the string as the advisory's repository name: one that does not
			// unbind reports nothing
			rec := g.cleanWFN()
			if ok && g.r.Chance(1, 2) {
				rec = w
			}
			if v := h.opVuln(s, rec); !ok && v != "false" {
				r.Fail("", fmt.Sprintf("advisory CPE %q does not unbind but Vulnerable says %s for the repository %q", s, v, rec.BindFS()))
			}
		}
		if ok && w.Valid() == nil {
			// what was accepted binds and unbinds to itself
			if got, err := cpe.Unbind(w.BindFS()); err != nil || got != norm(w) {
				cls := ""
				if err == nil {
					cls = explainRoundTrip(norm(w), got)
				}
				r.Fail(cls, fmt.Sprintf("Unbind(%q) = %#v, which binds to %q and unbinds to %#v, %v", s, w, w.BindFS(), got, err))
			}
		}
	}
	// patterns
	for i, n := 0, cfg.N(6000, 400000); i < n && !r.Stop(); i++ {
		t := g.stemValue(false)
		var s string
		if g.r.Chance(2, 3) {
			s = g.patternFor(t)
		} else {
			s = g.stemValue(true)
		}
		if g.r.Chance(1, 20) {
			s = g.validValue()
		}
		if g.r.Chance(1, 20) {
			t = g.validValue()
		}
		h.opPat(s, t)
		r.Count("pat:shape:" + patShape(s))
	}
	// pairs
	for i, n := 0, cfg.N(2500, 150000); i < n && !r.Stop(); i++ {
		h.begin()
		a, b := g.pair()
		h.checkCompare(a, b)
		if i%3 == 0 {
			h.checkGate(a, b)
		}
	}
	// advisory-style patterns for the rhel gate
	for i, n := 0, cfg.N(600, 40000); i < n && !r.Stop(); i++ {
		rec := mkName(map[int]string{1: "redhat", 2: g.r.Pick("openshift", "enterprise_linux", "rhel_eus"), 3: g.r.Pick("4", "4\\.13", "4\\.1", "8", "8\\.4"), 5: g.r.Pick("el8", "el9", "baseos")})
		v := rec
		switch g.r.Intn(5) {
		case 0:
			v.Attr[3] = cpe.Value{Kind: cpe.ValueSet, V: g.r.Pick("4", "4\\.*", "8", "4\\.1", "*")}
			if v.Attr[3].V == "*" {
				v.Attr[3] = cpe.Value{Kind: cpe.ValueAny}
			}
			v.Attr[5] = cpe.Value{}
		case 1:
			v.Attr[5] = cpe.Value{}
		case 2:
			v.Attr[2].V = g.r.Pick("openshift", "open", "enterprise_linux")
			v.Attr[3] = cpe.Value{}
			v.Attr[5] = cpe.Value{}
		case 3:
			v.Attr[3].V = flipCase(g.r, v.Attr[3].V)
		}
		h.begin()
		h.checkGate(v, rec)
	}
	return nil
}

// patShape names the wildcards at the two ends of a pattern.
func patShape(s string) string {
	end := func(c byte, run bool) string {
		switch {
		case c == '*':
			return "star"
		case c == '?' && run:
			return "qq"
		case c == '?':
			return "q"
		}
		return "none"
	}
	if s == "" {
		return "empty"
	}
	lead := end(s[0], len(s) > 1 && s[1] == '?')
	trail := "none"
	if len(s) > 1 && !(len(s) >= 2 && s[len(s)-2] == '\\') {
		trail = end(s[len(s)-1], len(s) > 2 && s[len(s)-2] == '?')
	}
	q := ""
	if strings.Contains(s, "\\") {
		q = "+quoted"
	}
	return lead + "-" + trail + q
}

func isASCII(s string) bool {
	for i := 0; i < len(s); i++ {
		if s[i] >= 0x80 {
			return false
		}
	}
	return true
}

// exhaustiveKinds: every (source kind, target kind) pair with and without
// wildcards on one attribute, in every attribute position.
func (h *harness) exhaustiveKinds() {
	vals := []cpe.Value{
		{Kind: cpe.ValueUnset}, {Kind: cpe.ValueAny}, {Kind: cpe.ValueNA},
		{Kind: cpe.ValueSet, V: "foo"}, {Kind: cpe.ValueSet, V: "FOO"}, {Kind: cpe.ValueSet, V: "bar"},
		{Kind: cpe.ValueSet, V: "fo*"}, {Kind: cpe.ValueSet, V: "*oo"}, {Kind: cpe.ValueSet, V: "?oo"}, {Kind: cpe.ValueSet, V: "b??"},
		{Kind: cpe.ValueSet, V: "f\\*o"}, {Kind: cpe.ValueUnset, V: "x*"}, {Kind: cpe.ValueAny, V: "?"},
	}
	for pos := 1; pos < cpe.NumAttr; pos++ {
		for _, s := range vals {
			for _, t := range vals {
				h.begin()
				a := mkName(nil)
				b := mkName(nil)
				a.Attr[pos], b.Attr[pos] = s, t
				if pos == 1 || (a.Valid() == nil && b.Valid() == nil) {
					if a.Valid() == nil && b.Valid() == nil {
						h.checkCompare(a, b)
					} else {
						h.opCmp(a, b)
					}
				}
			}
		}
	}
}
