package c19

import (
	"strings"

	"github.com/quay/claircore/toolkit/types/cpe"
	"github.com/quay/claircore/verifharness/internal/hx"
)

const lowerAlnum = "abcdefghijklmnopqrstuvwxyz0123456789"
const upperAlpha = "ABCDEFGHIJKLMNOPQRSTUVWXYZ"

// stems the comparison generators draw from, so that equal / folded /
// pattern-matching pairs are frequent.
var stems = []string{"foo", "bar", "foobar", "barfoo", "fo", "o", "8", "el8", "4\\.13", "4\\.1", "4", "openshift", "red_hat",
	"a\\+b", "x\\*y", "sp\\?", "8\\.\\*", "b\\\\c", "abab", "aab", "baa", "enterprise_linux", "1\\.0\\.0", "1\\.", "\\.1"}

type gen struct {
	r *hx.Rand
}

func (g *gen) pick(s string) byte { return s[g.r.Intn(len(s))] }

// bodyTok appends one body token of a WFN value string.
func (g *gen) bodyTok(b *strings.Builder) {
	switch x := g.r.Intn(100); {
	case x < 55:
		b.WriteByte(g.pick(lowerAlnum))
	case x < 62:
		b.WriteByte(g.pick(upperAlpha))
	case x < 68:
		b.WriteByte('_')
	case x < 76:
		b.WriteString("\\.")
	case x < 81:
		b.WriteString("\\-")
	case x < 90:
		b.WriteByte('\\')
		b.WriteByte(g.pick(puncChars))
	case x < 93:
		b.WriteString("\\\\")
	case x < 96:
		b.WriteString("\\*")
	case x < 99:
		b.WriteString("\\?")
	default:
		b.WriteString("\\_") // quoted underscore: allowed by validate, does not survive binding
	}
}

func (g *gen) special(b *strings.Builder) {
	switch x := g.r.Intn(100); {
	case x < 64:
	case x < 80:
		b.WriteByte('*')
	default:
		b.WriteString(strings.Repeat("?", 1+g.r.Intn(3)))
	}
}

// validValue is a value string following the naming rules (specials at the
// ends only, everything else quoted as required).
func (g *gen) validValue() string {
	var b strings.Builder
	if g.r.Chance(1, 4) {
		// built around a stem
		g.special(&b)
		b.WriteString(stems[g.r.Intn(len(stems))])
		g.special(&b)
		return b.String()
	}
	g.special(&b)
	n := 1 + g.r.Intn(7)
	if g.r.Chance(1, 40) {
		n = 0
	}
	for i := 0; i < n; i++ {
		g.bodyTok(&b)
	}
	g.special(&b)
	s := b.String()
	if s == "*" || s == "" {
		return "x"
	}
	return s
}

// brokenValue is a value string with one defect.
func (g *gen) brokenValue() string {
	s := g.validValue()
	pos := g.r.Intn(len(s) + 1)
	ins := ""
	switch g.r.Intn(12) {
	case 0:
		ins = string(g.pick(puncChars + "-.")) // unquoted punctuation
	case 1:
		ins = "*"
	case 2:
		ins = "?"
	case 3:
		return s + "\\" // dangling escape
	case 4:
		ins = " "
	case 5:
		ins = string([]byte{byte(0x7f + g.r.Intn(0x81))})
	case 6:
		ins = string([]byte{byte(1 + g.r.Intn(8))})
	case 7:
		// a quoted control character, white space, DEL or non-ASCII byte
		ins = "\\" + string([]byte{[]byte("\x01\x02\x03\x04\x05\x06\x07\x08\t\n\v\f\r \x1f\x7f\x80\xff")[g.r.Intn(18)]})
	case 8:
		return g.r.Pick("*", "\\-", "**", "?", "??", "?*", "*?", "-", "", "\\")
	case 9:
		ins = "\\" + string(g.pick(lowerAlnum)) // quoted alphanumeric
	case 10:
		ins = "\\\\" // quoted backslash in a random place (often splitting another pair)
	case 11:
		ins = "\t"
	}
	return s[:pos] + ins + s[pos:]
}

func (g *gen) value() cpe.Value {
	switch x := g.r.Intn(100); {
	case x < 15:
		return cpe.Value{Kind: cpe.ValueUnset}
	case x < 38:
		return cpe.Value{Kind: cpe.ValueAny}
	case x < 48:
		return cpe.Value{Kind: cpe.ValueNA}
	case x < 94:
		return cpe.Value{Kind: cpe.ValueSet, V: g.validValue()}
	case x < 99:
		return cpe.Value{Kind: cpe.ValueSet, V: g.brokenValue()}
	default:
		// a non-set kind carrying a string (possible for names built in code)
		k := []cpe.ValueKind{cpe.ValueUnset, cpe.ValueAny, cpe.ValueNA}[g.r.Intn(3)]
		if g.r.Chance(1, 2) {
			return cpe.Value{Kind: k, V: g.validValue()}
		}
		return cpe.Value{Kind: k, V: g.brokenValue()}
	}
}

func (g *gen) part() cpe.Value {
	switch x := g.r.Intn(100); {
	case x < 70:
		return cpe.Value{Kind: cpe.ValueSet, V: g.r.Pick("a", "o", "h")}
	case x < 80:
		return cpe.Value{Kind: cpe.ValueAny}
	case x < 86:
		return cpe.Value{Kind: cpe.ValueNA}
	case x < 92:
		return cpe.Value{Kind: cpe.ValueUnset}
	default:
		return cpe.Value{Kind: cpe.ValueSet, V: g.r.Pick("x", "A", "ao", "\\a", "?", "*a", "")}
	}
}

// wfn: a name with every kind possible in every position.
func (g *gen) wfn() cpe.WFN {
	var w cpe.WFN
	w.Attr[0] = g.part()
	switch g.r.Intn(12) {
	case 0:
		// sparse: mostly unset/any
		for i := 1; i < cpe.NumAttr; i++ {
			if g.r.Chance(1, 4) {
				w.Attr[i] = g.value()
			} else if g.r.Chance(1, 2) {
				w.Attr[i] = cpe.Value{Kind: cpe.ValueAny}
			}
		}
	case 1:
		if g.r.Chance(1, 3) {
			return cpe.WFN{} // the zero name
		}
		for i := 1; i < cpe.NumAttr; i++ {
			w.Attr[i] = cpe.Value{Kind: cpe.ValueSet, V: g.validValue()}
		}
	default:
		for i := 1; i < cpe.NumAttr; i++ {
			w.Attr[i] = g.value()
		}
	}
	return w
}

// cleanWFN is a valid name (validated by the caller); no broken values.
func (g *gen) cleanWFN() cpe.WFN {
	var w cpe.WFN
	switch x := g.r.Intn(10); {
	case x < 7:
		w.Attr[0] = cpe.Value{Kind: cpe.ValueSet, V: g.r.Pick("a", "o", "h")}
	case x < 8:
		w.Attr[0] = cpe.Value{Kind: cpe.ValueAny}
	case x < 9:
		w.Attr[0] = cpe.Value{Kind: cpe.ValueNA}
	}
	for i := 1; i < cpe.NumAttr; i++ {
		switch x := g.r.Intn(100); {
		case x < 15:
		case x < 40:
			w.Attr[i] = cpe.Value{Kind: cpe.ValueAny}
		case x < 50:
			w.Attr[i] = cpe.Value{Kind: cpe.ValueNA}
		default:
			w.Attr[i] = cpe.Value{Kind: cpe.ValueSet, V: g.validValue()}
		}
	}
	return w
}

// stemValue: set values around the shared stems, for comparison pairs.
func (g *gen) stemValue(wild bool) string {
	st := stems[g.r.Intn(len(stems))]
	if g.r.Chance(1, 3) {
		st += stems[g.r.Intn(len(stems))]
	}
	if g.r.Chance(1, 4) {
		st = flipCase(g.r, st)
	}
	if !wild {
		return st
	}
	// turn the stem into a pattern that may or may not match it
	raw := st
	switch g.r.Intn(9) {
	case 0:
		return "*" + raw
	case 1:
		return raw + "*"
	case 2:
		return "*" + raw + "*"
	case 3:
		return strings.Repeat("?", 1+g.r.Intn(2)) + cutFront(raw, g.r.Intn(3))
	case 4:
		return cutBack(raw, g.r.Intn(3)) + strings.Repeat("?", 1+g.r.Intn(2))
	case 5:
		return "*" + cutFront(raw, g.r.Intn(4))
	case 6:
		return cutBack(raw, g.r.Intn(4)) + "*"
	case 7:
		return "?" + cutBack(cutFront(raw, g.r.Intn(2)), g.r.Intn(2)) + "?"
	default:
		return "*" + cutBack(cutFront(raw, g.r.Intn(3)), g.r.Intn(3)) + strings.Repeat("?", g.r.Intn(3))
	}
}

// cutFront / cutBack drop n characters (quoted pairs count as one) — the
// result stays well quoted.
func cutFront(s string, n int) string {
	for ; n > 0 && len(s) > 0; n-- {
		if s[0] == '\\' && len(s) >= 2 {
			s = s[2:]
		} else {
			s = s[1:]
		}
	}
	return s
}

func cutBack(s string, n int) string {
	for ; n > 0 && len(s) > 0; n-- {
		// find the start of the last character
		i, last := 0, 0
		for i < len(s) {
			last = i
			if s[i] == '\\' && i+1 < len(s) {
				i += 2
			} else {
				i++
			}
		}
		s = s[:last]
	}
	return s
}

func flipCase(r *hx.Rand, s string) string {
	b := []byte(s)
	for i := range b {
		if r.Chance(1, 2) {
			switch {
			case b[i] >= 'a' && b[i] <= 'z':
				b[i] -= 32
			case b[i] >= 'A' && b[i] <= 'Z':
				b[i] += 32
			}
		}
	}
	return string(b)
}

// pairValue gives the value of one attribute for a comparison name.
func (g *gen) pairValue() cpe.Value {
	switch x := g.r.Intn(100); {
	case x < 10:
		return cpe.Value{Kind: cpe.ValueUnset}
	case x < 28:
		return cpe.Value{Kind: cpe.ValueAny}
	case x < 38:
		return cpe.Value{Kind: cpe.ValueNA}
	case x < 80:
		return cpe.Value{Kind: cpe.ValueSet, V: g.stemValue(false)}
	case x < 94:
		return cpe.Value{Kind: cpe.ValueSet, V: g.stemValue(true)}
	default:
		return cpe.Value{Kind: cpe.ValueSet, V: g.validValue()}
	}
}

// pair: two names, the second derived from the first so that every relation
// occurs.
func (g *gen) pair() (cpe.WFN, cpe.WFN) {
	var a, b cpe.WFN
	a.Attr[0] = cpe.Value{Kind: cpe.ValueSet, V: g.r.Pick("a", "o", "h")}
	for i := 1; i < cpe.NumAttr; i++ {
		a.Attr[i] = g.pairValue()
	}
	b = a
	if g.r.Chance(1, 6) {
		b.Attr[0] = g.pairValue()
		if b.Attr[0].Kind == cpe.ValueSet {
			b.Attr[0].V = g.r.Pick("a", "o", "h")
		}
	}
	nmut := g.r.Intn(4)
	if g.r.Chance(1, 8) {
		nmut = cpe.NumAttr
	}
	for k := 0; k < nmut; k++ {
		i := 1 + g.r.Intn(cpe.NumAttr-1)
		switch g.r.Intn(6) {
		case 0:
			b.Attr[i] = g.pairValue()
		case 1:
			if b.Attr[i].Kind == cpe.ValueSet {
				b.Attr[i].V = flipCase(g.r, b.Attr[i].V)
			}
		case 2:
			b.Attr[i] = cpe.Value{Kind: cpe.ValueAny}
		case 3:
			b.Attr[i] = cpe.Value{Kind: cpe.ValueNA}
		case 4:
			// make the source a pattern over the target's value or vice versa
			if a.Attr[i].Kind == cpe.ValueSet && !unquotedWildcard(a.Attr[i].V) {
				b.Attr[i] = cpe.Value{Kind: cpe.ValueSet, V: g.patternFor(a.Attr[i].V)}
			}
		case 5:
			if a.Attr[i].Kind == cpe.ValueSet {
				b.Attr[i] = cpe.Value{Kind: cpe.ValueSet, V: a.Attr[i].V + stems[g.r.Intn(len(stems))]}
			}
		}
	}
	if g.r.Chance(1, 2) {
		return b, a
	}
	return a, b
}

// patternFor derives a pattern from a wildcard-free value: usually matching.
func (g *gen) patternFor(v string) string {
	switch g.r.Intn(8) {
	case 0:
		return "*" + cutFront(v, g.r.Intn(3))
	case 1:
		return cutBack(v, g.r.Intn(3)) + "*"
	case 2:
		return "?" + cutFront(v, g.r.Intn(3))
	case 3:
		return cutBack(v, g.r.Intn(3)) + "??"
	case 4:
		return "*" + cutBack(cutFront(v, 1), 1) + "*"
	case 5:
		return "??" + cutFront(v, 1+g.r.Intn(2)) + "*"
	case 6:
		return "*" + cutFront(v, 1) + "?"
	default:
		return "?" + v + "?"
	}
}

// ---- bound strings ----

// strictAV: an avstring of the formatted-string ABNF.
func (g *gen) strictAV() string {
	switch x := g.r.Intn(100); {
	case x < 22:
		return "*"
	case x < 30:
		return "-"
	}
	var b strings.Builder
	g.special(&b)
	n := 1 + g.r.Intn(6)
	for i := 0; i < n; i++ {
		switch x := g.r.Intn(100); {
		case x < 55:
			b.WriteByte(g.pick(lowerAlnum))
		case x < 62:
			b.WriteByte(g.pick(upperAlpha))
		case x < 70:
			b.WriteByte(g.pick("-._"))
		case x < 88:
			b.WriteByte('\\')
			b.WriteByte(g.pick(puncChars))
		case x < 92:
			b.WriteString("\\\\")
		case x < 96:
			b.WriteString("\\*")
		default:
			b.WriteString("\\?")
		}
	}
	g.special(&b)
	s := b.String()
	if s == "-" {
		return "x-"
	}
	return s
}

func (g *gen) langTag() string {
	switch g.r.Intn(5) {
	case 0:
		return "*"
	case 1:
		return "-"
	}
	n := 2 + g.r.Intn(2)
	var b strings.Builder
	for i := 0; i < n; i++ {
		b.WriteByte(g.pick("abcdefghijklmnopqrstuvwxyzENUS"))
	}
	switch g.r.Intn(3) {
	case 0:
		b.WriteByte('-')
		b.WriteByte(g.pick(upperAlpha))
		b.WriteByte(g.pick(upperAlpha))
	case 1:
		b.WriteByte('-')
		for i := 0; i < 3; i++ {
			b.WriteByte(g.pick("0123456789"))
		}
	}
	return b.String()
}

// strictFS: a formatted string of the ABNF.
func (g *gen) strictFS() string {
	comps := make([]string, 11)
	comps[0] = g.r.Pick("a", "o", "h", "a", "o", "h", "*", "-")
	for i := 1; i < 11; i++ {
		comps[i] = g.strictAV()
	}
	comps[6] = g.langTag()
	return "cpe:2.3:" + strings.Join(comps, ":")
}

const mutAlphabet = ":\\*?-._~%/!+ ab1A\x00\x01\x7f\x80\xc4\xb0\xe2\x84\xaa\t\""

// mutate applies 1..3 byte edits.
func (g *gen) mutate(s string) string {
	b := []byte(s)
	for k := 1 + g.r.Intn(3); k > 0; k-- {
		switch g.r.Intn(5) {
		case 0, 1: // insert
			pos := g.r.Intn(len(b) + 1)
			b = append(b[:pos], append([]byte{g.pick(mutAlphabet)}, b[pos:]...)...)
		case 2: // delete
			if len(b) > 0 {
				pos := g.r.Intn(len(b))
				b = append(b[:pos], b[pos+1:]...)
			}
		case 3: // replace
			if len(b) > 0 {
				b[g.r.Intn(len(b))] = g.pick(mutAlphabet)
			}
		case 4: // drop or add components at the end
			if g.r.Chance(1, 2) {
				if i := strings.LastIndexByte(string(b), ':'); i > 8 {
					b = b[:i]
				}
			} else {
				b = append(b, []byte(":"+g.r.Pick("*", "x", "", "-", "a\\:b"))...)
			}
		}
	}
	return string(b)
}

// looseFS: formatted strings with any number of components and loose values.
func (g *gen) looseFS() string {
	n := g.r.Intn(14)
	comps := make([]string, n)
	for i := range comps {
		switch x := g.r.Intn(10); {
		case x < 2:
			comps[i] = ""
		case x < 5:
			comps[i] = g.strictAV()
		case x < 6:
			comps[i] = g.brokenValue()
		case x < 7:
			comps[i] = g.r.Pick("a", "o", "h")
		default:
			comps[i] = g.bindish()
		}
	}
	p := "cpe:2.3:"
	if g.r.Chance(1, 30) {
		p = g.r.Pick("cpe:2.3", "cpe:2.2:", "CPE:2.3:", "cpe:2.3::", "cpe:", "")
	}
	return p + strings.Join(comps, ":")
}

// bindish: a value as BindFS would write it, with unquoted punctuation now and then.
func (g *gen) bindish() string {
	v := g.validValue()
	v = strings.NewReplacer("\\.", ".", "\\-", "-", "\\_", "_").Replace(v)
	if g.r.Chance(1, 5) {
		pos := g.r.Intn(len(v) + 1)
		v = v[:pos] + string(g.pick("!+~/=@")) + v[pos:]
	}
	return v
}

var pctForms = []string{"%01", "%02", "%21", "%22", "%23", "%24", "%25", "%26", "%27", "%28", "%29", "%2a", "%2b", "%2c", "%2f", "%3a", "%3b",
	"%3c", "%3d", "%3e", "%3f", "%40", "%5b", "%5c", "%5d", "%5e", "%60", "%7b", "%7c", "%7d", "%7e", "%2A", "%5C", "%7E", "%07", "%2d", "%zz", "%2", "%"}

func (g *gen) uriComp() string {
	switch x := g.r.Intn(100); {
	case x < 18:
		return ""
	case x < 25:
		return "-"
	}
	var b strings.Builder
	if g.r.Chance(1, 8) {
		b.WriteString(g.r.Pick("%01", "%02", "%01%01"))
	}
	n := 1 + g.r.Intn(6)
	for i := 0; i < n; i++ {
		switch x := g.r.Intn(100); {
		case x < 55:
			b.WriteByte(g.pick(lowerAlnum))
		case x < 63:
			b.WriteByte(g.pick(upperAlpha))
		case x < 75:
			b.WriteByte(g.pick("-._~"))
		case x < 96:
			b.WriteString(pctForms[g.r.Intn(len(pctForms))])
		default:
			b.WriteByte(g.pick("!*?/\\ \x80"))
		}
	}
	if g.r.Chance(1, 8) {
		b.WriteString(g.r.Pick("%01", "%02", "%01%01"))
	}
	return b.String()
}

// uri: CPE 2.2 URIs, including the packed edition component.
func (g *gen) uri() string {
	n := g.r.Intn(9)
	comps := make([]string, n)
	for i := range comps {
		comps[i] = g.uriComp()
	}
	if n > 0 && g.r.Chance(4, 5) {
		comps[0] = g.r.Pick("a", "o", "h", "A", "", "-", "x")
	}
	if n > 5 && g.r.Chance(1, 2) {
		k := 1 + g.r.Intn(7)
		parts := make([]string, k)
		for i := range parts {
			parts[i] = g.uriComp()
		}
		comps[5] = "~" + strings.Join(parts, "~")
	}
	p := "cpe:/"
	if g.r.Chance(1, 30) {
		p = g.r.Pick("cpe:", "cpe://", "CPE:/", "cpe:/:", "")
	}
	s := p + strings.Join(comps, ":")
	if g.r.Chance(1, 40) {
		s = strings.Replace(s, "k", "K", 1)
	}
	if g.r.Chance(1, 40) {
		s = strings.Replace(s, "i", "İ", 1)
	}
	return s
}
