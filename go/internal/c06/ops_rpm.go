package c06

import (
	"bytes"
	"context"
	"encoding/binary"
	"fmt"
	"io"
	"reflect"
	"strings"

	"github.com/quay/claircore/rpm"
	"github.com/quay/claircore/rpm/bdb"
	"github.com/quay/claircore/rpm/ndb"
	"github.com/quay/claircore/verifharness/internal/hx"
)

// ---- rpm header: Header.Parse + Info.Load ----

// rpmHdrRun runs Header.Parse + Info.Load and renders the canonical answer.
func (h *harness) rpmHdrRun(lr *limitReader, res *rpm.HeaderResultForVerif) string {
	return guard(func() string {
		r := rpm.ParseAndLoadForVerif(context.Background(), lr)
		if res != nil {
			*res = r
		}
		switch r.Stage {
		case "parse":
			return "err:parse"
		case "load":
			return "err:load"
		}
		i := r.Info
		nb, sum := 0, 0
		for _, f := range i.Filenames {
			nb += len(f)
			for k := 0; k < len(f); k++ {
				sum += int(f[k])
			}
		}
		return fmt.Sprintf("files=%d:%d:%d ", len(i.Filenames), nb, sum) + fmt.Sprintf("ok name=%s ver=%s rel=%s epoch=%d arch=%s src=%s mod=%s digest=%s algo=%d sig=%d",
			hx.Hex([]byte(i.Name)), hx.Hex([]byte(i.Version)), hx.Hex([]byte(i.Release)), i.Epoch, hx.Hex([]byte(i.Arch)),
			hx.Hex([]byte(i.SourceNEVR)), hx.Hex([]byte(i.Module)), hx.Hex([]byte(i.Digest)), i.DigestAlgo, len(i.Signature))
	})
}

func (h *harness) opRpmHdr(b []byte, how string) {
	lr := newLimit(b, 64*len(b)+4096)
	var res rpm.HeaderResultForVerif
	var out string
	alloc := allocDuring(func() { out = h.rpmHdrRun(lr, &res) })
	if out != "panic" && out != "hang" && alloc > rpmAllocBound(len(b)) {
		// memory out of proportion: the listed finding when the make() calls of ReadData for the wanted entries explain it
		cls := ""
		if wantedAllocEstimate(b)*2 >= alloc-rpmAllocBound(len(b)) {
			cls = knownRpmQuadratic
		} else if filenameWork(b)*8 >= alloc-rpmAllocBound(len(b)) {
			cls = knownRpmFilenames
		}
		h.fail(cls, fmt.Sprintf("rpm-header-allocation-out-of-proportion allocated=%d header-bytes=%d how=%s header=%s", alloc, len(b), how, hx.Hex(b)))
	}
	switch out {
	case "panic":
		h.fail("", "rpm-header-panic (Header.Parse + Info.Load) how="+how+" header="+hx.Hex(b))
	case "hang":
		h.fail("", "rpm-header-runaway-reads how="+how+" header="+hx.Hex(b))
	}
	// the statement on the implementation: an accepted header only has entries inside the data arena
	if res.Stage != "parse" && res.Stage != "" {
		start := 0
		if len(res.Entries) > 0 {
			t := res.Entries[0][0]
			if t == tagHeaderImage || t == tagHeaderSignatures || t == tagHeaderImmutable {
				start = 1
			}
		}
		for _, e := range res.Entries[start:] {
			if e[2] < 0 || e[2] > res.DataSize || e[3] < 1 || e[3] > res.DataSize || e[1] < 1 || e[1] > 9 {
				h.fail("", fmt.Sprintf("rpm-header-accepted-entry-out-of-bounds tag=%d type=%d offset=%d count=%d datasize=%d header=%s", e[0], e[1], e[2], e[3], res.DataSize, hx.Hex(b)))
				break
			}
		}
	}
	for _, m := range strings.Split(how, "+") {
		h.r.Count("rpmhdr:" + m)
	}
	kind := strings.Fields(out)[0]
	if strings.HasPrefix(kind, "files=") {
		h.r.Count("rpmhdr-files:" + countBucket(len(res.Info.Filenames)))
		kind = "ok"
	}
	h.r.Count("rpmhdr-out:" + kind)
	h.r.Op("rpmhdr "+hx.Hex(b), out, out != "err:parse")
}

func countBucket(n int) string {
	switch {
	case n == 0:
		return "0"
	case n <= 2:
		return "1-2"
	case n <= 8:
		return "3-8"
	}
	return "9+"
}

func (h *harness) rpmHdrStream() {
	n := h.cfg.N(1500, 40000)
	for i := 0; i < n && !h.r.Stop(); i++ {
		base := genRpmHeaderBlob(h.rnd)
		if h.rnd.Chance(1, 6) {
			h.opRpmHdr(base, "wellformed")
			continue
		}
		m, how := mutateRpmHeader(h.rnd, base)
		h.opRpmHdr(m, how)
	}
}

// readAll reads the whole ReaderAt handed out by AllHeaders.
func sumReaderAt(ra io.ReaderAt) (size int64, sum uint64, err error) {
	sz, ok := ra.(interface{ Size() int64 })
	if !ok {
		return 0, 0, fmt.Errorf("no Size")
	}
	size = sz.Size()
	if size > 1<<26 {
		return size, 0, fmt.Errorf("too large")
	}
	buf := make([]byte, size)
	n, err := ra.ReadAt(buf, 0)
	if err != nil && !(err == io.EOF && int64(n) == size) {
		if int64(n) != size {
			return size, 0, fmt.Errorf("short read %d of %d: %v", n, size, err)
		}
	}
	for _, c := range buf[:n] {
		sum += uint64(c)
	}
	return size, sum, nil
}

// ---- bdb: PackageDB.Parse + AllHeaders ----

func (h *harness) opBdb(b []byte, how string) { h.opBdbX(b, how, true) }

// bdbSections is the number of file sections a header handed out by
// bdb.AllHeaders is made of (the length of the unexported rope.rd), or -1.
func bdbSections(ra io.ReaderAt) int {
	v := reflect.ValueOf(ra)
	if v.Kind() != reflect.Pointer || v.IsNil() || v.Elem().Kind() != reflect.Struct {
		return -1
	}
	f := v.Elem().FieldByName("rd")
	if !f.IsValid() || f.Kind() != reflect.Slice {
		return -1
	}
	return f.Len()
}

// opBdbX runs Parse + AllHeaders and reads every header handed out. With
// model unset the file is too large for the line protocol and only the direct
// oracles are evaluated.
//
// Direct oracles (each follows from the file-wide seen set of the chain walk,
// theorem bdb_walk_linear: every overflow page is linked at most once):
//
//   - no page header is read more than twice (once by the page loop, once as a
//     link of a chain),
//   - Parse + AllHeaders make at most len(file)+64 reads (one per page, one per
//     4-byte index entry, two per item, one per link),
//   - the headers handed out are made of at most as many sections as the file
//     has pages.
func (h *harness) opBdbX(b []byte, how string, model bool) {
	pages := len(b)/512 + 1
	lr := newLimit(b, 600*pages+1000)
	_, ps := bdbOrderOf(b)
	lr.hdrLen, lr.hdrAlign = 26, int64(ps)
	nh := 0
	walkReads, sections := -1, 0
	var walkAlloc uint64
	out := guard(func() string {
		var db bdb.PackageDB
		var hs []io.ReaderAt
		var err, perr error
		walkAlloc = allocDuring(func() {
			if perr = db.Parse(lr); perr == nil {
				hs, err = db.AllHeaders(context.Background())
			}
		})
		if perr != nil {
			return "err:parse"
		}
		walkReads = lr.reads
		if err != nil {
			return "err:headers"
		}
		nh = len(hs)
		var sb strings.Builder
		fmt.Fprintf(&sb, "ok n=%d", len(hs))
		lr.hdrAlign = 0 // reading the headers is not part of the walk
		for _, ra := range hs {
			if n := bdbSections(ra); n > 0 {
				sections += n
			}
			size, sum, err := sumReaderAt(ra)
			if err != nil {
				fmt.Fprintf(&sb, " %d:short", size)
				continue
			}
			fmt.Fprintf(&sb, " %d:%d", size, sum)
		}
		return sb.String()
	})
	wit := func() string {
		if len(b) <= 8<<10 {
			return "how=" + how + " db=" + hx.Hex(b)
		}
		return fmt.Sprintf("how=%s db=%s", how, h.dumpWitness("bdb", b))
	}
	switch out {
	case "panic":
		h.fail("", "bdb-panic (PackageDB.Parse + AllHeaders + reading the headers) "+wit())
	case "hang":
		h.fail("", fmt.Sprintf("bdb-does-not-terminate (more than %d reads of a %d-byte database) %s", lr.limit, len(b), wit()))
	}
	if out != "panic" {
		worstPage, worst := int64(-1), 0
		for pg, n := range lr.hdr {
			if n > worst || (n == worst && pg < worstPage) {
				worstPage, worst = pg, n
			}
		}
		switch {
		case worst > 2:
			h.fail("", fmt.Sprintf("bdb-page-walked-more-than-once: the header of page %d was read %d times (page loop + one chain = 2 at most); %d reads of a %d-byte database out=%.40s %s",
				worstPage, worst, lr.reads, len(b), out, wit()))
		case walkReads > len(b)+64:
			h.fail("", fmt.Sprintf("bdb-reads-not-linear: Parse + AllHeaders made %d reads of a %d-byte database %s", walkReads, len(b), wit()))
		case walkAlloc > dbAllocBound(len(b)):
			h.fail("", fmt.Sprintf("bdb-allocation-out-of-proportion: Parse + AllHeaders allocated %d bytes for a %d-byte database %s", walkAlloc, len(b), wit()))
		case sections > len(b)/ps+1:
			h.fail("", fmt.Sprintf("bdb-headers-hold-more-sections-than-pages: %d sections, %d pages %s", sections, len(b)/ps+1, wit()))
		}
		if worst > 0 {
			h.r.Count(fmt.Sprintf("bdb-page-header-reads-max:%d", worst))
		}
	}
	for _, m := range strings.Split(how, "+") {
		if i := strings.IndexByte(m, ','); i > 0 {
			m = m[:i]
		}
		h.r.Count("bdb:" + m)
	}
	h.r.Count("bdb-out:" + strings.Fields(out)[0])
	h.r.Count(fmt.Sprintf("bdb-pagesize:%d", ps))
	nontrivial := out != "err:parse" && (nh > 0 || out == "err:headers")
	if model {
		h.r.Op("bdb "+hx.Hex(b), out, nontrivial)
	} else {
		h.r.Case(fmt.Sprintf("bdb-large %s seed=%d", how, h.cfg.Seed), nontrivial)
	}
}

func (h *harness) someHeaders(max int) [][]byte {
	n := h.rnd.Intn(max + 1)
	var hs [][]byte
	for i := 0; i < n; i++ {
		hs = append(hs, genRpmHeaderBlob(h.rnd))
	}
	return hs
}

func (h *harness) bdbStream() {
	n := h.cfg.N(500, 15000)
	for i := 0; i < n && !h.r.Stop(); i++ {
		if h.rnd.Chance(1, 5) {
			// many items leading into the same overflow pages; small pages so
			// that the model answers the same line
			f := genBdbFan(h.rnd, 1024, 12<<10)
			h.opBdb(f.build(), f.String())
			continue
		}
		base := genBdb(h.rnd, h.someHeaders(5))
		if h.rnd.Chance(1, 6) {
			h.opBdb(base, "wellformed")
			continue
		}
		m, how := mutateBdb(h.rnd, base)
		h.opBdb(m, how)
	}
}

// bdbFanStream: the same shapes at every page size up to 64 KiB (a page then
// carries thousands of index entries), too large for the line protocol: direct
// oracles only.
func (h *harness) bdbFanStream() {
	n := h.cfg.N(60, 1200)
	for i := 0; i < n && !h.r.Stop(); i++ {
		f := genBdbFan(h.rnd, 65536, h.cfg.N(1<<20, 4<<20))
		h.opBdbX(f.build(), f.String(), false)
	}
}

// ---- ndb: PackageDB.Parse + AllHeaders ----

// ndbRun runs ndb Parse + AllHeaders and renders the canonical answer.
func (h *harness) ndbRun(lr *limitReader, b []byte) string {
	return guard(func() string {
		var db ndb.PackageDB
		var hs []io.ReaderAt
		var err, perr error
		h.ndbAlloc = allocDuring(func() {
			if perr = db.Parse(lr); perr == nil {
				hs, err = db.AllHeaders(context.Background())
			}
		})
		if perr != nil {
			return "err:parse"
		}
		if err != nil {
			return "err:headers"
		}
		var sb strings.Builder
		fmt.Fprintf(&sb, "ok n=%d", len(hs))
		for _, ra := range hs {
			size, sum, err := sumReaderAt(ra)
			if err != nil {
				fmt.Fprintf(&sb, " %d:short", size)
				continue
			}
			fmt.Fprintf(&sb, " %d:%d", size, sum)
		}
		return sb.String()
	})
}

func (h *harness) opNdb(b []byte, how string) {
	lr := newLimit(b, len(b)/8+1000)
	out := h.ndbRun(lr, b)
	nh := 0
	if strings.HasPrefix(out, "ok n=") {
		fmt.Sscanf(out, "ok n=%d", &nh)
	}
	if out != "panic" && out != "hang" && lr.bytes > ndbReadBound(len(b)) {
		cls := ""
		if ndbChecksumWork(b)*2 >= lr.bytes-ndbReadBound(len(b)) {
			cls = knownNdbQuadratic
		}
		h.fail(cls, fmt.Sprintf("ndb-reads-out-of-proportion bytes-read=%d file-bytes=%d how=%s db=%s", lr.bytes, len(b), how, hx.Hex(b)))
	}
	if out != "panic" && out != "hang" && h.ndbAlloc > dbAllocBound(len(b)) {
		h.fail("", fmt.Sprintf("ndb-allocation-out-of-proportion: Parse + AllHeaders allocated %d bytes for a %d-byte database how=%s db=%s", h.ndbAlloc, len(b), how, hx.Hex(b)))
	}
	switch out {
	case "panic":
		h.fail("", "ndb-panic (PackageDB.Parse + AllHeaders) how="+how+" db="+hx.Hex(b))
	case "hang":
		h.fail("", fmt.Sprintf("ndb-does-not-terminate (more than %d reads of a %d-byte database) how=%s db=%s", lr.limit, len(b), how, hx.Hex(b)))
	}
	for _, m := range strings.Split(how, "+") {
		h.r.Count("ndb:" + m)
	}
	h.r.Count("ndb-out:" + strings.Fields(out)[0])
	h.r.Op("ndb "+hx.Hex(b), out, out != "err:parse" && (nh > 0 || out == "err:headers"))
}

func (h *harness) ndbStream() {
	n := h.cfg.N(300, 8000)
	for i := 0; i < n && !h.r.Stop(); i++ {
		base := genNdb(h.rnd, h.someHeaders(4))
		if h.rnd.Chance(1, 6) {
			h.opNdb(base, "wellformed")
			continue
		}
		m, how := mutateNdb(h.rnd, base)
		h.opNdb(m, how)
	}
}

// ---- ndb: XDB.Parse (Index.db; not reached by the scanners, same file as the Packages.db header code) ----

// opXdb runs XDB.Parse; oracles only (no model): no panic, allocation in
// proportion to the file.
func (h *harness) opXdb(b []byte, how string) {
	var out string
	alloc := allocDuring(func() {
		out = guard(func() string {
			var db ndb.XDB
			if err := db.Parse(bytes.NewReader(b)); err != nil {
				return "err"
			}
			return "ok"
		})
	})
	switch {
	case out == "panic":
		h.fail("", "xdb-panic (ndb.XDB.Parse) how="+how+" db="+hx.Hex(b))
	case alloc > dbAllocBound(len(b)):
		h.fail("", fmt.Sprintf("xdb-allocation-out-of-proportion: XDB.Parse allocated %d bytes for a %d-byte file how=%s db=%s", alloc, len(b), how, hx.Hex(b)))
	}
	h.r.Count("xdb:" + how)
	h.r.Count("xdb-out:" + out)
	h.r.Case("xdb "+hx.Hex(b), out == "ok")
}

func (h *harness) xdbStream() {
	le := binary.LittleEndian
	base := func(pages, pageSz uint32, slots int) []byte {
		n := int(pages) * int(pageSz)
		if n < 64 || n > 1<<16 {
			n = 4096
		}
		b := make([]byte, n)
		copy(b, "RpmX")
		le.PutUint32(b[8:], 1)
		le.PutUint32(b[12:], pages)
		le.PutUint32(b[16:], pageSz)
		for i := 0; i < slots && 32+16*i+16 <= len(b); i++ {
			o := 32 + 16*i
			copy(b[o:], "Slo\x00")
			le.PutUint32(b[o+4:], uint32(1000+i))
			le.PutUint32(b[o+8:], 1)
			le.PutUint32(b[o+12:], 1)
		}
		return b
	}
	h.opXdb(base(1, 4096, 3), "wellformed")
	// the witnesses of 7b... (XDB.Parse): no slot pages, a page size below the header, a 4 GiB claim
	h.opXdb(base(0, 4096, 0)[:32], "no-slot-pages")
	h.opXdb(base(1, 16, 0), "tiny-page")
	h.opXdb(base(0xffff, 0xffff, 0), "huge-claim")
	good := base(1, 4096, 3)
	for off := 0; off < 48; off += 4 {
		for _, v := range sweepValues {
			if h.r.Stop() {
				return
			}
			b := append([]byte(nil), good...)
			le.PutUint32(b[off:], v)
			h.opXdb(b, "field-sweep")
		}
	}
	for i, n := 0, h.cfg.N(60, 2000); i < n && !h.r.Stop(); i++ {
		b := base(uint32(1+h.rnd.Intn(3)), []uint32{512, 1024, 4096}[h.rnd.Intn(3)], h.rnd.Intn(6))
		m, how := mutateBytes(h.rnd, b)
		h.opXdb(m, how)
	}
}
