package c06

import (
	"context"
	"fmt"
	"io"
	"strings"

	"github.com/quay/claircore/rpm"
	"github.com/quay/claircore/rpm/bdb"
	"github.com/quay/claircore/rpm/ndb"
	"github.com/quay/claircore/verifharness/internal/hx"
)

// ---- rpm header: Header.Parse + Info.Load ----

// rpmHdrRun runs Header.Parse + Info.Load and renders the canonical answer.
func (h *harness) rpmHdrRun(lr *limitReader, res *rpm.HeaderResultForVerif) string {
	return guard(func() string {
		r := rpm.ParseAndLoadForVerif(context.Background(), lr)
		if res != nil {
			*res = r
		}
		switch r.Stage {
		case "parse":
			return "err:parse"
		case "load":
			return "err:load"
		}
		i := r.Info
		return fmt.Sprintf("ok name=%s ver=%s rel=%s epoch=%d arch=%s src=%s mod=%s digest=%s algo=%d sig=%d",
			hx.Hex([]byte(i.Name)), hx.Hex([]byte(i.Version)), hx.Hex([]byte(i.Release)), i.Epoch, hx.Hex([]byte(i.Arch)),
			hx.Hex([]byte(i.SourceNEVR)), hx.Hex([]byte(i.Module)), hx.Hex([]byte(i.Digest)), i.DigestAlgo, len(i.Signature))
	})
}

func (h *harness) opRpmHdr(b []byte, how string) {
	lr := newLimit(b, 64*len(b)+4096)
	var res rpm.HeaderResultForVerif
	var out string
	alloc := allocDuring(func() { out = h.rpmHdrRun(lr, &res) })
	if out != "panic" && out != "hang" && alloc > rpmAllocBound(len(b)) {
		// memory out of proportion: the listed finding when the make() calls of ReadData for the wanted entries explain it
		cls := ""
		if wantedAllocEstimate(b)*2 >= alloc-rpmAllocBound(len(b)) {
			cls = knownRpmQuadratic
		}
		h.fail(cls, fmt.Sprintf("rpm-header-allocation-out-of-proportion allocated=%d header-bytes=%d how=%s header=%s", alloc, len(b), how, hx.Hex(b)))
	}
	switch out {
	case "panic":
		h.fail("", "rpm-header-panic (Header.Parse + Info.Load) how="+how+" header="+hx.Hex(b))
	case "hang":
		h.fail("", "rpm-header-runaway-reads how="+how+" header="+hx.Hex(b))
	}
	// the statement on the implementation: an accepted header only has entries inside the data arena
	if res.Stage != "parse" && res.Stage != "" {
		start := 0
		if len(res.Entries) > 0 {
			t := res.Entries[0][0]
			if t == tagHeaderImage || t == tagHeaderSignatures || t == tagHeaderImmutable {
				start = 1
			}
		}
		for _, e := range res.Entries[start:] {
			if e[2] < 0 || e[2] > res.DataSize || e[3] < 1 || e[3] > res.DataSize || e[1] < 1 || e[1] > 9 {
				h.fail("", fmt.Sprintf("rpm-header-accepted-entry-out-of-bounds tag=%d type=%d offset=%d count=%d datasize=%d header=%s", e[0], e[1], e[2], e[3], res.DataSize, hx.Hex(b)))
				break
			}
		}
	}
	for _, m := range strings.Split(how, "+") {
		h.r.Count("rpmhdr:" + m)
	}
	h.r.Count("rpmhdr-out:" + strings.Fields(out)[0])
	h.r.Op("rpmhdr "+hx.Hex(b), out, out != "err:parse")
}

func (h *harness) rpmHdrStream() {
	n := h.cfg.N(1500, 40000)
	for i := 0; i < n && !h.r.Stop(); i++ {
		base := genRpmHeaderBlob(h.rnd)
		if h.rnd.Chance(1, 6) {
			h.opRpmHdr(base, "wellformed")
			continue
		}
		m, how := mutateRpmHeader(h.rnd, base)
		h.opRpmHdr(m, how)
	}
}

// readAll reads the whole ReaderAt handed out by AllHeaders.
func sumReaderAt(ra io.ReaderAt) (size int64, sum uint64, err error) {
	sz, ok := ra.(interface{ Size() int64 })
	if !ok {
		return 0, 0, fmt.Errorf("no Size")
	}
	size = sz.Size()
	if size > 1<<26 {
		return size, 0, fmt.Errorf("too large")
	}
	buf := make([]byte, size)
	n, err := ra.ReadAt(buf, 0)
	if err != nil && !(err == io.EOF && int64(n) == size) {
		if int64(n) != size {
			return size, 0, fmt.Errorf("short read %d of %d: %v", n, size, err)
		}
	}
	for _, c := range buf[:n] {
		sum += uint64(c)
	}
	return size, sum, nil
}

// ---- bdb: PackageDB.Parse + AllHeaders ----

func (h *harness) opBdb(b []byte, how string) {
	pages := len(b)/512 + 1
	lr := newLimit(b, 600*pages+1000)
	nh := 0
	out := guard(func() string {
		var db bdb.PackageDB
		if err := db.Parse(lr); err != nil {
			return "err:parse"
		}
		hs, err := db.AllHeaders(context.Background())
		if err != nil {
			return "err:headers"
		}
		nh = len(hs)
		var sb strings.Builder
		fmt.Fprintf(&sb, "ok n=%d", len(hs))
		for _, ra := range hs {
			size, sum, err := sumReaderAt(ra)
			if err != nil {
				fmt.Fprintf(&sb, " %d:short", size)
				continue
			}
			fmt.Fprintf(&sb, " %d:%d", size, sum)
		}
		return sb.String()
	})
	switch out {
	case "panic":
		h.fail("", "bdb-panic (PackageDB.Parse + AllHeaders + reading the headers) how="+how+" db="+hx.Hex(b))
	case "hang":
		h.fail("", fmt.Sprintf("bdb-does-not-terminate (more than %d reads of a %d-byte database) how=%s db=%s", lr.limit, len(b), how, hx.Hex(b)))
	}
	for _, m := range strings.Split(how, "+") {
		h.r.Count("bdb:" + m)
	}
	h.r.Count("bdb-out:" + strings.Fields(out)[0])
	h.r.Op("bdb "+hx.Hex(b), out, out != "err:parse" && (nh > 0 || out == "err:headers"))
}

func (h *harness) someHeaders(max int) [][]byte {
	n := h.rnd.Intn(max + 1)
	var hs [][]byte
	for i := 0; i < n; i++ {
		hs = append(hs, genRpmHeaderBlob(h.rnd))
	}
	return hs
}

func (h *harness) bdbStream() {
	n := h.cfg.N(500, 15000)
	for i := 0; i < n && !h.r.Stop(); i++ {
		base := genBdb(h.rnd, h.someHeaders(5))
		if h.rnd.Chance(1, 6) {
			h.opBdb(base, "wellformed")
			continue
		}
		m, how := mutateBdb(h.rnd, base)
		h.opBdb(m, how)
	}
}

// ---- ndb: PackageDB.Parse + AllHeaders ----

// ndbRun runs ndb Parse + AllHeaders and renders the canonical answer.
func (h *harness) ndbRun(lr *limitReader, b []byte) string {
	return guard(func() string {
		var db ndb.PackageDB
		if err := db.Parse(lr); err != nil {
			return "err:parse"
		}
		hs, err := db.AllHeaders(context.Background())
		if err != nil {
			return "err:headers"
		}
		var sb strings.Builder
		fmt.Fprintf(&sb, "ok n=%d", len(hs))
		for _, ra := range hs {
			size, sum, err := sumReaderAt(ra)
			if err != nil {
				fmt.Fprintf(&sb, " %d:short", size)
				continue
			}
			fmt.Fprintf(&sb, " %d:%d", size, sum)
		}
		return sb.String()
	})
}

func (h *harness) opNdb(b []byte, how string) {
	lr := newLimit(b, len(b)/8+1000)
	out := h.ndbRun(lr, b)
	nh := 0
	if strings.HasPrefix(out, "ok n=") {
		fmt.Sscanf(out, "ok n=%d", &nh)
	}
	if out != "panic" && out != "hang" && lr.bytes > ndbReadBound(len(b)) {
		cls := ""
		if ndbChecksumWork(b)*2 >= lr.bytes-ndbReadBound(len(b)) {
			cls = knownNdbQuadratic
		}
		h.fail(cls, fmt.Sprintf("ndb-reads-out-of-proportion bytes-read=%d file-bytes=%d how=%s db=%s", lr.bytes, len(b), how, hx.Hex(b)))
	}
	switch out {
	case "panic":
		h.fail("", "ndb-panic (PackageDB.Parse + AllHeaders) how="+how+" db="+hx.Hex(b))
	case "hang":
		h.fail("", fmt.Sprintf("ndb-does-not-terminate (more than %d reads of a %d-byte database) how=%s db=%s", lr.limit, len(b), how, hx.Hex(b)))
	}
	for _, m := range strings.Split(how, "+") {
		h.r.Count("ndb:" + m)
	}
	h.r.Count("ndb-out:" + strings.Fields(out)[0])
	h.r.Op("ndb "+hx.Hex(b), out, out != "err:parse" && (nh > 0 || out == "err:headers"))
}

func (h *harness) ndbStream() {
	n := h.cfg.N(300, 8000)
	for i := 0; i < n && !h.r.Stop(); i++ {
		base := genNdb(h.rnd, h.someHeaders(4))
		if h.rnd.Chance(1, 6) {
			h.opNdb(base, "wellformed")
			continue
		}
		m, how := mutateNdb(h.rnd, base)
		h.opNdb(m, how)
	}
}
