package c06

import (
	"encoding/binary"
	"fmt"

	"github.com/quay/claircore/verifharness/internal/hx"
)

// Fan-in databases: hash databases in which MANY hash-page items lead into
// the SAME overflow pages. libdb never writes such a file (every overflow page
// belongs to one chain); a reader that walks a chain once per item does work
// proportional to items x chain length, and one page of 64 KiB holds about
// 16 000 index entries, so the generator goes up to the largest page size.
//
// Shapes (how):
//
//	same-item    every index entry of a hash page names one 12-byte off-page item
//	same-first   distinct off-page items, all with the same first overflow page
//	merge        distinct first pages, each linking into one shared tail
//	across       items of different hash pages name the same chain
//	disjoint     the control: as many items, every item its own chain
type bdbFan struct {
	pageSz   int
	big      bool // big endian
	nHash    int  // hash pages
	perHash  int  // off-page items (index pairs) per hash page
	chainLen int  // overflow pages of the shared chain
	how      string
}

func (f bdbFan) String() string {
	return fmt.Sprintf("fanin:%s,ps=%d,hash=%d,items=%d,chain=%d", f.how, f.pageSz, f.nHash, f.perHash, f.chainLen)
}

// maxFanItems is how many index pairs a hash page of this size can carry when
// all of them name one item (26-byte header, 4 bytes per pair, one item).
func maxFanItems(pageSz int) int { return (pageSz - 26 - 16) / 4 }

func genBdbFan(r *hx.Rand, maxPage, maxBytes int) bdbFan {
	sizes := []int{512, 1024, 2048, 4096, 8192, 16384, 32768, 65536}
	var ok []int
	for _, s := range sizes {
		if s <= maxPage {
			ok = append(ok, s)
		}
	}
	f := bdbFan{pageSz: ok[r.Intn(len(ok))], big: r.Chance(1, 5)}
	f.how = []string{"same-item", "same-item", "same-first", "merge", "across", "disjoint"}[r.Intn(6)]
	f.nHash = 1 + r.Intn(3)
	f.chainLen = 1 + r.Intn(6)
	switch f.how {
	case "same-item":
		f.perHash = 2 + r.Intn(maxFanItems(f.pageSz)-1)
		if r.Chance(1, 3) {
			f.perHash = maxFanItems(f.pageSz)
		}
	default:
		// distinct 12-byte items: 16 bytes per pair and item
		m := (f.pageSz - 26) / 16
		f.perHash = 2 + r.Intn(m-1)
	}
	if f.how == "across" && f.nHash < 2 {
		f.nHash = 2
	}
	if f.how == "disjoint" {
		f.chainLen = 1 + r.Intn(2)
	}
	// keep the file below maxBytes: fewer private overflow pages, then a shorter chain
	for f.pages()*f.pageSz > maxBytes {
		switch {
		case (f.how == "merge" || f.how == "disjoint") && f.perHash > 2:
			f.perHash = 2 + (f.perHash-2)/2
		case f.chainLen > 1:
			f.chainLen--
		case f.nHash > 1 && f.how != "across":
			f.nHash--
		default:
			return f
		}
	}
	return f
}

// pages is the number of pages of the file build lays out.
func (f bdbFan) pages() int {
	n := 1 + f.nHash + f.chainLen
	switch f.how {
	case "merge":
		n += f.nHash * f.perHash
	case "disjoint":
		n += f.nHash * f.perHash * f.chainLen
	}
	return n
}

// build lays the file out: page 0 metadata, pages 1..nHash hash pages, then the
// overflow pages.
func (f bdbFan) build() []byte {
	var ord binary.ByteOrder = binary.LittleEndian
	if f.big {
		ord = binary.BigEndian
	}
	ps := f.pageSz
	firstOv := 1 + f.nHash
	// Overflow pages: the shared chain, then (merge) one private first page per
	// item, or (disjoint) a private chain per item.
	type ovPage struct{ next, hf int }
	var ov []ovPage
	shared := make([]int, f.chainLen)
	for k := 0; k < f.chainLen; k++ {
		shared[k] = firstOv + len(ov)
		ov = append(ov, ovPage{})
	}
	for k := range shared {
		if k+1 < len(shared) {
			ov[shared[k]-firstOv].next = shared[k+1]
		} else {
			ov[shared[k]-firstOv].hf = 16
		}
	}
	firstOf := func(hp, i int) int { return shared[0] }
	switch f.how {
	case "merge":
		base := firstOv + len(ov)
		for hp := 0; hp < f.nHash; hp++ {
			for i := 0; i < f.perHash; i++ {
				ov = append(ov, ovPage{next: shared[0]})
			}
		}
		firstOf = func(hp, i int) int { return base + hp*f.perHash + i }
	case "disjoint":
		base := firstOv + len(ov)
		for hp := 0; hp < f.nHash; hp++ {
			for i := 0; i < f.perHash; i++ {
				for k := 0; k < f.chainLen; k++ {
					me := firstOv + len(ov)
					if k+1 < f.chainLen {
						ov = append(ov, ovPage{next: me + 1})
					} else {
						ov = append(ov, ovPage{hf: 16})
					}
				}
			}
		}
		firstOf = func(hp, i int) int { return base + (hp*f.perHash+i)*f.chainLen }
	}
	total := firstOv + len(ov)
	out := make([]byte, total*ps)
	m := out[:ps]
	ord.PutUint32(m[12:], 0x00061561)
	ord.PutUint32(m[16:], 9)
	ord.PutUint32(m[20:], uint32(ps))
	m[25] = 8
	ord.PutUint32(m[32:], uint32(total-1))
	for hp := 0; hp < f.nHash; hp++ {
		p := out[(1+hp)*ps : (2+hp)*ps]
		ord.PutUint32(p[8:], uint32(1+hp))
		p[25] = 13
		free := ps
		item := func(first int) int {
			free -= 12
			d := free
			p[d] = 3
			ord.PutUint32(p[d+4:], uint32(first))
			ord.PutUint32(p[d+8:], uint32(16))
			return d
		}
		one := -1
		for i := 0; i < f.perHash; i++ {
			var d int
			if f.how == "same-item" {
				if one < 0 {
					one = item(firstOf(hp, i))
				}
				d = one
			} else {
				d = item(firstOf(hp, i))
			}
			// the key half of the pair names the item as well (never looked at)
			ord.PutUint16(p[26+4*i:], uint16(d))
			ord.PutUint16(p[26+4*i+2:], uint16(d))
		}
		ord.PutUint16(p[20:], uint16(2*f.perHash))
		ord.PutUint16(p[22:], uint16(free))
	}
	for k, o := range ov {
		pn := firstOv + k
		p := out[pn*ps : (pn+1)*ps]
		ord.PutUint32(p[8:], uint32(pn))
		p[25] = 7
		ord.PutUint32(p[16:], uint32(o.next))
		ord.PutUint16(p[22:], uint16(o.hf))
		for i := 26; i < 26+16; i++ {
			p[i] = byte(pn)
		}
	}
	return out
}
