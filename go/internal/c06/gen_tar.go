package c06

import (
	"archive/tar"
	"bytes"
	"fmt"
	"strings"

	"github.com/quay/claircore/verifharness/internal/hx"
)

// genNumberField produces the bytes of a numeric tar header field: mostly the
// 12-byte size field in its octal and base-256 forms, with the edge cases
// parseNumber branches on.
func genNumberField(r *hx.Rand) []byte {
	n := 12
	if r.Chance(1, 8) {
		n = r.Intn(20)
	}
	b := make([]byte, n)
	switch r.Intn(9) {
	case 0: // plain octal, NUL/space terminated
		s := fmt.Sprintf("%o", r.U64()>>uint(r.Intn(64)))
		if len(s) > n {
			s = s[:n]
		}
		copy(b, s)
		for i := len(s); i < n; i++ {
			b[i] = []byte{0, ' '}[r.Intn(2)]
		}
	case 1: // right-aligned octal with leading zeros / spaces
		s := fmt.Sprintf("%o", r.U64()>>uint(30+r.Intn(34)))
		pad := byte('0')
		if r.Chance(1, 2) {
			pad = ' '
		}
		for i := range b {
			b[i] = pad
		}
		if n > 0 {
			b[n-1] = 0
			if len(s) < n {
				copy(b[n-1-len(s):], s)
			}
		}
	case 2: // base-256 positive
		if n > 0 {
			for i := range b {
				if i >= n-1-r.Intn(8) {
					b[i] = byte(r.U64())
				}
			}
			b[0] = 0x80
			if r.Chance(1, 4) {
				b[0] |= byte(r.Intn(64))
			}
			if r.Chance(1, 4) && n >= 10 {
				b[n-9+r.Intn(2)] = byte(r.U64()) // near the int64 boundary
			}
		}
	case 3: // base-256 negative
		if n > 0 {
			for i := range b {
				b[i] = 0xff
			}
			k := 1 + r.Intn(3)
			for i := 0; i < k && i < n; i++ {
				b[n-1-i] = byte(r.U64())
			}
			if r.Chance(1, 4) && n > 9 {
				b[n-8] = byte(r.U64())
				b[n-9] = byte(r.U64()) | 0x80
			}
		}
	case 4: // garbage
		for i := range b {
			b[i] = byte(r.U64())
		}
	case 5: // octal with junk inside
		for i := range b {
			const cs = "01234567 \x0089+-_x"
			b[i] = cs[r.Intn(len(cs))]
		}
	case 6: // blank
		for i := range b {
			b[i] = []byte{0, ' '}[r.Intn(2)]
		}
	case 7: // embedded NUL
		for i := range b {
			b[i] = byte('0' + r.Intn(8))
		}
		if n > 0 {
			b[r.Intn(n)] = 0
			if r.Chance(1, 2) {
				b[0] = ' '
			}
		}
	case 8: // too large for 63 bits (only possible with long fields)
		for i := range b {
			b[i] = '7'
		}
	}
	return b
}

func randName(r *hx.Rand, long bool) string {
	parts := []string{"etc", "usr", "lib", "var", "a", "b", "os-release", "rpm", "Packages", "x.jar", "bin", "ä", "dir with space"}
	n := 1 + r.Intn(3)
	var ps []string
	for i := 0; i < n; i++ {
		ps = append(ps, parts[r.Intn(len(parts))])
	}
	s := strings.Join(ps, "/")
	if long {
		s += "/" + strings.Repeat("n", 101+r.Intn(80))
	}
	return s
}

// genTar writes a small well-formed archive with the standard library's
// writer: the three header formats, every entry type findSegments
// distinguishes, PAX/GNU long-name prefixes, optional missing trailer.
func genTar(r *hx.Rand, maxEntries int) []byte {
	var buf bytes.Buffer
	tw := tar.NewWriter(&buf)
	n := r.Intn(maxEntries + 1)
	for i := 0; i < n; i++ {
		h := &tar.Header{Mode: 0o644}
		switch r.Intn(3) {
		case 0:
			h.Format = tar.FormatUSTAR
		case 1:
			h.Format = tar.FormatPAX
		case 2:
			h.Format = tar.FormatGNU
		}
		long := r.Chance(1, 6) && h.Format != tar.FormatUSTAR
		h.Name = randName(r, long)
		var body []byte
		switch r.Intn(10) {
		case 0, 1, 2, 3:
			h.Typeflag = tar.TypeReg
			sz := []int{0, 1, 511, 512, 513, 700, 1024, 1500}[r.Intn(8)]
			body = bytes.Repeat([]byte{byte('a' + r.Intn(26))}, sz)
			if r.Chance(1, 8) {
				// contents that look like a header block
				body = make([]byte, 512)
				copy(body[257:], "ustar\x0000")
				copy(body[124:], "00000000000\x00")
			}
		case 4, 5:
			h.Typeflag = tar.TypeDir
			h.Name += "/"
			h.Mode = 0o755
		case 6:
			h.Typeflag = tar.TypeSymlink
			h.Linkname = randName(r, long && r.Chance(1, 2))
		case 7:
			h.Typeflag = tar.TypeLink
			h.Linkname = randName(r, false)
		case 8:
			h.Typeflag = []byte{tar.TypeFifo, tar.TypeChar, tar.TypeBlock}[r.Intn(3)]
		case 9:
			h.Typeflag = tar.TypeReg
			if h.Format == tar.FormatPAX || h.Format == tar.FormatUnknown {
				h.Format = tar.FormatPAX
				h.PAXRecords = map[string]string{"SCHILY.xattr.user.k": strings.Repeat("v", r.Intn(40))}
			}
			body = []byte("x")
		}
		h.Size = int64(len(body))
		if err := tw.WriteHeader(h); err != nil {
			continue
		}
		tw.Write(body)
	}
	if r.Chance(1, 5) {
		tw.Flush() // no trailer
	} else {
		tw.Close()
	}
	return append([]byte(nil), buf.Bytes()...)
}

// headerOffsets walks a well-formed archive and returns the offsets of its
// header blocks.
func headerOffsets(b []byte) []int {
	var offs []int
	for off := 0; off+512 <= len(b); {
		blk := b[off : off+512]
		if bytes.Equal(blk, make([]byte, 512)) {
			break
		}
		offs = append(offs, off)
		var sz int64
		fmt.Sscanf(strings.TrimRight(string(blk[124:136]), " \x00"), "%o", &sz)
		if sz < 0 || sz > 1<<20 {
			break
		}
		off += 512 + int((sz+511)/512)*512
	}
	return offs
}

func put(b []byte, off int, s []byte) {
	if off >= 0 && off+len(s) <= len(b) {
		copy(b[off:], s)
	}
}

func base256(v int64) []byte {
	b := make([]byte, 12)
	u := uint64(v)
	fill := byte(0)
	if v < 0 {
		fill = 0xff
	}
	for i := range b {
		b[i] = fill
	}
	for i := 0; i < 8; i++ {
		b[11-i] = byte(u >> (8 * uint(i)))
	}
	b[0] |= 0x80
	return b
}

// mutateTar applies one structure-aware edit (sometimes two) and names it.
func mutateTar(r *hx.Rand, base []byte) ([]byte, string) {
	b := append([]byte(nil), base...)
	var offs []int
	pick := func() int {
		if len(offs) == 0 {
			return 0
		}
		return offs[r.Intn(len(offs))]
	}
	how := ""
	rounds := 1
	if r.Chance(1, 5) {
		rounds = 2
	}
	for ; rounds > 0; rounds-- {
		var name string
		offs = headerOffsets(b)
		switch r.Intn(13) {
		case 0:
			name = "truncate-block"
			if len(b) >= 512 {
				b = b[:512*r.Intn(len(b)/512+1)]
			}
		case 1:
			name = "truncate-mid"
			if len(b) > 0 {
				b = b[:r.Intn(len(b))]
			}
		case 2:
			name = "size-octal"
			v := []int64{0, 1, 511, 512, 513, 4096, 1 << 20, 0o77777777777, int64(len(b)), int64(len(b)) * 2}[r.Intn(10)]
			put(b, pick()+124, []byte(fmt.Sprintf("%011o\x00", v)))
		case 3:
			name = "size-base256-pos"
			v := []int64{0, 1, 512, 1024, 1 << 31, 1 << 40, 1<<62 + 5, 1<<63 - 1, 1<<63 - 512, 1<<63 - 1024}[r.Intn(10)]
			put(b, pick()+124, base256(v))
		case 4:
			name = "size-base256-neg"
			v := []int64{-1, -2, -511, -512, -513, -1024, -1536, -1 << 40, -1 << 63}[r.Intn(9)]
			put(b, pick()+124, base256(v))
		case 5:
			name = "size-garbage"
			put(b, pick()+124, genNumberField(r)[:0])
			f := genNumberField(r)
			for len(f) < 12 {
				f = append(f, 0)
			}
			put(b, pick()+124, f[:12])
		case 6:
			name = "magic"
			m := [][]byte{[]byte("ustar\x00"), []byte("ustar "), []byte("ustar  \x00"), []byte("xstar\x00"), {0, 0, 0, 0, 0, 0}, []byte("USTAR\x00"), []byte("ustar \x00\x00")}[r.Intn(7)]
			put(b, pick()+257, m)
		case 7:
			name = "version"
			put(b, pick()+263, [][]byte{[]byte("00"), []byte(" \x00"), []byte("01"), {0, 0}, []byte("0 ")}[r.Intn(5)])
		case 8:
			name = "typeflag"
			const tf = "xgLKS01234567\x00ZAN\xffVM"
			put(b, pick()+156, []byte{tf[r.Intn(len(tf))]})
		case 9:
			name = "zero-block"
			at := pick()
			if r.Chance(1, 2) && len(b) >= 512 {
				at = 512 * r.Intn(len(b)/512+1)
			}
			if at > len(b) {
				at = len(b)
			}
			z := make([]byte, 512)
			if r.Chance(1, 3) {
				z = append(z, make([]byte, 512)...)
			}
			b = append(b[:at:at], append(z, b[at:]...)...)
		case 10:
			name = "flip"
			for k := 1 + r.Intn(3); k > 0 && len(b) > 0; k-- {
				b[r.Intn(len(b))] ^= byte(1 << uint(r.Intn(8)))
			}
		case 11:
			name = "append-garbage"
			g := make([]byte, r.Intn(700))
			for i := range g {
				g[i] = byte(r.U64())
			}
			if r.Chance(1, 2) {
				g = make([]byte, r.Intn(1100)) // zeros of odd length
			}
			b = append(b, g...)
		case 12:
			name = "splice"
			o := genTar(r, 3)
			at := 0
			if len(b) >= 512 {
				at = 512 * r.Intn(len(b)/512+1)
			}
			b = append(b[:at:at], o...)
		}
		if how != "" {
			how += "+"
		}
		how += name
	}
	return b, how
}

// genLinkTar writes an archive over a tiny name pool so that entries collide:
// symlinks and hard links to each other, to themselves, to parents and to
// missing names, directories replaced by files and the reverse.
func genLinkTar(r *hx.Rand) []byte {
	pool := []string{"a", "b", "c", "a/b", "a/c", "b/a", "d/e/f", ".", "..", "/a", "a/../b", "./a/", "a//b"}
	var buf bytes.Buffer
	tw := tar.NewWriter(&buf)
	n := 1 + r.Intn(8)
	for i := 0; i < n; i++ {
		h := &tar.Header{Name: pool[r.Intn(len(pool))], Mode: 0o644, Format: tar.FormatPAX}
		var body []byte
		switch r.Intn(6) {
		case 0, 1:
			h.Typeflag = tar.TypeReg
			body = []byte("x")
		case 2:
			h.Typeflag = tar.TypeDir
			h.Mode = 0o755
		case 3, 4:
			h.Typeflag = tar.TypeSymlink
			h.Linkname = pool[r.Intn(len(pool))]
		case 5:
			h.Typeflag = tar.TypeLink
			h.Linkname = pool[r.Intn(len(pool))]
		}
		h.Size = int64(len(body))
		if err := tw.WriteHeader(h); err != nil {
			continue
		}
		tw.Write(body)
	}
	tw.Close()
	return append([]byte(nil), buf.Bytes()...)
}
