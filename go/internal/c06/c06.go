// Package c06 is the harness of property C06 (untrusted layer content cannot
// hang or crash the indexer).
//
// It has two halves. The correspondence half drives the readers that have a
// Lean model (tarfs.findSegments / parseNumber, the rpm header parser and
// Info.Load, the bdb and ndb walkers) on structure-aware mutations of
// well-formed inputs and emits the line protocol. The search half builds whole
// layers around mutated package databases / metadata files and runs
// Layer.Init and every built-in scanner on them in a child process, under a
// watchdog (a crash of the process, a timeout and the bytes allocated are
// observations).
package c06

import (
	"bytes"
	"crypto/sha256"
	"encoding/hex"
	"errors"
	"fmt"
	"io"
	"os"
	"path/filepath"
	"sort"
	"strings"
	"sync/atomic"
	"time"

	"github.com/quay/zlog"
	"github.com/rs/zerolog"

	"github.com/quay/claircore/pkg/tarfs"
	"github.com/quay/claircore/verifharness/internal/hx"
)

// limitReader counts ReadAt calls and aborts (by panicking with errRunaway)
// when a reader makes more calls than any terminating run could: the
// deterministic stand-in for a timeout.
type limitReader struct {
	r     io.ReaderAt
	size  int64
	reads int
	bytes int64
	limit int
	// hdrLen/hdrAlign select the reads counted per position in hdr: reads of
	// exactly hdrLen bytes at offsets that are multiples of hdrAlign (the page
	// headers of a paged file).
	hdrLen   int
	hdrAlign int64
	hdr      map[int64]int
}

type runaway struct{}

func (l *limitReader) ReadAt(p []byte, off int64) (int, error) {
	l.reads++
	l.bytes += int64(len(p))
	if l.hdrAlign > 0 && len(p) == l.hdrLen && off%l.hdrAlign == 0 {
		if l.hdr == nil {
			l.hdr = map[int64]int{}
		}
		l.hdr[off/l.hdrAlign]++
	}
	if l.reads > l.limit {
		panic(runaway{})
	}
	return l.r.ReadAt(p, off)
}

func (l *limitReader) Size() int64 { return l.size }

func newLimit(b []byte, limit int) *limitReader {
	return &limitReader{r: bytes.NewReader(b), size: int64(len(b)), limit: limit}
}

// guard runs f; a panic is the observation "panic", a runaway reader "hang".
func guard(f func() string) (out string) {
	defer func() {
		if e := recover(); e != nil {
			if _, ok := e.(runaway); ok {
				out = "hang"
				return
			}
			out = "panic"
		}
	}()
	return f()
}

// deadline runs f (an in-process call into the library that has no reader to
// count: a loop that does not read cannot be aborted from outside) in its own
// goroutine and answers "hang" when it has not returned after 30 s, thousands
// of times what any of these small inputs needs. The goroutine is left behind
// (it may spin); the caller reports the input and the run goes on.
func deadline(f func() string) string {
	done := make(chan string, 1)
	go func() { done <- guard(f) }()
	select {
	case out := <-done:
		return out
	case <-time.After(30 * time.Second):
		return "hang"
	}
}

type harness struct {
	cfg hx.Config
	r   *hx.Run
	rnd *hx.Rand

	tarfsAllocMax uint64
	ndbAlloc      uint64
	unclassified  atomic.Int64
	dumped        atomic.Int64
}

// fail reports a failure of the property statement on the implementation and
// keeps count of the unclassified ones.
func (h *harness) fail(class, witness string) {
	if class == "" {
		h.unclassified.Add(1)
	}
	h.r.Fail(class, witness)
}

// dumpWitness writes a failing input too large for a line into the output
// directory (the first 16 of a run) and returns how to name it.
func (h *harness) dumpWitness(kind string, b []byte) string {
	sum := sha256.Sum256(b)
	d := hex.EncodeToString(sum[:])
	name := kind + "-fail-" + d[:16] + ".bin"
	if n := h.dumped.Add(1); n <= 16 && h.cfg.OutDir != "" && len(b) <= 64<<20 {
		if os.WriteFile(filepath.Join(h.cfg.OutDir, name), b, 0o644) == nil {
			return fmt.Sprintf("sha256:%s,size=%d,file=%s", d, len(b), name)
		}
	}
	return fmt.Sprintf("sha256:%s,size=%d", d, len(b))
}

// quiet silences the library's logging (malformed inputs make it chatty).
func quiet() {
	l := zerolog.Nop()
	zlog.Set(&l)
}

func Run(cfg hx.Config) error {
	quiet()
	r, err := hx.NewRun(cfg)
	if err != nil {
		return err
	}
	defer r.Close()
	h := &harness{cfg: cfg, r: r, rnd: hx.NewRand(cfg.Seed)}
	r.Rule = "well-formed tar archives / rpm headers / bdb and ndb package databases from grammar-directed generators, then structure-aware mutations " +
		"(truncation at structural boundaries, field-targeted edits of sizes, counts, offsets, types, magics, page links; byte flips; splices). " +
		"An op is non-trivial when the real reader got past its first validity check (for tar: read at least two blocks or reported a segment). " +
		"Search half: layers assembled from 1-4 generated files at the paths the built-in scanners read (dpkg, apk, rpm bdb/ndb/sqlite, python, nodejs, ruby, jars incl. nested and lying zip headers, Go executables, os-release family, content manifests, Dockerfiles, whiteouts), each file well-formed or mutated, plus mutated tar streams and hand-built tar oddities (link loops, colliding names, huge sizes, PAX records); Layer.Init and each of the 23 scanners is one evaluation, non-trivial when the scanner returned items or an error."
	// The search runs first: its observations come from child processes, so
	// nothing the implementation does there can take the harness down. When it
	// already has a concrete unclassified failure, the in-process part (which a
	// fatal error of the implementation would kill, losing that witness) is skipped.
	if os.Getenv("C06_ONLY") == "race" {
		// development aid: the race-detector pass alone
		built := make(chan raceBuild, 1)
		built <- buildRaceWorker(cfg)
		h.raceStream(built)
		return nil
	}
	if os.Getenv("C06_ONLY") != "inproc" { // development aid: skip the search half
		h.searchStream()
	}
	if n := h.unclassified.Load(); n > 0 {
		r.Notes["in_process_streams"] = fmt.Sprintf("skipped: the search reported %d unclassified failure(s)", n)
		return nil
	}
	h.corpus()
	h.knownWitnesses()
	h.pnumStream()
	h.segStream()
	h.rpmHdrStream()
	h.bdbStream()
	h.bdbFanStream()
	h.fieldSweepStream()
	h.xdbStream()
	h.dlexStream()
	h.linksStream()
	h.ndbStream()
	return nil
}

// corpus replays the committed witnesses first (corpus/C06/*.ops: protocol
// lines "seg <hex>", "pnum <hex>", ...).
func (h *harness) corpus() {
	if h.cfg.Corpus == "" {
		return
	}
	ents, err := os.ReadDir(h.cfg.Corpus)
	if err != nil {
		return
	}
	var names []string
	for _, e := range ents {
		if strings.HasSuffix(e.Name(), ".ops") {
			names = append(names, e.Name())
		}
	}
	sort.Strings(names)
	for _, n := range names {
		b, err := os.ReadFile(filepath.Join(h.cfg.Corpus, n))
		if err != nil {
			continue
		}
		for _, line := range strings.Split(string(b), "\n") {
			line = strings.TrimSpace(line)
			if line == "" || strings.HasPrefix(line, "#") {
				continue
			}
			h.r.Count("corpus:" + n)
			h.replayLine(line)
		}
	}
}

func (h *harness) replayLine(line string) {
	f := strings.Fields(line)
	if len(f) == 3 {
		h.replayLine3(f)
		return
	}
	if len(f) == 2 && f[0] == "links" {
		h.opLinks(f[1], "corpus")
		return
	}
	if len(f) != 2 {
		return
	}
	b, err := hx.Unhex(f[1])
	if err != nil {
		return
	}
	switch f[0] {
	case "pnum":
		h.opPnum(b)
	case "seg":
		h.opSeg(b, "corpus")
		h.opTarfs(b, "corpus")
	case "rpmhdr":
		h.opRpmHdr(b, "corpus")
	case "bdb":
		h.opBdb(b, "corpus")
	case "ndb":
		h.opNdb(b, "corpus")
	}
}

// replayLine3 replays the corpus lines with two arguments.
func (h *harness) replayLine3(f []string) {
	b, err := hx.Unhex(f[2])
	if err != nil {
		return
	}
	if f[0] == "dlex" {
		var esc int
		if _, err := fmt.Sscanf(f[1], "%d", &esc); err == nil {
			h.opDlex(b, rune(esc), "corpus")
		}
	}
}

// ---- parseNumber ----

func (h *harness) opPnum(b []byte) {
	out := guard(func() string {
		v, err := tarfs.ParseNumberForVerif(b)
		if err != nil {
			return "err"
		}
		return fmt.Sprintf("ok %d", v)
	})
	if out == "panic" {
		h.fail("", "parseNumber-panic field="+hx.Hex(b))
	}
	h.r.Count("pnum:" + strings.Fields(out)[0])
	h.r.Op("pnum "+hx.Hex(b), out, out != "err")
}

func (h *harness) pnumStream() {
	n := h.cfg.N(600, 20000)
	for i := 0; i < n && !h.r.Stop(); i++ {
		h.opPnum(genNumberField(h.rnd))
	}
}

// ---- findSegments ----

func (h *harness) opSeg(b []byte, how string) {
	blocks := len(b) / 512
	lr := newLimit(b, 4*blocks+16)
	var nseg int
	bad := ""
	out := guard(func() string {
		segs, err := tarfs.FindSegmentsForVerif(lr)
		if err != nil {
			if errors.Is(err, tarfs.ErrFormat) {
				return fmt.Sprintf("err:format reads=%d", lr.reads)
			}
			return fmt.Sprintf("err:io reads=%d", lr.reads)
		}
		nseg = len(segs)
		var sb strings.Builder
		fmt.Fprintf(&sb, "ok reads=%d n=%d", lr.reads, len(segs))
		prevEnd := int64(0)
		for _, s := range segs {
			fmt.Fprintf(&sb, " %d:%d", s.Start, s.Size)
			if s.Start < prevEnd || s.Size < 512 || s.Start%512 != 0 || s.Start+s.Size >= int64(len(b))+512 {
				bad = fmt.Sprintf("segment %d:%d (previous end %d, archive %d bytes)", s.Start, s.Size, prevEnd, len(b))
			}
			prevEnd = s.Start + s.Size
		}
		return sb.String()
	})
	// the statement, directly on the implementation
	switch {
	case out == "panic":
		h.fail("", "findSegments-panic tar="+hx.Hex(b))
	case out == "hang":
		h.fail("", fmt.Sprintf("findSegments-does-not-terminate (more than %d block reads of a %d-block archive) tar=%s", lr.limit, blocks, hx.Hex(b)))
	case bad != "":
		h.fail("", "findSegments-segment-outside-archive-or-overlapping "+bad+" tar="+hx.Hex(b))
	case lr.reads > 2*blocks+2:
		h.fail("", fmt.Sprintf("findSegments-reads-not-linear reads=%d blocks=%d tar=%s", lr.reads, blocks, hx.Hex(b)))
	case nseg > blocks:
		h.fail("", fmt.Sprintf("findSegments-more-segments-than-blocks n=%d blocks=%d tar=%s", nseg, blocks, hx.Hex(b)))
	}
	for _, m := range strings.Split(how, "+") {
		h.r.Count("seg:" + m)
	}
	h.r.Count("seg-out:" + strings.Fields(out)[0])
	h.r.Count(fmt.Sprintf("seg-blocks:%s", bucket(blocks)))
	h.r.Op("seg "+hx.Hex(b), out, lr.reads >= 2 || nseg > 0)
}

func bucket(n int) string {
	switch {
	case n == 0:
		return "0"
	case n <= 2:
		return "1-2"
	case n <= 8:
		return "3-8"
	case n <= 32:
		return "9-32"
	default:
		return "33+"
	}
}

func (h *harness) segStream() {
	n := h.cfg.N(700, 20000)
	for i := 0; i < n && !h.r.Stop(); i++ {
		base := genTar(h.rnd, 6)
		if h.rnd.Chance(1, 3) {
			// colliding names and links: the interesting input of add/walkTo/Open
			lt := genLinkTar(h.rnd)
			h.opSeg(lt, "links")
			h.opTarfs(lt, "links")
			continue
		}
		if h.rnd.Chance(1, 6) {
			h.opSeg(base, "wellformed")
			h.opTarfs(base, "wellformed")
			continue
		}
		m, how := mutateTar(h.rnd, base)
		h.opSeg(m, how)
		h.opTarfs(m, how)
	}
}
