package c06

// The search half: generated layers are run through Layer.Init and every
// built-in scanner in child processes under a watchdog. A recovered panic, a
// dead worker, a worker that does not answer and an allocation out of
// proportion to the layer are failures of the property statement.

import (
	"bufio"
	"bytes"
	"crypto/sha256"
	"encoding/binary"
	"encoding/hex"
	"fmt"
	"io"
	"os"
	"os/exec"
	"path/filepath"
	"sort"
	"strconv"
	"strings"
	"sync"
	"time"

	"github.com/quay/claircore/verifharness/internal/hx"
)

const (
	searchWorkers = 8
	searchBatch   = 64

	// The allocation bound: a call (Layer.Init or one Scan) may allocate at
	// most allocBoundA + allocBoundB*len(layer) bytes.
	//
	// Calibration (seeds 1..5 quick, seed 1 thorough; witnesses, tar oddities,
	// layers holding the harness binary, well-formed and mutated content; the
	// java scanner on layers with a deflated nested jar member or manifest is
	// the listed finding jar-deflate-bomb and not part of it). Observed maxima,
	// exact:
	//
	//   on layers of at most 64 KiB: 13.8 MB (gobin on a small ELF whose section
	//     header claims a huge size: debug/elf reads it in chunks of 10 MiB);
	//     then java 5.5 MB, rhel repository / container scanners 4.1 MB
	//     (Dockerfile variable expansion, bounded), dpkg-distroless 1.6 MB,
	//     everything else below 1 MB;
	//   on any layer: nodejs 62.3 MB (8000 package.json files, 8 MiB layer),
	//     gobin 26.5 MB and Layer.Init 22.1 MB (the harness binary, ~50 MB);
	//   (alloc - 16 MiB) / len never above 5.6 (nodejs, the 8000 files).
	//
	// So every observed call stayed below 16 MiB + 5.6*len; A and B are at
	// least 8 times that (A: 9.7 times the small-layer maximum, B: 11 times).
	// The table of maxima of the current run is in Notes["alloc_max"].
	allocBoundA = 128 << 20
	allocBoundB = 64

	// The read bound: a call may read at most readBoundA + readBoundB*len(layer)
	// bytes of the layer blob (counted at the io.ReaderAt handed to Layer.Init).
	// Observed maxima (Notes["read_max"]: bytes read / (len+4096)) are at most 2
	// for every single call: Layer.Init reads the archive once, a scanner its
	// files once or twice. The concurrent calls read the sum of all scanners on
	// two layers and are not held to the bound.
	readBoundA = 4 << 20
	readBoundB = 8
	// No single 512-byte block of the layer is read more than this many times
	// in one call (observed maxima in Notes["read_max"]): a file that is opened
	// again for every candidate (an rpm database by a language scanner whose
	// cached file list is dropped between lookups) has its first block read once
	// per opening.
	blockReadBound = 24
)

func hangTimeout(cfg hx.Config, size int) time.Duration {
	d := 20 * time.Second
	if cfg.Thorough() {
		d = 40 * time.Second
	}
	// large layers (the harness binary): two more seconds per MiB
	return d + time.Duration(size>>20)*2*time.Second
}

// ---- one worker process ----

type frame struct {
	typ byte
	p   []byte
}

type tailBuf struct {
	mu sync.Mutex
	b  []byte
}

func (t *tailBuf) Write(p []byte) (int, error) {
	t.mu.Lock()
	if len(t.b) < 1<<16 {
		t.b = append(t.b, p...)
	}
	t.mu.Unlock()
	return len(p), nil
}

// firstFatal returns the line of the worker's stderr that names why it died.
func (t *tailBuf) firstFatal() string {
	t.mu.Lock()
	defer t.mu.Unlock()
	if r := raceSummary(string(t.b)); r != "" {
		return r
	}
	for _, l := range strings.Split(string(t.b), "\n") {
		if strings.HasPrefix(l, "fatal error:") || strings.HasPrefix(l, "panic:") || strings.HasPrefix(l, "runtime:") || strings.HasPrefix(l, "SIG") {
			return oneLine(l, 200)
		}
	}
	return "-"
}

// raceSummary condenses a report of the race detector: the kind of the two
// accesses and the innermost function of each that is not the runtime's.
func raceSummary(stderr string) string {
	i := strings.Index(stderr, "WARNING: DATA RACE")
	if i < 0 {
		return ""
	}
	var parts []string
	lines := strings.Split(stderr[i:], "\n")
	for k := 1; k < len(lines) && len(parts) < 2; k++ {
		l := lines[k]
		if !(strings.Contains(l, " by goroutine ") || strings.Contains(l, " by main goroutine")) || strings.HasPrefix(l, "Goroutine ") {
			continue
		}
		kind := strings.ToLower(strings.TrimPrefix(strings.Fields(l)[0], "Previous"))
		if strings.HasPrefix(l, "Previous ") {
			kind = "previous " + strings.ToLower(strings.Fields(l)[1])
		}
		fn := "?"
		for j := k + 1; j < len(lines) && strings.HasPrefix(lines[j], "  "); j += 2 {
			f := strings.TrimSpace(lines[j])
			if !strings.HasPrefix(f, "runtime.") && !strings.HasPrefix(f, "internal/") {
				fn = f
				break
			}
		}
		fn = strings.TrimSuffix(fn, "()")
		parts = append(parts, kind+" in "+fn)
	}
	return oneLine("DATA RACE: "+strings.Join(parts, " / "), 400)
}

type worker struct {
	cmd    *exec.Cmd
	in     io.WriteCloser
	frames chan frame
	stderr *tailBuf
}

type pool struct {
	exe  string
	race bool // exe is built with the race detector
	// noWarm: a worker died of a fatal error while warming up; workers are
	// started without the warm-up and the warm-up layer is evaluated as the
	// first job, so that the death is charged to a call. startErr is what the
	// first worker died of.
	noWarm   bool
	startErr error
	dir      string
	names    []string
	skipped  []string
	mu       sync.Mutex
	live     map[*worker]struct{}
	spawnMu  sync.Mutex
	err      error
}

func newPool() (*pool, error) {
	// The workers must be this very program, also when the file it was started
	// from is replaced while it runs (a rebuild by a concurrent ./check): the
	// kernel's link to the running image, where there is one.
	exe := "/proc/self/exe"
	if _, err := os.Stat(exe); err != nil {
		var err error
		if exe, err = os.Executable(); err != nil {
			return nil, err
		}
	}
	return newPoolOf(exe, false)
}

func newPoolOf(exe string, race bool) (*pool, error) {
	dir, err := os.MkdirTemp("", "c06-search-")
	if err != nil {
		return nil, err
	}
	if err := writeWorkerConfig(dir); err != nil {
		os.RemoveAll(dir)
		return nil, err
	}
	p := &pool{exe: exe, race: race, dir: dir, live: map[*worker]struct{}{}}
	// The first worker tells the scanner set.
	w, err := p.spawn()
	if err != nil && strings.Contains(err.Error(), "did not start: ") && !strings.HasSuffix(err.Error(), "did not start: -") {
		p.noWarm, p.startErr = true, err
		w, err = p.spawn()
	}
	if err != nil {
		p.close()
		return nil, err
	}
	p.kill(w)
	return p, nil
}

func (p *pool) spawn() (*worker, error) {
	cmd := exec.Command(p.exe)
	// Two processors: a goroutine that a scanner wakes (the reference counting
	// of the rpm files cache hangs on such goroutines) then runs at once, as it
	// does in the indexer, and not only when the scanner is next preempted.
	cmd.Env = append(os.Environ(), envWorker+"=1", envWorkerDir+"="+p.dir, "TMPDIR="+p.dir, "GOMAXPROCS=2", "GOTRACEBACK=single")
	if p.noWarm {
		cmd.Env = append(cmd.Env, envWorkerNoWarm+"=1")
	}
	if p.race {
		// A detected race ends the worker at once (exit code 66); the report on
		// stderr names the two accesses.
		cmd.Env = append(cmd.Env, envWorkerRace+"=1", "GORACE=halt_on_error=1 exitcode=66")
	}
	in, err := cmd.StdinPipe()
	if err != nil {
		return nil, err
	}
	out, err := cmd.StdoutPipe()
	if err != nil {
		return nil, err
	}
	w := &worker{cmd: cmd, in: in, frames: make(chan frame, 64), stderr: &tailBuf{}}
	cmd.Stderr = w.stderr
	if err := cmd.Start(); err != nil {
		return nil, err
	}
	p.mu.Lock()
	p.live[w] = struct{}{}
	p.mu.Unlock()
	go func() {
		rd := bufio.NewReaderSize(out, 1<<16)
		for {
			t, b, err := readFrame(rd)
			if err != nil {
				close(w.frames)
				return
			}
			w.frames <- frame{t, b}
		}
	}()
	select {
	case f, ok := <-w.frames:
		if !ok || f.typ != 'H' {
			p.kill(w)
			return nil, fmt.Errorf("c06: worker did not start: %s", w.stderr.firstFatal())
		}
		parts := strings.SplitN(string(f.p), "\n\n", 2)
		p.spawnMu.Lock()
		if p.names == nil {
			p.names = strings.Split(parts[0], "\n")
			if len(parts) == 2 {
				p.skipped = strings.Split(parts[1], "\n")
			}
		}
		p.spawnMu.Unlock()
	case <-time.After(60 * time.Second):
		p.kill(w)
		return nil, fmt.Errorf("c06: worker did not start within 60 s")
	}
	return w, nil
}

func (p *pool) kill(w *worker) {
	if w == nil {
		return
	}
	p.mu.Lock()
	_, ok := p.live[w]
	delete(p.live, w)
	p.mu.Unlock()
	if !ok {
		return
	}
	w.in.Close()
	w.cmd.Process.Kill()
	w.cmd.Wait()
	for range w.frames {
	}
}

func (p *pool) close() {
	p.mu.Lock()
	var ws []*worker
	for w := range p.live {
		ws = append(ws, w)
	}
	p.mu.Unlock()
	for _, w := range ws {
		p.kill(w)
	}
	os.RemoveAll(p.dir)
}

func (p *pool) failed() error {
	p.mu.Lock()
	defer p.mu.Unlock()
	return p.err
}

func (p *pool) fail(err error) {
	p.mu.Lock()
	if p.err == nil {
		p.err = err
	}
	p.mu.Unlock()
}

// ---- evaluating one layer ----

type callRes struct {
	status string // ok, err, panic, crash, hang
	items  int
	alloc  uint64
	leaked int
	stuck  int
	read   uint64 // bytes the call read from the layer blob
	// maxBlock: the largest number of reads of one 512-byte block, and the block
	maxBlock   int
	whichBlock int64
	msg        string
}

type layerRes struct {
	init  callRes
	calls []callRes // by scanner index; status "" = not run
}

func request(idx []int, blob []byte) []byte {
	b := make([]byte, 2+2*len(idx), 2+2*len(idx)+len(blob))
	binary.BigEndian.PutUint16(b, uint16(len(idx)))
	for i, x := range idx {
		binary.BigEndian.PutUint16(b[2+2*i:], uint16(x))
	}
	return append(b, blob...)
}

// run sends the layer to the worker and collects answers until the layer is
// done, the worker dies or the deadline passes. It returns the index of the
// call in flight at that moment (-1 Init, -2 none) and what happened
// ("done", "crash", "hang").
func (p *pool) run(w *worker, idx []int, blob []byte, timeout time.Duration, res *layerRes) (int, string) {
	sent := make(chan error, 1)
	go func() { sent <- writeFrame(w.in, 'L', request(idx, blob)) }()
	timer := time.NewTimer(timeout)
	defer timer.Stop()
	cur := -2
	for {
		select {
		case f, ok := <-w.frames:
			if !ok {
				return cur, "crash"
			}
			switch f.typ {
			case 'S':
				cur, _ = strconv.Atoi(string(f.p))
			case 'R':
				fs := strings.SplitN(string(f.p), " ", 7)
				if len(fs) != 7 {
					continue
				}
				i, _ := strconv.Atoi(fs[0])
				c := callRes{status: fs[1], msg: fs[6]}
				if rf := strings.Split(fs[5], "/"); len(rf) == 3 {
					c.read, _ = strconv.ParseUint(rf[0], 10, 64)
					mb, _ := strconv.ParseUint(rf[1], 10, 32)
					c.maxBlock = int(mb)
					c.whichBlock, _ = strconv.ParseInt(rf[2], 10, 64)
				}
				c.items, _ = strconv.Atoi(fs[2])
				c.alloc, _ = strconv.ParseUint(fs[3], 10, 64)
				if l, st, ok := strings.Cut(fs[4], "/"); ok {
					c.leaked, _ = strconv.Atoi(l)
					c.stuck, _ = strconv.Atoi(st)
				}
				if i == -1 {
					res.init = c
				} else if i >= 0 && i < len(res.calls) {
					res.calls[i] = c
				}
				cur = -2
			case 'D':
				return cur, "done"
			}
		case <-timer.C:
			return cur, "hang"
		}
	}
}

// evalLayer runs Init and every scanner on the blob. slot is the caller's
// worker (replaced when it has to be killed).
func (p *pool) evalLayer(slot **worker, blob []byte, timeout time.Duration, concurrent bool) layerRes {
	res := layerRes{calls: make([]callRes, len(p.names))}
	var todo []int
	for i, n := range p.names {
		if p.race {
			// the race pool runs the concurrent calls only
			if isPseudo(n) {
				todo = append(todo, i)
			}
		} else if concurrent || !isPseudo(n) {
			todo = append(todo, i)
		}
	}
	for attempt := 0; attempt < len(p.names)+2; attempt++ {
		if *slot == nil {
			w, err := p.spawn()
			if err != nil {
				p.fail(err)
				return res
			}
			*slot = w
		}
		w := *slot
		cur, what := p.run(w, todo, blob, timeout, &res)
		if what == "done" {
			return res
		}
		msg := "-"
		if what == "crash" {
			w.cmd.Wait()
			msg = w.stderr.firstFatal()
		}
		p.kill(w)
		*slot = nil
		bad := callRes{status: what, msg: msg}
		switch {
		case cur == -1:
			res.init = bad
			return res
		case cur >= 0 && cur < len(res.calls):
			// Name the scanner with confidence: the same layer and this scanner
			// alone in a fresh worker.
			if what == "crash" {
				bad.msg += p.isolate(cur, blob, timeout)
			}
			res.calls[cur] = bad
			var rest []int
			for _, i := range todo {
				if i != cur && res.calls[i].status == "" {
					rest = append(rest, i)
				}
			}
			todo = rest
			if len(todo) == 0 {
				return res
			}
		default:
			// Between calls (collection, Layer.Close, frame handling): charge
			// the layer as a whole.
			// (whatever Init had answered: a worker that dies after a failed
			// Init died of what that Init left behind)
			res.init = callRes{status: what, msg: fmt.Sprintf("between calls (Layer.Init had answered %q): %s", res.init.status, msg)}
			return res
		}
	}
	return res
}

// isPseudo: the calls that run several scanners at once (only for layers marked concurrent).
func isPseudo(name string) bool { return strings.HasPrefix(name, "concurrent/") }

func (p *pool) isolate(i int, blob []byte, timeout time.Duration) string {
	w, err := p.spawn()
	if err != nil {
		return " (isolation run failed to start)"
	}
	defer p.kill(w)
	res := layerRes{calls: make([]callRes, len(p.names))}
	cur, what := p.run(w, []int{i}, blob, timeout, &res)
	if what != "done" && cur == i {
		return " (reproduced with this scanner alone in a fresh worker: " + what + ")"
	}
	return " (not reproduced with this scanner alone: " + what + " " + res.calls[i].status + ")"
}

// ---- the stream ----

type job struct {
	gen func(r *hx.Rand) genLayer
}

type allocStat struct {
	maxAlloc      uint64  // any layer
	maxAllocSmall uint64  // layers of at most 64 KiB
	maxRatio      float64 // alloc / len, any layer
	maxRatioLarge float64 // alloc / len, layers above 64 KiB
	maxExcess     float64 // (alloc - allocBoundA/8) / len, any layer
}

type searchState struct {
	h        *harness
	p        *pool
	stats    map[string]*allocStat
	reads    map[string]float64 // max bytes read / (len+4096), by call
	maxBlock map[string]int     // max reads of one block, by call
	race     bool               // the pool's workers are built with the race detector: concurrent calls only
	leaks    []string
	diffs    []string
	dumped   map[string]bool
}

func pow2ceil(v uint64) uint64 {
	x := uint64(1)
	for x < v {
		x <<= 1
	}
	return x
}

func sizeBucket(n int) string {
	switch {
	case n <= 1024:
		return "<=1K"
	case n <= 4096:
		return "<=4K"
	case n <= 16<<10:
		return "<=16K"
	case n <= 64<<10:
		return "<=64K"
	case n <= 256<<10:
		return "<=256K"
	case n <= 1<<20:
		return "<=1M"
	case n <= 8<<20:
		return "<=8M"
	}
	return ">8M"
}

func ratioBucket(alloc uint64, size int) string {
	bound := float64(allocBoundA) + float64(allocBoundB)*float64(size)
	f := float64(alloc) / bound
	switch {
	case f <= 1.0/1024:
		return "<=bound/1024"
	case f <= 1.0/64:
		return "<=bound/64"
	case f <= 1.0/8:
		return "<=bound/8"
	case f <= 1:
		return "<=bound"
	}
	return ">bound"
}

// mutNames reduces a recorded mutation ("<file kind>:<where>:<name>+<name>")
// to the names counted in the histogram: the file kind is counted on its own.
func mutNames(m string) []string {
	if i := strings.IndexByte(m, ':'); i >= 0 && !strings.HasPrefix(m, "tar:") && !strings.HasPrefix(m, "oddity:") && !strings.HasPrefix(m, "witness:") {
		m = m[i+1:]
	}
	for _, p := range []string{"manifest:", "pom:"} {
		m = strings.TrimPrefix(m, p)
	}
	if strings.HasPrefix(m, "witness:") {
		return []string{"witness"}
	}
	fam := ""
	for _, p := range []string{"tar:", "zip:", "hdr:", "oddity:"} {
		if strings.HasPrefix(m, p) {
			fam, m = p, m[len(p):]
		}
	}
	var out []string
	for _, x := range strings.Split(m, "+") {
		if x != "" {
			out = append(out, fam+x)
		}
	}
	return out
}

// layerText is how a failing layer is written into a witness: in hex when
// small; else its digest and size, and the bytes go to a file in the output
// directory (the first 16 such layers of a run, 64 MiB each at most).
func (s *searchState) layerText(blob []byte) string {
	if len(blob) <= 6<<10 {
		return hx.Hex(blob)
	}
	sum := sha256.Sum256(blob)
	d := hex.EncodeToString(sum[:])
	file := ""
	if name := "search-fail-" + d[:16] + ".tar"; s.dumped[name] {
		file = ",file=" + name
	} else if len(s.dumped) < 16 && len(blob) <= 64<<20 && s.h.cfg.OutDir != "" {
		if os.WriteFile(filepath.Join(s.h.cfg.OutDir, name), blob, 0o644) == nil {
			s.dumped[name] = true
			file = ",file=" + name
		}
	}
	return fmt.Sprintf("sha256:%s,size=%d%s", d, len(blob), file)
}

func (s *searchState) note(name string, alloc uint64, size int) {
	st := s.stats[name]
	if st == nil {
		st = &allocStat{}
		s.stats[name] = st
	}
	ratio := float64(alloc) / float64(size+1)
	if alloc > st.maxAlloc {
		st.maxAlloc = alloc
	}
	if ratio > st.maxRatio {
		st.maxRatio = ratio
	}
	if x := (float64(alloc) - allocBoundA/8) / float64(size+1); x > st.maxExcess {
		st.maxExcess = x
	}
	if size <= 64<<10 {
		if alloc > st.maxAllocSmall {
			st.maxAllocSmall = alloc
		}
	} else if ratio > st.maxRatioLarge {
		st.maxRatioLarge = ratio
	}
}

// record turns the result of one layer into cases, counters and failures.
func (s *searchState) record(g genLayer, res layerRes) {
	r := s.h.r
	sum := sha256.Sum256(g.blob)
	key := hex.EncodeToString(sum[:8])
	size := len(g.blob)
	pre := "search:"
	if s.race {
		pre = "race:"
	}
	r.Count(pre + "layers")
	if g.concurrent {
		r.Count(pre + "layers-also-run-concurrently")
	}
	r.Count(pre + "size:" + sizeBucket(size))
	for _, k := range g.kinds {
		r.Count(pre + "kind:" + k)
	}
	for _, m := range g.muts {
		for _, x := range mutNames(m) {
			r.Count(pre + "mut:" + x)
		}
	}
	fail := func(kind, scanner string, c callRes) {
		class := ""
		if kind == "alloc" && scanner == "package/java" {
			// The listed finding: nested jar members are inflated whole. Only
			// when what the layer's deflated jar members inflate to accounts
			// for the excess.
			bound := uint64(allocBoundA) + allocBoundB*uint64(size)
			if c.alloc > bound && g.jarInflated*8 >= c.alloc-bound && g.jarInflated > 0 {
				class = deflateBombFinding
			}
		}
		if s.race {
			scanner += "(worker built with the race detector)"
		}
		s.h.fail(class, fmt.Sprintf("%s scanner=%s recipe=%s layer=%s msg=%s", kind, scanner, strings.ReplaceAll(g.recipe, " ", "_"), s.layerText(g.blob), c.msg))
	}
	one := func(name string, c callRes) {
		out := c.status
		switch c.status {
		case "":
			out = "not-run"
		case "ok":
			if c.items > 0 {
				out = "ok-items"
			} else {
				out = "ok-empty"
			}
		}
		r.Count(pre + name + ":" + out)
		if c.status == "" {
			return
		}
		r.Case(pre+key+" "+name, c.status != "ok" || c.items > 0)
		switch c.status {
		case "panic", "crash", "hang":
			fail(c.status, name, c)
		case "ok", "err":
			if c.stuck > 0 {
				// Goroutines the call started are parked where nothing will wake
				// them, after the call returned and its context was cancelled:
				// one more for every layer served, for the life of the process.
				fail("goroutine-leak", name, c)
			}
			if bound := uint64(readBoundA) + readBoundB*uint64(size); c.read > bound && !s.race && !isPseudo(name) {
				// Read amplification: the call read the layer many times over
				// (a database parsed again for every candidate file, a member
				// re-read per entry ...).
				c.msg = fmt.Sprintf("read %d bytes of a %d-byte layer, bound %d+%d*len; %s", c.read, size, uint64(readBoundA), readBoundB, c.msg)
				fail("read-amplification", name, c)
			}
			if c.maxBlock > blockReadBound && !s.race && !isPseudo(name) && !strings.HasPrefix(name, "layer/") {
				c.msg = fmt.Sprintf("the 512-byte block at offset %d of the layer was read %d times in one call (bound %d): something is opened again and again; %s", c.whichBlock*512, c.maxBlock, blockReadBound, c.msg)
				fail("read-amplification", name, c)
			}
			if !s.race && c.maxBlock > s.maxBlock[name] {
				if s.maxBlock == nil {
					s.maxBlock = map[string]int{}
				}
				s.maxBlock[name] = c.maxBlock
			}
			if !s.race {
				if st := s.stats[name]; st != nil || true {
					if s.reads == nil {
						s.reads = map[string]float64{}
					}
					if x := float64(c.read) / float64(size+4096); x > s.reads[name] {
						s.reads[name] = x
					}
				}
			}
			if isPseudo(name) || s.race {
				// The concurrent calls: allocation is the sum over all scanners
				// (each was measured alone already); an answer that differs from
				// the sequential run is counted, not a verdict (the statement is
				// about returning, not about what is returned).
				if strings.HasPrefix(c.msg, "differs-from-sequential") {
					r.Count(pre + name + ":differs-from-sequential")
					if len(s.diffs) < 8 {
						s.diffs = append(s.diffs, oneLine(c.msg, 200)+" "+g.recipe)
					}
				}
				return
			}
			if c.leaked > 0 {
				// Goroutines still alive shortly after the call returned and its
				// context was cancelled. The wait is a matter of timing, so this
				// is counted and listed, never a verdict.
				r.Count("search:" + name + ":goroutines-left-behind")
				if len(s.leaks) < 8 {
					s.leaks = append(s.leaks, fmt.Sprintf("%s %d %s", name, c.leaked, g.recipe))
				}
			}
			if !(name == "package/java" && g.jarInflated > 0) {
				// Layers with a deflated nested jar (or manifest) belong to the
				// listed finding jar-deflate-bomb, not to the calibration.
				s.note(name, c.alloc, size)
			}
			if b := ratioBucket(c.alloc, size); b == ">bound" && name == "package/java" && g.recipe == "witness:"+deflateBombWitness {
				// reported below with KnownSeen
				r.Count("search:alloc:>bound(" + deflateBombFinding + " witness)")
			} else if b == ">bound" {
				c.msg = fmt.Sprintf("allocated %d bytes, bound %d+%d*%d; %s", c.alloc, uint64(allocBoundA), allocBoundB, size, c.msg)
				fail("alloc", name, c)
			} else if b != "<=bound/1024" {
				r.Count("search:alloc:" + b)
			}
		}
	}
	one("Layer.Init", res.init)
	if res.init.status != "ok" {
		return
	}
	for i, c := range res.calls {
		one(s.p.names[i], c)
		if g.recipe == "witness:"+deflateBombWitness && s.p.names[i] == "package/java" && (c.status == "ok" || c.status == "err") {
			if c.alloc/uint64(size) > 1000 {
				r.KnownSeen(deflateBombFinding, fmt.Sprintf("%d B layer app/a.jar{x.jar=deflate(64 MiB zeros)}: java scanner allocated about %d MiB", size, (c.alloc+(8<<20))>>24<<4))
			} else {
				r.Count("search:" + deflateBombFinding + ":inflation-capped")
			}
		}
	}
}

// runJobs generates and evaluates the jobs in batches: every job has its own
// generator state, forked in job order, so neither the worker a job lands on
// nor the order of completion can change a result; results are recorded in
// job order.
func (s *searchState) runJobs(jobs []job, rnd *hx.Rand) {
	timeoutOf := func(n int) time.Duration {
		if s.race {
			return 8 * hangTimeout(s.h.cfg, n)
		}
		return hangTimeout(s.h.cfg, n)
	}
	slots := make([]*worker, searchWorkers)
	defer func() {
		for _, w := range slots {
			s.p.kill(w)
		}
	}()
	for start := 0; start < len(jobs) && !s.h.r.Stop() && s.p.failed() == nil; start += searchBatch {
		end := start + searchBatch
		if end > len(jobs) {
			end = len(jobs)
		}
		n := end - start
		rnds := make([]*hx.Rand, n)
		for i := range rnds {
			rnds[i] = rnd.Fork()
		}
		layers := make([]genLayer, n)
		results := make([]layerRes, n)
		next := make(chan int, n)
		for i := 0; i < n; i++ {
			next <- i
		}
		close(next)
		var wg sync.WaitGroup
		for k := range slots {
			wg.Add(1)
			go func(k int) {
				defer wg.Done()
				for i := range next {
					if s.h.r.Stop() {
						return
					}
					layers[i] = jobs[start+i].gen(rnds[i])
					results[i] = s.p.evalLayer(&slots[k], layers[i].blob, timeoutOf(len(layers[i].blob)), layers[i].concurrent)
				}
			}(k)
		}
		wg.Wait()
		for i := 0; i < n; i++ {
			if layers[i].blob == nil && layers[i].recipe == "" {
				continue // stopped before it was generated
			}
			s.record(layers[i], results[i])
			layers[i] = genLayer{}
		}
	}
}

// searchJobs lists what the stream evaluates, in order.
func (h *harness) searchJobs() []job {
	o := lyOpts{big: h.cfg.Thorough()}

	// 1. regression witnesses
	var jobs []job
	ws := witnesses
	if h.cfg.Thorough() {
		ws = append(append([]witness(nil), ws...), witnessesThorough...)
	}
	for _, w := range ws {
		w := w
		jobs = append(jobs, job{func(*hx.Rand) genLayer {
			g := genLayer{blob: w.build(), recipe: "witness:" + w.name, kinds: []string{"witness"}, muts: []string{"witness:" + w.name}}
			if w.name == deflateBombWitness {
				g.jarInflated = 64 << 20
			} else {
				g.concurrent = true
			}
			return g
		}})
	}
	// 2. hand-built tar oddities
	for i, n := 0, h.cfg.N(2, 20)*len(oddities); i < n; i++ {
		i := i
		jobs = append(jobs, job{func(r *hx.Rand) genLayer {
			g := genOddityLayer(r, i)
			g.concurrent = true
			return g
		}})
	}
	// 3. layers holding a real Go executable (large)
	for i, n := 0, h.cfg.N(3, 30); i < n; i++ {
		first := i == 0
		jobs = append(jobs, job{func(r *hx.Rand) genLayer {
			oo := o
			oo.wellFormed = first
			return genExeLayer(r, oo)
		}})
	}
	// 4. generated layers; one in eight also goes through the concurrent calls
	// (all of those with a symbolic link in directory position do)
	for i, n := 0, h.cfg.N(1300, 20000); i < n; i++ {
		jobs = append(jobs, job{func(r *hx.Rand) genLayer {
			oo := o
			oo.wellFormed = r.Chance(1, 12)
			g := genRandomLayer(r, oo)
			if r.Chance(1, 8) {
				g.concurrent = true
			}
			return g
		}})
	}
	// 5. usr-merged style layers: several parts, one or two directories moved
	// behind symbolic links, every scanner at once
	for i, n := 0, h.cfg.N(150, 3000); i < n; i++ {
		jobs = append(jobs, job{func(r *hx.Rand) genLayer {
			oo := o
			oo.wellFormed = r.Chance(1, 2)
			oo.symlinkDirs = true
			g := genRandomLayer(r, oo)
			g.concurrent = true
			return g
		}})
	}
	// 6. field sweeps: one word of a well-formed binary file at an extreme
	// value; the quick tier samples the combinations (a different sample for
	// every seed), the thorough tier runs many more
	{
		const combos = 5 * 10 * 80 * 2 * 3
		n := h.cfg.N(200, 4000)
		start := int(h.cfg.Seed%97) * 263
		for i := 0; i < n; i++ {
			k := (start + i*(combos/n+1)) % combos
			if h.cfg.Thorough() {
				k = (start + i*5) % combos
			}
			jobs = append(jobs, job{func(r *hx.Rand) genLayer { return genFieldSweepLayer(r, k) }})
		}
	}
	// 7. boundary layers: every size limit of the scanners, -3..+3, every run
	for ki, k := range boundaryKinds {
		for li := range k.limits {
			ki, li := ki, li
			jobs = append(jobs, job{func(r *hx.Rand) genLayer { return genBoundaryLayer(r, ki, li) }})
		}
	}
	for w := 0; w < 2; w++ {
		w := w
		jobs = append(jobs, job{func(r *hx.Rand) genLayer { return genRpmBoundaryLayer(r, w) }})
	}
	// 8. an rpm database and many candidate files of one language scanner
	for i, n := 0, h.cfg.N(8, 120); i < n; i++ {
		jobs = append(jobs, job{func(r *hx.Rand) genLayer { return genCandidatesLayer(r) }})
	}
	return jobs
}

func (h *harness) searchStream() {
	raceBuilt := make(chan raceBuild, 1)
	go func() { raceBuilt <- buildRaceWorker(h.cfg) }()
	defer h.raceStream(raceBuilt)
	p, err := newPool()
	if err != nil {
		h.r.Notes["search_error"] = err.Error()
		if strings.Contains(err.Error(), "did not start: ") && !strings.HasSuffix(err.Error(), "did not start: -") {
			// The worker came up and died with a fatal error before it served a
			// layer: that is while it ran the scanners on its warm-up layer.
			h.fail("", "crash scanner=(any; the worker died while running every scanner on its warm-up layer) recipe=warm-up layer="+h.dumpWitness("layer", warmupLayer())+" msg="+oneLine(err.Error(), 300))
			return
		}
		h.fail("", "search-half-could-not-start "+oneLine(err.Error(), 300))
		return
	}
	defer p.close()
	s := &searchState{h: h, p: p, stats: map[string]*allocStat{}, dumped: map[string]bool{}}
	h.r.Notes["scanners"] = append([]string(nil), p.names...)
	if len(p.skipped) > 0 {
		h.r.Notes["scanners_skipped"] = append([]string(nil), p.skipped...)
	} else {
		h.r.Notes["scanners_skipped"] = []string{}
	}
	h.r.Notes["alloc_bound"] = fmt.Sprintf("a call (Layer.Init or one Scan) may allocate at most %d + %d * len(layer) bytes (runtime.MemStats.TotalAlloc delta, after a collection); "+
		"the worker's address space is limited to %d bytes", uint64(allocBoundA), allocBoundB, uint64(workerASLimit))
	jobs := h.searchJobs()
	if p.noWarm {
		jobs = append([]job{{func(*hx.Rand) genLayer {
			return genLayer{blob: warmupLayer(), recipe: "warm-up layer (one well-formed file of every kind)", kinds: []string{"warm-up"}, muts: []string{"none"}, concurrent: true}
		}}}, jobs...)
	}
	s.runJobs(jobs, h.rnd.Fork())
	if p.noWarm && h.unclassified.Load() == 0 {
		// the death of the first worker was not met again
		h.fail("", "crash scanner=(any; a worker died while running every scanner on its warm-up layer, not reproduced when the layer was served as a job) recipe=warm-up layer="+h.dumpWitness("layer", warmupLayer())+" msg="+oneLine(p.startErr.Error(), 300))
	}
	if err := p.failed(); err != nil {
		h.r.Notes["search_error"] = err.Error()
		h.fail("", "search-half-worker-could-not-be-started "+oneLine(err.Error(), 300))
	}

	// The observed maxima, rounded up to powers of two (the byte counts of the
	// runtime vary by a few bytes between runs).
	names := make([]string, 0, len(s.stats))
	for n := range s.stats {
		names = append(names, n)
	}
	sort.Strings(names)
	tab := map[string]string{}
	for _, n := range names {
		st := s.stats[n]
		// Floors keep the run-to-run jitter of the runtime's byte counts (tens
		// of KiB) out of the table.
		floor := func(v, f uint64) uint64 {
			if v < f {
				return f
			}
			return v
		}
		tab[n] = fmt.Sprintf("alloc<=%dMiB alloc(layer<=64KiB)<=%dMiB alloc/len(layer>64KiB)<=%d (alloc-%dMiB)/len<=%d",
			floor(pow2ceil(st.maxAlloc)>>20, 1), floor(pow2ceil(st.maxAllocSmall)>>20, 1), floor(pow2ceil(uint64(st.maxRatioLarge)+1), 4),
			allocBoundA>>23, floor(pow2ceil(uint64(st.maxExcess)+1), 4))
	}
	h.r.Notes["alloc_max"] = tab
	rm := map[string]string{}
	for n, x := range s.reads {
		rm[n] = fmt.Sprintf("read/(len+4KiB)<=%d", pow2ceil(uint64(x)+1))
	}
	for n, x := range s.maxBlock {
		rm[n] += fmt.Sprintf(" one-block-reads<=%d", pow2ceil(uint64(x)))
	}
	h.r.Notes["read_max"] = rm
	if s.leaks == nil {
		s.leaks = []string{}
	}
	h.r.Notes["goroutines_left_behind"] = s.leaks
	if s.diffs == nil {
		s.diffs = []string{}
	}
	h.r.Notes["concurrent_answers_differing_from_sequential"] = s.diffs
	if os.Getenv("C06_ALLOC_EXACT") == "1" {
		// For recalibrating allocBoundA/B: the exact maxima, on stderr.
		var sb bytes.Buffer
		for _, n := range names {
			st := s.stats[n]
			fmt.Fprintf(&sb, "%-45s alloc=%d small=%d ratio=%.1f ratioLarge=%.1f excess=%.1f\n", n, st.maxAlloc, st.maxAllocSmall, st.maxRatio, st.maxRatioLarge, st.maxExcess)
		}
		os.Stderr.Write(sb.Bytes())
	}
}
