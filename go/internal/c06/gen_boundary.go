package c06

import (
	"archive/zip"
	"encoding/binary"
	"fmt"
	"strings"

	"github.com/quay/claircore/verifharness/internal/hx"
)

// Boundary layers: for every size limit in (or under) the scanners, members
// whose size is the limit -3 .. +3, with and without a final line end, as a
// file of that size and as one line of that size, and with the limit falling
// between the CR and the LF of a line end and inside a two-byte rune. One layer
// per (kind of file, limit) holds all of these, so every run evaluates every
// combination.
//
// The limits, read out of the code (constants are not exported, so this table
// is by hand; design/C06.md lists the source lines):
//
//	1<<20   java/jar maxManifest (io.LimitReader under the main-section reader),
//	        maxPrealloc (buffer reserved for a nested jar)
//	65536   bufio.MaxScanTokenSize: bufio.Scanner in osrelease.Parse, the ruby
//	        scanner, jar parseProperties, rpm ReadData (splitCString);
//	        rhel/dockerfile maxValue (64*1024)
//	65535   rpm header tagsMax
//	4096    bufio.NewReader default buffer: textproto readers of dpkg, python,
//	        jar manifests; the Dockerfile lexer; nodejs' json decoder input
//	512     tar block; bytes.Buffer / json decoder first read
//	128     the first buffer of transform.String in the Dockerfile unquote / vars
//	        transformers (doubles from there: 256)
var (
	limManifest = 1 << 20
	limToken    = 65536
	limBufio    = 4096
)

type boundaryKind struct {
	name   string
	limits []int
	// text template: head, then padding lines "<pad>aaaa<le>", the long line (when
	// shape is one-line) is "<long>aaaa...<le>"
	head, pad, long, tail, le string
	path                      func(i int) string
	wrap                      func(body []byte, i int) []byte
	linesOnly                 bool // only the whole-file shape
}

// boundaryBody is a text of exactly n bytes: head, padding lines, ending.
// straddle: 0 nothing special; 1 the byte at offset at-1 is CR and the one at
// offset at is LF; 2 a two-byte rune starts at offset at-1.
func boundaryBody(k boundaryKind, n int, ending string, straddle, at int) []byte {
	var sb strings.Builder
	sb.WriteString(k.head)
	line := k.pad + strings.Repeat("a", 64) + k.le
	for sb.Len() < n+8 {
		sb.WriteString(line)
	}
	b := []byte(sb.String())
	if at >= 1 && at+1 < len(b) {
		switch straddle {
		case 1:
			b[at-1], b[at] = '\r', '\n'
		case 2:
			copy(b[at-1:], "é")
		}
	}
	if n < len(ending) {
		n = len(ending)
	}
	return append(b[:n-len(ending):n-len(ending)], ending...)
}

// boundaryLine is a file whose one long line (line end included) is n bytes.
func boundaryLine(k boundaryKind, n int, ending string, straddle, at int) []byte {
	if n < len(k.long)+len(ending)+1 {
		n = len(k.long) + len(ending) + 1
	}
	l := []byte(k.long + strings.Repeat("a", n-len(k.long)-len(ending)))
	if at >= 1 && at+1 < len(l) {
		switch straddle {
		case 1:
			l[at-1], l[at] = '\r', '\n'
		case 2:
			copy(l[at-1:], "é")
		}
	}
	return []byte(k.head + string(l) + ending + k.tail)
}

func jarWith(member string, method uint16, body []byte) []byte {
	ms := []zipMember{{name: "META-INF/", method: zip.Store}}
	if member != "META-INF/MANIFEST.MF" {
		ms = append(ms, zipMember{name: "META-INF/MANIFEST.MF", body: []byte("Manifest-Version: 1.0\r\n\r\n"), method: zip.Store})
	}
	ms = append(ms, zipMember{name: member, body: body, method: method})
	return buildZip(ms, "")
}

func zipMethod(i int) uint16 {
	if i%2 == 0 {
		return zip.Deflate
	}
	return zip.Store
}

var boundaryKinds = []boundaryKind{
	{name: "jar-manifest", limits: []int{limManifest, limBufio}, linesOnly: true,
		head: "Manifest-Version: 1.0\r\nImplementation-Title: t\r\nImplementation-Version: 1.0\r\n", pad: "X-Pad: ", le: "\r\n",
		path: func(i int) string { return fmt.Sprintf("app/b%d.jar", i) },
		wrap: func(b []byte, i int) []byte { return jarWith("META-INF/MANIFEST.MF", zipMethod(i), b) }},
	{name: "jar-manifest-nested", limits: []int{limManifest}, linesOnly: true,
		head: "Manifest-Version: 1.0\r\nBundle-SymbolicName: n\r\nBundle-Version: 2.0\r\n", pad: "X-Pad: ", le: "\r\n",
		path: func(i int) string { return fmt.Sprintf("opt/n%d.war", i) },
		wrap: func(b []byte, i int) []byte {
			return jarWith("WEB-INF/lib/inner.jar", zipMethod(i/2), jarWith("META-INF/MANIFEST.MF", zipMethod(i), b))
		}},
	{name: "jar-manifest-line", limits: []int{limBufio, limToken},
		head: "Manifest-Version: 1.0\r\n", long: "Implementation-Title: ", tail: "Implementation-Version: 1.0\r\n\r\n", pad: "X-Pad: ", le: "\r\n",
		path: func(i int) string { return fmt.Sprintf("app/l%d.jar", i) },
		wrap: func(b []byte, i int) []byte { return jarWith("META-INF/MANIFEST.MF", zipMethod(i), b) }},
	{name: "jar-pom-properties", limits: []int{limToken, limBufio},
		head: "#Generated\ngroupId=org.x\nartifactId=a\n", long: "version=", tail: "", pad: "p=", le: "\n",
		path: func(i int) string { return fmt.Sprintf("app/p%d.jar", i) },
		wrap: func(b []byte, i int) []byte { return jarWith("META-INF/maven/org.x/a/pom.properties", zipMethod(i), b) }},
	{name: "nodejs-package-json", limits: []int{limBufio, 512, limToken},
		head: "{\n  \"name\": \"n\",\n  \"version\": \"1.0.0\",\n", long: "  \"description\": \"", tail: "\"\n}\n", pad: "  \"k\": \"", le: "\",\n",
		path: func(i int) string { return fmt.Sprintf("usr/lib/node_modules/b%d/package.json", i) }},
	{name: "ruby-gemspec", limits: []int{limToken, limBufio},
		head: "Gem::Specification.new do |s|\n  s.version = \"1.0\"\n", long: "  s.name = \"", tail: "end\n", pad: "  s.x = \"", le: "\"\n",
		path: func(i int) string { return fmt.Sprintf("usr/share/gems/specifications/b%d-1.0.gemspec", i) }},
	{name: "python-metadata", limits: []int{limBufio, limToken},
		head: "Metadata-Version: 2.1\nVersion: 1.0\n", long: "Name: ", tail: "\nbody\n", pad: "Classifier: ", le: "\n",
		path: func(i int) string {
			return fmt.Sprintf("usr/lib/python3.9/site-packages/b%d-1.0.dist-info/METADATA", i)
		}},
	{name: "os-release", limits: []int{limToken, limBufio},
		head: "ID=debian\nVERSION_ID=\"12\"\n", long: "PRETTY_NAME=\"", tail: "NAME=\"Debian\"\n", pad: "X=", le: "\n",
		path: func(i int) string {
			return []string{"etc/os-release", "usr/lib/os-release", "etc/lsb-release", "etc/redhat-release", "etc/issue", "etc/oracle-release", "etc/photon-release", "etc/SuSE-release"}[i%8]
		}},
	{name: "dpkg-status", limits: []int{limBufio, limToken},
		head: "Package: a\nStatus: install ok installed\nVersion: 1\nArchitecture: all\n", long: "Description: ", tail: "\nPackage: b\nStatus: install ok installed\nVersion: 2\nArchitecture: all\n\n", pad: " ", le: "\n",
		path: func(i int) string { return fmt.Sprintf("var/lib/dpkg%d/status", i) }},
	{name: "apk-installed", limits: []int{limBufio, limToken},
		head: "P:a\nV:1\nA:x86_64\n", long: "o:", tail: "\nP:b\nV:2\n\n", pad: "F:", le: "\n",
		path: func(i int) string { return "lib/apk/db/installed" }},
	{name: "dockerfile", limits: []int{limToken, limBufio, 128, 256},
		head: "FROM scratch\nLABEL com.redhat.component=\"c\" architecture=\"x86_64\" name=\"ubi8\"\n", long: "LABEL k=\"", tail: "ENV A ${k}\n", pad: "LABEL p=\"", le: "\"\n",
		path: func(i int) string { return fmt.Sprintf("root/buildinfo/Dockerfile-b%d-1-%d", i, i) }},
	{name: "content-manifest", limits: []int{limBufio, 512},
		head: "{\"metadata\":{\"image_layer_index\":1},\n", long: "\"content_sets\":[\"rhel-8-for-x86_64-baseos-rpms\",\"", tail: "\"]}\n", pad: "\"k\":\"", le: "\",\n",
		path: func(i int) string { return fmt.Sprintf("root/buildinfo/content_manifests/b%d.json", i) }},
}

// genBoundaryLayer builds the layer of boundaryKinds[ki] at its li-th limit.
func genBoundaryLayer(r *hx.Rand, ki, li int) genLayer {
	k := boundaryKinds[ki]
	L := k.limits[li]
	var files []lyFile
	dirs := map[string]bool{}
	i := 0
	add := func(body []byte) {
		if k.wrap != nil {
			body = k.wrap(body, i)
		}
		p := k.path(i)
		if k.name == "dpkg-status" {
			d := p[:strings.LastIndex(p, "/")] + "/info"
			if !dirs[d] {
				dirs[d] = true
				files = append(files, lyFile{name: d, typ: '5'})
			}
		}
		if k.name == "apk-installed" || k.name == "os-release" {
			// one path only (or a few): keep the first variants of a run and rotate by the generator state
			for _, f := range files {
				if f.name == p {
					i++
					return
				}
			}
		}
		files = append(files, lyFile{name: p, body: body})
		i++
	}
	endings := []string{"", k.le}
	if k.le != "\r\n" {
		endings = append(endings, "\r\n")
	}
	// files that can only exist once per layer take one variant, chosen by r
	single := k.name == "apk-installed"
	pick := r.Intn(1000)
	v := 0
	for d := -3; d <= 3; d++ {
		for _, e := range endings {
			for shape := 0; shape < 2; shape++ {
				if shape == 1 && (k.linesOnly || L >= limManifest) {
					continue
				}
				v++
				if single && v != 1+pick%40 {
					continue
				}
				if shape == 0 {
					add(boundaryBody(k, L+d, e, 0, 0))
				} else {
					add(boundaryLine(k, L+d, e, 0, 0))
				}
			}
		}
	}
	for straddle := 1; straddle <= 2; straddle++ {
		for _, extra := range []int{2, 40} {
			v++
			if single && v != 1+pick%40 {
				continue
			}
			// the limit falls inside a CR LF pair / a two-byte rune; the text goes on after it
			add(boundaryBody(k, L+extra, "", straddle, L))
			if !k.linesOnly && L < limManifest {
				add(boundaryLine(k, L+extra, k.le, straddle, L-len(k.head)))
			}
		}
	}
	g := genLayer{blob: lyTar(r, files, true), kinds: []string{"boundary"}, muts: []string{fmt.Sprintf("boundary:%s@%d", k.name, L)}}
	g.recipe = fmt.Sprintf("boundary[%s limit=%d: sizes %d..%d, endings none/LF/CRLF, whole file and one line, limit inside CRLF and inside a rune; %d files]", k.name, L, L-3, L+3, len(files))
	return g
}

// genRpmBoundaryLayer: an ndb database whose headers hold a string of
// 65536-3..+3 bytes (the token limit of ReadData's bufio.Scanner) in a wanted
// string array and in a wanted string, or 65535-3..+3 index entries (tagsMax).
func genRpmBoundaryLayer(r *hx.Rand, which int) genLayer {
	var hdrs [][]byte
	name := "rpm-string-token"
	switch which {
	case 0:
		for d := -3; d <= 3; d++ {
			long := strings.Repeat("a", limToken+d)
			hdrs = append(hdrs, buildRpmHeader([]rpmEntry{
				{tagName, typString, 1, cstr("n")}, {tagVersion, typString, 1, cstr("1")}, {tagRelease, typString, 1, cstr("1")},
				{tagDirindexes, typInt32, 1, be32s(0)}, {tagBasenames, typStringArray, 1, cstr("x.jar")}, {tagDirnames, typStringArray, 1, cstr("/" + long[1:])}}, tagHeaderImmutable))
			hdrs = append(hdrs, buildRpmHeader([]rpmEntry{{tagName, typString, 1, cstr(long)}, {tagVersion, typString, 1, cstr("1")}, {tagRelease, typString, 1, cstr("1")}}, 0))
		}
	default:
		name = "rpm-tags-max"
		for d := -3; d <= 3; d++ {
			n := 0xffff + d - 3
			ents := []rpmEntry{{tagName, typString, 1, cstr("n")}, {tagVersion, typString, 1, cstr("1")}, {tagRelease, typString, 1, cstr("1")}}
			for k := 0; k < n; k++ {
				ents = append(ents, rpmEntry{int32(2000 + k%1000), typInt32, 1, be32s(int32(k))})
			}
			hdrs = append(hdrs, buildRpmHeader(ents, 0))
		}
	}
	db := buildNdb(hdrs, 1, false)
	_ = binary.LittleEndian
	g := genLayer{blob: lyTar(r, []lyFile{{name: "usr/lib/sysimage/rpm/Packages.db", body: db}}, true), kinds: []string{"boundary"}, muts: []string{"boundary:" + name}}
	g.recipe = "boundary[" + name + " limit-3..limit+3]"
	return g
}

// genCandidatesLayer: an rpm database of one of the three kinds and many
// candidate files of one language scanner (the scanners ask the rpm package,
// once per candidate, whether rpm installed the file): whatever the scanner
// does per candidate, the database is read once per call.
func genCandidatesLayer(r *hx.Rand) genLayer {
	wf := lyOpts{wellFormed: true}
	var db lyPart
	switch r.Intn(3) {
	case 0:
		db = partRpmNdb(r, wf)
	case 1:
		db = partRpmBdb(r, wf)
	default:
		db = partRpmSqlite(r, wf)
	}
	files := db.files
	n := 60 + r.Intn(240)
	kind := r.Intn(5)
	pad := strings.Repeat("X-Pad: "+strings.Repeat("a", 60)+"\r\n", 500+r.Intn(3000))
	for k := 0; k < n; k++ {
		switch kind {
		case 0:
			mf := []byte("Manifest-Version: 1.0\r\nImplementation-Title: t\r\nImplementation-Version: 1.0\r\n" + pad + "\r\n")
			files = append(files, lyFile{name: fmt.Sprintf("opt/app/lib/c%d.jar", k), body: jarWith("META-INF/MANIFEST.MF", zip.Deflate, mf)})
		case 1:
			files = append(files, lyFile{name: fmt.Sprintf("usr/lib/python3.9/site-packages/c%d-1.0.dist-info/METADATA", k), body: append(genPyMetadata(r), pad...)})
		case 2:
			files = append(files, lyFile{name: fmt.Sprintf("usr/lib/node_modules/c%d/package.json", k), body: genPackageJSON(r)})
		case 3:
			files = append(files, lyFile{name: fmt.Sprintf("usr/share/gems/specifications/c%d-1.0.gemspec", k), body: append(genGemspec(r), strings.Repeat("# pad\n", 2000)...)})
		default:
			files = append(files, lyFile{name: fmt.Sprintf("usr/bin/c%d", k), body: genGoElf(r), mode: 0o755})
		}
	}
	g := genLayer{blob: lyTar(r, files, true), kinds: []string{"candidates", db.kind}, muts: []string{"candidates:" + []string{"jars", "python", "nodejs", "ruby", "gobin"}[kind]}}
	g.recipe = fmt.Sprintf("candidates[%s + %d %s]", db.kind, n, g.muts[0])
	return g
}
