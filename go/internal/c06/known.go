package c06

import (
	"encoding/binary"
	"fmt"
	"runtime"
	"strings"
)

// Listed findings of C06 (findings/C06.txt) that this file re-observes on
// every run and the classifiers for generated failures of exactly that shape.
const (
	knownNdbQuadratic = "ndb-quadratic-checksum"
	knownRpmQuadratic = "rpm-header-quadratic"
	knownRpmFilenames = "rpm-filenames-quadratic"
)

// allocDuring runs f and returns the bytes allocated meanwhile (the harness is
// single threaded here, so this is f's allocation).
func allocDuring(f func()) uint64 {
	var m0, m1 runtime.MemStats
	runtime.ReadMemStats(&m0)
	f()
	runtime.ReadMemStats(&m1)
	return m1.TotalAlloc - m0.TotalAlloc
}

// bdb / ndb: bytes allocated by Parse + AllHeaders may not exceed this (the
// walkers keep a few words per page or slot; observed maxima are below a
// tenth of it).
func dbAllocBound(n int) uint64 { return 1<<20 + 64*uint64(n) }

// rpm header: bytes allocated by Parse+Load may not exceed this.
func rpmAllocBound(n int) uint64 { return 256<<10 + 256*uint64(n) }

// wantedAllocEstimate is what ReadData's make() calls request for the wanted
// entries of the header (16 bytes per counted string, etc.).
func wantedAllocEstimate(b []byte) uint64 {
	if len(b) < 8 {
		return 0
	}
	n := int(binary.BigEndian.Uint32(b))
	if n > 0xffff || 8+16*n > len(b) {
		return 0
	}
	var total uint64
	for i := 0; i < n; i++ {
		e := b[8+16*i:]
		tag := int32(binary.BigEndian.Uint32(e))
		typ := binary.BigEndian.Uint32(e[4:])
		ct := uint64(binary.BigEndian.Uint32(e[12:]))
		want := false
		for _, w := range wantedTags {
			if w == tag {
				want = true
			}
		}
		if !want {
			continue
		}
		switch typ {
		case typStringArray, typI18nString:
			total += 16 * ct
		case typInt64:
			total += 8 * ct
		case typInt32:
			total += 4 * ct
		case typInt16:
			total += 2 * ct
		default:
			total += ct
		}
	}
	return total
}

// filenameWork is the number of bytes the file-name loop of Info.Load joins:
// for every base name the length of the directory name its index selects, the
// base name and the separator (the last Dirnames / Basenames / Dirindexes entry
// wins, as in Load).
func filenameWork(b []byte) uint64 {
	if len(b) < 8 {
		return 0
	}
	n := int(binary.BigEndian.Uint32(b))
	dsz := int(binary.BigEndian.Uint32(b[4:]))
	if n > 0xffff || 8+16*n+dsz > len(b) {
		return 0
	}
	data := b[8+16*n : 8+16*n+dsz]
	strs := func(off, ct int) []string {
		var out []string
		for off >= 0 && off < len(data) && len(out) < ct {
			i := off
			for i < len(data) && data[i] != 0 {
				i++
			}
			out = append(out, string(data[off:i]))
			off = i + 1
		}
		return out
	}
	var dirs, bases []string
	var idx []int32
	for i := 0; i < n; i++ {
		e := b[8+16*i:]
		tag := int32(binary.BigEndian.Uint32(e))
		off := int(int32(binary.BigEndian.Uint32(e[8:])))
		ct := int(binary.BigEndian.Uint32(e[12:]))
		if ct > dsz {
			continue
		}
		switch tag {
		case tagDirnames:
			dirs = strs(off, ct)
		case tagBasenames:
			bases = strs(off, ct)
		case tagDirindexes:
			idx = idx[:0]
			for k := 0; k < ct && off >= 0 && off+4*k+4 <= len(data); k++ {
				idx = append(idx, int32(binary.BigEndian.Uint32(data[off+4*k:])))
			}
		}
	}
	var total uint64
	for j, bn := range bases {
		if j >= len(idx) || idx[j] < 0 || int(idx[j]) >= len(dirs) {
			break
		}
		total += uint64(len(dirs[idx[j]]) + len(bn) + 1)
	}
	return total
}

// ndb: bytes requested from the file by Parse+AllHeaders may not exceed this.
func ndbReadBound(n int) int64 { return 64<<10 + 64*int64(n) }

// ndbChecksumWork is the number of bytes GetHeader checksums over all slots
// (every slot checksums the whole blob its index resolves to).
func ndbChecksumWork(b []byte) int64 {
	le := binary.LittleEndian
	if len(b) < 32 {
		return 0
	}
	limit := int64(uint32(le.Uint32(b[12:]) * 4096))
	type slot struct{ idx, off, cnt uint32 }
	var slots []slot
	look := map[uint32]slot{}
	for off := int64(32); off < limit && off+16 <= int64(len(b)); off += 16 {
		s := b[off:]
		if string(s[:4]) != "Slot" {
			break
		}
		if le.Uint32(s[8:]) == 0 {
			continue
		}
		sl := slot{le.Uint32(s[4:]), le.Uint32(s[8:]), le.Uint32(s[12:])}
		slots = append(slots, sl)
		look[sl.idx] = sl
	}
	var work int64
	for _, s := range slots {
		work += int64(look[s.idx].cnt) * 16
	}
	return work
}

// knownWitnesses replays the witnesses of the listed findings.
func (h *harness) knownWitnesses() {
	// ndb: 250 slots that all resolve to one 8 KiB blob: every slot checksums the blob again.
	{
		hdr := make([]byte, 8000)
		one := buildNdb([][]byte{hdr}, 1, false)
		le := binary.LittleEndian
		le.PutUint32(one[16:], 100000) // NextPkgIdx: no early break
		first := make([]byte, 16)
		copy(first, one[32:48])
		for s := 2; s < 252; s++ {
			copy(one[s*16:], first)
		}
		lr := newLimit(one, 1<<30)
		out := h.ndbRun(lr, one)
		if out != "panic" && out != "hang" && lr.bytes > ndbReadBound(len(one)) {
			h.r.KnownSeen(knownNdbQuadratic, fmt.Sprintf("Packages.db of %d bytes, 250 slots resolving to one %d-byte blob: %d bytes read (%dx the file) out=%.40s",
				len(one), 8000+32, lr.bytes, lr.bytes/int64(len(one)), out))
		} else {
			h.r.Count("known-not-reproduced:" + knownNdbQuadratic)
		}
	}
	// rpm header: 200 Basenames entries of type STRING_ARRAY, each counting the whole data arena.
	{
		const nent, dsz = 200, 4000
		b := make([]byte, 8+16*nent+dsz)
		binary.BigEndian.PutUint32(b, nent)
		binary.BigEndian.PutUint32(b[4:], dsz)
		for i := 0; i < nent; i++ {
			e := b[8+16*i:]
			binary.BigEndian.PutUint32(e, uint32(tagBasenames))
			binary.BigEndian.PutUint32(e[4:], typStringArray)
			binary.BigEndian.PutUint32(e[8:], 0)
			binary.BigEndian.PutUint32(e[12:], dsz)
		}
		for i := 8 + 16*nent; i < len(b); i++ {
			b[i] = 'a'
		}
		var out string
		alloc := allocDuring(func() { out = h.rpmHdrRun(newLimit(b, 1<<30), nil) })
		if out != "panic" && out != "hang" && alloc > rpmAllocBound(len(b)) {
			h.r.KnownSeen(knownRpmQuadratic, fmt.Sprintf("rpm header of %d bytes with %d Basenames entries each counting the %d-byte data arena: %d bytes allocated (%dx the header) out=%.20s",
				len(b), nent, dsz, alloc, alloc/uint64(len(b)), out))
		} else {
			h.r.Count("known-not-reproduced:" + knownRpmQuadratic)
		}
	}
	// rpm header: 400 base names x.jar that all select one 8000-byte directory name.
	{
		const nb = 400
		dir := "/" + strings.Repeat("a/", 4000)
		bases := make([]string, nb)
		for i := range bases {
			bases[i] = "x.jar"
		}
		b := buildRpmHeader([]rpmEntry{
			{tagName, typString, 1, cstr("n")},
			{tagDirindexes, typInt32, nb, be32s(make([]int32, nb)...)},
			{tagBasenames, typStringArray, nb, cstr(bases...)},
			{tagDirnames, typStringArray, 1, cstr(dir)}}, 0)
		var out string
		alloc := allocDuring(func() { out = h.rpmHdrRun(newLimit(b, 1<<30), nil) })
		if out != "panic" && out != "hang" && alloc > rpmAllocBound(len(b)) && filenameWork(b)*8 >= alloc-rpmAllocBound(len(b)) {
			h.r.KnownSeen(knownRpmFilenames, fmt.Sprintf("rpm header of %d bytes, %d base names x.jar under one %d-byte directory name: Info.Load allocated %d bytes (%dx the header), %d file names out=%.16s",
				len(b), nb, len(dir), alloc, alloc/uint64(len(b)), nb, out))
		} else {
			h.r.Count("known-not-reproduced:" + knownRpmFilenames)
		}
	}
}
