package c06

import (
	"encoding/binary"
	"fmt"

	"github.com/quay/claircore/verifharness/internal/hx"
)

// Systematic field sweeps: every length / count / offset / page-number field
// of the headers of the binary formats takes every extreme value once, instead
// of waiting for the random mutators to pick that field and that value.

var sweepValues = []uint32{0, 1, 2, 0x7fffffff, 0x80000000, 0xffffffff, 0x000fffff, 0x0fffffff, 0x00010000, 0xfffffff0}

type sweepField struct {
	off   int
	width int // 1, 2 or 4
	name  string
}

func putField(b []byte, ord binary.ByteOrder, f sweepField, v uint32) bool {
	if f.off < 0 || f.off+f.width > len(b) {
		return false
	}
	switch f.width {
	case 1:
		b[f.off] = byte(v)
	case 2:
		ord.PutUint16(b[f.off:], uint16(v))
	default:
		ord.PutUint32(b[f.off:], v)
	}
	return true
}

// fieldSweepStream runs the in-process readers (and their models) on one
// well-formed ndb database, bdb database and rpm header with one field at a
// time set to each extreme value.
func (h *harness) fieldSweepStream() {
	r := hx.NewRand(20260930)
	hdrs := [][]byte{genRpmHeaderBlob(r), genRpmHeaderBlob(r)}

	// ndb: file header (8 words), the first used slot, the first blob's header and trailer
	ndbBase := buildNdb(hdrs, 1, false)
	le := binary.LittleEndian
	var nf []sweepField
	for i := 0; i < 8; i++ {
		nf = append(nf, sweepField{4 * i, 4, fmt.Sprintf("ndb-header+%d", 4*i)})
	}
	for i := 0; i < 4; i++ {
		nf = append(nf, sweepField{32 + 4*i, 4, fmt.Sprintf("ndb-slot+%d", 4*i)})
	}
	blob := int(le.Uint32(ndbBase[40:])) * 16
	cnt := int(le.Uint32(ndbBase[44:])) * 16
	for i := 0; i < 4; i++ {
		nf = append(nf, sweepField{blob + 4*i, 4, fmt.Sprintf("ndb-blob-header+%d", 4*i)})
	}
	for i := 0; i < 3; i++ {
		nf = append(nf, sweepField{blob + cnt - 12 + 4*i, 4, fmt.Sprintf("ndb-blob-trailer+%d", 4*i)})
	}
	for _, f := range nf {
		for _, v := range sweepValues {
			if h.r.Stop() {
				return
			}
			b := append([]byte(nil), ndbBase...)
			if putField(b, le, f, v) {
				h.opNdb(b, "field-sweep")
			}
		}
	}

	// bdb, both byte orders: metadata page, the first hash page, its first
	// off-page item, the first overflow page
	for _, ord := range []binary.ByteOrder{binary.LittleEndian, binary.BigEndian} {
		base := buildBdb(ord, 512, hdrs, false)
		var bf []sweepField
		for _, o := range []int{8, 12, 16, 20, 28, 32, 36, 40, 44, 48, 72, 76, 80, 84, 88} {
			bf = append(bf, sweepField{o, 4, fmt.Sprintf("bdb-meta+%d", o)})
		}
		bf = append(bf, sweepField{24, 1, "bdb-meta+24"}, sweepField{25, 1, "bdb-meta+25"})
		hp := 512
		for _, o := range []int{8, 12, 16} {
			bf = append(bf, sweepField{hp + o, 4, fmt.Sprintf("bdb-hash+%d", o)})
		}
		bf = append(bf, sweepField{hp + 20, 2, "bdb-hash-entries"}, sweepField{hp + 22, 2, "bdb-hash-hf"}, sweepField{hp + 25, 1, "bdb-hash-type"},
			sweepField{hp + 26, 2, "bdb-entry-key"}, sweepField{hp + 28, 2, "bdb-entry-data"})
		d := hp + int(ord.Uint16(base[hp+28:]))
		bf = append(bf, sweepField{d, 1, "bdb-item-type"}, sweepField{d + 4, 4, "bdb-item-page"}, sweepField{d + 8, 4, "bdb-item-length"})
		ov := int(ord.Uint32(base[d+4:])) * 512
		bf = append(bf, sweepField{ov + 8, 4, "bdb-ov-pgno"}, sweepField{ov + 12, 4, "bdb-ov-prev"}, sweepField{ov + 16, 4, "bdb-ov-next"},
			sweepField{ov + 20, 2, "bdb-ov-entries"}, sweepField{ov + 22, 2, "bdb-ov-hf"}, sweepField{ov + 25, 1, "bdb-ov-type"})
		for _, f := range bf {
			for _, v := range sweepValues {
				if h.r.Stop() {
					return
				}
				if f.width == 1 && v > 0xff && v != 0xffffffff {
					continue
				}
				b := append([]byte(nil), base...)
				if putField(b, ord, f, v) {
					h.opBdb(b, "field-sweep")
				}
			}
		}
	}

	// rpm header: the two counts and the four words of the first four entries
	hb := hdrs[0]
	be := binary.BigEndian
	hf := []sweepField{{0, 4, "rpm-tags"}, {4, 4, "rpm-datasize"}}
	for e := 0; e < 4; e++ {
		for w := 0; w < 4; w++ {
			hf = append(hf, sweepField{8 + 16*e + 4*w, 4, fmt.Sprintf("rpm-entry%d+%d", e, 4*w)})
		}
	}
	for _, f := range hf {
		for _, v := range sweepValues {
			if h.r.Stop() {
				return
			}
			b := append([]byte(nil), hb...)
			if putField(b, be, f, v) {
				h.opRpmHdr(b, "field-sweep")
			}
		}
	}
}

// genFieldSweepLayer is one layer holding one well-formed binary file (rpm
// databases of the three kinds, a jar, an ELF Go executable) in which one
// 16- or 32-bit word of the first 256 bytes (or of the last 64: the zip end
// record, the ndb trailer) is set to an extreme value; k enumerates the
// combinations.
func genFieldSweepLayer(r *hx.Rand, k int) genLayer {
	wf := lyOpts{wellFormed: true}
	kinds := []struct {
		name string
		gen  func() lyPart
	}{
		{"rpm-ndb", func() lyPart { return partRpmNdb(r, wf) }},
		{"rpm-bdb", func() lyPart { return partRpmBdb(r, wf) }},
		{"rpm-sqlite", func() lyPart { return partRpmSqlite(r, wf) }},
		{"java", func() lyPart { return partJava(r, wf) }},
		{"gobin", func() lyPart { return partGobin(r, wf) }},
	}
	kd := kinds[k%len(kinds)]
	k /= len(kinds)
	p := kd.gen()
	v := sweepValues[k%len(sweepValues)]
	k /= len(sweepValues)
	how := "none"
	if len(p.files) > 0 {
		// the largest regular member is the binary file
		fi := 0
		for i := range p.files {
			if len(p.files[i].body) > len(p.files[fi].body) {
				fi = i
			}
		}
		b := append([]byte(nil), p.files[fi].body...)
		words := 64 + 16
		w := k % words
		off := 4 * w
		if w >= 64 {
			off = len(b) - 64 + 4*(w-64)
		}
		var ord binary.ByteOrder = binary.LittleEndian
		if (k/words)%2 == 1 {
			ord = binary.BigEndian
		}
		width := 4
		if (k/words/2)%3 == 2 {
			width = 2
		}
		if putField(b, ord, sweepField{off, width, ""}, v) {
			how = fmt.Sprintf("u%d@%d=%#x", 8*width, off, v)
		}
		p.files[fi].body = b
	}
	g := genLayer{blob: lyTar(r, p.files, true), kinds: []string{p.kind}, muts: []string{p.kind + ":field-sweep"}}
	g.recipe = "field-sweep[" + p.kind + " " + how + "]"
	g.jarInflated = p.jarInflated
	return g
}
