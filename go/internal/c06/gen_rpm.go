package c06

import (
	"bytes"
	"encoding/binary"
	"fmt"
	"hash/adler32"
	"strings"

	"github.com/quay/claircore/verifharness/internal/hx"
)

// rpm tag and type numbers as defined by rpm/internal/rpm (note that the
// region tags there are one higher than librpm's).
const (
	tagHeaderImage      = 62
	tagHeaderSignatures = 63
	tagHeaderImmutable  = 64
	tagI18nTable        = 100
	tagSigPGP           = 259
	tagName             = 1000
	tagVersion          = 1001
	tagRelease          = 1002
	tagEpoch            = 1003
	tagSummary          = 1004
	tagSize             = 1009
	tagArch             = 1022
	tagOldFilenames     = 1027
	tagSourceRPM        = 1044
	tagDirindexes       = 1116
	tagBasenames        = 1117
	tagDirnames         = 1118
	tagFilenames        = 5000
	tagPayloadDigest    = 5092
	tagPayloadDigestAlg = 5093
	tagModularityLabel  = 5096

	typChar        = 1
	typInt8        = 2
	typInt16       = 3
	typInt32       = 4
	typInt64       = 5
	typString      = 6
	typBin         = 7
	typStringArray = 8
	typI18nString  = 9
)

var wantedTags = []int32{tagArch, tagBasenames, tagDirindexes, tagDirnames, tagEpoch, tagFilenames, tagModularityLabel, tagName,
	tagPayloadDigest, tagPayloadDigestAlg, tagRelease, tagSigPGP, tagSourceRPM, tagVersion}

type rpmEntry struct {
	tag   int32
	typ   uint32
	count uint32
	data  []byte
}

func cstr(ss ...string) []byte {
	var b []byte
	for _, s := range ss {
		b = append(b, s...)
		b = append(b, 0)
	}
	return b
}

func be32s(vs ...int32) []byte {
	b := make([]byte, 4*len(vs))
	for i, v := range vs {
		binary.BigEndian.PutUint32(b[4*i:], uint32(v))
	}
	return b
}

func typAlign(t uint32) int {
	switch t {
	case typInt16:
		return 2
	case typInt32:
		return 4
	case typInt64:
		return 8
	}
	return 1
}

// buildRpmHeader lays the entries out the way librpm does: index entries, then
// the data arena with each value aligned for its type; with a region, entry 0
// is the region tag whose 16-byte trailer closes the data.
func buildRpmHeader(ents []rpmEntry, region int32) []byte {
	var data []byte
	type ie struct {
		tag        int32
		typ        uint32
		off, count uint32
	}
	var idx []ie
	for _, e := range ents {
		for len(data)%typAlign(e.typ) != 0 {
			data = append(data, 0)
		}
		idx = append(idx, ie{e.tag, e.typ, uint32(len(data)), e.count})
		data = append(data, e.data...)
	}
	if region != 0 {
		n := len(idx) + 1
		tr := make([]byte, 16)
		binary.BigEndian.PutUint32(tr[0:], uint32(region))
		binary.BigEndian.PutUint32(tr[4:], typBin)
		binary.BigEndian.PutUint32(tr[8:], uint32(int32(-16*n)))
		binary.BigEndian.PutUint32(tr[12:], 16)
		idx = append([]ie{{region, typBin, uint32(len(data)), 16}}, idx...)
		data = append(data, tr...)
	}
	var b bytes.Buffer
	binary.Write(&b, binary.BigEndian, uint32(len(idx)))
	binary.Write(&b, binary.BigEndian, uint32(len(data)))
	for _, e := range idx {
		binary.Write(&b, binary.BigEndian, e.tag)
		binary.Write(&b, binary.BigEndian, e.typ)
		binary.Write(&b, binary.BigEndian, e.off)
		binary.Write(&b, binary.BigEndian, e.count)
	}
	b.Write(data)
	return b.Bytes()
}

func randWord(r *hx.Rand) string {
	ws := []string{"bash", "glibc", "openssl-libs", "gpg-pubkey", "zlib", "a", "x86_64", "noarch", "1.2.3", "4.el9", "libfoo", "kernel-core", "é"}
	return ws[r.Intn(len(ws))]
}

// genRpmHeaderBlob returns a well-formed rpm header blob (the form stored in
// the rpm databases: index count, data size, index, data).
func genRpmHeaderBlob(r *hx.Rand) []byte {
	name := randWord(r)
	var ents []rpmEntry
	if r.Chance(1, 8) {
		ents = append(ents, rpmEntry{tagI18nTable, typStringArray, 1, cstr("C")})
	}
	if r.Chance(1, 4) {
		sig := make([]byte, 1+r.Intn(40))
		for i := range sig {
			sig[i] = byte(r.U64())
		}
		ents = append(ents, rpmEntry{tagSigPGP, typBin, uint32(len(sig)), sig})
	}
	ents = append(ents,
		rpmEntry{tagName, typString, 1, cstr(name)},
		rpmEntry{tagVersion, typString, 1, cstr(fmt.Sprintf("%d.%d", r.Intn(9), r.Intn(30)))},
		rpmEntry{tagRelease, typString, 1, cstr(fmt.Sprintf("%d.el%d", r.Intn(20), 7+r.Intn(3)))})
	if r.Chance(1, 3) {
		ents = append(ents, rpmEntry{tagEpoch, typInt32, 1, be32s(int32(r.Intn(5)))})
	}
	if r.Chance(2, 3) {
		ents = append(ents, rpmEntry{tagSummary, typI18nString, 1, cstr("summary of " + name)})
		ents = append(ents, rpmEntry{tagSize, typInt32, 1, be32s(int32(r.Intn(1 << 20)))})
	}
	ents = append(ents, rpmEntry{tagArch, typString, 1, cstr(r.Pick("x86_64", "noarch", "aarch64"))})
	if r.Chance(1, 10) {
		ents = append(ents, rpmEntry{tagOldFilenames, typStringArray, 2, cstr("/usr/bin/a", "/etc/b")})
	}
	if r.Chance(3, 4) {
		ents = append(ents, rpmEntry{tagSourceRPM, typString, 1, cstr(name + "-1.0-1.src.rpm")})
	}
	if r.Chance(2, 3) {
		nd := 1 + r.Intn(3)
		dirs := []string{"/usr/bin/", "/usr/lib/x/", "/etc/", "/usr/share/java/"}[:nd+1]
		if r.Chance(1, 3) {
			// directories that path.Clean has work with, that make the patterns
			// match across the join, and relative / empty ones
			for k := range dirs {
				dirs[k] = r.Pick("/usr/sbin", "/usr/libexec/x/", "/usr/lib/python3/site-packages/a.egg-info", "/opt/../usr/bin/", "//usr//bin//", "/usr/./bin/.",
					"", ".", "..", "../..", "a/../../b", "/..", "/usr/libexec", "usr/bin", "/x\ny/", "/usr/lib/node_modules/p/package", "/é/", "/\xff/")
			}
		}
		nb := 1 + r.Intn(4)
		var bases []string
		var di []int32
		for i := 0; i < nb; i++ {
			if r.Chance(1, 3) {
				bases = append(bases, r.Pick("", ".", "..", "PKG-INFO", "x.gemspec", ".jar", ".gemspec", "a.jar/", "../x.jar", "packageXjson", "package\njson", "package\u00e9json",
					"package\xc3json", "package\xe2\x82json", "package\U0001F600json", "package/json", "json", "b/c", "x\n.jar", "sbin", "a.egg-info/PKG-INFO", "q\xff.jar"))
			} else {
				bases = append(bases, r.Pick("a", "tool", "x.jar", "package.json", "lib.so"))
			}
			di = append(di, int32(r.Intn(len(dirs))))
		}
		switch r.Intn(8) {
		case 0: // fewer directory indexes than base names
			di = di[:len(di)-1]
			if len(di) == 0 {
				di = []int32{0}
				bases = append(bases, "x.jar")
			}
		case 1:
			di[r.Intn(len(di))] = int32(len(dirs))
		case 2:
			di[r.Intn(len(di))] = []int32{-1, -1 << 31, 1<<31 - 1}[r.Intn(3)]
		}
		arr := []rpmEntry{
			{tagDirindexes, typInt32, uint32(len(di)), be32s(di...)},
			{tagBasenames, typStringArray, uint32(len(bases)), cstr(bases...)},
			{tagDirnames, typStringArray, uint32(len(dirs)), cstr(dirs...)}}
		if r.Chance(1, 6) {
			// one of the three arrays twice (the last one wins), or missing
			k := r.Intn(3)
			if r.Chance(1, 2) {
				arr = append(arr, arr[k])
				arr[k].count = 1
			} else {
				arr = append(arr[:k], arr[k+1:]...)
			}
		}
		ents = append(ents, arr...)
	}
	if r.Chance(1, 6) {
		names := []string{"/usr/bin/q", "/opt/z.jar"}
		if r.Chance(1, 2) {
			names = []string{r.Pick("/usr/bin/q", "x", "/", "/a/package.json", "/a/package\u00e9json", "/a\n/x.jar"), r.Pick("", "/opt/z.jar", "/etc/passwd", "relative/name", "/usr/libexec/a/b")}
		}
		ents = append(ents, rpmEntry{tagFilenames, typStringArray, uint32(len(names)), cstr(names...)})
	}
	if r.Chance(1, 2) {
		ents = append(ents,
			rpmEntry{tagPayloadDigest, typStringArray, 1, cstr(strings.Repeat("ab", 32))},
			rpmEntry{tagPayloadDigestAlg, typInt32, 1, be32s(8)})
	}
	if r.Chance(1, 4) {
		ents = append(ents, rpmEntry{tagModularityLabel, typString, 1, cstr("nodejs:12:8030020210304194546:30b713e6")})
	}
	region := int32(0)
	switch r.Intn(5) {
	case 0: // region-less ("bdb" style)
	case 1:
		region = tagHeaderSignatures
	case 2:
		region = tagHeaderImage
	default:
		region = tagHeaderImmutable
	}
	return buildRpmHeader(ents, region)
}

func put32(b []byte, off int, v uint32) {
	if off >= 0 && off+4 <= len(b) {
		binary.BigEndian.PutUint32(b[off:], v)
	}
}

func get32(b []byte, off int) uint32 {
	if off >= 0 && off+4 <= len(b) {
		return binary.BigEndian.Uint32(b[off:])
	}
	return 0
}

// mutateRpmHeader applies one or two field-targeted edits.
func mutateRpmHeader(r *hx.Rand, base []byte) ([]byte, string) {
	b := append([]byte(nil), base...)
	how := ""
	rounds := 1
	if r.Chance(1, 4) {
		rounds = 2
	}
	for ; rounds > 0; rounds-- {
		n := int(get32(b, 0))
		if n > 4096 {
			n = 0
		}
		dsz := int(get32(b, 4))
		ent := func() int { // byte offset of a random index entry
			if n == 0 {
				return 8
			}
			return 8 + 16*r.Intn(n)
		}
		var name string
		switch r.Intn(14) {
		case 0:
			name = "tagsCt"
			put32(b, 0, []uint32{0, 1, uint32(n + 1), uint32(n - 1), 0xffff, 0x10000, 0xffffffff}[r.Intn(7)])
		case 1:
			name = "dataSz"
			put32(b, 4, []uint32{0, uint32(dsz + 1), uint32(dsz - 1), uint32(dsz + 16), 0x0fffffff, 0x10000000, 0xffffffff}[r.Intn(7)])
		case 2:
			name = "tag"
			t := wantedTags[r.Intn(len(wantedTags))]
			if r.Chance(1, 4) {
				t = []int32{0, -1, 61, 62, 63, 64, 65, 99, 100, 1 << 30}[r.Intn(10)]
			}
			put32(b, ent(), uint32(t))
		case 3:
			name = "type"
			put32(b, ent()+4, []uint32{0, 1, 2, 3, 4, 5, 6, 7, 8, 9, 10, 0xffffffff}[r.Intn(12)])
		case 4:
			name = "offset"
			e := ent()
			cur := int32(get32(b, e+8))
			v := []int32{-1, -16, -1 << 31, 1<<31 - 1, 1<<31 - 16, int32(dsz), int32(dsz) - 1, int32(dsz) + 1, cur + 1, cur - 1, 0, cur + 2}[r.Intn(12)]
			put32(b, e+8, uint32(v))
		case 5:
			name = "count"
			e := ent()
			cur := get32(b, e+12)
			put32(b, e+12, []uint32{0, 1, 2, cur + 1, cur - 1, uint32(dsz), uint32(dsz) + 1, 16, 0xffffffff, 0x7fffffff}[r.Intn(10)])
		case 6:
			name = "retype-wanted" // a wanted tag with a type of the same class / another class
			for i := 0; i < n; i++ {
				e := 8 + 16*i
				t := int32(get32(b, e))
				for _, w := range wantedTags {
					if t == w && r.Chance(1, 2) {
						put32(b, e+4, []uint32{typChar, typInt8, typInt16, typInt32, typInt64, typString, typBin, typStringArray, typI18nString}[r.Intn(9)])
						break
					}
				}
			}
		case 7:
			name = "trailer"
			// the region trailer is the last 16 bytes of the data
			o := len(b) - 16 + 4*r.Intn(4)
			put32(b, o, []uint32{0, 16, 61, 62, 63, 64, 7, 0xfffffff0, 0xffffffe0, 0x80000000, uint32(int32(-16 * n)), uint32(int32(-16*n - 16)), 1}[r.Intn(13)])
		case 8:
			name = "truncate"
			if len(b) > 0 {
				cuts := []int{0, 4, 8, 8 + 16*n, len(b) - 1, len(b) - 16, r.Intn(len(b))}
				c := cuts[r.Intn(len(cuts))]
				if c >= 0 && c <= len(b) {
					b = b[:c]
				}
			}
		case 9:
			name = "extend"
			b = append(b, make([]byte, 1+r.Intn(20))...)
		case 10:
			name = "data-nul" // remove or add NUL terminators in the data arena
			ds := 8 + 16*n
			if ds < len(b) {
				for k := 1 + r.Intn(3); k > 0; k-- {
					i := ds + r.Intn(len(b)-ds)
					if b[i] == 0 {
						b[i] = 'x'
					} else {
						b[i] = 0
					}
				}
			}
		case 11:
			name = "dirindex"
			for i := 0; i < n; i++ {
				e := 8 + 16*i
				if int32(get32(b, e)) == tagDirindexes {
					o := 8 + 16*n + int(get32(b, e+8))
					put32(b, o, []uint32{0xffffffff, 100, 0x80000000, 3}[r.Intn(4)])
				}
			}
		case 12:
			name = "flip"
			if len(b) > 0 {
				b[r.Intn(len(b))] ^= byte(1 << uint(r.Intn(8)))
			}
		case 13:
			name = "swap-entries"
			if n >= 2 {
				i, j := 8+16*r.Intn(n), 8+16*r.Intn(n)
				if i+16 <= len(b) && j+16 <= len(b) {
					var t [16]byte
					copy(t[:], b[i:i+16])
					copy(b[i:i+16], b[j:j+16])
					copy(b[j:j+16], t[:])
				}
			}
		}
		if how != "" {
			how += "+"
		}
		how += name
	}
	return b, how
}

// ---- Berkeley DB hash database ("Packages") ----

type bdbOrder struct{ binary.ByteOrder }

// genBdb builds a hash database the way rpm/bdb reads it: page 0 is the
// metadata page, hash pages hold pairs of (key, data) item offsets, every data
// item is an "off-page" reference to a chain of overflow pages holding one
// header blob.
func genBdb(r *hx.Rand, headers [][]byte) []byte {
	pageSz := 512 << uint(r.Intn(3))
	var ord binary.ByteOrder = binary.LittleEndian
	if r.Chance(1, 5) {
		ord = binary.BigEndian
	}
	b := buildBdb(ord, pageSz, headers, r.Chance(1, 3))
	if r.Chance(1, 3) {
		bdbInlineItems(r, ord, pageSz, b)
	}
	return b
}

// bdbInlineItems rewrites one or two off-page items of the first hash page as
// items stored in the page itself (type H_KEYDATA, as libdb keeps values of at
// most a quarter page): the value lies between the item's type byte and the
// offset of its key. The bytes come from the free middle of the page.
func bdbInlineItems(r *hx.Rand, ord binary.ByteOrder, pageSz int, b []byte) {
	if len(b) < 2*pageSz {
		return
	}
	p := b[pageSz : 2*pageSz]
	ne := int(ord.Uint16(p[20:])) / 2
	lo := 26 + 4*ne + 8 // first free byte after the index (and some slack)
	for k, n := 0, 1+r.Intn(2); k < n && ne > 0; k++ {
		i := r.Intn(ne)
		sz := []int{0, 5, 15, 16, 17, 40, 100}[r.Intn(7)]
		d := lo + r.Intn(8)
		key := d + 1 + sz
		if key+5 >= int(ord.Uint16(p[22:])) || key+5 > pageSz {
			continue
		}
		p[d] = 1
		for j := 0; j < sz; j++ {
			p[d+1+j] = byte(0x40 + j)
		}
		p[key] = 1
		ord.PutUint16(p[26+4*i:], uint16(key))
		ord.PutUint16(p[26+4*i+2:], uint16(d))
		lo = key + 5
	}
}

func buildBdb(ord binary.ByteOrder, pageSz int, headers [][]byte, interleave bool) []byte {
	perPage := pageSz - 26
	// plan the pages: hash pages first (each up to K items), then overflow chains
	const itemsPerHash = 4
	nHash := (len(headers) + itemsPerHash - 1) / itemsPerHash
	if nHash == 0 {
		nHash = 1
	}
	next := 1 + nHash // first overflow page number
	type chain struct{ pages []int }
	chains := make([]chain, len(headers))
	for i, h := range headers {
		np := (len(h) + perPage - 1) / perPage
		if np == 0 {
			np = 1
		}
		for k := 0; k < np; k++ {
			chains[i].pages = append(chains[i].pages, next)
			next++
		}
	}
	total := next
	if interleave && len(headers) >= 2 {
		// reverse the page numbers of each chain so "next" links go backwards
		for i := range chains {
			p := chains[i].pages
			for a, z := 0, len(p)-1; a < z; a, z = a+1, z-1 {
				p[a], p[z] = p[z], p[a]
			}
		}
	}
	out := make([]byte, total*pageSz)
	// meta page
	m := out[:pageSz]
	ord.PutUint32(m[12:], 0x00061561)
	ord.PutUint32(m[16:], 9)
	ord.PutUint32(m[20:], uint32(pageSz))
	m[25] = 8
	ord.PutUint32(m[32:], uint32(total-1))
	// hash pages
	for hp := 0; hp < nHash; hp++ {
		p := out[(1+hp)*pageSz : (2+hp)*pageSz]
		ord.PutUint32(p[8:], uint32(1+hp))
		p[25] = 13
		if hp%2 == 1 {
			p[25] = 2
		}
		lo, hi := hp*itemsPerHash, (hp+1)*itemsPerHash
		if hi > len(headers) {
			hi = len(headers)
		}
		free := pageSz
		ne := 0
		for i := lo; i < hi; i++ {
			// key item: H_KEYDATA (type 1) + 4 byte key
			free -= 5
			key := free
			p[key] = 1
			ord.PutUint32(p[key+1:], uint32(i+1))
			// data item: H_OFFPAGE
			free -= 12
			for free%4 != 0 {
				free--
			}
			d := free
			p[d] = 3
			ord.PutUint32(p[d+4:], uint32(chains[i].pages[0]))
			ord.PutUint32(p[d+8:], uint32(len(headers[i])))
			ord.PutUint16(p[26+4*ne:], uint16(key))
			ord.PutUint16(p[26+4*ne+2:], uint16(d))
			ne++
		}
		ord.PutUint16(p[20:], uint16(2*ne))
		ord.PutUint16(p[22:], uint16(free))
	}
	// overflow pages
	for i, h := range headers {
		rest := h
		for k, pn := range chains[i].pages {
			p := out[pn*pageSz : (pn+1)*pageSz]
			ord.PutUint32(p[8:], uint32(pn))
			p[25] = 7
			n := len(rest)
			if n > perPage {
				n = perPage
			}
			copy(p[26:], rest[:n])
			rest = rest[n:]
			if k+1 < len(chains[i].pages) {
				ord.PutUint32(p[16:], uint32(chains[i].pages[k+1]))
			} else {
				ord.PutUint16(p[22:], uint16(n))
			}
		}
	}
	return out
}

func bdbOrderOf(b []byte) (binary.ByteOrder, int) {
	if len(b) < 24 {
		return binary.LittleEndian, 512
	}
	var ord binary.ByteOrder = binary.LittleEndian
	if binary.LittleEndian.Uint32(b[12:]) == 0x61150600 {
		ord = binary.BigEndian
	}
	ps := int(ord.Uint32(b[20:]))
	if ps < 512 || ps > 65536 {
		ps = 512
	}
	return ord, ps
}

// mutateBdb edits page links, types, counts and sizes.
func mutateBdb(r *hx.Rand, base []byte) ([]byte, string) {
	b := append([]byte(nil), base...)
	how := ""
	rounds := 1
	if r.Chance(1, 4) {
		rounds = 2
	}
	for ; rounds > 0; rounds-- {
		ord, ps := bdbOrderOf(b)
		np := len(b) / ps
		pageOfType := func(ts ...byte) int { // offset of a random page with one of the types, or -1
			var c []int
			for i := 0; i < np; i++ {
				for _, t := range ts {
					if i*ps+25 < len(b) && b[i*ps+25] == t {
						c = append(c, i*ps)
					}
				}
			}
			if len(c) == 0 {
				return -1
			}
			return c[r.Intn(len(c))]
		}
		p32 := func(off int, v uint32) {
			if off >= 0 && off+4 <= len(b) {
				ord.PutUint32(b[off:], v)
			}
		}
		p16 := func(off int, v uint16) {
			if off >= 0 && off+2 <= len(b) {
				ord.PutUint16(b[off:], v)
			}
		}
		g16 := func(off int) int {
			if off >= 0 && off+2 <= len(b) {
				return int(ord.Uint16(b[off:]))
			}
			return 0
		}
		somePage := func() uint32 {
			return []uint32{0, 1, uint32(np - 1), uint32(np), uint32(np + 5), uint32(r.Intn(np + 1)), 0xffffffff}[r.Intn(7)]
		}
		var name string
		switch r.Intn(13) {
		case 0:
			name = "lastpage"
			p32(32, []uint32{0, 1, uint32(np), uint32(np - 2), uint32(np + 100), 0xffffffff}[r.Intn(6)])
		case 1:
			name = "pagesize"
			p32(20, []uint32{0, 256, 511, 1024, 4096, 65536, 131072, 0xffffffff}[r.Intn(8)])
		case 2:
			name = "meta"
			switch r.Intn(3) {
			case 0:
				p32(12, []uint32{0, 0x00053162, 0x61150600, 0x00061561}[r.Intn(4)])
			case 1:
				if len(b) > 25 {
					b[25] = byte(r.Intn(16))
				}
			case 2:
				if len(b) > 24 {
					b[24] = byte(r.Intn(3))
				}
			}
		case 3:
			name = "ov-next" // link of an overflow page: cycles, self, other chains, hash/meta pages, out of file
			if o := pageOfType(7); o >= 0 {
				self := uint32(o / ps)
				p32(o+16, []uint32{self, self - 1, self + 1, somePage(), 0, 1}[r.Intn(6)])
			}
		case 4:
			name = "ov-type"
			if o := pageOfType(7); o >= 0 {
				if o+25 < len(b) {
					b[o+25] = []byte{0, 2, 8, 13, 3, 9}[r.Intn(6)]
				}
			}
		case 5:
			name = "ov-hf"
			if o := pageOfType(7); o >= 0 {
				p16(o+22, []uint16{0, 1, uint16(ps - 26), uint16(ps), 0xffff, uint16(r.Intn(ps))}[r.Intn(6)])
			}
		case 6:
			name = "hoff-page" // first page of an off-page item
			if o := pageOfType(13, 2); o >= 0 {
				ne := g16(o+20) / 2
				if ne > 0 {
					d := g16(o + 26 + 4*r.Intn(ne) + 2)
					p32(o+d+4, somePage())
				}
			}
		case 7:
			name = "hoff-type"
			if o := pageOfType(13, 2); o >= 0 {
				ne := g16(o+20) / 2
				if ne > 0 {
					d := g16(o + 26 + 4*r.Intn(ne) + 2)
					if o+d < len(b) {
						b[o+d] = byte(r.Intn(5))
					}
				}
			}
		case 8:
			name = "entries"
			if o := pageOfType(13, 2); o >= 0 {
				cur := uint16(g16(o + 20))
				p16(o+20, []uint16{0, 1, cur + 1, cur + 2, cur - 2, 0xfffe, 0xffff, uint16(ps / 2)}[r.Intn(8)])
			}
		case 9:
			name = "entry-off"
			if o := pageOfType(13, 2); o >= 0 {
				ne := g16(o+20) / 2
				if ne > 0 {
					p16(o+26+4*r.Intn(ne)+2, []uint16{0, 25, uint16(ps - 1), uint16(ps - 12), uint16(ps - 11), uint16(ps), 0xffff, uint16(r.Intn(ps))}[r.Intn(8)])
				}
			}
		case 10:
			name = "hash-type"
			if o := pageOfType(13, 2); o >= 0 {
				if o+25 < len(b) {
					b[o+25] = []byte{0, 2, 13, 7, 8, 5}[r.Intn(6)]
				}
			}
		case 11:
			name = "truncate"
			if len(b) > 0 {
				c := []int{0, 100, 512, ps, (np - 1) * ps, len(b) - 1, len(b) - ps/2, r.Intn(len(b))}[r.Intn(8)]
				if c >= 0 && c <= len(b) {
					b = b[:c]
				}
			}
		case 12:
			name = "flip"
			for k := 1 + r.Intn(3); k > 0 && len(b) > 0; k-- {
				// mostly in page headers
				i := r.Intn(len(b))
				if r.Chance(2, 3) && np > 0 {
					i = r.Intn(np)*ps + r.Intn(30)
				}
				if i < len(b) {
					b[i] ^= byte(1 << uint(r.Intn(8)))
				}
			}
		}
		if how != "" {
			how += "+"
		}
		how += name
	}
	return b, how
}

// ---- ndb ("Packages.db") ----

// genNdb builds a Packages.db: 32-byte header, slot table filling the slot
// pages, then the blobs (16-byte header, data, padding, 12-byte trailer).
func genNdb(r *hx.Rand, headers [][]byte) []byte {
	nPages := 1
	if len(headers) > 200 {
		nPages = 2
	}
	gaps := r.Chance(1, 3)
	return buildNdb(headers, nPages, gaps)
}

func buildNdb(headers [][]byte, nPages int, gaps bool) []byte {
	le := binary.LittleEndian
	out := make([]byte, nPages*4096)
	copy(out, "RpmP")
	le.PutUint32(out[4:], 0)
	le.PutUint32(out[8:], 1)
	le.PutUint32(out[12:], uint32(nPages))
	le.PutUint32(out[16:], uint32(len(headers)+1))
	slot := 2
	for i, h := range headers {
		if gaps && i%2 == 1 {
			// an empty slot in between
			o := slot * 16
			copy(out[o:], "Slot")
			slot++
		}
		blkOff := len(out) / 16
		total := 16 + len(h) + 12
		pad := (16 - total%16) % 16
		blob := make([]byte, 16+len(h)+pad+12)
		copy(blob, "BlbS")
		le.PutUint32(blob[4:], uint32(i+1))
		le.PutUint32(blob[8:], 1)
		le.PutUint32(blob[12:], uint32(len(h)))
		copy(blob[16:], h)
		t := len(blob) - 12
		le.PutUint32(blob[t:], adler32.Checksum(blob[:t]))
		le.PutUint32(blob[t+4:], uint32(len(h)))
		copy(blob[t+8:], "BlbE")
		out = append(out, blob...)
		o := slot * 16
		copy(out[o:], "Slot")
		le.PutUint32(out[o+4:], uint32(i+1))
		le.PutUint32(out[o+8:], uint32(blkOff))
		le.PutUint32(out[o+12:], uint32(len(blob)/16))
		slot++
	}
	// the rest of the slot pages: empty slots
	for ; slot*16+16 <= nPages*4096; slot++ {
		copy(out[slot*16:], "Slot")
	}
	return out
}

// mutateNdb edits the header counts, slots and blob framing.
func mutateNdb(r *hx.Rand, base []byte) ([]byte, string) {
	b := append([]byte(nil), base...)
	le := binary.LittleEndian
	how := ""
	rounds := 1
	if r.Chance(1, 4) {
		rounds = 2
	}
	p32 := func(off int, v uint32) {
		if off >= 0 && off+4 <= len(b) {
			le.PutUint32(b[off:], v)
		}
	}
	g32 := func(off int) uint32 {
		if off >= 0 && off+4 <= len(b) {
			return le.Uint32(b[off:])
		}
		return 0
	}
	for ; rounds > 0; rounds-- {
		// used slots
		var used []int
		for o := 32; o+16 <= len(b) && o < 8192; o += 16 {
			if g32(o+8) != 0 {
				used = append(used, o)
			}
		}
		slot := func() int {
			if len(used) == 0 {
				return 32
			}
			return used[r.Intn(len(used))]
		}
		var name string
		switch r.Intn(12) {
		case 0:
			name = "npages"
			p32(12, []uint32{0, 1, 2, 16, 0x100000, 0xffffffff, 0x00100001, 0x000fffff, 0x7fffffff, 0x00080000}[r.Intn(10)])
		case 1:
			name = "nextidx"
			p32(16, []uint32{0, 1, 2, uint32(len(used)), uint32(len(used) + 2), 0x04000001, 0xffffffff}[r.Intn(7)])
		case 2:
			name = "header-magic"
			switch r.Intn(3) {
			case 0:
				copy(b, "RpmX")
			case 1:
				p32(4, 1)
			case 2:
				copy(b, "rpmP")
			}
		case 3:
			name = "slot-magic"
			if s := slot(); s+4 <= len(b) {
				copy(b[s:], []string{"Slo\x00", "slot", "Blob"}[r.Intn(3)])
			}
		case 4:
			name = "slot-index"
			s := slot()
			p32(s+4, []uint32{0, 1, g32(s+4) + 1, uint32(len(used)), 0xffffffff}[r.Intn(5)])
		case 5:
			name = "slot-offset"
			s := slot()
			p32(s+8, []uint32{0, 1, 2, g32(s+8) + 1, g32(s+8) - 1, uint32(len(b) / 16), uint32(len(b)/16) - 1, 0xffffffff, 0x10000000}[r.Intn(9)])
		case 6:
			name = "slot-count"
			s := slot()
			p32(s+12, []uint32{0, 1, 2, g32(s+12) + 1, g32(s+12) - 1, uint32(len(b) / 16), 0xffffffff, 0x10000000}[r.Intn(8)])
		case 7:
			name = "blob-header"
			s := slot()
			o := int(g32(s+8)) * 16
			switch r.Intn(3) {
			case 0:
				if o+4 <= len(b) && o >= 0 {
					copy(b[o:], "BlbX")
				}
			case 1:
				p32(o+4, g32(o+4)+1)
			case 2:
				p32(o+12, []uint32{0, g32(o+12) + 1, g32(o+12) - 1, 0xffffffff, 28}[r.Intn(5)])
			}
		case 8:
			name = "blob-trailer"
			s := slot()
			o := int(g32(s+8))*16 + int(g32(s+12))*16 - 12
			switch r.Intn(3) {
			case 0:
				p32(o, g32(o)+1)
			case 1:
				p32(o+4, g32(o+4)+1)
			case 2:
				if o >= 0 && o+12 <= len(b) {
					copy(b[o+8:], "BlbX")
				}
			}
		case 9:
			name = "dup-slot" // two slots for the same blob / same index
			if len(used) >= 2 {
				a, c := used[r.Intn(len(used))], used[r.Intn(len(used))]
				copy(b[c:c+16], b[a:a+16])
			}
		case 10:
			name = "truncate"
			if len(b) > 0 {
				c := []int{0, 16, 31, 32, 48, 4096, len(b) - 1, len(b) - 12, len(b) - 16, r.Intn(len(b))}[r.Intn(10)]
				if c >= 0 && c <= len(b) {
					b = b[:c]
				}
			}
		case 11:
			name = "flip"
			for k := 1 + r.Intn(3); k > 0 && len(b) > 0; k-- {
				i := r.Intn(len(b))
				if r.Chance(1, 2) && len(used) > 0 {
					i = slot() + r.Intn(16)
				}
				if i < len(b) {
					b[i] ^= byte(1 << uint(r.Intn(8)))
				}
			}
		}
		if how != "" {
			how += "+"
		}
		how += name
	}
	return b, how
}
