package c06

// Generators of the search half: well-formed content for every path a built-in
// scanner reads, structure-aware mutators, and the assembly of layers.

import (
	"archive/tar"
	"archive/zip"
	"bytes"
	"compress/flate"
	"compress/gzip"
	"encoding/binary"
	"fmt"
	"hash/crc32"
	"os"
	"sort"
	"strings"
	"sync"

	"github.com/quay/claircore/verifharness/internal/hx"
)

// lyFile is one member of a generated layer.
type lyFile struct {
	name string
	typ  byte // tar type flag; 0 means regular
	mode int64
	link string
	body []byte
}

// lyPart is what one content generator contributes to a layer.
type lyPart struct {
	kind  string
	files []lyFile
	muts  []string
	// jarInflated is the sum of the inflated sizes of the deflated members
	// that java/jar reads without a cap: those named like a jar (buffered
	// whole) and the manifest (its first line is read whole).
	jarInflated uint64
}

type lyOpts struct {
	wellFormed bool // no mutation at all
	big        bool // thorough tier: more and bigger
	// symlinkDirs: move a directory of the layer and leave a symbolic link
	symlinkDirs bool
}

type partGen struct {
	name   string
	weight int
	gen    func(r *hx.Rand, o lyOpts) lyPart
}

// ---- small helpers ----

func lyPick(r *hx.Rand, xs ...string) string { return xs[r.Intn(len(xs))] }

func lyWord(r *hx.Rand) string {
	return lyPick(r, "a", "zlib", "libfoo", "openssl", "bash", "x", "foo-bar", "py_pkg", "left-pad", "rails", "ünï", "A.B", "pkg+1", "n0", "core", "-", ".", "z")
}

func lyVersion(r *hx.Rand) string {
	return lyPick(r, "1", "1.0", "1.2.3", "0.0.1", "2:1.2.3-4", "1.2.3-r0", "1.0.0rc1", "1!2.0.post1.dev3", "v1.2.3", "1.2.3+build.5",
		"1.2.3-alpine4", "10.20.30~beta", "2021.10.1", "1.0-1ubuntu2.1", "0", "1.2.3.4.5.6", "1.0.0-SNAPSHOT", "4.el9", "", "v", ":", "-", "1-", ".")
}

func lyRandBytes(r *hx.Rand, n int) []byte {
	b := make([]byte, n)
	for i := 0; i+8 <= n; i += 8 {
		binary.LittleEndian.PutUint64(b[i:], r.U64())
	}
	for i := n &^ 7; i < n; i++ {
		b[i] = byte(r.U64())
	}
	return b
}

func lyDigitRuns(b []byte) [][2]int {
	var runs [][2]int
	for i := 0; i < len(b); {
		if b[i] < '0' || b[i] > '9' {
			i++
			continue
		}
		j := i
		for j < len(b) && b[j] >= '0' && b[j] <= '9' {
			j++
		}
		runs = append(runs, [2]int{i, j})
		i = j
	}
	return runs
}

func lySplice(b []byte, lo, hi int, with []byte) []byte {
	out := make([]byte, 0, len(b)-(hi-lo)+len(with))
	out = append(out, b[:lo]...)
	out = append(out, with...)
	return append(out, b[hi:]...)
}

// lyLines returns the [start,end) byte ranges of the lines (end includes the
// separator).
func lyRanges(b []byte, sep string) [][2]int {
	var rs [][2]int
	for off := 0; off < len(b); {
		i := bytes.Index(b[off:], []byte(sep))
		if i < 0 {
			rs = append(rs, [2]int{off, len(b)})
			break
		}
		rs = append(rs, [2]int{off, off + i + len(sep)})
		off += i + len(sep)
	}
	return rs
}

// textShape tells the text mutator where the structure of a format is.
type textShape struct {
	stanza string // stanza separator ("" if the format has none)
	kv     string // key/value separator inside a line
}

var (
	shapeRFC822 = textShape{"\n\n", ":"}
	shapeEnv    = textShape{"", "="}
	shapeJSON   = textShape{"", ":"}
	shapeDocker = textShape{"\n\n", "="}
	shapeRuby   = textShape{"", "="}
)

func lyLongLen(r *hx.Rand) int {
	switch {
	case r.Chance(1, 10):
		return 200 << 10
	case r.Chance(1, 3):
		return 4097 + r.Intn(61440)
	}
	return 100 + r.Intn(4000)
}

// mutateText applies one structure-aware edit and names it. other yields a
// second well-formed file of the same format (for splices).
func mutateText(r *hx.Rand, base []byte, sh textShape, other func() []byte) ([]byte, string) {
	b := append([]byte(nil), base...)
	lines := lyRanges(b, "\n")
	var stanzas [][2]int
	if sh.stanza != "" {
		stanzas = lyRanges(b, sh.stanza)
	}
	pickLine := func() (int, int) {
		if len(lines) == 0 {
			return 0, 0
		}
		l := lines[r.Intn(len(lines))]
		return l[0], l[1]
	}
	pickStanza := func() (int, int) {
		if len(stanzas) == 0 {
			return pickLine()
		}
		s := stanzas[r.Intn(len(stanzas))]
		return s[0], s[1]
	}
	// value range of a random line having the kv separator
	pickValue := func() (int, int, bool) {
		for try := 0; try < 8 && len(lines) > 0; try++ {
			lo, hi := pickLine()
			i := bytes.Index(b[lo:hi], []byte(sh.kv))
			if i < 0 {
				continue
			}
			vlo := lo + i + len(sh.kv)
			vhi := hi
			for vhi > vlo && (b[vhi-1] == '\n' || b[vhi-1] == '\r') {
				vhi--
			}
			return vlo, vhi, true
		}
		return 0, 0, false
	}
	switch r.Intn(28) {
	case 26, 27:
		// the value of a line replaced by something degenerate: one byte, a
		// lone quote, an empty pair of quotes, a separator (with and without
		// the blank that follows the separator in the well-formed file)
		if lo, hi, ok := pickValue(); ok {
			v := lyPick(r, "x", "'", "\"", "''", "\"\"", "-", ".", "0", "=", ":", "\\", "(", "[", "{", "$", "`", "#", "\t", "é", "\xff", ".freeze", "'.freeze", "x.", ",")
			if r.Chance(2, 3) {
				v = " " + v
			}
			return lySplice(b, lo, hi, []byte(v)), "tiny-value"
		}
		return b, "tiny-value"
	case 0:
		lo, _ := pickStanza()
		return b[:lo], "trunc-stanza"
	case 1:
		lo, _ := pickLine()
		return b[:lo], "trunc-line"
	case 2:
		if len(b) > 0 {
			b = b[:r.Intn(len(b))]
		}
		return b, "trunc-mid"
	case 3:
		lo, hi := pickLine()
		return lySplice(b, lo, hi, nil), "del-line"
	case 4:
		lo, hi := pickLine()
		n := 1
		if r.Chance(1, 6) {
			n = 2 + r.Intn(200)
		}
		return lySplice(b, lo, lo, bytes.Repeat(b[lo:hi], n)), "dup-line"
	case 5:
		lo, hi := pickStanza()
		return lySplice(b, lo, hi, nil), "del-stanza"
	case 6:
		lo, hi := pickStanza()
		n := 1
		if r.Chance(1, 6) {
			n = 2 + r.Intn(100)
		}
		return lySplice(b, lo, lo, bytes.Repeat(b[lo:hi], n)), "dup-stanza"
	case 7:
		if lo, hi, ok := pickValue(); ok {
			return lySplice(b, lo, hi, nil), "empty-value"
		}
		return b, "empty-value"
	case 8:
		big := lyPick(r, "99999999999999999999999999", "18446744073709551616", "9223372036854775808", "2147483648", "4294967296", "1e999999", "00000000000000000000001", strings.Repeat("9", 400))
		if runs := lyDigitRuns(b); len(runs) > 0 {
			x := runs[r.Intn(len(runs))]
			return lySplice(b, x[0], x[1], []byte(big)), "huge-number"
		}
		if lo, hi, ok := pickValue(); ok {
			return lySplice(b, lo, hi, []byte(big)), "huge-number"
		}
		return b, "huge-number"
	case 9:
		neg := lyPick(r, "-1", "-0", "-9223372036854775808", "-2147483649", "--1", "+1")
		if runs := lyDigitRuns(b); len(runs) > 0 {
			x := runs[r.Intn(len(runs))]
			return lySplice(b, x[0], x[1], []byte(neg)), "negative-number"
		}
		return b, "negative-number"
	case 10:
		at := 0
		if len(b) > 0 {
			at = r.Intn(len(b) + 1)
		}
		if lo, hi, ok := pickValue(); ok && r.Chance(2, 3) {
			at = lo + r.Intn(hi-lo+1)
		}
		return lySplice(b, at, at, make([]byte, 1+r.Intn(4))), "nul"
	case 11:
		bad := lyPick(r, "\xff\xfe", "\xc0\xaf", "\xed\xa0\x80", "\xf8\x88\x80\x80\x80", "\x80", "\xe2\x82", "\xef\xbb\xbf")
		at := 0
		if len(b) > 0 {
			at = r.Intn(len(b) + 1)
		}
		if lo, hi, ok := pickValue(); ok && r.Chance(2, 3) {
			at = lo + r.Intn(hi-lo+1)
		}
		return lySplice(b, at, at, []byte(bad)), "bad-utf8"
	case 12:
		n := lyLongLen(r)
		fill := []byte(lyPick(r, "a", "a", "ab ", "${x}", "\\", "\"", "9", "é", "/", "-"))
		long := bytes.Repeat(fill, n/len(fill)+1)[:n]
		if lo, hi, ok := pickValue(); ok && r.Chance(3, 4) {
			return lySplice(b, lo, hi, long), "long-value"
		}
		lo, _ := pickLine()
		// a long key / a long line without separator
		return lySplice(b, lo, lo, long), "long-line"
	case 13:
		return bytes.ReplaceAll(b, []byte("\n"), []byte("\r\n")), "crlf"
	case 14:
		return bytes.TrimRight(b, "\r\n"), "no-final-newline"
	case 15:
		if len(stanzas) >= 2 && r.Chance(1, 2) {
			i, j := r.Intn(len(stanzas)), r.Intn(len(stanzas))
			if i > j {
				i, j = j, i
			}
			if i != j {
				a, c := stanzas[i], stanzas[j]
				var o []byte
				o = append(o, b[:a[0]]...)
				o = append(o, b[c[0]:c[1]]...)
				o = append(o, b[a[1]:c[0]]...)
				o = append(o, b[a[0]:a[1]]...)
				o = append(o, b[c[1]:]...)
				return o, "swap-stanzas"
			}
		}
		if len(lines) >= 2 {
			i, j := r.Intn(len(lines)), r.Intn(len(lines))
			if i > j {
				i, j = j, i
			}
			if i != j {
				a, c := lines[i], lines[j]
				var o []byte
				o = append(o, b[:a[0]]...)
				o = append(o, b[c[0]:c[1]]...)
				o = append(o, b[a[1]:c[0]]...)
				o = append(o, b[a[0]:a[1]]...)
				o = append(o, b[c[1]:]...)
				return o, "swap-lines"
			}
		}
		return b, "swap-lines"
	case 16:
		for k := 1 + r.Intn(4); k > 0 && len(b) > 0; k-- {
			b[r.Intn(len(b))] ^= byte(1 << uint(r.Intn(8)))
		}
		return b, "flip"
	case 17:
		o := other()
		var cut1, cut2 int
		if len(b) > 0 {
			cut1 = r.Intn(len(b) + 1)
		}
		if len(o) > 0 {
			cut2 = r.Intn(len(o) + 1)
		}
		return append(b[:cut1:cut1], o[cut2:]...), "splice"
	case 18:
		for try := 0; try < 8 && len(lines) > 0; try++ {
			lo, hi := pickLine()
			if i := bytes.Index(b[lo:hi], []byte(sh.kv)); i >= 0 {
				return lySplice(b, lo+i, lo+i+len(sh.kv), nil), "del-separator"
			}
		}
		return b, "del-separator"
	case 19:
		lo, _ := pickLine()
		return lySplice(b, lo, lo, []byte(lyPick(r, " ", "\t", "  \t "))), "leading-space"
	case 20:
		lo, hi := pickLine()
		if i := bytes.Index(b[lo:hi], []byte(sh.kv)); i >= 0 {
			dup := append(append([]byte(nil), b[lo:lo+i+len(sh.kv)]...), []byte(" other\n")...)
			return lySplice(b, hi, hi, dup), "dup-key"
		}
		return b, "dup-key"
	case 21:
		return []byte(strings.Repeat("\n", 1+r.Intn(5))), "only-newlines"
	case 22:
		return nil, "empty-file"
	case 23:
		lo, hi := pickLine()
		return lySplice(b, lo, hi, []byte(lyPick(r, ":\n", "=\n", ": \n", " : x\n", "::\n", "==x\n", "\\\n", "\"\n", "'\n", "#\n", "${\n", "$\n"))), "odd-line"
	case 24:
		// the file starts in the middle of something
		lo, _ := pickLine()
		if r.Chance(1, 2) && len(b) > 0 {
			lo = r.Intn(len(b))
		}
		return b[lo:], "cut-head"
	default:
		// many stanza separators in a row, or none at all
		if sh.stanza != "" && r.Chance(1, 2) {
			return bytes.ReplaceAll(b, []byte(sh.stanza), []byte("\n")), "join-stanzas"
		}
		return bytes.ReplaceAll(b, []byte("\n"), []byte("\n\n\n")), "triple-newlines"
	}
}

// mutateBytes is the format-blind mutator for binary content.
func mutateBytes(r *hx.Rand, base []byte) ([]byte, string) {
	b := append([]byte(nil), base...)
	switch r.Intn(14) {
	case 8:
		// a length / count / offset field one off: width 1, 2, 4 or 8, either
		// byte order, at an aligned position
		w := 1 << uint(r.Intn(4))
		if len(b) >= w {
			at := r.Intn(len(b)-w+1) &^ (w - 1)
			var ord binary.ByteOrder = binary.LittleEndian
			if r.Chance(1, 2) {
				ord = binary.BigEndian
			}
			d := uint64(1)
			if r.Chance(1, 2) {
				d = ^uint64(0)
			}
			switch w {
			case 1:
				b[at] += byte(d)
			case 2:
				ord.PutUint16(b[at:], ord.Uint16(b[at:])+uint16(d))
			case 4:
				ord.PutUint32(b[at:], ord.Uint32(b[at:])+uint32(d))
			case 8:
				ord.PutUint64(b[at:], ord.Uint64(b[at:])+d)
			}
		}
		return b, "field-plus-minus-1"
	case 9:
		for k := 1 + r.Intn(3); k > 0 && len(b) >= 2; k-- {
			v := []uint16{0, 1, 0x7fff, 0x8000, 0xffff, 0xfffe, uint16(len(b))}[r.Intn(7)]
			at := r.Intn(len(b) - 1)
			if r.Chance(1, 2) {
				binary.LittleEndian.PutUint16(b[at:], v)
			} else {
				binary.BigEndian.PutUint16(b[at:], v)
			}
		}
		return b, "set-u16"
	case 10:
		if len(b) >= 8 {
			v := []uint64{1<<63 - 1, 1 << 63, ^uint64(0), 1 << 40, 1 << 32, uint64(len(b)) + 1, 1 << 62}[r.Intn(7)]
			at := r.Intn(len(b)-7) &^ 3
			if r.Chance(1, 2) {
				binary.LittleEndian.PutUint64(b[at:], v)
			} else {
				binary.BigEndian.PutUint64(b[at:], v)
			}
		}
		return b, "set-u64"
	case 11:
		// two records of a table swapped / one copied over another
		sz := []int{4, 8, 12, 16, 24, 32, 40, 64}[r.Intn(8)]
		if len(b) >= 3*sz {
			i, j := r.Intn(len(b)/sz-1)*sz, r.Intn(len(b)/sz-1)*sz
			t := append([]byte(nil), b[i:i+sz]...)
			copy(b[i:i+sz], b[j:j+sz])
			if r.Chance(1, 2) {
				copy(b[j:j+sz], t)
			}
		}
		return b, "swap-records"
	case 12:
		// cut at a structural boundary, or one byte off it
		al := []int{16, 64, 512, 4096}[r.Intn(4)]
		if len(b) > al {
			c := (1+r.Intn(len(b)/al))*al + r.Intn(3) - 1
			if c > 0 && c < len(b) {
				b = b[:c]
			}
		}
		return b, "trunc-aligned"
	case 13:
		// the head of the file (magic and header fields) spliced in further down
		if len(b) > 128 {
			n := []int{4, 16, 64, 100}[r.Intn(4)]
			at := r.Intn(len(b)-n) &^ 3
			copy(b[at:], b[:n])
		}
		return b, "head-splice"
	case 0:
		if len(b) > 0 {
			b = b[:r.Intn(len(b))]
		}
		return b, "trunc-mid"
	case 1:
		for k := 1 + r.Intn(6); k > 0 && len(b) > 0; k-- {
			b[r.Intn(len(b))] ^= byte(1 << uint(r.Intn(8)))
		}
		return b, "flip"
	case 2:
		for k := 1 + r.Intn(3); k > 0 && len(b) >= 4; k-- {
			v := []uint32{0, 1, 0x7fffffff, 0x80000000, 0xffffffff, 0xfffffff0, uint32(len(b)), uint32(len(b)) + 1}[r.Intn(8)]
			at := r.Intn(len(b) - 3)
			if r.Chance(1, 2) {
				binary.LittleEndian.PutUint32(b[at:], v)
			} else {
				binary.BigEndian.PutUint32(b[at:], v)
			}
		}
		return b, "set-u32"
	case 3:
		if len(b) > 0 {
			at := r.Intn(len(b))
			n := 1 + r.Intn(64)
			if at+n > len(b) {
				n = len(b) - at
			}
			for i := 0; i < n; i++ {
				b[at+i] = 0
			}
		}
		return b, "zero-run"
	case 4:
		if len(b) > 0 {
			at := r.Intn(len(b))
			n := 1 + r.Intn(64)
			if at+n > len(b) {
				n = len(b) - at
			}
			for i := 0; i < n; i++ {
				b[at+i] = 0xff
			}
		}
		return b, "ff-run"
	case 5:
		return append(b, lyRandBytes(r, 1+r.Intn(600))...), "append-garbage"
	case 6:
		if len(b) > 1 {
			lo := r.Intn(len(b))
			hi := lo + r.Intn(len(b)-lo)
			return lySplice(b, lo, hi, nil), "del-range"
		}
		return b, "del-range"
	default:
		if len(b) > 1 {
			lo := r.Intn(len(b))
			hi := lo + r.Intn(len(b)-lo)
			return lySplice(b, lo, lo, b[lo:hi]), "dup-range"
		}
		return b, "dup-range"
	}
}

// textVariant produces the content of a text file: well-formed, or with one to
// three mutations.
func textVariant(r *hx.Rand, o lyOpts, sh textShape, gen func() []byte) ([]byte, []string) {
	b := gen()
	if o.wellFormed || r.Chance(1, 6) {
		return b, []string{"none"}
	}
	n := 1
	if r.Chance(1, 4) {
		n = 2 + r.Intn(2)
	}
	var muts []string
	for ; n > 0; n-- {
		var m string
		if r.Chance(1, 12) {
			b, m = mutateBytes(r, b)
		} else {
			b, m = mutateText(r, b, sh, gen)
		}
		muts = append(muts, m)
	}
	return b, muts
}

// ---- layer assembly ----

// lyTar writes the files with the standard library's writer. Parent
// directories are written when withDirs is set.
func lyTar(r *hx.Rand, files []lyFile, withDirs bool) []byte {
	var buf bytes.Buffer
	tw := tar.NewWriter(&buf)
	seen := map[string]bool{}
	dir := func(d string) {
		if d == "" || d == "." || seen[d] {
			return
		}
		seen[d] = true
		tw.WriteHeader(&tar.Header{Typeflag: tar.TypeDir, Name: d + "/", Mode: 0o755})
	}
	for _, f := range files {
		if withDirs {
			parts := strings.Split(strings.TrimSuffix(f.name, "/"), "/")
			for i := 1; i < len(parts); i++ {
				dir(strings.Join(parts[:i], "/"))
			}
		}
		h := &tar.Header{Name: f.name, Typeflag: f.typ, Mode: f.mode, Linkname: f.link}
		if h.Typeflag == 0 {
			h.Typeflag = tar.TypeReg
		}
		if h.Mode == 0 {
			h.Mode = 0o644
		}
		switch h.Typeflag {
		case tar.TypeDir:
			n := strings.TrimSuffix(f.name, "/")
			if seen[n] {
				continue
			}
			seen[n] = true
			h.Name = n + "/"
			h.Mode = 0o755
		case tar.TypeReg:
			h.Size = int64(len(f.body))
		}
		switch r.Intn(6) {
		case 0:
			h.Format = tar.FormatPAX
		case 1:
			h.Format = tar.FormatGNU
		}
		if err := tw.WriteHeader(h); err != nil {
			h.Format = tar.FormatUnknown
			if err := tw.WriteHeader(h); err != nil {
				continue
			}
		}
		if h.Typeflag == tar.TypeReg {
			tw.Write(f.body)
		}
	}
	tw.Close()
	return append([]byte(nil), buf.Bytes()...)
}

// rawTarHeader builds one ustar header block by hand (the standard library's
// writer refuses the lies the hand-built layers need). size is written in
// octal when it fits, else base-256.
func rawTarHeader(name string, typ byte, size int64, link string, mode int64) []byte {
	b := make([]byte, 512)
	copy(b[0:100], name)
	copy(b[100:108], fmt.Sprintf("%07o\x00", mode&0o7777777))
	copy(b[108:116], "0000000\x00")
	copy(b[116:124], "0000000\x00")
	if size >= 0 && size <= 0o77777777777 {
		copy(b[124:136], fmt.Sprintf("%011o\x00", size))
	} else {
		copy(b[124:136], base256(size))
	}
	copy(b[136:148], "00000000000\x00")
	b[156] = typ
	copy(b[157:257], link)
	copy(b[257:263], "ustar\x00")
	copy(b[263:265], "00")
	rawTarChecksum(b)
	return b
}

func rawTarChecksum(b []byte) {
	copy(b[148:156], "        ")
	sum := 0
	for _, c := range b[:512] {
		sum += int(c)
	}
	copy(b[148:156], fmt.Sprintf("%06o\x00 ", sum))
}

func rawTarFile(name string, body []byte) []byte {
	b := rawTarHeader(name, '0', int64(len(body)), "", 0o644)
	b = append(b, body...)
	if pad := (512 - len(body)%512) % 512; pad > 0 {
		b = append(b, make([]byte, pad)...)
	}
	return b
}

func rawTarEnd() []byte { return make([]byte, 1024) }

var (
	exeOnce  sync.Once
	exeBytes []byte
)

// selfExe is the harness binary itself: the well-formed Go executable sample.
func selfExe() []byte {
	exeOnce.Do(func() {
		if p, err := os.Executable(); err == nil {
			exeBytes, _ = os.ReadFile(p)
		}
	})
	return exeBytes
}

// ---- zip / jar ----

type zipMember struct {
	name   string
	body   []byte
	method uint16
	// lies (applied with CreateRaw)
	raw        bool
	claimSize  uint64
	claimCSize uint64
	badCRC     bool
}

func deflateBytes(b []byte) []byte {
	var buf bytes.Buffer
	fw, _ := flate.NewWriter(&buf, flate.BestCompression)
	fw.Write(b)
	fw.Close()
	return buf.Bytes()
}

func buildZip(ms []zipMember, comment string) []byte {
	var buf bytes.Buffer
	zw := zip.NewWriter(&buf)
	for _, m := range ms {
		fh := &zip.FileHeader{Name: m.name, Method: m.method}
		if !m.raw && !m.badCRC {
			w, err := zw.CreateHeader(fh)
			if err != nil {
				continue
			}
			w.Write(m.body)
			continue
		}
		data := m.body
		if m.method == zip.Deflate {
			data = deflateBytes(m.body)
		}
		fh.CRC32 = crc32.ChecksumIEEE(m.body)
		if m.badCRC {
			fh.CRC32 ^= 0x5a5a5a5a
		}
		fh.UncompressedSize64 = uint64(len(m.body))
		fh.CompressedSize64 = uint64(len(data))
		if m.claimSize != 0 {
			fh.UncompressedSize64 = m.claimSize
		}
		if m.claimCSize != 0 {
			fh.CompressedSize64 = m.claimCSize
		}
		w, err := zw.CreateRaw(fh)
		if err != nil {
			continue
		}
		w.Write(data)
	}
	if comment != "" {
		zw.SetComment(comment)
	}
	zw.Close()
	return append([]byte(nil), buf.Bytes()...)
}

var (
	bombOnce sync.Once
	bombData []byte
)

// zeros8M is the body of the deflate bomb member (8 MiB of zeros, about 8 KiB
// deflated).
func zeros8M() []byte {
	bombOnce.Do(func() { bombData = make([]byte, 8<<20) })
	return bombData
}

var (
	bigBombOnce sync.Once
	bigBombData []byte
)

func zeros256M() []byte {
	bigBombOnce.Do(func() { bigBombData = make([]byte, 256<<20) })
	return bigBombData
}

func genManifest(r *hx.Rand) []byte {
	var sb strings.Builder
	sb.WriteString("Manifest-Version: 1.0\r\n")
	ks := []string{"Implementation-Title", "Implementation-Version", "Implementation-Vendor", "Bundle-SymbolicName", "Bundle-Version", "Bundle-Name",
		"Main-Class", "Created-By", "Specification-Version", "Specification-Title", "Automatic-Module-Name", "Class-Path"}
	for _, k := range ks {
		if r.Chance(1, 2) {
			continue
		}
		v := lyWord(r)
		if strings.Contains(k, "Version") {
			v = lyVersion(r)
		}
		if k == "Bundle-SymbolicName" || k == "Main-Class" {
			v = "org.example." + v
		}
		if r.Chance(1, 8) {
			// a continuation line
			v += "\r\n " + lyWord(r)
		}
		fmt.Fprintf(&sb, "%s: %s\r\n", k, v)
	}
	sb.WriteString("\r\n")
	if r.Chance(1, 3) {
		fmt.Fprintf(&sb, "Name: org/example/%s.class\r\nSHA-256-Digest: abc=\r\n\r\n", lyWord(r))
	}
	return []byte(sb.String())
}

func genPomProps(r *hx.Rand) []byte {
	return []byte(fmt.Sprintf("#Generated by Maven\n#Mon Jan 01 00:00:00 UTC 2024\ngroupId=org.%s\nartifactId=%s\nversion=%s\n", lyWord(r), lyWord(r), lyVersion(r)))
}

// genJar builds a jar; depth is how many more levels of nested jars may be
// put inside.
func genJar(r *hx.Rand, o lyOpts, depth int, muts *[]string, inflated *uint64) []byte {
	var ms []zipMember
	method := func() uint16 {
		if r.Chance(1, 2) {
			return zip.Deflate
		}
		return zip.Store
	}
	if !r.Chance(1, 8) || o.wellFormed {
		ms = append(ms, zipMember{name: "META-INF/", method: zip.Store})
		mf, m := textVariant(r, o, shapeRFC822, func() []byte { return genManifest(r) })
		if m[0] != "none" {
			*muts = append(*muts, prefixAll("manifest:", m)...)
		}
		ms = append(ms, zipMember{name: "META-INF/MANIFEST.MF", body: mf, method: method()})
	}
	if r.Chance(1, 2) {
		pp, m := textVariant(r, o, shapeEnv, func() []byte { return genPomProps(r) })
		if m[0] != "none" {
			*muts = append(*muts, prefixAll("pom:", m)...)
		}
		ms = append(ms, zipMember{name: fmt.Sprintf("META-INF/maven/org.%s/%s/pom.properties", lyWord(r), lyWord(r)), body: pp, method: method()})
	}
	if r.Chance(1, 3) {
		ms = append(ms, zipMember{name: "org/example/A.class", body: lyRandBytes(r, r.Intn(300)), method: method()})
	}
	if depth > 0 && r.Chance(1, 2) {
		n := 1
		if r.Chance(1, 4) {
			n = 2 + r.Intn(3)
		}
		for i := 0; i < n; i++ {
			inner := genJar(r, o, depth-1, muts, inflated)
			ms = append(ms, zipMember{name: lyPick(r, "lib/", "WEB-INF/lib/", "BOOT-INF/lib/", "") + lyWord(r) + fmt.Sprintf("-%d", i) + lyPick(r, ".jar", ".jar", ".war", ".ear", ".JAR"), body: inner, method: method()})
		}
	}
	comment := ""
	if !o.wellFormed && r.Chance(1, 4) {
		switch r.Intn(9) {
		case 0:
			if o.big && r.Chance(1, 16) {
				// thorough tier, rarely: the size that trips the allocation
				// bound (the listed finding jar-deflate-bomb)
				*muts = append(*muts, "zip:bomb-member-256M")
				ms = append(ms, zipMember{name: lyPick(r, "bomb.jar", "lib/bomb.war"), body: zeros256M(), method: zip.Deflate})
				break
			}
			*muts = append(*muts, "zip:bomb-member")
			ms = append(ms, zipMember{name: lyPick(r, "bomb.jar", "lib/bomb.war", "META-INF/MANIFEST.MF", "META-INF/maven/a/b/pom.properties"), body: zeros8M(), method: zip.Deflate})
		case 1:
			*muts = append(*muts, "zip:claim-huge")
			ms = append(ms, zipMember{name: lyPick(r, "x.jar", "META-INF/MANIFEST.MF", "pom.properties"), body: lyRandBytes(r, 32), method: method(), raw: true,
				claimSize: []uint64{1 << 33, 1 << 62, 1<<64 - 1, 1 << 31, 1 << 32}[r.Intn(5)]})
		case 2:
			*muts = append(*muts, "zip:claim-small")
			ms = append(ms, zipMember{name: lyPick(r, "x.jar", "META-INF/MANIFEST.MF", "pom.properties"), body: append([]byte("PK\x03\x04"), lyRandBytes(r, 200)...), method: method(), raw: true,
				claimSize: uint64(1 + r.Intn(40))})
		case 3:
			*muts = append(*muts, "zip:bad-crc")
			ms = append(ms, zipMember{name: lyPick(r, "x.jar", "META-INF/MANIFEST.MF", "pom.properties"), body: genManifest(r), method: method(), badCRC: true})
		case 4:
			*muts = append(*muts, "zip:claim-csize")
			ms = append(ms, zipMember{name: lyPick(r, "x.jar", "META-INF/MANIFEST.MF"), body: genManifest(r), method: method(), raw: true,
				claimCSize: []uint64{0xfffffffe, 1 << 40, 1, 1 << 20}[r.Intn(4)]})
		case 5:
			*muts = append(*muts, "zip:comment")
			comment = strings.Repeat("c", r.Intn(65535))
		case 6:
			*muts = append(*muts, "zip:dup-names")
			ms = append(ms, ms...)
		case 7:
			*muts = append(*muts, "zip:odd-names")
			for _, n := range []string{"../../x.jar", "/abs.jar", "a\\b.jar", "\x00.jar", ".jar", "META-INF/MANIFEST.MF/", "x.jar/"} {
				if r.Chance(1, 2) {
					ms = append(ms, zipMember{name: n, body: genManifest(r), method: method()})
				}
			}
		case 8:
			*muts = append(*muts, "zip:many-members")
			for i := 0; i < 200+r.Intn(1500); i++ {
				ms = append(ms, zipMember{name: fmt.Sprintf("m%d.jar", i), method: zip.Store})
			}
		}
	}
	if r.Chance(1, 5) {
		r2 := r.Fork()
		sort.SliceStable(ms, func(i, j int) bool { return r2.Chance(1, 2) })
	}
	for _, m := range ms {
		// (the manifest is read through a 1 MiB limit since e7cfb6f4: it does
		// not count)
		if m.method == zip.Deflate && jarLikeName(m.name) {
			*inflated += uint64(len(m.body))
		}
	}
	z := buildZip(ms, comment)
	if !o.wellFormed && r.Chance(1, 5) {
		switch r.Intn(4) {
		case 0:
			// truncated central directory
			*muts = append(*muts, "zip:trunc-cd")
			if i := bytes.LastIndex(z, []byte("PK\x01\x02")); i >= 0 {
				cut := i + r.Intn(len(z)-i)
				eocd := bytes.LastIndex(z, []byte("PK\x05\x06"))
				if r.Chance(1, 2) && eocd > cut {
					// keep the end record: the directory it points to is short
					z = append(z[:cut:cut], z[eocd:]...)
				} else {
					z = z[:cut]
				}
			}
		case 1:
			// edit the end-of-central-directory record
			*muts = append(*muts, "zip:eocd-field")
			if i := bytes.LastIndex(z, []byte("PK\x05\x06")); i >= 0 && i+22 <= len(z) {
				switch r.Intn(4) {
				case 0:
					binary.LittleEndian.PutUint16(z[i+10:], uint16(r.U64())) // entries
				case 1:
					binary.LittleEndian.PutUint32(z[i+12:], uint32(r.U64())) // directory size
				case 2:
					binary.LittleEndian.PutUint32(z[i+16:], []uint32{0, 0xffffffff, uint32(len(z)), uint32(r.Intn(len(z)))}[r.Intn(4)]) // directory offset
				case 3:
					binary.LittleEndian.PutUint16(z[i+20:], uint16(r.U64())) // comment length
				}
			}
		case 2:
			// edit a field of a central directory header
			*muts = append(*muts, "zip:cd-field")
			if i := bytes.Index(z, []byte("PK\x01\x02")); i >= 0 && i+46 <= len(z) {
				off := []int{10, 16, 20, 24, 28, 30, 32, 42}[r.Intn(8)]
				v := []uint32{0, 0xffffffff, 0x7fffffff, uint32(len(z)), 8, 99}[r.Intn(6)]
				if off >= 28 && off <= 32 {
					binary.LittleEndian.PutUint16(z[i+off:], uint16(v))
				} else {
					binary.LittleEndian.PutUint32(z[i+off:], v)
				}
			}
		case 3:
			var m string
			z, m = mutateBytes(r, z)
			*muts = append(*muts, "zip:"+m)
		}
	}
	return z
}

// jarLikeName is java/jar.ValidExt: the members the scanner buffers whole.
func jarLikeName(n string) bool {
	n = strings.ToLower(n)
	return strings.HasSuffix(n, ".jar") || strings.HasSuffix(n, ".war") || strings.HasSuffix(n, ".ear")
}

func prefixAll(p string, xs []string) []string {
	out := make([]string, len(xs))
	for i, x := range xs {
		out[i] = p + x
	}
	return out
}

// ---- content generators, one per file kind ----

func genDpkgStatus(r *hx.Rand) []byte {
	var sb strings.Builder
	for i, n := 0, 1+r.Intn(5); i < n; i++ {
		name := lyWord(r)
		fmt.Fprintf(&sb, "Package: %s\n", name)
		fmt.Fprintf(&sb, "Status: %s\n", lyPick(r, "install ok installed", "install ok installed", "deinstall ok config-files", "install ok half-installed", "hold ok installed"))
		fmt.Fprintf(&sb, "Priority: optional\nSection: libs\nInstalled-Size: %d\n", r.Intn(100000))
		fmt.Fprintf(&sb, "Maintainer: Some One <someone@example.org>\nArchitecture: %s\n", lyPick(r, "amd64", "all", "arm64"))
		switch r.Intn(4) {
		case 0:
			fmt.Fprintf(&sb, "Source: %s\n", lyWord(r))
		case 1:
			fmt.Fprintf(&sb, "Source: %s (%s)\n", lyWord(r), lyVersion(r))
		}
		fmt.Fprintf(&sb, "Version: %s\n", lyVersion(r))
		if r.Chance(1, 2) {
			fmt.Fprintf(&sb, "Depends: libc6 (>= 2.14), %s\n", lyWord(r))
		}
		fmt.Fprintf(&sb, "Description: short text\n long text line one\n .\n long text line two\n")
		if r.Chance(1, 10) {
			fmt.Fprintf(&sb, "Port-Version: 1\nFeature: core\n")
		}
		sb.WriteString("\n")
	}
	return []byte(sb.String())
}

func partDpkg(r *hx.Rand, o lyOpts) lyPart {
	p := lyPart{kind: "dpkg-status"}
	dir := "var/lib/dpkg"
	if !o.wellFormed && r.Chance(1, 8) {
		dir = lyPick(r, "opt/vcpkg/installed/vcpkg", "a[", "x*y/var/lib/dpkg", "d\\e", "var/lib/dpkg/status", "ä/dpkg", "a?b")
	}
	st, m := textVariant(r, o, shapeRFC822, func() []byte { return genDpkgStatus(r) })
	p.muts = m
	p.files = append(p.files, lyFile{name: dir + "/status", body: st})
	if o.wellFormed || !r.Chance(1, 6) {
		p.files = append(p.files, lyFile{name: dir + "/info", typ: tar.TypeDir})
		for i, n := 0, r.Intn(4); i < n; i++ {
			body := []byte(fmt.Sprintf("d41d8cd98f00b204e9800998ecf8427e  usr/lib/%s.so\n", lyWord(r)))
			if !o.wellFormed && r.Chance(1, 4) {
				body, _ = mutateBytes(r, body)
			}
			p.files = append(p.files, lyFile{name: dir + "/info/" + lyWord(r) + lyPick(r, "", ":amd64", ":", "::x") + ".md5sums", body: body})
		}
	} else if r.Chance(1, 2) {
		// "info" is not a directory
		p.files = append(p.files, lyFile{name: dir + "/info", body: []byte("x")})
		p.muts = append(p.muts, "info-not-dir")
	}
	return p
}

func partDistroless(r *hx.Rand, o lyOpts) lyPart {
	p := lyPart{kind: "dpkg-status.d"}
	dir := "var/lib/dpkg/status.d"
	p.files = append(p.files, lyFile{name: dir, typ: tar.TypeDir})
	for i, n := 0, 1+r.Intn(3); i < n; i++ {
		b, m := textVariant(r, o, shapeRFC822, func() []byte {
			return []byte(fmt.Sprintf("Package: %s\nVersion: %s\nArchitecture: amd64\nSource: %s\nMaintainer: x <x@example.org>\nDescription: d\n more\n", lyWord(r), lyVersion(r), lyWord(r)))
		})
		p.muts = append(p.muts, m...)
		name := lyWord(r)
		p.files = append(p.files, lyFile{name: dir + "/" + name, body: b})
		if r.Chance(1, 2) {
			p.files = append(p.files, lyFile{name: dir + "/" + name + ".md5sums", body: []byte("d41d8cd98f00b204e9800998ecf8427e  usr/lib/x\n")})
		}
	}
	if !o.wellFormed && r.Chance(1, 8) {
		p.files = append(p.files, lyFile{name: dir + "/sub", typ: tar.TypeDir})
		p.muts = append(p.muts, "dir-in-status.d")
	}
	return p
}

func genApkInstalled(r *hx.Rand) []byte {
	var sb strings.Builder
	for i, n := 0, 1+r.Intn(5); i < n; i++ {
		fmt.Fprintf(&sb, "C:Q1%s=\nP:%s\nV:%s\nA:x86_64\nS:%d\nI:%d\nT:a description\nU:https://example.org\nL:MIT\no:%s\nm:Some One <s@example.org>\nt:1700000000\nc:%040x\n",
			"abcdefghijklmnopqrstuvwxyz0", lyWord(r), lyVersion(r), r.Intn(100000), r.Intn(100000), lyWord(r), r.U64())
		if r.Chance(1, 2) {
			fmt.Fprintf(&sb, "D:so:libc.musl-x86_64.so.1\np:so:lib%s.so.1=1\n", lyWord(r))
		}
		fmt.Fprintf(&sb, "F:usr/lib\nR:lib%s.so.1\na:0:0:755\nZ:Q1abcdefghijklmnopqrstuvwxyz0=\n\n", lyWord(r))
	}
	return []byte(sb.String())
}

func partApk(r *hx.Rand, o lyOpts) lyPart {
	b, m := textVariant(r, o, shapeRFC822, func() []byte { return genApkInstalled(r) })
	return lyPart{kind: "apk-installed", muts: m, files: []lyFile{{name: "lib/apk/db/installed", body: b}}}
}

func genPyMetadata(r *hx.Rand) []byte {
	var sb strings.Builder
	fmt.Fprintf(&sb, "Metadata-Version: %s\nName: %s\nVersion: %s\nSummary: a thing\nHome-page: https://example.org\nAuthor: x\nLicense: MIT\n",
		lyPick(r, "1.1", "2.1", "2.3"), lyWord(r), lyVersion(r))
	if r.Chance(1, 2) {
		fmt.Fprintf(&sb, "Requires-Dist: %s (>=1.0)\nClassifier: Programming Language :: Python :: 3\n", lyWord(r))
	}
	if r.Chance(1, 2) {
		sb.WriteString("Description: first\n        second\n")
	}
	sb.WriteString("\nLong description body\nwith: colons\n")
	return []byte(sb.String())
}

func partPython(r *hx.Rand, o lyOpts) lyPart {
	p := lyPart{kind: "python"}
	sp := lyPick(r, "usr/lib/python3.9/site-packages", "usr/lib64/python3.11/site-packages", "usr/local/lib/python2.7/dist-packages", "opt/app/venv/lib/python3/site-packages", "srv")
	for i, n := 0, 1+r.Intn(3); i < n; i++ {
		b, m := textVariant(r, o, shapeRFC822, func() []byte { return genPyMetadata(r) })
		p.muts = append(p.muts, m...)
		base := sp + "/" + lyWord(r) + "-" + lyPick(r, "1.0", "2.3.4", "x")
		switch r.Intn(5) {
		case 0, 1:
			p.files = append(p.files, lyFile{name: base + ".dist-info/METADATA", body: b})
			if r.Chance(1, 2) {
				p.files = append(p.files, lyFile{name: base + ".dist-info/INSTALLER", body: []byte(lyPick(r, "pip\n", "rpm\n", "dpkg", "apk\n", "", "\xff\xfe", strings.Repeat("p", 70000)))})
			}
		case 2:
			p.files = append(p.files, lyFile{name: base + ".egg-info/PKG-INFO", body: b})
		case 3:
			p.files = append(p.files, lyFile{name: base + ".egg-info", body: b})
		case 4:
			p.files = append(p.files, lyFile{name: base + ".egg/EGG-INFO/PKG-INFO", body: b})
		}
	}
	return p
}

func genPackageJSON(r *hx.Rand) []byte {
	name, ver := fmt.Sprintf("%q", lyWord(r)), fmt.Sprintf("%q", lyVersion(r))
	if r.Chance(1, 8) {
		name = lyPick(r, "123", "null", "[]", "{}", "true", "1e400", `"\ud800"`, `"\u0000"`)
	}
	if r.Chance(1, 8) {
		ver = lyPick(r, "123", "null", "[1,2]", `{"a":1}`, "-0", `""`)
	}
	extra := ""
	if r.Chance(1, 2) {
		extra = fmt.Sprintf(",\n  \"dependencies\": {\n    %q: \"^1.0.0\"\n  },\n  \"scripts\": {\"test\": \"exit 0\"}", lyWord(r))
	}
	return []byte(fmt.Sprintf("{\n  \"name\": %s,\n  \"version\": %s,\n  \"description\": \"d\",\n  \"main\": \"index.js\",\n  \"license\": \"MIT\"%s\n}\n", name, ver, extra))
}

func jsonOddity(r *hx.Rand, b []byte) ([]byte, string) {
	switch r.Intn(7) {
	case 0:
		n := 1000 + r.Intn(20000)
		return []byte(strings.Repeat("[", n) + strings.Repeat("]", n)), "json-deep-array"
	case 1:
		n := 1000 + r.Intn(12000)
		return []byte(strings.Repeat(`{"a":`, n) + "1" + strings.Repeat("}", n)), "json-deep-object"
	case 2:
		return append([]byte("\xef\xbb\xbf"), b...), "json-bom"
	case 3:
		return append(b, b...), "json-twice"
	case 4:
		return []byte(`{"name":"` + strings.Repeat("\\u00e9", lyLongLen(r)/6) + `","version":"1.0.0"}`), "json-long-escapes"
	case 5:
		return []byte(lyPick(r, "null", "[]", "0", `"s"`, "{", "}", `{"name"`, `{"name":}`, "{\"name\":\"a\",}", "\x00")), "json-scalar"
	default:
		return []byte(`{"name":"a","name":"b","version":"1","version":2,"content_sets":["x"],"content_sets":{}}`), "json-dup-keys"
	}
}

func jsonVariant(r *hx.Rand, o lyOpts, gen func() []byte) ([]byte, []string) {
	if !o.wellFormed && r.Chance(1, 6) {
		b, m := jsonOddity(r, gen())
		return b, []string{m}
	}
	return textVariant(r, o, shapeJSON, gen)
}

func partNodejs(r *hx.Rand, o lyOpts) lyPart {
	p := lyPart{kind: "nodejs"}
	root := lyPick(r, "usr/lib/node_modules", "app/node_modules", "node_modules", "usr/local/lib/node_modules/npm/node_modules")
	for i, n := 0, 1+r.Intn(3); i < n; i++ {
		b, m := jsonVariant(r, o, func() []byte { return genPackageJSON(r) })
		p.muts = append(p.muts, m...)
		d := root + "/" + lyWord(r)
		if r.Chance(1, 4) {
			d += "/node_modules/" + lyWord(r)
		}
		p.files = append(p.files, lyFile{name: d + "/package.json", body: b})
	}
	return p
}

func genGemspec(r *hx.Rand) []byte {
	q := lyPick(r, `"`, `'`)
	v := lyPick(r, "s", "spec", "gem")
	return []byte(fmt.Sprintf("# -*- encoding: utf-8 -*-\n# stub: %[3]s %[4]s ruby lib\n\nGem::Specification.new do |%[1]s|\n  %[1]s.name = %[2]s%[3]s%[2]s%[5]s\n  %[1]s.version = %[2]s%[4]s%[2]s\n\n  %[1]s.required_rubygems_version = Gem::Requirement.new(\">= 0\")\n  %[1]s.authors = [\"x\"]\n  %[1]s.summary = \"a gem\"\n\n  if %[1]s.respond_to? :specification_version then\n    %[1]s.specification_version = 4\n  end\nend\n",
		v, q, lyWord(r), lyVersion(r), lyPick(r, "", ".freeze")))
}

func partRuby(r *hx.Rand, o lyOpts) lyPart {
	p := lyPart{kind: "ruby"}
	for i, n := 0, 1+r.Intn(3); i < n; i++ {
		b, m := textVariant(r, o, shapeRuby, func() []byte { return genGemspec(r) })
		p.muts = append(p.muts, m...)
		p.files = append(p.files, lyFile{name: lyPick(r, "usr/share/gems", "usr/lib/ruby/gems/3.0.0", "usr/local/bundle", "var/lib/gems/2.7.0") + "/specifications/" + lyPick(r, "", "default/") + lyWord(r) + "-" + lyPick(r, "1.0", "2.3.4") + ".gemspec", body: b})
	}
	return p
}

func partJava(r *hx.Rand, o lyOpts) lyPart {
	p := lyPart{kind: "java"}
	depth := r.Intn(4)
	if r.Chance(1, 10) {
		depth = 10
	}
	if o.wellFormed {
		depth = 1
	}
	for i, n := 0, 1+r.Intn(2); i < n; i++ {
		var muts []string
		z := genJar(r, o, depth, &muts, &p.jarInflated)
		if len(muts) == 0 {
			muts = []string{"none"}
		}
		p.muts = append(p.muts, muts...)
		p.files = append(p.files, lyFile{name: lyPick(r, "app/", "usr/share/java/", "opt/jboss/lib/", "") + lyWord(r) + "-" + lyPick(r, "1.0", "2.3.4.Final") + lyPick(r, ".jar", ".jar", ".war", ".ear"), body: z})
	}
	return p
}

func genOsRelease(r *hx.Rand) []byte {
	type d struct{ id, name, ver, vid, code, cpe string }
	ds := []d{
		{"debian", "Debian GNU/Linux", "12 (bookworm)", "12", "bookworm", ""},
		{"ubuntu", "Ubuntu", "22.04.3 LTS (Jammy Jellyfish)", "22.04", "jammy", ""},
		{"alpine", "Alpine Linux", "", "3.18.4", "", ""},
		{"rhel", "Red Hat Enterprise Linux", "8.9 (Ootpa)", "8.9", "", "cpe:/o:redhat:enterprise_linux:8::baseos"},
		{"amzn", "Amazon Linux", "2", "2", "", "cpe:2.3:o:amazon:amazon_linux:2"},
		{"amzn", "Amazon Linux", "2023", "2023", "", "cpe:2.3:o:amazon:amazon_linux:2023"},
		{"ol", "Oracle Linux Server", "8.8", "8.8", "", "cpe:/o:oracle:linux:8:8:server"},
		{"sles", "SLES", "15-SP4", "15.4", "", "cpe:/o:suse:sles:15:sp4"},
		{"opensuse-leap", "openSUSE Leap", "15.5", "15.5", "", "cpe:/o:opensuse:leap:15.5"},
		{"photon", "VMware Photon OS", "3.0", "3.0", "", ""},
		{"centos", "CentOS Stream", "9", "9", "", "cpe:/o:centos:centos:9"},
	}
	x := ds[r.Intn(len(ds))]
	q := lyPick(r, `"`, `"`, `'`, ``)
	var sb strings.Builder
	if r.Chance(1, 4) {
		sb.WriteString("# a comment\n\n")
	}
	fmt.Fprintf(&sb, "NAME=%s%s%s\n", `"`, x.name, `"`)
	if x.ver != "" {
		fmt.Fprintf(&sb, "VERSION=\"%s\"\n", x.ver)
	}
	fmt.Fprintf(&sb, "ID=%s%s%s\n", q, x.id, q)
	if r.Chance(1, 2) {
		fmt.Fprintf(&sb, "ID_LIKE=\"rhel fedora\"\n")
	}
	fmt.Fprintf(&sb, "VERSION_ID=%s%s%s\n", q, x.vid, q)
	if x.code != "" {
		fmt.Fprintf(&sb, "VERSION_CODENAME=%s\n", x.code)
	}
	fmt.Fprintf(&sb, "PRETTY_NAME=\"%s %s\"\n", x.name, x.ver)
	if x.cpe != "" {
		fmt.Fprintf(&sb, "CPE_NAME=\"%s\"\n", x.cpe)
	}
	if x.id == "rhel" {
		sb.WriteString("REDHAT_BUGZILLA_PRODUCT=\"Red Hat Enterprise Linux 8\"\n")
	}
	if r.Chance(1, 3) {
		sb.WriteString("HOME_URL=\"https://example.org/\"\nBUG_REPORT_URL='it'\\''s'\nX=\"a \\\"q\\\" \\$ \\` \\\\\"\n")
	}
	return []byte(sb.String())
}

func partOsRelease(r *hx.Rand, o lyOpts) lyPart {
	p := lyPart{kind: "os-release"}
	type fg struct {
		name string
		sh   textShape
		gen  func() []byte
	}
	all := []fg{
		{"etc/os-release", shapeEnv, func() []byte { return genOsRelease(r) }},
		{"usr/lib/os-release", shapeEnv, func() []byte { return genOsRelease(r) }},
		{"etc/lsb-release", shapeEnv, func() []byte {
			return []byte(fmt.Sprintf("DISTRIB_ID=Ubuntu\nDISTRIB_RELEASE=%s\nDISTRIB_CODENAME=%s\nDISTRIB_DESCRIPTION=\"Ubuntu %s\"\n", lyPick(r, "22.04", "18.04", "x"), lyPick(r, "jammy", "bionic", ""), lyVersion(r)))
		}},
		{"etc/issue", shapeEnv, func() []byte {
			return []byte(lyPick(r, "Welcome to Alpine Linux 3.18\nKernel \\r on an \\m (\\l)\n\n", "Alpine Linux 3.x (edge)\n", "Oracle Linux Server release 5.11\n", "Oracle Linux Server 7.9\nKernel \\r\n", "Debian GNU/Linux 12 \\n \\l\n\n", "\\S\nKernel \\r on an \\m\n"))
		}},
		{"etc/redhat-release", shapeEnv, func() []byte {
			return []byte(lyPick(r, "Red Hat Enterprise Linux Server release 7.9 (Maipo)\n", "Red Hat Enterprise Linux release 8.9 (Ootpa)\n", "Red Hat Enterprise Linux Atomic Host release 7.4\n", "CentOS Linux release 7.9.2009 (Core)\n", "Red Hat Enterprise Linux 99999999999999999999\n"))
		}},
		{"etc/SuSE-release", shapeEnv, func() []byte {
			return []byte(fmt.Sprintf("SUSE Linux Enterprise Server %d (x86_64)\nVERSION = %d\nPATCHLEVEL = %d\n", 11+r.Intn(2), 11+r.Intn(2), r.Intn(5)))
		}},
		{"etc/photon-release", shapeEnv, func() []byte { return []byte("VMware Photon OS 3.0\nPHOTON_BUILD_NUMBER=a0f216d\n") }},
		{"etc/oracle-release", shapeEnv, func() []byte { return []byte("Oracle Linux Server release 8.8\n") }},
		{"etc/alpine-release", shapeEnv, func() []byte { return []byte("3.18.4\n") }},
		{"etc/debian_version", shapeEnv, func() []byte { return []byte(lyPick(r, "12.2\n", "bookworm/sid\n")) }},
	}
	n := 1 + r.Intn(3)
	if o.wellFormed {
		n = len(all)
	}
	for i := 0; i < n; i++ {
		f := all[r.Intn(len(all))]
		if o.wellFormed {
			f = all[i]
		}
		b, m := textVariant(r, o, f.sh, f.gen)
		p.muts = append(p.muts, m...)
		p.files = append(p.files, lyFile{name: f.name, body: b})
	}
	return p
}

func partContentManifest(r *hx.Rand, o lyOpts) lyPart {
	gen := func() []byte {
		sets := []string{"rhel-8-for-x86_64-baseos-rpms", "rhel-8-for-x86_64-appstream-rpms", "bad-cpe", "empty", "unknown-repo"}
		var xs []string
		for i, n := 0, r.Intn(4); i < n; i++ {
			xs = append(xs, fmt.Sprintf("%q", sets[r.Intn(len(sets))]))
		}
		return []byte(fmt.Sprintf("{\n  \"metadata\": {\n    \"icm_version\": 1,\n    \"icm_spec\": \"https://example.org/spec.json\",\n    \"image_layer_index\": %d\n  },\n  \"content_sets\": [%s],\n  \"image_contents\": []\n}\n", r.Intn(6), strings.Join(xs, ", ")))
	}
	p := lyPart{kind: "rhel-content-manifest"}
	for i, n := 0, 1+r.Intn(2); i < n; i++ {
		b, m := jsonVariant(r, o, gen)
		p.muts = append(p.muts, m...)
		p.files = append(p.files, lyFile{name: lyPick(r, "root/buildinfo/content_manifests/", "root/buildinfo/content_manifests/", "usr/share/buildinfo/") + lyWord(r) + "-container-8.4-208.json", body: b})
	}
	return p
}

func genDockerfile(r *hx.Rand) []byte {
	var sb strings.Builder
	if r.Chance(1, 6) {
		sb.WriteString("# escape=`\n")
	}
	sb.WriteString("FROM sha256:b3749cc58242c3fda50fb4541cd23144d42a85054d70bfe1e79eb719d212ac6f\n\n")
	if r.Chance(1, 2) {
		fmt.Fprintf(&sb, "ARG VER=%s\nARG REL\nENV container oci\nENV A=%s B=\"b c\" C='d e'\nENV PATH /usr/local/sbin:$PATH:${A}\n\n", lyVersion(r), lyWord(r))
	}
	fmt.Fprintf(&sb, "LABEL maintainer=\"Red Hat, Inc.\"\n\nLABEL com.redhat.component=\"%s-container\" \\\n      name=\"%s\" \\\n      version=\"%s\"\n\n", lyWord(r), lyPick(r, "ubi8", "rhel8/toolbox", "none", "x"), lyVersion(r))
	if r.Chance(1, 2) {
		sb.WriteString("#labels for container catalog\nLABEL summary=\"Provides ${A:-nothing} and ${UNSET:+something} \\$literal\"\n")
	}
	if r.Chance(1, 2) {
		sb.WriteString("LABEL io.k8s.display-name \"legacy form value\"\nLABEL \"quoted key\"=\"v\" 'k2'='v2' k3=v\\ 3\n")
	}
	if r.Chance(1, 3) {
		// a bounded chain of expansions
		sb.WriteString("ENV v0 A\n")
		n := 1 + r.Intn(12)
		for i := 1; i <= n; i++ {
			fmt.Fprintf(&sb, "ENV v%d ${v%d}${v%d}\n", i, i-1, i-1)
		}
		fmt.Fprintf(&sb, "LABEL chain ${v%d}\n", n)
	}
	sb.WriteString("RUN rm -rf /var/log/* && \\\n    echo done\nCMD [\"/bin/bash\"]\n")
	fmt.Fprintf(&sb, "LABEL \"release\"=\"%d\" \"architecture\"=\"%s\" \"vcs-type\"=\"git\" \"build-date\"=\"2021-08-03T16:57:21.054109\"\n", r.Intn(500), lyPick(r, "x86_64", "aarch64", "s390x"))
	return []byte(sb.String())
}

func partDockerfile(r *hx.Rand, o lyOpts) lyPart {
	b, m := textVariant(r, o, shapeDocker, func() []byte { return genDockerfile(r) })
	name := "root/buildinfo/Dockerfile" + lyPick(r, "", "-", "-", "-", "-", "-", "-", "-", "-", "-", "-", "-", "-", "-", "-", "-") + lyPick(r, "", "ubi8-minimal-8.4-208", "rhel8-toolbox-container-v1.2.3-45", "x-1-2", "etcd-rhel7-3.2.32-34", "a-1", "b", "-", "--", "x--", "c-v4.10.0-202201011200.p0.g1234.assembly.stream")
	return lyPart{kind: "dockerfile", muts: m, files: []lyFile{{name: name, body: b}}}
}

func partWhiteout(r *hx.Rand, o lyOpts) lyPart {
	p := lyPart{kind: "whiteout", muts: []string{"none"}}
	cands := []string{".wh.x", "a/.wh..wh..opq", "etc/.wh.os-release", "var/lib/dpkg/.wh.status", "var/lib/rpm/.wh.Packages", "lib/apk/db/.wh.installed", ".wh..wh..opq",
		"usr/lib/node_modules/.wh.x/package.json", ".wh.", "a/.wh..wh.plnk/x", "app/.wh.a.jar", "usr/share/gems/specifications/.wh.a-1.gemspec"}
	for i, n := 0, 1+r.Intn(3); i < n; i++ {
		f := lyFile{name: cands[r.Intn(len(cands))]}
		if !o.wellFormed && r.Chance(1, 4) {
			f.typ = []byte{tar.TypeDir, tar.TypeSymlink, tar.TypeChar}[r.Intn(3)]
			f.link = "x"
			p.muts = []string{"whiteout-type"}
		}
		p.files = append(p.files, f)
	}
	return p
}

// genGoElf builds a small ELF64 executable with a .go.buildinfo section in the
// inline-strings format: what debug/buildinfo reads from a Go binary.
func genGoElf(r *hx.Rand) []byte {
	le := binary.LittleEndian
	vers := lyPick(r, "go1.21.3", "go1.20.12 X:strictfipsruntime", "go1.24.1", "devel +abc", "go1.99999999999.1", "go1.2.3-4", "go1.21.3", "go1.22.0",
		"g", "go", "x", " ", "go ", "1", "gö", "go1.", "go1.21.3 ", "go-1")
	var mod strings.Builder
	fmt.Fprintf(&mod, "path\tgithub.com/example/%s/cmd/x\n", lyWord(r))
	fmt.Fprintf(&mod, "mod\tgithub.com/example/%s\t%s\t\n", lyWord(r), lyPick(r, "(devel)", "v1.2.3", "v0.0.0-20250212170732-e3af313feaab+dirty", "", "v", "(", "v1.2.3+"))
	for i, n := 0, r.Intn(5); i < n; i++ {
		fmt.Fprintf(&mod, "dep\tgithub.com/%s/%s\t%s\th1:abcdefghijklmnopqrstuvwxyzABCDEFGHIJKLMNOPQR=\n", lyWord(r), lyWord(r), lyPick(r, "v1.2.3", "v0.0.0-20210101000000-abcdef012345", "v2.0.0+incompatible", "v99999999999.1.1", "x", "v1.2.3", "", "v", "1", "v1", "-", "v1.2.3-"))
		if r.Chance(1, 4) {
			fmt.Fprintf(&mod, "=>\tgithub.com/r/%s\tv1.2.4\th1:abc=\n", lyWord(r))
		}
	}
	mod.WriteString("build\t-compiler=gc\nbuild\tCGO_ENABLED=0\nbuild\tvcs=git\nbuild\tvcs.revision=0123456789abcdef0123456789abcdef01234567\nbuild\tvcs.time=2024-01-01T00:00:00Z\nbuild\tvcs.modified=true\n")
	sent := "0123456789abcdef"
	modinfo := sent + mod.String() + sent
	var bi []byte
	bi = append(bi, "\xff Go buildinf:"...)
	bi = append(bi, 8, 2)
	bi = append(bi, make([]byte, 16)...)
	bi = binary.AppendUvarint(bi, uint64(len(vers)))
	bi = append(bi, vers...)
	bi = binary.AppendUvarint(bi, uint64(len(modinfo)))
	bi = append(bi, modinfo...)
	for len(bi)%16 != 0 {
		bi = append(bi, 0)
	}
	const (
		vbase  = 0x400000
		biOff  = 128
		ehSize = 64
		phSize = 56
		shSize = 64
	)
	shstr := []byte("\x00.go.buildinfo\x00.shstrtab\x00")
	strOff := biOff + len(bi)
	shOff := (strOff + len(shstr) + 15) &^ 15
	out := make([]byte, shOff+3*shSize)
	copy(out, "\x7fELF\x02\x01\x01")
	le.PutUint16(out[0x10:], []uint16{2, 3}[r.Intn(2)])
	le.PutUint16(out[0x12:], 0x3e)
	le.PutUint32(out[0x14:], 1)
	le.PutUint64(out[0x18:], vbase+biOff)
	le.PutUint64(out[0x20:], ehSize)
	le.PutUint64(out[0x28:], uint64(shOff))
	le.PutUint16(out[0x34:], ehSize)
	le.PutUint16(out[0x36:], phSize)
	le.PutUint16(out[0x38:], 1)
	le.PutUint16(out[0x3a:], shSize)
	le.PutUint16(out[0x3c:], 3)
	le.PutUint16(out[0x3e:], 2)
	ph := out[ehSize:]
	le.PutUint32(ph[0:], 1) // PT_LOAD
	le.PutUint32(ph[4:], 6) // RW
	le.PutUint64(ph[8:], 0)
	le.PutUint64(ph[16:], vbase)
	le.PutUint64(ph[24:], vbase)
	le.PutUint64(ph[32:], uint64(strOff))
	le.PutUint64(ph[40:], uint64(strOff))
	le.PutUint64(ph[48:], 0x1000)
	copy(out[biOff:], bi)
	copy(out[strOff:], shstr)
	sh := out[shOff+shSize:]
	le.PutUint32(sh[0:], 1) // name
	le.PutUint32(sh[4:], 1) // PROGBITS
	le.PutUint64(sh[8:], 3) // WRITE|ALLOC
	le.PutUint64(sh[16:], vbase+biOff)
	le.PutUint64(sh[24:], biOff)
	le.PutUint64(sh[32:], uint64(len(bi)))
	le.PutUint64(sh[48:], 16)
	sh = out[shOff+2*shSize:]
	le.PutUint32(sh[0:], 15)
	le.PutUint32(sh[4:], 3) // STRTAB
	le.PutUint64(sh[24:], uint64(strOff))
	le.PutUint64(sh[32:], uint64(len(shstr)))
	le.PutUint64(sh[48:], 1)
	return out
}

// mutateElf edits the fields debug/elf and debug/buildinfo follow.
func mutateElf(r *hx.Rand, base []byte) ([]byte, string) {
	b := append([]byte(nil), base...)
	if len(b) < 128 {
		return mutateBytes(r, b)
	}
	le := binary.LittleEndian
	big := func() uint64 {
		return []uint64{0, 1, 0x7fffffff, 0xffffffff, 1 << 40, 1<<63 - 1, 1 << 63, 1<<64 - 1, uint64(len(b)), uint64(len(b)) - 1}[r.Intn(10)]
	}
	shoff := int(le.Uint64(b[0x28:]))
	switch r.Intn(12) {
	case 0:
		le.PutUint64(b[0x28:], big())
		return b, "elf-shoff"
	case 1:
		le.PutUint16(b[0x3c:], uint16(r.U64()))
		return b, "elf-shnum"
	case 2:
		le.PutUint16(b[0x3e:], uint16(r.U64()))
		return b, "elf-shstrndx"
	case 3:
		le.PutUint64(b[0x20:], big())
		return b, "elf-phoff"
	case 4:
		le.PutUint16(b[0x38:], uint16(r.U64()))
		return b, "elf-phnum"
	case 5:
		le.PutUint16(b[0x3a:], uint16(r.Intn(130)))
		le.PutUint16(b[0x36:], uint16(r.Intn(130)))
		return b, "elf-entsize"
	case 6:
		// a program header field
		off := 64 + []int{8, 16, 32, 40}[r.Intn(4)]
		le.PutUint64(b[off:], big())
		return b, "elf-phdr-field"
	case 7:
		// a section header field of .go.buildinfo or .shstrtab
		if shoff > 0 && shoff+3*64 <= len(b) {
			off := shoff + 64*(1+r.Intn(2)) + []int{0, 4, 16, 24, 32}[r.Intn(5)]
			if r.Chance(1, 2) {
				le.PutUint32(b[off:], uint32(big()))
			} else {
				le.PutUint64(b[off:], big())
			}
		}
		return b, "elf-shdr-field"
	case 8:
		// the buildinfo header: pointer size, flags
		b[128+14] = byte(r.U64())
		b[128+15] = byte(r.Intn(4))
		return b, "buildinfo-flags"
	case 9:
		// the varint length of the version or of the module info
		at := 128 + 32
		if r.Chance(1, 2) {
			at += 1 + int(b[at])
		}
		v := binary.AppendUvarint(nil, big())
		return lySplice(b, at, at+1, v), "buildinfo-strlen"
	case 10:
		b[4] = byte(1 + r.Intn(2))
		b[5] = byte(1 + r.Intn(2))
		return b, "elf-class-endian"
	default:
		// flips inside the module info text
		for k := 1 + r.Intn(4); k > 0; k-- {
			at := 128 + 32 + r.Intn(len(b)-160)
			b[at] = "\t\n=\x00 0v"[r.Intn(7)]
		}
		return b, "modinfo-edit"
	}
}

func partGobin(r *hx.Rand, o lyOpts) lyPart {
	p := lyPart{kind: "gobin"}
	for i, n := 0, 1+r.Intn(2); i < n; i++ {
		var b []byte
		m := "none"
		switch c := r.Intn(10); {
		case o.wellFormed || c < 2:
			b = genGoElf(r)
		case c < 7:
			b, m = mutateElf(r, genGoElf(r))
			if r.Chance(1, 4) {
				var m2 string
				b, m2 = mutateBytes(r, b)
				m += "+" + m2
			}
		case c == 7:
			b, m = append([]byte("\x7fELF"), lyRandBytes(r, r.Intn(400))...), "elf-garbage"
			if len(b) > 0x12 && r.Chance(1, 2) {
				b[5], b[0x10], b[0x11] = 1, 2, 0
			}
		case c == 8:
			b, m = append([]byte("MZ"), lyRandBytes(r, r.Intn(600))...), "pe-garbage"
			if len(b) > 0x40 {
				binary.LittleEndian.PutUint32(b[0x3c:], uint32(0x40+r.Intn(64)))
				if len(b) > 0x80 {
					copy(b[binary.LittleEndian.Uint32(b[0x3c:]):], "PE\x00\x00\x64\x86")
				}
			}
		default:
			b, m = lyRandBytes(r, r.Intn(40)), "short-garbage"
			if r.Chance(1, 2) {
				copy(b, "\x7fELF")
			}
		}
		p.muts = append(p.muts, m)
		mode := int64(0o755)
		if r.Chance(1, 8) {
			mode = []int64{0o644, 0o001, 0o4755, 0o100}[r.Intn(4)]
		}
		p.files = append(p.files, lyFile{name: lyPick(r, "usr/bin/", "usr/local/bin/", "bin/", "opt/app/", "usr/libexec/x/") + lyWord(r), body: b, mode: mode})
	}
	return p
}

// partGobinExe holds the harness binary itself (a real Go executable).
func partGobinExe(r *hx.Rand, o lyOpts) lyPart {
	b := selfExe()
	m := "none"
	if !o.wellFormed && len(b) > 4096 {
		switch r.Intn(4) {
		case 0:
			b = b[:4096+r.Intn(len(b)-4096)]
			m = "exe-truncated"
		case 1:
			b, m = mutateElf(r, b)
			m = "exe-" + m
		case 2:
			b = append([]byte(nil), b...)
			for k := 0; k < 8; k++ {
				b[r.Intn(4096)] ^= byte(1 << uint(r.Intn(8)))
			}
			m = "exe-header-flips"
		}
	}
	return lyPart{kind: "gobin-exe", muts: []string{m}, files: []lyFile{{name: "usr/bin/harness", body: b, mode: 0o755}}}
}

func lyRpmHeaders(r *hx.Rand, o lyOpts, muts *[]string) [][]byte {
	var hs [][]byte
	for i, n := 0, 1+r.Intn(4); i < n; i++ {
		h := genRpmHeaderBlob(r)
		if !o.wellFormed && r.Chance(1, 3) {
			var m string
			h, m = mutateRpmHeader(r, h)
			*muts = append(*muts, "hdr:"+m)
		}
		hs = append(hs, h)
	}
	return hs
}

func partRpmBdb(r *hx.Rand, o lyOpts) lyPart {
	p := lyPart{kind: "rpm-bdb"}
	b := genBdb(r, lyRpmHeaders(r, o, &p.muts))
	if !o.wellFormed && r.Chance(2, 3) {
		var m string
		if r.Chance(1, 8) {
			b, m = mutateBytes(r, b)
		} else {
			b, m = mutateBdb(r, b)
		}
		p.muts = append(p.muts, m)
	}
	if len(p.muts) == 0 {
		p.muts = []string{"none"}
	}
	p.files = []lyFile{{name: lyPick(r, "var/lib/rpm/", "var/lib/rpm/", "usr/lib/sysimage/rpm/", "opt/rpm/") + "Packages", body: b}}
	return p
}

func partRpmNdb(r *hx.Rand, o lyOpts) lyPart {
	p := lyPart{kind: "rpm-ndb"}
	b := genNdb(r, lyRpmHeaders(r, o, &p.muts))
	if !o.wellFormed && r.Chance(2, 3) {
		var m string
		if r.Chance(1, 8) {
			b, m = mutateBytes(r, b)
		} else {
			b, m = mutateNdb(r, b)
		}
		p.muts = append(p.muts, m)
	}
	if len(p.muts) == 0 {
		p.muts = []string{"none"}
	}
	p.files = []lyFile{{name: lyPick(r, "usr/lib/sysimage/rpm/", "usr/lib/sysimage/rpm/", "var/lib/rpm/") + "Packages.db", body: b}}
	return p
}

func partRpmSqlite(r *hx.Rand, o lyOpts) lyPart {
	var b []byte
	m := ""
	c := r.Intn(5)
	if o.wellFormed {
		c = 2
	}
	if base := sqliteBase(r); base != nil && (o.wellFormed || r.Chance(2, 3)) {
		// a real database written by SQLite, well-formed or with one to three
		// fields of the file format changed
		b, m = base, "sqlite-real"
		if !o.wellFormed && r.Chance(5, 6) {
			for k, n := 0, 1+r.Intn(3); k < n; k++ {
				var how string
				if r.Chance(1, 6) {
					b, how = mutateBytes(r, b)
				} else {
					b, how = mutateSqlite(r, b)
				}
				m += "+" + how
			}
		}
		return lyPart{kind: "rpm-sqlite", muts: []string{m}, files: []lyFile{{name: lyPick(r, "var/lib/rpm/", "usr/lib/sysimage/rpm/") + "rpmdb.sqlite", body: b}}}
	}
	switch c {
	case 0:
		b, m = []byte("SQLite format 3\x00"), "sqlite-magic-only"
	case 1:
		// a plausible 100-byte database header and nothing else
		b = make([]byte, 100)
		copy(b, "SQLite format 3\x00")
		binary.BigEndian.PutUint16(b[16:], 4096)
		b[18], b[19], b[21], b[22], b[23] = 1, 1, 64, 32, 32
		binary.BigEndian.PutUint32(b[28:], uint32(r.Intn(5)))
		binary.BigEndian.PutUint32(b[44:], 4)
		binary.BigEndian.PutUint32(b[56:], 1)
		m = "sqlite-header-only"
	case 2:
		b = make([]byte, 4096)
		copy(b, "SQLite format 3\x00")
		binary.BigEndian.PutUint16(b[16:], 4096)
		b[18], b[19], b[21], b[22], b[23] = 1, 1, 64, 32, 32
		binary.BigEndian.PutUint32(b[28:], 1)
		binary.BigEndian.PutUint32(b[44:], 4)
		binary.BigEndian.PutUint32(b[56:], 1)
		b[100] = 13 // an empty table leaf page: a valid empty database
		binary.BigEndian.PutUint16(b[105:], 4096)
		m = "sqlite-empty-db"
		if !o.wellFormed && r.Chance(1, 2) {
			b, m = mutateBytes(r, b)
			m = "sqlite-empty-db+" + m
		}
	case 3:
		b, m = lyRandBytes(r, r.Intn(5000)), "sqlite-garbage"
	default:
		b, m = nil, "sqlite-empty-file"
	}
	return lyPart{kind: "rpm-sqlite", muts: []string{m}, files: []lyFile{{name: lyPick(r, "var/lib/rpm/", "usr/lib/sysimage/rpm/") + "rpmdb.sqlite", body: b}}}
}

func partPkgconfig(r *hx.Rand, o lyOpts) lyPart {
	b, m := textVariant(r, o, shapeRFC822, func() []byte {
		return []byte(fmt.Sprintf("prefix=/usr\nexec_prefix=${prefix}\nlibdir=${exec_prefix}/lib\nincludedir=${prefix}/include\n\nName: %s\nDescription: a library\nURL: https://example.org/${prefix}\nVersion: %s\nRequires: zlib\nLibs: -L${libdir} -l%s\nCflags: -I${includedir}\n", lyWord(r), lyVersion(r), lyWord(r)))
	})
	return lyPart{kind: "pkgconfig", muts: m, files: []lyFile{{name: lyPick(r, "usr/lib/pkgconfig/", "usr/share/pkgconfig/", "usr/lib/x86_64-linux-gnu/pkgconfig/") + lyWord(r) + ".pc", body: b}}}
}

var partGens = []partGen{
	{"dpkg-status", 10, partDpkg},
	{"dpkg-status.d", 5, partDistroless},
	{"apk-installed", 8, partApk},
	{"python", 8, partPython},
	{"nodejs", 7, partNodejs},
	{"ruby", 6, partRuby},
	{"java", 10, partJava},
	{"os-release", 10, partOsRelease},
	{"rhel-content-manifest", 6, partContentManifest},
	{"dockerfile", 10, partDockerfile},
	{"whiteout", 3, partWhiteout},
	{"gobin", 8, partGobin},
	{"gobin-exe", 0, partGobinExe},
	{"rpm-bdb", 7, partRpmBdb},
	{"rpm-ndb", 7, partRpmNdb},
	{"rpm-sqlite", 6, partRpmSqlite},
	{"pkgconfig", 3, partPkgconfig},
}

// genLayer is one generated layer with the record of how it was made.
type genLayer struct {
	blob   []byte
	recipe string
	kinds  []string
	muts   []string
	// jarInflated: see lyPart.
	jarInflated uint64
	// concurrent: also run all scanners at once and the real LayerScanner.Scan.
	concurrent bool
}

func pickPart(r *hx.Rand) partGen {
	total := 0
	for _, g := range partGens {
		total += g.weight
	}
	x := r.Intn(total)
	for _, g := range partGens {
		if x < g.weight {
			return g
		}
		x -= g.weight
	}
	return partGens[0]
}

// scannerPaths are the paths the scanners open by name.
var scannerPaths = []string{"etc/os-release", "usr/lib/os-release", "etc/lsb-release", "etc/issue", "etc/redhat-release", "etc/oracle-release", "etc/SuSE-release", "etc/photon-release",
	"var/lib/dpkg/status", "var/lib/dpkg/info", "var/lib/dpkg/status.d", "lib/apk/db/installed", "var/lib/rpm/Packages", "var/lib/rpm/rpmdb.sqlite", "var/lib/rpm/Packages.db",
	"usr/lib/sysimage/rpm/Packages.db", "root/buildinfo/Dockerfile-x-1-2", "root/buildinfo/content_manifests/x.json", "usr/share/buildinfo/x.json",
	"app/a.jar", "usr/lib/node_modules/x/package.json", "usr/share/gems/specifications/a-1.gemspec", "usr/lib/python3.9/site-packages/a-1.dist-info/METADATA",
	"usr/lib/python3.9/site-packages/a-1.dist-info/INSTALLER", "usr/lib/python3.9/site-packages/a.egg-info", "usr/bin/x", "usr/lib/pkgconfig/a.pc"}

// guardedMutateTar keeps a defect of a generator from taking the harness down:
// the layer stays as it was and the event is counted.
func guardedMutateTar(r *hx.Rand, b []byte) (out []byte, how string) {
	defer func() {
		if e := recover(); e != nil {
			out, how = b, "generator-panic"
		}
	}()
	return mutateTar(r, b)
}

// lyRelocate moves everything below one directory of the layer somewhere else
// and leaves a symbolic link in the directory's place, the way usr-merged
// images have lib -> usr/lib and newer rpm distributions var/lib/rpm ->
// ../../usr/lib/sysimage/rpm: every scanner that opens a path by name then goes
// through a link in directory position.
func lyRelocate(r *hx.Rand, files []lyFile) ([]lyFile, string) {
	var dirs []string
	seen := map[string]bool{}
	for _, f := range files {
		parts := strings.Split(strings.Trim(f.name, "/"), "/")
		for i := 1; i < len(parts); i++ {
			d := strings.Join(parts[:i], "/")
			if !seen[d] {
				seen[d] = true
				dirs = append(dirs, d)
			}
		}
	}
	if len(dirs) == 0 {
		return files, ""
	}
	d := dirs[r.Intn(len(dirs))]
	var target string
	switch r.Intn(4) {
	case 0:
		target = "usr/" + d
	case 1:
		target = ".real/" + strings.ReplaceAll(d, "/", "_")
	case 2:
		target = "usr/lib/sysimage/" + d[strings.LastIndex(d, "/")+1:]
	default:
		target = d + ".d/x"
	}
	if target == d || strings.HasPrefix(d, target+"/") || strings.HasPrefix(target, d+"/") {
		target = ".moved/" + strings.ReplaceAll(d, "/", "_")
	}
	out := make([]lyFile, 0, len(files)+2)
	for _, f := range files {
		if strings.HasPrefix(f.name, d+"/") {
			f.name = target + f.name[len(d):]
		} else if strings.TrimSuffix(f.name, "/") == d {
			continue
		}
		out = append(out, f)
	}
	// the link text: relative (as many ".." as the link is deep), absolute, or
	// through a second link
	up := strings.Repeat("../", strings.Count(d, "/"))
	link := lyFile{name: d, typ: tar.TypeSymlink, mode: 0o777}
	how := "relative"
	switch r.Intn(4) {
	case 0:
		link.link, how = "/"+target, "absolute"
	case 1:
		mid := ".via"
		link.link = up + mid
		out = append(out, lyFile{name: mid, typ: tar.TypeSymlink, mode: 0o777, link: target})
		how = "two-hops"
	default:
		link.link = up + target
	}
	if r.Chance(1, 2) {
		out = append([]lyFile{link}, out...)
	} else {
		out = append(out, link)
	}
	return out, "symlinked-dir-" + how
}

// genRandomLayer assembles 1-4 generated parts into a layer and sometimes
// damages the tar stream itself.
func genRandomLayer(r *hx.Rand, o lyOpts) genLayer {
	var g genLayer
	var files []lyFile
	n := 1 + r.Intn(4)
	if o.big && r.Chance(1, 3) {
		n += r.Intn(8)
	}
	for i := 0; i < n; i++ {
		pg := pickPart(r)
		p := pg.gen(r, o)
		g.kinds = append(g.kinds, p.kind)
		g.jarInflated += p.jarInflated
		for _, m := range p.muts {
			g.muts = append(g.muts, p.kind+":"+m)
		}
		files = append(files, p.files...)
	}
	if r.Chance(1, 6) {
		// a link at (or next to) a path a scanner opens
		p := scannerPaths[r.Intn(len(scannerPaths))]
		f := lyFile{name: p, typ: tar.TypeSymlink}
		switch r.Intn(7) {
		case 0:
			f.link = p[strings.LastIndex(p, "/")+1:] // itself
		case 1:
			f.link = "../../../etc/passwd"
		case 2:
			f.link = "/" + scannerPaths[r.Intn(len(scannerPaths))]
		case 3:
			f.link = "."
		case 4:
			f.link = "/"
		case 5:
			f.typ, f.link = tar.TypeLink, lyPick(r, "missing", "etc", "var/lib", p)
		case 6:
			f.typ = []byte{tar.TypeFifo, tar.TypeChar, tar.TypeBlock, tar.TypeDir}[r.Intn(4)]
		}
		g.muts = append(g.muts, "tar:special-at-scanner-path")
		if r.Chance(1, 2) {
			files = append([]lyFile{f}, files...)
		} else {
			files = append(files, f)
		}
	}
	if o.symlinkDirs || r.Chance(1, 6) {
		for k, n := 0, 1+r.Intn(2); k < n; k++ {
			var m string
			if files, m = lyRelocate(r, files); m != "" {
				g.muts = append(g.muts, "tar:"+m)
				g.concurrent = true
			}
		}
	}
	if r.Chance(1, 8) && len(files) > 1 {
		r2 := r.Fork()
		sort.SliceStable(files, func(i, j int) bool { return r2.Chance(1, 2) })
		g.muts = append(g.muts, "tar:shuffled")
	}
	withDirs := !r.Chance(1, 4)
	if !withDirs {
		g.muts = append(g.muts, "tar:no-parent-dirs")
	}
	g.blob = lyTar(r, files, withDirs)
	if r.Chance(1, 7) {
		var m string
		g.blob, m = guardedMutateTar(r, g.blob)
		g.muts = append(g.muts, "tar:"+m)
	}
	sort.Strings(g.kinds)
	g.recipe = "random[" + strings.Join(g.kinds, ",") + "|" + strings.Join(g.muts, ",") + "]"
	return g
}

func genExeLayer(r *hx.Rand, o lyOpts) genLayer {
	p := partGobinExe(r, o)
	files := p.files
	kinds := []string{p.kind}
	if r.Chance(1, 2) {
		q := partOsRelease(r, o)
		files = append(files, q.files...)
		kinds = append(kinds, q.kind)
	}
	g := genLayer{blob: lyTar(r, files, true), kinds: kinds}
	for _, m := range p.muts {
		g.muts = append(g.muts, p.kind+":"+m)
	}
	g.recipe = "exe[" + strings.Join(g.muts, ",") + "]"
	return g
}

// ---- hand-built tar oddities ----

// sampleFor returns well-formed content for a scanner path.
func sampleFor(r *hx.Rand, p string) []byte {
	wf := lyOpts{wellFormed: true}
	switch {
	case strings.HasSuffix(p, "os-release"):
		return genOsRelease(r)
	case strings.HasSuffix(p, "dpkg/status"):
		return genDpkgStatus(r)
	case strings.HasSuffix(p, "installed"):
		return genApkInstalled(r)
	case strings.HasSuffix(p, ".jar"):
		var m []string
		var n uint64
		return genJar(r, wf, 0, &m, &n)
	case strings.HasSuffix(p, "package.json"):
		return genPackageJSON(r)
	case strings.HasSuffix(p, ".gemspec"):
		return genGemspec(r)
	case strings.HasSuffix(p, "METADATA"), strings.HasSuffix(p, ".egg-info"):
		return genPyMetadata(r)
	case strings.Contains(p, "Dockerfile"):
		return genDockerfile(r)
	case strings.HasSuffix(p, "Packages"):
		return genBdb(r, [][]byte{genRpmHeaderBlob(r)})
	case strings.HasSuffix(p, "Packages.db"):
		return genNdb(r, [][]byte{genRpmHeaderBlob(r)})
	case strings.HasSuffix(p, "usr/bin/x"):
		return genGoElf(r)
	}
	return []byte("Red Hat Enterprise Linux release 8.9 (Ootpa)\n")
}

type oddity struct {
	name string
	gen  func(r *hx.Rand) []byte
}

func cat(bs ...[]byte) []byte { return bytes.Join(bs, nil) }

var oddities = []oddity{
	{"symlink-loop-2", func(r *hx.Rand) []byte {
		p := scannerPaths[r.Intn(len(scannerPaths))]
		return cat(rawTarHeader("a", '2', 0, "b", 0o777), rawTarHeader("b", '2', 0, "a", 0o777), rawTarHeader(p, '2', 0, "/a", 0o777), rawTarEnd())
	}},
	{"symlink-self-then-file", func(r *hx.Rand) []byte {
		p := scannerPaths[r.Intn(len(scannerPaths))]
		return cat(rawTarHeader(p, '2', 0, "/"+p, 0o777), rawTarFile(p, sampleFor(r, p)), rawTarEnd())
	}},
	{"symlink-self", func(r *hx.Rand) []byte {
		p := scannerPaths[r.Intn(len(scannerPaths))]
		return cat(rawTarHeader(p, '2', 0, p[strings.LastIndex(p, "/")+1:], 0o777), rawTarEnd())
	}},
	{"symlink-loop-3-via-dirs", func(r *hx.Rand) []byte {
		return cat(rawTarHeader("etc", '2', 0, "usr", 0o777), rawTarHeader("usr", '2', 0, "var", 0o777), rawTarHeader("var", '2', 0, "etc", 0o777),
			rawTarFile("etc/os-release", genOsRelease(r)), rawTarFile("var/lib/dpkg/status", genDpkgStatus(r)), rawTarEnd())
	}},
	{"symlink-dangling", func(r *hx.Rand) []byte {
		p := scannerPaths[r.Intn(len(scannerPaths))]
		return cat(rawTarHeader(p, '2', 0, "../../../etc/passwd", 0o777), rawTarEnd())
	}},
	{"symlink-to-dir", func(r *hx.Rand) []byte {
		p := scannerPaths[r.Intn(len(scannerPaths))]
		return cat(rawTarHeader("d/", '5', 0, "", 0o755), rawTarHeader(p, '2', 0, "/d", 0o777), rawTarHeader("var/lib/dpkg/info/", '5', 0, "", 0o755), rawTarEnd())
	}},
	{"symlink-to-root", func(r *hx.Rand) []byte {
		return cat(rawTarHeader("a", '2', 0, "/", 0o777), rawTarHeader("b", '2', 0, ".", 0o777), rawTarHeader("c/d", '2', 0, "..", 0o777), rawTarFile("a/etc/os-release", genOsRelease(r)), rawTarEnd())
	}},
	{"symlink-chain-long", func(r *hx.Rand) []byte {
		var b []byte
		n := 50 + r.Intn(400)
		for i := 0; i < n; i++ {
			b = append(b, rawTarHeader(fmt.Sprintf("l%d", i), '2', 0, fmt.Sprintf("l%d", i+1), 0o777)...)
		}
		b = append(b, rawTarFile(fmt.Sprintf("l%d", n), genOsRelease(r))...)
		b = append(b, rawTarHeader("etc/os-release", '2', 0, "/l0", 0o777)...)
		return append(b, rawTarEnd()...)
	}},
	{"hardlink-missing", func(r *hx.Rand) []byte {
		p := scannerPaths[r.Intn(len(scannerPaths))]
		return cat(rawTarHeader(p, '1', 0, "missing", 0o644), rawTarEnd())
	}},
	{"hardlink-to-dir", func(r *hx.Rand) []byte {
		p := scannerPaths[r.Intn(len(scannerPaths))]
		return cat(rawTarHeader("d/", '5', 0, "", 0o755), rawTarHeader(p, '1', 0, "d", 0o644), rawTarFile("d/status", genDpkgStatus(r)), rawTarEnd())
	}},
	{"hardlink-to-self", func(r *hx.Rand) []byte {
		p := scannerPaths[r.Intn(len(scannerPaths))]
		return cat(rawTarHeader(p, '1', 0, p, 0o644), rawTarHeader("x", '1', 0, "y", 0o644), rawTarHeader("y", '1', 0, "x", 0o644), rawTarEnd())
	}},
	{"hardlink-then-target", func(r *hx.Rand) []byte {
		p := scannerPaths[r.Intn(len(scannerPaths))]
		return cat(rawTarHeader(p, '1', 0, "t", 0o644), rawTarFile("t", sampleFor(r, p)), rawTarEnd())
	}},
	{"glob-names", func(r *hx.Rand) []byte {
		d := lyPick(r, "a[", "a*", "a\\", "a[]", "[a-", "a?", "\\", "a[^", "**")
		return cat(rawTarHeader(d+"/", '5', 0, "", 0o755), rawTarHeader(d+"/info/", '5', 0, "", 0o755), rawTarFile(d+"/status", genDpkgStatus(r)),
			rawTarFile(d+"/info/x.md5sums", []byte("x")), rawTarFile("root/buildinfo/Dockerfile-"+d+"-1-2", genDockerfile(r)), rawTarFile("root/buildinfo/content_manifests/"+d+".json", []byte("{}")), rawTarEnd())
	}},
	{"invalid-utf8-names", func(r *hx.Rand) []byte {
		d := lyPick(r, "\xff", "a\xc0\xaf", "\xed\xa0\x80", "a\x80b")
		return cat(rawTarHeader(d+"/", '5', 0, "", 0o755), rawTarFile(d+"/status", genDpkgStatus(r)), rawTarHeader(d+"/info/", '5', 0, "", 0o755),
			rawTarFile("usr/lib/node_modules/"+d+"/package.json", genPackageJSON(r)), rawTarFile("app/"+d+".jar", sampleFor(r, "a.jar")),
			rawTarFile("usr/share/gems/specifications/"+d+".gemspec", genGemspec(r)), rawTarFile(d, []byte("x")), rawTarEnd())
	}},
	{"dotdot-names", func(r *hx.Rand) []byte {
		return cat(rawTarFile("../etc/os-release", genOsRelease(r)), rawTarFile("a/../../lib/apk/db/installed", genApkInstalled(r)), rawTarFile("./././var/lib/dpkg/status", genDpkgStatus(r)),
			rawTarFile("/abs/node_modules/x/package.json", genPackageJSON(r)), rawTarFile("..", []byte("x")), rawTarFile(".", []byte("x")), rawTarFile("", []byte("x")), rawTarHeader("var/lib/dpkg/info/../info/", '5', 0, "", 0o755), rawTarEnd())
	}},
	{"dir-then-file", func(r *hx.Rand) []byte {
		p := scannerPaths[r.Intn(len(scannerPaths))]
		return cat(rawTarHeader(p+"/", '5', 0, "", 0o755), rawTarFile(p, sampleFor(r, p)), rawTarEnd())
	}},
	{"file-then-dir", func(r *hx.Rand) []byte {
		p := scannerPaths[r.Intn(len(scannerPaths))]
		return cat(rawTarFile(p, sampleFor(r, p)), rawTarHeader(p+"/", '5', 0, "", 0o755), rawTarFile(p+"/x", []byte("x")), rawTarEnd())
	}},
	{"file-then-file", func(r *hx.Rand) []byte {
		p := scannerPaths[r.Intn(len(scannerPaths))]
		return cat(rawTarFile(p, sampleFor(r, p)), rawTarFile(p, nil), rawTarFile(p, sampleFor(r, p)), rawTarEnd())
	}},
	{"file-as-parent", func(r *hx.Rand) []byte {
		return cat(rawTarFile("etc", []byte("x")), rawTarFile("etc/os-release", genOsRelease(r)), rawTarFile("var/lib", []byte("x")), rawTarFile("var/lib/dpkg/status", genDpkgStatus(r)), rawTarEnd())
	}},
	{"deep-nesting", func(r *hx.Rand) []byte {
		n := 300 + r.Intn(200)
		d := strings.TrimSuffix(strings.Repeat("d/", n), "/")
		return lyTar(r, []lyFile{{name: d + "/node_modules/x/package.json", body: genPackageJSON(r)}, {name: d + "/status", body: genDpkgStatus(r)}, {name: d + "/info", typ: tar.TypeDir}, {name: d + "/a.jar", body: sampleFor(r, "a.jar")}}, r.Chance(1, 2))
	}},
	{"pax-huge-size", func(r *hx.Rand) []byte {
		rec := func(k, v string) string {
			n := len(k) + len(v) + 3
			l := len(fmt.Sprint(n))
			if len(fmt.Sprint(n+l)) > l {
				l++
			}
			return fmt.Sprintf("%d %s=%s\n", n+l, k, v)
		}
		body := []byte(rec("size", lyPick(r, "9223372036854775807", "4611686018427387904", "-1", "99999999999999999999", "1099511627776")) + rec("path", "etc/os-release"))
		x := rawTarHeader("PaxHeaders.0/x", 'x', int64(len(body)), "", 0o644)
		x = append(x, body...)
		x = append(x, make([]byte, (512-len(body)%512)%512)...)
		return cat(x, rawTarFile("etc/os-release", genOsRelease(r)), rawTarEnd())
	}},
	{"pax-size-over-data", func(r *hx.Rand) []byte {
		// The size record says a little more than the member has: within the
		// archive segment (so Open accepts it), past the data (so every read of
		// the tail fails with unexpected EOF). One or two scanner files.
		var b []byte
		for k, n := 0, 1+r.Intn(2); k < n; k++ {
			p := scannerPaths[r.Intn(len(scannerPaths))]
			body := sampleFor(r, p)
			over := []int{1, 2, 100, 511, 512, 600, 1024, 1500}[r.Intn(8)]
			pad := (512 - len(body)%512) % 512
			b = append(b, paxRecords("size", fmt.Sprint(len(body)+pad+over))...)
			b = append(b, rawTarFile(p, body)...)
		}
		if r.Chance(1, 2) {
			b = append(cat(rawTarHeader("var/lib/dpkg/info/", '5', 0, "", 0o755)), b...)
		}
		return append(b, rawTarEnd()...)
	}},
	{"link-to-lying-size", func(r *hx.Rand) []byte {
		// Scanner paths that are a hard link, a symbolic link or a chain of
		// links to a member whose size record lies (far too large, or a little
		// past its data): every way of reaching a member has to look at its
		// size. Six paths per layer, every kind of link and of lie.
		var out []byte
		start := r.Intn(len(scannerPaths))
		for k := 0; k < 6; k++ {
			p := scannerPaths[(start+k*5)%len(scannerPaths)]
			body := sampleFor(r, p)
			t := fmt.Sprintf("t%d", k)
			size := []string{"9223372036854775807", "4611686018427387904", "1099511627776", fmt.Sprint(len(body) + 600), fmt.Sprint(len(body) + (512-len(body)%512)%512 + 1)}[(k+start)%5]
			target := cat(paxRecords("size", size), rawTarFile(t, body))
			var link []byte
			switch (k + start/5) % 4 {
			case 0:
				link = rawTarHeader(p, '1', 0, t, 0o644)
			case 1:
				link = rawTarHeader(p, '2', 0, "/"+t, 0o777)
			case 2:
				link = cat(rawTarHeader("u"+t, '1', 0, t, 0o644), rawTarHeader(p, '1', 0, "u"+t, 0o644))
			default:
				link = cat(rawTarHeader("u"+t, '2', 0, t, 0o777), rawTarHeader(p, '1', 0, "u"+t, 0o644))
			}
			if r.Chance(1, 2) {
				out = append(out, cat(link, target)...)
			} else {
				out = append(out, cat(target, link)...)
			}
		}
		return append(out, rawTarEnd()...)
	}},
	{"pax-odd-records", func(r *hx.Rand) []byte {
		body := []byte(lyPick(r, "0 path=x\n", "999999999999 path=x\n", "11 path=\x00\n", "5 x\n", "30 linkpath=../../../../etc/x\n", "19 GNU.sparse.major=1\n18 GNU.sparse.size=9\n", strings.Repeat("13 path=aaaa\n", 2000)))
		x := rawTarHeader("PaxHeaders.0/x", lyPick(r, "x", "g")[0], int64(len(body)), "", 0o644)
		x = append(x, body...)
		x = append(x, make([]byte, (512-len(body)%512)%512)...)
		return cat(x, rawTarFile("lib/apk/db/installed", genApkInstalled(r)), rawTarEnd())
	}},
	{"huge-size-no-data", func(r *hx.Rand) []byte {
		p := scannerPaths[r.Intn(len(scannerPaths))]
		sz := []int64{1 << 62, 1<<63 - 1, 1 << 40, 1 << 33, 513, -1, -512, -1 << 62}[r.Intn(8)]
		b := rawTarHeader(p, '0', sz, "", 0o755)
		if r.Chance(1, 2) {
			b = append(b, rawTarEnd()...)
		}
		return b
	}},
	{"size-on-nonfile", func(r *hx.Rand) []byte {
		p := scannerPaths[r.Intn(len(scannerPaths))]
		t := []byte{'1', '2', '3', '4', '5', '6'}[r.Intn(6)]
		return cat(rawTarHeader(p, t, int64(512*(1+r.Intn(3))), "x", 0o644), rawTarFile("etc/os-release", genOsRelease(r)), make([]byte, 1024), rawTarEnd())
	}},
	{"device-at-scanner-path", func(r *hx.Rand) []byte {
		var b []byte
		for k := 0; k < 4; k++ {
			p := scannerPaths[r.Intn(len(scannerPaths))]
			b = append(b, rawTarHeader(p, []byte{'3', '4', '6', '7', 'S', 'D', 'M', 'V'}[r.Intn(8)], 0, "", 0o755)...)
		}
		return append(b, rawTarEnd()...)
	}},
	{"dir-at-scanner-path", func(r *hx.Rand) []byte {
		var b []byte
		for k := 0; k < 6; k++ {
			p := scannerPaths[r.Intn(len(scannerPaths))]
			b = append(b, rawTarHeader(p+"/", '5', 0, "", 0o755)...)
			if r.Chance(1, 2) {
				b = append(b, rawTarFile(p+"/status", genDpkgStatus(r))...)
				b = append(b, rawTarHeader(p+"/info/", '5', 0, "", 0o755)...)
			}
		}
		return append(b, rawTarEnd()...)
	}},
	{"many-entries", func(r *hx.Rand) []byte {
		var b []byte
		for k, n := 0, 2000+r.Intn(3000); k < n; k++ {
			b = append(b, rawTarHeader(fmt.Sprintf("usr/lib/node_modules/p%d/package.json", k%1500), '0', 0, "", 0o755)...)
		}
		return append(b, rawTarEnd()...)
	}},
	{"compressed-blob", func(r *hx.Rand) []byte {
		// what a layer looks like when it was not decompressed: Init sees a
		// gzip / zstd / bzip2 / xz stream, or a tar stream after such a header
		plain := lyTar(r, []lyFile{{name: "etc/os-release", body: genOsRelease(r)}}, true)
		switch r.Intn(5) {
		case 0:
			var buf bytes.Buffer
			zw := gzip.NewWriter(&buf)
			zw.Write(plain)
			zw.Close()
			return buf.Bytes()
		case 1:
			return cat([]byte{0x28, 0xb5, 0x2f, 0xfd, 0x04, 0x58}, lyRandBytes(r, 600))
		case 2:
			return cat([]byte("BZh91AY&SY"), lyRandBytes(r, 600))
		case 3:
			return cat([]byte{0xfd, '7', 'z', 'X', 'Z', 0, 0, 4}, plain)
		}
		return cat([]byte{0x1f, 0x8b, 8, 0, 0, 0, 0, 0, 0, 3}, plain)
	}},
	{"gnu-longname", func(r *hx.Rand) []byte {
		name := strings.Repeat("n", 5000) + "/etc/os-release\x00"
		l := rawTarHeader("././@LongLink", 'L', int64(len(name)), "", 0o644)
		l = append(l, name...)
		l = append(l, make([]byte, (512-len(name)%512)%512)...)
		k := rawTarHeader("././@LongLink", 'K', int64(len(name)), "", 0o644)
		k = append(k, name...)
		k = append(k, make([]byte, (512-len(name)%512)%512)...)
		return cat(l, k, rawTarHeader("x", '2', 0, "y", 0o777), l, l, rawTarFile("etc/os-release", genOsRelease(r)), rawTarEnd())
	}},
}

func genOddityLayer(r *hx.Rand, i int) genLayer {
	o := oddities[i%len(oddities)]
	b := o.gen(r)
	g := genLayer{blob: b, kinds: []string{"tar-oddity"}, muts: []string{"oddity:" + o.name}}
	if r.Chance(1, 8) {
		var m string
		g.blob, m = guardedMutateTar(r, g.blob)
		g.muts = append(g.muts, "tar:"+m)
	}
	g.recipe = "oddity[" + strings.Join(g.muts, ",") + "]"
	return g
}
