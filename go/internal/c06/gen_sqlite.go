package c06

import (
	"database/sql"
	"encoding/binary"
	"fmt"
	"os"
	"path/filepath"
	"sync"

	"github.com/quay/claircore/verifharness/internal/hx"
)

// Real rpmdb.sqlite files: written once per run with the SQLite library the
// rpm package links (the driver is registered by rpm/sqlite), with 512-byte
// pages so that a few rows already make interior pages and overflow chains,
// then mutated at the fields of the file format.

var (
	sqliteOnce  sync.Once
	sqliteBases [][]byte
)

func buildSqlite(dir string, k int) ([]byte, error) {
	path := filepath.Join(dir, fmt.Sprintf("base%d.sqlite", k))
	db, err := sql.Open("sqlite", "file:"+path)
	if err != nil {
		return nil, err
	}
	defer db.Close()
	r := hx.NewRand(uint64(7000 + k))
	stmts := []string{
		"PRAGMA page_size=512",
		"PRAGMA journal_mode=OFF",
		"CREATE TABLE Packages (hnum INTEGER PRIMARY KEY AUTOINCREMENT, blob BLOB NOT NULL)",
	}
	if k != 1 {
		stmts = append(stmts, "CREATE TABLE Name (key TEXT NOT NULL, hnum INTEGER NOT NULL, idx INTEGER NOT NULL, FOREIGN KEY (hnum) REFERENCES Packages(hnum))",
			"CREATE INDEX Name_key_idx ON Name (key ASC)")
	}
	for _, s := range stmts {
		if _, err := db.Exec(s); err != nil {
			return nil, fmt.Errorf("%s: %w", s, err)
		}
	}
	var blobs [][]byte
	switch k {
	case 0: // a handful of ordinary headers
		for i := 0; i < 4; i++ {
			blobs = append(blobs, genRpmHeaderBlob(r))
		}
	case 1: // one header, no other table
		blobs = append(blobs, genRpmHeaderBlob(r))
	case 2: // one large header (a long overflow chain) between small ones
		big := buildRpmHeader([]rpmEntry{{tagName, typString, 1, cstr("big")}, {tagSigPGP, typBin, 6000, make([]byte, 6000)}}, 0)
		blobs = append(blobs, genRpmHeaderBlob(r), big, genRpmHeaderBlob(r))
	case 3: // many tiny rows: interior pages
		for i := 0; i < 1500; i++ {
			blobs = append(blobs, []byte{byte(i)})
		}
	}
	tx, err := db.Begin()
	if err != nil {
		return nil, err
	}
	for i, b := range blobs {
		if _, err := tx.Exec("INSERT INTO Packages (blob) VALUES (?)", b); err != nil {
			return nil, err
		}
		if k != 1 && i < 8 {
			if _, err := tx.Exec("INSERT INTO Name (key, hnum, idx) VALUES (?, ?, 0)", fmt.Sprintf("pkg%d", i), i+1); err != nil {
				return nil, err
			}
		}
	}
	if err := tx.Commit(); err != nil {
		return nil, err
	}
	if err := db.Close(); err != nil {
		return nil, err
	}
	return os.ReadFile(path)
}

// sqliteRows is a database whose Packages table holds n one-byte rows.
func sqliteRows(n int) []byte {
	dir, err := os.MkdirTemp("", "c06-sqlite-")
	if err != nil {
		return nil
	}
	defer os.RemoveAll(dir)
	db, err := sql.Open("sqlite", "file:"+filepath.Join(dir, "rows.sqlite"))
	if err != nil {
		return nil
	}
	defer db.Close()
	for _, s := range []string{"PRAGMA page_size=512", "PRAGMA journal_mode=OFF", "CREATE TABLE Packages (hnum INTEGER PRIMARY KEY AUTOINCREMENT, blob BLOB NOT NULL)"} {
		if _, err := db.Exec(s); err != nil {
			return nil
		}
	}
	tx, err := db.Begin()
	if err != nil {
		return nil
	}
	for i := 0; i < n; i++ {
		if _, err := tx.Exec("INSERT INTO Packages (blob) VALUES (?)", []byte{byte(i)}); err != nil {
			return nil
		}
	}
	if tx.Commit() != nil || db.Close() != nil {
		return nil
	}
	b, _ := os.ReadFile(filepath.Join(dir, "rows.sqlite"))
	return b
}

// sqliteBase returns one of the well-formed databases, or nil when they could
// not be written.
func sqliteBase(r *hx.Rand) []byte {
	sqliteOnce.Do(func() {
		dir, err := os.MkdirTemp("", "c06-sqlite-")
		if err != nil {
			return
		}
		defer os.RemoveAll(dir)
		for k := 0; k < 4; k++ {
			b, err := buildSqlite(dir, k)
			if err != nil || len(b) < 1024 {
				sqliteBases = nil
				return
			}
			sqliteBases = append(sqliteBases, b)
		}
	})
	if len(sqliteBases) == 0 {
		return nil
	}
	// the many-rows base less often (it is the largest)
	k := r.Intn(7)
	if k >= len(sqliteBases) {
		k = r.Intn(3)
	}
	return sqliteBases[k]
}

// mutateSqlite edits fields of the database header, of b-tree page headers,
// cell pointers, the varints at the start of cells and overflow links.
func mutateSqlite(r *hx.Rand, base []byte) ([]byte, string) {
	b := append([]byte(nil), base...)
	if len(b) < 512 {
		return b, "too-short"
	}
	ps := int(binary.BigEndian.Uint16(b[16:]))
	if ps < 512 || ps&(ps-1) != 0 {
		ps = 512
	}
	np := len(b) / ps
	pageHdr := func(p int) int { // offset of the b-tree header of page p (0-based)
		if p == 0 {
			return 100
		}
		return p * ps
	}
	somePage := func() uint32 {
		return []uint32{0, 1, 2, uint32(np), uint32(np + 1), uint32(1 + r.Intn(np)), 0xffffffff, 0x7fffffff}[r.Intn(8)]
	}
	p := r.Intn(np)
	h := pageHdr(p)
	put16 := func(off int, v uint16) {
		if off >= 0 && off+2 <= len(b) {
			binary.BigEndian.PutUint16(b[off:], v)
		}
	}
	put32be := func(off int, v uint32) {
		if off >= 0 && off+4 <= len(b) {
			binary.BigEndian.PutUint32(b[off:], v)
		}
	}
	get16 := func(off int) int {
		if off >= 0 && off+2 <= len(b) {
			return int(binary.BigEndian.Uint16(b[off:]))
		}
		return 0
	}
	interior := h < len(b) && (b[h] == 2 || b[h] == 5)
	cellArr := h + 8
	if interior {
		cellArr = h + 12
	}
	switch r.Intn(14) {
	case 0:
		put16(16, []uint16{0, 1, 256, 511, 1024, 4096, 32768, 0xffff}[r.Intn(8)])
		return b, "sqlite:page-size"
	case 1:
		put32be(28, []uint32{0, 1, uint32(np - 1), uint32(np + 1), 0xffffffff, 0x7fffffff}[r.Intn(6)])
		return b, "sqlite:page-count"
	case 2:
		put32be(32, somePage())
		put32be(36, []uint32{0, 1, 1000, 0xffffffff}[r.Intn(4)])
		return b, "sqlite:freelist"
	case 3:
		off := []int{18, 19, 20, 21, 22, 23, 44, 47, 52, 56, 59, 64}[r.Intn(12)]
		b[off] = byte(r.Intn(256))
		return b, "sqlite:header-byte"
	case 4:
		if h < len(b) {
			b[h] = []byte{0, 2, 5, 10, 13, 1, 0xff}[r.Intn(7)]
		}
		return b, "sqlite:page-type"
	case 5:
		put16(h+3, []uint16{0, 1, uint16(get16(h+3) + 1), uint16(get16(h+3) - 1), 0xffff, uint16(ps / 2), uint16(ps)}[r.Intn(7)])
		return b, "sqlite:cell-count"
	case 6:
		put16(h+5, []uint16{0, 1, uint16(ps - 1), uint16(ps), 0xffff, 8}[r.Intn(6)])
		return b, "sqlite:content-start"
	case 7:
		put16(h+1, []uint16{1, uint16(h%ps + 1), uint16(ps - 1), uint16(ps - 4), 0xffff, uint16(get16(h + 5))}[r.Intn(6)])
		return b, "sqlite:freeblock"
	case 8:
		if interior {
			put32be(h+8, somePage())
			return b, "sqlite:rightmost-pointer"
		}
		fallthrough
	case 9:
		if n := get16(h + 3); n > 0 {
			put16(cellArr+2*r.Intn(n), []uint16{0, 1, uint16(ps - 1), uint16(ps - 3), uint16(ps), 0xffff, uint16(r.Intn(ps))}[r.Intn(7)])
		}
		return b, "sqlite:cell-pointer"
	case 10, 11:
		// the first bytes of a cell: child page (interior), payload size varint, rowid varint
		if n := get16(h + 3); n > 0 {
			c := p*ps + get16(cellArr+2*r.Intn(n))
			if p == 0 {
				c = get16(cellArr + 2*r.Intn(n))
			}
			if c >= 0 && c+12 <= len(b) {
				switch r.Intn(4) {
				case 0:
					put32be(c, somePage())
				case 1:
					copy(b[c:], []byte{0xff, 0xff, 0xff, 0xff, 0xff, 0xff, 0xff, 0xff, 0xff})
				case 2:
					b[c] = byte(r.Intn(256))
				case 3:
					copy(b[c:], []byte{0x81, 0xff, 0xff, 0x7f})
				}
			}
		}
		return b, "sqlite:cell-head"
	case 12:
		// an overflow page: its first four bytes are the next page of the chain
		for try := 0; try < 8; try++ {
			q := 1 + r.Intn(np-1+1)
			if q < np && b[q*ps] != 2 && b[q*ps] != 5 && b[q*ps] != 10 && b[q*ps] != 13 {
				put32be(q*ps, []uint32{uint32(q + 1), uint32(q), somePage()}[r.Intn(3)])
				break
			}
		}
		return b, "sqlite:overflow-next"
	default:
		c := []int{100, ps, ps + 1, (np - 1) * ps, len(b) - 1, len(b) - ps/2}[r.Intn(6)]
		if c > 0 && c < len(b) {
			b = b[:c]
		}
		return b, "sqlite:truncate"
	}
}
