package c06

import (
	"errors"
	"fmt"
	"io"
	"io/fs"
	"strings"

	"github.com/quay/claircore/pkg/tarfs"
	"github.com/quay/claircore/verifharness/internal/hx"
)

// ---- tarfs: opening members through links ----

// opLinks builds the archive the spec describes (members l0, l1, ... at the
// root: r regular file, s<i> symbolic link to l<i>, h<i> hard link to l<i>; an
// index past the last member is a name the archive does not have), opens every
// member and reads what opens.
func (h *harness) opLinks(spec string, how string) {
	ks := strings.Split(spec, ".")
	name := func(i int) string {
		if i >= len(ks) {
			return "missing"
		}
		return fmt.Sprintf("l%d", i)
	}
	var tar []byte
	for i, k := range ks {
		var t int
		switch k[0] {
		case 'r':
			tar = append(tar, rawTarFile(name(i), []byte("x"))...)
		case 's':
			fmt.Sscanf(k[1:], "%d", &t)
			tar = append(tar, rawTarHeader(name(i), '2', 0, name(t), 0o777)...)
		case 'h':
			fmt.Sscanf(k[1:], "%d", &t)
			tar = append(tar, rawTarHeader(name(i), '1', 0, name(t), 0o644)...)
		}
	}
	tar = append(tar, rawTarEnd()...)
	lr := newLimit(tar, 64*len(ks)*len(ks)+4096)
	out := deadline(func() string {
		sys, err := tarfs.New(lr)
		if err != nil {
			return "err:new"
		}
		outs := make([]string, len(ks))
		for i := range ks {
			f, err := sys.Open(name(i))
			switch {
			case err == nil:
				_, rerr := io.Copy(io.Discard, io.LimitReader(f, 1<<20))
				f.Close()
				outs[i] = "file"
				if rerr != nil {
					outs[i] = "file-unreadable"
				}
			case errors.Is(err, fs.ErrNotExist):
				outs[i] = "err:notexist"
			case errors.Is(err, fs.ErrInvalid):
				outs[i] = "err:invalid"
			default:
				outs[i] = "err"
			}
		}
		return strings.Join(outs, ",")
	})
	switch out {
	case "panic":
		h.fail("", "tarfs-open-panic links="+spec+" tar="+hx.Hex(tar))
	case "hang":
		h.fail("", fmt.Sprintf("tarfs-open-does-not-terminate (more than %d reads, or no answer within 30 s, for %d members) links=%s tar=%s", lr.limit, len(ks), spec, hx.Hex(tar)))
	}
	h.r.Count("links:" + how)
	for _, o := range strings.Split(out, ",") {
		h.r.Count("links-out:" + o)
	}
	h.r.Op("links "+spec, out, strings.Contains(out, "err:invalid") || strings.Contains(out, "file"))
}

func (h *harness) linksStream() {
	r := h.rnd
	kind := func(n int) string {
		t := r.Intn(n + 2)
		switch r.Intn(5) {
		case 0:
			return "r"
		case 1, 2:
			return fmt.Sprintf("s%d", t)
		default:
			return fmt.Sprintf("h%d", t)
		}
	}
	for i, n := 0, h.cfg.N(400, 12000); i < n && !h.r.Stop(); i++ {
		var ks []string
		how := "random"
		m := 1 + r.Intn(10)
		switch r.Intn(6) {
		case 0:
			// one long chain of one kind of link, ending in a file, in a loop,
			// or in a name that is not there
			how = "chain"
			m = 2 + r.Intn(40)
			c := "s"
			if r.Chance(1, 2) {
				c = "h"
			}
			for k := 0; k < m-1; k++ {
				ks = append(ks, fmt.Sprintf("%s%d", c, k+1))
			}
			ks = append(ks, []string{"r", fmt.Sprintf("%s%d", c, r.Intn(m)), fmt.Sprintf("%s%d", c, m)}[r.Intn(3)])
			if r.Chance(1, 2) {
				// the same chain written backwards (every link's target comes first)
				for a, z := 0, len(ks)-1; a < z; a, z = a+1, z-1 {
					ks[a], ks[z] = ks[z], ks[a]
				}
				for k := range ks {
					if ks[k] != "r" {
						var t int
						fmt.Sscanf(ks[k][1:], "%d", &t)
						if t < m {
							t = m - 1 - t
						}
						ks[k] = fmt.Sprintf("%c%d", ks[k][0], t)
					}
				}
			}
		case 1:
			// chains that alternate between the two kinds of link
			how = "mixed-chain"
			m = 2 + r.Intn(20)
			for k := 0; k < m-1; k++ {
				ks = append(ks, fmt.Sprintf("%c%d", "sh"[r.Intn(2)], k+1))
			}
			ks = append(ks, []string{"r", fmt.Sprintf("s%d", r.Intn(m)), "h0"}[r.Intn(3)])
		default:
			for k := 0; k < m; k++ {
				ks = append(ks, kind(m))
			}
		}
		h.opLinks(strings.Join(ks, "."), how)
	}
}
