package c06

// The race-detector pass of the search half.
//
// Scanners of one layer run concurrently in the indexer and share the layer's
// tarfs.FS, the scanner values and package-level caches. Unsynchronised access
// to shared state is a crash waiting for the right interleaving ("fatal error:
// concurrent map writes" cannot be recovered), and the plain concurrent calls
// of the search meet that interleaving only now and then. A worker built with
// -race reports the unsynchronised pair whenever both accesses happen at all,
// whatever the interleaving, and exits; the layer is the failing input.
//
// The instrumented worker is this same program, built at run time from the
// harness sources against the same repository tree the harness was built
// against. Where that is not possible (no cgo toolchain, sources moved) the
// pass is skipped and the evidence notes say so; the verdict then rests on the
// plain concurrent calls.

import (
	"bytes"
	"context"
	"errors"
	"fmt"
	"os"
	"os/exec"
	"path/filepath"
	"runtime"
	"runtime/debug"
	"strings"
	"time"

	"github.com/quay/claircore/verifharness/internal/hx"
)

type raceBuild struct {
	exe  string
	dir  string // to remove afterwards
	err  error
	took time.Duration
}

func buildRaceWorker(cfg hx.Config) (rb raceBuild) {
	t0 := time.Now()
	defer func() { rb.took = time.Since(t0) }()
	if os.Getenv("C06_NO_RACE") == "1" {
		return raceBuild{err: errors.New("disabled by C06_NO_RACE=1")}
	}
	_, self, _, ok := runtime.Caller(0)
	if !ok {
		return raceBuild{err: errors.New("no source path in the binary")}
	}
	goDir := filepath.Dir(filepath.Dir(filepath.Dir(self)))
	if _, err := os.Stat(filepath.Join(goDir, "cmd", "c06", "main.go")); err != nil {
		return raceBuild{err: fmt.Errorf("harness sources not found at %s", goDir)}
	}
	// The repository tree this binary was built against.
	repo := ""
	if bi, ok := debug.ReadBuildInfo(); ok {
		for _, d := range bi.Deps {
			if d.Path == "github.com/quay/claircore" && d.Replace != nil {
				repo = d.Replace.Path
			}
		}
	}
	if repo == "" {
		return raceBuild{err: errors.New("build info does not name the claircore tree")}
	}
	args := []string{"build", "-race", "-tags", "verif"}
	base, err := os.ReadFile(filepath.Join(goDir, "go.mod"))
	if err != nil {
		return raceBuild{err: err}
	}
	if !strings.Contains(string(base), "=> "+repo+"\n") {
		// A scratch tree: ./check wrote a go.mod with the replaced paths next to
		// the harness binary.
		exe, err := os.Executable()
		if err != nil {
			return raceBuild{err: err}
		}
		mod := filepath.Join(filepath.Dir(exe), "go.alt.mod")
		b, err := os.ReadFile(mod)
		if err != nil || !strings.Contains(string(b), "=> "+repo+"\n") {
			return raceBuild{err: fmt.Errorf("no go.mod for the tree %s", repo)}
		}
		args = append(args, "-modfile="+mod)
	}
	dir, err := os.MkdirTemp("", "c06-race-")
	if err != nil {
		return raceBuild{err: err}
	}
	out := filepath.Join(dir, "worker_race")
	args = append(args, "-o", out, "./cmd/c06")
	limit := 150 * time.Second
	if cfg.Thorough() {
		limit = 600 * time.Second
	}
	ctx, cancel := context.WithTimeout(context.Background(), limit)
	defer cancel()
	cmd := exec.CommandContext(ctx, "go", args...)
	cmd.Dir = goDir
	cmd.Env = append(os.Environ(), "CGO_ENABLED=1")
	var msg bytes.Buffer
	cmd.Stdout, cmd.Stderr = &msg, &msg
	if err := cmd.Run(); err != nil {
		os.RemoveAll(dir)
		return raceBuild{err: fmt.Errorf("go build -race: %v: %s", err, oneLine(msg.String(), 300))}
	}
	return raceBuild{exe: out, dir: dir}
}

// raceJobs lists what the instrumented workers evaluate: the regression
// witnesses, the tar oddities, layers with directories behind symbolic links
// and a share of the ordinary generated layers.
func (h *harness) raceJobs() []job {
	o := lyOpts{big: h.cfg.Thorough()}
	var jobs []job
	jobs = append(jobs, job{func(*hx.Rand) genLayer {
		return genLayer{blob: warmupLayer(), recipe: "warm-up layer (one well-formed file of every kind)", kinds: []string{"warm-up"}, muts: []string{"none"}, concurrent: true}
	}})
	for _, w := range witnesses {
		w := w
		if w.name == deflateBombWitness {
			continue
		}
		jobs = append(jobs, job{func(*hx.Rand) genLayer {
			return genLayer{blob: w.build(), recipe: "witness:" + w.name, kinds: []string{"witness"}, muts: []string{"witness:" + w.name}, concurrent: true}
		}})
	}
	for i, n := 0, h.cfg.N(1, 6)*len(oddities); i < n; i++ {
		i := i
		jobs = append(jobs, job{func(r *hx.Rand) genLayer {
			g := genOddityLayer(r, i)
			g.concurrent = true
			return g
		}})
	}
	for i, n := 0, h.cfg.N(130, 2000); i < n; i++ {
		jobs = append(jobs, job{func(r *hx.Rand) genLayer {
			oo := o
			oo.wellFormed = r.Chance(1, 2)
			oo.symlinkDirs = r.Chance(2, 3)
			g := genRandomLayer(r, oo)
			g.concurrent = true
			return g
		}})
	}
	return jobs
}

func (h *harness) raceStream(built <-chan raceBuild) {
	rb := <-built
	if rb.dir != "" {
		defer os.RemoveAll(rb.dir)
	}
	if rb.err != nil {
		h.r.Notes["race_detector_pass"] = "skipped: " + oneLine(rb.err.Error(), 400)
		h.r.Count("race:skipped")
		return
	}
	if h.r.Stop() {
		h.r.Notes["race_detector_pass"] = "skipped: the search already has its failures"
		return
	}
	p, err := newPoolOf(rb.exe, true)
	if err != nil {
		// An instrumented worker that cannot even come up: when the detector
		// spoke, that is a finding about the scanners' construction; else the
		// environment.
		if strings.Contains(err.Error(), "DATA RACE") {
			h.fail("", "race-detector-worker-died-while-constructing-the-scanners "+oneLine(err.Error(), 400))
		}
		h.r.Notes["race_detector_pass"] = "skipped: " + oneLine(err.Error(), 400)
		return
	}
	defer p.close()
	s := &searchState{h: h, p: p, race: true, stats: map[string]*allocStat{}, dumped: map[string]bool{}}
	jobs := h.raceJobs()
	s.runJobs(jobs, hx.NewRand(h.cfg.Seed^0x7ace))
	note := fmt.Sprintf("%d layers, every scanner at once and indexer.LayerScanner.Scan, in workers built with -race", len(jobs))
	if err := p.failed(); err != nil {
		note += "; stopped early: " + oneLine(err.Error(), 300)
	}
	h.r.Notes["race_detector_pass"] = note
}
