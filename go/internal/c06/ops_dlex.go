package c06

import (
	"bytes"
	"fmt"
	"io"
	"strings"
	"unicode"
	"unicode/utf8"

	"github.com/quay/claircore/rhel/dockerfile"
	"github.com/quay/claircore/verifharness/internal/hx"
)

// ---- the Dockerfile lexer (rhel/dockerfile/lex.go) ----

// dlexAlphabet: the code points above Latin-1 whose unicode.IsLetter /
// unicode.IsSpace answer the model knows (Model/DockerLex.lean: isSpace is
// complete, isLetter is exact below U+0100 and for knownLetters).
var dlexAlphabet = map[rune]bool{0x3A9: true, 0x416: true, 0x4E2D: true, 0x2003: true, 0x3000: true, 0x2028: true,
	0x1F600: true, 0x301: true, 0x663: true, 0xFFFD: true, 0x200B: true}

func dlexInAlphabet(b []byte, esc rune) bool {
	if esc >= 0x100 && !dlexAlphabet[esc] {
		return false
	}
	for len(b) > 0 {
		r, n := utf8.DecodeRune(b)
		if r >= 0x100 && !dlexAlphabet[r] {
			return false
		}
		b = b[n:]
	}
	return true
}

// slowReader hands the bytes out in small pieces and aborts a reader that
// keeps asking after the end.
type slowReader struct {
	b     []byte
	chunk int
	eofs  int
}

func (s *slowReader) Read(p []byte) (int, error) {
	if len(s.b) == 0 {
		s.eofs++
		if s.eofs > 64 {
			panic(runaway{})
		}
		return 0, io.EOF
	}
	n := s.chunk
	if n > len(p) {
		n = len(p)
	}
	if n > len(s.b) {
		n = len(s.b)
	}
	copy(p, s.b[:n])
	s.b = s.b[n:]
	return n, nil
}

var dlexKind = map[string]string{"Error": "E", "Comment": "C", "Instruction": "I", "Label": "L", "Arg": "A", "Env": "V", "EOF": "Z"}

// opDlex runs the real lexer to its first EOF or Error item. Direct oracles
// (theorems dlex_items_le, dlex_runes_le): at most one item per rune of the
// input plus one, the values together hold at most as many runes as the
// input, the run ends with EOF or Error.
func (h *harness) opDlex(b []byte, esc rune, how string) {
	nrunes := utf8.RuneCount(b)
	var items []dockerfile.ItemForVerif
	out := deadline(func() string {
		rd := io.Reader(bytes.NewReader(b))
		if len(b)%3 == 1 {
			rd = &slowReader{b: b, chunk: 1 + len(b)%5}
		}
		items = dockerfile.LexForVerif(rd, esc, nrunes+8)
		var sb strings.Builder
		fmt.Fprintf(&sb, "n=%d", len(items))
		for _, it := range items {
			k := dlexKind[it.Kind]
			switch k {
			case "E":
				fmt.Fprintf(&sb, " E:%d", it.Pos)
			case "Z":
				sb.WriteString(" Z")
			default:
				fmt.Fprintf(&sb, " %s:%d:%s", k, it.Pos, hx.Hex([]byte(it.Val)))
			}
		}
		return sb.String()
	})
	wit := fmt.Sprintf("esc=%d how=%s dockerfile=%s", esc, how, hx.Hex(b))
	switch {
	case out == "panic":
		h.fail("", "dockerfile-lexer-panic "+wit)
	case out == "hang":
		h.fail("", "dockerfile-lexer-does-not-return (keeps reading after the end, or no answer within 30 s) "+wit)
	default:
		written := 0
		for _, it := range items {
			if it.Kind != "Error" { // the value of an Error item is a message, not text of the file
				written += utf8.RuneCountInString(it.Val)
			}
		}
		last := ""
		if len(items) > 0 {
			last = items[len(items)-1].Kind
		}
		switch {
		case len(items) > nrunes+1:
			h.fail("", fmt.Sprintf("dockerfile-lexer-more-items-than-runes items=%d runes=%d %s", len(items), nrunes, wit))
		case last != "EOF" && last != "Error":
			h.fail("", fmt.Sprintf("dockerfile-lexer-does-not-end items=%d runes=%d %s", len(items), nrunes, wit))
		case written > nrunes:
			h.fail("", fmt.Sprintf("dockerfile-lexer-writes-more-than-it-reads written-runes=%d runes=%d %s", written, nrunes, wit))
		}
		h.r.Count("dlex-last:" + last)
		for _, it := range items {
			h.r.Count("dlex-item:" + it.Kind)
		}
	}
	for _, m := range strings.Split(how, "+") {
		h.r.Count("dlex:" + m)
	}
	if dlexInAlphabet(b, esc) {
		h.r.Op(fmt.Sprintf("dlex %d %s", esc, hx.Hex(b)), out, len(items) > 1)
	} else {
		h.r.Count("dlex:outside-the-model-alphabet(oracles only)")
		h.r.Case("dlex "+hx.Hex(b), len(items) > 1)
	}
}

// genLexText writes Dockerfile-like text around the constructs the lexer
// distinguishes: instructions, comments, continuations, comment lines inside
// continued lines, CR LF, blank lines, non-ASCII letters and spaces, invalid
// UTF-8.
func genLexText(r *hx.Rand, esc rune) []byte {
	var sb bytes.Buffer
	e := string(esc)
	word := func() string {
		return r.Pick("FROM", "from", "LABEL", "label", "LaBeL", "ENV", "env", "ARG", "arg", "RUN", "COPY", "labelx", "en", "Ωmega", "中", "ÉNV", "x", "a=b", "k=\"v w\"", "$X", "${Y:-z}", "\"q\"", "'s'", "#", "#c", e, e+e, "1", "-", "é", "　", " ", "\U0001F600", "́", "٣", "​", "\xff", "\xc3", "\xe2\x82", "")
	}
	sep := func() string {
		return r.Pick(" ", " ", " ", "\t", "  ", " ", " ", "\v", "\f", "\r", "")
	}
	nl := func() string { return r.Pick("\n", "\n", "\n", "\r\n", "\n\n", "\n \n", "") }
	for i, n := 0, r.Intn(7); i < n; i++ {
		switch r.Intn(9) {
		case 0:
			sb.WriteString("#" + sep() + word() + sep() + word() + nl())
		case 1:
			sb.WriteString("# escape=" + r.Pick("`", "\\", "e", "") + nl())
		case 2: // a continued line, maybe with a comment or blank line inside
			sb.WriteString(word() + sep() + word() + sep() + e + r.Pick("\n", "\r\n", " \n", "\n\n") + r.Pick("", "# inside\n", "  #x\n", "\n") + sep() + word() + nl())
		case 3:
			sb.WriteString(sep() + word() + nl())
		case 4:
			sb.WriteString(word() + sep() + word() + e + word() + e + nl())
		default:
			sb.WriteString(sep() + word())
			for k, m := 0, r.Intn(4); k < m; k++ {
				sb.WriteString(sep() + word())
			}
			sb.WriteString(nl())
		}
	}
	return sb.Bytes()
}

func (h *harness) dlexStream() {
	// the alphabet claim, checked against the unicode tables of this toolchain
	for r := rune(0); r < 0x100; r++ {
		dlexAlphabet[r] = true
	}
	letters := map[rune]bool{0x3A9: true, 0x416: true, 0x4E2D: true}
	for r := range dlexAlphabet {
		if r >= 0x100 && unicode.IsLetter(r) != letters[r] {
			h.r.Notes["dlex_alphabet"] = fmt.Sprintf("unicode.IsLetter(%U) is not what the model assumes: the dlex stream was skipped", r)
			return
		}
	}
	escs := []rune{'\\', '\\', '\\', '`', 'e', '#', '\n', ' ', 0xE9, 0x4E2D, '"', 'L'}
	n := h.cfg.N(900, 30000)
	for i := 0; i < n && !h.r.Stop(); i++ {
		esc := escs[h.rnd.Intn(len(escs))]
		switch h.rnd.Intn(4) {
		case 0:
			b := genDockerfile(h.rnd)
			if h.rnd.Chance(1, 2) {
				var m string
				b, m = mutateText(h.rnd, b, shapeDocker, func() []byte { return genDockerfile(h.rnd) })
				h.opDlex(b, esc, "dockerfile+"+m)
			} else {
				h.opDlex(b, esc, "dockerfile")
			}
		default:
			b := genLexText(h.rnd, esc)
			if h.rnd.Chance(1, 5) {
				var m string
				b, m = mutateBytes(h.rnd, b)
				h.opDlex(b, esc, "lextext+"+m)
			} else {
				h.opDlex(b, esc, "lextext")
			}
		}
	}
}
