package c06

import (
	"fmt"
	"io"
	"io/fs"
	"time"

	"github.com/quay/claircore/pkg/tarfs"
	"github.com/quay/claircore/verifharness/internal/hx"
)

// tarfsAllocBound: bytes tarfs.New + a full walk reading every file may allocate.
// Calibrated on seeds 1..5 of both tiers (Notes["tarfs_alloc_max"] records the
// observed maximum, which stays below 1/8 of this).
func tarfsAllocBound(n int) uint64 { return 256<<10 + 64*uint64(n) }

// opTarfs is an oracle-only evaluation: the whole of tarfs (New = findSegments +
// archive/tar + add/walkTo; then WalkDir, Stat, Open and a full read of every
// regular file) on the same mutated archives as the seg stream, in process.
// Loops that read are caught by the counting reader, loops that do not (add,
// walkTo, Open) by a generous timer.
func (h *harness) opTarfs(b []byte, how string) {
	lr := newLimit(b, 64*(len(b)/512+2)+4096)
	type result struct {
		out   string
		alloc uint64
		files int
	}
	done := make(chan result, 1)
	go func() {
		var res result
		res.alloc = allocDuring(func() {
			res.out = guard(func() string {
				sys, err := tarfs.New(lr)
				if err != nil {
					return "err:new"
				}
				werr := fs.WalkDir(sys, ".", func(p string, d fs.DirEntry, err error) error {
					if err != nil {
						return nil // keep walking: errors on single entries are results
					}
					if _, err := fs.Stat(sys, p); err != nil {
						return nil
					}
					// Symlinks are only opened in the child processes of the search: a
					// runaway recursion there is a dead worker, here it would be a dead harness.
					if d.Type().IsRegular() {
						f, err := sys.Open(p)
						if err != nil {
							return nil
						}
						n, _ := io.Copy(io.Discard, io.LimitReader(f, int64(len(b))+1024))
						f.Close()
						if n > int64(len(b))+512 {
							return fmt.Errorf("file %q yields %d bytes from a %d-byte archive", p, n, len(b))
						}
						res.files++
					}
					return nil
				})
				if werr != nil {
					return "bigfile:" + werr.Error()
				}
				return "ok"
			})
		})
		done <- res
	}()
	var res result
	select {
	case res = <-done:
	case <-time.After(20 * time.Second):
		h.fail("", "tarfs-hang (New/WalkDir/Open/read did not return within 20 s) how="+how+" tar="+hx.Hex(b))
		h.r.Case("tarfs "+hx.Hex(b), true)
		return
	}
	switch {
	case res.out == "panic":
		h.fail("", "tarfs-panic (New/WalkDir/Stat/Open/read) how="+how+" tar="+hx.Hex(b))
	case res.out == "hang":
		h.fail("", fmt.Sprintf("tarfs-runaway-reads (more than %d reads of a %d-byte archive) how=%s tar=%s", lr.limit, len(b), how, hx.Hex(b)))
	case len(res.out) > 8 && res.out[:8] == "bigfile:":
		h.fail("", "tarfs-file-larger-than-archive "+res.out[8:]+" how="+how+" tar="+hx.Hex(b))
	case res.alloc > tarfsAllocBound(len(b)):
		h.fail("", fmt.Sprintf("tarfs-allocation-out-of-proportion allocated=%d archive-bytes=%d how=%s tar=%s", res.alloc, len(b), how, hx.Hex(b)))
	}
	if res.alloc > h.tarfsAllocMax {
		h.tarfsAllocMax = res.alloc
		h.r.Notes["tarfs_alloc_max"] = fmt.Sprintf("%d bytes on a %d-byte archive (bound %d)", res.alloc, len(b), tarfsAllocBound(len(b)))
	}
	o := res.out
	if len(o) > 8 {
		o = o[:8]
	}
	h.r.Count("tarfs-out:" + o)
	h.r.Case("tarfs "+hx.Hex(b), res.files > 0 || res.out == "ok")
}
