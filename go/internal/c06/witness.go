package c06

// Regression witnesses of the search half: layers that made Layer.Init or a
// scanner panic, overflow the stack, spin or allocate without bound before the
// corresponding repairs in /repo. They are replayed first on every run; each
// must now come back without panic, crash, hang or disproportionate
// allocation.

import (
	"archive/zip"
	"encoding/binary"
	"fmt"
	"github.com/quay/claircore/verifharness/internal/hx"
	"strings"
)

type witness struct {
	name  string
	build func() []byte
}

// manyPackageJSON is a layer without an rpm database holding n package.json
// files: rpm.FileInstalledByRPM walked the whole layer again for each of them
// (n=3000: 12 s and 1.9 GiB allocated by the nodejs scanner; 60 ms and 23 MiB
// since the file cache remembers "no database").
func manyPackageJSON(n int) func() []byte {
	return func() []byte {
		var b []byte
		for k := 0; k < n; k++ {
			b = append(b, rawTarFile(fmt.Sprintf("usr/lib/node_modules/p%d/package.json", k), []byte(`{"name":"a","version":"1.0.0"}`))...)
		}
		return append(b, rawTarEnd()...)
	}
}

func tarOf(files ...lyFile) []byte {
	var b []byte
	for _, f := range files {
		switch f.typ {
		case 0, '0':
			b = append(b, rawTarFile(f.name, f.body)...)
		default:
			b = append(b, rawTarHeader(f.name, f.typ, 0, f.link, 0o755)...)
		}
	}
	return append(b, rawTarEnd()...)
}

func dockerfileLayer(content string) func() []byte {
	return func() []byte { return tarOf(lyFile{name: "root/buildinfo/Dockerfile-x-1", body: []byte(content)}) }
}

// nestedJar returns a jar nested n deep in stored "javax.jar" members.
func nestedJar(n int) []byte {
	mf := zipMember{name: "META-INF/MANIFEST.MF", body: []byte("Manifest-Version: 1.0\r\n\r\n"), method: zip.Store}
	z := buildZip([]zipMember{{name: "META-INF/", method: zip.Store}, mf}, "")
	for i := 0; i < n; i++ {
		z = buildZip([]zipMember{{name: "META-INF/", method: zip.Store}, mf, {name: "javax.jar", body: z, method: zip.Store}}, "")
	}
	return z
}

func lyingJar(claim uint64) func() []byte {
	return func() []byte {
		z := buildZip([]zipMember{
			{name: "META-INF/", method: zip.Store},
			{name: "META-INF/MANIFEST.MF", body: []byte("Manifest-Version: 1.0\r\n\r\n"), method: zip.Store},
			{name: "x.jar", body: []byte("PK\x03\x04 a 32-byte body of a stored jar"), method: zip.Store, raw: true, claimSize: claim},
		}, "")
		return tarOf(lyFile{name: "app/a.jar", body: z})
	}
}

// tinyRpmHeader is the 28-byte header blob {tagsCt=1, dataSz=4, entry(tag
// 1000, type 4, offset 0, count 1), data 00000001}: a Name tag of integer
// type.
func tinyRpmHeader() []byte {
	return buildRpmHeader([]rpmEntry{{tag: tagName, typ: typInt32, count: 1, data: be32s(1)}}, 0)
}

// bdbWithChain builds a 512-byte-page bdb whose only item points at an
// overflow chain starting at page "first"; page 2 is an overflow page whose
// next link is "next"; page 3 is a hash page (a non-overflow page).
func bdbWithChain(first, next uint32) []byte {
	le := binary.LittleEndian
	const ps = 512
	b := make([]byte, 4*ps)
	le.PutUint32(b[12:], 0x00061561)
	le.PutUint32(b[16:], 9)
	le.PutUint32(b[20:], ps)
	b[25] = 8
	le.PutUint32(b[32:], 3)
	p := b[ps : 2*ps]
	le.PutUint32(p[8:], 1)
	p[25] = 13
	le.PutUint16(p[20:], 2)
	key, data := ps-5, ps-20
	p[key] = 1
	p[data] = 3
	le.PutUint32(p[data+4:], first)
	le.PutUint32(p[data+8:], 28)
	le.PutUint16(p[26:], uint16(key))
	le.PutUint16(p[28:], uint16(data))
	le.PutUint16(p[22:], uint16(data))
	o := b[2*ps : 3*ps]
	le.PutUint32(o[8:], 2)
	o[25] = 7
	le.PutUint32(o[16:], next)
	le.PutUint16(o[22:], 28)
	copy(o[26:], tinyRpmHeader())
	h := b[3*ps:]
	le.PutUint32(h[8:], 3)
	h[25] = 13
	return b
}

// paxRecords is an extended header member holding the records.
func paxRecords(kv ...string) []byte {
	var body []byte
	for i := 0; i+1 < len(kv); i += 2 {
		n := len(kv[i]) + len(kv[i+1]) + 3
		l := len(fmt.Sprint(n))
		if len(fmt.Sprint(n+l)) > l {
			l++
		}
		body = append(body, fmt.Sprintf("%d %s=%s\n", n+l, kv[i], kv[i+1])...)
	}
	x := rawTarHeader("PaxHeaders.0/x", 'x', int64(len(body)), "", 0o644)
	x = append(x, body...)
	return append(x, make([]byte, (512-len(body)%512)%512)...)
}

func rpmLayer(path string, db func() []byte) func() []byte {
	return func() []byte { return tarOf(lyFile{name: path, body: db()}) }
}

// The listed finding jar-deflate-bomb: java/jar buffers every nested jar member
// whole, whatever it inflates to. Its witness is replayed on every run and
// reported with KnownSeen (see searchState.record).
const (
	deflateBombWitness = "jar-deflate-bomb-64MiB"
	deflateBombFinding = "jar-deflate-bomb"
)

var witnesses = []witness{
	{deflateBombWitness, func() []byte {
		z := buildZip([]zipMember{
			{name: "META-INF/", method: zip.Store},
			{name: "META-INF/MANIFEST.MF", body: []byte("Manifest-Version: 1.0\r\n\r\n"), method: zip.Store},
			{name: "x.jar", body: make([]byte, 64<<20), method: zip.Deflate},
		}, "")
		return tarOf(lyFile{name: "app/a.jar", body: z})
	}},
	// (a) findSegments did not terminate on a negative base-256 size
	{"tar-size-base256-minus512", func() []byte {
		return append(rawTarHeader("etc/os-release", '0', -512, "", 0o644), rawTarEnd()...)
	}},
	// (b) stack overflow in tarfs.Open through the osrelease scanner
	{"tar-symlink-loop-os-release", func() []byte {
		return tarOf(lyFile{name: "a", typ: '2', link: "b"}, lyFile{name: "b", typ: '2', link: "a"}, lyFile{name: "etc/os-release", typ: '2', link: "/a"})
	}},
	{"tar-symlink-loop-os-release-relative", func() []byte {
		return tarOf(lyFile{name: "a", typ: '2', link: "b"}, lyFile{name: "b", typ: '2', link: "a"}, lyFile{name: "etc/os-release", typ: '2', link: "../a"})
	}},
	// (c) tarfs.add did not terminate
	{"tar-symlink-self-then-file", func() []byte {
		return tarOf(lyFile{name: "a", typ: '2', link: "a"}, lyFile{name: "a", body: []byte("x")})
	}},
	// (d) makeslice panic in the apk scanner through fs.ReadFile
	{"tar-apk-size-2^62-no-data", func() []byte {
		h := rawTarHeader("lib/apk/db/installed", '0', 1<<62, "", 0o644)
		copy(h[257:265], "ustar  \x00")
		rawTarChecksum(h)
		return h
	}},
	// (d') the same through a PAX size record: the ustar size field says 0
	{"tar-pax-size-record-2^63-1", func() []byte {
		body := []byte("28 size=9223372036854775807\n")
		x := rawTarHeader("x", 'x', int64(len(body)), "", 0o644)
		x = append(x, body...)
		x = append(x, make([]byte, 512-len(body))...)
		return append(x, rawTarHeader("etc/os-release", '0', 0, "", 0o644)...)
	}},
	// (e) dpkg glob panic
	{"dpkg-dir-with-bracket", func() []byte {
		return tarOf(lyFile{name: "a[/", typ: '5'}, lyFile{name: "a[/info/", typ: '5'}, lyFile{name: "a[/status", body: []byte("Package: a\nStatus: install ok installed\nVersion: 1\nArchitecture: all\n\n")})
	}},
	// (e') dpkg parseStatus restarted forever on a read error: the PAX size of
	// the status file is larger than its data
	{"dpkg-status-pax-size-over-data", func() []byte {
		status := []byte("Package: a\nStatus: install ok installed\nVersion: 1\nArchitecture: all\n\n")
		return cat(rawTarHeader("var/lib/dpkg/", '5', 0, "", 0o755), rawTarHeader("var/lib/dpkg/info/", '5', 0, "", 0o755),
			paxRecords("size", "600"), rawTarFile("var/lib/dpkg/status", status), rawTarEnd())
	}},
	// (f) apk scanner line[2:] panic
	{"apk-lone-newline", func() []byte { return tarOf(lyFile{name: "lib/apk/db/installed", body: []byte("\n")}) }},
	{"apk-short-lines", func() []byte { return tarOf(lyFile{name: "lib/apk/db/installed", body: []byte("P:a\n\n\nV:1\n")}) }},
	// (g) rhel/dockerfile
	{"dockerfile-label-no-value", dockerfileLayer("LABEL foo\n")},
	{"dockerfile-env-no-value", dockerfileLayer("ENV foo\n")},
	{"dockerfile-escape-at-buffer-end-key", dockerfileLayer("LABEL " + strings.Repeat("a", 127) + "\\b=1\n")},
	{"dockerfile-escape-at-buffer-end-value", dockerfileLayer("LABEL k=" + strings.Repeat("a", 127) + "\\x\n")},
	{"dockerfile-exponential-expansion", func() []byte {
		var sb strings.Builder
		sb.WriteString("ENV v0 A\n")
		for i := 1; i <= 26; i++ {
			fmt.Fprintf(&sb, "ENV v%d ${v%d}${v%d}\n", i, i-1, i-1)
		}
		sb.WriteString("LABEL k ${v26}\n")
		return dockerfileLayer(sb.String())()
	}},
	// (h) java/jar
	{"jar-member-claims-2^33", lyingJar(1 << 33)},
	{"jar-member-claims-2^62", lyingJar(1 << 62)},
	// the manifest was read whole whatever it inflates to (e7cfb6f4)
	{"jar-manifest-deflate-64MiB", func() []byte {
		body := append(make([]byte, 64<<20), '\r', '\n')
		z := buildZip([]zipMember{
			{name: "META-INF/", method: zip.Store},
			{name: "META-INF/MANIFEST.MF", body: body, method: zip.Deflate},
		}, "")
		return tarOf(lyFile{name: "app/a.jar", body: z})
	}},
	{"jar-nested-300", func() []byte { return tarOf(lyFile{name: "app/a.jar", body: nestedJar(300)}) }},
	// (i) rpm databases
	{"bdb-chain-to-non-overflow-page", rpmLayer("var/lib/rpm/Packages", func() []byte { return bdbWithChain(2, 3) })},
	{"bdb-chain-to-itself", rpmLayer("var/lib/rpm/Packages", func() []byte { return bdbWithChain(2, 2) })},
	{"bdb-chain-first-page-0", rpmLayer("var/lib/rpm/Packages", func() []byte { return bdbWithChain(0, 0) })},
	{"bdb-chain-first-page-is-meta", rpmLayer("var/lib/rpm/Packages", func() []byte { return bdbWithChain(1, 0) })},
	{"ndb-empty-header", rpmLayer("usr/lib/sysimage/rpm/Packages.db", func() []byte {
		b := make([]byte, 32)
		copy(b, "RpmP")
		return b
	})},
	// sqlite.Open left the *sql.DB (and its goroutine) open when the file is not a database
	{"sqlite-not-a-database", rpmLayer("var/lib/rpm/rpmdb.sqlite", func() []byte { return []byte("SQLite format 3\x00") })},
	// rpm/sqlite AllHeaders allocated 16 KiB per row (75b6c7c6): 12000 one-byte rows
	{"sqlite-12000-one-byte-rows", rpmLayer("var/lib/rpm/rpmdb.sqlite", func() []byte { return sqliteRows(12000) })},
	// many hash items of a bdb database leading into one overflow chain (the
	// chain walk keeps one file-wide set of linked pages: an error, not work
	// per item)
	{"bdb-fan-in-64KiB-pages", rpmLayer("var/lib/rpm/Packages", func() []byte {
		return bdbFan{pageSz: 65536, nHash: 2, perHash: maxFanItems(65536), chainLen: 4, how: "same-item"}.build()
	})},
	// quadratic rpm.FileInstalledByRPM on layers without an rpm database
	{"many-package-json-3000", manyPackageJSON(3000)},
	// ... and on layers with one: the database is parsed once per layer, not
	// once per candidate file (the files cache is reference counted; a
	// reference that ends with each lookup drops the entry between lookups)
	{"rpm-ndb-and-200-jars-that-take-a-millisecond", func() []byte {
		// the same with candidates whose examination takes long enough for the
		// goroutine that gives a cache reference back to run in between (a
		// 256 KiB manifest, deflated to a few hundred bytes)
		r := hx.NewRand(78)
		var hs [][]byte
		for i := 0; i < 200; i++ {
			hs = append(hs, genRpmHeaderBlob(r))
		}
		b := rawTarFile("usr/lib/sysimage/rpm/Packages.db", buildNdb(hs, 1, false))
		mf := []byte("Manifest-Version: 1.0\r\nImplementation-Title: t\r\nImplementation-Version: 1.0\r\n" + strings.Repeat("X-Pad: "+strings.Repeat("a", 60)+"\r\n", 3800) + "\r\n")
		for k := 0; k < 200; k++ {
			z := buildZip([]zipMember{{name: "META-INF/", method: zip.Store}, {name: "META-INF/MANIFEST.MF", body: mf, method: zip.Deflate}}, "")
			b = append(b, rawTarFile(fmt.Sprintf("opt/app/lib/j%d.jar", k), z)...)
		}
		return append(b, rawTarEnd()...)
	}},
	{"rpm-ndb-and-1500-package-json", func() []byte {
		r := hx.NewRand(77)
		var hs [][]byte
		for i := 0; i < 200; i++ {
			hs = append(hs, genRpmHeaderBlob(r))
		}
		b := rawTarFile("usr/lib/sysimage/rpm/Packages.db", buildNdb(hs, 1, false))
		b = append(b, manyPackageJSON(1500)()...)
		return b
	}},
	{"bdb-name-tag-of-integer-type", rpmLayer("var/lib/rpm/Packages", func() []byte {
		return buildBdb(binary.LittleEndian, 512, [][]byte{tinyRpmHeader()}, false)
	})},
	{"ndb-name-tag-of-integer-type", rpmLayer("usr/lib/sysimage/rpm/Packages.db", func() []byte {
		return buildNdb([][]byte{tinyRpmHeader()}, 1, false)
	})},
}

// witnessesThorough are replayed in the thorough tier only (large).
var witnessesThorough = []witness{
	{"many-package-json-8000", manyPackageJSON(8000)},
}
