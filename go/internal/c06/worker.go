package c06

// The child-process side of the search half.
//
// cmd/c06/main.go is fixed, so the worker mode is entered from an init
// function: a harness binary started with C06_WORKER=1 in its environment
// never reaches main; it serves layers on stdin/stdout and exits.
//
// Frames in both directions are a 4-byte big-endian length and a payload whose
// first byte is the frame type.
//
//	parent -> worker   'L' u16 n, n * u16 scanner index, tar blob
//	worker -> parent   'H' scanner ids, one per line (once, after the warm-up)
//	                   'S' "<idx>"          a call is about to start (-1 = Layer.Init)
//	                   'R' "<idx> <status> <items> <alloc> <leaked goroutines> <message>"
//	                   'D'                  the layer is done
//
// A status is ok, err or panic. The 'S' frame lets the parent name the call
// that was in flight when the process died or stopped answering.
//
// Two more calls follow the scanners in the index space (pseudoCalls): all
// scanners at once on one layer, and the real indexer.LayerScanner.Scan. They
// observe what only concurrency can break: scanners share the layer's tarfs.FS
// and package-level state, and a fatal runtime error (concurrent map access, a
// panic in a scanner goroutine of LayerScanner.Scan) cannot be recovered: the
// worker dies and the parent holds the layer.

import (
	"bufio"
	"bytes"
	"context"
	"crypto/sha256"
	"encoding/binary"
	"encoding/hex"
	"encoding/json"
	"errors"
	"fmt"
	"io"
	"net/http"
	"os"
	"path/filepath"
	"regexp"
	"runtime"
	"runtime/debug"
	"sort"
	"strconv"
	"strings"
	"sync"
	"syscall"
	"time"

	"github.com/quay/claircore"
	"github.com/quay/claircore/alpine"
	"github.com/quay/claircore/dpkg"
	"github.com/quay/claircore/gobin"
	"github.com/quay/claircore/indexer"
	"github.com/quay/claircore/java"
	"github.com/quay/claircore/nodejs"
	"github.com/quay/claircore/osrelease"
	"github.com/quay/claircore/python"
	"github.com/quay/claircore/rhel"
	"github.com/quay/claircore/rhel/rhcc"
	"github.com/quay/claircore/rpm"
	"github.com/quay/claircore/ruby"
	"github.com/quay/claircore/scanner/pkgconfig"
	"github.com/quay/claircore/verifharness/internal/hx"
	"github.com/quay/claircore/whiteout"
)

const (
	envWorker    = "C06_WORKER"
	envWorkerDir = "C06_WORKER_DIR"
	// envWorkerRace: the worker binary is built with the race detector (its
	// shadow memory needs the address space: no rlimit, a higher backstop; no
	// warm-up, allocation is not looked at in this mode).
	envWorkerRace = "C06_WORKER_RACE"
	// envWorkerNoWarm: serve without warming up (the parent sends the warm-up
	// layer as a job, because a worker died while warming up).
	envWorkerNoWarm = "C06_WORKER_NOWARM"

	// workerASLimit is the hard address-space limit of a worker: an absurd
	// allocation becomes a crash of the worker instead of hurting the machine.
	workerASLimit = 6 << 30
	// workerSysLimit is the backstop for the same purpose, should the rlimit
	// not take: a sampling goroutine aborts the process past it.
	workerSysLimit = 3 << 30

	layerMediaType = "application/vnd.oci.image.layer.v1.tar"
)

func init() {
	if os.Getenv(envWorker) == "1" {
		workerMain()
		os.Exit(0)
	}
}

// offlineTransport fails every request: the scanners that would talk to the
// network (rhel repository scanner's container API, java's maven search) take
// their error paths.
type offlineTransport struct{}

func (offlineTransport) RoundTrip(*http.Request) (*http.Response, error) {
	return nil, errors.New("c06: offline")
}

// Mapping files of the Red Hat scanners (the keys are what the generators of
// content manifests and Dockerfiles use).
const (
	repo2cpeJSON = `{"data":{` +
		`"rhel-8-for-x86_64-baseos-rpms":{"cpes":["cpe:/o:redhat:enterprise_linux:8::baseos","cpe:/a:redhat:enterprise_linux:8"]},` +
		`"rhel-8-for-x86_64-appstream-rpms":{"cpes":["cpe:/a:redhat:enterprise_linux:8::appstream"]},` +
		`"bad-cpe":{"cpes":["cpe:/a:b:c:d:e:f:g:h:i:j:k:l","notacpe",""]},` +
		`"empty":{"cpes":[]}}}`
	name2reposJSON = `{"data":{"ubi8":["ubi8","ubi8/ubi"],"rhel8/toolbox":["rhel8/toolbox","ubi8/toolbox"],"none":[]}}`
)

func writeWorkerConfig(dir string) error {
	if err := os.WriteFile(filepath.Join(dir, "repo2cpe.json"), []byte(repo2cpeJSON), 0o644); err != nil {
		return err
	}
	return os.WriteFile(filepath.Join(dir, "name2repos.json"), []byte(name2reposJSON), 0o644)
}

func scannerID(s indexer.VersionedScanner) string { return s.Kind() + "/" + s.Name() }

// The calls after the scanners, by offset from len(scanners).
var pseudoCalls = []string{"concurrent/all-scanners", "concurrent/LayerScanner.Scan", "layer/Reader+Files"}

const (
	pseudoFanOut   = 0
	pseudoReal     = 1
	pseudoLayerAPI = 2

	// concurrentProcs is GOMAXPROCS during the concurrent calls (the worker
	// runs everything else on one).
	concurrentProcs = 4
)

func defaultEcosystems(ctx context.Context) []*indexer.Ecosystem {
	noRepo := func(context.Context) ([]indexer.RepositoryScanner, error) { return nil, nil }
	extra := &indexer.Ecosystem{
		Name: "c06-extra",
		PackageScanners: func(context.Context) ([]indexer.PackageScanner, error) {
			return []indexer.PackageScanner{&nodejs.Scanner{}, &pkgconfig.Scanner{}}, nil
		},
		DistributionScanners: func(context.Context) ([]indexer.DistributionScanner, error) {
			return []indexer.DistributionScanner{&osrelease.Scanner{}}, nil
		},
		RepositoryScanners: noRepo,
	}
	return []*indexer.Ecosystem{
		dpkg.NewEcosystem(ctx),
		alpine.NewEcosystem(ctx),
		rhel.NewEcosystem(ctx),
		rpm.NewEcosystem(ctx),
		python.NewEcosystem(ctx),
		java.NewEcosystem(ctx),
		rhcc.NewEcosystem(ctx),
		gobin.NewEcosystem(ctx),
		ruby.NewEcosystem(ctx),
		whiteout.NewEcosystem(ctx),
		extra,
	}
}

func scannerConfigs(dir string) map[string]string {
	return map[string]string{
		"repository/rhel-repository-scanner": fmt.Sprintf(`{"repo2cpe_mapping_file":%q,"api":"http://c06.invalid/api/","timeout":2000000000}`, filepath.Join(dir, "repo2cpe.json")),
		"package/rhel_containerscanner":      fmt.Sprintf(`{"name2repos_mapping_file":%q,"timeout":2000000000}`, filepath.Join(dir, "name2repos.json")),
		"package/java":                       `{"api":"http://c06.invalid/solrsearch/select","api_request_timeout":2000000000}`,
	}
}

// nullStore is the indexer.Store handed to the real LayerScanner: nothing is
// ever scanned already, everything indexed is counted and dropped. The methods
// LayerScanner does not call are those of the embedded nil interface.
type nullStore struct {
	indexer.Store
	mu      sync.Mutex
	indexed int
	set     int
}

func (s *nullStore) count(n int) error {
	s.mu.Lock()
	s.indexed += n
	s.mu.Unlock()
	return nil
}

func (s *nullStore) LayerScanned(context.Context, claircore.Digest, indexer.VersionedScanner) (bool, error) {
	return false, nil
}

func (s *nullStore) SetLayerScanned(context.Context, claircore.Digest, indexer.VersionedScanner) error {
	s.mu.Lock()
	s.set++
	s.mu.Unlock()
	return nil
}

func (s *nullStore) IndexPackages(_ context.Context, v []*claircore.Package, _ *claircore.Layer, _ indexer.VersionedScanner) error {
	return s.count(len(v))
}

func (s *nullStore) IndexDistributions(_ context.Context, v []*claircore.Distribution, _ *claircore.Layer, _ indexer.VersionedScanner) error {
	return s.count(len(v))
}

func (s *nullStore) IndexRepositories(_ context.Context, v []*claircore.Repository, _ *claircore.Layer, _ indexer.VersionedScanner) error {
	return s.count(len(v))
}

func (s *nullStore) IndexFiles(_ context.Context, v []claircore.File, _ *claircore.Layer, _ indexer.VersionedScanner) error {
	return s.count(len(v))
}

// buildLayerScanner constructs the real indexer.LayerScanner over the same
// ecosystems and configuration.
func buildLayerScanner(ctx context.Context, dir string, store indexer.Store, concurrent int) (*indexer.LayerScanner, error) {
	opts := &indexer.Options{
		Client:     &http.Client{Transport: offlineTransport{}},
		Store:      store,
		Ecosystems: defaultEcosystems(ctx),
	}
	opts.ScannerConfig.Package = map[string]func(interface{}) error{}
	opts.ScannerConfig.Dist = map[string]func(interface{}) error{}
	opts.ScannerConfig.Repo = map[string]func(interface{}) error{}
	opts.ScannerConfig.File = map[string]func(interface{}) error{}
	for id, c := range scannerConfigs(dir) {
		c := c
		kind, name, _ := strings.Cut(id, "/")
		f := func(v interface{}) error { return json.Unmarshal([]byte(c), v) }
		switch kind {
		case "package":
			opts.ScannerConfig.Package[name] = f
		case "repository":
			opts.ScannerConfig.Repo[name] = f
		case "distribution":
			opts.ScannerConfig.Dist[name] = f
		}
	}
	return indexer.NewLayerScanner(ctx, concurrent, opts)
}

// buildScanners constructs what libindex.New builds by default (the nine
// ecosystems plus whiteout, through indexer.EcosystemsToScanners), plus the
// exported layer scanners that no default ecosystem holds, and configures them
// the way indexer.NewLayerScanner does, fully offline.
func buildScanners(ctx context.Context, dir string) (out []indexer.VersionedScanner, skipped []string) {
	ecos := []*indexer.Ecosystem{
		dpkg.NewEcosystem(ctx),
		alpine.NewEcosystem(ctx),
		rhel.NewEcosystem(ctx),
		rpm.NewEcosystem(ctx),
		python.NewEcosystem(ctx),
		java.NewEcosystem(ctx),
		rhcc.NewEcosystem(ctx),
		gobin.NewEcosystem(ctx),
		ruby.NewEcosystem(ctx),
		whiteout.NewEcosystem(ctx),
	}
	ps, ds, rs, fs, err := indexer.EcosystemsToScanners(ctx, ecos)
	if err != nil {
		return nil, []string{"all: EcosystemsToScanners: " + err.Error()}
	}
	all := []indexer.VersionedScanner(indexer.MergeVS(ps, ds, rs, fs))
	seen := map[string]bool{}
	for _, s := range all {
		seen[scannerID(s)] = true
	}
	for _, s := range []indexer.VersionedScanner{&nodejs.Scanner{}, &osrelease.Scanner{}, &pkgconfig.Scanner{}} {
		if !seen[scannerID(s)] {
			seen[scannerID(s)] = true
			all = append(all, s)
		}
	}
	cfgs := scannerConfigs(dir)
	client := &http.Client{Transport: offlineTransport{}}
	for _, s := range all {
		id := scannerID(s)
		f := func(v interface{}) error {
			if c, ok := cfgs[id]; ok {
				return json.Unmarshal([]byte(c), v)
			}
			return nil
		}
		var err error
		switch c := s.(type) {
		case indexer.RPCScanner:
			err = c.Configure(ctx, f, client)
		case indexer.ConfigurableScanner:
			err = c.Configure(ctx, f)
		}
		if err != nil {
			skipped = append(skipped, id+": Configure: "+oneLine(err.Error(), 200))
			continue
		}
		out = append(out, s)
	}
	return out, skipped
}

func oneLine(s string, max int) string {
	s = strings.Map(func(r rune) rune {
		if r < 0x20 || r == 0x7f {
			return ' '
		}
		return r
	}, strings.ToValidUTF8(s, "?"))
	if len(s) > max {
		s = s[:max] + "..."
	}
	if s == "" {
		return "-"
	}
	return s
}

func writeFrame(w io.Writer, typ byte, payload []byte) error {
	var hdr [5]byte
	binary.BigEndian.PutUint32(hdr[:], uint32(len(payload)+1))
	hdr[4] = typ
	if _, err := w.Write(hdr[:]); err != nil {
		return err
	}
	_, err := w.Write(payload)
	return err
}

func readFrame(r io.Reader) (byte, []byte, error) {
	var hdr [4]byte
	if _, err := io.ReadFull(r, hdr[:]); err != nil {
		return 0, nil, err
	}
	n := binary.BigEndian.Uint32(hdr[:])
	if n == 0 {
		return 0, nil, errors.New("c06: empty frame")
	}
	b := make([]byte, n)
	if _, err := io.ReadFull(r, b); err != nil {
		return 0, nil, err
	}
	return b[0], b[1:], nil
}

// panicSite names the function that panicked: the first frame below the
// runtime's panic machinery, seen from the deferred recover.
func panicSite() string {
	pc := make([]uintptr, 48)
	n := runtime.Callers(3, pc)
	fr := runtime.CallersFrames(pc[:n])
	past := false
	for {
		f, more := fr.Next()
		if strings.HasPrefix(f.Function, "runtime.") {
			past = true
		} else if past && f.Function != "" {
			return fmt.Sprintf("%s(%s:%d)", f.Function, filepath.Base(f.File), f.Line)
		}
		if !more {
			return "?"
		}
	}
}

type callOut struct {
	status string
	items  int
	alloc  uint64
	leaked int // goroutines the call left behind
	stuck  int // ... of which parked where only another goroutine could wake them
	read   uint64
	// maxBlock: the largest number of reads of one 512-byte block of the blob
	maxBlock   uint32
	whichBlock int64
	msg        string
}

// measured runs one call into the library: a collection first, then the bytes
// allocated by the call (runtime.MemStats.TotalAlloc); a panic is recovered
// and becomes the status.
func measured(f func(ctx context.Context) (int, error)) (o callOut) {
	ctx, cancel := context.WithCancel(context.Background())
	base := runtime.NumGoroutine()
	baseIDs := goroutineIDs()
	runtime.GC()
	var m0, m1 runtime.MemStats
	blobStatReset()
	runtime.ReadMemStats(&m0)
	func() {
		defer func() {
			if e := recover(); e != nil {
				o.status = "panic"
				o.msg = oneLine(fmt.Sprint(e), 300) + " at " + panicSite()
			}
		}()
		n, err := f(ctx)
		o.items = n
		if err != nil {
			o.status = "err"
			o.msg = oneLine(err.Error(), 160)
		} else {
			o.status = "ok"
			o.msg = "-"
		}
	}()
	runtime.ReadMemStats(&m1)
	o.alloc = m1.TotalAlloc - m0.TotalAlloc
	o.read, o.maxBlock, o.whichBlock = blobStatTake()
	cancel()
	// Some scanners park goroutines on the context (the rpm file cache): let
	// them finish so that they do not allocate inside the next measurement.
	// What is still there afterwards was left behind by the call.
	for i := 0; i < 250 && runtime.NumGoroutine() > base; i++ {
		if i < 50 {
			runtime.Gosched()
		} else {
			time.Sleep(100 * time.Microsecond)
		}
	}
	if n := runtime.NumGoroutine() - base; n > 0 {
		o.leaked = n
		// Which of them can never finish? A goroutine that is parked on a
		// channel, a select, a lock or a condition after the call has returned
		// and its context is cancelled waits for something nobody will do: it
		// (and what it holds) stays for the life of the process, once per
		// layer. Runnable or sleeping goroutines are on their way out and are
		// not counted. Two dumps with yields in between must agree.
		// Wait until none of the goroutines the call started can still run
		// (a runnable one might be about to wake a parked one); if some keep
		// running there is no verdict.
		var before, after map[string]string
		for round := 0; round < 400; round++ {
			var busy int
			before, busy = blockedGoroutines(baseIDs)
			if busy == 0 {
				break
			}
			before = nil
			runtime.Gosched()
			time.Sleep(time.Millisecond)
		}
		if before != nil {
			for i := 0; i < 100; i++ {
				runtime.Gosched()
			}
			var busy int
			if after, busy = blockedGoroutines(baseIDs); busy != 0 {
				after = nil
			}
		}
		var stuck []string
		for id, where := range after {
			if before[id] == where {
				stuck = append(stuck, where)
			}
		}
		if len(stuck) > 0 {
			sort.Strings(stuck)
			o.stuck = len(stuck)
			o.msg = oneLine(o.msg+" goroutines parked for good: "+strings.Join(stuck, "; "), 300)
		}
	}
	return o
}

var goroutineHeader = regexp.MustCompile(`^goroutine (\d+) \[([^\],]+)`)

// goroutineIDs lists the goroutines alive now.
func goroutineIDs() map[string]bool {
	ids := map[string]bool{}
	for _, g := range strings.Split(allStacks(), "\n\n") {
		if m := goroutineHeader.FindStringSubmatch(g); m != nil {
			ids[m[1]] = true
		}
	}
	return ids
}

func allStacks() string {
	buf := make([]byte, 1<<20)
	for {
		n := runtime.Stack(buf, true)
		if n < len(buf) {
			return string(buf[:n])
		}
		buf = make([]byte, 2*len(buf))
	}
}

// blockedGoroutines maps the id of every goroutine that is not in base and is
// parked in a state only another goroutine can end to the innermost function
// of its stack that is not the runtime's; busy counts the goroutines not in
// base that are in any other state (running, runnable, sleeping, in a system
// call, waiting for I/O).
func blockedGoroutines(base map[string]bool) (out map[string]string, busy int) {
	out = map[string]string{}
	self := goroutineHeader.FindStringSubmatch(allStacksSelf())
	for _, g := range strings.Split(allStacks(), "\n\n") {
		m := goroutineHeader.FindStringSubmatch(g)
		if m == nil || base[m[1]] || (self != nil && m[1] == self[1]) {
			continue
		}
		switch m[2] {
		case "chan receive", "chan send", "select", "semacquire", "sync.Cond.Wait", "sync.Mutex.Lock", "sync.RWMutex.RLock", "sync.RWMutex.Lock", "chan receive (nil chan)", "chan send (nil chan)", "select (no cases)":
		default:
			busy++
			continue
		}
		where := "?"
		lines := strings.Split(g, "\n")
		for i := 1; i < len(lines); i += 2 {
			f := lines[i]
			if !strings.HasPrefix(f, "runtime.") && !strings.HasPrefix(f, "internal/") && !strings.HasPrefix(f, "sync.") {
				if p := strings.LastIndexByte(f, '('); p > 0 {
					f = f[:p]
				}
				where = m[2] + " in " + f
				break
			}
		}
		out[m[1]] = where
	}
	return out, busy
}

// allStacksSelf is the stack of the calling goroutine only.
func allStacksSelf() string {
	buf := make([]byte, 4096)
	return string(buf[:runtime.Stack(buf, false)])
}

func scanWith(s indexer.VersionedScanner, l *claircore.Layer) func(context.Context) (int, error) {
	return func(ctx context.Context) (int, error) {
		switch sc := s.(type) {
		case indexer.PackageScanner:
			v, err := sc.Scan(ctx, l)
			return len(v), err
		case indexer.DistributionScanner:
			v, err := sc.Scan(ctx, l)
			return len(v), err
		case indexer.RepositoryScanner:
			v, err := sc.Scan(ctx, l)
			return len(v), err
		case indexer.FileScanner:
			v, err := sc.Scan(ctx, l)
			return len(v), err
		}
		return 0, errors.New("c06: not a layer scanner")
	}
}

// countingBlob is the layer blob as the library sees it: bytes read are
// counted, and how often each 512-byte block was touched since the last reset
// (a database that is opened again for every candidate file shows as one block
// - its first - read that many times).
type countingBlob struct {
	r *bytes.Reader
}

var blobStat struct {
	mu     sync.Mutex
	read   uint64
	blocks map[int64]uint32
}

func (c countingBlob) ReadAt(p []byte, off int64) (int, error) {
	n, err := c.r.ReadAt(p, off)
	if n > 0 {
		blobStat.mu.Lock()
		blobStat.read += uint64(n)
		if blobStat.blocks == nil {
			blobStat.blocks = map[int64]uint32{}
		}
		for b := off / 512; b <= (off+int64(n)-1)/512; b++ {
			blobStat.blocks[b]++
		}
		blobStat.mu.Unlock()
	}
	return n, err
}

func (c countingBlob) Size() int64 { return c.r.Size() }

func blobReader(blob []byte) countingBlob { return countingBlob{bytes.NewReader(blob)} }

// blobStatReset starts a measurement; blobStatTake ends it: bytes read, and the
// largest number of reads of one block with the block's number.
func blobStatReset() {
	blobStat.mu.Lock()
	blobStat.read, blobStat.blocks = 0, nil
	blobStat.mu.Unlock()
}

func blobStatTake() (read uint64, maxBlock uint32, which int64) {
	blobStat.mu.Lock()
	defer blobStat.mu.Unlock()
	which = -1
	for b, n := range blobStat.blocks {
		if n > maxBlock || (n == maxBlock && b < which) {
			maxBlock, which = n, b
		}
	}
	return blobStat.read, maxBlock, which
}

type workerState struct {
	out      *bufio.Writer
	scanners []indexer.VersionedScanner
	real     *indexer.LayerScanner
	// realDefault is the LayerScanner built with concurrency 0 ("pick a
	// default"), as libindex builds it when the option is not set.
	realDefault *indexer.LayerScanner
	realCalls   int
	store       *nullStore
	// seq is what the sequential run of the current layer answered, by scanner.
	seq map[int]string
}

func (w *workerState) send(typ byte, s string) {
	if err := writeFrame(w.out, typ, []byte(s)); err != nil {
		os.Exit(0) // the parent is gone
	}
	if err := w.out.Flush(); err != nil {
		os.Exit(0)
	}
}

// layer runs Layer.Init and the listed scanners on one blob. With report unset
// (the warm-up) nothing is sent.
func (w *workerState) layer(blob []byte, idx []int, report bool) {
	// The Layer lives in the frame of layerCalls: once that has returned,
	// nothing refers to it and its finalizers (if any were left) can run.
	w.layerCalls(blob, idx, report)
	// What the calls left to the garbage collector is finalized now, while the
	// parent still charges a death of the worker to this layer (a finalizer
	// that panics - a handle that was not closed - cannot be recovered).
	drainFinalizers()
	if report {
		w.send('D', "")
	}
}

//go:noinline
func (w *workerState) layerCalls(blob []byte, idx []int, report bool) {
	sum := sha256.Sum256(blob)
	desc := claircore.LayerDescription{
		Digest:    "sha256:" + hex.EncodeToString(sum[:]),
		URI:       "file:///c06",
		MediaType: layerMediaType,
	}
	var l claircore.Layer
	if report {
		w.send('S', "-1")
	}
	o := measured(func(ctx context.Context) (int, error) {
		return 0, l.Init(ctx, &desc, blobReader(blob))
	})
	if report {
		w.send('R', fmt.Sprintf("-1 %s 0 %d %d/%d %d/%d/%d %s", o.status, o.alloc, o.leaked, o.stuck, o.read, o.maxBlock, o.whichBlock, o.msg))
	}
	if o.status == "ok" {
		w.seq = map[int]string{}
		for _, i := range idx {
			if i < 0 || i >= len(w.scanners)+len(pseudoCalls) {
				continue
			}
			if report {
				w.send('S', strconv.Itoa(i))
			}
			var o callOut
			switch i - len(w.scanners) {
			case pseudoFanOut:
				o = w.fanOut(blob, &desc)
			case pseudoReal:
				o = w.realScan(blob, &desc)
			case pseudoLayerAPI:
				o = measured(layerAPI(&l, blob))
			default:
				o = measured(scanWith(w.scanners[i], &l))
				w.seq[i] = fmt.Sprintf("%s/%d", o.status, o.items)
			}
			if report {
				w.send('R', fmt.Sprintf("%d %s %d %d %d/%d %d/%d/%d %s", i, o.status, o.items, o.alloc, o.leaked, o.stuck, o.read, o.maxBlock, o.whichBlock, o.msg))
			}
		}
		func() {
			defer func() { recover() }()
			l.Close()
		}()
	}
}

// fanOut runs every scanner at once, twice: on two Layer values opened from
// the same blob (what two manifests sharing a layer look like to the scanners:
// the same scanner values, the same layer digest, different tarfs.FS), all
// goroutines released together. Every goroutine recovers its own panic, so a
// panic names its scanner; a fatal runtime error kills the worker. items is
// the number of scans that returned; the message lists the scanners whose
// answer differs from the sequential run of the same layer.
func (w *workerState) fanOut(blob []byte, desc *claircore.LayerDescription) callOut {
	prev := runtime.GOMAXPROCS(concurrentProcs)
	defer runtime.GOMAXPROCS(prev)
	return measured(func(ctx context.Context) (int, error) {
		var ls [2]claircore.Layer
		for k := range ls {
			if err := ls[k].Init(ctx, desc, blobReader(blob)); err != nil {
				return 0, fmt.Errorf("second Init of the same blob failed: %w", err)
			}
			defer ls[k].Close()
		}
		type res struct {
			out   string
			panic string
		}
		results := make([]res, 2*len(w.scanners))
		start := make(chan struct{})
		var wg sync.WaitGroup
		for k := range ls {
			for i, s := range w.scanners {
				wg.Add(1)
				go func(slot int, s indexer.VersionedScanner, l *claircore.Layer) {
					defer wg.Done()
					defer func() {
						if e := recover(); e != nil {
							results[slot].panic = oneLine(fmt.Sprint(e), 200) + " at " + panicSite()
						}
					}()
					<-start
					n, err := scanWith(s, l)(ctx)
					st := "ok"
					if err != nil {
						st = "err"
					}
					results[slot].out = fmt.Sprintf("%s/%d", st, n)
				}(k*len(w.scanners)+i, s, &ls[k])
			}
		}
		close(start)
		wg.Wait()
		done := 0
		var diff []string
		for slot, r := range results {
			i := slot % len(w.scanners)
			if r.panic != "" {
				panic(fmt.Sprintf("scanner %s running concurrently with the others: %s", scannerID(w.scanners[i]), r.panic))
			}
			done++
			if want, ok := w.seq[i]; ok && want != r.out && slot < len(w.scanners) {
				diff = append(diff, fmt.Sprintf("%s:%s!=%s", scannerID(w.scanners[i]), r.out, want))
			}
		}
		if len(diff) > 0 {
			return done, fmt.Errorf("differs-from-sequential %s", strings.Join(diff, ","))
		}
		return done, nil
	})
}

// layerAPI exercises the rest of layer.go on an initialised layer: Reader must
// hand the blob back, Files (deprecated, still exported) resolves the paths the
// scanners know through links and reads them whole, a second Init is refused.
func layerAPI(l *claircore.Layer, blob []byte) func(context.Context) (int, error) {
	return func(ctx context.Context) (int, error) {
		rd, err := l.Reader()
		if err != nil {
			return 0, err
		}
		h := sha256.New()
		n, err := io.Copy(h, io.LimitReader(rd, int64(len(blob))+1))
		rd.Close()
		if err != nil {
			return 0, err
		}
		if want := sha256.Sum256(blob); n != int64(len(blob)) || !bytes.Equal(h.Sum(nil), want[:]) {
			return 0, fmt.Errorf("Layer.Reader returned %d bytes that are not the blob (%d bytes)", n, len(blob))
		}
		if err := l.Init(ctx, &claircore.LayerDescription{Digest: l.Hash.String(), MediaType: layerMediaType}, bytes.NewReader(blob)); err == nil {
			return 0, errors.New("a second Layer.Init was accepted")
		}
		paths := make([]string, 0, 2*len(scannerPaths))
		for _, p := range scannerPaths {
			paths = append(paths, p, "/./"+p)
		}
		m, err := l.Files(paths...)
		if errors.Is(err, claircore.ErrNotFound) {
			return 0, nil
		}
		return len(m), err
	}
}

// realScan is indexer.LayerScanner.Scan on the layer, as the indexer calls it
// (scanner panics are not recovered there: they take the worker down).
func (w *workerState) realScan(blob []byte, desc *claircore.LayerDescription) callOut {
	if w.real == nil {
		return callOut{status: "err", msg: "no LayerScanner"}
	}
	prev := runtime.GOMAXPROCS(concurrentProcs)
	defer runtime.GOMAXPROCS(prev)
	return measured(func(ctx context.Context) (int, error) {
		var l claircore.Layer
		if err := l.Init(ctx, desc, blobReader(blob)); err != nil {
			return 0, fmt.Errorf("second Init of the same blob failed: %w", err)
		}
		defer l.Close()
		w.store.mu.Lock()
		w.store.indexed, w.store.set = 0, 0
		w.store.mu.Unlock()
		d, err := claircore.ParseDigest(desc.Digest)
		if err != nil {
			return 0, err
		}
		ls := w.real
		if w.realCalls++; w.realCalls%3 == 0 && w.realDefault != nil {
			ls = w.realDefault
		}
		err = ls.Scan(ctx, d, []*claircore.Layer{&l})
		w.store.mu.Lock()
		n := w.store.set
		w.store.mu.Unlock()
		return n, err
	})
}

// drainFinalizers collects twice and waits until the finalizer goroutine has
// worked through what the collections queued (a sentinel queued last).
func drainFinalizers() {
	for round := 0; round < 2; round++ {
		done := make(chan struct{})
		x := new([64]byte)
		runtime.SetFinalizer(x, func(*[64]byte) { close(done) })
		x = nil
		runtime.GC()
		select {
		case <-done:
		case <-time.After(200 * time.Millisecond):
		}
	}
}

func workerMain() {
	// Keep the protocol channel private: whatever the libraries print goes to
	// stderr.
	fd, err := syscall.Dup(1)
	if err != nil {
		os.Exit(4)
	}
	syscall.CloseOnExec(fd)
	if err := syscall.Dup3(2, 1, 0); err != nil {
		os.Exit(4)
	}
	w := &workerState{out: bufio.NewWriterSize(os.NewFile(uintptr(fd), "c06-proto"), 1<<16)}
	os.Stdout = os.Stderr
	quiet()
	debug.SetTraceback("single")

	raceMode := os.Getenv(envWorkerRace) == "1"
	sysLimit := uint64(workerSysLimit)
	if raceMode {
		sysLimit = 16 << 30
	} else {
		lim := syscall.Rlimit{Cur: workerASLimit, Max: workerASLimit}
		if err := syscall.Setrlimit(syscall.RLIMIT_AS, &lim); err != nil {
			fmt.Fprintln(os.Stderr, "c06 worker: setrlimit:", err)
		}
	}
	parent := os.Getppid()
	go func() {
		var m runtime.MemStats
		for {
			time.Sleep(200 * time.Millisecond)
			if os.Getppid() != parent {
				os.Exit(0) // the harness is gone (a spinning scanner would not notice the closed pipe)
			}
			runtime.ReadMemStats(&m)
			if m.Sys > sysLimit {
				fmt.Fprintf(os.Stderr, "fatal error: c06 worker: runtime.MemStats.Sys=%d exceeds %d\n", m.Sys, sysLimit)
				os.Exit(2)
			}
		}
	}()

	ctx := context.Background()
	var skipped []string
	w.scanners, skipped = buildScanners(ctx, os.Getenv(envWorkerDir))
	w.store = &nullStore{}
	if ls, err := buildLayerScanner(ctx, os.Getenv(envWorkerDir), w.store, 64); err != nil {
		skipped = append(skipped, "indexer.NewLayerScanner: "+oneLine(err.Error(), 200))
	} else {
		w.real = ls
	}
	if ls, err := buildLayerScanner(ctx, os.Getenv(envWorkerDir), w.store, 0); err == nil {
		w.realDefault = ls
	}
	all := make([]int, len(w.scanners)+len(pseudoCalls))
	ids := make([]string, len(w.scanners)+len(pseudoCalls))
	for i, s := range w.scanners {
		ids[i] = scannerID(s)
	}
	for i := range all {
		all[i] = i
	}
	copy(ids[len(w.scanners):], pseudoCalls)
	// Warm-up: one well-formed layer holding a file for every scanner, twice,
	// so that lazily built tables are not charged to the first layer served.
	warm := warmupLayer()
	if os.Getenv(envWorkerNoWarm) == "1" {
		// nothing
	} else if raceMode {
		// One sequential pass only: libraries initialise themselves on first
		// use (modernc.org/sqlite's sqlite3MutexInit copies a method table
		// without synchronisation, tolerated by SQLite's design and reported by
		// the detector when two scanners open their first database at the same
		// moment). The concurrent calls are served to the parent, which holds
		// the layer.
		seq := make([]int, len(w.scanners))
		for i := range seq {
			seq[i] = i
		}
		w.layer(warm, seq, false)
	} else {
		w.layer(warm, all, false)
		w.layer(warm, all, false)
	}

	hello := strings.Join(ids, "\n")
	if len(skipped) > 0 {
		hello += "\n\n" + strings.Join(skipped, "\n")
	}
	w.send('H', hello)

	in := bufio.NewReaderSize(os.Stdin, 1<<16)
	for {
		typ, p, err := readFrame(in)
		if err != nil {
			return
		}
		if typ != 'L' || len(p) < 2 {
			continue
		}
		n := int(binary.BigEndian.Uint16(p))
		if len(p) < 2+2*n {
			continue
		}
		idx := make([]int, n)
		for i := range idx {
			idx[i] = int(binary.BigEndian.Uint16(p[2+2*i:]))
		}
		w.layer(p[2+2*n:], idx, true)
	}
}

// warmupLayer is a fixed well-formed layer with one file of every kind.
func warmupLayer() []byte {
	r := hx.NewRand(0)
	var files []lyFile
	for _, g := range partGens {
		if g.name == "gobin-exe" {
			continue
		}
		p := g.gen(r, lyOpts{wellFormed: true})
		files = append(files, p.files...)
	}
	return lyTar(r, files, true)
}
