package c14

import (
	"context"
	"fmt"
	"math"
	"os"
	"strings"

	"github.com/quay/claircore"
	"github.com/quay/claircore/aws"
	"github.com/quay/claircore/debian"
	"github.com/quay/claircore/oracle"
	"github.com/quay/claircore/photon"
	"github.com/quay/claircore/rhel"
	"github.com/quay/claircore/suse"
	"github.com/quay/claircore/toolkit/types/cvss"
	"github.com/quay/claircore/ubuntu"
	"github.com/quay/claircore/updater/osv"
	"github.com/quay/claircore/verifharness/internal/extract"
	"github.com/quay/claircore/verifharness/internal/hx"
)

type sevSource struct {
	name string // model name
	doc  string // heading in severity_mapping.md
	fold bool   // documented strings are matched case-insensitively by the code
	f    func(string) claircore.Severity
}

var sevSources = []sevSource{
	{"debian", "Debian Mapping", true, debian.NormalizeSeverityForC14},
	{"ubuntu", "Ubuntu Mapping", false, ubuntu.NormalizeSeverityForC14},
	{"oracle", "Oracle Mapping", false, oracle.NormalizeSeverity},
	{"suse", "SUSE Mapping", false, suse.NormalizeSeverity},
	{"photon", "Photon Mapping", false, photon.NormalizeSeverity},
	{"aws", "AWS Mapping", false, aws.NormalizeSeverity},
	{"rhel", "RHEL Mapping", true, rhel.NormalizeSeverityForC14},
	{"osvdb", "database_specific", true, osv.SeverityFromDBStringForC14},
}

func repoRoot() string {
	if p := os.Getenv("VERIF_REPO"); p != "" {
		return p
	}
	return "/repo"
}

// caseVariants: the string, lower, upper, title, alternating case, and with the
// three non-ASCII runes Go's case mapping sends to ASCII letters.
func caseVariants(s string) []string {
	alt := []rune(strings.ToLower(s))
	for i := range alt {
		if i%2 == 0 && alt[i] >= 'a' && alt[i] <= 'z' {
			alt[i] -= 32
		}
	}
	title := strings.ToUpper(s[:min(1, len(s))]) + strings.ToLower(s[min(1, len(s)):])
	out := []string{s, strings.ToLower(s), strings.ToUpper(s), title, string(alt), " " + s, s + " ", s + "s"}
	l := strings.ToLower(s)
	for _, p := range [][2]string{{"k", "K"}, {"i", "İ"}, {"s", "ſ"}, {"I", "ı"}} {
		if strings.Contains(l, p[0]) {
			out = append(out, strings.Replace(l, p[0], p[1], 1))
		}
		if strings.Contains(s, p[0]) {
			out = append(out, strings.Replace(s, p[0], p[1], 1))
		}
	}
	return out
}

func runSeverity(r *hx.Run, g *gen, cfg hx.Config) {
	names, tables, err := extract.SeverityDoc(repoRoot())
	if err != nil {
		r.Fail("", "docs/concepts/severity_mapping.md can no longer be read as mapping tables: "+err.Error())
		return
	}
	idx := map[string]claircore.Severity{}
	for i, n := range names {
		idx[n] = claircore.Severity(i)
		if claircore.Severity(i).String() != n {
			r.Fail("", fmt.Sprintf("documented severity string #%d is %q, the code's is %q", i, n, claircore.Severity(i).String()))
		}
	}
	// the pool: every documented string of every source, their case variants, strings the feeds emit that no table lists
	pool := map[string]bool{}
	for _, rows := range tables {
		for _, row := range rows {
			if strings.ContainsAny(row[0], "0123456789") && strings.Contains(row[0], ".") {
				continue // score bands
			}
			for _, v := range caseVariants(row[0]) {
				pool[v] = true
			}
		}
	}
	for _, s := range []string{"", "*", "not yet assigned", "end-of-life", "low**", "medium**", "high**", "unimportant", "Untriaged", "N/A", "n/a", "NONE", "none",
		"moderate", "important", "negligible", "unknown", "UNKNOWN", "Unknown", "Critical ", "crit", "lowmedium", "漢字", "K", "LOW\n", "High "} {
		pool[s] = true
	}
	for i := 0; i < cfg.N(60, 2000); i++ {
		pool[g.text(2)] = true
	}
	strs := make([]string, 0, len(pool))
	for s := range pool {
		strs = append(strs, s)
	}
	sortStrings(strs)
	for _, src := range sevSources {
		rows, ok := tables[src.doc]
		if !ok {
			r.Fail("", "no documented table for "+src.name)
			continue
		}
		// direct: each documented string maps to its documented value; the "*" row is the value of strings no row lists
		star := claircore.Unknown
		listed := map[string]claircore.Severity{}
		for _, row := range rows {
			want, ok := idx[row[1]]
			if !ok {
				r.Fail("", fmt.Sprintf("doc table %q names an undefined severity %q", src.doc, row[1]))
				continue
			}
			if row[0] == "*" {
				star = want
				continue
			}
			k := row[0]
			if src.fold {
				k = strings.ToLower(k)
			}
			listed[k] = want
			got := src.f(row[0])
			r.Case("sevdoc "+src.name+" "+row[0], true)
			if got != want {
				r.Fail("", fmt.Sprintf("severity source=%s string=%q documented=%s returned=%s", src.name, row[0], want, got))
			}
		}
		for _, s := range strs {
			got := hx.Guard(func() string { return fmt.Sprint(int(src.f(s))) })
			r.Op("sev "+src.name+" "+hs(s), got, true)
			if got == "panic" {
				r.Fail("", fmt.Sprintf("severity source=%s string=%q panics", src.name, s))
				continue
			}
			v := src.f(s)
			if v > claircore.Critical {
				r.Fail("", fmt.Sprintf("severity source=%s string=%q returned %d, not one of the six defined values", src.name, s, v))
			}
			// ASCII strings: the documented value (case-insensitively where the code folds), else the "*" value
			if isASCII(s) {
				k := s
				if src.fold {
					k = strings.ToLower(k)
				}
				want, ok := listed[k]
				if !ok {
					want = star
				}
				if v != want {
					r.Fail("", fmt.Sprintf("severity source=%s string=%q documented=%s returned=%s", src.name, s, want, v))
				}
				if ok {
					r.Count("sev:" + src.name + ":documented")
				} else {
					r.Count("sev:" + src.name + ":other")
				}
			} else {
				r.Count("sev:" + src.name + ":non-ascii")
			}
		}
	}
	runCvss(r, g, cfg, tables, idx)
}

func isASCII(s string) bool {
	for i := 0; i < len(s); i++ {
		if s[i] >= 0x80 {
			return false
		}
	}
	return true
}

// docBand finds the documented severity of a score given in tenths.
func docBand(rows [][2]string, idx map[string]claircore.Severity, k int) (claircore.Severity, bool) {
	for _, row := range rows {
		lo, hi, has := strings.Cut(row[0], "-")
		if !has {
			hi = lo
		}
		var l1, l2, h1, h2 int
		if n, _ := fmt.Sscanf(strings.TrimSpace(lo), "%d.%d", &l1, &l2); n != 2 {
			continue
		}
		if n, _ := fmt.Sscanf(strings.TrimSpace(hi), "%d.%d", &h1, &h2); n != 2 {
			continue
		}
		if l1*10+l2 <= k && k <= h1*10+h2 {
			v, ok := idx[row[1]]
			return v, ok
		}
	}
	return 0, false
}

// runCvss: every CVSS v3.0/v3.1 and v2 base vector through the real
// fromCVSS3/fromCVSS2; the base score (a parameter of this property, C18's
// subject) is taken from toolkit/types/cvss.
func runCvss(r *hx.Run, g *gen, cfg hx.Config, tables map[string][][2]string, idx map[string]claircore.Severity) {
	ctx := context.Background()
	one := func(which, vec string, score float64, scoreErr error, f func(string) (claircore.Severity, error)) {
		if scoreErr != nil {
			r.Fail("", fmt.Sprintf("toolkit cvss cannot score generated %s vector %q: %v", which, vec, scoreErr))
			return
		}
		k := int(math.Round(score * 10))
		var sev claircore.Severity
		var err error
		out := hx.Guard(func() string {
			sev, err = f(vec)
			if err != nil {
				return "err"
			}
			return fmt.Sprint(int(sev))
		})
		r.Op(fmt.Sprintf("rate %s %s %d", which, hs(vec), k), out, true)
		doc := "CVSSv3"
		if which == "v2" {
			doc = "CVSSv2"
		}
		want, ok := docBand(tables[doc], idx, k)
		r.Count(fmt.Sprintf("cvss:%s:band:%s", which, want))
		if !ok {
			r.Fail("", fmt.Sprintf("no documented %s band for base score %.1f (vector %q)", doc, score, vec))
		} else if out != fmt.Sprint(int(want)) {
			r.Fail("", fmt.Sprintf("osv severity of %q (base score %.1f): documented=%s returned=%s", vec, score, want, out))
		}
	}
	stride := 1
	n := 0
	// v3: AV x AC x PR x UI x S x C x I x A, both minor versions
	for _, ver := range []string{"3.0", "3.1"} {
		for _, av := range "NALP" {
			for _, ac := range "LH" {
				for _, pr := range "NLH" {
					for _, ui := range "NR" {
						for _, s := range "UC" {
							for _, c := range "HLN" {
								for _, i := range "HLN" {
									for _, a := range "HLN" {
										n++
										if n%stride != 0 {
											continue
										}
										vec := fmt.Sprintf("CVSS:%s/AV:%c/AC:%c/PR:%c/UI:%c/S:%c/C:%c/I:%c/A:%c", ver, av, ac, pr, ui, s, c, i, a)
										v, err := cvss.ParseV3(vec)
										sc := 0.0
										if err == nil {
											sc = v.Score()
										}
										arg := vec
										if n%7 == 0 {
											arg += "/E:P/RL:O/RC:C" // temporal metrics are ignored by fromCVSS3
										}
										if n%3 == 0 {
											// The specification allows the metrics in any order (the order
											// above is only the preferred one): same vector, same score, so
											// the same documented severity. Only orders the library's own
											// parser accepts with the same score are used.
											parts := strings.Split(arg, "/")
											ms := parts[1:]
											for x := len(ms) - 1; x > 0; x-- {
												y := g.r.Intn(x + 1)
												ms[x], ms[y] = ms[y], ms[x]
											}
											perm := parts[0] + "/" + strings.Join(ms, "/")
											if pv, perr := cvss.ParseV3(perm); perr == nil && err == nil && pv.Score() == sc {
												arg = perm
												r.Count("cvss:v3:permuted-order")
											} else {
												r.Count("cvss:v3:permuted-order-not-accepted")
											}
										}
										one("v3", arg, sc, err, func(x string) (claircore.Severity, error) { return osv.FromCVSS3ForVerif(ctx, x) })
									}
								}
							}
						}
					}
				}
			}
		}
	}
	for _, av := range "LAN" {
		for _, ac := range "HML" {
			for _, au := range "MSN" {
				for _, c := range "NPC" {
					for _, i := range "NPC" {
						for _, a := range "NPC" {
							vec := fmt.Sprintf("AV:%c/AC:%c/Au:%c/C:%c/I:%c/A:%c", av, ac, au, c, i, a)
							v, err := cvss.ParseV2(vec)
							sc := 0.0
							if err == nil {
								sc = v.Score()
							}
							one("v2", vec, sc, err, osv.FromCVSS2ForVerif)
						}
					}
				}
			}
		}
	}
}
