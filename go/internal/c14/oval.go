package c14

import (
	"context"
	"fmt"
	"strconv"
	"strings"
	"time"

	"github.com/quay/claircore"
	"github.com/quay/claircore/oracle"
	"github.com/quay/claircore/photon"
	"github.com/quay/claircore/rhel"
	"github.com/quay/claircore/suse"
	"github.com/quay/claircore/toolkit/types/cpe"
	"github.com/quay/claircore/ubuntu"
	"github.com/quay/claircore/verifharness/internal/hx"
)

// ---- the decoded document (what the op line carries) ----

type ovLeaf struct{ TestRef, Comment string }
type ovCrit struct {
	Op     string
	Subs   []*ovCrit
	Leaves []ovLeaf
}
type ovTest struct {
	ID, Kind     string
	Objs, States []string
}
type ovObject struct{ ID, Kind, Name, VarRef string }
type ovArch struct {
	OpText string // "" = attribute absent
	OpNum  int    // goval Operation value
	Body   string
}
type ovState struct {
	ID, Kind string
	EVR      *string
	Arch     *ovArch
}
type ovVar struct {
	ID   string
	Vals []string
}
type ovDef struct {
	ID, Class, Title, Desc, Severity string
	RefURLs, AdvRefs, Bugs, CveHrefs []string
	Platforms                        [][]string
	CPEs                             []string
	Crit                             *ovCrit
	Issued                           time.Time // zero: no <issued> element (or an "unknown" one)
	IssuedStyle                      int       // how the date is written, see renderIssued
}
type ovDoc struct {
	Tests   []ovTest
	Objects []ovObject
	States  []ovState
	Vars    []ovVar
	Defs    []ovDef
}

// stated is one (package, fixed version, module, arch) the definition states.
type stated struct {
	Pkg, Fixed, Module, Arch string
	ArchOp                   int
}

// ---- building documents ----

type ovBuilder struct {
	g    *gen
	ns   string // identifier namespace, e.g. com.redhat.rhsa
	n    int
	doc  ovDoc
	dpkg bool
	objs map[string]string // object name (+var) -> id
}

func (b *ovBuilder) id(typ string) string {
	b.n++
	return fmt.Sprintf("oval:%s:%s:%d", b.ns, typ, 20200000+b.n)
}

var archOps = []struct {
	text string
	num  int
}{{"equals", 1}, {"not equals", 2}, {"pattern match", 11}, {"less than", 6}, {"", 0}}

func (b *ovBuilder) kind(s string) string {
	if b.dpkg {
		return "dpkginfo_" + s
	}
	return "rpminfo_" + s
}

// object returns the id of a package object with the given name (shared between tests).
func (b *ovBuilder) object(name string, names []string) (id string) {
	key := fmt.Sprintf("%q %v %q", name, names == nil, names)
	if id, ok := b.objs[key]; ok && b.g.r.Chance(3, 4) {
		return id
	}
	id = b.id("obj")
	o := ovObject{ID: id, Kind: b.kind("object"), Name: name}
	if names != nil {
		v := ovVar{ID: b.id("var"), Vals: names}
		b.doc.Vars = append(b.doc.Vars, v)
		o.VarRef = v.ID
		o.Name = ""
	}
	b.doc.Objects = append(b.doc.Objects, o)
	b.objs[key] = id
	return id
}

// pkgTest adds test+object(+state) for one package criterion and returns the test id.
func (b *ovBuilder) pkgTest(name string, names []string, evr *string, arch *ovArch) string {
	t := ovTest{ID: b.id("tst"), Kind: b.kind("test"), Objs: []string{b.object(name, names)}}
	if evr != nil || arch != nil {
		s := ovState{ID: b.id("ste"), Kind: b.kind("state"), EVR: evr, Arch: arch}
		b.doc.States = append(b.doc.States, s)
		t.States = []string{s.ID}
	}
	b.doc.Tests = append(b.doc.Tests, t)
	return t.ID
}

// noiseLeaf is a criterion that states no package: platform checks, signature
// checks, dangling references, objects/states of another kind.
func (b *ovBuilder) noiseLeaf() ovLeaf {
	g := b.g
	switch g.r.Intn(9) {
	case 0: // a test of another kind
		k := g.r.Pick("rpmverifyfile_test", "textfilecontent54_test", "uname_test", "line_test", "version55_test")
		t := ovTest{ID: b.id("tst"), Kind: k, Objs: []string{b.id("obj")}}
		b.doc.Tests = append(b.doc.Tests, t)
		return ovLeaf{t.ID, g.r.Pick("Red Hat Enterprise Linux 8 is installed", "Oracle Linux 7 is installed", "kernel version", "SUSE Linux Enterprise Server 15 is installed")}
	case 1: // package test whose state carries no EVR (signature key, release version)
		s := ovState{ID: b.id("ste"), Kind: b.kind("state")}
		b.doc.States = append(b.doc.States, s)
		t := ovTest{ID: b.id("tst"), Kind: b.kind("test"), Objs: []string{b.object(g.pkg(), nil)}, States: []string{s.ID}}
		b.doc.Tests = append(b.doc.Tests, t)
		return ovLeaf{t.ID, g.r.Pick("openssl is signed with Red Hat redhatrelease2 key", "redhat-release is version 8")}
	case 2: // dangling test reference
		return ovLeaf{b.id("tst"), "dangling"}
	case 3: // not even an identifier / wrong identifier type
		return ovLeaf{g.r.Pick("bogus", "", "oval:x:obj:1", "oval:x:tst:notanumber"), "malformed reference"}
	case 4: // object reference dangling
		t := ovTest{ID: b.id("tst"), Kind: b.kind("test"), Objs: []string{b.id("obj")}}
		b.doc.Tests = append(b.doc.Tests, t)
		return ovLeaf{t.ID, "object missing"}
	case 5: // object of another kind
		o := ovObject{ID: b.id("obj"), Kind: g.r.Pick("rpmverifyfile_object", "textfilecontent54_object", "version55_object", "line_object"), Name: ""}
		if b.dpkg && g.r.Chance(1, 2) {
			o.Kind, o.Name = "rpminfo_object", g.pkg()
		} else if !b.dpkg && g.r.Chance(1, 2) {
			o.Kind, o.Name = "dpkginfo_object", g.pkg()
		}
		b.doc.Objects = append(b.doc.Objects, o)
		t := ovTest{ID: b.id("tst"), Kind: b.kind("test"), Objs: []string{o.ID}}
		b.doc.Tests = append(b.doc.Tests, t)
		return ovLeaf{t.ID, "object of another kind"}
	case 6: // state reference dangling
		t := ovTest{ID: b.id("tst"), Kind: b.kind("test"), Objs: []string{b.object(g.pkg(), nil)}, States: []string{b.id("ste")}}
		b.doc.Tests = append(b.doc.Tests, t)
		return ovLeaf{t.ID, "state missing"}
	case 7: // state of another kind
		evr := g.debVersion()
		s := ovState{ID: b.id("ste"), Kind: "rpminfo_state", EVR: &evr}
		if !b.dpkg {
			s.Kind = "dpkginfo_state"
		}
		if g.r.Chance(1, 2) {
			s.Kind, s.EVR = g.r.Pick("line_state", "version55_state"), nil
		}
		b.doc.States = append(b.doc.States, s)
		t := ovTest{ID: b.id("tst"), Kind: b.kind("test"), Objs: []string{b.object(g.pkg(), nil)}, States: []string{s.ID}}
		b.doc.Tests = append(b.doc.Tests, t)
		return ovLeaf{t.ID, "state of another kind"}
	default: // a comment that merely looks like a module comment
		t := ovTest{ID: b.id("tst"), Kind: "textfilecontent54_test", Objs: []string{b.id("obj")}}
		b.doc.Tests = append(b.doc.Tests, t)
		return ovLeaf{t.ID, g.r.Pick("Module  is enabled", "module nodejs:12 is enabled", "Module nodejs:12 is disabled", "Module is enabled", "is enabled Module x")}
	}
}

// wrap nests a criteria node in 0..2 extra levels (any nesting must be walked).
func (b *ovBuilder) wrap(c *ovCrit) *ovCrit {
	for i, n := 0, b.g.r.Intn(3); i < n; i++ {
		w := &ovCrit{Op: b.g.r.Pick("AND", "OR"), Subs: []*ovCrit{c}}
		if b.g.r.Chance(1, 3) {
			w.Leaves = append(w.Leaves, b.noiseLeaf())
		}
		c = w
	}
	return c
}

type ovGroup struct {
	Module string
	Pkgs   []stated
}

// the last one makes the comment "Module … is enabled" contain " is enabled" twice (the regexp's `.*` is greedy)
var moduleStreams = []string{"nodejs:12", "nodejs:14", "container-tools:rhel8", "postgresql:10", "php:7.4", "virt:rhel", "idm:DL1", "mariadb:10.3 is enabled and Module mariadb-devel:10.3"}

// rpmCriteria builds the criteria tree of one rpm-flavoured definition from its
// module groups: OR[ platform noise, AND[ module criterion, OR[ AND[pkg, signed] ... ] ] ... ].
func (b *ovBuilder) rpmCriteria(groups []ovGroup) *ovCrit {
	g := b.g
	root := &ovCrit{Op: "OR"}
	if g.r.Chance(2, 3) {
		root.Leaves = append(root.Leaves, b.noiseLeaf())
	}
	for _, gr := range groups {
		and := &ovCrit{Op: "AND"}
		if gr.Module != "" {
			t := ovTest{ID: b.id("tst"), Kind: "textfilecontent54_test", Objs: []string{b.id("obj")}}
			b.doc.Tests = append(b.doc.Tests, t)
			and.Leaves = append(and.Leaves, ovLeaf{t.ID, "Module " + gr.Module + " is enabled"})
		}
		if g.r.Chance(1, 2) {
			and.Subs = append(and.Subs, &ovCrit{Op: "OR", Leaves: []ovLeaf{b.noiseLeaf(), b.noiseLeaf()}})
		}
		or := &ovCrit{Op: "OR"}
		for _, p := range gr.Pkgs {
			var evr *string
			if p.Fixed != "\x00none" {
				f := p.Fixed
				evr = &f
			}
			var arch *ovArch
			if p.ArchOp >= 0 {
				ao := archOps[p.ArchOp]
				arch = &ovArch{OpText: ao.text, OpNum: ao.num, Body: p.Arch}
			}
			leaf := ovLeaf{b.pkgTest(p.Pkg, nil, evr, arch), p.Pkg + " is earlier than " + p.Fixed}
			if g.r.Chance(1, 2) {
				or.Subs = append(or.Subs, &ovCrit{Op: "AND", Leaves: []ovLeaf{leaf, b.noiseLeaf()}})
			} else {
				or.Leaves = append(or.Leaves, leaf)
			}
		}
		and.Subs = append(and.Subs, b.wrap(or))
		root.Subs = append(root.Subs, b.wrap(and))
	}
	return b.wrap(root)
}

func (g *gen) rpmEVR() string {
	return strconv.Itoa(g.r.Intn(3)) + ":" + strconv.Itoa(g.r.Intn(9)) + "." + strconv.Itoa(g.r.Intn(30)) + "-" + strconv.Itoa(1+g.r.Intn(20)) + g.r.Pick(".el8", ".el7_9", ".ph3", ".1", "")
}

// rpmGroups draws the stated content of one definition. shape: 0 = at most one
// module, everything under it (the shape the vendors publish); 1 = several
// module groups; 2 = a module group next to packages outside any module.
func (g *gen) rpmGroups(modules bool) (groups []ovGroup, shape int) {
	pk := func() stated {
		s := stated{Pkg: g.pkg(), Fixed: g.rpmEVR(), ArchOp: -1}
		if g.r.Chance(1, 6) {
			s.Fixed = "\x00none" // affected, no fixed version: the test has no state
		}
		if s.Fixed != "\x00none" && g.r.Chance(1, 3) {
			s.ArchOp = g.r.Intn(len(archOps))
			s.Arch = g.r.Pick("x86_64", "aarch64|ppc64le|s390x|x86_64", "i686", "")
		}
		return s
	}
	pkgs := func() []stated {
		var ps []stated
		for i, n := 0, 1+g.r.Intn(3); i < n; i++ {
			ps = append(ps, pk())
		}
		return ps
	}
	if !modules || g.r.Chance(1, 2) {
		return []ovGroup{{Module: "", Pkgs: pkgs()}}, 0
	}
	switch g.r.Intn(6) {
	case 0:
		ms := distinct(2+g.r.Intn(2), func() string { return g.r.Pick(moduleStreams...) })
		for _, m := range ms {
			groups = append(groups, ovGroup{Module: m, Pkgs: pkgs()})
		}
		return groups, 1
	case 1:
		return []ovGroup{{Module: g.r.Pick(moduleStreams...), Pkgs: pkgs()}, {Module: "", Pkgs: pkgs()}}, 2
	case 2:
		m := g.r.Pick(moduleStreams...)
		return []ovGroup{{Module: m, Pkgs: pkgs()}, {Module: m, Pkgs: pkgs()}}, 3
	default:
		return []ovGroup{{Module: g.r.Pick(moduleStreams...), Pkgs: pkgs()}}, 0
	}
}

func (g *gen) links(n int) []string {
	var out []string
	for i, m := 0, g.r.Intn(n+1); i < m; i++ {
		switch {
		case g.r.Chance(1, 8):
			out = append(out, "")
		case len(out) > 0 && g.r.Chance(1, 6):
			out = append(out, out[0])
		default:
			out = append(out, genURL(g))
		}
	}
	return out
}

func (g *gen) defCommon(d *ovDef, sevs []string) {
	d.Title = g.r.Pick("RHSA-2020:"+strconv.Itoa(1000+g.r.Intn(50)), "ELSA-2021-"+strconv.Itoa(1000+g.r.Intn(50)), g.cve(), "CVE-2021-3156 on Ubuntu 20.04 LTS (focal) - high.") + g.r.Pick("", ": "+g.text(3))
	d.Desc = g.text(6)
	d.Severity = g.r.Pick(sevs...)
	d.Issued, d.IssuedStyle = g.date(), g.r.Intn(4)
	if d.IssuedStyle < 2 {
		d.Issued = d.Issued.Truncate(24 * time.Hour) // date-only notations
	}
	d.RefURLs, d.AdvRefs, d.Bugs, d.CveHrefs = g.links(2), nil, g.links(1), g.links(2)
	if len(d.RefURLs) > 0 && len(d.CveHrefs) > 0 && g.r.Chance(1, 3) {
		d.CveHrefs[0] = d.RefURLs[0] // duplicates across the kinds are dropped
	}
}

// ---- op line ----

func (l *line) strs(xs []string) *line {
	l.n(len(xs))
	for _, x := range xs {
		l.str(x)
	}
	return l
}

func (l *line) crit(c *ovCrit) *line {
	l.n(len(c.Subs))
	for _, s := range c.Subs {
		l.crit(s)
	}
	l.n(len(c.Leaves))
	for _, lf := range c.Leaves {
		l.str(lf.TestRef).str(lf.Comment)
	}
	return l
}

// scrit writes a criteria tree with its operators (ovalscope op).
func (l *line) scrit(c *ovCrit) *line {
	l.str(c.Op).n(len(c.Subs))
	for _, s := range c.Subs {
		l.scrit(s)
	}
	l.n(len(c.Leaves))
	for _, lf := range c.Leaves {
		l.str(lf.TestRef).str(lf.Comment)
	}
	return l
}

func (l *line) ovalDoc(d *ovDoc, cpeOK func(string) bool) *line {
	l.ovalRoot(d)
	l.n(len(d.Defs))
	for _, df := range d.Defs {
		l.str(df.ID).str(df.Title).str(df.Desc).str(df.Severity).str(issuedTok(df.Issued)).strs(df.RefURLs).strs(df.AdvRefs).strs(df.Bugs).strs(df.CveHrefs)
		l.n(len(df.Platforms))
		for _, ps := range df.Platforms {
			l.strs(ps)
		}
		l.n(len(df.CPEs))
		for _, c := range df.CPEs {
			ok := 0
			if cpeOK(c) {
				ok = 1
			}
			l.str(c).n(ok)
		}
		l.crit(df.Crit)
	}
	return l
}

// ovalRoot writes tests, objects, states and variables.
func (l *line) ovalRoot(d *ovDoc) *line {
	l.n(len(d.Tests))
	for _, t := range d.Tests {
		l.str(t.ID).str(t.Kind).strs(t.Objs).strs(t.States)
	}
	l.n(len(d.Objects))
	for _, o := range d.Objects {
		l.str(o.ID).str(o.Kind).str(o.Name).str(o.VarRef)
	}
	l.n(len(d.States))
	for _, s := range d.States {
		l.str(s.ID).str(s.Kind)
		if s.EVR == nil {
			l.n(0)
		} else {
			l.n(1).str(*s.EVR)
		}
		if s.Arch == nil {
			l.n(0)
		} else {
			l.n(1).n(s.Arch.OpNum).str(s.Arch.Body)
		}
	}
	l.n(len(d.Vars))
	for _, v := range d.Vars {
		l.str(v.ID).strs(v.Vals)
	}
	return l
}

// ---- XML rendering ----

func renderCrit(b *strings.Builder, c *ovCrit, g *gen) {
	fmt.Fprintf(b, `<criteria operator="%s">`, c.Op)
	// children of the two kinds interleaved in a random order (each kind in its own order)
	i, j := 0, 0
	for i < len(c.Subs) || j < len(c.Leaves) {
		if j >= len(c.Leaves) || (i < len(c.Subs) && g.r.Chance(1, 2)) {
			renderCrit(b, c.Subs[i], g)
			i++
		} else {
			fmt.Fprintf(b, `<criterion test_ref="%s" comment="%s"/>`, esc(c.Leaves[j].TestRef), esc(c.Leaves[j].Comment))
			j++
		}
	}
	b.WriteString(`</criteria>`)
}

func renderOval(d *ovDoc, g *gen) []byte {
	var b strings.Builder
	b.WriteString(`<?xml version="1.0" encoding="utf-8"?>` + "\n" + `<oval_definitions xmlns="http://oval.mitre.org/XMLSchema/oval-definitions-5" xmlns:red-def="http://oval.mitre.org/XMLSchema/oval-definitions-5#linux" xmlns:unix-def="http://oval.mitre.org/XMLSchema/oval-definitions-5#unix" xmlns:ind-def="http://oval.mitre.org/XMLSchema/oval-definitions-5#independent">`)
	b.WriteString(`<generator><product_name>verif</product_name><schema_version>5.10</schema_version><timestamp>2024-01-01T00:00:00</timestamp></generator><definitions>`)
	for _, df := range d.Defs {
		fmt.Fprintf(&b, `<definition id="%s" class="%s" version="636"><metadata><title>%s</title>`, esc(df.ID), esc(df.Class), esc(df.Title))
		for _, ps := range df.Platforms {
			b.WriteString(`<affected family="unix">`)
			for _, p := range ps {
				fmt.Fprintf(&b, `<platform>%s</platform>`, esc(p))
			}
			b.WriteString(`</affected>`)
		}
		for _, u := range df.RefURLs {
			fmt.Fprintf(&b, `<reference source="X" ref_id="x" ref_url="%s"/>`, esc(u))
		}
		fmt.Fprintf(&b, `<description>%s</description><advisory from="secalert@example.com"><severity>%s</severity><rights>Copyright</rights>%s<updated date="2020-03-05"/>`, esc(df.Desc), esc(df.Severity), renderIssued(df))
		for _, u := range df.CveHrefs {
			fmt.Fprintf(&b, `<cve cvss3="7.5/CVSS:3.1/AV:N/AC:L/PR:N/UI:N/S:U/C:N/I:N/A:H" href="%s" impact="important" public="20200101">CVE-2020-0001</cve>`, esc(u))
		}
		for _, u := range df.Bugs {
			fmt.Fprintf(&b, `<bug>%s</bug>`, esc(u))
		}
		for _, u := range df.AdvRefs {
			fmt.Fprintf(&b, `<ref>%s</ref>`, esc(u))
		}
		if df.CPEs != nil {
			b.WriteString(`<affected_cpe_list>`)
			for _, c := range df.CPEs {
				fmt.Fprintf(&b, `<cpe>%s</cpe>`, esc(c))
			}
			b.WriteString(`</affected_cpe_list>`)
		}
		b.WriteString(`</advisory></metadata>`)
		renderCrit(&b, df.Crit, g)
		b.WriteString(`</definition>`)
	}
	b.WriteString(`</definitions><tests>`)
	for _, t := range d.Tests {
		pre := "red-def:"
		if g.r.Chance(1, 2) {
			pre = ""
		}
		fmt.Fprintf(&b, `<%s%s id="%s" check="at least one" comment="c" version="636">`, pre, t.Kind, esc(t.ID))
		for _, o := range t.Objs {
			fmt.Fprintf(&b, `<%sobject object_ref="%s"/>`, pre, esc(o))
		}
		for _, s := range t.States {
			fmt.Fprintf(&b, `<%sstate state_ref="%s"/>`, pre, esc(s))
		}
		fmt.Fprintf(&b, `</%s%s>`, pre, t.Kind)
	}
	b.WriteString(`</tests><objects>`)
	for _, o := range d.Objects {
		fmt.Fprintf(&b, `<%s id="%s" version="636">`, o.Kind, esc(o.ID))
		switch o.Kind {
		case "rpminfo_object":
			fmt.Fprintf(&b, `<name>%s</name>`, esc(o.Name))
		case "dpkginfo_object":
			if o.VarRef != "" {
				fmt.Fprintf(&b, `<name var_ref="%s" var_check="at least one"/>`, esc(o.VarRef))
			} else {
				fmt.Fprintf(&b, `<name>%s</name>`, esc(o.Name))
			}
		case "rpmverifyfile_object":
			b.WriteString(`<behaviors noconfigfiles="true"/><name operation="pattern match"/><filepath>/etc/redhat-release</filepath>`)
		case "textfilecontent54_object":
			b.WriteString(`<filepath>/etc/os-release</filepath><pattern operation="pattern match">^ID=</pattern><instance datatype="int">1</instance>`)
		}
		fmt.Fprintf(&b, `</%s>`, o.Kind)
	}
	b.WriteString(`</objects><states>`)
	for _, s := range d.States {
		fmt.Fprintf(&b, `<%s id="%s" version="636">`, s.Kind, esc(s.ID))
		if s.Arch != nil {
			if s.Arch.OpText != "" {
				fmt.Fprintf(&b, `<arch datatype="string" operation="%s">%s</arch>`, s.Arch.OpText, esc(s.Arch.Body))
			} else {
				fmt.Fprintf(&b, `<arch datatype="string">%s</arch>`, esc(s.Arch.Body))
			}
		}
		if s.EVR != nil {
			fmt.Fprintf(&b, `<evr datatype="evr_string" operation="less than">%s</evr>`, esc(*s.EVR))
		} else if strings.HasSuffix(s.Kind, "info_state") {
			b.WriteString(`<signature_keyid operation="equals">199e2f91fd431d51</signature_keyid>`)
		}
		fmt.Fprintf(&b, `</%s>`, s.Kind)
	}
	b.WriteString(`</states><variables>`)
	for _, v := range d.Vars {
		fmt.Fprintf(&b, `<constant_variable id="%s" version="1" datatype="string" comment="c">`, esc(v.ID))
		for _, x := range v.Vals {
			fmt.Fprintf(&b, `<value>%s</value>`, esc(x))
		}
		b.WriteString(`</constant_variable>`)
	}
	b.WriteString(`</variables></oval_definitions>` + "\n")
	return []byte(b.String())
}

// renderIssued writes the advisory's issue date in one of the notations the
// vendors use (goval-parser's Date accepts them all).
func renderIssued(df ovDef) string {
	if df.Issued.IsZero() {
		return []string{"", `<issued date=""/>`, `<issued>unknown</issued>`, ""}[df.IssuedStyle]
	}
	switch df.IssuedStyle {
	case 0:
		return `<issued date="` + df.Issued.Format("2006-01-02") + `"/>`
	case 1:
		return `<issued>` + df.Issued.Format("2006-01-02") + `</issued>`
	case 2:
		return `<issued>` + df.Issued.Format("2006-01-02 15:04:05") + ` UTC</issued>`
	}
	return `<issued>` + df.Issued.Format(time.RFC3339) + `</issued>`
}

// ---- flavours ----

var oraclePlatforms = func() map[string]string {
	m := map[string]string{}
	for _, v := range []string{"5", "6", "7", "8", "9"} {
		m["Oracle Linux "+v] = mkDistKey("ol", v, "Oracle Linux "+v, "Oracle Linux Server", v, "Oracle Linux Server "+v, "")
	}
	return m
}()

var rhelDefKinds = []string{"rhsa", "rhsa", "rhsa", "rhsa", "rhsa", "rhsa", "rhba", "rhea", "cve", "cve", "cve", "unaffected", "none", "RHSA", "x1"}

func cpeValid(s string) bool {
	_, err := cpe.Unbind(s)
	return err == nil
}

var cpePool = []string{"cpe:/a:redhat:enterprise_linux:8::appstream", "cpe:/o:redhat:enterprise_linux:8::baseos", "cpe:/a:redhat:enterprise_linux:8", "cpe:/a:redhat:rhel_eus:8.4::appstream", "cpe:/o:redhat:enterprise_linux:7::server"}

func runOval(r *hx.Run, g *gen, cfg hx.Config) {
	ovalWitnesses(r)
	flavors := []string{"oracle", "suse", "photon", "rhel", "ubuntu"}
	suseDist := &claircore.Distribution{Name: "SLES", DID: "sles", VersionID: "15.4", Version: "15-SP4", VersionCodeName: ""}
	for it, n := 0, cfg.N(5000, 30000); it < n && !r.Stop(); it++ {
		fl := flavors[it%len(flavors)]
		b := &ovBuilder{g: g, objs: map[string]string{}, dpkg: fl == "ubuntu"}
		var parse func(ctx context.Context, feed []byte) ([]*claircore.Vulnerability, error)
		l := (&line{}).tok("oval").tok(fl)
		var sev func(string) claircore.Severity
		var sevs []string
		ignoreUnpatched := false
		dist := ""
		switch fl {
		case "oracle":
			b.ns = "com.oracle.elsa"
			year := g.r.Pick("-1", "2019", "2023")
			y, _ := strconv.Atoi(year)
			u, err := oracle.NewUpdater(y)
			if err != nil {
				r.Fail("", "oracle.NewUpdater: "+err.Error())
				return
			}
			parse = func(ctx context.Context, feed []byte) ([]*claircore.Vulnerability, error) {
				return u.Parse(ctx, rc(feed))
			}
			l.str(u.Name()).n(len(oraclePlatforms))
			for _, k := range sortedKeys(oraclePlatforms) {
				l.str(k).str(oraclePlatforms[k])
			}
			sev, sevs = oracle.NormalizeSeverity, []string{"N/A", "LOW", "MODERATE", "IMPORTANT", "CRITICAL", "Important", "", "moderate", " LOW", "LOW "}
		case "suse":
			b.ns = "org.opensuse.security"
			u, err := suse.NewUpdater(suseDist)
			if err != nil {
				r.Fail("", "suse.NewUpdater: "+err.Error())
				return
			}
			parse = func(ctx context.Context, feed []byte) ([]*claircore.Vulnerability, error) {
				return u.Parse(ctx, rc(feed))
			}
			dist = distKey(suseDist)
			l.str(u.Name()).str(dist)
			sev, sevs = suse.NormalizeSeverity, []string{"None", "Low", "Moderate", "Important", "Critical", "important", "", "High", " Low", "Critical "}
		case "photon":
			b.ns = "com.vmware.phsa"
			rel := g.r.Pick("photon1", "photon2", "photon3", "photon4")
			u, err := photon.NewUpdater(photon.Release(rel))
			if err != nil {
				r.Fail("", "photon.NewUpdater: "+err.Error())
				return
			}
			parse = func(ctx context.Context, feed []byte) ([]*claircore.Vulnerability, error) {
				return u.Parse(ctx, rc(feed))
			}
			dist = mkDistKey("", "", "", "", "", "", "") // a release the package does not know: the empty distribution
			if v := map[string]string{"photon1": "1.0", "photon2": "2.0", "photon3": "3.0"}[rel]; v != "" {
				dist = mkDistKey("photon", v, "", "VMware Photon OS", v, "VMware Photon OS/Linux", "")
			}
			l.str(u.Name()).str(dist)
			sev, sevs = photon.NormalizeSeverity, []string{"Low", "Moderate", "Important", "Critical", "critical", "", "None", " Low", "Important "}
		case "rhel":
			b.ns = "com.redhat.rhsa"
			rel := 6 + g.r.Intn(4)
			ignoreUnpatched = g.r.Chance(1, 2)
			u, err := rhel.NewUpdater("rhel-"+strconv.Itoa(rel)+"-updater", rel, "https://example.com/oval.xml", ignoreUnpatched)
			if err != nil {
				r.Fail("", "rhel.NewUpdater: "+err.Error())
				return
			}
			parse = func(ctx context.Context, feed []byte) ([]*claircore.Vulnerability, error) {
				return u.Parse(ctx, rc(feed))
			}
			dist = mkDistKey("rhel", strconv.Itoa(rel), "", "Red Hat Enterprise Linux Server", strconv.Itoa(rel), "Red Hat Enterprise Linux Server "+strconv.Itoa(rel), "cpe:/o:redhat:enterprise_linux:"+strconv.Itoa(rel))
			ign := 0
			if ignoreUnpatched {
				ign = 1
			}
			l.str(u.Name()).str(dist).n(ign)
			sev, sevs = rhel.NormalizeSeverityForC14, []string{"None", "Low", "Moderate", "Important", "Critical", "IMPORTANT", "low", "", "High", " Low", "Moderate "}
		case "ubuntu":
			b.ns = "com.ubuntu.focal"
			rels := [][2]string{{"focal", "20.04"}, {"jammy", "22.04"}, {"noble", "24.04"}}
			rel := rels[g.r.Intn(len(rels))]
			u, d := ubuntu.ParserForC14(rel[0], rel[1])
			parse = func(ctx context.Context, feed []byte) ([]*claircore.Vulnerability, error) {
				return u.Parse(ctx, rc(feed))
			}
			dist = mkDistKey("ubuntu", rel[1], rel[0], "Ubuntu", rel[1]+" ("+strings.ToUpper(rel[0][:1])+rel[0][1:]+")", "Ubuntu "+rel[1], "")
			if distKey(d) != dist {
				r.Fail("", fmt.Sprintf("ubuntu release %s %s has distribution %q", rel[0], rel[1], distKey(d)))
			}
			l.str(u.Name()).str(dist)
			sev, sevs = ubuntu.NormalizeSeverityForC14, []string{"Untriaged", "Negligible", "Low", "Medium", "High", "Critical", "critical", "", "Important"}
		}

		// definitions
		type scopeCase struct {
			crit  *ovCrit
			pairs []string
		}
		var scopes []scopeCase // per rpm definition: its tree and the (package, module) pairs its groups state
		var wants []want       // what the feed states (module criteria scope over the packages below them)
		var flat []want    // what a walker pairing every package with every module comment of the definition returns
		flattened := false // some definition has modules that do not scope over all of its packages
		malformed := false
		for di, nd := 0, 1+g.r.Intn(3); di < nd; di++ {
			d := ovDef{ID: b.id("def"), Class: g.r.Pick("patch", "vulnerability")}
			g.defCommon(&d, sevs)
			var protoDists, protoRepos []string // one entry per prototype vulnerability
			// advisory fields every vulnerability of the definition must carry (computed after d is complete)
			adv := func() string {
				iss := issuedTok(d.Issued)
				if fl == "suse" {
					iss = "" // the SUSE parser does not copy the issue date
				}
				sevstr := d.Severity
				if fl == "ubuntu" {
					sevstr = "" // the Ubuntu parser keeps only the normalized severity
				}
				return fmt.Sprintf(" issued=%s links=%q desc=%q sevstr=%q", iss, statedLinks(d), d.Desc, sevstr)
			}
			switch fl {
			case "oracle":
				for a, na := 0, 1+g.r.Intn(2); a < na; a++ {
					var ps []string
					for p, np := 0, g.r.Intn(3); p < np; p++ {
						pl := g.r.Pick("Oracle Linux 5", "Oracle Linux 6", "Oracle Linux 7", "Oracle Linux 8", "Oracle Linux 9", "Oracle Linux 10", "Oracle VM 3", "")
						ps = append(ps, pl)
						if dk, ok := oraclePlatforms[pl]; ok {
							protoDists = append(protoDists, dk)
							protoRepos = append(protoRepos, "")
						}
					}
					d.Platforms = append(d.Platforms, ps)
				}
			case "rhel":
				kind := g.r.Pick(rhelDefKinds...)
				d.ID = fmt.Sprintf("oval:com.redhat.%s:def:%d", kind, 20200000+b.n)
				if g.r.Chance(1, 15) {
					d.ID = g.r.Pick("oval:com.redhat.rhsa:def:", "oval:org.redhat.rhsa:def:1", "oval:com.redhat.rhsa:def:12x", "oval:com.redhat.rh-sa:def:1", " oval:com.redhat.rhsa:def:1")
					kind = "unparsable"
				}
				d.CPEs = []string{}
				bad := false
				for c, nc := 0, 1+g.r.Intn(3); c < nc; c++ {
					cp := g.r.Pick(cpePool...)
					if g.r.Chance(1, 10) {
						cp = ""
					} else if g.r.Chance(1, 25) {
						cp = g.r.Pick("notacpe", "cpe:/a:red hat:x", "cpe:2.3:a")
					}
					d.CPEs = append(d.CPEs, cp)
					if cp != "" && !cpeValid(cp) {
						bad = true
					}
				}
				emits := false
				switch kind {
				case "rhsa", "rhba", "rhea":
					emits = true
				case "cve":
					emits = !ignoreUnpatched
				case "x1", "RHSA", "unparsable":
					emits = false // the identifier does not name a definition type: the definition is skipped
					r.Count("oval:rhel:def-id-unrecognised")
				default:
					r.Count("oval:rhel:def-" + kind + "-skipped")
				}
				if emits && bad {
					r.Count("oval:rhel:bad-cpe")
					malformed = true // not a well-formed feed: no expectation beyond model agreement
				}
				if emits && !bad {
					for _, cp := range d.CPEs {
						if cp != "" {
							protoDists = append(protoDists, dist)
							protoRepos = append(protoRepos, cp+"|rhel-cpe-repository|")
						}
					}
				}
			default:
				protoDists, protoRepos = []string{dist}, []string{""}
			}

			if fl == "ubuntu" {
				d.AdvRefs = g.links(2)
				root := &ovCrit{Op: "OR"}
				if g.r.Chance(1, 2) {
					root.Leaves = append(root.Leaves, b.noiseLeaf())
				}
				for p, np := 0, g.r.Intn(4); p < np; p++ {
					var names []string
					name := g.pkg()
					var stNames []string
					if g.r.Chance(2, 3) {
						names = distinct(g.r.Intn(4), g.pkg)
						if names == nil {
							names = []string{}
						}
						stNames = names
					} else {
						stNames = []string{name}
					}
					var evr *string
					fixed := ""
					valid := true
					if !g.r.Chance(1, 5) {
						f := g.debVersion()
						switch g.r.Intn(10) {
						case 0:
							f = " " + f + g.r.Pick(" ", "\n", " ")
						case 1:
							f = g.r.Pick("", "1.0 beta", "1.0/2", "1.0é", " ", "1.0(2)")
							valid = false
						}
						evr, fixed = &f, f
					}
					var arch *ovArch
					if evr != nil && g.r.Chance(1, 8) {
						ao := archOps[g.r.Intn(len(archOps))]
						arch = &ovArch{OpText: ao.text, OpNum: ao.num, Body: g.r.Pick("amd64", "i386", "")}
						r.Count("oval:ubuntu:state-with-arch")
					}
					leaf := ovLeaf{b.pkgTest(name, names, evr, arch), "vulnerable"}
					if g.r.Chance(1, 3) {
						root.Subs = append(root.Subs, b.wrap(&ovCrit{Op: "AND", Leaves: []ovLeaf{leaf}}))
					} else {
						root.Leaves = append(root.Leaves, leaf)
					}
					if !valid {
						r.Count("oval:ubuntu:invalid-version")
						continue
					}
					for pi := range protoDists {
						for _, nm := range stNames {
							ex := "module= arch= archop=0 repo="
							if arch != nil {
								ex = fmt.Sprintf("module= arch=%s archop=%d repo=", arch.Body, mapArchOpGo(arch.OpNum))
							}
							w := want{ID: d.Title, Pkg: nm, Fixed: fixed, Dist: protoDists[pi], Extra: ex + adv(), Sev: sev(d.Severity)}
							wants, flat = append(wants, w), append(flat, w)
						}
					}
				}
				d.Crit = b.wrap(root)
			} else {
				groups, shape := g.rpmGroups(fl == "rhel" || g.r.Chance(1, 6))
				d.Crit = b.rpmCriteria(groups)
				sc := scopeCase{crit: d.Crit}
				for _, gr := range groups {
					for _, p := range gr.Pkgs {
						sc.pairs = append(sc.pairs, hs(p.Pkg)+"@"+hs(gr.Module))
					}
				}
				sortStrings(sc.pairs)
				scopes = append(scopes, sc)
				npk := 0
				for _, gr := range groups {
					npk += len(gr.Pkgs)
				}
				if shape != 0 && npk > 0 && len(protoDists) > 0 {
					flattened = true
				}
				r.Count(fmt.Sprintf("oval:rpm:module-shape:%d", shape))
				var allMods []string // one entry per module criterion of the definition, duplicates kept
				for _, gr := range groups {
					if gr.Module != "" {
						allMods = append(allMods, gr.Module)
					}
				}
				if len(allMods) == 0 {
					allMods = []string{""}
				}
				for _, gr := range groups {
					for _, p := range gr.Pkgs {
						fixed := p.Fixed
						if fixed == "\x00none" {
							fixed = ""
							r.Count("oval:rpm:pkg-without-state")
						}
						ex := func(m string) string {
							if p.ArchOp >= 0 {
								return fmt.Sprintf("module=%s arch=%s archop=%d", m, p.Arch, mapArchOpGo(archOps[p.ArchOp].num))
							}
							return fmt.Sprintf("module=%s arch= archop=0", m)
						}
						for pi := range protoDists {
							wants = append(wants, want{ID: d.Title, Pkg: p.Pkg, Fixed: fixed, Dist: protoDists[pi], Extra: ex(gr.Module) + " repo=" + protoRepos[pi] + adv(), Sev: sev(d.Severity)})
							for _, m := range allMods {
								flat = append(flat, want{ID: d.Title, Pkg: p.Pkg, Fixed: fixed, Dist: protoDists[pi], Extra: ex(m) + " repo=" + protoRepos[pi] + adv(), Sev: sev(d.Severity)})
							}
						}
					}
				}
			}
			b.doc.Defs = append(b.doc.Defs, d)
		}
		l.ovalDoc(&b.doc, cpeValid)
		feed := renderOval(&b.doc, g)
		r.Op("reset", "ok", false)
		vs, err, obs := parseWithTimeout(func(ctx context.Context) ([]*claircore.Vulnerability, error) { return parse(ctx, feed) })
		out := obs
		if obs == "" {
			out = canonAll(vs, err, false)
		}
		r.Op(l.String(), out, len(wants) > 0)
		// The specification side: the Lean reading of the criteria WITH their operators (Model/FeedOvalScope.lean)
		// must state exactly the (package, module) pairs the ground truth of each definition holds. (The left
		// side of these lines is the generator's ground truth, not the parser: the parser ignores the operators.)
		for _, sc := range scopes {
			sl := (&line{}).tok("ovalscope")
			sl.ovalRoot(&b.doc).scrit(sc.crit)
			r.Op(sl.String(), strings.Join(append([]string{"ok " + strconv.Itoa(len(sc.pairs))}, sc.pairs...), " "), len(sc.pairs) > 0)
		}
		r.Count("oval:" + fl + ":vulns:" + bucket(len(wants)))
		if obs != "" || err != nil {
			r.Fail("", fmt.Sprintf("%s OVAL Parse of a well-formed document: %s%v feed=%s", fl, obs, err, clip(feed)))
			continue
		}
		if malformed {
			continue
		}
		extra := func(v *claircore.Vulnerability) string {
			if v.Package == nil {
				return "nopkg"
			}
			return fmt.Sprintf("module=%s arch=%s archop=%d repo=%s issued=%s links=%q desc=%q sevstr=%q", v.Package.Module, v.Package.Arch, int(v.ArchOperation), repoKeyNoCPE(v.Repo),
				issuedTok(v.Issued), v.Links, v.Description, v.Severity)
		}
		if d := checkExact(wants, vs, extra); d != "" {
			// The listed finding, and only it: the result is exactly "every package with every module comment of its definition".
			if flattened && checkExact(flat, vs, extra) == "" {
				r.Count("oval:finding:oval-module-flattening")
				r.Fail("oval-module-flattening", fmt.Sprintf("%s OVAL: %s; feed=%s", fl, d, clip(feed)))
			} else {
				r.Fail("", fmt.Sprintf("%s OVAL: %s; feed=%s", fl, d, clip(feed)))
			}
		}
		for _, v := range vs {
			if v.Package == nil || v.Package.Kind != claircore.BINARY {
				r.Fail("", fmt.Sprintf("%s OVAL: %s is not attached to a binary package; feed=%s", fl, v.Name, clip(feed)))
			}
			if fl == "rhel" && v.Repo != nil {
				if w, err := cpe.Unbind(v.Repo.Name); err != nil || w.BindFS() != v.Repo.CPE.BindFS() {
					r.Fail("", fmt.Sprintf("rhel OVAL: repository %q carries CPE %q; feed=%s", v.Repo.Name, v.Repo.CPE.BindFS(), clip(feed)))
				}
			}
		}
	}
}

// statedLinks: every distinct non-empty link of the definition, in document
// order of the four kinds (reference, ref, bug, cve), joined by spaces.
func statedLinks(d ovDef) string {
	seen := map[string]bool{}
	var out []string
	for _, l := range [][]string{d.RefURLs, d.AdvRefs, d.Bugs, d.CveHrefs} {
		for _, u := range l {
			if u != "" && !seen[u] {
				seen[u] = true
				out = append(out, u)
			}
		}
	}
	return strings.Join(out, " ")
}

func repoKeyNoCPE(r *claircore.Repository) string {
	if r == nil {
		return ""
	}
	return r.Name + "|" + r.Key + "|" + r.URI
}

func mapArchOpGo(op int) int {
	switch op {
	case 1:
		return 1
	case 2:
		return 2
	case 11:
		return 3
	}
	return 0
}

func sortedKeys(m map[string]string) []string {
	ks := make([]string, 0, len(m))
	for k := range m {
		ks = append(ks, k)
	}
	sortStrings(ks)
	return ks
}

// ovalWitnesses replays, on every run, the fixed witness of the listed finding
// and one malformed document that exercises the model's error branch.
func ovalWitnesses(r *hx.Run) {
	g := &gen{r: hx.NewRand(20240914)}
	mk := func() (*ovBuilder, *line, func(ctx context.Context, feed []byte) ([]*claircore.Vulnerability, error)) {
		b := &ovBuilder{g: g, objs: map[string]string{}, ns: "com.redhat.rhsa"}
		u, _ := rhel.NewUpdater("rhel-8-updater", 8, "https://example.com/oval.xml", false)
		l := (&line{}).tok("oval").tok("rhel").str(u.Name()).str(mkDistKey("rhel", "8", "", "Red Hat Enterprise Linux Server", "8", "Red Hat Enterprise Linux Server 8", "cpe:/o:redhat:enterprise_linux:8")).n(0)
		return b, l, func(ctx context.Context, feed []byte) ([]*claircore.Vulnerability, error) {
			return u.Parse(ctx, rc(feed))
		}
	}
	// 1. one definition, two module streams, one package each
	{
		b, l, parse := mk()
		leafMod := func(m string) ovLeaf {
			t := ovTest{ID: b.id("tst"), Kind: "textfilecontent54_test", Objs: []string{b.id("obj")}}
			b.doc.Tests = append(b.doc.Tests, t)
			return ovLeaf{t.ID, "Module " + m + " is enabled"}
		}
		e1, e2 := "1:12.22.5-1.module+el8", "1:6.14.11-1.14.16.0.2.module+el8"
		d := ovDef{ID: "oval:com.redhat.rhsa:def:20213666", Class: "patch", Title: "RHSA-2021:3666: nodejs security update (Important)", Desc: "d", Severity: "Important",
			CPEs: []string{"cpe:/a:redhat:enterprise_linux:8::appstream"},
			Crit: &ovCrit{Op: "OR", Subs: []*ovCrit{
				{Op: "AND", Leaves: []ovLeaf{leafMod("nodejs:12"), {b.pkgTest("nodejs", nil, &e1, nil), "nodejs is earlier than " + e1}}},
				{Op: "AND", Leaves: []ovLeaf{leafMod("nodejs:14"), {b.pkgTest("npm", nil, &e2, nil), "npm is earlier than " + e2}}},
			}}}
		b.doc.Defs = append(b.doc.Defs, d)
		l.ovalDoc(&b.doc, cpeValid)
		feed := renderOval(&b.doc, g)
		r.Op("reset", "ok", false)
		vs, err, obs := parseWithTimeout(func(ctx context.Context) ([]*claircore.Vulnerability, error) { return parse(ctx, feed) })
		out := obs
		if obs == "" {
			out = canonAll(vs, err, false)
		}
		r.Op(l.String(), out, true)
		var pairs []string
		for _, v := range vs {
			if v != nil && v.Package != nil {
				pairs = append(pairs, v.Package.Name+"@"+v.Package.Module)
			}
		}
		got := strings.Join(pairs, " ")
		switch got {
		case "nodejs@nodejs:12 npm@nodejs:14":
			// stated exactly
		case "nodejs@nodejs:12 nodejs@nodejs:14 npm@nodejs:12 npm@nodejs:14":
			r.KnownSeen("oval-module-flattening", "definition with AND[Module nodejs:12, nodejs<"+e1+"] OR AND[Module nodejs:14, npm<"+e2+"] states 2 (package, module) pairs; RPMDefsToVulns returns 4: "+got)
		default:
			r.Fail("", "rhel OVAL two-module witness: returned "+got+"; feed="+clip(feed))
		}
	}
	// 2. malformed: an rpminfo_test without <object> (the schema requires one): the walker returns an error, in the model too
	{
		b, l, parse := mk()
		t := ovTest{ID: b.id("tst"), Kind: "rpminfo_test"}
		b.doc.Tests = append(b.doc.Tests, t)
		b.doc.Defs = append(b.doc.Defs, ovDef{ID: "oval:com.redhat.rhsa:def:1", Class: "patch", Title: "t", CPEs: []string{"cpe:/a:redhat:enterprise_linux:8"},
			Crit: &ovCrit{Op: "OR", Leaves: []ovLeaf{{t.ID, "x is earlier than 1"}}}})
		l.ovalDoc(&b.doc, cpeValid)
		feed := renderOval(&b.doc, g)
		r.Op("reset", "ok", false)
		vs, err, obs := parseWithTimeout(func(ctx context.Context) ([]*claircore.Vulnerability, error) { return parse(ctx, feed) })
		out := obs
		if obs == "" {
			out = canonAll(vs, err, false)
		}
		r.Op(l.String(), out, true)
		r.Count("oval:malformed:test-without-object:" + strings.SplitN(out, " ", 2)[0])
	}
}
