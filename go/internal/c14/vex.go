package c14

import (
	"bytes"
	"context"
	"encoding/json"
	"fmt"
	"io"
	"sort"
	"strconv"
	"strings"

	"github.com/klauspost/compress/snappy"

	"github.com/quay/claircore"
	"github.com/quay/claircore/rhel"
	"github.com/quay/claircore/rhel/vex"
	"github.com/quay/claircore/toolkit/types/cpe"
	"github.com/quay/claircore/verifharness/internal/hx"
)

// Red Hat VEX (CSAF) — translation validation only: there is no Lean model of
// rhel/vex/parser.go. A ground truth (repositories, module streams, fixed and
// unfixed components, components marked not affected / under investigation,
// severities, scores, remediations) is rendered as CSAF documents (jsonl,
// snappy) and the result of the real DeltaParse is compared with what the
// ground truth states.

type vexRepo struct{ ID, CPE string }
type vexModule struct{ ID, Name, Stream string } // ID = name:stream:version:context
type vexFixed struct {
	Repo, Module int // Module = -1: none
	Name         string
	Epoch        string // "" = no epoch qualifier
	VR           string
	Arches       []string
	Namespace    string // "redhat" or something else (then not ingested)
	Impact       string // "" = no impact threat
	Vector       string // "" = no score
	Remediation  string // "" = none
	ZeroScore    bool   // the baseScore of the score is 0.0
}
type vexUnfixed struct {
	Repo, Module int
	Name         string
	Status       string // known_affected | known_not_affected | under_investigation
	Impact       string
	Vector       string
	ZeroScore    bool
}
type vexDoc struct {
	ID, Status, SelfLink, Desc string
	Refs                       []string
	Repos                      []vexRepo
	Modules                    []vexModule
	Fixed                      []vexFixed
	Unfixed                    []vexUnfixed
}

var vexCPEs = []string{"cpe:/a:redhat:enterprise_linux:8::appstream", "cpe:/o:redhat:enterprise_linux:8::baseos", "cpe:/a:redhat:rhel_eus:8.6::appstream",
	"cpe:/a:redhat:enterprise_linux:9::crb", "cpe:/o:redhat:enterprise_linux:7", "cpe:/a:redhat:rhel_e4s:9.0::appstream", "cpe:/a:redhat:openshift:4.1*::el8"}
var vexRepoIDs = []string{"AppStream-8.10.0.Z.MAIN.EUS", "BaseOS-8.10.0.Z.MAIN.EUS", "AppStream-8.6.0.Z.EUS", "CRB-9.4.0.Z.MAIN.EUS", "red_hat_enterprise_linux_7", "AppStream-9.0.0.Z.E4S", "8Base-RHOSE-4.12"}
var vexVectors = []string{"CVSS:3.1/AV:N/AC:H/PR:L/UI:N/S:U/C:H/I:H/A:H", "CVSS:3.1/AV:N/AC:L/PR:N/UI:N/S:U/C:N/I:N/A:H", "CVSS:3.0/AV:L/AC:L/PR:L/UI:N/S:U/C:L/I:N/A:N"}
var vexImpacts = []string{"Low", "Moderate", "Important", "Critical", "", "", "None", "important"}

func (g *gen) vexDoc(n int) vexDoc {
	d := vexDoc{ID: "CVE-2024-" + strconv.Itoa(1000+n), Status: "final", Desc: g.text(6)}
	if g.r.Chance(1, 12) {
		d.Status = "deleted"
	}
	d.SelfLink = "https://access.redhat.com/security/data/csaf/v2/vex/2024/" + strings.ToLower(d.ID) + ".json"
	for i, m := 0, g.r.Intn(3); i < m; i++ {
		d.Refs = append(d.Refs, genURL(g))
	}
	nr := 1 + g.r.Intn(3)
	perm := g.r.Intn(len(vexCPEs))
	for i := 0; i < nr; i++ {
		k := (perm + i) % len(vexCPEs)
		d.Repos = append(d.Repos, vexRepo{ID: vexRepoIDs[k], CPE: vexCPEs[k]})
	}
	for i, m := 0, g.r.Intn(3); i < m; i++ {
		name, stream := g.r.Pick("nodejs", "postgresql", "php", "container-tools"), g.r.Pick("12", "16", "rhel8", "7.4")
		id := fmt.Sprintf("%s:%s:80600202%d:%s", name, stream, 10000+g.r.Intn(1000), g.word(8, 8))
		dup := false
		for _, x := range d.Modules {
			if x.Name == name && x.Stream == stream {
				dup = true
			}
		}
		if !dup {
			d.Modules = append(d.Modules, vexModule{ID: id, Name: name, Stream: stream})
		}
	}
	mod := func() int {
		if len(d.Modules) == 0 || g.r.Chance(1, 2) {
			return -1
		}
		return g.r.Intn(len(d.Modules))
	}
	seenF := map[string]bool{}
	for i, m := 0, g.r.Intn(5); i < m; i++ {
		f := vexFixed{Repo: g.r.Intn(len(d.Repos)), Module: mod(), Name: g.pkg(), Epoch: g.r.Pick("", "", "0", "1", "2"),
			VR:        strconv.Itoa(1+g.r.Intn(9)) + "." + strconv.Itoa(g.r.Intn(30)) + "-" + strconv.Itoa(1+g.r.Intn(20)) + g.r.Pick(".el8_6", ".el9", ".module+el8.6.0+15000+abcdef12"),
			Namespace: "redhat", Impact: g.r.Pick(vexImpacts...)}
		if f.Name == "kernel" && g.r.Chance(1, 2) {
			f.Name = "kernel-rt"
		}
		switch g.r.Intn(6) {
		case 0:
			f.Arches = []string{"src"}
		case 1:
			f.Arches = []string{"noarch"}
		case 2:
			f.Arches = nil // no arch qualifier at all
		default:
			f.Arches = distinct(1+g.r.Intn(4), func() string { return g.r.Pick("x86_64", "aarch64", "ppc64le", "s390x", "i686", "src") })
		}
		if g.r.Chance(1, 10) {
			f.Namespace = g.r.Pick("fedora", "", "centos")
		}
		if g.r.Chance(2, 3) {
			f.Vector = g.r.Pick(vexVectors...)
			f.ZeroScore = g.r.Chance(1, 5)
		}
		if g.r.Chance(1, 2) {
			f.Remediation = "https://access.redhat.com/errata/RHSA-2024:" + strconv.Itoa(1000+g.r.Intn(9000))
		}
		key := fmt.Sprint(f.Repo, f.Module, f.Name, f.Epoch, f.VR)
		key2 := fmt.Sprint(f.Repo, f.Module, f.Name) // one version of a package per (repository, module) keeps product ids distinct
		if seenF[key] || seenF[key2] {
			continue
		}
		seenF[key], seenF[key2] = true, true
		d.Fixed = append(d.Fixed, f)
	}
	seenU := map[string]bool{}
	for i, m := 0, g.r.Intn(5); i < m; i++ {
		u := vexUnfixed{Repo: g.r.Intn(len(d.Repos)), Module: mod(), Name: g.pkg(), Impact: g.r.Pick(vexImpacts...)}
		switch g.r.Intn(6) {
		case 0:
			u.Status = "known_not_affected"
		case 1:
			u.Status = "under_investigation"
		default:
			u.Status = "known_affected"
		}
		if g.r.Chance(1, 2) {
			u.Vector = g.r.Pick(vexVectors...)
			u.ZeroScore = g.r.Chance(1, 5)
		}
		key := fmt.Sprint(u.Repo, u.Module, u.Name)
		if seenU[key] || seenF[key] {
			continue
		}
		seenU[key] = true
		d.Unfixed = append(d.Unfixed, u)
	}
	return d
}

func qesc(s string) string { return strings.NewReplacer("+", "%2B", ":", "%3A", " ", "%20").Replace(s) }

// renderVex renders one CSAF document (one line of the feed).
func renderVex(d vexDoc) []byte {
	type prod = map[string]any
	branch := func(cat, name string, p prod) map[string]any {
		return map[string]any{"category": cat, "name": name, "product": p}
	}
	var repoBr, compBr []map[string]any
	for _, r := range d.Repos {
		repoBr = append(repoBr, branch("product_name", r.ID, prod{"name": r.ID, "product_id": r.ID, "product_identification_helper": map[string]string{"cpe": r.CPE}}))
	}
	for _, m := range d.Modules {
		ver := strings.TrimPrefix(m.ID, m.Name+":")
		compBr = append(compBr, branch("product_version", m.ID, prod{"name": m.ID, "product_id": m.ID,
			"product_identification_helper": map[string]string{"purl": "pkg:rpmmod/redhat/" + m.Name + "@" + qesc(ver)}}))
	}
	var rels []map[string]any
	rel := func(id, ref, to string) {
		rels = append(rels, map[string]any{"category": "default_component_of", "full_product_name": prod{"name": ref + " as a component of " + to, "product_id": id},
			"product_reference": ref, "relates_to_product_reference": to})
	}
	relMod := map[string]bool{}
	// parent returns the product id a component is a component of (repo or repo:module), adding the module relationship once
	parent := func(repo, mod int) string {
		rid := d.Repos[repo].ID
		if mod < 0 {
			return rid
		}
		id := rid + ":" + d.Modules[mod].ID
		if !relMod[id] {
			relMod[id] = true
			rel(id, d.Modules[mod].ID, rid)
		}
		return id
	}
	status := map[string][]string{}
	threats := map[string][]string{}
	scores := map[string][]string{}
	rems := map[string][]string{}
	declared := map[string]bool{}
	for _, f := range d.Fixed {
		par := parent(f.Repo, f.Module)
		arches := f.Arches
		if arches == nil {
			arches = []string{""}
		}
		for _, a := range arches {
			ep := f.Epoch
			if ep == "" {
				ep = "0"
			}
			cid := f.Name + "-" + ep + ":" + f.VR
			purl := "pkg:rpm/" + f.Namespace + "/" + f.Name + "@" + qesc(f.VR)
			if f.Namespace == "" {
				purl = "pkg:rpm/" + f.Name + "@" + qesc(f.VR)
			}
			var q []string
			if a != "" {
				cid += "." + a
				q = append(q, "arch="+a)
			}
			if f.Epoch != "" {
				q = append(q, "epoch="+f.Epoch)
			}
			if len(q) > 0 {
				purl += "?" + strings.Join(q, "&")
			}
			if !declared[cid] {
				declared[cid] = true
				compBr = append(compBr, branch("product_version", cid, prod{"name": cid, "product_id": cid, "product_identification_helper": map[string]string{"purl": purl}}))
			}
			pid := par + ":" + cid
			rel(pid, cid, par)
			status["fixed"] = append(status["fixed"], pid)
			if f.Impact != "" {
				threats[f.Impact] = append(threats[f.Impact], pid)
			}
			if f.Vector != "" {
				scores[scoreKey(f.Vector, f.ZeroScore)] = append(scores[scoreKey(f.Vector, f.ZeroScore)], pid)
			}
			if f.Remediation != "" {
				rems[f.Remediation] = append(rems[f.Remediation], pid)
			}
		}
	}
	for _, u := range d.Unfixed {
		par := parent(u.Repo, u.Module)
		cid := u.Name
		if !declared[cid] {
			declared[cid] = true
			compBr = append(compBr, branch("product_version", cid, prod{"name": cid, "product_id": cid, "product_identification_helper": map[string]string{"purl": "pkg:rpm/redhat/" + u.Name + "?arch=src"}}))
		}
		pid := par + ":" + cid
		rel(pid, cid, par)
		status[u.Status] = append(status[u.Status], pid)
		if u.Impact != "" {
			threats[u.Impact] = append(threats[u.Impact], pid)
		}
		if u.Vector != "" {
			scores[scoreKey(u.Vector, u.ZeroScore)] = append(scores[scoreKey(u.Vector, u.ZeroScore)], pid)
		}
	}
	vuln := map[string]any{"cve": d.ID, "release_date": "2024-08-08T00:00:00+00:00", "product_status": status,
		"notes": []map[string]string{{"category": "summary", "text": "a summary", "title": "Vulnerability summary"}, {"category": "description", "text": d.Desc, "title": "Vulnerability description"}}}
	var refs []map[string]string
	for _, u := range d.Refs {
		refs = append(refs, map[string]string{"category": "external", "summary": "x", "url": u})
	}
	vuln["references"] = refs
	var ts []map[string]any
	for _, k := range sortedSetKeys(threats) {
		ts = append(ts, map[string]any{"category": "impact", "details": k, "product_ids": threats[k]})
	}
	if len(status["fixed"]) > 0 {
		ts = append(ts, map[string]any{"category": "exploit_status", "details": "Critical", "product_ids": status["fixed"]}) // not an impact threat
	}
	vuln["threats"] = ts
	var ss []map[string]any
	for _, k := range sortedSetKeys(scores) {
		vec, zero, _ := strings.Cut(k, "|")
		ver := "3.1"
		if strings.HasPrefix(vec, "CVSS:3.0") {
			ver = "3.0"
		}
		base := 7.5
		if zero == "zero" {
			base = 0.0
		}
		ss = append(ss, map[string]any{"cvss_v3": map[string]any{"baseScore": base, "baseSeverity": "HIGH", "vectorString": vec, "version": ver}, "products": scores[k]})
	}
	vuln["scores"] = ss
	var rs []map[string]any
	for _, k := range sortedSetKeys(rems) {
		rs = append(rs, map[string]any{"category": "vendor_fix", "details": "apply the update", "product_ids": rems[k], "url": k})
	}
	vuln["remediations"] = rs
	doc := map[string]any{
		"document": map[string]any{"category": "csaf_vex", "csaf_version": "2.0", "title": d.ID,
			"tracking":   map[string]any{"id": d.ID, "status": d.Status, "current_release_date": "2024-09-16T20:59:13+00:00", "initial_release_date": "2024-08-08T00:00:00+00:00", "version": "3"},
			"references": []map[string]string{{"category": "self", "summary": "Canonical URL", "url": d.SelfLink}, {"category": "external", "summary": "x", "url": "https://example.com/other"}},
			"publisher":  map[string]string{"category": "vendor", "name": "Red Hat Product Security", "namespace": "https://www.redhat.com"}},
		"product_tree": map[string]any{
			"branches":      []map[string]any{{"category": "vendor", "name": "Red Hat", "branches": append([]map[string]any{{"category": "product_family", "name": "Red Hat Enterprise Linux", "branches": repoBr}}, compBr...)}},
			"relationships": rels},
		"vulnerabilities": []any{vuln},
	}
	b, _ := json.Marshal(doc)
	return b
}

func scoreKey(vec string, zero bool) string {
	if zero {
		return vec + "|zero"
	}
	return vec + "|"
}

func sortedSetKeys(m map[string][]string) []string {
	ks := make([]string, 0, len(m))
	for k := range m {
		ks = append(ks, k)
	}
	sort.Strings(ks)
	return ks
}

func vexArch(a string) string {
	if a == "amd64" || a == "x86_64" {
		return "amd64|x86_64"
	}
	return a
}

// vexWants: what the documents state, as (name, package, fixed, repo, module, arch pattern, kind, severity string, links) tuples.
func vexWants(docs []vexDoc) (wants []want, deleted map[string]bool, zeroScore int) {
	deleted = map[string]bool{}
	last := map[string]int{}
	for i, d := range docs {
		last[d.ID] = i
	}
	for i, d := range docs {
		if d.Status == "deleted" {
			deleted[d.ID] = true
			continue
		}
		if last[d.ID] != i {
			continue // a later line for the same advisory replaces this one
		}
		links := strings.Join(append(append([]string{}, d.Refs...), d.SelfLink), " ")
		n := 0
		mk := func(pkg, fixed, repoCPE, mod, arch, kind string, archop int, impact, vector, lnk string) {
			sevstr := "Unknown"
			if vector != "" {
				sevstr = vector
			}
			nsev := claircore.Unknown
			if impact != "" {
				nsev = rhel.NormalizeSeverityForC14(impact)
			}
			w, _ := cpe.Unbind(escapeCPEGo(repoCPE))
			wants = append(wants, want{ID: d.ID, Pkg: pkg, Fixed: fixed, Dist: "", Sev: nsev,
				Extra: fmt.Sprintf("kind=%s module=%s arch=%s archop=%d repo=%s|rhel-cpe-repository| sevstr=%q links=%q desc=%q", kind, mod, arch, archop, w.String(), sevstr, lnk, d.Desc)})
			n++
		}
		modName := func(m int) string {
			if m < 0 {
				return ""
			}
			return d.Modules[m].Name + ":" + d.Modules[m].Stream
		}
		for _, f := range d.Fixed {
			if f.Namespace != "redhat" || strings.HasPrefix(f.Name, "kernel") {
				continue
			}
			if f.Vector != "" && f.ZeroScore && f.Impact == "" {
				zeroScore++ // a 0.0 base score and no impact statement: the product is disregarded
				continue
			}
			ep := f.Epoch
			if ep == "" {
				ep = "0"
			}
			var as []string
			for _, a := range f.Arches {
				as = append(as, vexArch(a))
			}
			archop := 0
			if len(as) > 0 {
				archop = int(claircore.OpPatternMatch)
			}
			lnk := links
			if f.Remediation != "" {
				lnk += " " + f.Remediation
			}
			mk(f.Name, ep+":"+f.VR, d.Repos[f.Repo].CPE, modName(f.Module), strings.Join(as, "|"), claircore.BINARY, archop, f.Impact, f.Vector, lnk)
		}
		for _, u := range d.Unfixed {
			if u.Status != "known_affected" || strings.HasPrefix(u.Name, "kernel") {
				continue
			}
			if u.Vector != "" && u.ZeroScore && u.Impact == "" {
				zeroScore++
				continue
			}
			mk(u.Name, "", d.Repos[u.Repo].CPE, modName(u.Module), "", claircore.SOURCE, 0, u.Impact, u.Vector, links)
		}
		if n == 0 {
			deleted[d.ID] = true // an advisory that yields nothing is reported as deleted
		}
	}
	return wants, deleted, zeroScore
}

// escapeCPEGo mirrors the parser's handling of a trailing '*' / '?' in a CPE 2.2 URI component.
func escapeCPEGo(ch string) string {
	c := strings.Split(ch, ":")
	for i := range c {
		if strings.HasSuffix(c[i], "*") {
			c[i] = c[i][:len(c[i])-1] + `%02`
		}
		c[i] = strings.ReplaceAll(c[i], "?", "%01")
	}
	return strings.Join(c, ":")
}

func vexExtra(v *claircore.Vulnerability) string {
	kind, mod, arch := "?", "", ""
	if v.Package != nil {
		kind, mod, arch = v.Package.Kind, v.Package.Module, v.Package.Arch
	}
	return fmt.Sprintf("kind=%s module=%s arch=%s archop=%d repo=%s sevstr=%q links=%q desc=%q", kind, mod, arch, int(v.ArchOperation), repoKeyNoCPE(v.Repo), v.Severity, v.Links, v.Description)
}

func runVex(r *hx.Run, g *gen, cfg hx.Config) {
	u := &vex.Updater{}
	for it, n := 0, cfg.N(1200, 10000); it < n && !r.Stop(); it++ {
		var docs []vexDoc
		for i, m := 0, 1+g.r.Intn(3); i < m; i++ {
			docs = append(docs, g.vexDoc(it*4+i))
		}
		if len(docs) > 1 && docs[0].Status == "final" && g.r.Chance(1, 5) {
			// a later line for the first advisory again (both not deleted: Fetch never emits an
			// advisory both as a document and as a deletion record)
			d := g.vexDoc(it * 4)
			d.Status = "final"
			docs = append(docs, d)
		}
		var plain bytes.Buffer
		for _, d := range docs {
			plain.Write(renderVex(d))
			plain.WriteByte('\n')
		}
		var comp bytes.Buffer
		sw := snappy.NewBufferedWriter(&comp)
		sw.Write(plain.Bytes())
		sw.Close()
		wants, wantDel, nz := vexWants(docs)
		for i := 0; i < nz; i++ {
			r.Count("vex:zero-score-disregarded")
		}
		var vs []*claircore.Vulnerability
		var del []string
		var err error
		obs := hx.Guard(func() string {
			vs, del, err = u.DeltaParse(context.Background(), io.NopCloser(bytes.NewReader(comp.Bytes())))
			return ""
		})
		key := fmt.Sprintf("vex %d docs %d stated", len(docs), len(wants))
		r.Case(key+fmt.Sprint(it), len(wants) > 0)
		r.Count("vex:vulns:" + bucket(len(wants)))
		wit := func() string { return "feed=" + clip(plain.Bytes()) }
		if obs != "" || err != nil {
			r.Fail("", fmt.Sprintf("vex DeltaParse of well-formed CSAF documents: %s%v; %s", obs, err, wit()))
			continue
		}
		if d := checkExact(wants, vs, vexExtra); d != "" {
			r.Fail("", fmt.Sprintf("vex: %s; %s", d, wit()))
			continue
		}
		gotDel := map[string]bool{}
		for _, x := range del {
			gotDel[x] = true
		}
		for k := range wantDel {
			if !gotDel[k] {
				r.Fail("", fmt.Sprintf("vex: advisory %s yields nothing but is not reported as deleted; %s", k, wit()))
			}
		}
		for k := range gotDel {
			if !wantDel[k] {
				r.Fail("", fmt.Sprintf("vex: advisory %s is reported as deleted although it states vulnerabilities; %s", k, wit()))
			}
		}
		for _, v := range vs {
			if v.Repo != nil {
				if w, err := cpe.Unbind(v.Repo.Name); err != nil || w.String() != v.Repo.CPE.String() {
					r.Fail("", fmt.Sprintf("vex: repository %q carries CPE %q; %s", v.Repo.Name, v.Repo.CPE.String(), wit()))
				}
			}
		}
		for _, d := range docs {
			for _, x := range d.Unfixed {
				r.Count("vex:status:" + x.Status)
			}
			r.Count("vex:fixed-components:" + bucket(len(d.Fixed)))
		}
	}
}
