package c14

import (
	"bytes"
	"context"
	"encoding/json"
	"fmt"
	"io"
	"sort"
	"strconv"
	"strings"
	"time"

	"github.com/klauspost/compress/snappy"
	"github.com/package-url/packageurl-go"

	"github.com/quay/claircore"
	"github.com/quay/claircore/pkg/rhctag"
	"github.com/quay/claircore/rhel"
	"github.com/quay/claircore/rhel/vex"
	"github.com/quay/claircore/toolkit/types/cpe"
	"github.com/quay/claircore/toolkit/types/cvss"
	"github.com/quay/claircore/verifharness/internal/hx"
)

// Red Hat VEX (CSAF).  A ground truth (repositories, module streams, fixed and
// unfixed rpm components, container images, components marked not affected /
// under investigation, severities, scores, remediations) is turned into the
// *decoded document* (cDoc: product tree, relationships, statuses, threats,
// scores, remediations).  The cDoc is written as the operation line (the Lean
// model Model/FeedVex.lean answers it) and rendered as CSAF JSON (jsonl,
// snappy) for the real DeltaParse.  The result is also compared directly with
// what the ground truth states, for the feeds inside the oracle's domain.

// ---- the decoded document ----

type cCvss struct {
	Vector string
	Base   float64
}
type cScore struct {
	V2, V3, V4 *cCvss
	Products   []string
}
type cThreat struct {
	Category, Details string
	Products          []string
}
type cRem struct {
	URL      string
	Products []string
}
type cProduct struct {
	ID        string
	CPE, Purl *string
}
type cBranch struct {
	Category, Name string
	Product        *cProduct // nil: the branch has no product member
	Subs           []*cBranch
}
type cRel struct{ Category, FullID, Ref, RelTo string }
type cVuln struct {
	CVE        string
	Issued     time.Time
	Refs       []string
	Notes      [][2]string
	StatusKeys []string // order of the keys of product_status as written
	Status     map[string][]string
	Threats    []cThreat
	Scores     []cScore
	Rems       []cRem
}
type cDoc struct {
	ID, Status string
	DocRefs    [][2]string
	Branches   []*cBranch
	Rels       []cRel
	Vulns      []cVuln
}

// ---- ground truth ----

type vexRepo struct{ ID, CPE string }
type vexModule struct{ ID, Name, Stream string } // ID = name:stream:version:context
type vexFixed struct {
	Repo, Module int // Module = -1: none
	Name         string
	Epoch        string // "" = no epoch qualifier
	VR           string
	Arches       []string
	Namespace    string // "redhat" or something else (then not ingested)
	Impact       string // "" = no impact threat
	Vector       string // "" = no score
	Remediation  string // "" = none
	ZeroScore    bool   // the baseScore of the score is 0.0
	// container image instead of an rpm: Name is the image name inside the
	// registry ("openshift4/ose-cli"), Tag the fixed tag, Maj/Min what rhctag reads from it
	OCI      bool
	Tag      string
	Maj, Min int
}
type vexUnfixed struct {
	Repo, Module int
	Name         string
	Status       string // known_affected | known_not_affected | under_investigation
	Impact       string
	Vector       string
	ZeroScore    bool
	OCI          bool
	NoPurl       bool // the component product has no purl helper: it is reported under its product id
}
type vexDoc struct {
	ID, Status, SelfLink, Desc string
	OldSelfLink                string // non-empty: an earlier reference of category "self" (the last one counts)
	Issued                     time.Time
	Refs                       []string
	Repos                      []vexRepo
	Modules                    []vexModule
	Fixed                      []vexFixed
	Unfixed                    []vexUnfixed
	ModelOnly                  string // non-empty: the decoded document was altered in a way the ground truth does not describe
}

var vexCPEs = []string{"cpe:/a:redhat:enterprise_linux:8::appstream", "cpe:/o:redhat:enterprise_linux:8::baseos", "cpe:/a:redhat:rhel_eus:8.6::appstream",
	"cpe:/a:redhat:enterprise_linux:9::crb", "cpe:/o:redhat:enterprise_linux:7", "cpe:/a:redhat:rhel_e4s:9.0::appstream", "cpe:/a:redhat:openshift:4.1*::el8", "cpe:/a:redhat:openshift:4.??::el9"}
var vexRepoIDs = []string{"AppStream-8.10.0.Z.MAIN.EUS", "BaseOS-8.10.0.Z.MAIN.EUS", "AppStream-8.6.0.Z.EUS", "CRB-9.4.0.Z.MAIN.EUS", "red_hat_enterprise_linux_7", "AppStream-9.0.0.Z.E4S", "8Base-RHOSE-4.12", "9Base-RHOSE-4.14"}
var vexVectors = []string{"CVSS:3.1/AV:N/AC:H/PR:L/UI:N/S:U/C:H/I:H/A:H", "CVSS:3.1/AV:N/AC:L/PR:N/UI:N/S:U/C:N/I:N/A:H", "CVSS:3.0/AV:L/AC:L/PR:L/UI:N/S:U/C:L/I:N/A:N"}
var vexImpacts = []string{"Low", "Moderate", "Important", "Critical", "", "", "None", "important", "LOW", "Severe"}
var vexImages = []string{"openshift4/ose-cli", "openshift4/ose-metering-hive", "ocs4/rook-ceph-rhel8-operator", "rhel8/postgresql-13", "ubi9/nodejs-18"}

func (g *gen) vexDoc(n int) vexDoc {
	d := vexDoc{ID: "CVE-2024-" + strconv.Itoa(1000+n), Status: "final", Desc: g.text(6), Issued: g.date()}
	if g.r.Chance(1, 12) {
		d.Status = "deleted"
	}
	d.SelfLink = "https://access.redhat.com/security/data/csaf/v2/vex/2024/" + strings.ToLower(d.ID) + ".json"
	if g.r.Chance(1, 6) {
		d.OldSelfLink = "https://access.redhat.com/security/data/csaf/v2/vex/2023/" + strings.ToLower(d.ID) + ".json"
	}
	for i, m := 0, g.r.Intn(3); i < m; i++ {
		d.Refs = append(d.Refs, genURL(g))
	}
	nr := 1 + g.r.Intn(3)
	perm := g.r.Intn(len(vexCPEs))
	// product ids are document-scoped: now and then the same repository id stands for another CPE
	shift := 0
	if g.r.Chance(1, 4) {
		shift = 1 + g.r.Intn(len(vexCPEs)-1)
	}
	for i := 0; i < nr; i++ {
		k := (perm + i) % len(vexCPEs)
		d.Repos = append(d.Repos, vexRepo{ID: vexRepoIDs[k], CPE: vexCPEs[(k+shift)%len(vexCPEs)]})
	}
	for i, m := 0, g.r.Intn(3); i < m; i++ {
		name, stream := g.r.Pick("nodejs", "postgresql", "php", "container-tools"), g.r.Pick("12", "16", "rhel8", "7.4")
		id := fmt.Sprintf("%s:%s:80600202%d:%s", name, stream, 10000+g.r.Intn(1000), g.word(8, 8))
		dup := false
		for _, x := range d.Modules {
			if x.Name == name && x.Stream == stream {
				dup = true
			}
		}
		if !dup {
			d.Modules = append(d.Modules, vexModule{ID: id, Name: name, Stream: stream})
		}
	}
	mod := func() int {
		if len(d.Modules) == 0 || g.r.Chance(1, 2) {
			return -1
		}
		return g.r.Intn(len(d.Modules))
	}
	seenF := map[string]bool{}
	for i, m := 0, g.r.Intn(5); i < m; i++ {
		f := vexFixed{Repo: g.r.Intn(len(d.Repos)), Module: mod(), Name: g.pkg(), Epoch: g.r.Pick("", "", "0", "1", "2"),
			VR:        strconv.Itoa(1+g.r.Intn(9)) + "." + strconv.Itoa(g.r.Intn(30)) + "-" + strconv.Itoa(1+g.r.Intn(20)) + g.r.Pick(".el8_6", ".el9", ".module+el8.6.0+15000+abcdef12"),
			Namespace: "redhat", Impact: g.r.Pick(vexImpacts...)}
		if f.Name == "kernel" && g.r.Chance(1, 2) {
			f.Name = "kernel-rt"
		}
		switch g.r.Intn(6) {
		case 0:
			f.Arches = []string{"src"}
		case 1:
			f.Arches = []string{"noarch"}
		case 2:
			f.Arches = nil // no arch qualifier at all
		default:
			f.Arches = distinct(1+g.r.Intn(4), func() string { return g.r.Pick("x86_64", "aarch64", "ppc64le", "s390x", "i686", "src", "amd64") })
		}
		if g.r.Chance(1, 10) {
			f.Namespace = g.r.Pick("fedora", "", "centos")
		}
		if g.r.Chance(1, 6) {
			// a container image: no module, no epoch, arches of images
			f.OCI, f.Module, f.Epoch, f.Namespace = true, -1, "", "redhat"
			f.Name = g.r.Pick(vexImages...)
			f.Maj, f.Min = 4, 6+g.r.Intn(4)
			switch g.r.Intn(4) {
			case 0:
				f.Tag = fmt.Sprintf("v%d.%d.0-20230%d140546.p0.g8b9da97.assembly.stream", f.Maj, f.Min, 1+g.r.Intn(9))
			case 1:
				f.Tag = fmt.Sprintf("%d.%d-%d.49a6fcf.release_%d.%d", f.Maj, f.Min, 100+g.r.Intn(100), f.Maj, f.Min)
			case 2:
				f.Tag, f.Min = fmt.Sprintf("%d-%d", f.Maj, 1+g.r.Intn(99)), 0
			default:
				f.Tag = fmt.Sprintf("v%d.%d.%d", f.Maj, f.Min, g.r.Intn(30))
			}
			f.Arches = distinct(1+g.r.Intn(3), func() string { return g.r.Pick("amd64", "arm64", "ppc64le", "s390x") })
		}
		if g.r.Chance(2, 3) {
			f.Vector = g.r.Pick(vexVectors...)
			f.ZeroScore = g.r.Chance(1, 5)
		}
		if g.r.Chance(1, 2) {
			f.Remediation = "https://access.redhat.com/errata/RHSA-2024:" + strconv.Itoa(1000+g.r.Intn(9000))
		}
		key := fmt.Sprint(f.Repo, f.Module, f.Name, f.Epoch, f.VR, f.Tag)
		key2 := fmt.Sprint(f.Repo, f.Module, f.Name) // one version of a package per (repository, module) keeps product ids distinct
		if seenF[key] || seenF[key2] {
			continue
		}
		seenF[key], seenF[key2] = true, true
		d.Fixed = append(d.Fixed, f)
		if !f.OCI && f.Module >= 0 && g.r.Chance(1, 4) {
			// the same build also shipped outside the module, in the same repository: a second, module-less package
			t := f
			t.Module = -1
			if k := fmt.Sprint(t.Repo, t.Module, t.Name); !seenF[k] {
				seenF[k] = true
				d.Fixed = append(d.Fixed, t)
			}
		}
	}
	seenU := map[string]bool{}
	noPurl := map[string]bool{} // per component name: a component product is declared once
	for i, m := 0, g.r.Intn(5); i < m; i++ {
		u := vexUnfixed{Repo: g.r.Intn(len(d.Repos)), Module: mod(), Name: g.pkg(), Impact: g.r.Pick(vexImpacts...)}
		if g.r.Chance(1, 8) {
			u.OCI, u.Module, u.Name = true, -1, g.r.Pick(vexImages...)
		} else if g.r.Chance(1, 5) {
			u.NoPurl = true
		}
		if v, ok := noPurl[u.Name]; ok {
			u.NoPurl = v && !u.OCI
		} else {
			noPurl[u.Name] = u.NoPurl
		}
		switch g.r.Intn(6) {
		case 0:
			u.Status = "known_not_affected"
		case 1:
			u.Status = "under_investigation"
		default:
			u.Status = "known_affected"
		}
		if g.r.Chance(1, 2) {
			u.Vector = g.r.Pick(vexVectors...)
			u.ZeroScore = g.r.Chance(1, 5)
		}
		key := fmt.Sprint(u.Repo, u.Module, u.Name)
		if seenU[key] || seenF[key] {
			continue
		}
		seenU[key] = true
		d.Unfixed = append(d.Unfixed, u)
	}
	return d
}

func qesc(s string) string { return strings.NewReplacer("+", "%2B", ":", "%3A", " ", "%20").Replace(s) }

func sp(s string) *string { return &s }

// imageID is the product id of a container image component.
func imageID(name string) string { return strings.ReplaceAll(name, "/", "_") }

// decoded builds the document a ground truth stands for.
func (d vexDoc) decoded() cDoc {
	c := cDoc{ID: d.ID, Status: d.Status, DocRefs: [][2]string{{"self", d.SelfLink}, {"external", "https://example.com/other"}}}
	if d.OldSelfLink != "" {
		c.DocRefs = append([][2]string{{"self", d.OldSelfLink}}, c.DocRefs...)
	}
	var repoBr, compBr []*cBranch
	for _, r := range d.Repos {
		repoBr = append(repoBr, &cBranch{Category: "product_name", Name: r.ID, Product: &cProduct{ID: r.ID, CPE: sp(r.CPE)}})
	}
	for _, m := range d.Modules {
		ver := strings.TrimPrefix(m.ID, m.Name+":")
		compBr = append(compBr, &cBranch{Category: "product_version", Name: m.ID, Product: &cProduct{ID: m.ID, Purl: sp("pkg:rpmmod/redhat/" + m.Name + "@" + qesc(ver))}})
	}
	rel := func(id, ref, to string) {
		c.Rels = append(c.Rels, cRel{"default_component_of", id, ref, to})
	}
	relMod := map[string]bool{}
	// parent returns the product id a component is a component of (repo or repo:module), adding the module relationship once
	parent := func(repo, mod int) string {
		rid := d.Repos[repo].ID
		if mod < 0 {
			return rid
		}
		id := rid + ":" + d.Modules[mod].ID
		if !relMod[id] {
			relMod[id] = true
			rel(id, d.Modules[mod].ID, rid)
		}
		return id
	}
	status := map[string][]string{}
	var statusKeys []string
	addStatus := func(k, pid string) {
		if _, ok := status[k]; !ok {
			statusKeys = append(statusKeys, k)
		}
		status[k] = append(status[k], pid)
	}
	threats := map[string][]string{}
	scores := map[string][]string{}
	rems := map[string][]string{}
	declared := map[string]bool{}
	declare := func(cid, purl string) {
		if !declared[cid] {
			declared[cid] = true
			compBr = append(compBr, &cBranch{Category: "product_version", Name: cid, Product: &cProduct{ID: cid, Purl: sp(purl)}})
		}
	}
	for _, f := range d.Fixed {
		par := parent(f.Repo, f.Module)
		arches := f.Arches
		if arches == nil {
			arches = []string{""}
		}
		for _, a := range arches {
			var cid, purl string
			if f.OCI {
				short := f.Name[strings.Index(f.Name, "/")+1:]
				cid = imageID(f.Name) + "@" + f.Tag + "_" + a
				purl = "pkg:oci/" + short + "@sha256%3A" + fmt.Sprintf("%064x", len(f.Tag)*7+len(a)) + "?arch=" + a + "&repository_url=registry.redhat.io/" + f.Name + "&tag=" + f.Tag
			} else {
				ep := f.Epoch
				if ep == "" {
					ep = "0"
				}
				cid = f.Name + "-" + ep + ":" + f.VR
				purl = "pkg:rpm/" + f.Namespace + "/" + f.Name + "@" + qesc(f.VR)
				if f.Namespace == "" {
					purl = "pkg:rpm/" + f.Name + "@" + qesc(f.VR)
				}
				var q []string
				if a != "" {
					cid += "." + a
					q = append(q, "arch="+a)
				}
				if f.Epoch != "" {
					q = append(q, "epoch="+f.Epoch)
				}
				if len(q) > 0 {
					purl += "?" + strings.Join(q, "&")
				}
			}
			declare(cid, purl)
			pid := par + ":" + cid
			rel(pid, cid, par)
			addStatus("fixed", pid)
			if f.Impact != "" {
				threats[f.Impact] = append(threats[f.Impact], pid)
			}
			if f.Vector != "" {
				scores[scoreKey(f.Vector, f.ZeroScore)] = append(scores[scoreKey(f.Vector, f.ZeroScore)], pid)
			}
			if f.Remediation != "" {
				rems[f.Remediation] = append(rems[f.Remediation], pid)
			}
		}
	}
	for _, u := range d.Unfixed {
		par := parent(u.Repo, u.Module)
		cid := u.Name
		purl := "pkg:rpm/redhat/" + u.Name + "?arch=src"
		if u.OCI {
			cid = imageID(u.Name)
			purl = "pkg:oci/" + u.Name[strings.Index(u.Name, "/")+1:] + "?repository_url=registry.redhat.io/" + u.Name
		}
		if u.NoPurl && !declared[cid] {
			declared[cid] = true
			compBr = append(compBr, &cBranch{Category: "product_version", Name: cid, Product: &cProduct{ID: cid}})
		}
		declare(cid, purl)
		pid := par + ":" + cid
		rel(pid, cid, par)
		addStatus(u.Status, pid)
		if u.Impact != "" {
			threats[u.Impact] = append(threats[u.Impact], pid)
		}
		if u.Vector != "" {
			scores[scoreKey(u.Vector, u.ZeroScore)] = append(scores[scoreKey(u.Vector, u.ZeroScore)], pid)
		}
	}
	v := cVuln{CVE: d.ID, Issued: d.Issued, Refs: d.Refs, Status: status, StatusKeys: statusKeys,
		Notes: [][2]string{{"summary", "a summary"}, {"description", d.Desc}}}
	for _, k := range sortedSetKeys(threats) {
		v.Threats = append(v.Threats, cThreat{"impact", k, threats[k]})
	}
	if len(status["fixed"]) > 0 {
		v.Threats = append(v.Threats, cThreat{"exploit_status", "Critical", status["fixed"]}) // not an impact threat
	}
	for _, k := range sortedSetKeys(scores) {
		vec, zero, _ := strings.Cut(k, "|")
		base := 7.5
		if zero == "zero" {
			base = 0.0
		}
		v.Scores = append(v.Scores, cScore{V3: &cCvss{Vector: vec, Base: base}, Products: scores[k]})
	}
	for _, k := range sortedSetKeys(rems) {
		v.Rems = append(v.Rems, cRem{k, rems[k]})
	}
	c.Vulns = []cVuln{v}
	c.Branches = []*cBranch{{Category: "vendor", Name: "Red Hat", Subs: append([]*cBranch{{Category: "product_family", Name: "Red Hat Enterprise Linux", Subs: repoBr}}, compBr...)}}
	return c
}

// ---- alterations the ground truth does not describe (compared with the model only) ----

func (c *cDoc) walkBranches(f func(b *cBranch)) {
	var rec func(bs []*cBranch)
	rec = func(bs []*cBranch) {
		for _, b := range bs {
			f(b)
			rec(b.Subs)
		}
	}
	rec(c.Branches)
}

// alter applies one unusual-but-decodable change to the document and names it.
func (g *gen) alter(c *cDoc) string {
	var prods []*cBranch
	c.walkBranches(func(b *cBranch) {
		if b.Product != nil {
			prods = append(prods, b)
		}
	})
	if len(prods) == 0 || len(c.Vulns) == 0 {
		return ""
	}
	pick := prods[g.r.Intn(len(prods))]
	v := &c.Vulns[0]
	all := append(append([]string{}, v.Status["fixed"]...), v.Status["known_affected"]...)
	switch g.r.Intn(17) {
	case 16:
		// one product id of a fixed component is moved into an impact threat of its own
		if fx := v.Status["fixed"]; len(fx) > 1 {
			p := fx[len(fx)-1]
			for i := range v.Threats {
				var keep []string
				for _, x := range v.Threats[i].Products {
					if x != p || v.Threats[i].Category != "impact" {
						keep = append(keep, x)
					}
				}
				v.Threats[i].Products = keep
			}
			v.Threats = append(v.Threats, cThreat{"impact", g.r.Pick("Low", "Critical"), []string{p}})
			return "one arch with an impact of its own"
		}
	case 0:
		pick.Product = nil
		return "a branch lost its product"
	case 1:
		pick.Product.CPE = nil
		return "a product lost its cpe helper"
	case 2:
		pick.Product.Purl = nil
		return "a product lost its purl helper"
	case 3:
		pick.Product.Purl = sp(g.r.Pick("notapurl", "pkg:", "pkg:rpm", "pkg:npm/left-pad@1.0.0", "pkg:rpm/redhat/@1", "pkg:generic/x?arch=src", "pkg:oci/img@sha256%3Aabc", "pkg:oci/img?tag=latest&repository_url=quay.io",
			"pkg:oci/ns/img?tag=v4.7.0-1", "pkg:rpm/redhat/kernel-headers@1-1?arch=src", "pkg:rpmmod/redhat/postgresql:15/postgresql@15:1:abc", "pkg:rpmmod/fedora/nodejs@12:1:abc", "pkg:rpmmod/redhat/nodejs@12"))
		return "a product got an unusual purl"
	case 4:
		pick.Product.CPE = sp(g.r.Pick("notacpe", "cpe:/a:red hat:x", "cpe:2.3:a", "cpe:/a:redhat:enterprise_linux:8::appstream"))
		return "a product got another cpe"
	case 5:
		if len(v.Scores) > 0 {
			s := &v.Scores[g.r.Intn(len(v.Scores))]
			switch g.r.Intn(5) {
			case 0:
				s.V2, s.V3 = &cCvss{Vector: "AV:N/AC:L/Au:N/C:P/I:P/A:P", Base: 7.5}, nil
			case 1:
				s.V4 = &cCvss{Vector: "CVSS:4.0/AV:N/AC:L/AT:N/PR:N/UI:N/VC:H/VI:H/VA:H/SC:N/SI:N/SA:N", Base: 9.3}
			case 2:
				s.V3.Vector = g.r.Pick("garbage", "CVSS:3.1/AV:N", "")
			case 3:
				s.V3 = nil // a score object without any cvss member
			default:
				s.V2, s.V4 = &cCvss{Vector: "garbage", Base: 0}, &cCvss{Vector: "CVSS:4.0/AV:N/AC:L/AT:N/PR:N/UI:N/VC:N/VI:N/VA:N/SC:N/SI:N/SA:N", Base: 0}
			}
			return "a score of another shape"
		}
	case 6:
		// a second vulnerability object in the document (the format allows it, Red Hat never writes it)
		v2 := *v
		v2.Notes = [][2]string{{"description", "second"}}
		v2.Refs = []string{"https://example.com/second"}
		v2.Status = map[string][]string{"fixed": v.Status["known_affected"], "known_affected": v.Status["fixed"]}
		v2.StatusKeys = []string{"fixed", "known_affected"}
		v2.Threats, v2.Scores, v2.Rems = nil, nil, nil
		c.Vulns = append(c.Vulns, v2)
		return "two vulnerability objects"
	case 7:
		if len(all) > 0 {
			p := all[g.r.Intn(len(all))]
			k := g.r.Pick("fixed", "known_affected")
			v.Status[k] = append(v.Status[k], p)
			if len(v.Status[k]) == 1 {
				v.StatusKeys = append(v.StatusKeys, k)
			}
			return "a product id listed twice"
		}
	case 8:
		if len(c.Rels) > 0 {
			r := c.Rels[g.r.Intn(len(c.Rels))]
			switch g.r.Intn(3) {
			case 0:
				r.Category = "optional_component_of"
				c.Rels = append([]cRel{r}, c.Rels...) // ignored: another category
			case 1:
				r.Ref = "shadow"
				c.Rels = append(c.Rels, r) // a later duplicate of the full product id: the first one counts
			default:
				for i := range c.Rels {
					if c.Rels[i].FullID == r.FullID {
						c.Rels = append(c.Rels[:i], c.Rels[i+1:]...) // the product id loses its relationship
						break
					}
				}
			}
			return "relationships changed"
		}
	case 9:
		// a component nested one level deeper: X as a component of (component of ...)
		if len(v.Status["fixed"]) > 0 {
			p := v.Status["fixed"][0]
			c.Rels = append(c.Rels, cRel{"default_component_of", "deep:" + p, "extra-layer", p})
			v.Status["fixed"] = append(v.Status["fixed"], "deep:"+p)
			return "a four-level relationship"
		}
	case 10:
		c.DocRefs = g.pickRefs()
		return "document references changed"
	case 11:
		v.Notes = [][2]string{{"description", "first"}, {"general", "x"}, {"description", "last"}}
		return "two description notes"
	case 12:
		v.Notes = nil
		return "no notes"
	case 13:
		// two component ids with the same purl and no arch: the same key twice without an arch
		for _, b := range prods {
			if b.Product.Purl != nil && strings.HasPrefix(*b.Product.Purl, "pkg:rpm/redhat/") && !strings.Contains(*b.Product.Purl, "arch=") && len(v.Status["fixed"]) > 0 {
				for _, r := range c.Rels {
					if r.Ref == b.Product.ID {
						twin := *b.Product
						twin.ID += ".twin"
						b.Subs = append(b.Subs, &cBranch{Category: "product_version", Name: twin.ID, Product: &twin})
						c.Rels = append(c.Rels, cRel{"default_component_of", r.FullID + ".twin", twin.ID, r.RelTo})
						v.Status["fixed"] = append(v.Status["fixed"], r.FullID+".twin")
						return "the same package key twice without arch"
					}
				}
			}
		}
	case 14:
		if len(v.Threats) > 0 {
			t := v.Threats[g.r.Intn(len(v.Threats))]
			t.Details = "Critical"
			v.Threats = append(v.Threats, t) // a later impact threat for the same products: the first one counts
			return "a second impact threat"
		}
	default:
		if len(v.Rems) > 0 {
			r := v.Rems[0]
			r.URL = "https://access.redhat.com/errata/RHSA-0000:0000"
			v.Rems = append(v.Rems, r)
			return "a second remediation"
		}
	}
	return ""
}

// pickRefs draws unusual document references.
func (g *gen) pickRefs() [][2]string {
	switch g.r.Intn(3) {
	case 0:
		return nil
	case 1:
		return [][2]string{{"self", "https://example.com/first"}, {"self", "https://example.com/second"}}
	}
	return [][2]string{{"external", "https://example.com/only-external"}}
}

// ---- rendering: CSAF JSON ----

func renderBranch(b *cBranch) map[string]any {
	m := map[string]any{"category": b.Category, "name": b.Name}
	if b.Product != nil {
		h := map[string]string{}
		if b.Product.CPE != nil {
			h["cpe"] = *b.Product.CPE
		}
		if b.Product.Purl != nil {
			h["purl"] = *b.Product.Purl
		}
		p := map[string]any{"name": b.Product.ID, "product_id": b.Product.ID}
		if len(h) > 0 {
			p["product_identification_helper"] = h
		}
		m["product"] = p
	}
	if len(b.Subs) > 0 {
		var subs []map[string]any
		for _, s := range b.Subs {
			subs = append(subs, renderBranch(s))
		}
		m["branches"] = subs
	}
	return m
}

func renderCvss(c *cCvss, version string) map[string]any {
	ver := version
	if version == "3" {
		ver = "3.1"
		if strings.HasPrefix(c.Vector, "CVSS:3.0") {
			ver = "3.0"
		}
	}
	return map[string]any{"baseScore": c.Base, "baseSeverity": "HIGH", "vectorString": c.Vector, "version": ver}
}

// renderCSAF renders one CSAF document (one line of the feed).
func renderCSAF(c cDoc) []byte {
	var refs []map[string]string
	for _, r := range c.DocRefs {
		refs = append(refs, map[string]string{"category": r[0], "summary": "x", "url": r[1]})
	}
	var branches []map[string]any
	for _, b := range c.Branches {
		branches = append(branches, renderBranch(b))
	}
	var rels []map[string]any
	for _, r := range c.Rels {
		rels = append(rels, map[string]any{"category": r.Category, "full_product_name": map[string]any{"name": r.Ref + " as a component of " + r.RelTo, "product_id": r.FullID},
			"product_reference": r.Ref, "relates_to_product_reference": r.RelTo})
	}
	var vulns []any
	for _, v := range c.Vulns {
		m := map[string]any{"cve": v.CVE, "product_status": v.Status}
		if !v.Issued.IsZero() {
			m["release_date"] = v.Issued.Format(time.RFC3339)
		}
		var notes []map[string]string
		for _, n := range v.Notes {
			notes = append(notes, map[string]string{"category": n[0], "text": n[1], "title": "t"})
		}
		m["notes"] = notes
		var rs []map[string]string
		for _, u := range v.Refs {
			rs = append(rs, map[string]string{"category": "external", "summary": "x", "url": u})
		}
		m["references"] = rs
		var ts []map[string]any
		for _, t := range v.Threats {
			ts = append(ts, map[string]any{"category": t.Category, "details": t.Details, "product_ids": t.Products})
		}
		m["threats"] = ts
		var ss []map[string]any
		for _, s := range v.Scores {
			sm := map[string]any{"products": s.Products}
			if s.V2 != nil {
				sm["cvss_v2"] = renderCvss(s.V2, "2.0")
			}
			if s.V3 != nil {
				sm["cvss_v3"] = renderCvss(s.V3, "3")
			}
			if s.V4 != nil {
				sm["cvss_v4"] = renderCvss(s.V4, "4.0")
			}
			ss = append(ss, sm)
		}
		m["scores"] = ss
		var rms []map[string]any
		for _, r := range v.Rems {
			rms = append(rms, map[string]any{"category": "vendor_fix", "details": "apply the update", "product_ids": r.Products, "url": r.URL})
		}
		m["remediations"] = rms
		vulns = append(vulns, m)
	}
	doc := map[string]any{
		"document": map[string]any{"category": "csaf_vex", "csaf_version": "2.0", "title": c.ID,
			"tracking":   map[string]any{"id": c.ID, "status": c.Status, "current_release_date": "2024-09-16T20:59:13+00:00", "initial_release_date": "2024-08-08T00:00:00+00:00", "version": "3"},
			"references": refs,
			"publisher":  map[string]string{"category": "vendor", "name": "Red Hat Product Security", "namespace": "https://www.redhat.com"}},
		"product_tree":    map[string]any{"branches": branches, "relationships": rels},
		"vulnerabilities": vulns,
	}
	b, _ := json.Marshal(doc)
	return b
}

// ---- op line ----

type vexTables struct {
	cpes map[string]bool
	tags map[string]bool
}

func (l *line) vexProduct(p *cProduct, tb *vexTables) *line {
	if p == nil {
		return l.str("").n(0).n(0)
	}
	l.str(p.ID)
	if p.CPE == nil {
		l.n(0)
	} else {
		l.n(1).str(*p.CPE)
		tb.cpes[escapeCPEGo(*p.CPE)] = true
	}
	if p.Purl == nil {
		return l.n(0)
	}
	u, err := packageurl.FromString(*p.Purl)
	if err != nil {
		return l.n(1)
	}
	q := u.Qualifiers.Map()
	l.n(2).str(u.Type).str(u.Namespace).str(u.Name).str(u.Version).str(q["arch"])
	for _, k := range []string{"epoch", "tag", "repository_url"} {
		if x, ok := q[k]; ok {
			l.n(1).str(x)
			if k == "tag" {
				tb.tags[x] = true
			}
		} else {
			l.n(0)
		}
	}
	return l
}

func (l *line) vexBranch(b *cBranch, tb *vexTables) *line {
	l.vexProduct(b.Product, tb).n(len(b.Subs))
	for _, s := range b.Subs {
		l.vexBranch(s, tb)
	}
	return l
}

func (l *line) cvss(c *cCvss, parse func(string) error) *line {
	if c == nil {
		return l.n(0)
	}
	ok, zero := 0, 0
	if parse(c.Vector) == nil {
		ok = 1
	}
	if c.Base == 0 {
		zero = 1
	}
	return l.n(1).str(c.Vector).n(ok).n(zero)
}

func (l *line) vexDoc(c cDoc, tb *vexTables) *line {
	l.str(c.ID).str(c.Status).n(len(c.DocRefs))
	for _, r := range c.DocRefs {
		l.str(r[0]).str(r[1])
	}
	// the root of the tree is the product_tree object itself: no product, the top-level branches
	l.vexProduct(nil, tb).n(len(c.Branches))
	for _, b := range c.Branches {
		l.vexBranch(b, tb)
	}
	l.n(len(c.Rels))
	for _, r := range c.Rels {
		l.str(r.Category).str(r.FullID).str(r.Ref).str(r.RelTo)
	}
	l.n(len(c.Vulns))
	for _, v := range c.Vulns {
		l.str(issuedTok(v.Issued)).strs(v.Refs).n(len(v.Notes))
		for _, n := range v.Notes {
			l.str(n[0]).str(n[1])
		}
		l.strs(v.Status["fixed"]).strs(v.Status["known_affected"])
		var other []string
		for _, k := range v.StatusKeys {
			if k != "fixed" && k != "known_affected" {
				other = append(other, v.Status[k]...)
			}
		}
		l.strs(other)
		l.n(len(v.Threats))
		for _, t := range v.Threats {
			l.str(t.Category).str(t.Details).strs(t.Products)
		}
		l.n(len(v.Scores))
		for _, s := range v.Scores {
			l.cvss(s.V2, func(x string) error { _, err := cvss.ParseV2(x); return err })
			l.cvss(s.V3, func(x string) error { _, err := cvss.ParseV3(x); return err })
			l.cvss(s.V4, func(x string) error { _, err := cvss.ParseV4(x); return err })
			l.strs(s.Products)
		}
		l.n(len(v.Rems))
		for _, r := range v.Rems {
			l.str(r.URL).strs(r.Products)
		}
	}
	return l
}

// vexLine is the whole operation line: updater, the cpe.Unbind and rhctag.Parse
// tables for every string the documents contain, the documents.
func vexLine(updater string, docs []cDoc) string {
	tb := &vexTables{cpes: map[string]bool{}, tags: map[string]bool{}}
	body := &line{}
	body.n(len(docs))
	for _, c := range docs {
		body.vexDoc(c, tb)
	}
	l := (&line{}).tok("vex").str(updater)
	ck := make([]string, 0, len(tb.cpes))
	for k := range tb.cpes {
		ck = append(ck, k)
	}
	sort.Strings(ck)
	l.n(len(ck))
	for _, k := range ck {
		l.str(k)
		if w, err := cpe.Unbind(k); err == nil {
			l.n(1).str(w.String())
		} else {
			l.n(0)
		}
	}
	tk := make([]string, 0, len(tb.tags))
	for k := range tb.tags {
		tk = append(tk, k)
	}
	sort.Strings(tk)
	l.n(len(tk))
	for _, k := range tk {
		l.str(k)
		if v, err := rhctag.Parse(k); err == nil {
			cv := v.Version(true)
			if cv.V[0] < 0 || cv.V[1] < 0 {
				l.n(0) // never generated
			} else {
				l.n(1).n(int(cv.V[0])).n(int(cv.V[1]))
			}
		} else {
			l.n(0)
		}
	}
	return l.String() + " " + body.String()
}

func scoreKey(vec string, zero bool) string {
	if zero {
		return vec + "|zero"
	}
	return vec + "|"
}

func sortedSetKeys(m map[string][]string) []string {
	ks := make([]string, 0, len(m))
	for k := range m {
		ks = append(ks, k)
	}
	sort.Strings(ks)
	return ks
}

func vexArch(a string) string {
	if a == "amd64" || a == "x86_64" {
		return "amd64|x86_64"
	}
	return a
}

const goldRepoKey = "Red Hat Container Catalog||https://catalog.redhat.com/software/containers/explore"

// vexWants: what the documents state, as (name, package, fixed, repo, module, arch pattern, kind, severity string, links, range) tuples.
func vexWants(docs []vexDoc) (wants []want, deleted map[string]bool, zeroScore int) {
	deleted = map[string]bool{}
	last := map[string]int{}
	for i, d := range docs {
		if d.Status != "deleted" {
			last[d.ID] = i
		}
	}
	for i, d := range docs {
		if d.Status == "deleted" {
			deleted[d.ID] = true
			continue
		}
		if last[d.ID] != i {
			continue // a later line for the same advisory replaces this one
		}
		links := strings.Join(append(append([]string{}, d.Refs...), d.SelfLink), " ")
		n := 0
		mk := func(pkg, fixed, repo, mod, arch, kind string, archop int, impact, vector, lnk, rng string) {
			sevstr := "Unknown"
			if vector != "" {
				sevstr = vector
			}
			nsev := claircore.Unknown
			if impact != "" {
				nsev = rhel.NormalizeSeverityForC14(impact)
			}
			wants = append(wants, want{ID: d.ID, Pkg: pkg, Fixed: fixed, Dist: "", Sev: nsev,
				Extra: fmt.Sprintf("kind=%s module=%s arch=%s archop=%d repo=%s sevstr=%q links=%q desc=%q issued=%s range=%s", kind, mod, arch, archop, repo, sevstr, lnk, d.Desc, issuedTok(d.Issued), rng)})
			n++
		}
		cpeRepo := func(c string) string {
			w, _ := cpe.Unbind(escapeCPEGo(c))
			return w.String() + "|rhel-cpe-repository|"
		}
		modName := func(m int) string {
			if m < 0 {
				return ""
			}
			return d.Modules[m].Name + ":" + d.Modules[m].Stream
		}
		// container images: the lowest fixed minor series per image name starts at zero
		lowest := map[string][2]int{}
		for _, f := range d.Fixed {
			if f.OCI {
				if cur, ok := lowest[f.Name]; !ok || f.Maj < cur[0] || (f.Maj == cur[0] && f.Min < cur[1]) {
					lowest[f.Name] = [2]int{f.Maj, f.Min}
				}
			}
		}
		lowestUsed := map[string]bool{}
		for _, f := range d.Fixed {
			if f.Namespace != "redhat" || strings.HasPrefix(f.Name, "kernel") {
				continue
			}
			if f.Vector != "" && f.ZeroScore && f.Impact == "" {
				zeroScore++ // a 0.0 base score and no impact statement: the product is disregarded
				continue
			}
			var as []string
			for _, a := range f.Arches {
				as = append(as, vexArch(a))
			}
			archop := 0
			if len(as) > 0 {
				archop = int(claircore.OpPatternMatch)
			}
			lnk := links
			if f.Remediation != "" {
				lnk += " " + f.Remediation
			}
			if f.OCI {
				lo := fmt.Sprintf("%s:%d.%d.0.0", hs("rhctag"), f.Maj, f.Min)
				if lowest[f.Name] == [2]int{f.Maj, f.Min} && !lowestUsed[f.Name] {
					lowestUsed[f.Name] = true
					lo = fmt.Sprintf("%s:0.0.0.0", hs("rhctag"))
				}
				mk(f.Name, f.Tag, goldRepoKey, "", strings.Join(as, "|"), claircore.BINARY, archop, f.Impact, f.Vector, lnk,
					fmt.Sprintf("%s~%s:%d.%d.2147483647.0", lo, hs("rhctag"), f.Maj, f.Min))
				continue
			}
			ep := f.Epoch
			if ep == "" {
				ep = "0"
			}
			mk(f.Name, ep+":"+f.VR, cpeRepo(d.Repos[f.Repo].CPE), modName(f.Module), strings.Join(as, "|"), claircore.BINARY, archop, f.Impact, f.Vector, lnk, "nil")
		}
		for _, u := range d.Unfixed {
			if u.Status != "known_affected" || strings.HasPrefix(u.Name, "kernel") {
				continue
			}
			if u.Vector != "" && u.ZeroScore && u.Impact == "" {
				zeroScore++
				continue
			}
			if u.OCI {
				mk(u.Name, "", goldRepoKey, "", "", claircore.SOURCE, 0, u.Impact, u.Vector, links,
					fmt.Sprintf("%s:0.0.0.0~%s:2147483647.0.0.0", hs("rhctag"), hs("rhctag")))
				continue
			}
			mk(u.Name, "", cpeRepo(d.Repos[u.Repo].CPE), modName(u.Module), "", claircore.SOURCE, 0, u.Impact, u.Vector, links, "nil")
		}
		if n == 0 {
			deleted[d.ID] = true // an advisory that yields nothing is reported as deleted
		}
	}
	return wants, deleted, zeroScore
}

// escapeCPEGo mirrors the parser's handling of a trailing '*' / '?' in a CPE 2.2 URI component.
func escapeCPEGo(ch string) string {
	c := strings.Split(ch, ":")
	for i := range c {
		if strings.HasSuffix(c[i], "*") {
			c[i] = c[i][:len(c[i])-1] + `%02`
		}
		c[i] = strings.ReplaceAll(c[i], "?", "%01")
	}
	return strings.Join(c, ":")
}

func vexExtra(v *claircore.Vulnerability) string {
	kind, mod, arch := "?", "", ""
	if v.Package != nil {
		kind, mod, arch = v.Package.Kind, v.Package.Module, v.Package.Arch
	}
	return fmt.Sprintf("kind=%s module=%s arch=%s archop=%d repo=%s sevstr=%q links=%q desc=%q issued=%s range=%s", kind, mod, arch, int(v.ArchOperation), repoKeyNoCPE(v.Repo), v.Severity, v.Links, v.Description,
		issuedTok(v.Issued), rangeStr(v.Range))
}

// vexCanon renders a DeltaParse result: the vulnerabilities grouped by
// advisory (map order is not observable; inside an advisory the order is kept)
// and the deleted names, sorted.
func vexCanon(vs []*claircore.Vulnerability, del []string, err error) string {
	if err != nil {
		return "err"
	}
	rs := make([]*claircore.Vulnerability, len(vs))
	copy(rs, vs)
	sort.SliceStable(rs, func(i, j int) bool { return rs[i].Name < rs[j].Name })
	out := []string{"ok " + strconv.Itoa(len(rs))}
	for _, v := range rs {
		out = append(out, canon(v))
	}
	ds := make([]string, len(del))
	for i, d := range del {
		ds[i] = hs(d)
	}
	sort.Strings(ds)
	out = append(out, "del "+strconv.Itoa(len(ds)))
	return strings.Join(append(out, ds...), " ")
}

// vexScenario renders the documents, runs the real DeltaParse, records the
// protocol line and returns the result.
func vexScenario(r *hx.Run, docs []cDoc, nontrivial bool) (vs []*claircore.Vulnerability, del []string, err error, obs string, plain []byte) {
	u := &vex.Updater{}
	var pb bytes.Buffer
	for _, c := range docs {
		pb.Write(renderCSAF(c))
		pb.WriteByte('\n')
	}
	var comp bytes.Buffer
	sw := snappy.NewBufferedWriter(&comp)
	sw.Write(pb.Bytes())
	sw.Close()
	obs = hx.Guard(func() string {
		vs, del, err = u.DeltaParse(context.Background(), io.NopCloser(bytes.NewReader(comp.Bytes())))
		return ""
	})
	out := obs
	if obs == "" {
		out = vexCanon(vs, del, err)
	}
	r.Op("reset", "ok", false)
	r.Op(vexLine(u.Name(), docs), out, nontrivial)
	return vs, del, err, obs, pb.Bytes()
}

func runVex(r *hx.Run, g *gen, cfg hx.Config) {
	vexWitnesses(r)
	for it, n := 0, cfg.N(1200, 10000); it < n && !r.Stop(); it++ {
		var docs []vexDoc
		for i, m := 0, 1+g.r.Intn(3); i < m; i++ {
			docs = append(docs, g.vexDoc(it*4+i))
		}
		if len(docs) > 1 && docs[0].Status == "final" && g.r.Chance(1, 5) {
			// a later line for the first advisory again
			d := g.vexDoc(it * 4)
			d.Status = "final"
			docs = append(docs, d)
		}
		modelOnly := ""
		var cdocs []cDoc
		ids := map[string]int{}
		for i := range docs {
			c := docs[i].decoded()
			if docs[i].Status != "deleted" && g.r.Chance(1, 5) {
				if what := g.alter(&c); what != "" {
					modelOnly = what
					r.Count("vex:altered:" + what)
				}
			}
			cdocs = append(cdocs, c)
			ids[docs[i].ID]++
		}
		for _, d := range docs {
			if d.Status == "deleted" && ids[d.ID] > 1 {
				modelOnly = "document and deletion record for one advisory" // Fetch never writes both
			}
			for _, f := range d.Fixed {
				if f.OCI && f.Vector != "" && f.ZeroScore && f.Impact == "" {
					modelOnly = "a disregarded container image stays in the ranger"
				}
			}
		}
		wants, wantDel, nz := vexWants(docs)
		for i := 0; i < nz; i++ {
			r.Count("vex:zero-score-disregarded")
		}
		vs, del, err, obs, plain := vexScenario(r, cdocs, len(wants) > 0)
		r.Count("vex:vulns:" + bucket(len(wants)))
		for _, d := range docs {
			for _, x := range d.Unfixed {
				r.Count("vex:status:" + x.Status)
			}
			for _, f := range d.Fixed {
				if f.OCI {
					r.Count("vex:fixed:container-image")
				} else if f.Module >= 0 {
					r.Count("vex:fixed:rpm-in-module")
				} else {
					r.Count("vex:fixed:rpm")
				}
			}
			r.Count("vex:fixed-components:" + bucket(len(d.Fixed)))
		}
		if modelOnly != "" {
			r.Count("vex:scenario:model-only")
			if obs != "" {
				r.Fail("", fmt.Sprintf("vex DeltaParse (%s): %s; feed=%s", modelOnly, obs, clip(plain)))
			}
			continue
		}
		r.Count("vex:scenario:checked")
		wit := func() string { return "feed=" + clip(plain) }
		if obs != "" || err != nil {
			r.Fail("", fmt.Sprintf("vex DeltaParse of well-formed CSAF documents: %s%v; %s", obs, err, wit()))
			continue
		}
		if d := checkExact(wants, vs, vexExtra); d != "" {
			r.Fail("", fmt.Sprintf("vex: %s; %s", d, wit()))
			continue
		}
		gotDel := map[string]bool{}
		for _, x := range del {
			gotDel[x] = true
		}
		for k := range wantDel {
			if !gotDel[k] {
				r.Fail("", fmt.Sprintf("vex: advisory %s yields nothing but is not reported as deleted; %s", k, wit()))
			}
		}
		for k := range gotDel {
			if !wantDel[k] {
				r.Fail("", fmt.Sprintf("vex: advisory %s is reported as deleted although it states vulnerabilities; %s", k, wit()))
			}
		}
		for _, v := range vs {
			if v.Repo != nil && v.Repo.Key != "" {
				if w, err := cpe.Unbind(v.Repo.Name); err != nil || w.String() != v.Repo.CPE.String() {
					r.Fail("", fmt.Sprintf("vex: repository %q carries CPE %q; %s", v.Repo.Name, v.Repo.CPE.String(), wit()))
				}
			}
		}
	}
}

// vexWitnesses replays the fixed witnesses of repaired defects.
func vexWitnesses(r *hx.Run) {
	// 1. fixed 5c0bf101: two advisories use the repository id REPO for different CPEs
	mk := func(id, cpeURI string, moduleDeclared bool) cDoc {
		comp := []*cBranch{
			{Category: "product_name", Name: "r", Product: &cProduct{ID: "REPO", CPE: sp(cpeURI)}},
			{Category: "product_version", Name: "c", Product: &cProduct{ID: "curl", Purl: sp("pkg:rpm/redhat/curl?arch=src")}},
		}
		if moduleDeclared {
			comp = append(comp, &cBranch{Category: "product_version", Name: "m", Product: &cProduct{ID: "nodejs:12:1:abc", Purl: sp("pkg:rpmmod/redhat/nodejs@12%3A1%3Aabc")}})
		}
		return cDoc{ID: id, Status: "final", DocRefs: [][2]string{{"self", "https://example.com/" + id}},
			Branches: []*cBranch{{Category: "vendor", Name: "Red Hat", Subs: comp}},
			Rels: []cRel{{"default_component_of", "REPO:curl", "curl", "REPO"}, {"default_component_of", "REPO:nodejs:12:1:abc", "nodejs:12:1:abc", "REPO"},
				{"default_component_of", "REPO:nodejs:12:1:abc:curl", "curl", "REPO:nodejs:12:1:abc"}},
			Vulns: []cVuln{{CVE: id, Status: map[string][]string{"known_affected": {"REPO:curl", "REPO:nodejs:12:1:abc:curl"}}, StatusKeys: []string{"known_affected"},
				Threats: []cThreat{{"impact", "Low", []string{"REPO:curl", "REPO:nodejs:12:1:abc:curl"}}}}}}
	}
	{
		vs, _, err, obs, _ := vexScenario(r, []cDoc{mk("CVE-2024-0001", "cpe:/o:redhat:enterprise_linux:8", true), mk("CVE-2024-0002", "cpe:/o:redhat:enterprise_linux:9", true)}, true)
		var got []string
		for _, v := range vs {
			if v != nil && v.Repo != nil {
				got = append(got, v.Name+"@"+v.Repo.Name)
			}
		}
		sort.Strings(got)
		want := "CVE-2024-0001@cpe:2.3:o:redhat:enterprise_linux:8:*:*:*:*:*:*:* CVE-2024-0001@cpe:2.3:o:redhat:enterprise_linux:8:*:*:*:*:*:*:* CVE-2024-0002@cpe:2.3:o:redhat:enterprise_linux:9:*:*:*:*:*:*:* CVE-2024-0002@cpe:2.3:o:redhat:enterprise_linux:9:*:*:*:*:*:*:*"
		if obs != "" || err != nil || strings.Join(got, " ") != want {
			r.Fail("", fmt.Sprintf("vex: two advisories whose product id REPO stands for enterprise_linux:8 resp. :9 yield %s%v %v", obs, err, got))
		}
	}
	// 2. fixed c495f448: the module product id of a relationship chain is not declared in the product tree
	{
		vs, _, err, obs, _ := vexScenario(r, []cDoc{mk("CVE-2024-0003", "cpe:/o:redhat:enterprise_linux:8", false)}, true)
		if obs != "" || err != nil || len(vs) != 2 {
			r.Fail("", fmt.Sprintf("vex: a relationship chain through an undeclared module product id yields %s%v and %d vulnerabilities", obs, err, len(vs)))
		}
	}
}
