package c14

import (
	"bytes"
	"context"
	"encoding/json"
	"encoding/xml"
	"fmt"
	"io"
	"strconv"
	"strings"
	"time"

	"github.com/quay/claircore"
	"github.com/quay/claircore/alpine"
	"github.com/quay/claircore/aws"
	"github.com/quay/claircore/debian"
	"github.com/quay/claircore/verifharness/internal/hx"
)

func rc(b []byte) io.ReadCloser { return io.NopCloser(bytes.NewReader(b)) }

// clip renders a feed inside a one-line witness.
func clip(b []byte) string {
	const max = 3000
	s := strings.ToValidUTF8(strings.ReplaceAll(string(b), "\n", " "), "?")
	if len(s) > max {
		return strings.ToValidUTF8(s[:max], "") + "…(" + strconv.Itoa(len(b)) + " bytes)"
	}
	return s
}

// ---------------------------------------------------------------- Alpine secdb

type secdbPkg struct {
	Name  string
	Fixes []secdbFix // distinct versions
}
type secdbFix struct {
	Ver string
	IDs []string
}

func (g *gen) secdb() []secdbPkg {
	var pkgs []secdbPkg
	for i, n := 0, g.r.Intn(5); i < n; i++ {
		p := secdbPkg{Name: g.pkg()}
		vers := distinct(g.r.Intn(4), func() string {
			if g.r.Chance(1, 6) {
				return "0" // "not affected" marker of the secdb format
			}
			return g.debVersion()
		})
		for _, v := range vers {
			f := secdbFix{Ver: v}
			for j, m := 0, g.r.Intn(4); j < m; j++ {
				id := g.cve()
				if g.r.Chance(1, 10) {
					id = g.r.Pick("XSA-", "ALPINE-", "GHSA-") + g.word(2, 5)
				}
				if g.r.Chance(1, 12) {
					id += " " + g.cve() // the real database has a few "CVE-a CVE-b" strings
				}
				f.IDs = append(f.IDs, id)
			}
			p.Fixes = append(p.Fixes, f)
		}
		pkgs = append(pkgs, p)
	}
	return pkgs
}

func renderSecdb(rel, repo string, pkgs []secdbPkg) []byte {
	type pkgJSON struct {
		Pkg map[string]any `json:"pkg"`
	}
	doc := map[string]any{
		"distroversion": rel, "reponame": repo, "urlprefix": "https://dl-cdn.alpinelinux.org/alpine",
		"apkurl": "{{urlprefix}}/{{distroversion}}/{{reponame}}/{{arch}}/{{pkg.name}}-{{pkg.ver}}.apk",
		"archs":  []string{"x86_64", "aarch64"},
	}
	ps := []pkgJSON{}
	for _, p := range pkgs {
		fx := map[string][]string{}
		for _, f := range p.Fixes {
			ids := f.IDs
			if ids == nil {
				ids = []string{}
			}
			fx[f.Ver] = ids
		}
		ps = append(ps, pkgJSON{Pkg: map[string]any{"name": p.Name, "secfixes": fx}})
	}
	doc["packages"] = ps
	b, _ := json.Marshal(doc)
	return b
}

func runSecdb(r *hx.Run, g *gen, cfg hx.Config) {
	var m alpine.Matcher
	for it, n := 0, cfg.N(1500, 12000); it < n && !r.Stop(); it++ {
		edge := g.r.Chance(1, 8)
		maj, min := 3, 3+g.r.Intn(18)
		repo := g.r.Pick("main", "community")
		p := alpine.ParserForC14(edge, maj, min, repo)
		rel := fmt.Sprintf("v%d.%d", maj, min)
		dist := mkDistKey("alpine", fmt.Sprintf("%d.%d", maj, min), "", "Alpine Linux", "", fmt.Sprintf("Alpine Linux v%d.%d", maj, min), "")
		if edge {
			rel, dist = "edge", mkDistKey("alpine", "edge", "", "Alpine Linux", "", "Alpine Linux edge", "")
		}
		pkgs := g.secdb()
		if it == 0 {
			pkgs = nil
		}
		feed := renderSecdb(rel, repo, pkgs)
		l := (&line{}).tok("secdb").str(fmt.Sprintf("alpine-%s-%s-updater", repo, rel)).str(dist).n(len(pkgs))
		var wants []want
		for _, pk := range pkgs {
			l.str(pk.Name).n(len(pk.Fixes))
			for _, f := range pk.Fixes {
				l.str(f.Ver).n(len(f.IDs))
				for _, id := range f.IDs {
					l.str(id)
					wants = append(wants, want{ID: id, Pkg: pk.Name, Fixed: f.Ver, Dist: dist, Sev: claircore.Unknown,
						Extra: fmt.Sprintf("links=%q desc=%q sevstr=%q issued=", "https://security.alpinelinux.org/vuln/"+id, "", "")})
				}
			}
		}
		r.Op("reset", "ok", false)
		vs, err, obs := parseWithTimeout(func(ctx context.Context) ([]*claircore.Vulnerability, error) { return p.Parse(ctx, rc(feed)) })
		out := obs
		if obs == "" {
			out = canonAll(vs, err, true)
		}
		r.Op(l.String(), out, len(wants) > 0)
		r.Count(fmt.Sprintf("secdb:vulns:%s", bucket(len(wants))))
		if edge {
			r.Count("secdb:edge")
		}
		if obs != "" || err != nil {
			r.Fail("", fmt.Sprintf("alpine Parse of a well-formed secdb: %s%v feed=%s", obs, err, clip(feed)))
			continue
		}
		if d := checkExact(wants, vs, advExtra); d != "" {
			r.Fail("", fmt.Sprintf("alpine secdb: %s; feed=%s", d, clip(feed)))
		}
		for _, v := range vs {
			if v.Package == nil || v.Package.Kind != claircore.SOURCE {
				r.Fail("", fmt.Sprintf("alpine secdb: %s is not attached to a source package; feed=%s", v.Name, clip(feed)))
			}
			// entries the format marks as not affected (fixed version "0") must never match a package
			if v.FixedInVersion == "0" {
				r.Count("secdb:not-affected-marker")
				rec := &claircore.IndexRecord{Package: &claircore.Package{Name: v.Package.Name, Version: g.debVersion()}, Distribution: v.Dist}
				ok, err := m.Vulnerable(context.Background(), rec, v)
				if err != nil || ok {
					r.Fail("", fmt.Sprintf("alpine: %s of %s is marked not affected (secfixes \"0\") yet matches package version %s", v.Name, v.Package.Name, rec.Package.Version))
				}
			}
		}
	}
}

// advExtra: the advisory-level fields of the flat formats.
func advExtra(v *claircore.Vulnerability) string {
	return fmt.Sprintf("links=%q desc=%q sevstr=%q issued=%s", v.Links, v.Description, v.Severity, issuedTok(v.Issued))
}

func bucket(n int) string {
	switch {
	case n == 0:
		return "0"
	case n <= 3:
		return "1-3"
	case n <= 10:
		return "4-10"
	case n <= 30:
		return "11-30"
	}
	return "31+"
}

// ---------------------------------------------------------------- Debian tracker JSON

var debKnown = []struct {
	name string
	ver  int
}{{"buster", 10}, {"bullseye", 11}, {"bookworm", 12}, {"trixie", 13}}

var debUrgencies = []string{"unimportant", "low", "medium", "high", "not yet assigned", "end-of-life", "low**", "medium**", "high**", "", "Low", "HIGH", "critical"}

type debRel struct{ Release, Status, Fixed, Urgency string }
type debVuln struct {
	ID, Desc string
	Rels     []debRel
}
type debSrc struct {
	Name  string
	Vulns []debVuln
}

func (g *gen) debian() []debSrc {
	var out []debSrc
	for _, src := range distinct(g.r.Intn(5), g.pkg) {
		s := debSrc{Name: src}
		for _, id := range distinct(g.r.Intn(4), func() string {
			if g.r.Chance(1, 8) {
				return "TEMP-0000000-" + g.word(6, 6)
			}
			return g.cve()
		}) {
			v := debVuln{ID: id, Desc: g.text(5)}
			for _, rel := range distinct(g.r.Intn(5), func() string {
				if g.r.Chance(1, 4) {
					return g.r.Pick("sid", "experimental", "jessie", "stretch", "forky", "Bullseye", "")
				}
				return debKnown[g.r.Intn(len(debKnown))].name
			}) {
				d := debRel{Release: rel, Urgency: g.r.Pick(debUrgencies...)}
				switch g.r.Intn(5) {
				case 0:
					d.Status, d.Fixed = "open", ""
				case 1:
					d.Status, d.Fixed = "resolved", "0" // not affected
				case 2:
					d.Status, d.Fixed = "undetermined", ""
				default:
					d.Status, d.Fixed = "resolved", g.debVersion()
				}
				v.Rels = append(v.Rels, d)
			}
			s.Vulns = append(s.Vulns, v)
		}
		out = append(out, s)
	}
	return out
}

func debDistKey(name string, ver int) string {
	return mkDistKey("debian", strconv.Itoa(ver), name, "Debian GNU/Linux", fmt.Sprintf("%d (%s)", ver, name), fmt.Sprintf("Debian GNU/Linux %d (%s)", ver, name), "")
}

func renderDebian(data []debSrc) []byte {
	doc := map[string]any{}
	for _, s := range data {
		vm := map[string]any{}
		for _, v := range s.Vulns {
			rm := map[string]any{}
			for _, d := range v.Rels {
				e := map[string]any{"status": d.Status, "repositories": map[string]string{d.Release: "1.0-1"}, "urgency": d.Urgency}
				if d.Fixed != "" {
					e["fixed_version"] = d.Fixed
				}
				rm[d.Release] = e
			}
			e := map[string]any{"releases": rm, "scope": "local"}
			if v.Desc != "" {
				e["description"] = v.Desc
			}
			vm[v.ID] = e
		}
		doc[s.Name] = vm
	}
	b, _ := json.Marshal(doc)
	return b
}

func runDebian(r *hx.Run, g *gen, cfg hx.Config) {
	dists := map[string]*claircore.Distribution{}
	for _, k := range debKnown {
		dists[k.name] = debian.MkDistForC14(k.name, k.ver)
	}
	p := debian.ParserForC14()
	var m debian.Matcher
	for it, n := 0, cfg.N(1500, 12000); it < n && !r.Stop(); it++ {
		data := g.debian()
		feed := renderDebian(data)
		l := (&line{}).tok("debian").n(len(debKnown))
		for _, k := range debKnown {
			l.str(k.name).str(debDistKey(k.name, k.ver))
		}
		l.n(len(data))
		var wants []want
		for _, s := range data {
			l.str(s.Name).n(len(s.Vulns))
			for _, v := range s.Vulns {
				l.str(v.ID).str(v.Desc).n(len(v.Rels))
				for _, d := range v.Rels {
					l.str(d.Release).str(d.Status).str(d.Fixed).str(d.Urgency)
					known := -1
					for i, k := range debKnown {
						if k.name == d.Release {
							known = i
						}
					}
					if known < 0 {
						r.Count("debian:release-unknown")
						continue
					}
					r.Count("debian:status:" + d.Status)
					wants = append(wants, want{ID: v.ID, Pkg: s.Name, Fixed: d.Fixed, Dist: debDistKey(d.Release, debKnown[known].ver),
						Sev:   debian.NormalizeSeverityForC14(d.Urgency),
						Extra: fmt.Sprintf("links=%q desc=%q sevstr=%q issued=", "https://security-tracker.debian.org/tracker/"+v.ID, v.Desc, d.Urgency)})
				}
			}
		}
		r.Op("reset", "ok", false)
		vs, err, obs := parseWithTimeout(func(ctx context.Context) ([]*claircore.Vulnerability, error) { return p.Parse(ctx, rc(feed)) })
		out := obs
		if obs == "" {
			out = canonAll(vs, err, true)
		}
		r.Op(l.String(), out, len(wants) > 0)
		r.Count(fmt.Sprintf("debian:vulns:%s", bucket(len(wants))))
		if obs != "" || err != nil {
			r.Fail("", fmt.Sprintf("debian Parse of a well-formed tracker document: %s%v feed=%s", obs, err, clip(feed)))
			continue
		}
		if d := checkExact(wants, vs, advExtra); d != "" {
			r.Fail("", fmt.Sprintf("debian tracker: %s; feed=%s", d, clip(feed)))
		}
		for _, v := range vs {
			if v.Package == nil || v.Package.Kind != claircore.SOURCE {
				r.Fail("", fmt.Sprintf("debian tracker: %s is not attached to a source package; feed=%s", v.Name, clip(feed)))
				continue
			}
			if v.Dist == nil || dists[v.Dist.VersionCodeName] != v.Dist {
				r.Fail("", fmt.Sprintf("debian tracker: %s carries a distribution that is not the registered release; feed=%s", v.Name, clip(feed)))
			}
			if v.FixedInVersion == "0" {
				r.Count("debian:not-affected-marker")
				rec := &claircore.IndexRecord{Package: &claircore.Package{Name: v.Package.Name, Version: g.debVersion()}, Distribution: v.Dist}
				ok, err := m.Vulnerable(context.Background(), rec, v)
				if err != nil || ok {
					r.Fail("", fmt.Sprintf("debian: %s of %s is marked not affected (fixed_version 0) yet matches package version %s", v.Name, v.Package.Name, rec.Package.Version))
				}
			}
		}
	}
}

// ---------------------------------------------------------------- Amazon updateinfo

type alasPkg struct{ Name, Epoch, Version, Release, Arch string }
type alasUpdate struct {
	ID, Desc, Severity string
	Issued             time.Time // zero = no <issued> element
	IssuedFmt          int       // 0 = "2006-01-02 15:04", 1 = time.DateTime
	Refs               []string
	Colls              [][]alasPkg // pkglist collections
}

var awsSeverities = []string{"low", "medium", "important", "critical", "Low", "CRITICAL", "moderate", "", "high"}

func (g *gen) alas() []alasUpdate {
	var out []alasUpdate
	for i, n := 0, g.r.Intn(5); i < n; i++ {
		u := alasUpdate{ID: "ALAS-" + g.r.Pick(cveYears...) + "-" + strconv.Itoa(1+g.r.Intn(900)), Desc: g.text(6), Severity: g.r.Pick(awsSeverities...), Issued: g.date(), IssuedFmt: g.r.Intn(2)}
		if u.IssuedFmt == 0 {
			u.Issued = u.Issued.Truncate(time.Minute) // the short format has no seconds
		}
		for j, m := 0, g.r.Intn(4); j < m; j++ {
			if g.r.Chance(1, 8) {
				u.Refs = append(u.Refs, "")
			} else {
				u.Refs = append(u.Refs, "http://cve.mitre.org/cgi-bin/cvename.cgi?name="+g.cve())
			}
		}
		for c, nc := 0, 1+g.r.Intn(2); c < nc; c++ {
			var col []alasPkg
			for j, m := 0, g.r.Intn(5); j < m; j++ {
				col = append(col, alasPkg{Name: g.pkg(), Epoch: g.r.Pick("0", "0", "", "1", "2", "00"), Version: strconv.Itoa(g.r.Intn(9)) + "." + strconv.Itoa(g.r.Intn(30)),
					Release: strconv.Itoa(1+g.r.Intn(40)) + g.r.Pick(".amzn1", ".amzn2", ".amzn2023.0.1", ""), Arch: g.r.Pick("x86_64", "i686", "noarch", "aarch64", "")})
			}
			u.Colls = append(u.Colls, col)
		}
		out = append(out, u)
	}
	return out
}

func esc(s string) string {
	var b bytes.Buffer
	xml.EscapeText(&b, []byte(s))
	return b.String()
}

func renderAlas(ups []alasUpdate) []byte {
	var b strings.Builder
	b.WriteString("<?xml version=\"1.0\" ?>\n<updates>")
	for _, u := range ups {
		fmt.Fprintf(&b, `<update author="linux-security@amazon.com" from="linux-security@amazon.com" status="final" type="security" version="1.4">`)
		fmt.Fprintf(&b, "<id>%s</id><title>%s: %s priority package update</title>", esc(u.ID), esc(u.ID), esc(u.Severity))
		if !u.Issued.IsZero() {
			fmt.Fprintf(&b, "<issued date=\"%s\" />", u.Issued.Format([]string{"2006-01-02 15:04", time.DateTime}[u.IssuedFmt]))
		}
		b.WriteString("<updated date=\"2020-02-03 14:25:10\" />")
		fmt.Fprintf(&b, "<severity>%s</severity><description>%s</description><references>", esc(u.Severity), esc(u.Desc))
		for _, ref := range u.Refs {
			fmt.Fprintf(&b, `<reference href="%s" id="x" title="" type="cve" />`, esc(ref))
		}
		b.WriteString("</references><pkglist>")
		for _, col := range u.Colls {
			b.WriteString(`<collection short="amazon-linux"><name>Amazon Linux</name>`)
			for _, p := range col {
				fmt.Fprintf(&b, `<package arch="%s" epoch="%s" name="%s" release="%s" version="%s"><filename>Packages/%s.rpm</filename></package>`,
					esc(p.Arch), esc(p.Epoch), esc(p.Name), esc(p.Release), esc(p.Version), esc(p.Name))
			}
			b.WriteString("</collection>")
		}
		b.WriteString("</pkglist></update>\n")
	}
	b.WriteString("</updates>\n")
	return []byte(b.String())
}

func runAws(r *hx.Run, g *gen, cfg hx.Config) {
	rels := []struct {
		rel  aws.Release
		dist string
	}{{aws.AmazonLinux1, mkDistKey("amzn", "2018.03", "", "Amazon Linux AMI", "2018.03", "Amazon Linux AMI 2018.03", "cpe:/o:amazon:linux:2018.03:ga")},
		{aws.AmazonLinux2, mkDistKey("amzn", "2", "", "Amazon Linux", "2", "Amazon Linux 2", "cpe:2.3:o:amazon:amazon_linux:2")},
		{aws.AmazonLinux2023, mkDistKey("amzn", "2023", "", "Amazon Linux", "2023", "Amazon Linux 2023", "cpe:2.3:o:amazon:amazon_linux:2023")}}
	for it, n := 0, cfg.N(1500, 12000); it < n && !r.Stop(); it++ {
		rel := rels[g.r.Intn(len(rels))]
		u, _ := aws.NewUpdater(rel.rel)
		ups := g.alas()
		feed := renderAlas(ups)
		l := (&line{}).tok("aws").str(fmt.Sprintf("aws-%v-updater", rel.rel)).str(rel.dist).n(len(ups))
		var wants []want
		for _, up := range ups {
			l.str(up.ID).str(up.Desc).str(up.Severity).str(issuedTok(up.Issued)).n(len(up.Refs))
			for _, ref := range up.Refs {
				l.str(ref)
			}
			np := 0
			for _, c := range up.Colls {
				np += len(c)
			}
			l.n(np)
			for _, c := range up.Colls {
				for _, p := range c {
					l.str(p.Name).str(p.Epoch).str(p.Version).str(p.Release).str(p.Arch)
					fixed := p.Version + "-" + p.Release
					if p.Epoch != "" && p.Epoch != "0" {
						fixed = p.Epoch + ":" + fixed
					}
					wants = append(wants, want{ID: up.ID, Pkg: p.Name, Fixed: fixed, Dist: rel.dist, Extra: fmt.Sprintf("arch=%s issued=%s links=%q desc=%q sevstr=%q", p.Arch, issuedTok(up.Issued), strings.Join(up.Refs, " "), up.Desc, up.Severity), Sev: aws.NormalizeSeverity(up.Severity)})
				}
			}
		}
		r.Op("reset", "ok", false)
		vs, err, obs := parseWithTimeout(func(ctx context.Context) ([]*claircore.Vulnerability, error) { return u.Parse(ctx, rc(feed)) })
		out := obs
		if obs == "" {
			out = canonAll(vs, err, false)
		}
		r.Op(l.String(), out, len(wants) > 0)
		r.Count(fmt.Sprintf("aws:vulns:%s", bucket(len(wants))))
		if obs != "" || err != nil {
			r.Fail("", fmt.Sprintf("aws Parse of a well-formed updateinfo: %s%v feed=%s", obs, err, clip(feed)))
			continue
		}
		if d := checkExact(wants, vs, func(v *claircore.Vulnerability) string {
			if v.Package == nil {
				return "arch=?"
			}
			return fmt.Sprintf("arch=%s issued=%s links=%q desc=%q sevstr=%q", v.Package.Arch, issuedTok(v.Issued), v.Links, v.Description, v.Severity)
		}); d != "" {
			r.Fail("", fmt.Sprintf("aws updateinfo: %s; feed=%s", d, clip(feed)))
		}
		for _, v := range vs {
			if v.ArchOperation != claircore.OpEquals || v.Package == nil || v.Package.Kind != claircore.BINARY {
				r.Fail("", fmt.Sprintf("aws updateinfo: %s is not a binary package with an arch-equals constraint; feed=%s", v.Name, clip(feed)))
			}
		}
	}
}
